package currency

import "github.com/tinylib/msgp/msgp"

func (z Coin) Msgsize() (s int) {
	return sizeOfAmount()
}

func sizeOfAmount() int { return msgp.Uint64Size }

func (z Coin) MarshalMsg(b []byte) ([]byte, error) {
	return msgp.AppendUint64(msgp.Require(b, z.Msgsize()), uint64(z)), nil
}
