package currency

func HalfOf(a int64) (Coin, error) {
	if a < 0 {
		return 0, ErrNeg
	}
	return Half(Coin(a))
}

func Half(c Coin) (Coin, error) {
	if c > 1000 {
		return 0, ErrBig
	}
	return c / 2, nil
}
