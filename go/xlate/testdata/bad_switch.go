// want: SwitchStmt
package currency

import "errors"

var ErrX = errors.New("x")

type Coin uint64

func S(c Coin) Coin {
	switch c {
	case 1:
		return 2
	}
	return c
}
