package currency

import (
	"errors"
	"math"
	"math/bits"
)

var ErrOverflow = errors.New("overflow")
var ErrNaN = errors.New("nan")

type Coin uint64

const limit float64 = 1 << 64

// tuple assignment from math/bits
func MulBits(a, b Coin) (Coin, error) {
	hi, lo := bits.Mul64(uint64(a), uint64(b))
	if hi != 0 {
		return 0, ErrOverflow
	}
	return Coin(lo), nil
}

func AddSubBits(a, b Coin) (Coin, Coin) {
	sum, carry := bits.Add64(uint64(a), uint64(b), 0)
	diff, borrow := bits.Sub64(uint64(a), uint64(b), 0)
	return Coin(sum + carry), Coin(diff + borrow)
}

// tagless switch with default, named typed constant, math.IsNaN
func Classify(a float64) (Coin, error) {
	switch {
	case math.IsNaN(a):
		return 0, ErrNaN
	case a < 0, a >= limit:
		return 0, ErrOverflow
	default:
		return Coin(a), nil
	}
}

// tagged switch falling out of the switch, var declarations, compound assignment, ++
func Steps(c Coin) Coin {
	var t Coin
	var u Coin = 3
	switch c {
	case 0:
		t = 1
	case 1, 2:
		t = 5
	}
	t += u
	t *= 2
	t++
	u--
	return t - u
}

// unexported helper without error result, called in expression position
func double(c Coin) Coin {
	return c + c
}

func UsesHelper(c Coin) (Coin, error) {
	if c > 3 {
		return c + double(c), nil
	}
	d := double(c)
	return d, nil
}

func Width(c Coin) Coin {
	if bits.Len64(uint64(c)) > 32 {
		return 1
	}
	return 0
}
