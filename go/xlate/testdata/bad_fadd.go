// want: float operation
package currency

import "errors"

var ErrX = errors.New("x")

type Coin uint64

func Add(a, b float64) float64 {
	return a + b
}
