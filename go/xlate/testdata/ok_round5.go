package currency

import "errors"

var ErrNeg = errors.New("negative")
var ErrBig = errors.New("too big")

type Coin uint64

func ToCoin(a int64) (Coin, error) {
	if a < 0 {
		return 0, ErrNeg
	}
	return Coin(a), nil
}

func Plus(c, b Coin) (Coin, error) {
	if c+b < c {
		return 0, ErrBig
	}
	return c + b, nil
}

func Less(c, b Coin) (Coin, error) {
	if b > c {
		return 0, ErrBig
	}
	return c - b, nil
}

// a function-typed parameter: the helper is specialised per function passed (apply_Plus, apply_Less);
// if with an init clause assigning to existing variables
func apply(c Coin, a int64, op func(c, b Coin) (Coin, error)) (res Coin, err error) {
	var b Coin
	if b, err = ToCoin(a); err != nil {
		return 0, err
	}
	return op(c, b)
}

func PlusInt(c Coin, a int64) (Coin, error) {
	return apply(c, a, Plus)
}

func LessInt(c Coin, a int64) (Coin, error) {
	return apply(c, a, Less)
}

// if with an init clause declaring a new variable
func Clamp(c Coin) Coin {
	if d := c + 1; d > 10 {
		return 10
	}
	return c
}
