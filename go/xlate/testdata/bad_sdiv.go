// want: signed division
package currency

import "errors"

var ErrX = errors.New("x")

type Coin uint64

func Div(a, b int64) int64 {
	return a / b
}
