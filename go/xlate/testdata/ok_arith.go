package currency

import "errors"

var ErrOverflow = errors.New("overflow")
var ErrZero = errors.New("zero divisor")

type Coin uint64

// wrapping + - * on uint64 and int64
func Wrap(a, b Coin, i, j int64) (Coin, int64) {
	x := a + b
	y := x*a - b
	k := i*j + i - j
	return y, k
}

// / and % by a variable: explicit panic guard before each use
func DivMod(a, b Coin) (q, r Coin) {
	q = a / b
	r = a % b
	return
}

// / by a non-zero constant: the Go compiler already rejects a zero constant, no guard
func Tenth(a Coin) Coin {
	return a/10 + a%10
}

// short-circuit &&: the division is evaluated only when b != 0
func GuardedAnd(a, b Coin) (Coin, error) {
	if b != 0 && a/b > 1 {
		return 0, ErrOverflow
	}
	return a, nil
}

// short-circuit ||: the remainder is evaluated only when b != 0
func GuardedOr(a, b Coin) (Coin, error) {
	if b == 0 || a%b == 0 {
		return 0, ErrZero
	}
	return a % b, nil
}

// nested arithmetic inside a division: guards in evaluation order
func Nested(a, b, c Coin) Coin {
	return (a / b) / (c + 1)
}
