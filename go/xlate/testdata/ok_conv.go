package currency

import "math"

type Coin uint64

const Limit = 1 << 40
const Small int64 = -7

// conversions between the two 64-bit views keep the bits
func Views(c Coin, i int64) (int64, Coin, uint64) {
	a := int64(c)
	b := Coin(i)
	d := uint64(b) + uint64(i)
	return a, b, d
}

// constants: untyped, typed, negative, from package math
func Consts(c Coin, i int64) (Coin, int64) {
	if c > Limit {
		return Limit, Small
	}
	if c > math.MaxInt64 {
		return math.MaxUint64, math.MinInt64
	}
	if i < Small {
		return 0, -1
	}
	return c + 1<<3, i - 1
}

// integer <-> float
func Floats(c Coin, f float64) (float64, Coin) {
	g := float64(c)
	d := Coin(f)
	return g, d
}
