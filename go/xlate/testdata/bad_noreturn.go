// want: (?s)does not type-check.*missing return
package currency

import "errors"

var ErrX = errors.New("x")

type Coin uint64

func Maybe(c Coin) (r Coin) {
	if c > 1 {
		return
	}
	r = c
}
