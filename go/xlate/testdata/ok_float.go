package currency

import (
	"errors"
	"math"
)

var ErrNaN = errors.New("nan")
var ErrRange = errors.New("range")

type Coin uint64

// IEEE comparisons, NaN test, infinity test, product, constants as bit patterns
func Scale(c Coin, a float64) (Coin, error) {
	if a != a {
		return 0, ErrNaN
	}
	if math.IsInf(a, 1) || math.IsInf(a, -1) || math.IsInf(a, 0) {
		return 0, ErrRange
	}
	if a < 0 || a > 1e6 || a == 0.5 {
		return 0, ErrRange
	}
	p := float64(c) * a * 1.5
	if p >= 1<<64 || p <= -1 {
		return 0, ErrRange
	}
	return Coin(p), nil
}
