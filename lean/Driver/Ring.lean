import Driver.Util
import Verif.Model.RingGlue
import Verif.Gen.Constants
/-! Model driver for suites c20 and c20glue (op languages: see /verif/go/harness/suite_c20.go, suite_c20glue.go).
Runs the heap-level ring with the glue (`Verif.Model.RingGlue`): entries are objects, `GetLogs` returns pointers. -/
namespace Driver.Ring
open Verif.Ring Driver

/-- `logging.BufferSize` as regenerated from the Go source before the build (`Verif/Gen/Constants.lean`); the suite's
`cap` op compares it with the constant of the running code -/
def bufferSize : Nat := Verif.Gen.Constants.bufferSize

structure St where
  /-- the memory loggers (one for c20 / `new`; three after `init`: Logger, N2n, MemUsage) -/
  rings : Array GState := #[initG bufferSize (-1)]
  /-- per ring: the level from which zap attaches a stack trace (`AddStacktrace`); 100 = never -/
  stackLvl : Array Int := #[100]
  /-- zap loggers: (ring, core) -/
  loggers : Array (Nat × Nat) := #[(0, 0)]
  /-- pointer lists returned by the `getlogs` ops so far (ring 0) -/
  snaps : Array (List Nat) := #[]

def fmt (ms : List String) : String :=
  if ms.isEmpty then "ok 0 -" else "ok " ++ toString ms.length ++ " " ++ ",".intercalate ms

def lvlOf (s : String) : Int :=
  if s = "debug" then -1 else if s = "info" then 0 else if s = "warn" then 1 else if s = "error" then 2 else 100

def lvlName (l : Int) : String :=
  if l = -1 then "DEBUG" else if l = 0 then "INFO" else if l = 1 then "WARN" else if l = 2 then "ERROR" else "L" ++ toString l

def shownStr (e : Shown) : String :=
  lvlName e.lvl ++ ":" ++ e.msg ++ ":" ++
    (if e.fields.isEmpty then "-" else ";".intercalate (e.fields.map (fun (k, v) => k ++ "=" ++ v))) ++ ":" ++
    (if e.stack then "S" else "-")

def fmtShown (es : List Shown) : String :=
  if es.isEmpty then "ok 0 -" else "ok " ++ toString es.length ++ " " ++ "|".intercalate (es.map shownStr)

/-- write through zap logger `k` -/
def logVia (s : St) (k : Nat) (lvl : Int) (msg : String) (fields : List (String × String)) : St :=
  match s.loggers[k]? with
  | none => s
  | some (r, c) =>
    match s.rings[r]? with
    | none => s
    | some g =>
      let e : LEntry := { lvl := lvl, msg := msg, fields := fields, stack := decide (s.stackLvl.getD r 100 ≤ lvl) }
      { s with rings := s.rings.set! r (logG g c e) }

def logn (s : St) (k : Nat) : Nat → Nat → St
  | 0, _ => s
  | c + 1, start => logn (logVia s k 0 ("m" ++ toString start) []) k c (start + 1)

def logfn (s : St) (k : Nat) (lvl : Int) : Nat → Nat → St
  | 0, _ => s
  | c + 1, start => logfn (logVia s k lvl ("m" ++ toString start) []) k lvl c (start + 1)

def withVia (s : St) (k : Nat) : St × String :=
  match s.loggers[k]? with
  | none => (s, "bad-op")
  | some (r, c) =>
    match s.rings[r]? with
    | none => (s, "bad-op")
    | some g =>
      let g' := deriveG g c
      ({ s with rings := s.rings.set! r g', loggers := s.loggers.push (r, g.h.ring.cores.length) },
        "ok " ++ toString s.loggers.size)

def parseKV (w : String) : String × String :=
  match w.splitOn "=" with
  | [k, v] => (k, v)
  | _ => (w, "")

def step (s : St) (w : List String) : St × String :=
  let ring0 := s.rings.getD 0 (initG bufferSize (-1))
  match w with
  | ["cap"] => (s, "ok " ++ toString ring0.h.ring.slots.length)
  | ["new", min, stk] =>
    ({ rings := #[initG bufferSize (lvlOf min)], stackLvl := #[lvlOf stk], loggers := #[(0, 0)], snaps := #[] }, "ok")
  | ["init", mode] =>
    let dev := mode = "development"
    ({ rings := #[initG bufferSize (if dev then -1 else 2), initG bufferSize 0, initG bufferSize 0],
       stackLvl := if dev then #[1, 1, 1] else #[2, 2, 2],
       loggers := #[(0, 0), (1, 0), (2, 0)], snaps := #[] }, "ok")
  | ["with", k] => withVia s k.toNat!
  | ["with", k, _, _] => withVia s k.toNat!
  | ["log", k, m] =>
    let k := k.toNat!
    if k < s.loggers.size then (logVia s k 0 m [], "ok") else (s, "bad-op")
  | "logf" :: k :: lvl :: m :: kvs =>
    let k := k.toNat!
    if k < s.loggers.size then (logVia s k (lvlOf lvl) m (kvs.map parseKV), "ok") else (s, "bad-op")
  | ["logfn", k, lvl, c, st] =>
    let k := k.toNat!
    if k < s.loggers.size then (logfn s k (lvlOf lvl) c.toNat! st.toNat!, "ok") else (s, "bad-op")
  | ["logn", k, c, st] =>
    let k := k.toNat!
    if k < s.loggers.size then (logn s k c.toNat! st.toNat!, "ok") else (s, "bad-op")
  | ["getlogs"] =>
    let refs := getLogsH ring0.h
    ({ s with snaps := s.snaps.push refs }, fmt ((deref ring0.h refs).map (·.msg)))
  | ["writelogs"] => (s, fmt ((writeLogs 1 ring0).map (·.msg)))
  | ["reread", k] =>
    match s.snaps[k.toNat!]? with
    | some refs => (s, fmt ((deref ring0.h refs).map (·.msg)))
    | none => (s, "bad-op")
  | ["glogs"] => (s, fmtShown (writeLogs 3 ring0))
  | ["render", d] =>
    match d.toInt? with
    | some d => (s, fmtShown (writeLogs d ring0))
    | none => (s, "bad-op")
  | ["http", which, tok] =>
    let r := if which = "log" then 0 else if which = "n2n" then 1 else 2
    match s.rings[r]? with
    | some g => (s, fmtShown (handler (if tok = "-" then "" else tok) g))
    | none => (s, "bad-op")
  | _ => (s, "bad-op")

def main : IO Unit := loop ({} : St) step
end Driver.Ring
