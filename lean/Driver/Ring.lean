import Driver.Util
import Verif.Model.RingHeap
/-! Model driver for suite c20 (op language: see /verif/go/harness/suite_c20.go). -/
namespace Driver.Ring
open Verif.Ring Driver

/-- `logging.BufferSize`; the suite's `cap` op compares it with the constant in the Go source -/
def bufferSize : Nat := 1024

/-- the heap-level ring (entries are objects, `GetLogs` returns pointers) and the pointer lists returned by the
`getlogs` ops so far -/
structure St where
  h : HState String
  snaps : Array (List Nat) := #[]

def fmt (ms : List String) : String :=
  if ms.isEmpty then "ok 0 -" else "ok " ++ toString ms.length ++ " " ++ ",".intercalate ms

def logn (s : HState String) (k : Nat) : Nat → Nat → HState String
  | 0, _ => s
  | c + 1, start => logn (writeH s k ("m" ++ toString start)) k c (start + 1)

def step (s : St) (w : List String) : St × String :=
  match w with
  | ["cap"] => (s, "ok " ++ toString s.h.ring.slots.length)
  | ["with", k] =>
    let k := k.toNat!
    if k < s.h.ring.cores.length then
      ({ s with h := stepH s.h (.derive k) }, "ok " ++ toString s.h.ring.cores.length)
    else (s, "bad-op")
  | ["log", k, m] =>
    let k := k.toNat!
    if k < s.h.ring.cores.length then ({ s with h := writeH s.h k m }, "ok") else (s, "bad-op")
  | ["logn", k, c, st] =>
    let k := k.toNat!
    if k < s.h.ring.cores.length then ({ s with h := logn s.h k c.toNat! st.toNat! }, "ok") else (s, "bad-op")
  | ["getlogs"] =>
    let refs := getLogsH s.h
    ({ s with snaps := s.snaps.push refs }, fmt (deref s.h refs))
  | ["writelogs"] => (s, fmt (deref s.h (getLogsH s.h)))
  | ["reread", k] =>
    match s.snaps[k.toNat!]? with
    | some refs => (s, fmt (deref s.h refs))
    | none => (s, "bad-op")
  | _ => (s, "bad-op")

def main : IO Unit := loop ({ h := initH bufferSize } : St) step
end Driver.Ring
