import Driver.Util
/-! Model driver stub (owned by the Ring work package). -/
namespace Driver.Ring
def step (s : Unit) (_w : List String) : Unit × String := (s, "unimplemented")
def main : IO Unit := Driver.loop () step
end Driver.Ring
