import Driver.Util
import Verif.Model.Ring
/-! Model driver for suite c20 (op language: see /verif/go/harness/suite_c20.go). -/
namespace Driver.Ring
open Verif.Ring Driver

/-- `logging.BufferSize`; the suite's `cap` op compares it with the constant in the Go source -/
def bufferSize : Nat := 1024

abbrev St := State String

def fmt (ms : List String) : String :=
  if ms.isEmpty then "ok 0 -" else "ok " ++ toString ms.length ++ " " ++ ",".intercalate ms

def logn (s : St) (k : Nat) : Nat → Nat → St
  | 0, _ => s
  | c + 1, start => logn (write s k ("m" ++ toString start)) k c (start + 1)

def step (s : St) (w : List String) : St × String :=
  match w with
  | ["cap"] => (s, "ok " ++ toString s.slots.length)
  | ["with", k] =>
    let k := k.toNat!
    if k < s.cores.length then (derive s k, "ok " ++ toString s.cores.length) else (s, "bad-op")
  | ["log", k, m] =>
    let k := k.toNat!
    if k < s.cores.length then (write s k m, "ok") else (s, "bad-op")
  | ["logn", k, c, st] =>
    let k := k.toNat!
    if k < s.cores.length then (logn s k c.toNat! st.toNat!, "ok") else (s, "bad-op")
  | ["getlogs"] => (s, fmt (getLogs s))
  | ["writelogs"] => (s, fmt (getLogs s))
  | _ => (s, "bad-op")

def main : IO Unit := loop (init bufferSize : St) step
end Driver.Ring
