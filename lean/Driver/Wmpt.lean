import Driver.Util
import Verif.Model.WmptProof
/-! Model driver for the weighted-trie suites c09–c13 (op language: /verif/go/harness/wmptrun.go, suite_c10.go) and
    c15wmpt (suite_c15wmpt.go). -/
namespace Driver.Wmpt
open Verif.Wmpt Driver

abbrev Hh : Bytes → Bytes := sha3

structure Checkpoint where
  root : Bytes
  weight : Nat
  node : WN

structure St where
  t : WT := {}
  croot : Bytes := emptyHash Hh
  cweight : Nat := 0
  cp : Option Checkpoint := none
  slots : List (Nat × Bytes) := []
  exportB : Option Bytes := none
  part : Option WT := none
  pbatch : Option (List StoreOp) := none    -- the batch of a Commit that has not been written yet

def errStr : Err → String
  | .notFound => "notfound"
  | .range => "range"
  | .invalidKey => "invalidkey"
  | .kvNotFound => "kvnotfound"
  | .noDb => "nodb"
  | .other => "err"
  | .panic => "panic"

def ltBytes : Bytes → Bytes → Bool
  | [], [] => false
  | [], _ :: _ => true
  | _ :: _, [] => false
  | a :: p, b :: q => if a < b then true else if b < a then false else ltBytes p q

def insSorted (k : Bytes × Bytes) : List (Bytes × Bytes) → List (Bytes × Bytes)
  | [] => [k]
  | x :: r => if ltBytes k.1 x.1 then k :: x :: r else if k.1 = x.1 then k :: r else x :: insSorted k r

def sortKV (l : List (Bytes × Bytes)) : List (Bytes × Bytes) := l.foldl (fun acc k => insSorted k acc) []

def be64n (n : Nat) : Bytes := be64 n

/-- `fmtEntry` of the harness: one atomic storage operation, puts and deletes as sorted sets -/
def fmtEntry (ops : List StoreOp) : String :=
  -- net effect per key, last operation wins
  let (puts, dels) := ops.foldl (fun (acc : List (Bytes × Bytes) × List Bytes) o =>
    match o with
    | .put k v => ((k, v) :: acc.1.filter (fun e => e.1 != k), acc.2.filter (· != k))
    | .del k => (acc.1.filter (fun e => e.1 != k), k :: acc.2.filter (· != k))) ([], [])
  let ps := sortKV puts
  let dig := ps.flatMap (fun (k, v) => k ++ be64n v.length ++ v)
  let short := ps.map (fun (k, _) => ((hex k).take 12).toString)
  let ds := (sortKV (dels.map (fun k => (k, ([] : Bytes))))).map (fun (k, _) => hex k)
  s!"p={ps.length}:{",".intercalate short}:{((hex (Hh dig)).take 16).toString} d={ds.length}:{",".intercalate ds}"

def fmtEntries (es : List (List StoreOp)) : String :=
  if es.isEmpty then "none" else " | ".intercalate (es.map fmtEntry)

def parseKey (s : String) : Option (List Nib) := do
  let b ← unhex s
  pure (b.flatMap (fun x =>
    [(⟨(x.toNat / 16) % 16, Nat.mod_lt _ (by decide)⟩ : Nib), (⟨x.toNat % 16, Nat.mod_lt _ (by decide)⟩ : Nib)]))

def resStr {α} (r : Res α) (f : α → String) : String :=
  match r with
  | .ok a => f a
  | .err e => errStr e

def hexOrDash (b : Bytes) : String := if b.isEmpty then "-" else hex b

/-! ### proof tampering (mirror of `applyTamper` in suite_c10.go) -/

def decodePairs (proof : Bytes) : Option (List PBase) := do
  let ps ← Cbor.decTrie proof
  ps.mapM (fun p => match p with
    | some b => Cbor.decBase b
    | none => none)

def encodePairs (ns : List PBase) : Bytes := Cbor.encTrie (ns.map Cbor.encBase)

def childW (c : Bytes) : Nat := be64Dec (c.drop 32)

def setChildW (c : Bytes) (w : Nat) : Bytes := c.take 32 ++ be64 (w % 2^64) ++ c.drop 40

def listSet {α} (l : List α) (i : Nat) (a : α) : List α := l.set i a

def flipBit (b : Bytes) (k bit : Nat) : Bytes :=
  b.set (k % b.length) ((b.getD (k % b.length) 0) ^^^ (UInt8.ofNat (1 <<< bit)))

def applyTamper (slots : List (Nat × Bytes)) (ns : List PBase) (cls : String) (a : List String) : Option (List PBase) :=
  let arg := fun (k : Nat) => (a.getD k "0").toNat!
  if cls = "none" then some ns
  else if ns.isEmpty then none
  else if cls = "trunc" then some (ns.take (arg 0 % (ns.length + 1)))
  else
    let p := arg 0 % ns.length
    let n := ns.getD p {}
    let kids : List Bytes := match n.branch with | some b => b.children | none => []
    let idx := List.range kids.length
    let pres := idx.filter (fun k => (kids.getD k []).length ≥ 40)
    let abs := idx.filter (fun k => (kids.getD k []).length = 0)
    let setKids := fun (ks : List Bytes) => match n.branch with
      | some b => ns.set p { n with branch := some { b with children := ks } }
      | none => ns
    match cls with
    | "reweight" | "addempty" =>
      let d := arg 3
      if n.branch.isNone || pres.isEmpty then none
      else
        let j0 := pres.getD (arg 2 % pres.length) 0
        if cls = "reweight" then
          if pres.length < 2 then none
          else
            let i := pres.getD (arg 1 % pres.length) 0
            let j := if i = j0 then pres.getD ((arg 2 + 1) % pres.length) 0 else j0
            if childW (kids.getD j []) < d then none
            else
              let ks := kids.set i (setChildW (kids.getD i []) (childW (kids.getD i []) + d))
              let ks := ks.set j (setChildW (ks.getD j []) (childW (ks.getD j []) - d))
              some (setKids ks)
        else
          if abs.isEmpty then none
          else
            let i := abs.getD (arg 1 % abs.length) 0
            let j := j0
            if childW (kids.getD j []) < d then none
            else
              let ks := kids.set i (emptyHash Hh ++ be64 d)
              let ks := ks.set j (setChildW (ks.getD j []) (childW (ks.getD j []) - d))
              some (setKids ks)
    | "shortw" =>
      match n.short with
      | some s => if s.value.length ≠ 40 then none else some (ns.set p { n with short := some { s with value := setChildW s.value (arg 1) } })
      | none => none
    | "valw" =>
      match n.value with
      | some v => some (ns.set p { n with value := some { v with weight := arg 1 } })
      | none => none
    | "swapsib" =>
      if n.branch.isNone || pres.isEmpty then none
      else
        let i := pres.getD (arg 1 % pres.length) 0
        let j := arg 2 % 16
        if j ≥ kids.length || i = j then none
        else some (setKids ((kids.set i (kids.getD j [])).set j (kids.getD i [])))
    | "subst" =>
      match slots.lookup (arg 1) with
      | none => none
      | some proof =>
        match decodePairs proof with
        | none => none
        | some os => if os.isEmpty then none else some (ns.set p (os.getD (arg 2 % os.length) {}))
    | "append" =>
      match slots.lookup (arg 1) with
      | none => none
      | some proof =>
        match decodePairs proof with
        | none => none
        | some os => if os.isEmpty then none else some (ns ++ [os.getD (os.length - 1 - arg 2 % os.length) {}])
    | "drop" => some (ns.take p ++ ns.drop (p + 1))
    | "dup" => some (ns.take (p + 1) ++ ns.drop p)
    | "flip" =>
      let fld := a.getD 1 ""
      let k := arg 2
      let bit := arg 3 % 8
      match n.branch, n.value, n.short with
      | some b, _, _ =>
        if fld = "h" then (if b.hash.isEmpty then none else some (ns.set p { n with branch := some { b with hash := flipBit b.hash k bit } }))
        else if fld.startsWith "c" then
          if pres.isEmpty then none
          else
            let ci := pres.getD ((fld.drop 1).toString.toNat! % pres.length) 0
            some (setKids (kids.set ci (flipBit (kids.getD ci []) k bit)))
        else none
      | none, some v, _ =>
        if fld = "h" then (if v.hash.isEmpty then none else some (ns.set p { n with value := some { v with hash := flipBit v.hash k bit } }))
        else if fld = "v" then (if v.value.isEmpty then none else some (ns.set p { n with value := some { v with value := flipBit v.value k bit } }))
        else if fld = "w" then some (ns.set p { n with value := some { v with weight := v.weight ^^^ (1 <<< ((k % 8) * 8 + bit)) } })
        else none
      | none, none, some s =>
        if fld = "h" then (if s.hash.isEmpty then none else some (ns.set p { n with short := some { s with hash := flipBit s.hash k bit } }))
        else if fld = "v" then (if s.value.isEmpty then none else some (ns.set p { n with short := some { s with value := flipBit s.value k bit } }))
        else if fld = "k" then (if s.key.isEmpty then none else some (ns.set p { n with short := some { s with key := flipBit s.key k bit } }))
        else none
      | _, _, _ => none
    | "kind" =>
      match n.branch, n.short with
      | some b, _ =>
        let total := (kids.filter (fun c => c.length ≥ 40)).foldl (fun acc c => acc + childW c) 0
        let body := kids.flatMap (fun c => if c.length ≥ 40 then c.take 32 else emptyHash Hh)
          ++ (List.replicate (16 - kids.length) (emptyHash Hh)).flatten
        some ((ns.set p { value := some ⟨body, b.hash, total % 2^64⟩ }).take (p + 1))
      | none, some s =>
        if s.key.length ≥ 8 ∧ s.value.length = 40 then
          some ((ns.set p { value := some ⟨s.key.drop 8 ++ s.value.take 32, s.hash, be64Dec s.key⟩ }).take (p + 1))
        else none
      | _, _ => none
    | _ => none

/-! ### c15wmpt: descriptions of decoded CBOR (see suite_c15wmpt.go) -/

def descBytes (b : Bytes) : String := if b.isEmpty then "-" else hex b

def descBase (p : PBase) : String :=
  let parts : List String :=
    (match p.branch with | some b => ["B:" ++ descBytes b.hash ++ ":" ++ ",".intercalate (b.children.map descBytes)] | none => [])
    ++ (match p.value with | some v => [s!"V:{descBytes v.value}:{descBytes v.hash}:{v.weight}"] | none => [])
    ++ (match p.short with | some v => [s!"S:{descBytes v.key}:{descBytes v.hash}:{descBytes v.value}"] | none => [])
    ++ (if p.nilNode then ["N"] else [])
    ++ (match p.hashNode with | some v => [s!"H:{descBytes v.hash}:{v.weight}"] | none => [])
  if parts.isEmpty then "0" else ";".intercalate parts

def parseBase (d : String) : Option PBase :=
  if d = "0" then some {} else
  (d.splitOn ";").foldlM (fun (p : PBase) part =>
    match part.splitOn ":" with
    | ["B", h, cs] => do
      let h ← unhex h
      let cs ← if cs = "" then some [] else (cs.splitOn ",").mapM unhex
      pure { p with branch := some ⟨h, cs⟩ }
    | ["V", v, h, w] => do pure { p with value := some ⟨← unhex v, ← unhex h, ← w.toNat?⟩ }
    | ["S", k, h, v] => do pure { p with short := some ⟨← unhex k, ← unhex h, ← unhex v⟩ }
    | ["N"] => some { p with nilNode := true }
    | ["H", h, w] => do pure { p with hashNode := some ⟨← unhex h, ← w.toNat?⟩ }
    | _ => none) {}

def parsePairs (d : String) : Option (List PairD) :=
  if d = "Z" then some [] else
  (d.splitOn "/").mapM (fun e =>
    if e = "n" then some PairD.nilPair
    else if e = "E" then some PairD.bad
    else (parseBase e).map PairD.ok)

/-- the model's own CBOR decoder against the library's verdict: whenever it accepts, it must agree -/
def crossNode (bytes : Bytes) (desc : String) : String :=
  match Cbor.decBase bytes, (if desc = "E" then none else parseBase desc) with
  | some _, none => " !cbor-model-accepts-what-the-library-rejects"
  | some p', some p => if p' = p then "" else " !cbor-model-decodes-differently"
  | none, some p => if Cbor.encBase p = bytes then " !cbor-model-rejects-a-canonical-encoding" else ""
  | none, none => ""

def crossTrie (bytes : Bytes) (desc : String) : String :=
  match Cbor.decTrie bytes, (if desc = "X" then none else parsePairs desc) with
  | some _, none => " !cbor-model-accepts-what-the-library-rejects"
  | some ps, some ds =>
    if ps.length ≠ ds.length then " !cbor-model-decodes-differently"
    else if (ps.zip ds).all (fun (p, d) =>
      match PairD.ofBytes p, d with
      | .nilPair, .nilPair => true
      | .ok a, .ok b => a = b
      | .ok _, _ => false
      | .bad, .nilPair => false
      | .bad, _ => true
      | .nilPair, _ => false) then "" else " !cbor-model-decodes-differently"
  | none, _ => ""

def c15Step (w : List String) : Option String :=
  match w with
  | ["dnode", hx, desc] =>
    match unhex hx with
    | none => some "bad-op"
    | some bytes =>
      let out :=
        if desc = "E" then "err"
        else match parseBase desc with
          | none => "bad-desc"
          | some p =>
            match deserializeNode p with
            | .err .panic => "panic"
            | .err _ => "err"
            | .ok n => "ok " ++ descBase (serializeP Hh n).2
      some (out ++ crossNode bytes desc)
  | ["vproof", b, hx, desc] =>
    match unhex hx with
    | none => some "bad-op"
    | some bytes =>
      let out :=
        if desc = "X" ∨ bytes.isEmpty then "err"
        else match parsePairs desc with
          | none => "bad-desc"
          | some ps =>
            match verifyPairs Hh ps b.toNat! with
            | .err .panic => "panic"
            | .err _ => "err"
            | .ok (h, v) => s!"ok {hex h} {hexOrDash v}"
      some (out ++ crossTrie bytes desc)
  | ["dtrie", hx, desc] =>
    match unhex hx with
    | none => some "bad-op"
    | some bytes =>
      let out :=
        if desc = "X" then "err"
        else match parsePairs desc with
          | none => "bad-desc"
          | some ps =>
            match importPairs Hh ps with
            | .err .panic => "panic"
            | .err _ => "err"
            | .ok r =>
              let root : WN := match r with | some n => n | none => .empty
              let (t, h) := rootHash Hh { root := root, hasDb := false }
              s!"ok {hex h} {t.weight} {descBase (serializeP Hh t.root).2}"
      some (out ++ crossTrie bytes desc)
  | _ => none

/-! ### the state machine -/

def applyTo (t : WT) (ops : List StoreOp) : WT := { t with store := t.store.apply ops }

def ownersLine (t : WT) : WT × String := Id.run do
  let total := t.weight
  let mut t := t
  let mut runs : Array String := #[]
  let mut prev := ""
  let mut cnt := 0
  for b in [1:total+1] do
    let (t', r) := blockProof Hh t b
    t := t'
    match r with
    | .err e => return (t, errStr e ++ s!"@{b}")
    | .ok (key, _) =>
      let k8 := ((hex key).take 8).toString
      if k8 != prev && cnt > 0 then
        runs := runs.push s!"{prev}*{cnt}"
        cnt := 0
      prev := k8
      cnt := cnt + 1
  if cnt > 0 then runs := runs.push s!"{prev}*{cnt}"
  return (t, "ok " ++ ",".intercalate runs.toList)

/-- `ownersat b1,b2,…`: the owner (first 8 hex digits of the key) or the error of each listed block -/
def ownersAt (t : WT) (blocks : List Nat) : WT × String := Id.run do
  let mut t := t
  let mut parts : Array String := #[]
  for b in blocks do
    let (t', r) := blockProof Hh t b
    t := t'
    match r with
    | .err e => parts := parts.push s!"{errStr e}@{b}"
    | .ok (key, _) => parts := parts.push s!"{((hex key).take 8).toString}@{b}"
  return (t, "ok " ++ ",".intercalate parts.toList)

def rootStr (t : WT) : WT × String :=
  let (t', h) := rootHash Hh t
  (t', hex h)

def mirrorOp (t : WT) (w : List String) : WT × String :=
  match w with
  | ["mupd", k, v, wt] =>
    match parseKey k, unhex v with
    | some k, some v => let (t', r) := update Hh t k v wt.toNat!; (t', resStr r (fun _ => "ok"))
    | _, _ => (t, "bad-op")
  | ["mupdel", k] =>
    match parseKey k with
    | some k => let (t', r) := update Hh t k [] 0; (t', resStr r (fun _ => "ok"))
    | none => (t, "bad-op")
  | ["mupdel0", k] =>
    match parseKey k with
    | some k => let (t', r) := update Hh t k [] 0; (t', resStr r (fun _ => "ok"))
    | none => (t, "bad-op")
  | ["mdel", k] =>
    match parseKey k with
    | some k => let (t', r) := deleteKey Hh t k; (t', resStr r (fun c => s!"ok:{c}"))
    | none => (t, "bad-op")
  | _ => (t, "bad-op")

def stateStr (t : WT) : WT × String :=
  let (t', r) := rootStr t
  (t', s!"{r} {t'.weight}")

def step (s : St) (w : List String) : St × String :=
  match c15Step w with
  | some out => (s, out)
  | none =>
  match w with
  | ["updzw", k, v0, v, wt] =>
    match parseKey k, unhex v0, unhex v with
    | some k, some v0, some v =>
      let (t1, r1) := update Hh s.t k v0 0
      match r1 with
      | .err e => ({ s with t := t1 }, errStr e)
      | .ok _ =>
        let mid := t1.weight
        let (t2, r2) := update Hh t1 k v wt.toNat!
        ({ s with t := t2 }, resStr r2 (fun _ => s!"ok {mid}"))
    | _, _, _ => (s, "bad-op")
  | ["upd", k, v, wt] =>
    if wt.toNat! = 0 ∧ v ≠ "-" ∧ v ≠ "" then (s, "zeroweight") else
    match parseKey k, unhex v with
    | some k, some v =>
      let (t', r) := update Hh s.t k v wt.toNat!
      ({ s with t := t' }, resStr r (fun _ => "ok"))
    | _, _ => (s, "bad-op")
  | ["updel", k] =>
    match parseKey k with
    | some k => let (t', r) := update Hh s.t k [] 0; ({ s with t := t' }, resStr r (fun _ => "ok"))
    | none => (s, "bad-op")
  | ["updel0", k] =>
    -- Update(key, []byte{}, 0): "no value" spelled as an empty non-nil slice — the same delete
    match parseKey k with
    | some k => let (t', r) := update Hh s.t k [] 0; ({ s with t := t' }, resStr r (fun _ => "ok"))
    | none => (s, "bad-op")
  | ["updbad", k, v, wt] =>
    -- Update with a key that is not 32 bytes (nil, empty, 31 / 33 bytes)
    match parseKey (if k = "nil" ∨ k = "empty" then "" else k), unhex (if v = "-" then "" else v) with
    | some k, some v =>
      let (t', r) := update Hh s.t k v wt.toNat!
      ({ s with t := t' }, resStr r (fun _ => "ok"))
    | _, _ => (s, "bad-op")
  | ["delbad", k] =>
    match parseKey (if k = "nil" ∨ k = "empty" then "" else k) with
    | some k => let (t', r) := deleteKey Hh s.t k; ({ s with t := t' }, resStr r (fun c => s!"ok {c}"))
    | none => (s, "bad-op")
  | ["del", k] =>
    match parseKey k with
    | some k => let (t', r) := deleteKey Hh s.t k; ({ s with t := t' }, resStr r (fun c => s!"ok {c}"))
    | none => (s, "bad-op")
  | ["commit", lvl] =>
    let (t1, ops) := commit Hh s.t lvl.toInt!
    let t2 := applyTo t1 ops
    let (t3, root) := rootHash Hh t2
    ({ s with t := t3, croot := root, cweight := t3.weight }, s!"ok r={hex root} w={t3.weight} {fmtEntry ops}")
  | ["commitb", lvl] =>
    -- Commit(lvl) alone: the batch is returned and kept, nothing is written
    match s.pbatch with
    | some _ => (s, "skip")
    | none =>
      let (t1, ops) := commit Hh s.t lvl.toInt!
      ({ s with t := t1, pbatch := some ops }, "ok")
  | ["wbatch"] =>
    match s.pbatch with
    | none => (s, "skip")
    | some ops =>
      let t2 := applyTo s.t ops
      let (t3, root) := rootHash Hh t2
      ({ s with t := t3, croot := root, cweight := t3.weight, pbatch := none }, s!"ok r={hex root} w={t3.weight} {fmtEntry ops}")
  | ["commit2", lvl] =>
    -- Commit(lvl), a second Commit(lvl) on the clean root, then both batches in call order
    let (t1, ops) := commit Hh s.t lvl.toInt!
    let (t1b, ops2) := commit Hh t1 lvl.toInt!
    let t2 := applyTo (applyTo t1b ops) ops2
    let (t3, root) := rootHash Hh t2
    ({ s with t := t3, croot := root, cweight := t3.weight },
     s!"ok r={hex root} w={t3.weight} {fmtEntry ops} | {fmtEntry ops2}")
  | ["gc"] =>
    let (t', ops) := deleteNodes s.t
    ({ s with t := t' }, "ok " ++ fmtEntries (if ops.isEmpty then [] else [ops]))
  | ["reload"] =>
    let root : WN := if s.cweight = 0 then .empty else .hashRef s.croot s.cweight
    ({ s with t := { root := root, store := s.t.store }, cp := none }, "ok")
  | ["root"] => let (t', r) := rootStr s.t; ({ s with t := t' }, "ok " ++ r)
  | ["weight"] => (s, s!"ok {s.t.weight}")
  | ["owner", b] =>
    let (t', r) := blockProof Hh s.t b.toNat!
    ({ s with t := t' }, resStr r (fun (key, _) => "ok " ++ hex key))
  | ["owners"] =>
    if s.t.weight > 4096 then (s, "toobig")
    else let (t', o) := ownersLine s.t; ({ s with t := t' }, o)
  | ["ownersat", bs] =>
    let (t', o) := ownersAt s.t ((bs.splitOn ",").map String.toNat!)
    ({ s with t := t' }, o)
  | ["proof", b, slot] =>
    let b := b.toNat!
    let (t', r) := blockProof Hh s.t b
    match r with
    | .err e => ({ s with t := t' }, errStr e)
    | .ok (key, proof) =>
      let pre := s!"ok {hex key} n={proof.length} d={((hex (Hh proof)).take 16).toString}"
      match verifyBlockProof Hh proof b with
      | .err e => ({ s with t := t' }, pre ++ " verify-" ++ errStr e)
      | .ok (h, v) =>
        ({ s with t := t', slots := (slot.toNat!, proof) :: s.slots.filter (fun e => e.1 != slot.toNat!) },
         pre ++ s!" r={hex h} v={hex v}")
  | "tamper" :: slot :: b :: cls :: args =>
    match s.slots.lookup slot.toNat! with
    | none => (s, "skip")
    | some proof =>
      match decodePairs proof with
      | none => (s, "skip")
      | some ns =>
        match applyTamper s.slots ns cls args with
        | none => (s, "skip")
        | some ns' =>
          match verifyBlockProof Hh (encodePairs ns') b.toNat! with
          | .err .panic => (s, "panic")
          | .err _ => (s, "err")
          | .ok (h, v) => (s, s!"ok {hex h} {hexOrDash v}")
  | ["saveroot", lvl] =>
    let lvl := lvl.toInt!
    let t' := saveRoot Hh s.t
    let node : WN :=
      if lvl = -2 then (if s.cweight > 0 then .hashRef s.croot s.cweight else .nil)
      else if lvl = -3 then .hashRef s.croot s.cweight
      else copyRoot Hh lvl 0 (normRoot s.t.root)
    ({ s with t := t', cp := some ⟨s.croot, s.cweight, node⟩ }, "ok")
  | ["cproot", lvl] =>
    -- a checkpoint copy WITHOUT SaveRoot (lvl -2: NewHashNode(root, weight), nil for weight 0; -3: NewHashNode(root, weight) always)
    let lvl := lvl.toInt!
    let node : WN :=
      if lvl = -2 then (if s.cweight > 0 then .hashRef s.croot s.cweight else .nil)
      else if lvl = -3 then .hashRef s.croot s.cweight
      else copyRoot Hh lvl 0 (normRoot s.t.root)
    ({ s with cp := some ⟨s.croot, s.cweight, node⟩ }, "ok")
  | ["recopy", lvl] =>
    -- New(t.CopyRoot(lvl), sameStorage)
    ({ s with t := { root := normRoot (copyRoot Hh lvl.toInt! 0 (normRoot s.t.root)), store := s.t.store }, cp := none }, "ok")
  | [kind] =>
    if kind = "rollback" ∨ kind = "rollbacktrie" then
      match s.cp with
      | none => (s, "skip")
      | some cp =>
        let (t1, ops) := if kind = "rollback" then rollback s.t else rollbackTrie Hh s.t cp.node
        let (t2, root) := rootHash Hh t1
        ({ s with t := t2, croot := cp.root, cweight := cp.weight },
         s!"ok r={hex root} w={t2.weight} {fmtEntries (if ops.isEmpty then [] else [ops])}")
    else if kind = "import" then
      match s.exportB with
      | none => (s, "skip")
      | some data =>
        let (p, r) := importTrie Hh { hasDb := false } data
        match r with
        | .err _ => ({ s with part := some p }, "err")
        | .ok _ =>
          let (p', st) := rootStr p
          ({ s with part := some p' }, s!"ok r={st} w={p'.weight}")
    else (s, "bad-op")
  | ["getpath", ks] =>
    let keys : Option (List (List Nib)) := if ks = "-" then some [] else (ks.splitOn ",").mapM parseKey
    match keys with
    | none => (s, "bad-op")
    | some keys =>
      let (t', r) := getPath Hh s.t keys
      match r with
      | .err e => ({ s with t := t', exportB := none }, errStr e)
      | .ok data => ({ s with t := t', exportB := some data }, s!"ok n={data.length} d={((hex (Hh data)).take 16).toString}")
  | op :: _ =>
    if op = "mupd" ∨ op = "mdel" ∨ op = "mupdel" ∨ op = "mupdel0" then
      match s.part with
      | none => (s, "skip")
      | some p =>
        if op = "mupd" ∧ (w.getD 3 "1").toNat! = 0 ∧ (w.getD 2 "-") ≠ "-" then (s, "zeroweight") else
        let (t1, rs) := mirrorOp s.t w
        let (p1, rp) := mirrorOp p w
        let (t2, ss) := stateStr t1
        let (p2, sp) := stateStr p1
        ({ s with t := t2, part := some p2 }, s!"{rs} {rp} {ss} {sp}")
    else (s, "bad-op")
  | _ => (s, "bad-op")

def main : IO Unit := loop ({} : St) step

end Driver.Wmpt
