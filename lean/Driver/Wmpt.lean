import Driver.Util
/-! Model driver stub (owned by the Wmpt work package). -/
namespace Driver.Wmpt
def step (s : Unit) (_w : List String) : Unit × String := (s, "unimplemented")
def main : IO Unit := Driver.loop () step
end Driver.Wmpt
