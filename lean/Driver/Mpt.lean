import Driver.Util
import Verif.Model.MptEnc
/-! Model driver for the state-trie suites c01/c02 (op language: see /verif/go/harness/suite_c01.go). -/
namespace Driver.Mpt
open Verif.Mpt Driver

structure St where
  t : Node := .empty
  v : Nat := 0

def maxSize : Nat := 10 * 1024 * 1024

def rootStr (t : Node) : String :=
  let k := root sha3 t
  if k.isEmpty then "-" else hex k

def outcome (t : Node) : Outcome → String
  | .ok => "ok " ++ rootStr t
  | .notPresent => "notpresent"
  | .tooLarge => "toolarge"
  | .panic => "panic"

def fmtPairs (ps : List (List Nib × Bytes)) : String :=
  ",".intercalate (ps.map (fun (p, b) => ptok p ++ "=" ++ hex b))

def step (s : St) (w : List String) : St × String :=
  match w with
  | ["new", _, v] => ({ t := .empty, v := v.toNat! }, "ok")
  | ["ver", v] => ({ s with v := v.toNat! }, "ok")
  | ["layer"] => (s, "ok")
  | ["ins", p, b] =>
    match parsePath p, unhex b with
    | some p, some b =>
      let (t', o) := Trie.insert maxSize s.v s.t p b
      ({ s with t := t' }, outcome t' o)
    | _, _ => (s, "bad-op")
  | ["insempty", p] =>
    match parsePath p with
    | some p => let (t', o) := Trie.insert maxSize s.v s.t p []; ({ s with t := t' }, outcome t' o)
    | none => (s, "bad-op")
  | ["insbig", _] => (s, "toolarge")
  | ["del", p] =>
    match parsePath p with
    | some p => let (t', o) := Trie.delete s.v s.t p; ({ s with t := t' }, outcome t' o)
    | none => (s, "bad-op")
  | ["get", p] =>
    match parsePath p with
    | some p => (s, match lookup s.t p with | some b => "ok " ++ hex b | none => "notpresent")
    | none => (s, "bad-op")
  | ["iter"] => (s, "ok " ++ fmtPairs (iterate s.t []))
  | _ => (s, "bad-op")

def main : IO Unit := loop ({} : St) step

end Driver.Mpt
