import Driver.Util
import Verif.Model.MptEnc
import Verif.Gen.Constants
/-! Model driver for the state-trie suites c01/c02 (op language: see /verif/go/harness/suite_c01.go). -/
namespace Driver.Mpt
open Verif.Mpt Driver

structure St where
  t : Node := .empty
  v : Nat := 0

/-- the largest value `Insert` must accept: a constant of the SPECIFICATION (10 MiB), deliberately not the regenerated
    `Verif.Gen.Constants.mptMaxAllowableNodeSize` - a changed limit in the code must show up as a difference -/
def maxSize : Nat := 10 * 1024 * 1024

/-- a value as the harness prints it: hex; a long value made of one repeated byte as `#<len>*<byte>` -/
def hxv (b : Bytes) : String :=
  match b with
  | x :: _ => if b.length > 64 && b.all (· == x) then "#" ++ toString b.length ++ "*" ++ hex [x] else hex b
  | [] => hex b

def rootStr (t : Node) : String :=
  let k := root sha3 t
  if k.isEmpty then "-" else hex k

def outcome (t : Node) : Outcome → String
  | .ok => "ok " ++ rootStr t
  | .notPresent => "notpresent"
  | .tooLarge => "toolarge"
  | .panic => "panic"

def fmtPairs (ps : List (List Nib × Bytes)) : String :=
  ",".intercalate (ps.map (fun (p, b) => ptok p ++ "=" ++ hxv b))

def step (s : St) (w : List String) : St × String :=
  match w with
  | ["new", _, v] => ({ t := .empty, v := v.toNat! }, "ok")
  | ["ver", v] => ({ s with v := v.toNat! }, "ok")
  | ["layer"] => (s, "ok")
  | "relevel" :: _ => (s, "ok")
  | ["ins", p, b] =>
    match parsePath p, unhex b with
    | some p, some b =>
      let (t', o) := Trie.insert maxSize s.v s.t p b
      ({ s with t := t' }, outcome t' o)
    | _, _ => (s, "bad-op")
  | ["insempty", p] =>
    match parsePath p with
    | some p => let (t', o) := Trie.insert maxSize s.v s.t p []; ({ s with t := t' }, outcome t' o)
    | none => (s, "bad-op")
  | ["insbig", p] =>
    -- a value of MPTMaxAllowableNodeSize+1 bytes (the CODE's constant, regenerated): what `Trie.insert maxSize` answers
    -- for a non-empty value of that length, without building the list when it is over the specified limit
    match parsePath p with
    | some p =>
      if Verif.Gen.Constants.mptMaxAllowableNodeSize + 1 > maxSize then (s, "toolarge")
      else
        let (t', o) := Trie.insert maxSize s.v s.t p (List.replicate (Verif.Gen.Constants.mptMaxAllowableNodeSize + 1) 0xab)
        ({ s with t := t' }, outcome t' o)
    | none => (s, "bad-op")
  | ["insfill", p, n, x] =>
    match parsePath p, unhex x with
    | some p, some [x] =>
      let (t', o) := Trie.insert maxSize s.v s.t p (List.replicate n.toNat! x)
      ({ s with t := t' }, outcome t' o)
    | _, _ => (s, "bad-op")
  | ["del", p] =>
    match parsePath p with
    | some p => let (t', o) := Trie.delete s.v s.t p; ({ s with t := t' }, outcome t' o)
    | none => (s, "bad-op")
  | ["get", p] =>
    match parsePath p with
    | some p => (s, match lookup s.t p with | some b => "ok " ++ hxv b | none => "notpresent")
    | none => (s, "bad-op")
  | ["iter"] => (s, "ok " ++ fmtPairs (iterate s.t []))
  | _ => (s, "bad-op")

def main : IO Unit := loop ({} : St) step

end Driver.Mpt
