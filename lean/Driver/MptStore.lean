import Driver.Util
/-! Model driver stub (owned by the MptStore work package). -/
namespace Driver.MptStore
def step (s : Unit) (_w : List String) : Unit × String := (s, "unimplemented")
def main : IO Unit := Driver.loop () step
end Driver.MptStore
