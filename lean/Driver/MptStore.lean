import Driver.Util
import Verif.Model.MptStore
import Verif.Model.MptInterp
import Verif.Gen.Constants
import Std.Data.HashMap
import Std.Data.HashSet
/-! Model driver for the store-layer suites c03/c04/c05 (op language: /verif/go/harness/mptstore.go). -/
namespace Driver.MptStore
open Verif.Mpt Verif.MptStore Driver

structure St where
  ps : PStore := {}
  tries : List (Nat × Nat × Trie) := []        -- id, parent id, trie
  saved : List (Nat × Bytes × Node × Bool) := []   -- version, root, tree, superseded? of every saved round (oldest first)
  kind0 : String := "level"                    -- store kind of the block trie: level | mem | pndb
  snaps : List (Nat × Trie) := []              -- op `snap`: the trie value at that moment (a change set taken from it)
  dirty : List Nat := []                        -- tries with at least one successful write since they were opened
  stale : List Nat := []                        -- tries with an ancestor that wrote after they were opened (see `step`)
  snapDirty : List Nat := []                    -- tries that were dirty when their change set was taken (`snap`)
  flag : String := ""                          -- self-check failures of the driver's fast paths (appended to the next output line)
  fast0 : Option (List (Bytes × Bytes) × List Bytes) := none   -- the block trie's pending (key, encoding) pairs and dead keys as computed by `bulkClosed` (valid until the next op on it)

/-- `maxPruneNodes` of `PruneBelowVersion`, as regenerated from the Go source before the build -/
def maxPrune : Nat := Verif.Gen.Constants.maxPruneNodes

def rootStr (k : Bytes) : String := if k.isEmpty then "-" else hex k

def sortStr (l : List String) : List String := (l.toArray.qsort (· < ·)).toList

def fmtPairs (ps : List (List Nib × Bytes)) : String :=
  ",".intercalate (ps.map (fun (p, b) => ptok p ++ "=" ++ hex b))

def findTrie (s : St) (id : Nat) : Option (Nat × Trie) :=
  (s.tries.find? (fun e => e.1 = id)).map (·.2)

def setTrie (s : St) (id : Nat) (t : Trie) : St :=
  { s with tries := s.tries.map (fun e => if e.1 = id then (e.1, e.2.1, t) else e) }

/-- ids of all descendants of `id` -/
partial def descendants (s : St) (id : Nat) : List Nat :=
  let ch := (s.tries.filter (fun e => e.2.1 = id ∧ e.1 ≠ id)).map (·.1)
  ch ++ ch.flatMap (descendants s)

def closeTrie (s : St) (id : Nat) : St :=
  let gone := id :: descendants s id
  { s with tries := s.tries.filter (fun e => !gone.contains e.1) }

/-- read-through lookup of a trie's layered store: own level, the ancestors' levels, the persistent store -/
partial def getChain (s : St) (id : Nat) (k : Bytes) : Option Bytes :=
  match findTrie s id with
  | none => Map.get s.ps.nodes k
  | some (pid, t) =>
    match Map.get t.db.current k with
    | some v => some v
    | none => if pid = id then Map.get s.ps.nodes k else getChain s pid k

/-- (reference, key, stored encoding) of every node of a tree in one bottom-up pass; returns the key of the root node
    first.  Same values as `refs`/`Ref.key`/`Ref.encode` of the model, without recomputing subtree hashes. -/
def annotR : Node → List Nib → Bytes × List (Ref × Bytes × Bytes)
  | .empty, _ => ([], [])
  | .leaf o lp lv, pre =>
    let b := pre.map nibChar ++ [sep] ++ lp.map nibChar ++ [sep] ++ lv
    let k := sha3 (le64 o ++ b)
    (k, [(⟨pre, .leaf o lp lv⟩, k, [2] ++ le64 o ++ le64 o ++ b)])
  | .full o ch val, pre =>
    let rs := (List.finRange 16).map (fun i => annotR (ch i) (pre ++ [i]))
    let b := rs.flatMap (fun r => (if r.1.isEmpty then [] else hexBytes r.1) ++ [sep]) ++ (match val with | some b => b | none => [])
    let k := sha3 (le64 o ++ b)
    (k, (⟨pre, .full o ch val⟩, k, [4] ++ le64 o ++ le64 o ++ b) :: rs.flatMap (·.2))
  | .ext o ep c, pre =>
    let r := annotR c (pre ++ ep)
    let b := ep.map nibChar ++ [sep] ++ r.1
    let k := sha3 (le64 o ++ b)
    (k, (⟨pre, .ext o ep c⟩, k, [8] ++ le64 o ++ le64 o ++ b) :: r.2)

/-- `annotR` without the references -/
def annot : Node → List Nib → Bytes × List (Bytes × Bytes)
  | .empty, _ => ([], [])
  | .leaf o lp lv, pre =>
    let b := pre.map nibChar ++ [sep] ++ lp.map nibChar ++ [sep] ++ lv
    let k := sha3 (le64 o ++ b)
    (k, [(k, [2] ++ le64 o ++ le64 o ++ b)])
  | .full o ch val, pre =>
    let rs := (List.finRange 16).map (fun i => annot (ch i) (pre ++ [i]))
    let b := rs.flatMap (fun r => (if r.1.isEmpty then [] else hexBytes r.1) ++ [sep]) ++ (match val with | some b => b | none => [])
    let k := sha3 (le64 o ++ b)
    (k, (k, [4] ++ le64 o ++ le64 o ++ b) :: rs.flatMap (·.2))
  | .ext o ep c, pre =>
    let r := annot c (pre ++ ep)
    let b := ep.map nibChar ++ [sep] ++ r.1
    let k := sha3 (le64 o ++ b)
    (k, (k, [8] ++ le64 o ++ le64 o ++ b) :: r.2)

def resolvesFast (get : Bytes → Option Bytes) (t : Node) : Bool :=
  (annot t []).2.all (fun e => get e.1 == some e.2)

@[noinline] def storeHM (m : Store) : Std.HashMap Bytes Bytes := m.foldl (fun h e => h.insert e.1 e.2) {}

@[noinline] def resolvesHM (hm : Std.HashMap Bytes Bytes) (t : Node) : Bool :=
  (annot t []).2.all (fun e => hm.get? e.1 == some e.2)

/-- `resolvesFast (Map.get m)`; large stores are indexed by a hash table first -/
def resolvesStore (m : Store) (t : Node) : Bool :=
  if m.length ≤ 400 then resolvesFast (Map.get m) t else resolvesHM (storeHM m) t

def fmtEvents (es : List Event) : String :=
  ",".intercalate (es.filterMap (fun e =>
    match e with
    | .put none n => some ("p:-:" ++ hex (n.key sha3))
    | .put (some o) n =>
      let ok := o.key sha3
      let nk := n.key sha3
      if ok = nk then none else some ("p:" ++ hex ok ++ ":" ++ hex nk)
    | .del o => some ("d:" ++ hex (o.key sha3))))

def observe (s : St) (id : Nat) (t : Trie) : String :=
  let kind := if id = 0 then s.kind0 else "level"
  let it :=
    if resolvesFast (getChain s id) t.tree then fmtPairs (iterate t.tree []) else "!unresolved"
  let ch := sortStr (t.cc.getChanges.map (fun c =>
    hex (c.new.key sha3) ++ (match c.old with | some o => "<" ++ hex (o.key sha3) | none => "")))
  let dl := sortStr (t.cc.getDeletes.map (fun d => hex (d.key sha3)))
  let cur := if kind = "pndb" then [] else sortStr (t.db.current.map (fun e => hex e.1))
  let gone := if kind = "level" then sortStr (t.db.deleted.map hex) else []
  "ok root=" ++ rootStr t.root ++ " iter=" ++ it ++ " changes=" ++ ",".intercalate ch ++ " deletes=" ++ ",".intercalate dl
    ++ " cur=" ++ ",".intercalate cur ++ " gone=" ++ ",".intercalate gone

/-- the pairs of `bulk … <n> <seed> …` (64-bit LCG shared with suite c17 and the Go harness) -/
def bulkPairs (n seed : Nat) : List (List Nib × Bytes) :=
  ((List.range n).foldl (fun (acc : List (List Nib × Bytes) × Nat) _ =>
    let x := (acc.2 * 6364136223846793005 + 1442695040888963407) % 18446744073709551616
    let path : List Nib := (List.range 8).map (fun j => Fin.ofNat 16 ((x >>> (60 - 4 * j)) % 16))
    let val : Bytes := [UInt8.ofNat (0x41 + (x >>> 8) % 26), UInt8.ofNat (x % 256)]
    ((path, val) :: acc.1, x)) ([], seed)).1.reverse

def parseBulk : List String → Option (List (List Nib × Bytes))
  | [] => some []
  | n :: sd :: rest => do
    let a ← n.toNat?; let b ← sd.toNat?; let r ← parseBulk rest
    pure (bulkPairs a b ++ r)
  | _ => none

/-- the literal model: one `Trie.insert` after the other -/
def bulkLiteral (t : Trie) (kvs : List (List Nib × Bytes)) : Trie :=
  kvs.foldl (fun t (p, b) => (t.insert sha3 p b).1) t

/-- Closed form of `bulkLiteral` for a trie whose collector and level are still empty, for inserts only: the tree is the
    structural trie's; a node of the new tree that the old tree does not have is a pending change (its OLD: the old
    tree's node at the same position - replacements keep the position, `SamePos`), a node of the old tree that the new
    one does not have is a pending delete (and remembered as deleted by the level).  One hashing pass per tree instead of
    one per event; for small batches the driver computes both and reports a mismatch. -/
def bulkClosed (t : Trie) (kvs : List (List Nib × Bytes)) : Trie :=
  let tree' := kvs.foldl (fun d (p, b) => Verif.Mpt.insert t.version b d p) t.tree
  let a0 := (annotR t.tree []).2
  let r1 := annotR tree' []
  let keys0 : Std.HashSet Bytes := a0.foldl (fun m e => m.insert e.2.1) {}
  let keys1 : Std.HashSet Bytes := r1.2.foldl (fun m e => m.insert e.2.1) {}
  let pos0 : Std.HashMap (List Nat) Ref := a0.foldl (fun m e => m.insert (e.1.pos.map (·.val)) e.1) {}
  let news := r1.2.filter (fun e => !keys0.contains e.2.1)
  let olds := a0.filter (fun e => !keys1.contains e.2.1)
  { t with
    tree := tree', root := r1.1,
    cc := { t.cc with
      changes := news.map (fun e => (e.2.1, ⟨pos0.get? (e.1.pos.map (·.val)), e.1⟩)),
      deletes := olds.map (fun e => (e.2.1, e.1)) },
    db := { current := news.map (·.2), deleted := olds.map (·.2.1) } }

def trieSig (t : Trie) : List String :=
  [rootStr t.root] ++
  sortStr (t.cc.getChanges.map (fun c => hex (c.new.key sha3) ++ (match c.old with | some o => "<" ++ hex (o.key sha3) | none => ""))) ++ ["|"] ++
  sortStr (t.cc.getDeletes.map (fun d => hex (d.key sha3))) ++ ["|"] ++
  sortStr (t.db.current.map (fun e => hex e.1 ++ "=" ++ hex e.2)) ++ ["|"] ++ sortStr (t.db.deleted.map hex)

/-- the replay order of a merge (see `adversarialOrder` in go/harness/mptstore.go): if some key is both the New of one
    change and the Old of another, creations of such keys first, then the rest, by New key within a rank; otherwise
    the collector's own order (the outcome does not depend on it) -/
def mergeOrder (cs : List (Change Ref)) : List (Change Ref) :=
  let olds := cs.filterMap (fun c => c.old.map (fun o => o.key sha3))
  let keyed := cs.map (fun c => (c.new.key sha3, c))
  if keyed.any (fun e => olds.contains e.1) then
    let rank0 := keyed.filter (fun e => olds.contains e.1)
    let rank1 := keyed.filter (fun e => !olds.contains e.1)
    let srt := fun (l : List (Bytes × Change Ref)) => (l.toArray.qsort (fun a b => hex a.1 < hex b.1)).toList
    (srt rank0 ++ srt rank1).map (·.2)
  else cs

/-- the int64 prune version clamped at 0 (`PruneBelowVersion` returns at once for `version <= 0`) -/
def pruneVersion (v : String) : Nat :=
  match v.toInt? with
  | some (.ofNat n) => n
  | _ => 0

/-- `Verif.MptStore.orderStuck` (Lemmas/OrderChanges; repeated here because drivers import models only): does the
    ordering of `mergeChanges` apply nothing in some pass? -/
def orderStuckLoopD : Nat → List (Change Ref) → Map Bytes Nat → Bool
  | 0, pending, _ => !pending.isEmpty
  | fuel + 1, pending, m =>
    if pending.isEmpty then false
    else
      let r := orderPass sha3 pending m
      if r.2.1.length = pending.length then true
      else orderStuckLoopD fuel r.2.1 r.2.2

def orderStuckD (changes : List (Change Ref)) : Bool :=
  let counts := changes.foldl (fun m c =>
    match c.old with
    | some o => Map.put m (o.key sha3) (replCount m (o.key sha3) + 1)
    | none => m) ([] : Map Bytes Nat)
  orderStuckLoopD (changes.length + 1) changes counts

/-- the saved round a block trie opened now continues from: the latest one that was not executed again -/
def lastSaved (s : St) : Bytes × Node :=
  match (s.saved.filter (fun e => !e.2.2.2)).getLast? with
  | some (_, r, t, _) => (r, t)
  | none => ([], .empty)

/-- a block trie working directly on the persistent store: its level IS the persistent node store -/
def syncP (s : St) : St :=
  if s.kind0 = "pndb" then
    match findTrie s 0 with
    | some (_, t) => { s with ps := { s.ps with nodes := t.db.current } }
    | none => s
  else s

def parseKVs (x : String) : Option (List (List Nib × Bytes)) :=
  (x.splitOn ",").mapM (fun kv =>
    match kv.splitOn "=" with
    | [k, v] => do let p ← parsePath k; let b ← unhex v; pure (p, b)
    | _ => none)

def nodeCount (s : St) : String := toString s.ps.nodes.length

def sortedNodes (m : Store) : List (Bytes × Bytes) :=
  (((m.map (fun e => (hex e.1, e))).toArray.qsort (fun a b => a.1 < b.1)).toList).map (·.2)

def pstoreLine (s : St) : String :=
  let ns := sortedNodes s.ps.nodes
  let cat := ns.flatMap (fun e => e.1 ++ e.2)
  let recs := (s.ps.dead.toArray.qsort (fun a b => a.1 < b.1)).toList
  let ds := recs.map (fun e => toString e.1 ++ ":" ++ ",".intercalate (sortStr (e.2.map hex)))
  "ok keys=" ++ ",".intercalate (ns.map (fun e => hex e.1)) ++ " vd=" ++ hex (sha3 cat) ++ " dead=" ++ ";".intercalate ds

/-- `PStore.apply` with hash tables instead of association-list scans (the model's `Map.put` copies the list on every
    put): same resulting key → value map, used for large stores; on small stores the driver runs the model's own
    `applyAll` and cross-checks this one against it. -/
def applyFast (ps : PStore) : Write → PStore
  | .putNodes es =>
    let hm : Std.HashMap Bytes Bytes := es.foldl (fun m e => m.insert e.1 e.2) {}
    let old : Std.HashSet Bytes := ps.nodes.foldl (fun m e => m.insert e.1) {}
    let fresh := (es.foldl (fun (acc : List (Bytes × Bytes) × Std.HashSet Bytes) e =>
      if acc.2.contains e.1 || old.contains e.1 then acc else ((e.1, hm.getD e.1 e.2) :: acc.1, acc.2.insert e.1)) ([], {})).1
    { ps with nodes := fresh ++ ps.nodes.map (fun e => match hm.get? e.1 with | some v => (e.1, v) | none => e) }
  | .delNodes ks =>
    let set : Std.HashSet Bytes := ks.foldl (fun m k => m.insert k) {}
    { ps with nodes := ps.nodes.filter (fun e => !set.contains e.1) }
  | w => ps.apply w

def storeSig (ps : PStore) : List String :=
  sortStr (ps.nodes.map (fun e => hex e.1 ++ "=" ++ hex e.2)) ++ ["|"] ++
  sortStr (ps.dead.map (fun e => toString e.1 ++ ":" ++ ",".intercalate (sortStr (e.2.map hex))))

def writeSize : Write → Nat
  | .putNodes es => es.length
  | .delNodes ks => ks.length
  | .putRec _ _ => 1
  | .delRecs vs => vs.length

/-- the number of entries of every durable write of a stream, as the harness logs them on the fake RocksDB -/
def sizesStr (ws : List Write) : String :=
  if ws.isEmpty then "-" else "+".intercalate (ws.map (fun w => toString (writeSize w)))

/-- the model's `applyAll`; for large stores the hash-table version -/
def applyAllD (ps : PStore) (ws : List Write) : PStore × String :=
  if ps.nodes.length + (ws.map writeSize).sum ≤ 400 then
    let a := ps.applyAll ws
    (a, if storeSig a != storeSig (ws.foldl applyFast ps) then " APPLY-FAST-MISMATCH" else "")
  else (ws.foldl applyFast ps, "")

/-- `saveStream sha3 t`; after a closed-form bulk the keys and encodings are the ones already computed (no second
    hashing pass per reference) -/
def saveStreamD (s : St) (t : Trie) : List Write :=
  match s.fast0 with
  | some (news, olds) => [.putNodes news, .putRec t.version olds]
  | none => saveStream sha3 t

def streamSig (ws : List Write) : List String :=
  ws.flatMap (fun w => match w with
    | .putNodes es => "P" :: sortStr (es.map (fun e => hex e.1 ++ "=" ++ hex e.2))
    | .putRec v ks => ("R" ++ toString v) :: sortStr (ks.map hex)
    | .delNodes ks => "D" :: sortStr (ks.map hex)
    | .delRecs vs => ["X" ++ toString vs])

def doSave (s : St) (t : Trie) (k : Option Nat) : St :=
  let stream := saveStreamD s t
  let (ps1, f1) := match k with
    | some k => applyAllD s.ps (stream.take k)   -- the crashed attempt; the round is then re-executed and saved again
    | none => (s.ps, "")
  let (ps2, f2) := applyAllD ps1 stream
  let s1 := { s with ps := ps2, saved := s.saved ++ [(t.version, t.root, t.tree, false)], flag := s.flag ++ f1 ++ f2 }
  if s.kind0 = "pndb" then setTrie s1 0 { t with db := { t.db with current := s1.ps.nodes } } else s1

/-- the trie-building ops go through the model's interpreter `Forest.step` (Verif.Model.MptInterp) -/
def tstep (s : St) (op : TOp) : St × String :=
  let stuck : String :=
    match op with
    | .merge id _ =>
      match findTrie s id with
      | some (_, c) =>
        -- hypothesis of the merge theorems, evaluated on every replayed merge: the ordering is never stuck
        -- (a theorem since round 4, `order_never_stuck`; still evaluated on every merge of up to 100 changes)
        if c.cc.changes.length ≤ 100 && (orderStuckD (mergeOrder c.cc.getChanges) || orderStuckD c.cc.getChanges) then " ORDER-STUCK" else ""
      | none => ""
    | _ => ""
  let (f, res) := Forest.step sha3 mergeOrder ⟨s.tries⟩ op
  let s' := syncP { s with tries := f.tries }
  let rootOf (id : Nat) : String := match findTrie s' id with | some (_, t) => rootStr t.root | none => "-"
  match res, op with
  | .ok es, .ins id _ _ => (s', "ok " ++ rootOf id ++ " ev=" ++ fmtEvents es)
  | .ok es, .del id _ => (s', "ok " ++ rootOf id ++ " ev=" ++ fmtEvents es)
  | .ok _, .child _ pid => (s', "ok " ++ rootOf pid)
  | .ok _, .merge id _ =>
    let pid := match findTrie s id with | some (pid, _) => pid | none => 0
    (s', "ok " ++ rootOf pid ++ stuck)
  | .ok _, _ => (s', "ok")
  | .notPresent, _ => (s, "notpresent")
  | .stale, _ => (s, "stale")
  | .badOp, _ => (s, "bad-op")
  | .panic, _ => (s, "panic")

/-- trailing `base`: the donor of a MergeDB is built off the saved state the round continues from; `-` = no pairs -/
def donorBase (s : St) (rest : List String) : List String × Node :=
  let (rest, base) := if rest.getLast? = some "base" then (rest.dropLast, (lastSaved s).2) else (rest, Node.empty)
  (rest.filter (· ≠ "-"), base)

def step1 (s : St) (w : List String) : St × String :=
  match w with
  | "light" :: _ => (s, "ok")
  | ["outside-quantifier"] => (s, "ok")
  | ["snap", id] =>
    match findTrie s id.toNat! with
    | some (_, t) =>
      if id.toNat! = 0 then (s, "bad-op")
      else ({ s with snaps := (id.toNat!, t) :: s.snaps.filter (fun e => e.1 ≠ id.toNat!) }, "ok " ++ rootStr t.root)
    | none => (s, "bad-op")
  | ["mergesnap", id] =>
    -- MergeChanges of the change set taken by `snap`: the merge of the trie VALUE of that moment (values do not change
    -- after the fact); the child itself stays as it is now
    match findTrie s id.toNat!, (s.snaps.find? (fun e => e.1 = id.toNat!)) with
    | some (_, cur), some (_, old) =>
      let (s1, out) := tstep (setTrie s id.toNat! old) (.merge id.toNat! true)
      (setTrie s1 id.toNat! cur, out)
    | _, _ => (s, "bad-op")
  | "round" :: v :: rest =>
    let v := v.toNat!
    let kind := match rest with | [k] => k | _ => "level"
    let saved1 := s.saved.map (fun e => if e.1 ≥ v then (e.1, e.2.1, e.2.2.1, true) else e)
    let s1 := { s with saved := saved1 }
    let (r, tree) := if kind = "mem" then ([], Node.empty) else lastSaved s1
    let t0 := Trie.open r tree v
    let t0 := if kind = "pndb" then { t0 with db := { t0.db with current := s.ps.nodes } } else t0
    let saved2 := if kind = "pndb" then saved1.map (fun e => (e.1, e.2.1, e.2.2.1, true)) else saved1
    ({ s1 with tries := [(0, 0, t0)], kind0 := kind, saved := saved2, snaps := [] }, "ok " ++ rootStr r)
  | ["ver", id, n] => tstep s (.ver id.toNat! n.toNat!)
  | "syncinto" :: id :: w :: rest =>
    let (rest, base) := donorBase s rest
    match findTrie s id.toNat!, (match rest with | [x] => parseKVs x | _ => some []) with
    | some (_, t), some kvs =>
      let donor := kvs.foldl (fun d (p, b) => Verif.Mpt.insert w.toNat! b d p) base
      let t1 := t.applyEvents sha3 ((refs donor []).map (fun r => Event.put none r))
      let t2 := { t1 with tree := donor, root := root sha3 donor }
      (syncP (setTrie s id.toNat! t2), "ok " ++ rootStr t2.root)
    | _, _ => (s, "bad-op")
  | "syncfrom" :: w :: rest =>
    let (rest, base) := donorBase s rest
    match findTrie s 0, (match rest with | [x] => parseKVs x | _ => some []) with
    | some (_, t), some kvs =>
      let donor := kvs.foldl (fun d (p, b) => Verif.Mpt.insert w.toNat! b d p) base
      let t1 := t.applyEvents sha3 ((refs donor []).map (fun r => Event.put none r))
      let t2 := { t1 with tree := donor, root := root sha3 donor }
      (syncP (setTrie s 0 t2), "ok " ++ rootStr t2.root)
    | _, _ => (s, "bad-op")
  | ["child", id, pid] => tstep s (.child id.toNat! pid.toNat!)
  | ["ins", id, p, b] =>
    match parsePath p, unhex b with
    | some p, some b => tstep s (.ins id.toNat! p b)
    | _, _ => (s, "bad-op")
  | ["del", id, p] =>
    match parsePath p with
    | some p => tstep s (.del id.toNat! p)
    | none => (s, "bad-op")
  | "bulk" :: id :: rest =>
    match findTrie s id.toNat!, parseBulk rest with
    | some (_, t), some kvs =>
      let fresh := t.cc.changes.isEmpty && t.cc.deletes.isEmpty && t.db.current.isEmpty && t.db.deleted.isEmpty
      if fresh && !rest.isEmpty then
        let t1 := bulkClosed t kvs
        let f0 := (t1.db.current, t1.db.deleted)
        let chk := if kvs.length ≤ 40 && trieSig t1 != trieSig (bulkLiteral t kvs) then " BULK-CLOSED-FORM-MISMATCH" else ""
        let chk := chk ++ (if kvs.length ≤ 40 && streamSig [.putNodes f0.1, .putRec t1.version f0.2] != streamSig (saveStream sha3 t1)
          then " SAVE-FAST-MISMATCH" else "")
        let s1 := syncP (setTrie s id.toNat! t1)
        (if id.toNat! = 0 then { s1 with fast0 := some f0 } else s1, "ok " ++ rootStr t1.root ++ chk)
      else
        let t1 := bulkLiteral t kvs
        let s1 := syncP (setTrie s id.toNat! t1)
        (if id.toNat! = 0 then { s1 with fast0 := none } else s1, "ok " ++ rootStr t1.root)
    | _, _ => (s, "bad-op")
  | ["iter", id] =>
    match findTrie s id.toNat! with
    | some (_, t) => (s, "ok " ++ fmtPairs (iterate t.tree []))
    | none => (s, "bad-op")
  | ["getv", id, p] =>
    match findTrie s id.toNat!, parsePath p with
    | some (_, t), some p => (s, match lookup t.tree p with | some b => "ok " ++ hex b | none => "notpresent")
    | _, _ => (s, "bad-op")
  | ["get", id, p] =>
    match findTrie s id.toNat!, parsePath p with
    | some (_, t), some p => (s, match lookup t.tree p with | some b => "ok " ++ hex b | none => "notpresent")
    | _, _ => (s, "bad-op")
  | "merge" :: id :: flags => tstep s (.merge id.toNat! (flags.contains "keep"))
  | ["discard", id] => tstep s (.discard id.toNat!)
  | ["observe", id] =>
    match findTrie s id.toNat! with
    | some (_, t) => (s, observe s id.toNat! t)
    | none => (s, "bad-op")
  | ["save"] =>
    match findTrie s 0 with
    | some (_, t) => let s' := doSave s t none; (s', "ok " ++ rootStr t.root ++ " n=" ++ nodeCount s' ++ " w=" ++ sizesStr (saveStreamD s t))
    | none => (s, "bad-op")
  | ["save-timeout", _] =>
    -- the save left through its context while the batch was stalled; the stalled writer then wrote the batch
    match findTrie s 0 with
    | some (_, t) =>
      let (ps1, f1) := applyAllD s.ps ((saveStream sha3 t).take 1)
      let s1 := { s with ps := ps1, flag := s.flag ++ f1 }
      let s1 := if s.kind0 = "pndb" then setTrie s1 0 { t with db := { t.db with current := s1.ps.nodes } } else s1
      (s1, "ok")
    | none => (s, "bad-op")
  | "save-fail" :: _ => (match findTrie s 0 with | some _ => (s, "ok") | none => (s, "bad-op"))
  | ["crash-save", k] =>
    match findTrie s 0 with
    | some (_, t) => let s' := doSave s t (some k.toNat!); (s', "ok " ++ rootStr t.root ++ " n=" ++ nodeCount s' ++ " w=" ++ sizesStr (saveStreamD s t))
    | none => (s, "bad-op")
  | ["reopen", i] =>
    match s.saved[i.toNat!]? with
    | some (_, _, tree, _) =>
      if resolvesStore s.ps.nodes tree then (s, "ok " ++ fmtPairs (iterate tree [])) else (s, "missing")
    | none => (s, "bad-op")
  | ["prune", v] =>
    let stream := pruneStream maxPrune s.ps (pruneVersion v)
    let (ps', f1) := applyAllD s.ps stream
    let s' := { s with ps := ps', flag := s.flag ++ f1 }
    (s', "ok n=" ++ nodeCount s' ++ " w=" ++ sizesStr stream)
  | ["crash-prune", v, k] =>
    let (ps1, f1) := applyAllD s.ps ((pruneStream maxPrune s.ps (pruneVersion v)).take k.toNat!)
    let stream := pruneStream maxPrune ps1 (pruneVersion v)
    let (ps2, f2) := applyAllD ps1 stream
    let s' := { s with ps := ps2, flag := s.flag ++ f1 ++ f2 }
    (s', "ok n=" ++ nodeCount s' ++ " w=" ++ sizesStr stream ++ " mid=" ++ toString ps1.nodes.length)
  | ["pstore"] => (s, pstoreLine s)
  | _ => (s, "bad-op")

/-- trie `id` executed a successful write (own operation, accepted merge of `except` into it, MergeDB): every open
    descendant is stale from now on, except the child whose accepted merge this is (same rule as the Go runner) -/
def markWrote (s : St) (id : Nat) (except : Option Nat) : St :=
  { s with dirty := id :: s.dirty, stale := s.stale ++ (descendants s id).filter (fun d => some d ≠ except) }

/-- Staleness is tracked at execution time, identically in the Go runner: reads and writes through a stale trie are
    outside C03 (only its merge must be rejected) and are answered with a fixed token, not executed.
    `fast0` survives only ops that do not touch the block trie. -/
def step (s : St) (w : List String) : St × String :=
  let isStale := match w with
    | _ :: id :: _ => s.stale.contains id.toNat!
    | _ => false
  match w.head? with
  | none => step1 s w
  | some h =>
    if isStale && ["get", "getv", "iter", "observe"].contains h then (s, "stale-read")
    else if isStale && ["ins", "del", "bulk", "syncinto"].contains h then (s, "stale-write")
    else
      let r := step1 s w
      let r := if r.1.flag = "" then r else ({ r.1 with flag := "" }, r.2 ++ r.1.flag)
      let r := if ["bulk", "light", "observe", "get", "getv", "iter", "pstore", "reopen", "prune", "crash-prune"].contains h then r
               else ({ r.1 with fast0 := none }, r.2)
      let ok := r.2.startsWith "ok"
      let idOf : Nat := match w with | _ :: id :: _ => id.toNat! | _ => 0
      let s' := r.1
      let s' :=
        match h with
        | "round" => { s' with dirty := [], stale := [], snapDirty := [] }
        | "ins" => if ok then markWrote s' idOf none else s'
        | "del" => if ok then markWrote s' idOf none else s'
        | "bulk" => if r.2 = "bad-op" then s' else markWrote s' idOf none
        | "syncinto" => if r.2 = "bad-op" then s' else markWrote s' idOf none
        | "syncfrom" => if r.2 = "bad-op" then s' else markWrote s' 0 none
        | "child" =>
          if ok then
            let pid := match w with | [_, _, pid] => pid.toNat! | _ => 0
            let s2 := { s' with dirty := s'.dirty.filter (· ≠ idOf), stale := s'.stale.filter (· ≠ idOf), snapDirty := s'.snapDirty.filter (· ≠ idOf) }
            if s.stale.contains pid then { s2 with stale := idOf :: s2.stale } else s2
          else s'
        | "snap" => if ok && s.dirty.contains idOf then { s' with snapDirty := idOf :: s'.snapDirty } else
                    if ok then { s' with snapDirty := s'.snapDirty.filter (· ≠ idOf) } else s'
        | "merge" =>
          if ok && s.dirty.contains idOf then
            match findTrie s idOf with
            | some (pid, _) => markWrote s' pid (some idOf)
            | none => s'
          else s'
        | "mergesnap" =>
          if ok && s.snapDirty.contains idOf then
            match findTrie s idOf with
            | some (pid, _) => markWrote s' pid none
            | none => s'
          else s'
        | _ => s'
      (s', r.2)

def main : IO Unit := loop ({} : St) step

end Driver.MptStore
