import Driver.Util
import Verif.Model.MptStore
import Verif.Model.MptInterp
/-! Model driver for the store-layer suites c03/c04/c05 (op language: /verif/go/harness/mptstore.go). -/
namespace Driver.MptStore
open Verif.Mpt Verif.MptStore Driver

structure St where
  ps : PStore := {}
  tries : List (Nat × Nat × Trie) := []        -- id, parent id, trie
  saved : List (Nat × Bytes × Node × Bool) := []   -- version, root, tree, superseded? of every saved round (oldest first)
  kind0 : String := "level"                    -- store kind of the block trie: level | mem | pndb
  snaps : List (Nat × Trie) := []              -- op `snap`: the trie value at that moment (a change set taken from it)

def maxPrune : Nat := 1000

def rootStr (k : Bytes) : String := if k.isEmpty then "-" else hex k

def sortStr (l : List String) : List String := (l.toArray.qsort (· < ·)).toList

def fmtPairs (ps : List (List Nib × Bytes)) : String :=
  ",".intercalate (ps.map (fun (p, b) => ptok p ++ "=" ++ hex b))

def findTrie (s : St) (id : Nat) : Option (Nat × Trie) :=
  (s.tries.find? (fun e => e.1 = id)).map (·.2)

def setTrie (s : St) (id : Nat) (t : Trie) : St :=
  { s with tries := s.tries.map (fun e => if e.1 = id then (e.1, e.2.1, t) else e) }

/-- ids of all descendants of `id` -/
partial def descendants (s : St) (id : Nat) : List Nat :=
  let ch := (s.tries.filter (fun e => e.2.1 = id ∧ e.1 ≠ id)).map (·.1)
  ch ++ ch.flatMap (descendants s)

def closeTrie (s : St) (id : Nat) : St :=
  let gone := id :: descendants s id
  { s with tries := s.tries.filter (fun e => !gone.contains e.1) }

/-- read-through lookup of a trie's layered store: own level, the ancestors' levels, the persistent store -/
partial def getChain (s : St) (id : Nat) (k : Bytes) : Option Bytes :=
  match findTrie s id with
  | none => Map.get s.ps.nodes k
  | some (pid, t) =>
    match Map.get t.db.current k with
    | some v => some v
    | none => if pid = id then Map.get s.ps.nodes k else getChain s pid k

/-- (key, stored encoding) of every node of a tree in one bottom-up pass; returns the key of the root node first.
    Same values as `refs`/`Ref.key`/`Ref.encode` of the model, without recomputing subtree hashes. -/
def annot : Node → List Nib → Bytes × List (Bytes × Bytes)
  | .empty, _ => ([], [])
  | .leaf o lp lv, pre =>
    let b := pre.map nibChar ++ [sep] ++ lp.map nibChar ++ [sep] ++ lv
    let k := sha3 (le64 o ++ b)
    (k, [(k, [2] ++ le64 o ++ le64 o ++ b)])
  | .full o ch val, pre =>
    let rs := (List.finRange 16).map (fun i => annot (ch i) (pre ++ [i]))
    let b := rs.flatMap (fun r => (if r.1.isEmpty then [] else hexBytes r.1) ++ [sep]) ++ (match val with | some b => b | none => [])
    let k := sha3 (le64 o ++ b)
    (k, (k, [4] ++ le64 o ++ le64 o ++ b) :: rs.flatMap (·.2))
  | .ext o ep c, pre =>
    let r := annot c (pre ++ ep)
    let b := ep.map nibChar ++ [sep] ++ r.1
    let k := sha3 (le64 o ++ b)
    (k, (k, [8] ++ le64 o ++ le64 o ++ b) :: r.2)

def resolvesFast (get : Bytes → Option Bytes) (t : Node) : Bool :=
  (annot t []).2.all (fun e => get e.1 == some e.2)

def fmtEvents (es : List Event) : String :=
  ",".intercalate (es.filterMap (fun e =>
    match e with
    | .put none n => some ("p:-:" ++ hex (n.key sha3))
    | .put (some o) n =>
      let ok := o.key sha3
      let nk := n.key sha3
      if ok = nk then none else some ("p:" ++ hex ok ++ ":" ++ hex nk)
    | .del o => some ("d:" ++ hex (o.key sha3))))

def observe (s : St) (id : Nat) (t : Trie) : String :=
  let kind := if id = 0 then s.kind0 else "level"
  let it :=
    if resolvesFast (getChain s id) t.tree then fmtPairs (iterate t.tree []) else "!unresolved"
  let ch := sortStr (t.cc.getChanges.map (fun c =>
    hex (c.new.key sha3) ++ (match c.old with | some o => "<" ++ hex (o.key sha3) | none => "")))
  let dl := sortStr (t.cc.getDeletes.map (fun d => hex (d.key sha3)))
  let cur := if kind = "pndb" then [] else sortStr (t.db.current.map (fun e => hex e.1))
  let gone := if kind = "level" then sortStr (t.db.deleted.map hex) else []
  "ok root=" ++ rootStr t.root ++ " iter=" ++ it ++ " changes=" ++ ",".intercalate ch ++ " deletes=" ++ ",".intercalate dl
    ++ " cur=" ++ ",".intercalate cur ++ " gone=" ++ ",".intercalate gone

/-- the replay order of a merge (see `adversarialOrder` in go/harness/mptstore.go): if some key is both the New of one
    change and the Old of another, creations of such keys first, then the rest, by New key within a rank; otherwise
    the collector's own order (the outcome does not depend on it) -/
def mergeOrder (cs : List (Change Ref)) : List (Change Ref) :=
  let olds := cs.filterMap (fun c => c.old.map (fun o => o.key sha3))
  let keyed := cs.map (fun c => (c.new.key sha3, c))
  if keyed.any (fun e => olds.contains e.1) then
    let rank0 := keyed.filter (fun e => olds.contains e.1)
    let rank1 := keyed.filter (fun e => !olds.contains e.1)
    let srt := fun (l : List (Bytes × Change Ref)) => (l.toArray.qsort (fun a b => hex a.1 < hex b.1)).toList
    (srt rank0 ++ srt rank1).map (·.2)
  else cs

/-- the int64 prune version clamped at 0 (`PruneBelowVersion` returns at once for `version <= 0`) -/
def pruneVersion (v : String) : Nat :=
  match v.toInt? with
  | some (.ofNat n) => n
  | _ => 0

/-- `Verif.MptStore.orderStuck` (Lemmas/OrderChanges; repeated here because drivers import models only): does the
    ordering of `mergeChanges` apply nothing in some pass? -/
def orderStuckLoopD : Nat → List (Change Ref) → Map Bytes Nat → Bool
  | 0, pending, _ => !pending.isEmpty
  | fuel + 1, pending, m =>
    if pending.isEmpty then false
    else
      let r := orderPass sha3 pending m
      if r.2.1.length = pending.length then true
      else orderStuckLoopD fuel r.2.1 r.2.2

def orderStuckD (changes : List (Change Ref)) : Bool :=
  let counts := changes.foldl (fun m c =>
    match c.old with
    | some o => Map.put m (o.key sha3) (replCount m (o.key sha3) + 1)
    | none => m) ([] : Map Bytes Nat)
  orderStuckLoopD (changes.length + 1) changes counts

/-- the saved round a block trie opened now continues from: the latest one that was not executed again -/
def lastSaved (s : St) : Bytes × Node :=
  match (s.saved.filter (fun e => !e.2.2.2)).getLast? with
  | some (_, r, t, _) => (r, t)
  | none => ([], .empty)

/-- a block trie working directly on the persistent store: its level IS the persistent node store -/
def syncP (s : St) : St :=
  if s.kind0 = "pndb" then
    match findTrie s 0 with
    | some (_, t) => { s with ps := { s.ps with nodes := t.db.current } }
    | none => s
  else s

def parseKVs (x : String) : Option (List (List Nib × Bytes)) :=
  (x.splitOn ",").mapM (fun kv =>
    match kv.splitOn "=" with
    | [k, v] => do let p ← parsePath k; let b ← unhex v; pure (p, b)
    | _ => none)

def nodeCount (s : St) : String := toString s.ps.nodes.length

def sortedNodes (m : Store) : List (Bytes × Bytes) :=
  (m.toArray.qsort (fun a b => hex a.1 < hex b.1)).toList

def pstoreLine (s : St) : String :=
  let ns := sortedNodes s.ps.nodes
  let cat := ns.flatMap (fun e => e.1 ++ e.2)
  let recs := (s.ps.dead.toArray.qsort (fun a b => a.1 < b.1)).toList
  let ds := recs.map (fun e => toString e.1 ++ ":" ++ ",".intercalate (sortStr (e.2.map hex)))
  "ok keys=" ++ ",".intercalate (ns.map (fun e => hex e.1)) ++ " vd=" ++ hex (sha3 cat) ++ " dead=" ++ ";".intercalate ds

def doSave (s : St) (t : Trie) (k : Option Nat) : St :=
  let stream := saveStream sha3 t
  let ps1 := match k with
    | some k => s.ps.applyAll (stream.take k)   -- the crashed attempt; the round is then re-executed and saved again
    | none => s.ps
  let s1 := { s with ps := ps1.applyAll stream, saved := s.saved ++ [(t.version, t.root, t.tree, false)] }
  if s.kind0 = "pndb" then setTrie s1 0 { t with db := { t.db with current := s1.ps.nodes } } else s1

/-- the trie-building ops go through the model's interpreter `Forest.step` (Verif.Model.MptInterp) -/
def tstep (s : St) (op : TOp) : St × String :=
  let stuck : String :=
    match op with
    | .merge id _ =>
      match findTrie s id with
      | some (_, c) =>
        -- hypothesis of the merge theorems, evaluated on every replayed merge: the ordering is never stuck
        if orderStuckD (mergeOrder c.cc.getChanges) || orderStuckD c.cc.getChanges then " ORDER-STUCK" else ""
      | none => ""
    | _ => ""
  let (f, res) := Forest.step sha3 mergeOrder ⟨s.tries⟩ op
  let s' := syncP { s with tries := f.tries }
  let rootOf (id : Nat) : String := match findTrie s' id with | some (_, t) => rootStr t.root | none => "-"
  match res, op with
  | .ok es, .ins id _ _ => (s', "ok " ++ rootOf id ++ " ev=" ++ fmtEvents es)
  | .ok es, .del id _ => (s', "ok " ++ rootOf id ++ " ev=" ++ fmtEvents es)
  | .ok _, .child _ pid => (s', "ok " ++ rootOf pid)
  | .ok _, .merge id _ =>
    let pid := match findTrie s id with | some (pid, _) => pid | none => 0
    (s', "ok " ++ rootOf pid ++ stuck)
  | .ok _, _ => (s', "ok")
  | .notPresent, _ => (s, "notpresent")
  | .stale, _ => (s, "stale")
  | .badOp, _ => (s, "bad-op")
  | .panic, _ => (s, "panic")

/-- trailing `base`: the donor of a MergeDB is built off the saved state the round continues from; `-` = no pairs -/
def donorBase (s : St) (rest : List String) : List String × Node :=
  let (rest, base) := if rest.getLast? = some "base" then (rest.dropLast, (lastSaved s).2) else (rest, Node.empty)
  (rest.filter (· ≠ "-"), base)

def step (s : St) (w : List String) : St × String :=
  match w with
  | ["light"] => (s, "ok")
  | ["snap", id] =>
    match findTrie s id.toNat! with
    | some (_, t) =>
      if id.toNat! = 0 then (s, "bad-op")
      else ({ s with snaps := (id.toNat!, t) :: s.snaps.filter (fun e => e.1 ≠ id.toNat!) }, "ok " ++ rootStr t.root)
    | none => (s, "bad-op")
  | ["mergesnap", id] =>
    -- MergeChanges of the change set taken by `snap`: the merge of the trie VALUE of that moment (values do not change
    -- after the fact); the child itself stays as it is now
    match findTrie s id.toNat!, (s.snaps.find? (fun e => e.1 = id.toNat!)) with
    | some (_, cur), some (_, old) =>
      let (s1, out) := tstep (setTrie s id.toNat! old) (.merge id.toNat! true)
      (setTrie s1 id.toNat! cur, out)
    | _, _ => (s, "bad-op")
  | "round" :: v :: rest =>
    let v := v.toNat!
    let kind := match rest with | [k] => k | _ => "level"
    let saved1 := s.saved.map (fun e => if e.1 ≥ v then (e.1, e.2.1, e.2.2.1, true) else e)
    let s1 := { s with saved := saved1 }
    let (r, tree) := if kind = "mem" then ([], Node.empty) else lastSaved s1
    let t0 := Trie.open r tree v
    let t0 := if kind = "pndb" then { t0 with db := { t0.db with current := s.ps.nodes } } else t0
    let saved2 := if kind = "pndb" then saved1.map (fun e => (e.1, e.2.1, e.2.2.1, true)) else saved1
    ({ s1 with tries := [(0, 0, t0)], kind0 := kind, saved := saved2, snaps := [] }, "ok " ++ rootStr r)
  | ["ver", id, n] => tstep s (.ver id.toNat! n.toNat!)
  | "syncinto" :: id :: w :: rest =>
    let (rest, base) := donorBase s rest
    match findTrie s id.toNat!, (match rest with | [x] => parseKVs x | _ => some []) with
    | some (_, t), some kvs =>
      let donor := kvs.foldl (fun d (p, b) => Verif.Mpt.insert w.toNat! b d p) base
      let t1 := t.applyEvents sha3 ((refs donor []).map (fun r => Event.put none r))
      let t2 := { t1 with tree := donor, root := root sha3 donor }
      (syncP (setTrie s id.toNat! t2), "ok " ++ rootStr t2.root)
    | _, _ => (s, "bad-op")
  | "syncfrom" :: w :: rest =>
    let (rest, base) := donorBase s rest
    match findTrie s 0, (match rest with | [x] => parseKVs x | _ => some []) with
    | some (_, t), some kvs =>
      let donor := kvs.foldl (fun d (p, b) => Verif.Mpt.insert w.toNat! b d p) base
      let t1 := t.applyEvents sha3 ((refs donor []).map (fun r => Event.put none r))
      let t2 := { t1 with tree := donor, root := root sha3 donor }
      (syncP (setTrie s 0 t2), "ok " ++ rootStr t2.root)
    | _, _ => (s, "bad-op")
  | ["child", id, pid] => tstep s (.child id.toNat! pid.toNat!)
  | ["ins", id, p, b] =>
    match parsePath p, unhex b with
    | some p, some b => tstep s (.ins id.toNat! p b)
    | _, _ => (s, "bad-op")
  | ["del", id, p] =>
    match parsePath p with
    | some p => tstep s (.del id.toNat! p)
    | none => (s, "bad-op")
  | ["get", id, p] =>
    match findTrie s id.toNat!, parsePath p with
    | some (_, t), some p => (s, match lookup t.tree p with | some b => "ok " ++ hex b | none => "notpresent")
    | _, _ => (s, "bad-op")
  | "merge" :: id :: flags => tstep s (.merge id.toNat! (flags.contains "keep"))
  | ["discard", id] => tstep s (.discard id.toNat!)
  | ["observe", id] =>
    match findTrie s id.toNat! with
    | some (_, t) => (s, observe s id.toNat! t)
    | none => (s, "bad-op")
  | ["save"] =>
    match findTrie s 0 with
    | some (_, t) => let s' := doSave s t none; (s', "ok " ++ rootStr t.root ++ " n=" ++ nodeCount s')
    | none => (s, "bad-op")
  | ["save-timeout", _] =>
    -- the save left through its context while the batch was stalled; the stalled writer then wrote the batch
    match findTrie s 0 with
    | some (_, t) =>
      let s1 := { s with ps := s.ps.applyAll ((saveStream sha3 t).take 1) }
      let s1 := if s.kind0 = "pndb" then setTrie s1 0 { t with db := { t.db with current := s1.ps.nodes } } else s1
      (s1, "ok")
    | none => (s, "bad-op")
  | "save-fail" :: _ => (match findTrie s 0 with | some _ => (s, "ok") | none => (s, "bad-op"))
  | ["crash-save", k] =>
    match findTrie s 0 with
    | some (_, t) => let s' := doSave s t (some k.toNat!); (s', "ok " ++ rootStr t.root ++ " n=" ++ nodeCount s')
    | none => (s, "bad-op")
  | ["reopen", i] =>
    match s.saved[i.toNat!]? with
    | some (_, _, tree, _) =>
      if resolvesFast (Map.get s.ps.nodes) tree then (s, "ok " ++ fmtPairs (iterate tree [])) else (s, "missing")
    | none => (s, "bad-op")
  | ["prune", v] =>
    let s' := { s with ps := s.ps.applyAll (pruneStream maxPrune s.ps (pruneVersion v)) }
    (s', "ok n=" ++ nodeCount s')
  | ["crash-prune", v, k] =>
    let ps1 := s.ps.applyAll ((pruneStream maxPrune s.ps (pruneVersion v)).take k.toNat!)
    let s' := { s with ps := ps1.applyAll (pruneStream maxPrune ps1 (pruneVersion v)) }
    (s', "ok n=" ++ nodeCount s')
  | ["pstore"] => (s, pstoreLine s)
  | _ => (s, "bad-op")

def main : IO Unit := loop ({} : St) step

end Driver.MptStore
