import Driver.Mpt
import Driver.StateCache
import Driver.Wmpt
import Driver.Currency
import Driver.Merkle
import Driver.Ring
import Driver.MptStore
import Driver.Codec
/-- `modeld <model>`: reads op lines on stdin, prints one canonical output line per op line. -/
def main (args : List String) : IO UInt32 := do
  match args with
  | ["sha3", s] => IO.println (Verif.Sha3.sha3Hex s); return 0
  | ["mpt"] => Driver.Mpt.main; return 0
  | ["sc"] => Driver.StateCache.main; return 0
  | ["wmpt"] => Driver.Wmpt.main; return 0
  | ["currency"] => Driver.Currency.main; return 0
  | ["merkle"] => Driver.Merkle.main; return 0
  | ["ring"] => Driver.Ring.main; return 0
  | ["mptstore"] => Driver.MptStore.main; return 0
  | ["codec"] => Driver.Codec.main; return 0
  | _ => IO.eprintln "usage: modeld <model>"; return 2
