import Driver.Mpt
def main (args : List String) : IO UInt32 := do
  match args with
  | ["sha3", s] => IO.println (Verif.Sha3.sha3Hex s); return 0
  | ["mpt"] => Driver.Mpt.main; return 0
  | _ => IO.eprintln "usage: modeld <model>"; return 2
