import Verif.Model.Sha3
import Verif.Model.Mpt
/-! Line-protocol helpers shared by the model drivers. -/
namespace Driver

def sha3 (b : List UInt8) : List UInt8 := (Verif.Sha3.sha3_256 (ByteArray.mk b.toArray)).data.toList

def hexVal (c : Char) : Option Nat :=
  if '0' ≤ c ∧ c ≤ '9' then some (c.toNat - 48)
  else if 'a' ≤ c ∧ c ≤ 'f' then some (c.toNat - 87)
  else if 'A' ≤ c ∧ c ≤ 'F' then some (c.toNat - 55)
  else none

/-- "-" is the empty byte string -/
def unhex (s : String) : Option (List UInt8) :=
  if s = "-" then some [] else
  let rec go : List Char → Option (List UInt8)
    | [] => some []
    | [_] => none
    | a :: b :: r => do
      let x ← hexVal a; let y ← hexVal b; let rest ← go r
      pure (UInt8.ofNat (x * 16 + y) :: rest)
  go s.toList

def hexChar (n : Nat) : Char := if n < 10 then Char.ofNat (48 + n) else Char.ofNat (87 + n)

def hex (b : List UInt8) : String :=
  String.ofList (b.flatMap (fun x => [hexChar (x.toNat / 16), hexChar (x.toNat % 16)]))

/-- "-" is the empty path -/
def parsePath (s : String) : Option (List (Fin 16)) :=
  if s = "-" then some [] else
  s.toList.mapM (fun c => do
    let v ← hexVal c
    if h : v < 16 then pure (⟨v, h⟩ : Fin 16) else none)

def pathStr (p : List (Fin 16)) : String := String.ofList (p.map (fun n => hexChar n.val))

def ptok (p : List (Fin 16)) : String := if p.isEmpty then "-" else pathStr p

def words (line : String) : List String :=
  (line.splitOn " ").filter (fun w => w ≠ "")

/-- read all lines of stdin, feeding them to a state machine; lines starting with '#' reset the state and are echoed -/
partial def loop {σ : Type} (init : σ) (step : σ → List String → σ × String) : IO Unit := do
  let stdin ← IO.getStdin
  let stdout ← IO.getStdout
  let rec go (s : σ) : IO Unit := do
    let line ← stdin.getLine
    if line.isEmpty then return ()
    let l := (line.dropRightWhile (fun c => c = (Char.ofNat 10) || c = (Char.ofNat 13)))
    if l.startsWith "#" then
      stdout.putStrLn l
      go init
    else
      let (s', out) := step s (words l)
      stdout.putStrLn out
      go s'
  go init
  stdout.flush

end Driver
