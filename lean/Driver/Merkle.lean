import Driver.Util
import Verif.Model.Merkle
/-! Model driver for suite c19 (op language: see /verif/go/harness/suite_c19.go). -/
namespace Driver.Merkle
open Verif.Merkle Driver

def hash (s : String) : String := Verif.Sha3.sha3Hex s

/-- `util.MHash(a, b) = Hash(a + b)` on hex strings -/
def mhash (a b : String) : String := hash (a ++ b)

/-- FNV-1a 64 of a long canonical text, 16 hex digits (fingerprint of tree arrays and path lists; see `c19Digest`) -/
def digest (s : String) : String :=
  let h := s.toUTF8.foldl (fun (h : UInt64) b => (h ^^^ b.toUInt64) * 0x100000001b3) 0xcbf29ce484222325
  String.ofList ((List.range 16).map (fun i => hexChar ((h >>> (UInt64.ofNat (60 - 4 * i))).toNat % 16)))

structure St where
  leaves : Array String := #[]
  tree : Option (Tree String) := none
  /-- exported arrays with their leaf counts; values, so nothing computed later can change them -/
  exports : Array (Array String × Nat) := #[]

def mkLeaves (n : Nat) (tag : String) : Array String :=
  (Array.range n).map (fun i => hash (tag ++ "/" ++ toString i))

def computeLine (t : Tree String) : String :=
  "ok " ++ toString t.tree.size ++ " " ++ getRoot "" t ++ " " ++ digest (",".intercalate t.tree.toList)

def nodesStr (p : List String) : String := if p.isEmpty then "-" else ",".intercalate p

def pathsDigest (t : Tree String) (n : Nat) : String :=
  let lines := (List.range n).map (fun i =>
    let p := pathByIndex "" t i
    toString p.leafIndex ++ ":" ++ nodesStr p.nodes ++ "\n")
  digest (String.join lines)

def bstr (b : Bool) : String := if b then "true" else "false"

def pathLine (t : Tree String) (h : String) (p : Path String) : String :=
  let v := verify mhash h p (getRoot "" t)
  "ok " ++ toString p.leafIndex ++ " " ++ nodesStr p.nodes ++ " " ++ bstr v ++ " " ++ bstr v

def step (s : St) (w : List String) : St × String :=
  match s.tree, w with
  | none, ["leaves", n, tag] =>
    ({ s with leaves := mkLeaves n.toNat! tag }, "ok")
  | none, ["dup", i, j] =>
    let i := i.toNat!; let j := j.toNat!
    if i < s.leaves.size ∧ j < s.leaves.size then ({ s with leaves := s.leaves.set! i s.leaves[j]! }, "ok") else (s, "bad-op")
  | none, ["compute"] =>
    if s.leaves.size = 0 then (s, "bad-op") else
    let t := computeTree mhash "" s.leaves.toList
    ({ s with tree := some t }, computeLine t)
  | some _, ["recompute", n, tag] =>
    if n.toNat! = 0 then (s, "bad-op") else
    let ls := mkLeaves n.toNat! tag
    let t := computeTree mhash "" ls.toList
    ({ s with leaves := ls, tree := some t }, computeLine t)
  | some t, ["export"] =>
    ({ s with exports := s.exports.push (t.tree, s.leaves.size) }, "ok " ++ toString s.exports.size)
  | some _, ["loadcompute", k, n, tag] =>
    match s.exports[k.toNat!]? with
    | none => (s, "bad-op")
    | some (arr, m) =>
      if n.toNat! = 0 then (s, "bad-op") else
      match setTree m arr with
      | none => (s, "err")
      | some _ => (s, computeLine (computeTree mhash "" (mkLeaves n.toNat! tag).toList))
  | some _, ["checkexport", k] =>
    match s.exports[k.toNat!]? with
    | none => (s, "bad-op")
    | some (arr, m) =>
      match setTree m arr with
      | none => (s, "err")
      | some t2 => (s, "ok " ++ getRoot "" t2 ++ " " ++ pathsDigest t2 m)
  | some t, ["tree"] => (s, "ok " ++ ",".intercalate t.tree.toList)
  | some t, ["pathidx", i] =>
    let i := i.toNat!
    if i < s.leaves.size then (s, pathLine t s.leaves[i]! (pathByIndex "" t i)) else (s, "bad-op")
  | some t, ["pathleaf", i] =>
    let i := i.toNat!
    if i < s.leaves.size then (s, pathLine t s.leaves[i]! (getPath "" t s.leaves[i]!)) else (s, "bad-op")
  | some t, ["pathmissing", tag] => (s, pathLine t (hash tag) (getPath "" t (hash tag)))
  | some t, ["allpaths"] => (s, "ok " ++ pathsDigest t s.leaves.size)
  | some t, ["verifyall"] =>
    let root := getRoot "" t
    let c := (List.range s.leaves.size).foldl (fun c i =>
      if verify mhash s.leaves[i]! (pathByIndex "" t i) root then c + 1 else c) 0
    (s, "ok " ++ toString c)
  | some t, ["offer", i, j] =>
    let i := i.toNat!; let j := j.toNat!
    if i < s.leaves.size ∧ j < s.leaves.size then
      (s, bstr (verify mhash s.leaves[j]! (pathByIndex "" t i) (getRoot "" t)))
    else (s, "bad-op")
  | some t, ["offerrand", i, tag] =>
    let i := i.toNat!
    if i < s.leaves.size then (s, bstr (verify mhash (hash tag) (pathByIndex "" t i) (getRoot "" t))) else (s, "bad-op")
  | some t, ["offerall", i] =>
    let i := i.toNat!
    if i < s.leaves.size then
      let p := pathByIndex "" t i
      let root := getRoot "" t
      let c := (List.range s.leaves.size).foldl (fun c j =>
        if j ≠ i ∧ verify mhash s.leaves[j]! p root then c + 1 else c) 0
      (s, "ok " ++ toString c)
    else (s, "bad-op")
  | some t, ["vidx", i, k] =>
    let i := i.toNat!
    match k.toInt? with
    | some k =>
      if i < s.leaves.size then
        let p := pathByIndex "" t i
        (s, bstr (verify mhash s.leaves[i]! { p with leafIndex := k } (getRoot "" t)))
      else (s, "bad-op")
    | none => (s, "bad-op")
  | some t, ["settree", m] =>
    match setTree m.toNat! t.tree with
    | none => (s, "err")
    | some t2 => (s, "ok " ++ getRoot "" t2 ++ " " ++ pathsDigest t2 s.leaves.size)
  | _, _ => (s, "bad-op")

def main : IO Unit := loop ({} : St) step
end Driver.Merkle
