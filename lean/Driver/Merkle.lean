import Driver.Util
import Verif.Model.MerkleChecked
/-! Model driver for suite c19 (op language: see /verif/go/harness/suite_c19.go). Every operation runs the *checked*
model (`Verif.Model.MerkleChecked`) and prints `panic` where that model panics. -/
namespace Driver.Merkle
open Verif.Merkle Driver

def hash (s : String) : String := Verif.Sha3.sha3Hex s

/-- `util.MHash(a, b) = Hash(a + b)` on hex strings -/
def mhash (a b : String) : String := hash (a ++ b)

/-- FNV-1a 64 of a long canonical text, 16 hex digits (fingerprint of tree arrays and path lists; see `c19Digest`) -/
def digest (s : String) : String :=
  let h := s.toUTF8.foldl (fun (h : UInt64) b => (h ^^^ b.toUInt64) * 0x100000001b3) 0xcbf29ce484222325
  String.ofList ((List.range 16).map (fun i => hexChar ((h >>> (UInt64.ofNat (60 - 4 * i))).toNat % 16)))

structure St where
  leaves : Array String := #[]
  tree : Option (Tree String) := none
  /-- exported arrays with their leaf counts; values, so nothing computed later can change them -/
  exports : Array (Array String × Nat) := #[]

def mkLeaves (n : Nat) (tag : String) : Array String :=
  (Array.range n).map (fun i => hash (tag ++ "/" ++ toString i))

/-- render a possibly panicking result -/
def chk {β : Type} (x : Chk β) (f : β → String) : String :=
  match x with
  | .ok b => f b
  | .panic => "panic"

def rootStr (t : Tree String) : String :=
  chk (getRootC t) (fun r => if r.isEmpty then "-" else r)

def computeLine (t : Tree String) : String :=
  chk (getRootC t) (fun r =>
    "ok " ++ toString t.tree.size ++ " " ++ (if r.isEmpty then "-" else r) ++ " " ++ digest (",".intercalate t.tree.toList))

def nodesStr (p : List String) : String := if p.isEmpty then "-" else ",".intercalate p

/-- fingerprint of `GetPathByIndex(i)` for all `i < n`; `panic` if one of them panics -/
def pathsDigest (t : Tree String) (n : Nat) : String :=
  let r := (List.range n).foldl (fun (acc : Chk (List String)) (i : Nat) =>
    match acc, pathByIndexC "" t (i : Int) with
    | .ok ls, .ok p => .ok ((toString p.leafIndex ++ ":" ++ nodesStr p.nodes ++ "\n") :: ls)
    | _, _ => .panic) (.ok [])
  chk r (fun ls => digest (String.join ls.reverse))

def bstr (b : Bool) : String := if b then "true" else "false"

/-- both verification entry points: `mt.VerifyPath(h, p)` and `VerifyMerklePath(h, p, mt.GetRoot())` -/
def verdict (t : Tree String) (h : String) (p : Path String) : Chk Bool := verifyPathC mhash t h (some p)

def pathLine (t : Tree String) (h : String) (p : Chk (Path String)) : String :=
  chk p (fun p => chk (verdict t h p) (fun v =>
    "ok " ++ toString p.leafIndex ++ " " ++ nodesStr p.nodes ++ " " ++ bstr v ++ " " ++ bstr v))

def computeOn (ls : Array String) : Chk (Tree String) := computeTreeC mhash "" ls.toList

/-- a leaf hash string given as the hex of its bytes ("-" = empty); hash strings are arbitrary strings -/
def rawStr (tok : String) : Option String :=
  match unhex tok with
  | some bs => String.fromUTF8? (ByteArray.mk bs.toArray)
  | none => none

def step (s : St) (w : List String) : St × String :=
  match s.tree, w with
  | none, ["lf", tok] =>
    match rawStr tok with
    | some l => ({ s with leaves := s.leaves.push l }, "ok")
    | none => (s, "bad-op")
  | some t, ["offerraw", i, tok] =>
    let i := i.toNat!
    match rawStr tok with
    | some h =>
      if i < s.leaves.size then (s, chk (pathByIndexC "" t (i : Int)) (fun p => chk (verdict t h p) bstr))
      else (s, "bad-op")
    | none => (s, "bad-op")
  | none, ["leaves", n, tag] =>
    ({ s with leaves := mkLeaves n.toNat! tag }, "ok")
  | none, ["dup", i, j] =>
    let i := i.toNat!; let j := j.toNat!
    if i < s.leaves.size ∧ j < s.leaves.size then ({ s with leaves := s.leaves.set! i s.leaves[j]! }, "ok") else (s, "bad-op")
  | none, ["compute"] =>
    match computeOn s.leaves with
    | .ok t => ({ s with tree := some t }, computeLine t)
    | .panic => (s, "panic")
  | none, ["zero"] => ({ s with tree := some zeroTree }, "ok")
  | some _, ["recompute", n, tag] =>
    let ls := mkLeaves n.toNat! tag
    match computeOn ls with
    | .ok t => ({ s with leaves := ls, tree := some t }, computeLine t)
    | .panic => (s, "panic")
  | some t, ["badload", m] =>
    match m.toInt? with
    | none => (s, "bad-op")
    | some m =>
      -- `SetTree` assigns the object's fields only after the size check: a rejected load leaves it as it was
      match setTreeC m t.tree with
      | none => (s, "err")
      | some t2 => ({ s with tree := some t2 }, "ok")
  | some t, ["reload"] =>
    match setTree s.leaves.size t.tree with
    | none => (s, "err")
    | some t2 => ({ s with tree := some t2 }, "ok")
  | some _, ["load", k] =>
    match s.exports[k.toNat!]? with
    | none => (s, "bad-op")
    | some (arr, m) =>
      match setTree m arr with
      | none => (s, "err")
      | some t2 => ({ s with tree := some t2, leaves := arr.extract 0 m }, chk (getRootC t2) (fun r => "ok " ++ r))
  | some _, ["loadbad", k, m] =>
    match s.exports[k.toNat!]?, m.toInt? with
    | some (arr, _), some m =>
      match setTreeC m arr with
      | none => (s, "err")
      | some t2 => ({ s with tree := some t2 }, "ok")
    | _, _ => (s, "bad-op")
  | some t, ["find", tok] =>
    match rawStr tok with
    | none => (s, "bad-op")
    | some h =>
      let idx : Int := match getLeafIndex "" t h with | some i => (i : Int) | none => -1
      (s, chk (getPathC "" t h) (fun p => chk (verdict t h p) (fun v =>
        "ok " ++ toString idx ++ " " ++ toString p.leafIndex ++ " " ++ nodesStr p.nodes ++ " " ++ bstr v)))
  | some t, ["export"] =>
    ({ s with exports := s.exports.push (t.tree, s.leaves.size) }, "ok " ++ toString s.exports.size)
  | some _, ["loadcompute", k, n, tag] =>
    match s.exports[k.toNat!]? with
    | none => (s, "bad-op")
    | some (arr, m) =>
      match setTree m arr with
      | none => (s, "err")
      | some _ => (s, chk (computeOn (mkLeaves n.toNat! tag)) computeLine)
  | some _, ["checkexport", k] =>
    match s.exports[k.toNat!]? with
    | none => (s, "bad-op")
    | some (arr, m) =>
      match setTree m arr with
      | none => (s, "err")
      | some t2 => (s, chk (getRootC t2) (fun r => "ok " ++ r ++ " " ++ pathsDigest t2 m))
  | some t, ["tree"] => (s, "ok " ++ ",".intercalate t.tree.toList)
  | some t, ["root"] => (s, chk (getRootC t) (fun r => "ok " ++ (if r.isEmpty then "-" else r)))
  | some t, ["pathraw", i] =>
    match i.toInt? with
    | some i => (s, chk (pathByIndexC "" t i) (fun p => "ok " ++ toString p.leafIndex ++ " " ++ nodesStr p.nodes))
    | none => (s, "bad-op")
  | some t, ["verifynil", tag] => (s, chk (verifyPathC mhash t (hash tag) none) bstr)
  | some t, ["loadraw", m] =>
    match m.toInt? with
    | none => (s, "bad-op")
    | some m =>
      match setTreeC m t.tree with
      | none => (s, "err")
      | some t2 =>
        (s, "ok " ++ rootStr t2 ++ " " ++
          chk (pathByIndexC "" t2 0) (fun p => toString p.leafIndex ++ ":" ++ nodesStr p.nodes))
  | some t, ["pathidx", i] =>
    let i := i.toNat!
    if i < s.leaves.size then (s, pathLine t s.leaves[i]! (pathByIndexC "" t (i : Int))) else (s, "bad-op")
  | some t, ["pathleaf", i] =>
    let i := i.toNat!
    if i < s.leaves.size then (s, pathLine t s.leaves[i]! (getPathC "" t s.leaves[i]!)) else (s, "bad-op")
  | some t, ["pathmissing", tag] => (s, pathLine t (hash tag) (getPathC "" t (hash tag)))
  | some t, ["allpaths"] =>
    let d := pathsDigest t s.leaves.size
    (s, if d = "panic" then d else "ok " ++ d)
  | some t, ["verifyall"] =>
    let c := (List.range s.leaves.size).foldl (fun (c : Nat) (i : Nat) =>
      match pathByIndexC "" t (i : Int) with
      | .ok p => if verdict t s.leaves[i]! p = .ok true then c + 1 else c
      | .panic => c) 0
    (s, "ok " ++ toString c)
  | some t, ["offer", i, j] =>
    let i := i.toNat!; let j := j.toNat!
    if i < s.leaves.size ∧ j < s.leaves.size then
      (s, chk (pathByIndexC "" t (i : Int)) (fun p => chk (verdict t s.leaves[j]! p) bstr))
    else (s, "bad-op")
  | some t, ["offerrand", i, tag] =>
    let i := i.toNat!
    if i < s.leaves.size then (s, chk (pathByIndexC "" t (i : Int)) (fun p => chk (verdict t (hash tag) p) bstr))
    else (s, "bad-op")
  | some t, ["offerall", i] =>
    let i := i.toNat!
    if i < s.leaves.size then
      (s, chk (pathByIndexC "" t (i : Int)) (fun p =>
        let c := (List.range s.leaves.size).foldl (fun (c : Nat) (j : Nat) =>
          if j ≠ i ∧ verdict t s.leaves[j]! p = .ok true then c + 1 else c) 0
        "ok " ++ toString c))
    else (s, "bad-op")
  | some t, ["vidx", i, k] =>
    let i := i.toNat!
    match k.toInt? with
    | some k =>
      if i < s.leaves.size then
        (s, chk (pathByIndexC "" t (i : Int)) (fun p => chk (verdict t s.leaves[i]! { p with leafIndex := k }) bstr))
      else (s, "bad-op")
    | none => (s, "bad-op")
  | some t, ["settree", m] =>
    match m.toInt? with
    | none => (s, "bad-op")
    | some m =>
      match setTreeC m t.tree with
      | none => (s, "err")
      | some t2 => (s, chk (getRootC t2) (fun r => "ok " ++ r ++ " " ++ pathsDigest t2 s.leaves.size))
  | _, _ => (s, "bad-op")

/-- outside the property's quantifier (no leaves, index out of range, nil path) the behaviour of the code is an
observation, not compared: both sides print `obs` (same rule as `c19Outside` in the Go suite) -/
def outside (w : List String) (s : St) : Bool :=
  let n := s.leaves.size
  let expEmpty (k : String) : Bool := match s.exports[k.toNat!]? with | some (_, m) => m == 0 | none => false
  match w with
  | "leaves" :: _ => false
  | "lf" :: _ => false
  | "dup" :: _ => false
  | ["zero"] => false
  | ["export"] => false
  | "verifynil" :: _ => true
  | ["pathraw", i] => n == 0 || (match i.toInt? with | some i => i < 0 || i ≥ (n : Int) | none => true)
  | ["checkexport", k] => expEmpty k
  | ["loadcompute", k, m, _] => m.toNat! == 0 || expEmpty k
  | _ => n == 0

def stepObs (s : St) (w : List String) : St × String :=
  let (s', out) := step s w
  if out ≠ "bad-op" && outside w s' then (s', "obs") else (s', out)

def main : IO Unit := loop ({} : St) stepObs
end Driver.Merkle
