import Driver.Util
/-! Model driver stub (owned by the Merkle work package). -/
namespace Driver.Merkle
def step (s : Unit) (_w : List String) : Unit × String := (s, "unimplemented")
def main : IO Unit := Driver.loop () step
end Driver.Merkle
