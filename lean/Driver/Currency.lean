import Driver.Util
/-! Model driver stub (owned by the Currency work package). -/
namespace Driver.Currency
def step (s : Unit) (_w : List String) : Unit × String := (s, "unimplemented")
def main : IO Unit := Driver.loop () step
end Driver.Currency
