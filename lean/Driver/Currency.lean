import Driver.Util
import Verif.Gen.Currency
import Verif.Model.CurrencySpec
import Verif.Model.Msgp
/-! Model driver of suite c18 (`modeld currency`). For every op it evaluates the hand-written SPECIFICATION
(`Verif/Model/CurrencySpec.lean`) — this is what the implementation's output is compared with — and, when the function
was translated, also the definition GENERATED from currency.go (`Verif/Gen/Currency.lean`, through the `run_*` hooks,
which are `none` for a function the translator rejected). If the two disagree the output line says so
(`gen-spec-mismatch …`), which shows up as a correspondence difference with the concrete operands: that is the
counter-example to a bridge theorem `Gen.f = Spec.f`, or a translator error. Op language: see suite_c18.go. -/
namespace Driver.Currency
open Verif.GoSem Verif.F64 Verif.Dec Verif.Gen.Currency Driver
open Verif.Spec.Currency (msgErrs)

def u64? (s : String) : Option (BitVec 64) := do
  let n ← s.toNat?
  if n < 2 ^ 64 then some (BitVec.ofNat 64 n) else none

def i64? (s : String) : Option (BitVec 64) := do
  let i ← s.toInt?
  if -(2 ^ 63 : Int) ≤ i ∧ i < 2 ^ 63 then some (BitVec.ofInt 64 i) else none

def f64? (s : String) : Option F64 :=
  if s.length ≠ 16 then none else
  (s.toList.foldlM (fun (acc : Nat) c => do let v ← hexVal c; pure (acc * 16 + v)) 0).map (fun n => ⟨BitVec.ofNat 64 n⟩)

def hex16 (b : BitVec 64) : String :=
  String.ofList ((List.range 16).map (fun i => hexChar ((b.toNat / 16 ^ (15 - i)) % 16)))

def fstr (x : F64) : String := if x.isNaN then "nan" else hex16 x.bits

def errStr (e : ErrKind) : String := "err " ++ (e.msg.map (fun c => if c = ' ' then '_' else c))

def out {α : Type} (show_ : α → String) : Res ErrKind α → String
  | .ok a => "ok " ++ show_ a
  | .err e => errStr e
  | .panic => "panic"

def outS {α : Type} (show_ : α → String) : Res String α → String
  | .ok a => "ok " ++ show_ a
  | .err m => "err " ++ (m.map (fun c => if c = ' ' then '_' else c))
  | .panic => "panic"

/-- specification result, cross-checked against the generated definition when there is one -/
def both {α : Type} (show_ : α → String) (spec : Res String α) (gen : Option (Res ErrKind α)) : String :=
  let s := outS show_ spec
  match gen with
  | none => s
  | some g => let t := out show_ g; if t = s then s else "gen-spec-mismatch gen=[" ++ t ++ "] spec=[" ++ s ++ "]"

def ustr (b : BitVec 64) : String := toString b.toNat
def istr (b : BitVec 64) : String := toString b.toInt
def bstr (b : Bool) : String := if b then "true" else "false"

def hexOrDash (b : List UInt8) : String := if b.isEmpty then "-" else hex b

def dec? (c e : String) : Option Dec := do
  let c ← c.toInt?; let e ← e.toInt?; pure ⟨c, e⟩

def run (w : List String) : Option String :=
  match w with
  | ["mul", a, b] => do let a ← u64? a; let b ← u64? b; pure (both ustr (Verif.Spec.Currency.multCoin msgErrs a b) (run_MultCoin a b))
  | ["add", a, b] => do let a ← u64? a; let b ← u64? b; pure (both ustr (Verif.Spec.Currency.addCoin msgErrs a b) (run_AddCoin a b))
  | ["sub", a, b] => do let a ← u64? a; let b ← u64? b; pure (both ustr (Verif.Spec.Currency.minusCoin msgErrs a b) (run_MinusCoin a b))
  | ["min", a, b] => do let a ← u64? a; let b ← u64? b; pure (both ustr (Verif.Spec.Currency.min a b) (run_Min a b))
  | ["addi", c, i] => do let c ← u64? c; let i ← i64? i; pure (both ustr (Verif.Spec.Currency.addInt64 msgErrs c i) (run_AddInt64 c i))
  | ["subi", c, i] => do let c ← u64? c; let i ← i64? i; pure (both ustr (Verif.Spec.Currency.minusInt64 msgErrs c i) (run_MinusInt64 c i))
  | ["dist", c, i] => do
    let c ← u64? c; let i ← i64? i
    pure (both (fun (p : Coin × Coin) => ustr p.1 ++ " " ++ ustr p.2) (Verif.Spec.Currency.distributeCoin msgErrs c i) (run_DistributeCoin c i))
  | ["i2c", i] => do let i ← i64? i; pure (both ustr (Verif.Spec.Currency.int64ToCoin msgErrs i) (run_Int64ToCoin i))
  | ["c2i", c] => do let c ← u64? c; pure (both istr (Verif.Spec.Currency.coinInt64 msgErrs c) (run_Coin_Int64 c))
  | ["f2c", x] => do let x ← f64? x; pure (both ustr (Verif.Spec.Currency.float64ToCoin msgErrs x) (run_Float64ToCoin x))
  | ["mulf", c, x] => do let c ← u64? c; let x ← f64? x; pure (both ustr (Verif.Spec.Currency.multFloat64 msgErrs c x) (run_MultFloat64 c x))
  | ["c2f", c] => do let c ← u64? c; pure (both fstr (Verif.Spec.Currency.coinFloat64 c) (run_Coin_Float64 c))
  | ["parse", x, dc, de] => do let x ← f64? x; let d ← dec? dc de; pure (both ustr (Verif.Spec.Currency.parseZCN msgErrs x d) (run_ParseZCN x d))
  | ["tozcn", c] => do let c ← u64? c; pure (both fstr (Verif.Spec.Currency.toZCN msgErrs c) (run_Coin_ToZCN c))
  | ["rt", c, dc, de] => do
    let c ← u64? c; let d ← dec? dc de
    pure (match Verif.Spec.Currency.toZCN msgErrs c with
      | .ok f => both ustr (Verif.Spec.Currency.parseZCN msgErrs f d) (run_ParseZCN f d)
      | r => outS fstr r)
  -- ops that pin the float model itself to the compiled Go arithmetic
  | ["fmul", x, y] => do let x ← f64? x; let y ← f64? y; pure ("ok " ++ fstr (F64.mul x y))
  | ["flt", x, y] => do let x ← f64? x; let y ← f64? y; pure ("ok " ++ bstr (F64.lt x y))
  | ["fle", x, y] => do let x ← f64? x; let y ← f64? y; pure ("ok " ++ bstr (F64.le x y))
  | ["feq", x, y] => do let x ← f64? x; let y ← f64? y; pure ("ok " ++ bstr (F64.eq x y))
  | ["u2f", c] => do let c ← u64? c; pure ("ok " ++ fstr (F64.ofUInt64 c))
  | ["f2u", x] => do let x ← f64? x; pure ("ok " ++ ustr (F64.toUInt64 x))
  -- msgp codec of Coin (currency_gen.go), hand-written model Verif/Model/Msgp.lean
  | ["menc", c, pre] => do
    let c ← u64? c; let pre ← unhex pre
    pure ("ok " ++ hexOrDash (Verif.Msgp.marshalCoin pre c) ++ " " ++ toString Verif.Msgp.uint64Size)
  | ["mdec", b] => do
    let b ← unhex b
    pure (match Verif.Msgp.unmarshalCoin b with
      | .ok (c, rest) => "ok " ++ ustr c ++ " " ++ hexOrDash rest
      | .err .short => "err short"
      | .err (.belowZero v) => "err belowzero " ++ toString v
      | .err (.badType t) => "err badtype " ++ t
      | .err (.invalidPrefix l) => "err invalidprefix " ++ toString l.toNat
      | .panic => "panic")
  | _ => none

def step (s : Unit) (w : List String) : Unit × String := (s, (run w).getD "bad-op")
def main : IO Unit := Driver.loop () step
end Driver.Currency
