import Driver.Util
import Verif.Model.StateCacheConc
import Verif.Gen.StateCacheFacts
/-! Model driver for the state-cache suites c06 / c07 / c08 (`modeld sc`).
Op language: see /verif/go/harness/sccommon.go and suite_c08.go. Handles, keys, block hashes and values are strings;
"-" is the empty block hash. -/
namespace Driver.StateCache
open Verif.SC Driver

abbrev S := Sys String String String String

/-- regenerated from core/statecache/statecache.go on every run: lru.New(200) in StateCache.commit -/
def capPerKey : Nat := Verif.Gen.StateCacheFacts.capPerKey
/-- regenerated: maxHisDepth := 2000 in NewStateCache (also the capacity of hashCache) -/
def maxHisDepth : Nat := Verif.Gen.StateCacheFacts.maxHisDepth

def initSys : S := Sys.new capPerKey maxHisDepth

def hashOf (s : String) : String := if s = "-" then "" else s

def outStr : Out String → String
  | .ok => "ok"
  | .hit v => "hit " ++ v
  | .miss => "miss"
  | .panic => "panic"
  | .bad => "bad-op"

def hex4 (n : Nat) : String :=
  String.ofList [hexChar (n / 4096 % 16), hexChar (n / 256 % 16), hexChar (n / 16 % 16), hexChar (n % 16)]

def stepOp (s : S) (op : Op String String String String) : S × String :=
  let (s', o) := s.step op
  (s', outStr o)

def runOps (s : S) (ops : List (Op String String String String)) : S := (s.run ops).1

def rlabel : RPc String String → String
  | .cache => "get.cache"
  | .link _ _ => "get.link"
  | .entry _ _ _ => "get.entry"
  | .memo _ => "get.memo"
  | .done _ => "done"

def clabel : CPc String String String → String
  | .start => "commit.lock"
  | .linkcheck => "commit.linkcheck"
  | .keyGet _ => "commit.cacheget"
  | .keyAdd _ _ => "commit.add"
  | .keyPut _ _ => "commit.cacheput"
  | .publish => "commit.publish"
  | .done _ => "done"

def tlabel (c : Conc String String String) (t : Nat) : String :=
  match c.threads[t]? with
  | some (.reader r) => rlabel r.pc
  | some (.committer m) => clabel m.pc
  | none => "?"

/-- run thread `t` until it is finished (bounded) -/
def finish (c : Conc String String String) (t : Nat) (trace : List String) : Nat → Conc String String String × List String
  | 0 => (c, trace)
  | fuel + 1 =>
    if c.enabled t then finish (c.step t) t (s!"{t}:{tlabel c t}" :: trace) fuel else (c, trace)

def runConc (s : S) (bid order readers sched : String) : S × String :=
  match alookup s.bcs bid with
  | none => (s, "bad-op")
  | some bc =>
    let writes :=
      if order = "-" then bc.cache
      else (order.splitOn ",").filterMap (fun k => (alookup bc.cache k).map (fun e => (k, e)))
    let rds : List (Thread String String String) :=
      if readers = "-" then []
      else (readers.splitOn ",").map (fun r =>
        match r.splitOn "@" with
        | [k, h] => Thread.reader (Reader.init k (hashOf h))
        | _ => Thread.reader (Reader.init r ""))
    let c0 : Conc String String String :=
      { sc := s.sc, lock := none, threads := Thread.committer ⟨bc.hash, bc.prev, writes, .start⟩ :: rds }
    let n := c0.threads.length
    -- launch prologue: the committer takes sc.lock before its first yield point
    let c1 := c0.step 0
    let (c2, tr) := (if sched = "-" then [] else sched.toList).foldl (fun (acc : Conc String String String × List String) ch =>
      let t := ch.toNat - 48
      let (c, tr) := acc
      if t < n && c.enabled t then (c.step t, s!"{t}:{tlabel c t}" :: tr) else (c, tr)) (c1, [])
    let (c3, tr) := (List.range n).foldl (fun (acc : Conc String String String × List String) t =>
      finish acc.1 t acc.2 100000) (c2, tr)
    let eff := match c3.threads[0]? with
      | some (.committer m) => (match m.pc with | .done true => true | _ => false)
      | _ => false
    let bc' := if eff then { bc with cache := [], committed := true } else bc
    let rs := (c3.results.drop 1).zipIdx.map (fun (r, i) =>
      let v := match r with
        | some (some v) => "hit:" ++ v
        | some none => "miss"
        | none => "unfinished"
      s!"r{i + 1}={v}")
    ({ s with sc := c3.sc, bcs := aset s.bcs bid bc' },
     " ".intercalate (("c=ok" :: rs) ++ ["trace=" ++ ",".intercalate tr.reverse]))

def step (s : S) (w : List String) : S × String :=
  match w with
  | ["mode", _] => (s, "ok")
  | ["blk", b, h, p] => stepOp s (.blk b (hashOf h) (hashOf p))
  | ["bhash", b, h] => stepOp s (.bhash b (hashOf h))
  | ["txn", t, b] => stepOp s (.txn t b)
  | ["qtxn", t, h] => stepOp s (.qtxn t (hashOf h))
  | ["tset", t, k, v] => stepOp s (.tset t k v)
  | ["trem", t, k] => stepOp s (.trem t k)
  | ["tget", t, k] => stepOp s (.tget t k)
  | ["tcommit", t] => stepOp s (.tcommit t)
  | ["bset", b, k, v] => stepOp s (.bset b k v)
  | ["bget", b, k] => stepOp s (.bget b k)
  | ["bcommit", b] => stepOp s (.bcommit b)
  | ["qget", h, k] => stepOp s (.qget (hashOf h) k)
  | ["sget", k, h] => stepOp s (.sget k (hashOf h))
  | ["chain", n, pfx, prev, key, val] =>
    let n := n.toNat!
    let (s', _) := (List.range n).foldl (fun (acc : S × String) j =>
      let (s, prev) := acc
      let h := pfx ++ toString (j + 1)
      let ops : List (Op String String String String) :=
        [.blk h h prev] ++ (if j = 0 && key ≠ "-" then [.bset h key val] else []) ++ [.bcommit h]
      (runOps s ops, h)) (s, hashOf prev)
    (s', "ok")
  | ["fan", n, pfx, prev, key, vp] =>
    let n := n.toNat!
    let s' := (List.range n).foldl (fun (s : S) j =>
      let h := pfx ++ toString (j + 1)
      runOps s [.blk h h (hashOf prev), .bset h key (vp ++ hex4 (j + 1)), .bcommit h]) s
    (s', "ok")
  | ["conc", bid, order, readers, sched] => runConc s bid order readers sched
  | _ => (s, "bad-op")

def main : IO Unit := Driver.loop initSys step
end Driver.StateCache
