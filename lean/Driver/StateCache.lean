import Driver.Util
/-! Model driver stub (owned by the StateCache work package). -/
namespace Driver.StateCache
def step (s : Unit) (_w : List String) : Unit × String := (s, "unimplemented")
def main : IO Unit := Driver.loop () step
end Driver.StateCache
