import Driver.Util
import Verif.Model.StateCacheConc
import Verif.Gen.StateCacheFacts
/-! Model driver for the state-cache suites c06 / c07 / c08 (`modeld sc`).
Op language: see /verif/go/harness/sccommon.go and suite_c08.go. Handles, keys, block hashes and values are strings;
"-" is the empty block hash. -/
namespace Driver.StateCache
open Verif.SC Driver

abbrev S := Sys String String String String

/-- regenerated from core/statecache/statecache.go on every run: lru.New(200) in StateCache.commit -/
def capPerKey : Nat := Verif.Gen.StateCacheFacts.capPerKey
/-- regenerated: maxHisDepth := 2000 in NewStateCache (also the capacity of hashCache) -/
def maxHisDepth : Nat := Verif.Gen.StateCacheFacts.maxHisDepth

def initSys : S := Sys.new capPerKey maxHisDepth

def hashOf (s : String) : String := if s = "-" then "" else s

def outStr : Out String → String
  | .ok => "ok"
  | .hit v => "hit " ++ v
  | .miss => "miss"
  | .panic => "panic"
  | .bad => "bad-op"

def hex4 (n : Nat) : String :=
  String.ofList [hexChar (n / 4096 % 16), hexChar (n / 256 % 16), hexChar (n / 16 % 16), hexChar (n % 16)]

def stepOp (s : S) (op : Op String String String String) : S × String :=
  let (s', o) := s.step op
  (s', outStr o)

def runOps (s : S) (ops : List (Op String String String String)) : S := (s.run ops).1

def rlabel : RPc String String → String
  | .cache => "get.cache"
  | .link _ _ => "get.link"
  | .entry _ _ _ => "get.entry"
  | .memo _ => "get.memo"
  | .done _ => "done"

def clabel : CPc String String String → String
  | .start => "commit.lock"
  | .linkcheck => "commit.linkcheck"
  | .keyGet _ => "commit.cacheget"
  | .keyAdd _ _ => "commit.add"
  | .keyPut _ _ => "commit.cacheput"
  | .publish => "commit.publish"
  | .done _ => "done"

def tlabel (c : Conc String String String) (t : Nat) : String :=
  match c.threads[t]? with
  | some (.reader r) => rlabel r.pc
  | some (.committer m) => clabel m.pc
  | none => "?"

/-- run thread `t` until it is finished (bounded) -/
def finish (c : Conc String String String) (t : Nat) (trace : List String) : Nat → Conc String String String × List String
  | 0 => (c, trace)
  | fuel + 1 =>
    if c.enabled t then finish (c.step t) t (s!"{t}:{tlabel c t}" :: trace) fuel else (c, trace)

/-- a concurrent party besides the committer: a lookup, or a writer to the committing block's own handle -/
inductive Party where
  | get (k h : String)
  | set (k v : String)          -- BlockCache.Set on the committing block
  | tcommit (t : String)        -- Commit of a transaction cache that sits on the committing block

def parseParty (r : String) : Party :=
  match r.splitOn ":" with
  | ["set", k, v] => .set k v
  | ["tcommit", t] => .tcommit t
  | _ =>
    match r.splitOn "@" with
    | [k, h] => .get k (hashOf h)
    | _ => .get r ""

/-- state of a `conc` run: the interleaving model plus the block cache under commit, the transaction caches, the writers
    already issued and those waiting for the block cache's mutex (they run when the commit returns) -/
structure CS where
  c : Conc String String String
  m : Nat                                                   -- number of committer threads (thread ids 0 .. m-1)
  bc : BC String String String                              -- block cache of committer 0 (the writers' target)
  tcs : List (String × TC String String String String)
  issued : List Nat
  waiting : List Nat
  order : String
  trace : List String

def orderedWrites (order : String) (bc : BC String String String) : List (String × Entry String) :=
  if order = "-" then bc.cache
  else (order.splitOn ",").filterMap (fun k => (alookup bc.cache k).map (fun e => (k, e)))

def applyWrite (cs : CS) : Party → CS
  | .set k v => { cs with bc := cs.bc.set k v }
  | .tcommit t =>
    match alookup cs.tcs t with
    | some tc =>
      { cs with bc := tc.cache.foldl (fun b p => b.setValue p.1 p.2) cs.bc,
                tcs := aset cs.tcs t { tc with cache := [] } }
    | none => cs
  | .get _ _ => cs

def committerPcAt (c : Conc String String String) (t : Nat) : Option (CPc String String String) :=
  match c.threads[t]? with
  | some (Thread.committer m) => some m.pc
  | _ => none

def committerPc (c : Conc String String String) : Option (CPc String String String) := committerPcAt c 0

/-- when `sc.lock` is free, the first committer that is still waiting for it takes it (in the real code it is blocked
    inside `sc.lock.Lock()` and proceeds to its first yield point by itself) -/
def autoAcquire (cs : CS) : CS :=
  if cs.c.lock.isSome then cs else
    match (List.range cs.m).find? (fun t => match committerPcAt cs.c t with | some .start => true | _ => false) with
    | some t => { cs with c := cs.c.step t }
    | none => cs

/-- when commit 0 returns: its block cache is reset if the commit took effect, then the waiting writers run -/
def afterCommitStep (parties : List Party) (before : Option (CPc String String String)) (cs : CS) : CS :=
  match before, committerPc cs.c with
  | some (.done _), _ => cs
  | _, some (.done eff) =>
    let cs1 := if eff then { cs with bc := { cs.bc with cache := [], committed := true } } else cs
    let cs2 := cs1.waiting.foldl (fun acc t => match parties[t - cs.m]? with | some p => applyWrite acc p | none => acc) cs1
    { cs2 with waiting := [] }
  | _, _ => cs

/-- one scheduled step of thread `t` (skipped when the thread cannot run) -/
def concStep (parties : List Party) (cs : CS) (t : Nat) : CS :=
  if t < cs.m then
    -- a committer at `start` never steps by schedule: it acquires the lock as soon as it is free (`autoAcquire`)
    let atStart := match committerPcAt cs.c t with | some .start => true | _ => false
    if cs.c.enabled t && !atStart then
      let before := committerPc cs.c
      let cs1 := { cs with c := cs.c.step t, trace := s!"{t}:{tlabel cs.c t}" :: cs.trace }
      autoAcquire (if t = 0 then afterCommitStep parties before cs1 else cs1)
    else cs
  else
    match parties[t - cs.m]? with
    | none => cs
    | some (Party.get _ _) =>
      if cs.c.enabled t then { cs with c := cs.c.step t, trace := s!"{t}:{tlabel cs.c t}" :: cs.trace } else cs
    | some p =>
      if cs.issued.contains t then cs
      else
        let cs1 := { cs with issued := t :: cs.issued, trace := s!"{t}:write" :: cs.trace }
        match committerPc cs.c with
        | some (.done _) => applyWrite cs1 p
        | _ => { cs1 with waiting := cs1.waiting ++ [t] }      -- Commit holds the block cache's mutex until it returns

def canRun (parties : List Party) (cs : CS) (t : Nat) : Bool :=
  if t < cs.m then
    cs.c.enabled t && !(match committerPcAt cs.c t with | some .start => true | _ => false)
  else
    match parties[t - cs.m]? with
    | some (Party.get _ _) => cs.c.enabled t
    | some _ => !cs.issued.contains t
    | none => false

def finishThread (parties : List Party) (t : Nat) : Nat → CS → CS
  | 0, cs => cs
  | fuel + 1, cs => if canRun parties cs t then finishThread parties t fuel (concStep parties cs t) else cs

def finishAll (parties : List Party) (n : Nat) (cs : CS) : CS :=
  (List.range n).foldl (fun acc t => finishThread parties t 100000 acc) cs

def runConc (s : S) (bidspec order readers sched : String) : S × String :=
  let bids := bidspec.splitOn "+"
  match bids.mapM (fun b => (alookup s.bcs b).map (fun bc => (b, bc))) with
  | none => (s, "bad-op")
  | some [] => (s, "bad-op")
  | some ((bid0, bc0) :: rest) =>
    let parties : List Party := if readers = "-" then [] else (readers.splitOn ",").map parseParty
    let ths : List (Thread String String String) := parties.map (fun p =>
      match p with
      | .get k h => Thread.reader (Reader.init k h)
      | _ => Thread.reader ⟨"", "", .done none⟩)          -- placeholder: writers are stepped by the driver
    let committers : List (Thread String String String) :=
      Thread.committer ⟨bc0.hash, bc0.prev, orderedWrites order bc0, .start⟩ ::
        rest.map (fun (_, bc) => Thread.committer ⟨bc.hash, bc.prev, bc.cache, .start⟩)
    let m := committers.length
    let c0 : Conc String String String := { sc := s.sc, lock := none, threads := committers ++ ths }
    let n := c0.threads.length
    -- launch prologue: committer 0 takes sc.lock before its first yield point, the others block on it
    let cs0 : CS := autoAcquire { c := c0, m := m, bc := bc0, tcs := s.tcs, issued := [], waiting := [], order := order, trace := [] }
    let cs1 := (if sched = "-" then [] else sched.toList).foldl (fun (acc : CS) ch =>
      let t := ch.toNat - 48
      if t < n then concStep parties acc t else acc) cs0
    let cs2 := finishAll parties n cs1
    let rs := ((cs2.c.results.drop m).zip parties).zipIdx.map (fun ((r, p), i) =>
      match p with
      | .get _ _ =>
        let v := match r with
          | some (some v) => "hit:" ++ v
          | some none => "miss"
          | none => "unfinished"
        s!"r{i + m}={v}"
      | _ => s!"w{i + m}=ok")
    let cnames := (List.range m).map (fun i => if i = 0 then "c=ok" else s!"c{i + 1}=ok")
    -- the other committers' block caches are reset when their commit took effect
    let bcs' := rest.zipIdx.foldl (fun acc ((bid, bc), i) =>
      match committerPcAt cs2.c (i + 1) with
      | some (.done true) => aset acc bid { bc with cache := [], committed := true }
      | _ => acc) (aset s.bcs bid0 cs2.bc)
    ({ s with sc := cs2.c.sc, bcs := bcs', tcs := cs2.tcs },
     " ".intercalate (cnames ++ rs ++ ["trace=" ++ ",".intercalate cs2.trace.reverse]))

def step (s : S) (w : List String) : S × String :=
  match w with
  | ["mode", _] => (s, "ok")
  | ["blk", b, h, p] => stepOp s (.blk b (hashOf h) (hashOf p))
  | ["bhash", b, h] => stepOp s (.bhash b (hashOf h))
  | ["txn", t, b] => stepOp s (.txn t b)
  | ["qtxn", t, h] => stepOp s (.qtxn t (hashOf h))
  -- statecache.NewEmpty(): a transaction on a never-committed block with hashes nobody else uses (a private world)
  | ["empty", t] => stepOp (stepOp s (.blk ("~" ++ t) ("~e:" ++ t) ("~p:" ++ t))).1 (.txn t ("~" ++ t))
  -- statecache.NewBlockTxnCaches
  | ["blktxn", b, t, h, p] => stepOp (stepOp s (.blk b (hashOf h) (hashOf p))).1 (.txn t b)
  -- a block cache on a fresh state cache of its own: its world's hashes carry a unique prefix
  | ["fblk", b, h, p] => stepOp s (.blk b ("~f:" ++ b ++ ":" ++ hashOf h) ("~f:" ++ b ++ ":" ++ hashOf p))
  | ["tset", t, k, v] => stepOp s (.tset t k v)
  | ["trem", t, k] => stepOp s (.trem t k)
  | ["tget", t, k] => stepOp s (.tget t k)
  | ["tcommit", t] => stepOp s (.tcommit t)
  | ["bset", b, k, v] => stepOp s (.bset b k v)
  | ["bget", b, k] => stepOp s (.bget b k)
  | ["bcommit", b] => stepOp s (.bcommit b)
  | ["qget", h, k] => stepOp s (.qget (hashOf h) k)
  | ["sget", k, h] => stepOp s (.sget k (hashOf h))
  | ["srem", k] => stepOp s (.srem k)
  | ["chain", n, pfx, prev, key, val] =>
    let n := n.toNat!
    let (s', _) := (List.range n).foldl (fun (acc : S × String) j =>
      let (s, prev) := acc
      let h := pfx ++ toString (j + 1)
      let ops : List (Op String String String String) :=
        [.blk h h prev] ++ (if j = 0 && key ≠ "-" then [.bset h key val] else []) ++ [.bcommit h]
      (runOps s ops, h)) (s, hashOf prev)
    (s', "ok")
  | ["fan", n, pfx, prev, key, vp] =>
    let n := n.toNat!
    let s' := (List.range n).foldl (fun (s : S) j =>
      let h := pfx ++ toString (j + 1)
      runOps s [.blk h h (hashOf prev), .bset h key (vp ++ hex4 (j + 1)), .bcommit h]) s
    (s', "ok")
  | ["conc", bid, order, readers, sched] => runConc s bid order readers sched
  | _ => (s, "bad-op")

def main : IO Unit := Driver.loop initSys step
end Driver.StateCache
