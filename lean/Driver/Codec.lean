import Driver.Util
/-! Model driver stub (owned by the Codec work package). -/
namespace Driver.Codec
def step (s : Unit) (_w : List String) : Unit × String := (s, "unimplemented")
def main : IO Unit := Driver.loop () step
end Driver.Codec
