import Driver.Util
import Verif.Model.MptEnc
import Verif.Model.MptCodec
import Verif.Model.MptPartial
import Verif.Model.DeadNodes
import Verif.Gen.Constants
import Verif.Model.MptStore
import Verif.Model.MptCache
/-! Model driver for the codec suites c14, c15mpt, c17, c01cache (op languages: go/harness/suite_c14.go,
    suite_c15mpt.go, suite_c17.go, suite_c01cache.go).  `modeld codec`. -/
namespace Driver.Codec
open Verif.Mpt Verif.Codec Verif.Partial Driver
open Verif.Cache (Cache getNodeC cacheInsertNode cacheDeleteNode lookupC iterC hasMissingC)

structure St where
  t : Node := .empty
  v : Nat := 0
  used : List Bytes := []                      -- paths mentioned so far (ASCII)
  root : Bytes := []
  order : List (Bytes × Verif.Codec.Repr) := [] -- frozen trie, pre-order
  sizes : List Nat := []                       -- subtree size of each pre-order entry
  full : Store := []
  cur : Store := []
  removed : List Bytes := []
  hit : List Bytes := []                       -- c17: keys the querying trie found absent so far (GetMissingNodeKeys)
  snapped : Bool := false                       -- c17: `snap` seen; before it `get` reads the trie itself (c14)
  touched : Option Nat := none                 -- c14: version written to every stored node by the last `touch`
  hist : List (Nat × List Nib × Bytes) := []     -- c01cache: the ins / del history, newest first (del = empty value)
  wc : Option Cache := none                     -- c01cache: node cache of the trie that ran the history (computed on demand)
  fc : Cache := {}                              -- c01cache: node cache of the trie opened by the last `cwarm fresh`
  selOrig : Bool := true                        -- c01cache: which of the two tries the c* ops go through

/-- MPTMaxAllowableNodeSize, regenerated from the Go source (go/extract) -/
def maxSize : Nat := Verif.Gen.Constants.mptMaxAllowableNodeSize

/-- byte strings above 4 kB are printed as `#<length>:<SHA3-256>` (as the harness does) -/
def hexBig (b : Bytes) : String := if b.length > 4096 then "#" ++ toString b.length ++ ":" ++ hex (sha3 b) else hex b

def keyStr (k : Bytes) : String := if k.isEmpty then "-" else hex k

def outcome (t : Node) : Outcome → String
  | .ok => "ok " ++ keyStr (root sha3 t)
  | .notPresent => "notpresent"
  | .tooLarge => "toolarge"
  | .panic => "panic"

def bytesLe : Bytes → Bytes → Bool
  | [], _ => true
  | _ :: _, [] => false
  | a :: p, b :: q => if a < b then true else if b < a then false else bytesLe p q

def sortBytes (l : List Bytes) : List Bytes := l.mergeSort (fun a b => bytesLe a b)

def dedupSorted : List Bytes → List Bytes
  | a :: b :: r => if a = b then dedupSorted (b :: r) else a :: dedupSorted (b :: r)
  | l => l

def fmtKeys (ks : List Bytes) : String :=
  let ks := dedupSorted (sortBytes ks)
  if ks.isEmpty then "-" else ",".intercalate (ks.map hex)

def fmtEntries (es : List (Bytes × Bytes)) : String :=
  let es := es.mergeSort (fun a b => bytesLe a.1 b.1)
  if es.isEmpty then "-" else ",".intercalate (es.map (fun e => hex e.1 ++ "=" ++ hexBig e.2))

def pathBytes (p : List Nib) : Bytes := p.map nibChar

def strOfBytes (b : Bytes) : String := String.ofList (b.map (fun c => Char.ofNat c.toNat))

def fmtPairs (ps : List (Bytes × Bytes)) : String :=
  ",".intercalate (ps.map (fun (p, b) => (if p.isEmpty then "-" else strOfBytes p) ++ "=" ++ hex b))

def sizesOf : Node → List Nat
  | .empty => []
  | .leaf _ _ _ => [1]
  | .full _ ch _ =>
    let subs := (List.finRange 16).flatMap (fun i => sizesOf (ch i))
    (subs.length + 1) :: subs
  | .ext _ _ c =>
    let s := sizesOf c
    (s.length + 1) :: s

/-! c01cache: the node cache of the writing trie, from the insertNode / deleteNode calls of each operation -/

def evCache (c : Cache) : Verif.MptStore.Event → Cache
  | .put old new =>
    cacheInsertNode c (key sha3 new.t new.pos) (reprOf sha3 new.t new.pos) (old.map (fun o => key sha3 o.t o.pos))
  | .del old => cacheDeleteNode c (key sha3 old.t old.pos)

/-- cache of the writing trie after `Insert(p, b)` (an empty value is a delete, an over-size value is rejected) -/
def wcAfterIns (c : Cache) (v : Nat) (t : Node) (p : List Nib) (b : Bytes) : Cache :=
  if b = [] then
    match Verif.MptStore.deleteE v t [] p with
    | (.removed, es) => es.foldl evCache c
    | (.node _, es) => es.foldl evCache c
    | _ => c
  else if b.length > maxSize then c
  else (Verif.MptStore.insertE v b t [] p).2.foldl evCache c

/-- replay the history (oldest first): the node cache of the trie that executed it -/
def replayCache (hist : List (Nat × List Nib × Bytes)) : Cache :=
  (hist.reverse.foldl (fun (a : Node × Cache) (e : Nat × List Nib × Bytes) =>
    ((Trie.insert maxSize e.1 a.1 e.2.1 e.2.2).1, wcAfterIns a.2 e.1 a.1 e.2.1 e.2.2)) (Node.empty, ({} : Cache))).2

def fmtCache (c : Cache) : String :=
  let es := c.liveKeys.filterMap (fun k => (c.get k).map (fun r => (k, (sha3 (encode r)).take 8)))
  fmtEntries es

/-- c14 `store` / `save`: root and every stored node of the trie -/
def storeLine (t : Node) (touched : Option Nat) : String :=
  let e := entries sha3 t []
  "ok " ++ keyStr e.1 ++ " " ++ fmtEntries (e.2.map (fun x =>
    (x.1, encode (match touched with | some v => { x.2 with version := v } | none => x.2))))

/-- c15mpt `dec` -/
def decLine (bs : Bytes) : String :=
  match decode bs with
  | .ok r =>
    match encodeChecked r with
    | .ok e => "ok " ++ hex e ++ " " ++ (if hasHash r then hex (sha3 (hashBytes r)) else "-")
    | _ => "panic"
  | .err => "err"
  | .panic => "panic"

/-! c15mpt large inputs (same construction as go/harness/suite_c15mpt.go: bigNodeInput / bigRecord) -/

def patternBytes (n : Nat) : Bytes := (List.range n).map (fun i => UInt8.ofNat ((i * 7 + 3) % 256))

def strB (s : String) : Bytes := s.toList.map (fun c => UInt8.ofNat c.toNat)

def bigNodeInput (shape : String) (n : Nat) : Bytes :=
  let tr := le64 1 ++ le64 2
  let rep := fun (c : UInt8) => List.replicate n c
  let cat := fun (t : UInt8) (parts : List Bytes) => t :: (tr ++ parts.flatten)
  match shape with
  | "leafval" => cat 2 [strB "ab:cd:", patternBytes n]
  | "leafseps" => cat 2 [strB "ab:cd:", rep 58]
  | "leafpath" => cat 2 [strB "ab:", rep 97, strB ":v"]
  | "leafprefix" => cat 2 [rep 98, strB ":cd:v"]
  | "fullval" => cat 4 [List.replicate 16 58, patternBytes n]
  | "fullseps" => cat 4 [rep 58]
  | "fullhex" => cat 4 [rep 97, List.replicate 16 58]
  | "extkey" => cat 8 [strB "ab:", patternBytes n]
  | "extpath" => cat 8 [rep 97, strB ":", List.replicate 32 9]
  | "nosep" => cat 2 [rep 97]
  | _ => cat 1 [patternBytes n]

def be64 (x : Nat) : Bytes := (List.range 8).map (fun k => UInt8.ofNat ((x >>> (8 * (7 - k))) % 256))

def bigKey (i : Nat) : Bytes :=
  let h := asciiHexB (be64 ((i * 2654435761) % 18446744073709551616))
  h ++ h ++ h ++ h
where asciiHexB (b : Bytes) : Bytes := (hex b).toList.map (fun c => UInt8.ofNat c.toNat)

def bigRecord (shape : String) (n : Nat) : Bytes :=
  let hdr := fun (k : Nat) => (0x81 : UInt8) :: 0xa5 :: (strB "Nodes" ++ (0xdf : UInt8) :: Verif.DeadNodes.u32 k)
  let entries := fun (k : Nat) => (List.range k).flatMap (fun i => (0xd9 : UInt8) :: 64 :: (bigKey i ++ [0xc3]))
  match shape with
  | "half" => let e := entries n; hdr n ++ e.take (e.length / 2)
  | "badlast" => let e := entries n; hdr n ++ (e.take (e.length - 1) ++ [1])
  | "longkey" => hdr 1 ++ (0xdb : UInt8) :: (Verif.DeadNodes.u32 n ++ List.replicate n 97 ++ [0xc3])
  | "nested" => (0x82 : UInt8) :: 0xa1 :: 120 :: (List.replicate n 0x91 ++ (0xc0 : UInt8) :: 0xa5 :: (strB "Nodes" ++ [0x81, 0xa2, 97, 98, 0xc3]))
  | _ => hdr n ++ entries n

def decBigLine (bs : Bytes) : String :=
  match decode bs with
  | .ok r =>
    let e := encode r
    "ok " ++ toString e.length ++ " " ++ hex (sha3 e) ++ " " ++ (if hasHash r then hex (sha3 (hashBytes r)) else "-")
  | .err => "err"
  | .panic => "panic"

/-! c15mpt dead-node records -/

def asciiHex (b : Bytes) : Bytes := (hex b).toList.map (fun c => UInt8.ofNat c.toNat)

/-- `dnenc`: RecordDeadNodes of the decoded nodes: keys = GetHash() (hex of the hash; empty for a value node without
    value), distinct, sorted, all `true` -/
def dnencLine (encs : List Bytes) : String :=
  let keys := encs.mapM (fun e => match decode e with
    | .ok r => some (if hasHash r then asciiHex (sha3 (hashBytes r)) else [])
    | _ => none)
  match keys with
  | none => "err"
  | some ks =>
    let ks := dedupSorted (sortBytes ks)
    "ok " ++ hex (Verif.DeadNodes.encode (ks.map (fun k => (k, true))))

/-- `dndec`: records of rounds 1..n; a record that decodes with hex keys only is dropped and its keys deleted -/
def dndecLine (planted : List Bytes) (recs : List Bytes) : String :=
  let res := recs.map Verif.DeadNodes.pruneKeys
  let left := (List.range recs.length).filter (fun i => match res[i]? with | some none => true | _ => false)
  let dead := (res.filterMap id).flatten
  let nodes := planted.filter (fun k => !dead.contains k)
  "ok left=" ++ (if left.isEmpty then "-" else ",".intercalate (left.map (fun i => toString (i + 1))))
    ++ " nodes=" ++ fmtKeys nodes

def unhexList (s : String) : Option (List Bytes) :=
  if s = "-" then some [] else (s.splitOn ",").mapM unhex

/-! c17 -/

def fuelOf (s : St) : Nat := s.full.length + 2

def ptOf (s : St) (store : Store) : PTree := buildRoot store.get (fuelOf s) s.root

def indexOf (s : St) (i : Nat) : Option Nat :=
  let n := s.order.length
  if n ≤ 1 then none else some (1 + i % (n - 1))

def keysAt (s : St) (idxs : List Nat) : List Bytes :=
  (idxs.filterMap (fun i => s.order[i]?.map (·.1))).eraseDups

def without (store : Store) (ks : List Bytes) : Store := store.filter (fun e => !ks.contains e.1)

def donorOf (s : St) (ks : List Bytes) : List (Bytes × Verif.Codec.Repr) :=
  ks.filterMap (fun k => (s.order.find? (fun e => e.1 == k)))

def lresStr : LRes → String
  | .ok v => "ok " ++ hex v
  | .notPresent => "notpresent"
  | .nodeNotFound => "nodenotfound"
  | .panic => "panic"

def missStr (pt : PTree) : String :=
  match getAllMissing pt with
  | none => "nodenotfound"
  | some ks => "ok " ++ fmtKeys ks

def boolStr (b : Bool) : String := if b then "true" else "false"

def idxList (xs : List Nat) : String := if xs.isEmpty then "-" else ".".intercalate (xs.map toString)

def usedSorted (s : St) : List Bytes := dedupSorted (sortBytes s.used)

def digest (s : St) (idxs : List Nat) (v : Nat) : String :=
  let ks := keysAt s idxs
  let cur := without s.full ks
  let pt := ptOf s cur
  let miss := allMissing pt
  let missIdx := (List.range s.order.length).filter (fun i => match s.order[i]? with | some e => miss.contains e.1 | none => false)
  let cls := String.ofList ((usedSorted s).map (fun p => match lookupP pt p with
    | .ok _ => 'v' | .notPresent => 'n' | .nodeNotFound => 'm' | .panic => 'p'))
  let cur' := mergeDB v cur (donorOf s ks)
  let pt' := ptOf s cur'
  let rep := if !hasMissing pt' && (getAllMissing pt' == some [] || s.root.isEmpty) then "ok" else "FAILED"
  idxList (idxs.mergeSort (fun a b => a ≤ b)) ++ ":" ++ boolStr (hasMissing pt) ++ ":" ++ idxList missIdx ++ ":"
    ++ (if cls.isEmpty then "-" else cls) ++ ":" ++ rep

def selCache (s : St) : Cache :=
  if s.selOrig then (match s.wc with | some c => c | none => replayCache s.hist) else s.fc

def setSel (s : St) (c : Cache) : St := if s.selOrig then { s with wc := some c } else { s with fc := c }

def subtreeIdx (s : St) (j : Nat) : List Nat :=
  match s.sizes[j]? with
  | some sz => (List.range sz).map (· + j)
  | none => [j]

def step (s : St) (w : List String) : St × String :=
  match w with
  | ["new", _, v] => ({ t := .empty, v := v.toNat! }, "ok")
  | ["ver", v] => ({ s with v := v.toNat! }, "ok")
  | ["ins", p, b] =>
    match parsePath p, unhex b with
    | some p, some b =>
      let (t', o) := Trie.insert maxSize s.v s.t p b
      ({ s with t := t', used := pathBytes p :: s.used, touched := none, hist := (s.v, p, b) :: s.hist }, outcome t' o)
    | _, _ => (s, "bad-op")
  | ["del", p] =>
    match parsePath p with
    | some p =>
      let (t', o) := Trie.delete s.v s.t p
      ({ s with t := t', used := pathBytes p :: s.used, touched := none, hist := (s.v, p, []) :: s.hist }, outcome t' o)
    | none => (s, "bad-op")
  | ["insfill", p, n, fill] =>
    match parsePath p with
    | some p =>
      let f := fill.toNat!
      let b : Bytes := (List.range n.toNat!).map (fun j => UInt8.ofNat ((f + 31 * j) % 256))
      let (t', o) := Trie.insert maxSize s.v s.t p b
      ({ s with t := t', used := pathBytes p :: s.used, touched := none }, outcome t' o)
    | none => (s, "bad-op")
  | ["insstr", p, b] =>
    match parsePath p, unhex b with
    | some p, some b =>
      let (t', o) := Trie.insert maxSize s.v s.t p (Verif.DeadNodes.appendString b)
      ({ s with t := t', used := pathBytes p :: s.used, touched := none }, outcome t' o)
    | _, _ => (s, "bad-op")
  | ["val", p] =>
    match parsePath p with
    | some p =>
      ({ s with used := pathBytes p :: s.used },
        match lookup s.t p with
        | none => "notpresent"
        | some b =>
          let str := match Verif.DeadNodes.readString b with
            | .ok (v, _) => if v.isEmpty then "-" else hex v
            | _ => "err"
          let vn := valueNode b
          "ok " ++ hexBig b ++ " str=" ++ str ++ " vn=" ++ hexBig (encode vn) ++ " h=" ++ hex (sha3 (hashBytes vn)))
    | none => (s, "bad-op")
  | ["bulk", n, seed] =>
    let step := fun (acc : Node × Nat) (_ : Nat) =>
      let x := (acc.2 * 6364136223846793005 + 1442695040888963407) % 18446744073709551616
      let path : List Nib := (List.range 8).map (fun j => Fin.ofNat 16 ((x >>> (60 - 4 * j)) % 16))
      let val : Bytes := [UInt8.ofNat (0x41 + (x >>> 8) % 26), UInt8.ofNat (x % 256)]
      ((Trie.insert maxSize s.v acc.1 path val).1, x)
    let r := (List.range n.toNat!).foldl step (s.t, seed.toNat!)
    ({ s with t := r.1, touched := none }, "ok " ++ keyStr (root sha3 r.1))
  | ["rmleaves", k] =>
    let leafIdx := (List.range s.order.length).filter (fun j => j > 0 && match s.order[j]? with
      | some e => (match e.2.body with | .leaf _ _ _ => true | _ => false)
      | none => false)
    let ks := keysAt s (leafIdx.take k.toNat!)
    let sorted := sortBytes ks
    ({ s with cur := without s.full ks, removed := ks, hit := [] },
      "ok " ++ toString sorted.length ++ " " ++ hex (sha3 sorted.flatten))
  | ["layer"] => (s, "ok")
  | ["touch", v] => ({ s with touched := some v.toNat! }, "ok")
  | ["store"] => (s, storeLine s.t s.touched)
  | ["save"] => (s, storeLine s.t none)
  | ["dec", b] =>
    match unhex b with
    | some bs => (s, decLine bs)
    | none => (s, "bad-op")
  | ["decbig", shape, n] => (s, decBigLine (bigNodeInput shape n.toNat!))
  | ["dnbig", shape, n] =>
    (s, match Verif.DeadNodes.pruneKeys (bigRecord shape n.toNat!) with
        | some _ => "ok left=-"
        | none => "ok left=1")
  | ["dnenc", l] =>
    match unhexList l with
    | some encs => (s, dnencLine encs)
    | none => (s, "bad-op")
  | "dndec" :: ks :: recs =>
    match unhexList ks, recs.mapM (fun r => unhex (if r.startsWith "=" then (r.drop 1).toString else r)) with
    | some planted, some rs => (s, dndecLine planted rs)
    | _, _ => (s, "bad-op")
  | "prune" :: _ => (s, "ok")
  | "prunex" :: _ => (s, "ok")
  | ["snap"] =>
    let e := entries sha3 s.t []
    let full : Store := e.2.map (fun x => (x.1, encode x.2))
    ({ s with root := e.1, order := e.2, sizes := sizesOf s.t, full := full, cur := full, removed := [], snapped := true, hit := [] },
      "ok " ++ keyStr e.1 ++ " " ++ toString e.2.length)
  | ["rm", l] =>
    let idxs := (l.splitOn ",").filterMap (fun x => indexOf s x.toNat!)
    let ks := keysAt s idxs
    ({ s with cur := without s.full ks, removed := ks, hit := [] }, "ok " ++ fmtKeys ks)
  | ["rmsub", i] =>
    let idxs := match indexOf s i.toNat! with
      | some j => subtreeIdx s j
      | none => []
    let ks := keysAt s idxs
    ({ s with cur := without s.full ks, removed := ks, hit := [] }, "ok " ++ fmtKeys ks)
  | ["has"] => let pt := ptOf s s.cur; ({ s with hit := allMissing pt ++ s.hit }, boolStr (hasMissing pt))
  | ["miss"] =>
    let pt := ptOf s s.cur
    -- GetAllMissingNodes reads the root key even when it is nil (empty trie): the nil key is recorded as missing
    ({ s with hit := (if s.root.isEmpty then [[]] else allMissing pt) ++ s.hit }, missStr pt)
  | ["mkeys"] => (s, "ok " ++ fmtKeys s.hit)
  | "restore" :: _ =>
    ({ s with cur := mergeDB 0 s.cur (donorOf s s.removed), removed := [] }, "ok")
  | ["cwalk"] =>
    let pt := ptOf s s.cur
    let cls := fun (o : Option IterErr) (okStr : String) => match o with
      | none => "ctx"
      | some .none => okStr
      | some .nodeNotFound => "nodenotfound"
      | some .missingNodes => "missingnodes"
      | some .iterChild => "iterchild"
    let recs := (List.range (reads pt + 1)).map (fun j =>
      let n := j + 1
      let h := match iterErrCancelled .missingNodes n pt with
        | none => "ctx"
        | some e => boolStr (e != .none)
      toString n ++ ":" ++ h ++ "/" ++ cls (iterErrCancelled .nodeNotFound n pt) "ok")
    (s, "ok " ++ ";".intercalate recs)
  | ["get", p] =>
    match parsePath p with
    | some p =>
      ({ s with used := pathBytes p :: s.used,
                hit := if s.snapped then (lookupMiss (ptOf s s.cur) (pathBytes p)).toList ++ s.hit else s.hit },
        if s.snapped then lresStr (lookupP (ptOf s s.cur) (pathBytes p))
        else match lookup s.t p with | some b => "ok " ++ hexBig b | none => "notpresent")
    | none => (s, "bad-op")
  | ["iter"] =>
    let pt := ptOf s s.cur
    ({ s with hit := allMissing pt ++ s.hit }, match iterErr .nodeNotFound pt with
        | .none => "ok " ++ fmtPairs (valuesP pt [])
        | .nodeNotFound => "nodenotfound"
        | .missingNodes => "missingnodes"
        | .iterChild => "iterchild")
  | "repair" :: v :: _ =>
    let cur' := mergeDB v.toNat! s.cur (donorOf s s.removed)
    let pt := ptOf s cur'
    ({ s with cur := cur', removed := [], hit := [] },
      "ok " ++ keyStr s.root ++ " has=" ++ boolStr (hasMissing pt) ++ " miss="
        ++ (match getAllMissing pt with | none => "nodenotfound" | some ks => fmtKeys ks) ++ " donor=same")
  | ["sweep1"] =>
    let n := s.order.length
    let recs := (List.range (n - 1)).map (fun j => digest s [j + 1] s.v)
    (s, "ok " ++ (if recs.isEmpty then "-" else ";".intercalate recs))
  | ["sweepsub"] =>
    let n := s.order.length
    let recs := (List.range (n - 1)).map (fun j => digest s (subtreeIdx s (j + 1)) s.v)
    (s, "ok " ++ (if recs.isEmpty then "-" else ";".intercalate recs))
  | ["all"] =>
    let n := s.order.length
    if n > 10 then (s, "skip") else
    let recs := (List.range (2 ^ (n - 1) - 1)).map (fun m =>
      let mask := m + 1
      digest s ((List.range (n - 1)).filterMap (fun b => if mask.testBit b then some (b + 1) else none)) s.v)
    (s, "ok " ++ (if recs.isEmpty then "-" else ";".intercalate recs))
  -- c01cache: queries through a trie that keeps its node cache (`orig`: the trie that ran the history; `fresh`: a
  -- trie opened on the store now), over a store damaged / restored IN PLACE under that trie
  | ["cwarm", "orig"] => ({ s with selOrig := true }, "ok")
  | ["cwarm", "fresh"] => ({ s with selOrig := false, fc := {} }, "ok")
  | ["cget", p] =>
    match parsePath p with
    | some p =>
      let r := lookupC (selCache s) s.cur.get s.root (pathBytes p)
      (setSel s r.1, lresStr r.2)
    | none => (s, "bad-op")
  | ["chas"] =>
    let r := hasMissingC (fuelOf s) (selCache s) s.cur.get s.root
    (setSel s r.1, boolStr r.2)
  | ["citer"] =>
    let r := iterC .nodeNotFound (fuelOf s) (selCache s) s.cur.get s.root
    (setSel s r.1,
      match r.2.1 with
      | .none => "ok " ++ fmtPairs r.2.2
      | .nodeNotFound => "nodenotfound"
      | .missingNodes => "missingnodes"
      | .iterChild => "iterchild")
  | ["ckeys"] => (s, "ok " ++ fmtCache (selCache s))
  | ["crm", l] =>
    let idxs := (l.splitOn ",").filterMap (fun x => indexOf s x.toNat!)
    let ks := keysAt s idxs
    ({ s with cur := without s.cur ks }, "ok " ++ fmtKeys ks)
  | ["crmsub", i] =>
    let idxs := match indexOf s i.toNat! with
      | some j => subtreeIdx s j
      | none => []
    let ks := keysAt s idxs
    ({ s with cur := without s.cur ks }, "ok " ++ fmtKeys ks)
  | ["crestore"] => ({ s with cur := s.full }, "ok")
  | ["fget", p] =>
    match parsePath p with
    | some p => (s, lresStr (lookupC {} s.cur.get s.root (pathBytes p)).2)
    | none => (s, "bad-op")
  | ["fhas"] => (s, boolStr (hasMissingC (fuelOf s) {} s.cur.get s.root).2)
  | _ => (s, "bad-op")

def main : IO Unit := loop ({} : St) step

end Driver.Codec
