import Verif.Lemmas.StateCacheSeq
import Verif.Model.StateCacheConc
/-! The interleaving invariant: every scheduler step of `Conc` preserves the state-cache invariant together with the
local invariant of every thread. -/
set_option linter.unusedSectionVars false
namespace Verif.SC

variable {K B V : Type} [DecidableEq K] [DecidableEq B]

theorem getElem?_setNth {α : Type} (l : List α) (i j : Nat) (x : α) :
    (setNth l i x)[j]? = if i = j ∧ i < l.length then some x else l[j]? := by
  induction l generalizing i j with
  | nil => simp [setNth]
  | cons a r ih =>
    cases i with
    | zero =>
      cases j with
      | zero => simp [setNth]
      | succ j => simp [setNth]
    | succ i =>
      cases j with
      | zero => simp [setNth]
      | succ j =>
        simp only [setNth, List.getElem?_cons_succ, ih, List.length_cons]
        by_cases h : i = j
        · subst h; simp
        · have : ¬ (i + 1 = j + 1) := fun hh => h (by omega)
          simp [this]

theorem getElem?_lt {α : Type} {l : List α} {i : Nat} {x : α} (h : l[i]? = some x) : i < l.length := by
  cases hlt : decide (i < l.length) with
  | true => exact of_decide_eq_true hlt
  | false =>
    have : ¬ i < l.length := of_decide_eq_false hlt
    rw [List.getElem?_eq_none (by omega)] at h; cases h

theorem setNth_length {α : Type} (l : List α) (i : Nat) (x : α) : (setNth l i x).length = l.length := by
  induction l generalizing i with
  | nil => rfl
  | cons a r ih => cases i <;> simp [setNth, ih]

/-- the committer invariant is insensitive to what a reader step does -/
theorem MInv.stable_rframe {sc sc' : SC K B V} {T : Tree K B V} {m : Committer K B V} {r : Reader K B V}
    (h : MInv sc T m) (F : RFrame sc sc' r) : MInv sc' T m := by
  have hact : ∀ todo, MAct sc T m todo → MAct sc' T m todo := by
    intro todo ha
    obtain ⟨d, hd, hde⟩ := ha.split
    exact ⟨ha.inTree, by rw [F.links]; exact ha.unlinked, ha.nodup, ⟨d, hd, fun k e hk => F.keep _ _ _ (hde k e hk)⟩⟩
  have hkeys : ∀ k, alookup sc'.cache k = none ↔ alookup sc.cache k = none := by
    intro k
    have := F.keys k
    cases h1 : alookup sc'.cache k <;> cases h2 : alookup sc.cache k <;> simp [h1, h2] at this ⊢
  unfold MInv at *
  cases hpc : m.pc with
  | start => rw [hpc] at h; exact h
  | linkcheck => rw [hpc] at h; exact h
  | done b => trivial
  | keyGet todo => rw [hpc] at h; exact hact _ h
  | publish => rw [hpc] at h; exact hact _ h
  | keyAdd fresh todo =>
    rw [hpc] at h
    exact ⟨hact _ h.1, fun k e t ht => by rw [hkeys]; exact h.2 k e t ht⟩
  | keyPut fr todo =>
    rw [hpc] at h
    refine ⟨hact _ h.1, fun k e t ht => ?_⟩
    have := h.2 k e t ht
    cases fr with
    | none => simp only at this ⊢; exact F.keep _ _ _ this
    | some l => simp only at this ⊢; exact ⟨(hkeys k).mpr this.1, this.2⟩

theorem Committer.stepPc_ne_start (sc : SC K B V) (c : Committer K B V) (h : c.pc ≠ .start) : c.stepPc sc ≠ .start := by
  cases hpc : c.pc with
  | start => exact absurd hpc h
  | linkcheck =>
    unfold Committer.stepPc; rw [hpc]; simp only
    cases (sc.links.get c.hash).2 with
    | some _ => intro hh; cases hh
    | none => unfold CPc.next; cases c.writes <;> (intro hh; cases hh)
  | keyGet t =>
    unfold Committer.stepPc; rw [hpc]
    cases t with
    | nil => intro hh; cases hh
    | cons a t => intro hh; cases hh
  | keyAdd fresh t =>
    unfold Committer.stepPc; rw [hpc]
    cases t with
    | nil => intro hh; cases hh
    | cons a t => cases fresh <;> (intro hh; cases hh)
  | keyPut fr t =>
    unfold Committer.stepPc; rw [hpc]
    cases t with
    | nil => intro hh; cases hh
    | cons a t => simp only; unfold CPc.next; cases t <;> (intro hh; cases hh)
  | publish => unfold Committer.stepPc; rw [hpc]; intro hh; cases hh
  | done b => unfold Committer.stepPc; rw [hpc]; intro hh; cases hh

/-- block of the commit in flight -/
def Conc.hole (c : Conc K B V) : Option B :=
  match c.lock with
  | none => none
  | some tid =>
    match c.threads[tid]? with
    | some (.committer m) => CPc.hole m.hash m.pc
    | _ => none

/-- the specification tree after one scheduler step -/
def Conc.treeStep (T : Tree K B V) (c : Conc K B V) (tid : Nat) : Tree K B V :=
  match c.threads[tid]? with
  | some (.committer m) => m.treeAfter T c.sc
  | _ => T

def Conc.treeRun (T : Tree K B V) (c : Conc K B V) : List Nat → Tree K B V
  | [] => T
  | tid :: rest => Conc.treeRun (Conc.treeStep T c tid) (c.step tid) rest

structure CInv (c : Conc K B V) (T : Tree K B V) : Prop where
  inv : Inv c.sc T c.hole
  readers : ∀ (tid : Nat) r, c.threads[tid]? = some (Thread.reader r) → RInv c.sc T r
  holder : ∀ (tid : Nat), c.lock = some tid →
    ∃ m, c.threads[tid]? = some (Thread.committer m) ∧ MInv c.sc T m ∧ m.pc ≠ .start ∧ ∀ b, m.pc ≠ .done b
  idle : ∀ (tid : Nat) m, c.threads[tid]? = some (Thread.committer m) → c.lock ≠ some tid →
    (m.pc = .start ∧ (m.writes.map Prod.fst).Nodup) ∨ ∃ b, m.pc = .done b

theorem Conc.step_ev_le (c : Conc K B V) (tid : Nat) : c.sc.evictions ≤ (c.step tid).sc.evictions := by
  unfold Conc.step
  cases c.threads[tid]? with
  | none => exact Nat.le_refl _
  | some t =>
    cases t with
    | reader r => exact Reader.stepSC_ev_le _ _
    | committer m =>
      simp only
      cases hpc : m.pc with
      | done b => exact Nat.le_refl _
      | start => simp only; cases c.lock <;> exact Nat.le_refl _
      | linkcheck => exact Committer.stepSC_ev_le _ _
      | keyGet _ => exact Committer.stepSC_ev_le _ _
      | keyAdd _ _ => exact Committer.stepSC_ev_le _ _
      | keyPut _ _ => exact Committer.stepSC_ev_le _ _
      | publish => exact Committer.stepSC_ev_le _ _

theorem Conc.hole_eq {c c' : Conc K B V} (hl : c'.lock = c.lock)
    (ht : ∀ t, c.lock = some t → c'.threads[t]? = c.threads[t]?) : c'.hole = c.hole := by
  unfold Conc.hole; rw [hl]
  cases hlk : c.lock with
  | none => rfl
  | some t => simp only; rw [ht t hlk]

theorem Conc.step_inv {c : Conc K B V} {T : Tree K B V} (tid : Nat) (h : CInv c T)
    (hev : (c.step tid).sc.evictions = c.sc.evictions) :
    CInv (c.step tid) (Conc.treeStep T c tid) ∧ T.le (Conc.treeStep T c tid) ∧
      (∀ b p, linkAt c.sc b = some p → linkAt (c.step tid).sc b = some p) := by
  cases hth : c.threads[tid]? with
  | none =>
    have hs : c.step tid = c := by unfold Conc.step; rw [hth]
    have ht : Conc.treeStep T c tid = T := by unfold Conc.treeStep; rw [hth]
    rw [hs, ht]; exact ⟨h, Tree.le_refl T, fun _ _ hl => hl⟩
  | some th =>
    have hlt := getElem?_lt hth
    cases th with
    | reader r =>
      have hsc : (c.step tid).sc = r.stepSC c.sc := by unfold Conc.step; rw [hth]; rfl
      have hlk : (c.step tid).lock = c.lock := by unfold Conc.step; rw [hth]
      have hthr : (c.step tid).threads = setNth c.threads tid (.reader { r with pc := r.stepPc c.sc }) := by
        unfold Conc.step; rw [hth]; rfl
      have ht : Conc.treeStep T c tid = T := by unfold Conc.treeStep; rw [hth]
      rw [hsc] at hev; rw [ht]
      have F := Reader.stepSC_frame c.sc r hev
      obtain ⟨hI', hR'⟩ := Reader.step_inv h.inv (h.readers tid r hth) hev
      have hnl : c.lock ≠ some tid := by
        intro hl
        obtain ⟨m, hm, _⟩ := h.holder tid hl
        rw [hth] at hm; cases hm
      have hget : ∀ j, j ≠ tid → (c.step tid).threads[j]? = c.threads[j]? := by
        intro j hj; rw [hthr, getElem?_setNth]
        have : ¬ (tid = j ∧ tid < c.threads.length) := fun hh => hj hh.1.symm
        simp [this]
      have hself : (c.step tid).threads[tid]? = some (Thread.reader { r with pc := r.stepPc c.sc }) := by
        rw [hthr, getElem?_setNth]; simp [hlt]
      have hhole : (c.step tid).hole = c.hole :=
        Conc.hole_eq hlk (fun t hl => hget t (fun hh => hnl (by rw [hl, hh])))
      refine ⟨⟨by rw [hhole, hsc]; exact hI', ?_, ?_, ?_⟩, Tree.le_refl T,
        fun b p hl => by rw [hsc, F.links]; exact hl⟩
      · intro j r' hj
        rw [hsc]
        by_cases hjt : j = tid
        · subst hjt
          rw [hself] at hj; cases hj; exact hR'
        · rw [hget j hjt] at hj
          exact RInv.stable (h.readers j r' hj) (fun b p hl => by rw [F.links]; exact hl) (Tree.le_refl T)
      · intro j hl
        rw [hlk] at hl
        obtain ⟨m, hm, hM, h1, h2⟩ := h.holder j hl
        have hjt : j ≠ tid := fun hh => hnl (by rw [hl, hh])
        exact ⟨m, by rw [hget j hjt]; exact hm, by rw [hsc]; exact hM.stable_rframe F, h1, h2⟩
      · intro j m hj hl
        rw [hlk] at hl
        by_cases hjt : j = tid
        · subst hjt
          rw [hself] at hj; cases hj
        · rw [hget j hjt] at hj
          exact h.idle j m hj hl
    | committer m =>
      have ht : Conc.treeStep T c tid = m.treeAfter T c.sc := by unfold Conc.treeStep; rw [hth]
      by_cases hdone : ∃ b, m.pc = .done b
      · obtain ⟨b, hb⟩ := hdone
        have hs : c.step tid = c := by unfold Conc.step; rw [hth]; simp only [hb]
        have ht' : m.treeAfter T c.sc = T := by unfold Committer.treeAfter; rw [hb]
        rw [hs, ht, ht']; exact ⟨h, Tree.le_refl T, fun _ _ hl => hl⟩
      · have hnd : ∀ b, m.pc ≠ .done b := fun b hb => hdone ⟨b, hb⟩
        by_cases hstart : m.pc = .start
        · have ht' : m.treeAfter T c.sc = T := by unfold Committer.treeAfter; rw [hstart]
          rw [ht, ht']
          cases hl : c.lock with
          | some t =>
            have hs : c.step tid = c := by unfold Conc.step; rw [hth]; simp only [hstart, hl]
            rw [hs]; exact ⟨h, Tree.le_refl T, fun _ _ hl => hl⟩
          | none =>
            have hsc : (c.step tid).sc = c.sc := by unfold Conc.step; rw [hth]; simp only [hstart, hl]
            have hlk : (c.step tid).lock = some tid := by unfold Conc.step; rw [hth]; simp only [hstart, hl]
            have hthr : (c.step tid).threads = setNth c.threads tid (.committer { m with pc := .linkcheck }) := by
              unfold Conc.step; rw [hth]; simp only [hstart, hl]
            have hget : ∀ j, j ≠ tid → (c.step tid).threads[j]? = c.threads[j]? := by
              intro j hj; rw [hthr, getElem?_setNth]
              have : ¬ (tid = j ∧ tid < c.threads.length) := fun hh => hj hh.1.symm
              simp [this]
            have hself : (c.step tid).threads[tid]? = some (Thread.committer { m with pc := .linkcheck }) := by
              rw [hthr, getElem?_setNth]; simp [hlt]
            have hnod : (m.writes.map Prod.fst).Nodup := by
              rcases h.idle tid m hth (by rw [hl]; intro hh; cases hh) with ⟨_, hn⟩ | ⟨b, hb⟩
              · exact hn
              · exact absurd hb (hnd b)
            have hhole0 : c.hole = none := by unfold Conc.hole; rw [hl]
            have hhole1 : (c.step tid).hole = none := by
              unfold Conc.hole; rw [hlk]; simp only; rw [hself]; rfl
            refine ⟨⟨?_, ?_, ?_, ?_⟩, Tree.le_refl T, fun _ _ hl => by rw [hsc]; exact hl⟩
            · rw [hhole1, hsc]; have := h.inv; rw [hhole0] at this; exact this
            · intro j r hj
              rw [hsc]
              by_cases hjt : j = tid
              · subst hjt; rw [hself] at hj; cases hj
              · rw [hget j hjt] at hj; exact h.readers j r hj
            · intro j hlj
              rw [hlk] at hlj; cases hlj
              exact ⟨_, hself, (by unfold MInv; exact hnod), (by intro hh; cases hh), (by intro b hh; cases hh)⟩
            · intro j m' hj hlj
              rw [hlk] at hlj
              have hjt : j ≠ tid := fun hh => hlj (by rw [hh])
              rw [hget j hjt] at hj
              exact h.idle j m' hj (by rw [hl]; intro hh; cases hh)
        · -- an active committer is the lock holder
          have hlock : c.lock = some tid := by
            cases hl : c.lock with
            | none =>
              rcases h.idle tid m hth (by rw [hl]; intro hh; cases hh) with ⟨hs, _⟩ | ⟨b, hb⟩
              · exact absurd hs hstart
              · exact absurd hb (hnd b)
            | some t =>
              by_cases htt : t = tid
              · rw [htt]
              · rcases h.idle tid m hth (by rw [hl]; intro hh; cases hh; exact htt rfl) with ⟨hs, _⟩ | ⟨b, hb⟩
                · exact absurd hs hstart
                · exact absurd hb (hnd b)
          obtain ⟨m0, hm0, hM, _, _⟩ := h.holder tid hlock
          rw [hth] at hm0; cases hm0
          have hstep : c.step tid = { sc := m.stepSC c.sc, lock := (match m.stepPc c.sc with | .done _ => none | _ => c.lock), threads := setNth c.threads tid (.committer { m with pc := m.stepPc c.sc }) } := by
            unfold Conc.step; rw [hth]
            cases hpc : m.pc with
            | done b => exact absurd hpc (hnd b)
            | start => exact absurd hpc hstart
            | _ => simp only [Committer.step]; rfl
          have hsc : (c.step tid).sc = m.stepSC c.sc := by rw [hstep]
          have hlk : (c.step tid).lock = (match m.stepPc c.sc with | .done _ => none | _ => c.lock) := by rw [hstep]
          have hthr : (c.step tid).threads = setNth c.threads tid (.committer { m with pc := m.stepPc c.sc }) := by
            rw [hstep]
          have hholec : c.hole = CPc.hole m.hash m.pc := by unfold Conc.hole; rw [hlock]; simp only; rw [hth]
          rw [hsc] at hev
          rw [ht]
          obtain ⟨hI', hM', hle, hlinks⟩ := Committer.step_inv (by rw [← hholec]; exact h.inv) hM hev
          have hget : ∀ j, j ≠ tid → (c.step tid).threads[j]? = c.threads[j]? := by
            intro j hj; rw [hthr, getElem?_setNth]
            have : ¬ (tid = j ∧ tid < c.threads.length) := fun hh => hj hh.1.symm
            simp [this]
          have hself : (c.step tid).threads[tid]? = some (Thread.committer { m with pc := m.stepPc c.sc }) := by
            rw [hthr, getElem?_setNth]; simp [hlt]
          refine ⟨⟨?_, ?_, ?_, ?_⟩, hle, fun b p hl => by rw [hsc]; exact hlinks b p hl⟩
          · have : (c.step tid).hole = CPc.hole m.hash (m.stepPc c.sc) := by
              unfold Conc.hole; rw [hlk]
              cases hp : m.stepPc c.sc with
              | done b => rfl
              | _ => simp only [hlock]; rw [hself]; simp only [hp]
            rw [this, hsc]; exact hI'
          · intro j r hj
            rw [hsc]
            by_cases hjt : j = tid
            · subst hjt; rw [hself] at hj; cases hj
            · rw [hget j hjt] at hj
              exact RInv.stable (h.readers j r hj) hlinks hle
          · intro j hlj
            rw [hlk] at hlj
            cases hp : m.stepPc c.sc with
            | done b => rw [hp] at hlj; cases hlj
            | _ =>
              rw [hp] at hlj; simp only at hlj
              rw [hlock] at hlj; cases hlj
              refine ⟨_, hself, by rw [hsc]; exact hM', ?_, ?_⟩
              · exact Committer.stepPc_ne_start _ _ hstart
              · intro b hb; simp only at hb; rw [hp] at hb; cases hb
          · intro j m' hj hlj
            rw [hlk] at hlj
            by_cases hjt : j = tid
            · subst hjt
              rw [hself] at hj; cases hj
              simp only
              cases hp : m.stepPc c.sc with
              | done b => exact .inr ⟨b, rfl⟩
              | _ => rw [hp] at hlj; simp only at hlj; exact absurd hlock hlj
            · rw [hget j hjt] at hj
              exact h.idle j m' hj (by rw [hlock]; intro hh; cases hh; exact hjt rfl)

theorem Conc.run_ev_le (c : Conc K B V) (sched : List Nat) : c.sc.evictions ≤ (c.run sched).sc.evictions := by
  induction sched generalizing c with
  | nil => exact Nat.le_refl _
  | cons t rest ih =>
    simp only [Conc.run, List.foldl_cons]
    exact Nat.le_trans (Conc.step_ev_le c t) (ih (c.step t))

theorem Conc.run_cons (c : Conc K B V) (t : Nat) (rest : List Nat) : c.run (t :: rest) = (c.step t).run rest := rfl

theorem Conc.run_inv {c : Conc K B V} {T : Tree K B V} (sched : List Nat) (h : CInv c T)
    (hev : (c.run sched).sc.evictions = c.sc.evictions) :
    CInv (c.run sched) (Conc.treeRun T c sched) ∧ T.le (Conc.treeRun T c sched) ∧
      (∀ b p, linkAt c.sc b = some p → linkAt (c.run sched).sc b = some p) := by
  induction sched generalizing c T with
  | nil => exact ⟨h, Tree.le_refl T, fun _ _ hl => hl⟩
  | cons t rest ih =>
    rw [Conc.run_cons] at hev ⊢
    have h1 : (c.step t).sc.evictions = c.sc.evictions :=
      Nat.le_antisymm (by rw [← hev]; exact Conc.run_ev_le _ _) (Conc.step_ev_le c t)
    obtain ⟨hC, hle, hl⟩ := Conc.step_inv t h h1
    obtain ⟨hC', hle', hl'⟩ := ih hC (by rw [hev, h1])
    exact ⟨hC', Tree.le_trans hle hle', fun b p hb => hl' b p (hl b p hb)⟩

/-- every thread keeps its identity: a reader stays a reader for the same key and block, a committer stays a committer
    of the same block -/
def Thread.same : Thread K B V → Thread K B V → Prop
  | .reader r, .reader r' => r'.key = r.key ∧ r'.blk = r.blk
  | .committer m, .committer m' => m'.hash = m.hash ∧ m'.prev = m.prev ∧ m'.writes = m.writes
  | _, _ => False

theorem Thread.same_refl (t : Thread K B V) : Thread.same t t := by
  cases t <;> simp [Thread.same]

theorem Thread.same_trans {a b c : Thread K B V} (h1 : Thread.same a b) (h2 : Thread.same b c) : Thread.same a c := by
  cases a <;> cases b <;> cases c <;> simp [Thread.same] at *
  · exact ⟨h2.1.trans h1.1, h2.2.trans h1.2⟩
  · exact ⟨h2.1.trans h1.1, h2.2.1.trans h1.2.1, h2.2.2.trans h1.2.2⟩

theorem Conc.step_same (c : Conc K B V) (tid j : Nat) (th : Thread K B V) (h : c.threads[j]? = some th) :
    ∃ th', (c.step tid).threads[j]? = some th' ∧ Thread.same th th' := by
  have hlt := getElem?_lt h
  unfold Conc.step
  cases hth : c.threads[tid]? with
  | none => exact ⟨th, h, Thread.same_refl th⟩
  | some t0 =>
    cases t0 with
    | reader r =>
      simp only [Reader.step]
      rw [getElem?_setNth]
      by_cases hj : tid = j
      · subst hj; rw [hth] at h; cases h
        simp [hlt, Thread.same]
      · simp [hj]; exact ⟨th, h, Thread.same_refl th⟩
    | committer m =>
      simp only
      cases hpc : m.pc with
      | done b => exact ⟨th, h, Thread.same_refl th⟩
      | start =>
        simp only
        cases c.lock with
        | some _ => exact ⟨th, h, Thread.same_refl th⟩
        | none =>
          simp only; rw [getElem?_setNth]
          by_cases hj : tid = j
          · subst hj; rw [hth] at h; cases h; simp [hlt, Thread.same]
          · simp [hj]; exact ⟨th, h, Thread.same_refl th⟩
      | _ =>
        simp only [Committer.step]; rw [getElem?_setNth]
        by_cases hj : tid = j
        · subst hj; rw [hth] at h; cases h; simp [hlt, Thread.same]
        · simp [hj]; exact ⟨th, h, Thread.same_refl th⟩

theorem Conc.run_same (c : Conc K B V) (sched : List Nat) (j : Nat) (th : Thread K B V) (h : c.threads[j]? = some th) :
    ∃ th', (c.run sched).threads[j]? = some th' ∧ Thread.same th th' := by
  induction sched generalizing c th with
  | nil => exact ⟨th, h, Thread.same_refl th⟩
  | cons t rest ih =>
    rw [Conc.run_cons]
    obtain ⟨th1, h1, s1⟩ := Conc.step_same c t j th h
    obtain ⟨th2, h2, s2⟩ := ih (c.step t) th1 h1
    exact ⟨th2, h2, Thread.same_trans s1 s2⟩

/-- fresh threads on a quiescent cache -/
def Conc.Initial (c : Conc K B V) : Prop :=
  c.lock = none ∧ ∀ (tid : Nat) th, c.threads[tid]? = some th →
    (∃ k b, th = Thread.reader (Reader.init k b)) ∨
    (∃ m, th = Thread.committer m ∧ m.pc = .start ∧ (m.writes.map Prod.fst).Nodup)

theorem CInv.init {c : Conc K B V} {T : Tree K B V} (hI : Inv c.sc T none) (h0 : c.Initial) : CInv c T := by
  obtain ⟨hl, ht⟩ := h0
  refine ⟨by unfold Conc.hole; rw [hl]; exact hI, fun tid r hr => ?_, fun tid hh => (by rw [hl] at hh; cases hh),
    fun tid m hm _ => ?_⟩
  · rcases ht tid _ hr with ⟨k, b, he⟩ | ⟨m, he, _⟩
    · cases he; unfold RInv Reader.init; trivial
    · cases he
  · rcases ht tid _ hm with ⟨k, b, he⟩ | ⟨m', he, hs, hn⟩
    · cases he
    · cases he; exact .inl ⟨hs, hn⟩

/-- the tree of a run stays inside any tree that contains the start tree and the block of every committer thread -/
theorem Conc.treeRun_le {c : Conc K B V} {T Tall : Tree K B V} (sched : List Nat) (hle : T.le Tall)
    (hall : ∀ (tid : Nat) m, c.threads[tid]? = some (Thread.committer m) → Tall.find m.hash = some m.blk)
    :
    ∀ (hC : CInv c T) (hev : (c.run sched).sc.evictions = c.sc.evictions), (Conc.treeRun T c sched).le Tall := by
  induction sched generalizing c T with
  | nil => intro _ _; exact hle
  | cons t rest ih =>
    intro hC hev
    rw [Conc.run_cons] at hev
    have h1 : (c.step t).sc.evictions = c.sc.evictions :=
      Nat.le_antisymm (by rw [← hev]; exact Conc.run_ev_le _ _) (Conc.step_ev_le c t)
    obtain ⟨hC', _, _⟩ := Conc.step_inv t hC h1
    have hle' : (Conc.treeStep T c t).le Tall := by
      unfold Conc.treeStep
      cases hth : c.threads[t]? with
      | none => exact hle
      | some th =>
        cases th with
        | reader r => exact hle
        | committer m =>
          simp only
          unfold Committer.treeAfter
          cases hpc : m.pc <;> simp only <;> try exact hle
          cases hl : linkAt c.sc m.hash with
          | some p => exact hle
          | none =>
            simp only
            intro b x hb
            by_cases hfn : T.find m.blk.hash = none
            · rw [Tree.find_append_of_none T m.blk b hfn] at hb
              by_cases hmb : m.blk.hash = b
              · simp [hmb] at hb; subst hb
                have := hall t m hth
                rw [← hmb]; exact this
              · simp [hmb] at hb; exact hle b x hb
            · -- the block is already in the tree: appending does not change any lookup
              have : (T ++ [m.blk]).find b = T.find b := by
                unfold Tree.find
                rw [List.find?_append]
                cases hT : List.find? (fun y => decide (y.hash = b)) T with
                | some y => rfl
                | none =>
                  simp only [Option.none_or]
                  by_cases hmb : m.blk.hash = b
                  · subst hmb; unfold Tree.find at hfn; exact absurd hT hfn
                  · simp [hmb]
              rw [this] at hb; exact hle b x hb
    have hall' : ∀ (tid : Nat) m, (c.step t).threads[tid]? = some (Thread.committer m) → Tall.find m.hash = some m.blk := by
      intro tid m hm
      -- the thread at `tid` was a committer of the same block before the step
      cases hold : c.threads[tid]? with
      | none =>
        have : (c.step t).threads[tid]? = none := by
          have hlen : (c.step t).threads.length = c.threads.length := by
            unfold Conc.step
            cases c.threads[t]? with
            | none => rfl
            | some th =>
              cases th with
              | reader r => simp [Reader.step, setNth_length]
              | committer m0 =>
                simp only
                cases m0.pc <;> simp only <;> (try rfl) <;> (try (cases c.lock <;> simp [setNth_length])) <;> simp [Committer.step, setNth_length]
          rw [List.getElem?_eq_none_iff] at hold ⊢; omega
        rw [this] at hm; cases hm
      | some th0 =>
        obtain ⟨th1, h1', hs⟩ := Conc.step_same c t tid th0 hold
        rw [hm] at h1'; cases h1'
        cases th0 with
        | reader r => simp [Thread.same] at hs
        | committer m0 =>
          simp only [Thread.same] at hs
          have := hall tid m0 hold
          unfold Committer.blk at *
          rw [hs.1, hs.2.1, hs.2.2]; exact this
    exact ih hle' hall' hC' (by rw [hev, h1])

/-! ### visible after commit -/

/-- a lookup at a block whose own entry for the key is present can only end with that entry's result -/
def VInv (r : Reader K B V) (e : Entry V) : Prop :=
  match r.pc with
  | .cache => True
  | .link cur _ => cur = r.blk
  | .entry cur _ _ => cur = r.blk
  | .memo _ => False
  | .done res => res = e.result

theorem Reader.step_vis {sc : SC K B V} {r : Reader K B V} {e : Entry V}
    (hent : entryAt sc r.key r.blk = some e) (hV : VInv r e) : VInv { r with pc := r.stepPc sc } e := by
  have hm : ∃ m, alookup sc.cache r.key = some m ∧ m.peek r.blk = some e := by
    unfold entryAt at hent
    cases h : alookup sc.cache r.key with
    | none => rw [h] at hent; cases hent
    | some m => rw [h] at hent; exact ⟨m, rfl, hent⟩
  obtain ⟨m, hm1, hm2⟩ := hm
  unfold VInv at *
  cases hpc : r.pc with
  | cache => unfold Reader.stepPc; simp only [hpc, hm1]
  | link cur n => rw [hpc] at hV; unfold Reader.stepPc; simp only [hpc]; exact hV
  | entry cur n linked =>
    rw [hpc] at hV; simp only at hV; subst hV
    unfold Reader.stepPc; simp only [hpc, hm1, LRU.get_snd, hm2, if_true]
  | memo e' => rw [hpc] at hV; exact absurd hV (by simp)
  | done res => rw [hpc] at hV; unfold Reader.stepPc; simp only [hpc]; exact hV

theorem Conc.step_other (c : Conc K B V) (t j : Nat) (hj : j ≠ t) : (c.step t).threads[j]? = c.threads[j]? := by
  unfold Conc.step
  have hne : ∀ x : Thread K B V, (setNth c.threads t x)[j]? = c.threads[j]? := by
    intro x; rw [getElem?_setNth]
    have : ¬ (t = j ∧ t < c.threads.length) := fun hh => hj hh.1.symm
    simp [this]
  cases hth : c.threads[t]? with
  | none => rfl
  | some th =>
    cases th with
    | reader r => simp only [Reader.step]; exact hne _
    | committer m =>
      simp only
      cases m.pc with
      | done b => rfl
      | start => simp only; cases c.lock <;> simp only <;> first | rfl | exact hne _
      | _ => simp only [Committer.step]; exact hne _

theorem Conc.step_reader_self (c : Conc K B V) (t : Nat) (r : Reader K B V) (h : c.threads[t]? = some (Thread.reader r)) :
    (c.step t).threads[t]? = some (Thread.reader { r with pc := r.stepPc c.sc }) := by
  have hlt := getElem?_lt h
  unfold Conc.step; rw [h]; simp only [Reader.step]
  rw [getElem?_setNth]; simp [hlt]

theorem Conc.run_visible {c : Conc K B V} {T : Tree K B V} (sched : List Nat) (hC : CInv c T)
    (hev : (c.run sched).sc.evictions = c.sc.evictions)
    {b p : B} {x : Blk K B V} {k : K} {e : Entry V} {tid : Nat} {r : Reader K B V}
    (hl : linkAt c.sc b = some p) (hx : T.find b = some x) (hw : alookup x.writes k = some e)
    (hr : c.threads[tid]? = some (Thread.reader r)) (hk : r.key = k) (hb : r.blk = b) (hV : VInv r e) :
    ∃ r', (c.run sched).threads[tid]? = some (Thread.reader r') ∧ r'.key = k ∧ r'.blk = b ∧ VInv r' e := by
  induction sched generalizing c T r with
  | nil => exact ⟨r, hr, hk, hb, hV⟩
  | cons t rest ih =>
    rw [Conc.run_cons] at hev ⊢
    have h1 : (c.step t).sc.evictions = c.sc.evictions :=
      Nat.le_antisymm (by rw [← hev]; exact Conc.run_ev_le _ _) (Conc.step_ev_le c t)
    obtain ⟨hC', hle, hlinks⟩ := Conc.step_inv t hC h1
    have hent : entryAt c.sc k b = some e := by
      obtain ⟨y, hy, _, hyw⟩ := hC.inv.linked b p hl
      rw [hx] at hy; cases hy
      exact hyw k e hw
    by_cases ht : t = tid
    · subst ht
      have hself := Conc.step_reader_self c t r hr
      exact ih hC' (by rw [hev, h1]) (hlinks b p hl) (hle b x hx) hself hk hb
        (Reader.step_vis (by rw [hk, hb]; exact hent) hV)
    · have hother := Conc.step_other c t tid (fun hh => ht hh.symm)
      exact ih hC' (by rw [hev, h1]) (hlinks b p hl) (hle b x hx) (by rw [hother]; exact hr) hk hb hV

/-! ### a commit that has returned is published (any number of committers) -/

theorem Committer.stepPc_done {sc : SC K B V} {m : Committer K B V} {b : Bool} (h : m.stepPc sc = .done b) :
    (m.pc = .linkcheck ∧ (sc.links.get m.hash).2.isSome = true) ∨ m.pc = .publish ∨ m.pc = .done b := by
  cases hpc : m.pc with
  | start => unfold Committer.stepPc at h; rw [hpc] at h; cases h
  | linkcheck =>
    unfold Committer.stepPc at h; rw [hpc] at h; simp only at h
    cases hl : (sc.links.get m.hash).2 with
    | some _ => exact .inl ⟨rfl, rfl⟩
    | none => rw [hl] at h; simp only at h; unfold CPc.next at h; cases hw : m.writes <;> rw [hw] at h <;> cases h
  | keyGet t =>
    unfold Committer.stepPc at h; rw [hpc] at h
    cases t with
    | nil => cases h
    | cons a t => cases h
  | keyAdd fr t =>
    unfold Committer.stepPc at h; rw [hpc] at h
    cases t with
    | nil => cases h
    | cons a t => cases fr <;> cases h
  | keyPut fr t =>
    unfold Committer.stepPc at h; rw [hpc] at h
    cases t with
    | nil => cases h
    | cons a t => simp only at h; unfold CPc.next at h; cases t <;> cases h
  | publish => exact .inr (.inl rfl)
  | done b' => unfold Committer.stepPc at h; rw [hpc] at h; cases h; exact .inr (.inr rfl)

/-- what a scheduler step does to the thread it steps, when that thread is a committer -/
theorem Conc.step_committer (c : Conc K B V) (t : Nat) (m : Committer K B V)
    (h : c.threads[t]? = some (Thread.committer m)) :
    (c.step t = c) ∨
    (m.pc = .start ∧ (c.step t).sc = c.sc ∧ (c.step t).threads[t]? = some (Thread.committer { m with pc := .linkcheck })) ∨
    ((c.step t).sc = m.stepSC c.sc ∧
      (c.step t).threads[t]? = some (Thread.committer { m with pc := m.stepPc c.sc })) := by
  have hlt := getElem?_lt h
  have hself : ∀ x : Thread K B V, (setNth c.threads t x)[t]? = some x := by
    intro x; rw [getElem?_setNth]; simp [hlt]
  cases hpc : m.pc with
  | done b =>
    left; unfold Conc.step; rw [h]; simp only [hpc]
  | start =>
    cases hl : c.lock with
    | some _ => left; unfold Conc.step; rw [h]; simp only [hpc, hl]
    | none =>
      right; left
      have hs : c.step t = { c with lock := some t, threads := setNth c.threads t (.committer { m with pc := .linkcheck }) } := by
        unfold Conc.step; rw [h]; simp only [hpc, hl]
      rw [hs]; exact ⟨rfl, rfl, hself _⟩
  | linkcheck =>
    right; right
    have hs : c.step t = { sc := m.stepSC c.sc, lock := (match m.stepPc c.sc with | .done _ => none | _ => c.lock), threads := setNth c.threads t (.committer { m with pc := m.stepPc c.sc }) } := by
      unfold Conc.step; rw [h]; simp only [hpc, Committer.step]; rfl
    rw [hs]; exact ⟨rfl, hself _⟩
  | keyGet _ =>
    right; right
    have hs : c.step t = { sc := m.stepSC c.sc, lock := (match m.stepPc c.sc with | .done _ => none | _ => c.lock), threads := setNth c.threads t (.committer { m with pc := m.stepPc c.sc }) } := by
      unfold Conc.step; rw [h]; simp only [hpc, Committer.step]; rfl
    rw [hs]; exact ⟨rfl, hself _⟩
  | keyAdd _ _ =>
    right; right
    have hs : c.step t = { sc := m.stepSC c.sc, lock := (match m.stepPc c.sc with | .done _ => none | _ => c.lock), threads := setNth c.threads t (.committer { m with pc := m.stepPc c.sc }) } := by
      unfold Conc.step; rw [h]; simp only [hpc, Committer.step]; rfl
    rw [hs]; exact ⟨rfl, hself _⟩
  | keyPut _ _ =>
    right; right
    have hs : c.step t = { sc := m.stepSC c.sc, lock := (match m.stepPc c.sc with | .done _ => none | _ => c.lock), threads := setNth c.threads t (.committer { m with pc := m.stepPc c.sc }) } := by
      unfold Conc.step; rw [h]; simp only [hpc, Committer.step]; rfl
    rw [hs]; exact ⟨rfl, hself _⟩
  | publish =>
    right; right
    have hs : c.step t = { sc := m.stepSC c.sc, lock := (match m.stepPc c.sc with | .done _ => none | _ => c.lock), threads := setNth c.threads t (.committer { m with pc := m.stepPc c.sc }) } := by
      unfold Conc.step; rw [h]; simp only [hpc, Committer.step]; rfl
    rw [hs]; exact ⟨rfl, hself _⟩

/-- every committer thread that has returned has its block linked -/
def DoneLinked (c : Conc K B V) : Prop :=
  ∀ (tid : Nat) (m : Committer K B V) (b : Bool), c.threads[tid]? = some (Thread.committer m) → m.pc = .done b →
    linkAt c.sc m.hash ≠ none

theorem Conc.step_doneLinked {c : Conc K B V} {T : Tree K B V} (t : Nat) (hC : CInv c T) (hD : DoneLinked c)
    (hev : (c.step t).sc.evictions = c.sc.evictions) : DoneLinked (c.step t) := by
  obtain ⟨_, _, hlinks⟩ := Conc.step_inv t hC hev
  have mono : ∀ b, linkAt c.sc b ≠ none → linkAt (c.step t).sc b ≠ none := by
    intro b hb
    cases hl : linkAt c.sc b with
    | none => exact absurd hl hb
    | some p => rw [hlinks b p hl]; simp
  intro tid m b hm hdone
  by_cases htt : tid = t
  · subst htt
    cases hold : c.threads[tid]? with
    | none =>
      have : c.step tid = c := by unfold Conc.step; rw [hold]
      rw [this, hold] at hm; cases hm
    | some th =>
      cases th with
      | reader r =>
        have := Conc.step_reader_self c tid r hold
        rw [this] at hm; cases hm
      | committer m0 =>
        rcases Conc.step_committer c tid m0 hold with hsame | ⟨_, _, hth⟩ | ⟨hsc, hth⟩
        · rw [hsame] at hm ⊢; exact hD tid m b hm hdone
        · rw [hth] at hm; cases hm; cases hdone
        · rw [hth] at hm; cases hm
          simp only at hdone
          rcases Committer.stepPc_done hdone with ⟨hpc, hsome⟩ | hpc | hpc
          · -- link check found the link: it is still there
            apply mono
            rw [LRU.get_snd] at hsome
            unfold linkAt
            cases hp : c.sc.links.peek m0.hash with
            | none => rw [hp] at hsome; cases hsome
            | some _ => simp
          · -- publish: the link has just been added
            rw [hsc]
            have hs : m0.stepSC c.sc = { c.sc with links := (c.sc.links.add m0.hash m0.prev).1, evictions := c.sc.evictions + (c.sc.links.add m0.hash m0.prev).2.toNat } := by
              unfold Committer.stepSC; rw [hpc]
            have hne : (c.sc.links.add m0.hash m0.prev).2 = false := by
              rw [hsc, hs] at hev
              cases hb : (c.sc.links.add m0.hash m0.prev).2 with
              | false => rfl
              | true => simp [hb] at hev
            rw [hs]; unfold linkAt; simp only
            rw [LRU.add_peek _ _ _ _ hne]; simp
          · exact mono _ (hD tid m0 b hold hpc)
  · rw [Conc.step_other c t tid htt] at hm
    exact mono _ (hD tid m b hm hdone)

theorem Conc.run_doneLinked {c : Conc K B V} {T : Tree K B V} (sched : List Nat) (hC : CInv c T) (hD : DoneLinked c)
    (hev : (c.run sched).sc.evictions = c.sc.evictions) : DoneLinked (c.run sched) := by
  induction sched generalizing c T with
  | nil => exact hD
  | cons t rest ih =>
    rw [Conc.run_cons] at hev ⊢
    have h1 : (c.step t).sc.evictions = c.sc.evictions :=
      Nat.le_antisymm (by rw [← hev]; exact Conc.run_ev_le _ _) (Conc.step_ev_le c t)
    obtain ⟨hC', _, _⟩ := Conc.step_inv t hC h1
    exact ih hC' (Conc.step_doneLinked t hC hD h1) (by rw [hev, h1])


end Verif.SC
