/-
Every node handed to `insertNode` as NEW by the insert / delete event streams of Verif.Model.MptStore is a real
(non-empty) node; and the stored form of a node reference (`Ref.encode`, `Ref.key`) is the codec model's
`encode (reprOf …)` under `H (hashBytes (reprOf …))`: the tie between the store work package's event model and the
codec model, used by C14's event-level statement.
-/
import Verif.Lemmas.MptStoreEvents
import Verif.Lemmas.MptCodec
namespace Verif.MptStore
open Verif.Mpt

def PutNonEmpty : Event → Prop
  | .put _ n => n.t.isEmpty = false
  | .del _ => True

theorem wrapE_put_nonempty (v : Nat) (old : Ref) (pre c : List Nib) (n : Node) (hn : n.isEmpty = false) :
    ∀ e ∈ wrapE v old pre c n, PutNonEmpty e := by
  intro e he
  cases c with
  | nil => simp [wrapE] at he; subst he; simpa [PutNonEmpty] using hn
  | cons x c =>
    simp [wrapE] at he
    rcases he with he | he
    · subst he; simpa [PutNonEmpty] using hn
    · subst he; simp [PutNonEmpty, Node.isEmpty]

theorem extRestE_put_nonempty (v : Nat) (pos er : List Nib) (c : Node) : ∀ e ∈ extRestE v pos er c, PutNonEmpty e := by
  intro e he
  cases er with
  | nil => simp [extRestE] at he
  | cons x er => simp [extRestE] at he; subst he; simp [PutNonEmpty, Node.isEmpty]

theorem insertE_put_nonempty (v : Nat) (b : Bytes) (t : Node) :
    ∀ (pre p : List Nib), ∀ e ∈ (insertE v b t pre p).2, PutNonEmpty e := by
  induction t with
  | empty => intro pre p e he; simp [insertE] at he; subst he; simp [PutNonEmpty, Node.isEmpty]
  | leaf o lp lv =>
    intro pre p e he
    simp only [insertE] at he
    split at he
    · simp at he; subst he; simp [PutNonEmpty, Node.isEmpty]
    · simp only [List.mem_cons] at he
      rcases he with he | he
      · subst he; simp [PutNonEmpty, Node.isEmpty]
      · exact wrapE_put_nonempty v _ _ _ _ (by simp [Node.isEmpty]) e he
    · simp only [List.mem_cons] at he
      rcases he with he | he
      · subst he; simp [PutNonEmpty, Node.isEmpty]
      · exact wrapE_put_nonempty v _ _ _ _ (by simp [Node.isEmpty]) e he
    · simp only [List.mem_cons] at he
      rcases he with he | he | he
      · subst he; simp [PutNonEmpty, Node.isEmpty]
      · subst he; simp [PutNonEmpty, Node.isEmpty]
      · exact wrapE_put_nonempty v _ _ _ _ (by simp [Node.isEmpty]) e he
  | full o ch val ih =>
    intro pre p e he
    cases p with
    | nil => simp [insertE] at he; subst he; simp [PutNonEmpty, Node.isEmpty]
    | cons x pr =>
      simp only [insertE, List.mem_append, List.mem_singleton] at he
      rcases he with he | he
      · exact ih x _ _ e he
      · subst he; simp [PutNonEmpty, Node.isEmpty]
  | ext o ep c ih =>
    intro pre p e he
    simp only [insertE] at he
    split at he
    · simp only [List.mem_append, List.mem_singleton] at he
      rcases he with he | he
      · exact ih _ _ e he
      · subst he; simp [PutNonEmpty, Node.isEmpty]
    · simp only [List.mem_append] at he
      rcases he with he | he
      · exact extRestE_put_nonempty v _ _ _ e he
      · exact wrapE_put_nonempty v _ _ _ _ (by simp [Node.isEmpty]) e he
    · simp only [List.mem_cons, List.mem_append] at he
      rcases he with he | he | he
      · subst he; simp [PutNonEmpty, Node.isEmpty]
      · exact extRestE_put_nonempty v _ _ _ e he
      · exact wrapE_put_nonempty v _ _ _ _ (by simp [Node.isEmpty]) e he

theorem liftE_put_nonempty (v : Nat) (old : Ref) (pre : List Nib) (i : Nib) (n : Node) :
    ∀ e ∈ (liftE v old pre i n).2, PutNonEmpty e := by
  intro e he
  cases n with
  | empty => simp [liftE] at he
  | leaf o p lv => simp [liftE] at he; rcases he with he | he <;> subst he <;> simp [PutNonEmpty, Node.isEmpty]
  | ext o p c => simp [liftE] at he; rcases he with he | he <;> subst he <;> simp [PutNonEmpty, Node.isEmpty]
  | full o ch val => simp [liftE] at he; subst he; simp [PutNonEmpty, Node.isEmpty]

theorem liftFirstE_put_nonempty (v : Nat) (old : Ref) (pre : List Nib) (ch : Nib → Node) :
    ∀ e ∈ (liftFirstE v old pre ch).2, PutNonEmpty e := by
  intro e he
  simp only [liftFirstE] at he
  split at he
  · exact liftE_put_nonempty v _ _ _ _ e he
  · simp at he

theorem deleteE_put_nonempty (v : Nat) (t : Node) :
    ∀ (pre p : List Nib), ∀ e ∈ (deleteE v t pre p).2, PutNonEmpty e := by
  induction t with
  | empty => intro pre p e he; simp [deleteE] at he
  | leaf o lp lv =>
    intro pre p e he
    simp only [deleteE] at he
    split at he
    · simp at he; subst he; simp [PutNonEmpty]
    · simp at he
  | full o ch val ih =>
    intro pre p e he
    cases p with
    | nil =>
      simp only [deleteE] at he
      cases val with
      | none => simp at he
      | some bv =>
        simp only at he
        split at he
        · exact liftFirstE_put_nonempty v _ _ _ e he
        · simp at he; subst he; simp [PutNonEmpty, Node.isEmpty]
    | cons x pr =>
      simp only [deleteE] at he
      have hrec := ih x (pre ++ [x]) pr
      cases hE : deleteE v (ch x) (pre ++ [x]) pr with
      | mk r es =>
        rw [hE] at he hrec
        simp only at hrec
        cases r with
        | notPresent => simp at he
        | panic => simp at he
        | node c' =>
          simp only [List.mem_append, List.mem_singleton] at he
          rcases he with he | he
          · exact hrec e he
          · subst he; simp [PutNonEmpty, Node.isEmpty]
        | removed =>
          simp only at he
          split at he
          · cases val with
            | none => simp only at he; exact hrec e he
            | some bv =>
              simp only [List.mem_append, List.mem_singleton] at he
              rcases he with he | he
              · exact hrec e he
              · subst he; simp [PutNonEmpty, Node.isEmpty]
          · split at he
            · simp only [List.mem_append] at he
              rcases he with he | he
              · exact hrec e he
              · exact liftFirstE_put_nonempty v _ _ _ e he
            · simp only [List.mem_append, List.mem_singleton] at he
              rcases he with he | he
              · exact hrec e he
              · subst he; simp [PutNonEmpty, Node.isEmpty]
  | ext o ep c ih =>
    intro pre p e he
    simp only [deleteE] at he
    rcases hs : splitCommon p ep with ⟨cm, p', er⟩
    rw [hs] at he
    cases er with
    | cons y er' => simp at he
    | nil =>
      simp only at he
      have hrec := ih (pre ++ ep) p'
      cases hE : deleteE v c (pre ++ ep) p' with
      | mk r es =>
        rw [hE] at he hrec
        simp only at hrec
        cases r with
        | notPresent => simp at he
        | panic => simp at he
        | removed => simp at he
        | node n =>
          cases n with
          | empty => simp at he
          | leaf o2 lp lv =>
            simp only [List.mem_append, List.mem_cons] at he
            rcases he with he | he | he
            · exact hrec e he
            · subst he; simp [PutNonEmpty]
            · rcases he with he | he
              · subst he; simp [PutNonEmpty, Node.isEmpty]
              · cases he
          | ext o2 p2 c2 =>
            simp only [List.mem_append, List.mem_cons] at he
            rcases he with he | he | he
            · exact hrec e he
            · subst he; simp [PutNonEmpty]
            · rcases he with he | he
              · subst he; simp [PutNonEmpty, Node.isEmpty]
              · cases he
          | full o2 ch val =>
            simp only [List.mem_append, List.mem_singleton] at he
            rcases he with he | he
            · exact hrec e he
            · subst he; simp [PutNonEmpty, Node.isEmpty]


/-! ### `Ref.encode` / `Ref.key` in terms of the codec model -/

open Verif.Codec in
theorem body_eq_encBody (H : Bytes → Bytes) (t : Node) (pre : List Nib) (ht : t.isEmpty = false) :
    body H t pre = encBody (reprOf H t pre).body := by
  cases t with
  | empty => simp [Node.isEmpty] at ht
  | leaf o lp lv => simp [body, reprOf, encBody, optBytes_ifEmpty]
  | full o ch val =>
    simp only [body, reprOf, encBody]
    rw [List.flatMap_map]
    congr 1
    · congr 1
      funext i
      by_cases he : (ch i).isEmpty = true <;> simp [he, childField]
    · cases val with
      | none => simp [optBytes]
      | some b => by_cases hb : b = [] <;> simp [hb, optBytes]
  | ext o ep c => simp [body, reprOf, encBody]

open Verif.Codec in
/-- the bytes the store layer writes for a node are the codec model's encoding of its decoded form -/
theorem ref_encode_eq (H : Bytes → Bytes) (r : Ref) (ht : r.t.isEmpty = false) :
    r.encode H = Verif.Codec.encode (reprOf H r.t r.pos) := by
  obtain ⟨pos, t⟩ := r
  simp only [Ref.encode, Verif.MptStore.encode, Verif.Codec.encode]
  rw [body_eq_encBody H t pos ht]
  cases t with
  | empty => simp [Node.isEmpty] at ht
  | leaf o lp lv => simp [typeByte, Verif.Codec.typeByte, reprOf, origin, le64_w64]
  | full o ch val => simp [typeByte, Verif.Codec.typeByte, reprOf, origin, le64_w64]
  | ext o ep c => simp [typeByte, Verif.Codec.typeByte, reprOf, origin, le64_w64]


/-! ### the change collector only ever holds real nodes -/

open Collector

theorem mem_map_del {κ ν : Type} [DecidableEq κ] (m : Map κ ν) (k : κ) (e : κ × ν) (h : e ∈ Map.del m k) : e ∈ m := by
  simp only [Map.del, List.mem_filter] at h; exact h.1

theorem mem_map_put {κ ν : Type} [DecidableEq κ] (m : Map κ ν) (k : κ) (v : ν) (e : κ × ν) (h : e ∈ Map.put m k v) :
    e = (k, v) ∨ e ∈ m := by
  simp only [Map.put, List.mem_cons] at h
  rcases h with h | h
  · exact Or.inl h
  · exact Or.inr (mem_map_del m k e h)

/-- every change the collector holds has a real (non-empty) new node -/
def CCReal (cc : Collector Bytes Ref) : Prop := ∀ e ∈ cc.changes, e.2.new.t.isEmpty = false

theorem ccReal_addChange (k : Ref → Bytes) (cc : Collector Bytes Ref) (old : Option Ref) (new : Ref) (h : CCReal cc)
    (hn : new.t.isEmpty = false) : CCReal (cc.addChange k old new) := by
  intro e he
  simp only [addChange] at he
  split at he
  · rcases mem_map_put _ _ _ _ he with rfl | hm
    · exact hn
    · exact h e hm
  · split at he
    · split at he
      · split at he
        · exact h e (mem_map_del _ _ _ he)
        · rcases mem_map_put _ _ _ _ he with rfl | hm
          · exact hn
          · exact h e (mem_map_del _ _ _ hm)
      · rcases mem_map_put _ _ _ _ he with rfl | hm
        · exact hn
        · exact h e (mem_map_del _ _ _ hm)
    · rcases mem_map_put _ _ _ _ he with rfl | hm
      · exact hn
      · exact h e hm

theorem ccReal_deleteChange (k : Ref → Bytes) (cc : Collector Bytes Ref) (o : Ref) (h : CCReal cc) :
    CCReal (cc.deleteChange k o) := by
  intro e he
  simp only [deleteChange] at he
  split at he
  · exact h e (mem_map_del _ _ _ he)
  · exact h e he

theorem ccReal_applyEvents (H : Bytes → Bytes) (es : List Event) (t : Trie) (h : CCReal t.cc)
    (hes : ∀ e ∈ es, PutNonEmpty e) : CCReal (t.applyEvents H es).cc := by
  induction es generalizing t with
  | nil => exact h
  | cons e es ih =>
    simp only [Trie.applyEvents, List.foldl_cons]
    apply ih
    · cases e with
      | put old new =>
        have hn : new.t.isEmpty = false := hes (.put old new) (by simp)
        simp only [Trie.applyEvent, Trie.insertNode]
        cases old with
        | none => exact ccReal_addChange _ _ _ _ h hn
        | some o =>
          simp only
          split
          · exact h
          · exact ccReal_addChange _ _ _ _ h hn
      | del o => exact ccReal_deleteChange _ _ _ h
    · exact fun e' he' => hes e' (List.mem_cons_of_mem _ he')

theorem getChanges_real (cc : Collector Bytes Ref) (h : CCReal cc) : ∀ c ∈ cc.getChanges, c.new.t.isEmpty = false := by
  intro c hc
  simp only [getChanges, List.mem_map] at hc
  obtain ⟨e, he, rfl⟩ := hc
  exact h e he


end Verif.MptStore
