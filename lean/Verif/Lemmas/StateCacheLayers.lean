import Verif.Model.StateCacheLayers
import Verif.Lemmas.StateCacheConc
import Verif.Lemmas.StateCacheTxnPublish
/-!
# The layered interleaving model keeps the state-cache invariant (C08)
-/
namespace Verif.SC

variable {H K B V : Type} [DecidableEq H] [DecidableEq K] [DecidableEq B]

/-- a thread as it is when an operation of a block / transaction cache hands the work to the state cache -/
def Thread.Fresh : Thread K B V → Prop
  | .reader r => ∃ k b, r = Reader.init k b
  | .committer m => m.pc = .start ∧ (m.writes.map Prod.fst).Nodup

theorem Thread.fresh_reader (k : K) (b : B) : (Thread.reader (Reader.init k b) : Thread K B V).Fresh := ⟨k, b, rfl⟩

theorem Thread.fresh_committer (h p : B) (w : List (K × Entry V)) (hn : (w.map Prod.fst).Nodup) :
    (Thread.committer ⟨h, p, w, .start⟩ : Thread K B V).Fresh := ⟨rfl, hn⟩

theorem getElem?_append_one {α : Type} (l : List α) (x : α) (i : Nat) :
    (l ++ [x])[i]? = if i < l.length then l[i]? else if i = l.length then some x else none := by
  by_cases h : i < l.length
  · simp [h, List.getElem?_append_left h]
  · simp only [h, if_false]
    rw [List.getElem?_append_right (Nat.le_of_not_lt h)]
    by_cases h2 : i = l.length
    · simp [h2]
    · have : i - l.length ≠ 0 := by omega
      simp [h2]
      omega

theorem CInv.spawn {c : Conc K B V} {T : Tree K B V} (h : CInv c T) (th : Thread K B V) (hf : th.Fresh) :
    CInv (c.spawn th) T := by
  have hold : ∀ (tid : Nat) x, c.threads[tid]? = some x → (c.spawn th).threads[tid]? = some x := by
    intro tid x hx
    have hlt := getElem?_lt hx
    simp only [Conc.spawn, getElem?_append_one, hlt, if_true]; exact hx
  have hnew : ∀ (tid : Nat) x, (c.spawn th).threads[tid]? = some x → c.threads[tid]? = some x ∨ (tid = c.threads.length ∧ x = th) := by
    intro tid x hx
    simp only [Conc.spawn, getElem?_append_one] at hx
    by_cases h1 : tid < c.threads.length
    · rw [if_pos h1] at hx; exact .inl hx
    · rw [if_neg h1] at hx
      by_cases h2 : tid = c.threads.length
      · rw [if_pos h2] at hx; exact .inr ⟨h2, (Option.some.inj hx).symm⟩
      · rw [if_neg h2] at hx; cases hx
  have hlock : (c.spawn th).lock = c.lock := rfl
  have hhole : (c.spawn th).hole = c.hole := by
    unfold Conc.hole
    rw [hlock]
    cases hl : c.lock with
    | none => rfl
    | some tid =>
      obtain ⟨m, hm, _⟩ := h.holder tid hl
      simp only [hold tid _ hm, hm]
  refine ⟨by rw [hhole]; exact h.inv, fun tid r hr => ?_, fun tid hl => ?_, fun tid m hm hl => ?_⟩
  · rcases hnew tid _ hr with h1 | ⟨_, h2⟩
    · exact h.readers tid r h1
    · subst h2
      obtain ⟨k, b, hr⟩ := hf
      subst hr; unfold RInv Reader.init; trivial
  · obtain ⟨m, hm, h2⟩ := h.holder tid hl
    exact ⟨m, hold tid _ hm, h2⟩
  · rcases hnew tid _ hm with h1 | ⟨_, h2⟩
    · exact h.idle tid m h1 hl
    · subst h2; exact .inl hf

/-- pending maps of the block caches have each key once -/
def BcsNodup (l : LConc H K B V) : Prop := ∀ h bc, alookup l.bcs h = some bc → (bc.cache.map Prod.fst).Nodup

/-- the specification tree after a step: only state-cache commit threads add blocks -/
def LConc.treeStep (T : Tree K B V) (l : LConc H K B V) : LStep H K B V → Tree K B V
  | .sc tid => Conc.treeStep T l.base tid
  | _ => T

def LConc.treeRun (T : Tree K B V) (l : LConc H K B V) : List (LStep H K B V) → Tree K B V
  | [] => T
  | a :: rest => LConc.treeRun (LConc.treeStep T l a) (l.step a) rest

structure LInv (l : LConc H K B V) (T : Tree K B V) : Prop where
  cinv : CInv l.base T
  nodup : BcsNodup l

theorem BcsNodup.aset {l l' : LConc H K B V} (h : BcsNodup l) (hh : H) (bc : BC K B V)
    (hn : (bc.cache.map Prod.fst).Nodup) (hs : l'.bcs = Verif.SC.aset l.bcs hh bc) : BcsNodup l' := by
  intro h' bc' hb
  rw [hs, alookup_aset] at hb
  by_cases e : hh = h'
  · simp [e] at hb; subst hb; exact hn
  · simp [e] at hb; exact h h' bc' hb

theorem LConc.lookupBlock_base (l : LConc H K B V) (who h : H) (k : K) :
    (l.lookupBlock who h k).bcs = l.bcs ∧
    ((l.lookupBlock who h k).base = l.base ∨ ∃ b, (l.lookupBlock who h k).base = l.base.spawn (.reader (Reader.init k b))) := by
  unfold LConc.lookupBlock
  split
  · exact ⟨rfl, .inl rfl⟩
  · split
    · exact ⟨rfl, .inl rfl⟩
    · split
      · exact ⟨rfl, .inl rfl⟩
      · exact ⟨rfl, .inr ⟨_, rfl⟩⟩

/-- what a step does to the state-cache level: a step of one of its threads, nothing, or one fresh thread -/
theorem LConc.step_base (l : LConc H K B V) (hn : BcsNodup l) (a : LStep H K B V) :
    (∃ tid, a = .sc tid ∧ (l.step a).base = l.base.step tid) ∨
    ((∀ tid, a ≠ .sc tid) ∧ ((l.step a).base = l.base ∨ ∃ th, th.Fresh ∧ (l.step a).base = l.base.spawn th)) := by
  cases a with
  | sc tid =>
    refine .inl ⟨tid, rfl, ?_⟩
    simp only [LConc.step]
    split
    · split <;> rfl
    · rfl
  | bset h k v =>
    refine .inr ⟨fun _ hh => (by cases hh), .inl ?_⟩
    simp only [LConc.step]; split
    · split <;> rfl
    · rfl
  | bget h k =>
    refine .inr ⟨fun _ hh => (by cases hh), ?_⟩
    simp only [LConc.step]
    rcases (l.lookupBlock_base h h k).2 with e | ⟨b, e⟩
    · exact .inl e
    · exact .inr ⟨_, Thread.fresh_reader k b, e⟩
  | bcBegin h =>
    refine .inr ⟨fun _ hh => (by cases hh), ?_⟩
    simp only [LConc.step]; split
    · rename_i bc hb
      split
      · exact .inl rfl
      · exact .inr ⟨_, Thread.fresh_committer _ _ _ (hn h bc hb), rfl⟩
    · exact .inl rfl
  | tset t k v =>
    refine .inr ⟨fun _ hh => (by cases hh), .inl ?_⟩
    simp only [LConc.step]; split
    · split <;> rfl
    · rfl
  | trem t k =>
    refine .inr ⟨fun _ hh => (by cases hh), .inl ?_⟩
    simp only [LConc.step]; split
    · split <;> rfl
    · rfl
  | tget t k =>
    refine .inr ⟨fun _ hh => (by cases hh), ?_⟩
    simp only [LConc.step]; split
    · split
      · exact .inl rfl
      · split
        · exact .inl rfl
        · split
          · rename_i h _
            rcases (l.lookupBlock_base t h k).2 with e | ⟨b, e⟩
            · exact .inl e
            · exact .inr ⟨_, Thread.fresh_reader k b, e⟩
          · exact .inr ⟨_, Thread.fresh_reader k _, rfl⟩
    · exact .inl rfl
  | tcBegin t =>
    refine .inr ⟨fun _ hh => (by cases hh), .inl ?_⟩
    simp only [LConc.step]; split
    · split
      · split <;> rfl
      · rfl
    · rfl
  | tcApply t =>
    refine .inr ⟨fun _ hh => (by cases hh), .inl ?_⟩
    simp only [LConc.step]; split
    · rfl
    · split
      · split <;> rfl
      · split
        · split <;> rfl
        · rfl

theorem LConc.step_nodup (l : LConc H K B V) (hn : BcsNodup l) (a : LStep H K B V) : BcsNodup (l.step a) := by
  have keep : ∀ l' : LConc H K B V, l'.bcs = l.bcs → BcsNodup l' := fun l' hs h bc hb => hn h bc (by rw [← hs]; exact hb)
  cases a with
  | sc tid =>
    simp only [LConc.step]
    split
    · split
      · rename_i eff bc _ hb
        refine hn.aset _ _ ?_ rfl
        split
        · simp
        · exact hn _ bc hb
      · exact keep _ rfl
    · exact keep _ rfl
  | bset h k v =>
    simp only [LConc.step]; split
    · rename_i bc hb
      split
      · exact keep _ rfl
      · exact hn.aset h _ (aset_keys_nodup bc.cache k (.val v) (hn h bc hb)) rfl
    · exact keep _ rfl
  | bget h k => exact keep _ (l.lookupBlock_base h h k).1
  | bcBegin h =>
    simp only [LConc.step]; split
    · split <;> exact keep _ rfl
    · exact keep _ rfl
  | tset t k v => simp only [LConc.step]; split
                  · split <;> exact keep _ rfl
                  · exact keep _ rfl
  | trem t k => simp only [LConc.step]; split
                · split <;> exact keep _ rfl
                · exact keep _ rfl
  | tget t k =>
    simp only [LConc.step]; split
    · split
      · exact keep _ rfl
      · split
        · exact keep _ rfl
        · split
          · exact keep _ (l.lookupBlock_base _ _ _).1
          · exact keep _ rfl
    · exact keep _ rfl
  | tcBegin t =>
    simp only [LConc.step]; split
    · split
      · split <;> exact keep _ rfl
      · exact keep _ rfl
    · exact keep _ rfl
  | tcApply t =>
    simp only [LConc.step]; split
    · exact keep _ rfl
    · split
      · split <;> exact keep _ rfl
      · split
        · rename_i k e _ _ _ bc hb
          split
          · exact keep _ rfl
          · exact hn.aset _ _ (aset_keys_nodup bc.cache k e (hn _ bc hb)) rfl
        · exact keep _ rfl

theorem LConc.step_ev_le (l : LConc H K B V) (hn : BcsNodup l) (a : LStep H K B V) :
    l.base.sc.evictions ≤ (l.step a).base.sc.evictions := by
  rcases l.step_base hn a with ⟨tid, _, e⟩ | ⟨_, e | ⟨th, _, e⟩⟩
  · rw [e]; exact Conc.step_ev_le _ _
  · rw [e]; exact Nat.le_refl _
  · rw [e]; exact Nat.le_refl _

theorem LConc.step_inv {l : LConc H K B V} {T : Tree K B V} (a : LStep H K B V) (h : LInv l T)
    (hev : (l.step a).base.sc.evictions = l.base.sc.evictions) : LInv (l.step a) (LConc.treeStep T l a) := by
  refine ⟨?_, l.step_nodup h.nodup a⟩
  rcases l.step_base h.nodup a with ⟨tid, ha, e⟩ | ⟨hns, e | ⟨th, hf, e⟩⟩
  · subst ha
    rw [e] at hev ⊢
    exact (Conc.step_inv tid h.cinv hev).1
  · have : LConc.treeStep T l a = T := by cases a <;> first | rfl | exact absurd rfl (hns _)
    rw [this, e]; exact h.cinv
  · have : LConc.treeStep T l a = T := by cases a <;> first | rfl | exact absurd rfl (hns _)
    rw [this, e]; exact h.cinv.spawn th hf

theorem LConc.run_cons (l : LConc H K B V) (a : LStep H K B V) (rest : List (LStep H K B V)) :
    l.run (a :: rest) = (l.step a).run rest := rfl

theorem LConc.run_ev_le (l : LConc H K B V) (hn : BcsNodup l) (sched : List (LStep H K B V)) :
    l.base.sc.evictions ≤ (l.run sched).base.sc.evictions := by
  induction sched generalizing l with
  | nil => exact Nat.le_refl _
  | cons a rest ih =>
    rw [LConc.run_cons]
    exact Nat.le_trans (l.step_ev_le hn a) (ih _ (l.step_nodup hn a))

theorem LConc.run_inv {l : LConc H K B V} {T : Tree K B V} (sched : List (LStep H K B V)) (h : LInv l T)
    (hev : (l.run sched).base.sc.evictions = l.base.sc.evictions) : LInv (l.run sched) (LConc.treeRun T l sched) := by
  induction sched generalizing l T with
  | nil => exact h
  | cons a rest ih =>
    rw [LConc.run_cons] at hev ⊢
    have h1 : (l.step a).base.sc.evictions = l.base.sc.evictions :=
      Nat.le_antisymm (by rw [← hev]; exact LConc.run_ev_le _ (l.step_nodup h.nodup a) rest) (l.step_ev_le h.nodup a)
    exact ih (LConc.step_inv a h h1) (by rw [hev, h1])

end Verif.SC
