import Verif.Model.StateCacheLayers
import Verif.Lemmas.StateCacheConc
import Verif.Lemmas.StateCacheTxnPublish
/-!
# The layered interleaving model keeps the state-cache invariant (C08)
-/
namespace Verif.SC

variable {H K B V : Type} [DecidableEq H] [DecidableEq K] [DecidableEq B]

/-- a thread as it is when an operation of a block / transaction cache hands the work to the state cache -/
def Thread.Fresh : Thread K B V → Prop
  | .reader r => ∃ k b, r = Reader.init k b
  | .committer m => m.pc = .start ∧ (m.writes.map Prod.fst).Nodup

theorem Thread.fresh_reader (k : K) (b : B) : (Thread.reader (Reader.init k b) : Thread K B V).Fresh := ⟨k, b, rfl⟩

theorem Thread.fresh_committer (h p : B) (w : List (K × Entry V)) (hn : (w.map Prod.fst).Nodup) :
    (Thread.committer ⟨h, p, w, .start⟩ : Thread K B V).Fresh := ⟨rfl, hn⟩

theorem getElem?_append_one {α : Type} (l : List α) (x : α) (i : Nat) :
    (l ++ [x])[i]? = if i < l.length then l[i]? else if i = l.length then some x else none := by
  by_cases h : i < l.length
  · simp [h, List.getElem?_append_left h]
  · simp only [h, if_false]
    rw [List.getElem?_append_right (Nat.le_of_not_lt h)]
    by_cases h2 : i = l.length
    · simp [h2]
    · have : i - l.length ≠ 0 := by omega
      simp [h2]
      omega

theorem CInv.spawn {c : Conc K B V} {T : Tree K B V} (h : CInv c T) (th : Thread K B V) (hf : th.Fresh) :
    CInv (c.spawn th) T := by
  have hold : ∀ (tid : Nat) x, c.threads[tid]? = some x → (c.spawn th).threads[tid]? = some x := by
    intro tid x hx
    have hlt := getElem?_lt hx
    simp only [Conc.spawn, getElem?_append_one, hlt, if_true]; exact hx
  have hnew : ∀ (tid : Nat) x, (c.spawn th).threads[tid]? = some x → c.threads[tid]? = some x ∨ (tid = c.threads.length ∧ x = th) := by
    intro tid x hx
    simp only [Conc.spawn, getElem?_append_one] at hx
    by_cases h1 : tid < c.threads.length
    · rw [if_pos h1] at hx; exact .inl hx
    · rw [if_neg h1] at hx
      by_cases h2 : tid = c.threads.length
      · rw [if_pos h2] at hx; exact .inr ⟨h2, (Option.some.inj hx).symm⟩
      · rw [if_neg h2] at hx; cases hx
  have hlock : (c.spawn th).lock = c.lock := rfl
  have hhole : (c.spawn th).hole = c.hole := by
    unfold Conc.hole
    rw [hlock]
    cases hl : c.lock with
    | none => rfl
    | some tid =>
      obtain ⟨m, hm, _⟩ := h.holder tid hl
      simp only [hold tid _ hm, hm]
  refine ⟨by rw [hhole]; exact h.inv, fun tid r hr => ?_, fun tid hl => ?_, fun tid m hm hl => ?_⟩
  · rcases hnew tid _ hr with h1 | ⟨_, h2⟩
    · exact h.readers tid r h1
    · subst h2
      obtain ⟨k, b, hr⟩ := hf
      subst hr; unfold RInv Reader.init; trivial
  · obtain ⟨m, hm, h2⟩ := h.holder tid hl
    exact ⟨m, hold tid _ hm, h2⟩
  · rcases hnew tid _ hm with h1 | ⟨_, h2⟩
    · exact h.idle tid m h1 hl
    · subst h2; exact .inl hf

/-- pending maps of the block caches have each key once -/
def BcsNodup (l : LConc H K B V) : Prop := ∀ h bc, alookup l.bcs h = some bc → (bc.cache.map Prod.fst).Nodup

/-- the specification tree after a step: only state-cache commit threads add blocks -/
def LConc.treeStep (T : Tree K B V) (l : LConc H K B V) : LStep H K B V → Tree K B V
  | .sc tid => Conc.treeStep T l.base tid
  | _ => T

def LConc.treeRun (T : Tree K B V) (l : LConc H K B V) : List (LStep H K B V) → Tree K B V
  | [] => T
  | a :: rest => LConc.treeRun (LConc.treeStep T l a) (l.step a) rest

structure LInv (l : LConc H K B V) (T : Tree K B V) : Prop where
  cinv : CInv l.base T
  nodup : BcsNodup l

theorem BcsNodup.aset {l l' : LConc H K B V} (h : BcsNodup l) (hh : H) (bc : BC K B V)
    (hn : (bc.cache.map Prod.fst).Nodup) (hs : l'.bcs = Verif.SC.aset l.bcs hh bc) : BcsNodup l' := by
  intro h' bc' hb
  rw [hs, alookup_aset] at hb
  by_cases e : hh = h'
  · simp [e] at hb; subst hb; exact hn
  · simp [e] at hb; exact h h' bc' hb

theorem LConc.lookupBlock_base (l : LConc H K B V) (who h : H) (k : K) :
    (l.lookupBlock who h k).bcs = l.bcs ∧
    ((l.lookupBlock who h k).base = l.base ∨ ∃ b, (l.lookupBlock who h k).base = l.base.spawn (.reader (Reader.init k b))) := by
  unfold LConc.lookupBlock
  split
  · exact ⟨rfl, .inl rfl⟩
  · split
    · exact ⟨rfl, .inl rfl⟩
    · split
      · exact ⟨rfl, .inl rfl⟩
      · exact ⟨rfl, .inr ⟨_, rfl⟩⟩

/-- what a step does to the state-cache level: a step of one of its threads, nothing, or one fresh thread -/
theorem LConc.step_base (l : LConc H K B V) (hn : BcsNodup l) (a : LStep H K B V) :
    (∃ tid, a = .sc tid ∧ (l.step a).base = l.base.step tid) ∨
    ((∀ tid, a ≠ .sc tid) ∧ ((l.step a).base = l.base ∨ ∃ th, th.Fresh ∧ (l.step a).base = l.base.spawn th)) := by
  cases a with
  | sc tid =>
    refine .inl ⟨tid, rfl, ?_⟩
    simp only [LConc.step]
    split
    · split <;> rfl
    · split <;> rfl
    · rfl
  | bset h k v =>
    refine .inr ⟨fun _ hh => (by cases hh), .inl ?_⟩
    simp only [LConc.step]; split
    · split <;> rfl
    · rfl
  | bget h k =>
    refine .inr ⟨fun _ hh => (by cases hh), ?_⟩
    simp only [LConc.step]
    rcases (l.lookupBlock_base h h k).2 with e | ⟨b, e⟩
    · exact .inl e
    · exact .inr ⟨_, Thread.fresh_reader k b, e⟩
  | bcBegin h =>
    refine .inr ⟨fun _ hh => (by cases hh), ?_⟩
    simp only [LConc.step]; split
    · rename_i bc hb
      split
      · exact .inl rfl
      · exact .inr ⟨_, Thread.fresh_committer _ _ _ (hn h bc hb), rfl⟩
    · exact .inl rfl
  | tset t k v =>
    refine .inr ⟨fun _ hh => (by cases hh), .inl ?_⟩
    simp only [LConc.step]; split
    · split <;> rfl
    · rfl
  | trem t k =>
    refine .inr ⟨fun _ hh => (by cases hh), .inl ?_⟩
    simp only [LConc.step]; split
    · split <;> rfl
    · rfl
  | tget t k =>
    refine .inr ⟨fun _ hh => (by cases hh), ?_⟩
    simp only [LConc.step]; split
    · split
      · exact .inl rfl
      · split
        · exact .inl rfl
        · split
          · rename_i h _
            rcases (l.lookupBlock_base t h k).2 with e | ⟨b, e⟩
            · exact .inl e
            · exact .inr ⟨_, Thread.fresh_reader k b, e⟩
          · exact .inr ⟨_, Thread.fresh_reader k _, rfl⟩
    · exact .inl rfl
  | tcBegin t =>
    refine .inr ⟨fun _ hh => (by cases hh), .inl ?_⟩
    simp only [LConc.step]; split
    · split
      · split <;> rfl
      · rfl
    · rfl
  | tcApply t =>
    refine .inr ⟨fun _ hh => (by cases hh), .inl ?_⟩
    simp only [LConc.step]; split
    · rfl
    · split
      · split <;> rfl
      · split
        · split <;> rfl
        · rfl

theorem LConc.step_nodup (l : LConc H K B V) (hn : BcsNodup l) (a : LStep H K B V) : BcsNodup (l.step a) := by
  have keep : ∀ l' : LConc H K B V, l'.bcs = l.bcs → BcsNodup l' := fun l' hs h bc hb => hn h bc (by rw [← hs]; exact hb)
  cases a with
  | sc tid =>
    simp only [LConc.step]
    split
    · split
      · rename_i eff bc _ hb
        refine hn.aset _ _ ?_ rfl
        split
        · simp
        · exact hn _ bc hb
      · exact keep _ rfl
    · split <;> exact keep _ rfl
    · exact keep _ rfl
  | bset h k v =>
    simp only [LConc.step]; split
    · rename_i bc hb
      split
      · exact keep _ rfl
      · exact hn.aset h _ (aset_keys_nodup bc.cache k (.val v) (hn h bc hb)) rfl
    · exact keep _ rfl
  | bget h k => exact keep _ (l.lookupBlock_base h h k).1
  | bcBegin h =>
    simp only [LConc.step]; split
    · split <;> exact keep _ rfl
    · exact keep _ rfl
  | tset t k v => simp only [LConc.step]; split
                  · split <;> exact keep _ rfl
                  · exact keep _ rfl
  | trem t k => simp only [LConc.step]; split
                · split <;> exact keep _ rfl
                · exact keep _ rfl
  | tget t k =>
    simp only [LConc.step]; split
    · split
      · exact keep _ rfl
      · split
        · exact keep _ rfl
        · split
          · exact keep _ (l.lookupBlock_base _ _ _).1
          · exact keep _ rfl
    · exact keep _ rfl
  | tcBegin t =>
    simp only [LConc.step]; split
    · split
      · split <;> exact keep _ rfl
      · exact keep _ rfl
    · exact keep _ rfl
  | tcApply t =>
    simp only [LConc.step]; split
    · exact keep _ rfl
    · split
      · split <;> exact keep _ rfl
      · split
        · rename_i k e _ _ _ bc hb
          split
          · exact keep _ rfl
          · exact hn.aset _ _ (aset_keys_nodup bc.cache k e (hn _ bc hb)) rfl
        · exact keep _ rfl

theorem LConc.step_ev_le (l : LConc H K B V) (hn : BcsNodup l) (a : LStep H K B V) :
    l.base.sc.evictions ≤ (l.step a).base.sc.evictions := by
  rcases l.step_base hn a with ⟨tid, _, e⟩ | ⟨_, e | ⟨th, _, e⟩⟩
  · rw [e]; exact Conc.step_ev_le _ _
  · rw [e]; exact Nat.le_refl _
  · rw [e]; exact Nat.le_refl _

theorem LConc.step_inv {l : LConc H K B V} {T : Tree K B V} (a : LStep H K B V) (h : LInv l T)
    (hev : (l.step a).base.sc.evictions = l.base.sc.evictions) : LInv (l.step a) (LConc.treeStep T l a) := by
  refine ⟨?_, l.step_nodup h.nodup a⟩
  rcases l.step_base h.nodup a with ⟨tid, ha, e⟩ | ⟨hns, e | ⟨th, hf, e⟩⟩
  · subst ha
    rw [e] at hev ⊢
    exact (Conc.step_inv tid h.cinv hev).1
  · have : LConc.treeStep T l a = T := by cases a <;> first | rfl | exact absurd rfl (hns _)
    rw [this, e]; exact h.cinv
  · have : LConc.treeStep T l a = T := by cases a <;> first | rfl | exact absurd rfl (hns _)
    rw [this, e]; exact h.cinv.spawn th hf

theorem LConc.run_cons (l : LConc H K B V) (a : LStep H K B V) (rest : List (LStep H K B V)) :
    l.run (a :: rest) = (l.step a).run rest := rfl

theorem LConc.run_ev_le (l : LConc H K B V) (hn : BcsNodup l) (sched : List (LStep H K B V)) :
    l.base.sc.evictions ≤ (l.run sched).base.sc.evictions := by
  induction sched generalizing l with
  | nil => exact Nat.le_refl _
  | cons a rest ih =>
    rw [LConc.run_cons]
    exact Nat.le_trans (l.step_ev_le hn a) (ih _ (l.step_nodup hn a))

theorem LConc.run_inv {l : LConc H K B V} {T : Tree K B V} (sched : List (LStep H K B V)) (h : LInv l T)
    (hev : (l.run sched).base.sc.evictions = l.base.sc.evictions) : LInv (l.run sched) (LConc.treeRun T l sched) := by
  induction sched generalizing l T with
  | nil => exact h
  | cons a rest ih =>
    rw [LConc.run_cons] at hev ⊢
    have h1 : (l.step a).base.sc.evictions = l.base.sc.evictions :=
      Nat.le_antisymm (by rw [← hev]; exact LConc.run_ev_le _ (l.step_nodup h.nodup a) rest) (l.step_ev_le h.nodup a)
    exact ih (LConc.step_inv a h h1) (by rw [hev, h1])

/-! ## lookups answered from a pending map -/

/-- pending entry of key `k` in block cache `h` -/
def LConc.pendAt (l : LConc H K B V) (h : H) (k : K) : Option (Entry V) :=
  (alookup l.bcs h).bind (fun bc => alookup bc.cache k)

/-- pending entry of key `k` in transaction cache `t` -/
def LConc.tpendAt (l : LConc H K B V) (t : H) (k : K) : Option (Entry V) :=
  (alookup l.tcs t).bind (fun tc => alookup tc.cache k)

/-- the answer a step gives out of a pending map, if it gives one: `BlockCache.Get` with an entry for the key in the block's
    pending map (block cache not locked), `TransactionCache.Get` with an entry in the transaction's map or, failing that,
    in its block's pending map (transaction not committing, block cache not locked) -/
def LConc.directAns (l : LConc H K B V) : LStep H K B V → Option (H × K × Option V)
  | .bget h k =>
    match alookup l.bcs h with
    | some bc => if l.isBusy h then none else (alookup bc.cache k).map (fun e => (h, k, e.result))
    | none => none
  | .tget t k =>
    match alookup l.tcs t with
    | some tc =>
      if l.inJob t then none else
      match alookup tc.cache k with
      | some e => some (t, k, e.result)
      | none =>
        match tc.main with
        | .block h =>
          match alookup l.bcs h with
          | some bc => if l.isBusy h then none else (alookup bc.cache k).map (fun e => (t, k, e.result))
          | none => none
        | .query _ => none
    | none => none
  | _ => none

theorem LConc.lookupBlock_direct (l : LConc H K B V) (who h : H) (k : K) :
    (l.lookupBlock who h k).direct =
      (match alookup l.bcs h with
       | some bc => if l.isBusy h then none else (alookup bc.cache k).map (fun (e : Entry V) => (who, k, e.result))
       | none => none).toList ++ l.direct := by
  unfold LConc.lookupBlock
  cases hb : alookup l.bcs h with
  | none => rfl
  | some bc =>
    simp only
    by_cases hbusy : l.isBusy h = true
    · simp [hbusy]
    · simp only [hbusy]
      cases he : alookup bc.cache k with
      | none => rfl
      | some e => rfl

/-- a step adds to the log of direct answers exactly the answer it gives out of a pending map -/
theorem LConc.step_direct (l : LConc H K B V) (a : LStep H K B V) :
    (l.step a).direct = (l.directAns a).toList ++ l.direct := by
  cases a with
  | sc tid =>
    simp only [LConc.step, LConc.directAns]
    split
    · split <;> rfl
    · split <;> rfl
    · rfl
  | bset h k v => simp only [LConc.step, LConc.directAns]; split
                  · split <;> rfl
                  · rfl
  | bget h k => simp only [LConc.step, LConc.directAns]; exact l.lookupBlock_direct h h k
  | bcBegin h => simp only [LConc.step, LConc.directAns]; split
                 · split <;> rfl
                 · rfl
  | tset t k v => simp only [LConc.step, LConc.directAns]; split
                  · split <;> rfl
                  · rfl
  | trem t k => simp only [LConc.step, LConc.directAns]; split
                · split <;> rfl
                · rfl
  | tget t k =>
    simp only [LConc.step, LConc.directAns]
    cases ht : alookup l.tcs t with
    | none => rfl
    | some tc =>
      simp only
      by_cases hj : l.inJob t = true
      · simp [hj]
      · simp only [hj]
        cases he : alookup tc.cache k with
        | some e => rfl
        | none =>
          simp only
          cases hm : tc.main with
          | block h => simp only; exact l.lookupBlock_direct t h k
          | query b => rfl
  | tcBegin t => simp only [LConc.step, LConc.directAns]; split
                 · split
                   · split <;> rfl
                   · rfl
                 · rfl
  | tcApply t =>
    simp only [LConc.step, LConc.directAns]; split
    · rfl
    · split
      · split <;> rfl
      · split
        · split <;> rfl
        · rfl

theorem LConc.run_append (l : LConc H K B V) (s1 s2 : List (LStep H K B V)) : l.run (s1 ++ s2) = (l.run s1).run s2 := by
  unfold LConc.run; rw [List.foldl_append]

/-- every direct answer in the log of a run was given by one step of the schedule, out of the pending map as it was in the
    configuration reached just before that step -/
theorem LConc.run_direct_mem (l : LConc H K B V) (sched : List (LStep H K B V)) (x : H × K × Option V)
    (hx : x ∈ (l.run sched).direct) :
    x ∈ l.direct ∨ ∃ pre a post, sched = pre ++ a :: post ∧ (l.run pre).directAns a = some x := by
  induction sched generalizing l with
  | nil => exact .inl hx
  | cons a rest ih =>
    rw [LConc.run_cons] at hx
    rcases ih (l.step a) hx with h1 | ⟨pre, a', post, hs, hd⟩
    · rw [LConc.step_direct] at h1
      rcases List.mem_append.mp h1 with h2 | h2
      · refine .inr ⟨[], a, rest, rfl, ?_⟩
        cases hda : l.directAns a with
        | none => rw [hda] at h2; simp at h2
        | some y => rw [hda] at h2; simp at h2; rw [h2]; exact hda
      · exact .inl h2
    · exact .inr ⟨a :: pre, a', post, by rw [hs]; rfl, by rw [LConc.run_cons]; exact hd⟩

/-- what `directAns` means for `BlockCache.Get` -/
theorem LConc.directAns_bget {l : LConc H K B V} {h : H} {k : K} {x : H × K × Option V}
    (hd : l.directAns (.bget h k) = some x) : ∃ e, l.pendAt h k = some e ∧ x = (h, k, e.result) := by
  simp only [LConc.directAns] at hd
  cases hb : alookup l.bcs h with
  | none => rw [hb] at hd; cases hd
  | some bc =>
    rw [hb] at hd; simp only at hd
    by_cases hbusy : l.isBusy h = true
    · simp [hbusy] at hd
    · simp only [hbusy] at hd
      cases he : alookup bc.cache k with
      | none => rw [he] at hd; cases hd
      | some e =>
        rw [he] at hd
        refine ⟨e, by simp [LConc.pendAt, hb, he], ?_⟩
        simp at hd; exact hd.symm

/-- what `directAns` means for `TransactionCache.Get`: the transaction's own entry, else its block's -/
theorem LConc.directAns_tget {l : LConc H K B V} {t : H} {k : K} {x : H × K × Option V}
    (hd : l.directAns (.tget t k) = some x) :
    ∃ e, x = (t, k, e.result) ∧
      (l.tpendAt t k = some e ∨
       (l.tpendAt t k = none ∧ ∃ tc h, alookup l.tcs t = some tc ∧ tc.main = .block h ∧ l.pendAt h k = some e)) := by
  simp only [LConc.directAns] at hd
  cases ht : alookup l.tcs t with
  | none => rw [ht] at hd; cases hd
  | some tc =>
    rw [ht] at hd; simp only at hd
    by_cases hj : l.inJob t = true
    · simp [hj] at hd
    · simp only [hj] at hd
      cases he : alookup tc.cache k with
      | some e =>
        rw [he] at hd; simp at hd
        exact ⟨e, hd.symm, .inl (by simp [LConc.tpendAt, ht, he])⟩
      | none =>
        rw [he] at hd; simp only at hd
        cases hm : tc.main with
        | query b => rw [hm] at hd; cases hd
        | block h =>
          rw [hm] at hd; simp only at hd
          cases hb : alookup l.bcs h with
          | none => rw [hb] at hd; cases hd
          | some bc =>
            rw [hb] at hd; simp only at hd
            by_cases hbusy : l.isBusy h = true
            · simp [hbusy] at hd
            · simp only [hbusy] at hd
              cases he2 : alookup bc.cache k with
              | none => rw [he2] at hd; cases hd
              | some e =>
                rw [he2] at hd; simp at hd
                exact ⟨e, hd.symm, .inr ⟨by simp [LConc.tpendAt, ht, he], tc, h, rfl, hm, by simp [LConc.pendAt, hb, he2]⟩⟩

theorem LConc.pendAt_aset (l l' : LConc H K B V) (h0 h : H) (bc : BC K B V) (k : K)
    (hs : l'.bcs = aset l.bcs h0 bc) :
    l'.pendAt h k = if h0 = h then alookup bc.cache k else l.pendAt h k := by
  unfold LConc.pendAt
  rw [hs, alookup_aset]
  by_cases e : h0 = h <;> simp [e]

/-- per key, the pending map of a block cache changes only by a write to THAT key in THAT block cache — `BlockCache.Set`, or
    the `setValue` step of a transaction commit that carries that key — or is emptied when the block's own commit returns
    (from then on the block's committed entry answers, `base` = own hash). So what a lookup reads out of a pending map is
    the latest write to that key in that block issued before the read: the block's pre-commit view, old or new. -/
theorem LConc.step_pendAt (l : LConc H K B V) (a : LStep H K B V) (h : H) (k : K) :
    (l.step a).pendAt h k = l.pendAt h k ∨
    (∃ v, a = .bset h k v ∧ (l.step a).pendAt h k = some (.val v)) ∨
    (∃ t j e rest, a = .tcApply t ∧ l.jobs.find? (fun j => j.t == t) = some j ∧ j.h = h ∧ j.rest = (k, e) :: rest ∧
      (l.step a).pendAt h k = some e) ∨
    (∃ tid, a = .sc tid ∧ (l.step a).pendAt h k = none) := by
  have keep : ∀ l' : LConc H K B V, l'.bcs = l.bcs → l'.pendAt h k = l.pendAt h k := by
    intro l' hs; unfold LConc.pendAt; rw [hs]
  cases a with
  | sc tid =>
    simp only [LConc.step]
    split
    · split
      · rename_i h' _ _ _ _ _ _ eff bc _ hb
        by_cases e : h' = h
        · subst e
          cases eff with
          | true =>
            refine .inr (.inr (.inr ⟨tid, rfl, ?_⟩))
            rw [LConc.pendAt_aset l _ h' h' _ k rfl]; simp [alookup]
          | false =>
            refine .inl ?_
            rw [LConc.pendAt_aset l _ h' h' _ k rfl]; simp [LConc.pendAt, hb]
        · refine .inl ?_
          rw [LConc.pendAt_aset l _ h' h _ k rfl]; simp [e]
      · exact .inl (keep _ rfl)
    · split <;> exact .inl (keep _ rfl)
    · exact .inl (keep _ rfl)
  | bset h' k' v =>
    simp only [LConc.step]; split
    · rename_i bc hb
      split
      · exact .inl (keep _ rfl)
      · by_cases e : h' = h
        · subst e
          by_cases ek : k' = k
          · subst ek
            refine .inr (.inl ⟨v, rfl, ?_⟩)
            rw [LConc.pendAt_aset l _ h' h' _ k' rfl]; simp [BC.set, alookup_aset]
          · refine .inl ?_
            rw [LConc.pendAt_aset l _ h' h' _ k rfl]; simp [BC.set, alookup_aset, ek, LConc.pendAt, hb]
        · refine .inl ?_
          rw [LConc.pendAt_aset l _ h' h _ k rfl]; simp [e]
    · exact .inl (keep _ rfl)
  | bget h' k' => exact .inl (keep _ (l.lookupBlock_base h' h' k').1)
  | bcBegin h' => simp only [LConc.step]; split
                  · split <;> exact .inl (keep _ rfl)
                  · exact .inl (keep _ rfl)
  | tset t k' v => simp only [LConc.step]; split
                   · split <;> exact .inl (keep _ rfl)
                   · exact .inl (keep _ rfl)
  | trem t k' => simp only [LConc.step]; split
                 · split <;> exact .inl (keep _ rfl)
                 · exact .inl (keep _ rfl)
  | tget t k' =>
    simp only [LConc.step]; split
    · split
      · exact .inl (keep _ rfl)
      · split
        · exact .inl (keep _ rfl)
        · split
          · exact .inl (keep _ (l.lookupBlock_base _ _ _).1)
          · exact .inl (keep _ rfl)
    · exact .inl (keep _ rfl)
  | tcBegin t => simp only [LConc.step]; split
                 · split
                   · split <;> exact .inl (keep _ rfl)
                   · exact .inl (keep _ rfl)
                 · exact .inl (keep _ rfl)
  | tcApply t =>
    simp only [LConc.step]
    cases hf : l.jobs.find? (fun j => j.t == t) with
    | none => exact .inl (keep _ rfl)
    | some j =>
      simp only
      cases hr : j.rest with
      | nil => simp only; split <;> exact .inl (keep _ rfl)
      | cons p rest =>
        obtain ⟨k', e⟩ := p
        simp only
        cases hb : alookup l.bcs j.h with
        | none => exact .inl (keep _ rfl)
        | some bc =>
          simp only
          by_cases hbusy : l.isBusy j.h = true
          · rw [if_pos hbusy]; exact .inl rfl
          · rw [if_neg hbusy]
            by_cases eh : j.h = h
            · by_cases ek : k' = k
              · subst ek
                refine .inr (.inr (.inl ⟨t, j, e, rest, rfl, hf, eh, hr, ?_⟩))
                rw [LConc.pendAt_aset l _ j.h h _ k' rfl]; simp [eh, BC.setValue, alookup_aset]
              · refine .inl ?_
                rw [LConc.pendAt_aset l _ j.h h _ k rfl]
                simp [eh, BC.setValue, alookup_aset, ek, LConc.pendAt]
                rw [← eh, hb]; rfl
            · refine .inl ?_
              rw [LConc.pendAt_aset l _ j.h h _ k rfl]; simp [eh]

end Verif.SC
