/-
Non-vacuity witnesses for the storage theorems of the weighted trie: concrete data (toy hash `toyH`, two 32-byte keys)
on which ALL hypotheses of `C09_through_storage`, `C10_complete` and `C10_complete_model` hold, together with the
instantiated conclusions.  Core Lean only.
-/
import Verif.Props.C09
import Verif.Props.C10
import Verif.Model.WmptToy
namespace Verif.Wmpt

open Verif.Props.C09 Verif.Props.C10

/-! ### generic helpers -/

/-- a map that has no duplicates on the image of a list is injective on that list -/
theorem wx_inj_of_nodup_map {α β : Type} (f : α → β) : ∀ (l : List α), (l.map f).Nodup →
    ∀ x y, x ∈ l → y ∈ l → f x = f y → x = y
  | [], _, _, _, hx, _, _ => by cases hx
  | a :: tl, hnd, x, y, hx, hy, he => by
    rw [List.map_cons, List.nodup_cons] at hnd
    rcases List.mem_cons.1 hx with rfl | hx' <;> rcases List.mem_cons.1 hy with rfl | hy'
    · rfl
    · exact absurd (List.mem_map.2 ⟨y, hy', he.symm⟩) hnd.1
    · exact absurd (List.mem_map.2 ⟨x, hx', he⟩) hnd.1
    · exact wx_inj_of_nodup_map f tl hnd.2 x y hx' hy' he

/-- relative injectivity from an explicit finite list of the nodes whose hashes are pairwise different -/
theorem wx_hashInj_of_list (H : Bytes → Bytes) (S : PT → Prop) (l : List PT) (hS : ∀ x, S x → x ∈ l)
    (hnd : (l.map (PT.hash H)).Nodup) : HashInj H S := by
  intro x y hx hy he
  rw [wx_inj_of_nodup_map (PT.hash H) l hnd x y (hS x hx) (hS y hy) he]

/-- all prefixes of a list -/
def wxPrefixes {α : Type} : List α → List (List α)
  | [] => [[]]
  | a :: l => [] :: (wxPrefixes l).map (a :: ·)

theorem wx_mem_prefixes {α : Type} : ∀ (l p q : List α), l = p ++ q → p ∈ wxPrefixes l
  | [], p, q, h => by
    have : p = [] := (List.append_eq_nil_iff.1 h.symm).1
    subst this; simp [wxPrefixes]
  | a :: l, [], q, _ => by simp [wxPrefixes]
  | a :: l, b :: p, q, h => by
    simp only [List.cons_append, List.cons.injEq] at h
    obtain ⟨rfl, h⟩ := h
    simp only [wxPrefixes, List.mem_cons, List.mem_map]
    exact .inr ⟨p, wx_mem_prefixes l p q h, rfl⟩

/-! ### the data -/

/-- 32-byte sample keys (64 nibbles each), as in Props/C11 -/
def wxKeyA : List Nib := List.replicate 64 1
def wxKeyD : List Nib := 2 :: List.replicate 63 4

/-- update, commit at collapse level 1, update of a second key (resolved through storage), Root(), commit at level 0 -/
def wxOps : List HOp := [.upd wxKeyA [1, 0xee] 2, .commit 1, .upd wxKeyD [2, 0xee] 3, .root, .commit 0]

/-- the spec trie after the first update: one short node over a value -/
def wxTA : PT := .short (List.replicate 64 1) (.value [1, 0xee] 2)

def wxLeafA : PT := .short (List.replicate 63 1) (.value [1, 0xee] 2)
def wxLeafD : PT := .short (List.replicate 63 4) (.value [2, 0xee] 3)

/-- the spec trie after the second update: a branch over two short leaves -/
def wxTAD : PT := .branch (PT.updP (PT.updP PT.noChP 1 wxLeafA) 2 wxLeafD)

theorem wx_specRun_1 : specRun [.upd wxKeyA [1, 0xee] 2] = wxTA := by rfl

set_option maxRecDepth 100000 in
theorem wx_specRun_3 : specRun [.upd wxKeyA [1, 0xee] 2, .commit 1, .upd wxKeyD [2, 0xee] 3] = wxTAD := by rfl

/-- the spec trie after every prefix of the history is one of three trees -/
theorem wx_specRun_prefix (p q : List HOp) (h : wxOps = p ++ q) :
    specRun p = .none ∨ specRun p = wxTA ∨ specRun p = wxTAD := by
  have hm := wx_mem_prefixes wxOps p q h
  simp only [wxOps, wxPrefixes, List.map_cons, List.map_nil, List.mem_cons, List.not_mem_nil, or_false] at hm
  rcases hm with rfl | rfl | rfl | rfl | rfl | rfl
  · exact .inl rfl
  · exact .inr (.inl wx_specRun_1)
  · exact .inr (.inl wx_specRun_1)
  · exact .inr (.inr wx_specRun_3)
  · exact .inr (.inr wx_specRun_3)
  · exact .inr (.inr wx_specRun_3)

theorem wx_specRun_ops : specRun wxOps = wxTAD := wx_specRun_3

/-! ### sizes -/

theorem wx_ptok_none : RepOps.PTOK .none := ⟨by decide, trivial⟩

theorem wx_ptsize_value (v : Bytes) (w : Nat) (h : v.length < 2 ^ 64) : PTSize (.value v w) := h

theorem wx_ptok_TA : RepOps.PTOK wxTA := ⟨by decide, by decide, by decide, wx_ptsize_value _ _ (by decide)⟩

theorem wx_ptsize_TAD : PTSize wxTAD := by
  intro i
  show PTSize (if i = 2 then wxLeafD else if i = 1 then wxLeafA else .none)
  split
  · exact ⟨by decide, by decide, wx_ptsize_value _ _ (by decide)⟩
  · split
    · exact ⟨by decide, by decide, wx_ptsize_value _ _ (by decide)⟩
    · trivial

theorem wx_ptok_TAD : RepOps.PTOK wxTAD := ⟨by decide, wx_ptsize_TAD⟩

/-! ### no collisions among the nodes -/

theorem wx_sub_none (x : PT) (h : PT.Sub x .none) : x ∈ [PT.none] := by
  simp only [PT.Sub] at h; simp [h]

theorem wx_sub_TA (x : PT) (h : PT.Sub x wxTA) : x ∈ [wxTA, .value [1, 0xee] 2] := by
  simp only [wxTA, PT.Sub] at h
  rcases h with rfl | rfl <;> simp [wxTA]

theorem wx_sub_TAD (x : PT) (h : PT.Sub x wxTAD) :
    x ∈ [wxTAD, wxLeafA, .value [1, 0xee] 2, wxLeafD, .value [2, 0xee] 3, .none] := by
  rcases h with h | ⟨i, h⟩
  · rw [h]; exact List.mem_cons_self
  · have h' : PT.Sub x (if i = 2 then wxLeafD else if i = 1 then wxLeafA else .none) := h
    split at h'
    · simp only [wxLeafD, PT.Sub] at h'
      rcases h' with rfl | rfl <;> simp [wxLeafD]
    · split at h'
      · simp only [wxLeafA, PT.Sub] at h'
        rcases h' with rfl | rfl <;> simp [wxLeafA]
      · simp only [PT.Sub] at h'
        simp [h']

theorem wx_hashInj_none : HashInj toyH (fun x => PT.Sub x .none) :=
  wx_hashInj_of_list toyH _ _ wx_sub_none (by decide)

set_option maxRecDepth 1000000 in
theorem wx_hashInj_TA : HashInj toyH (fun x => PT.Sub x wxTA) :=
  wx_hashInj_of_list toyH _ _ wx_sub_TA (by decide)

set_option maxRecDepth 1000000 in
theorem wx_hashInj_TAD : HashInj toyH (fun x => PT.Sub x wxTAD) :=
  wx_hashInj_of_list toyH _ _ wx_sub_TAD (by decide)

/-! ### 1. `C09_through_storage` -/

/-- ALL hypotheses of `C09_through_storage` (= those of `hinv_run`, `C09_root_through_storage`, `C09_no_wraparound`,
    `C11_recoverable_nogc`) hold for the toy hash and the history `wxOps` -/
theorem c09_through_storage_hyps :
    (∀ op ∈ wxOps, op.plain ∧ op.wf) ∧
    (∀ p q, wxOps = p ++ q → RepOps.PTOK (specRun p)) ∧
    (∀ p lvl q, wxOps = p ++ .commit lvl :: q → HashInj toyH (fun x => PT.Sub x (specRun p))) := by
  refine ⟨?_, ?_, ?_⟩
  · intro op hop
    simp only [wxOps, List.mem_cons, List.not_mem_nil, or_false] at hop
    rcases hop with rfl | rfl | rfl | rfl | rfl
    · exact ⟨trivial, by decide, by decide⟩
    · exact ⟨trivial, trivial⟩
    · exact ⟨trivial, by decide, by decide⟩
    · exact ⟨trivial, trivial⟩
    · exact ⟨trivial, trivial⟩
  · intro p q h
    rcases wx_specRun_prefix p q h with e | e | e <;> rw [e]
    · exact wx_ptok_none
    · exact wx_ptok_TA
    · exact wx_ptok_TAD
  · intro p lvl q h
    rcases wx_specRun_prefix p _ h with e | e | e <;> rw [e]
    · exact wx_hashInj_none
    · exact wx_hashInj_TA
    · exact wx_hashInj_TAD

/-- the conclusion of `C09_through_storage` for this history: it is not vacuously true -/
theorem c09_through_storage_instance :
    (hrun toyH wxOps).t.weight = entriesWeight (specRun wxOps).entries ∧
    (rootHash toyH (hrun toyH wxOps).t).2 = PT.hash toyH (specRun wxOps) ∧
    ∀ b, 1 ≤ b → b ≤ (specRun wxOps).weight →
      ∃ k v key proof, ownerSpec (specRun wxOps).entries b = some (k, v) ∧ RepMore.keybytesToHex key = k ∧
        (blockProof toyH (hrun toyH wxOps).t b).2 = .ok (key, proof) :=
  C09_through_storage toyH toyH_length wxOps c09_through_storage_hyps.1 c09_through_storage_hyps.2.1
    c09_through_storage_hyps.2.2

/-- the history really has a commit followed by an update, ends committed, and holds two live keys of total weight 5 -/
theorem wx_history_shape :
    (specRun wxOps).weight = 5 ∧ (specRun wxOps).entries.length = 2 := by
  rw [wx_specRun_ops]; decide

/-! ### 2. `C10_complete` -/

/-- two 32-byte keys (first nibbles 1 and 7) of weights 2 and 3 under one branch -/
def wxT10 : PT := .branch (fun i =>
  if i = 1 then .short (List.replicate 63 1) (.value [0xaa] 2)
  else if i = 7 then .short (List.replicate 63 4) (.value [0xbb] 3) else .none)

/-- ALL hypotheses of `C10_complete` (besides the hash length, `toyH_length`) for `wxT10` and block 3 -/
theorem c10_complete_hyps : 1 ≤ 3 ∧ 3 ≤ wxT10.weight ∧ wxT10.weight < 2 ^ 64 ∧ KeysNib wxT10 := by
  refine ⟨by decide, by decide, by decide, ?_⟩
  intro i
  show KeysNib (if i = 1 then .short (List.replicate 63 1) (.value [0xaa] 2)
    else if i = 7 then .short (List.replicate 63 4) (.value [0xbb] 3) else .none)
  split
  · exact ⟨by decide, trivial⟩
  · split
    · exact ⟨by decide, trivial⟩
    · trivial

/-- the conclusion of `C10_complete` for `wxT10`, block 3 -/
theorem c10_complete_instance :
    ∃ k v, ownerSpec wxT10.entries 3 = some (k, v) ∧
      verifyPairs toyH ((wxT10.proofPairs toyH 3).map PairD.ok) 3 = .ok (wxT10.hash toyH, v) :=
  C10_complete toyH toyH_length wxT10 3 c10_complete_hyps.1 c10_complete_hyps.2.1 c10_complete_hyps.2.2.1
    c10_complete_hyps.2.2.2

/-- …and the owner it names is the second key (block 3 lies in its interval 3..5) -/
theorem c10_complete_instance_owner :
    ownerSpec wxT10.entries 3 = some (7 :: List.replicate 63 4, [0xbb]) := by decide

/-! ### 3. `C10_complete_model` -/

/-- the invariant of the history `wxOps` (model trie after update / commit 1 / update / Root() / commit 0) -/
theorem wx_hinv : HInv toyH (hrun toyH wxOps) (specRun wxOps) :=
  hinv_run toyH_length wxOps c09_through_storage_hyps.1 c09_through_storage_hyps.2.1 c09_through_storage_hyps.2.2

set_option maxRecDepth 1000000 in
/-- ALL hypotheses of `C10_complete_model` for the model trie `(hrun toyH wxOps).t`, the spec tree `specRun wxOps`
    and block 3 -/
theorem c10_complete_model_hyps :
    (hrun toyH wxOps).t.hasDb = true ∧
    RepS toyH (hrun toyH wxOps).t.store (hrun toyH wxOps).t.root (specRun wxOps) ∧
    Proper (hrun toyH wxOps).t.root ∧ RepMore.UpDirty (hrun toyH wxOps).t.root ∧
    Uniform 64 (specRun wxOps) ∧ RepOps.PTOK (specRun wxOps) ∧ 1 ≤ 3 ∧ 3 ≤ (specRun wxOps).weight ∧
    (∀ p ∈ (specRun wxOps).proofPairs toyH 3, (Cbor.encBase p).length < 2 ^ 64) ∧
    ((specRun wxOps).proofPairs toyH 3).length < 2 ^ 64 := by
  refine ⟨wx_hinv.hasDb, wx_hinv.rep, wx_hinv.proper, wx_hinv.upDirty, wx_hinv.uniform,
    c09_through_storage_hyps.2.1 wxOps [] (by simp), by decide, ?_, ?_, ?_⟩
  · rw [wx_specRun_ops]; decide
  · rw [wx_specRun_ops]; decide
  · rw [wx_specRun_ops]; decide

/-- the conclusion of `C10_complete_model` for that trie (its root is a clean node over references into storage):
    `GetBlockProof(3)` returns key and proof bytes, and `VerifyBlockProof` on those bytes yields the spec root hash
    and the owner's value -/
theorem c10_complete_model_instance :
    ∃ key proof v, (blockProof toyH (hrun toyH wxOps).t 3).2 = .ok (key, proof) ∧
      ownerSpec (specRun wxOps).entries 3 = some (RepMore.keybytesToHex key, v) ∧
      verifyBlockProof toyH proof 3 = .ok ((specRun wxOps).hash toyH, v) :=
  have h := c10_complete_model_hyps
  C10_complete_model toyH toyH_length (hrun toyH wxOps).t (specRun wxOps) 3 h.1 h.2.1 h.2.2.1 h.2.2.2.1 h.2.2.2.2.1
    h.2.2.2.2.2.1 h.2.2.2.2.2.2.1 h.2.2.2.2.2.2.2.1 h.2.2.2.2.2.2.2.2.1 h.2.2.2.2.2.2.2.2.2

set_option maxRecDepth 1000000 in
/-- the model state of the witness is not degenerate: the root is clean (last operation is a commit),
    `Weight()` is 5 and block 3 is answered -/
theorem wx_model_shape :
    (hrun toyH wxOps).t.root.dirty = false ∧ (hrun toyH wxOps).t.weight = 5 ∧
      Res.isOk (blockProof toyH (hrun toyH wxOps).t 3).2 = true := by
  refine ⟨?_, ?_, ?_⟩ <;> decide

end Verif.Wmpt
