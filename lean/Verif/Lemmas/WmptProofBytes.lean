/- Byte level of C10 completeness: the proof bytes a live (or reopened) trie hands out verify. -/
import Verif.Lemmas.WmptHistoryInv
import Verif.Lemmas.WmptImport
namespace Verif.Wmpt
open RepOps RepMore

theorem proofPairs_wf (H : Bytes → Bytes) (hlen : ∀ x, (H x).length = 32) (t : PT) (b : Nat) (hok : PTOK t) :
    ∀ p ∈ t.proofPairs H b, Cbor.PBaseWF p := by
  induction t generalizing b with
  | none => intro p hp; simp [PT.proofPairs] at hp
  | value v w =>
    intro p hp
    simp only [PT.proofPairs, List.mem_singleton] at hp
    subst hp; exact persist_wf H hlen _ hok.1 hok.2
  | short k c ih =>
    intro p hp
    simp only [PT.proofPairs, List.mem_cons] at hp
    rcases hp with hp | hp
    · subst hp; exact persist_wf H hlen _ hok.1 hok.2
    · exact ih b hok.short p hp
  | branch ch ih =>
    intro p hp
    simp only [PT.proofPairs, List.mem_cons] at hp
    rcases hp with hp | hp
    · subst hp; exact persist_wf H hlen _ hok.1 hok.2
    · cases hpk : PT.pick ch allNib b with
      | none => simp [hpk] at hp
      | some ib =>
        obtain ⟨i, b'⟩ := ib
        simp only [hpk] at hp
        exact ih i b' (hok.child i) p hp

theorem encTrie_ne_nil (ps : List Bytes) : Cbor.encTrie ps ≠ [] := by
  simp [Cbor.encTrie, Cbor.arr, Cbor.head]

/-- the CBOR layer is transparent for honest proofs -/
theorem verifyBlockProof_encoded (H : Bytes → Bytes) (hlen : ∀ x, (H x).length = 32) (t : PT) (b : Nat) (hok : PTOK t)
    (hsz : ∀ p ∈ t.proofPairs H b, (Cbor.encBase p).length < 2 ^ 64) (hcnt : (t.proofPairs H b).length < 2 ^ 64) :
    verifyBlockProof H (Cbor.encTrie ((t.proofPairs H b).map Cbor.encBase)) b =
      verifyPairs H ((t.proofPairs H b).map PairD.ok) b := by
  have hdec : Cbor.decTrie (Cbor.encTrie ((t.proofPairs H b).map Cbor.encBase)) =
      some (((t.proofPairs H b).map Cbor.encBase).map some) := by
    apply Cbor.decTrie_encTrie
    · intro x hx
      obtain ⟨p, hp, rfl⟩ := List.mem_map.mp hx
      exact hsz p hp
    · simpa using hcnt
  have hmap : (((t.proofPairs H b).map Cbor.encBase).map some).map PairD.ofBytes = (t.proofPairs H b).map PairD.ok := by
    rw [List.map_map, List.map_map]
    apply List.map_congr_left
    intro p hp
    exact ofBytes_encBase p (proofPairs_wf H hlen t b hok p hp)
  simp only [verifyBlockProof, encTrie_ne_nil, if_false, hdec, hmap]

end Verif.Wmpt
