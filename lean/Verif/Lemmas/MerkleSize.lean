import Verif.Model.Merkle
/-! `computeSize` is strictly increasing in the number of leaves, hence injective (used for `SetTree`). -/
namespace Verif.Merkle

/-- the tree size for `m ≠ 1` leaves, as a plain recursion -/
def sz (m : Nat) : Nat := if _h : 1 < m then m + sz ((m + 1) / 2) else 1
termination_by m
decreasing_by omega

theorem sz_big (m : Nat) (h : 1 < m) : sz m = m + sz ((m + 1) / 2) := by
  rw [sz]; simp [h]

theorem sz_small (m : Nat) (h : ¬ 1 < m) : sz m = 1 := by
  rw [sz]; simp [h]

theorem sz_pos (m : Nat) : 1 ≤ sz m := by
  by_cases h : 1 < m
  · rw [sz_big m h]; omega
  · rw [sz_small m h]; omega

theorem sizeLoop_fst (m a b : Nat) : (sizeLoop m a b).1 = a + sz m := by
  induction m, a, b using sizeLoop.induct with
  | case1 ll ts lv h ih => rw [sizeLoop, sz_big ll h]; simp only [h, dite_true]; rw [ih]; omega
  | case2 ll ts lv h => rw [sizeLoop, sz_small ll h]; simp only [h, dite_false]

theorem sz_mono : ∀ (b a : Nat), a ≤ b → sz a ≤ sz b := by
  intro b
  induction b using Nat.strongRecOn with
  | _ b ih =>
    intro a hab
    by_cases ha : 1 < a
    · have hb : 1 < b := by omega
      rw [sz_big a ha, sz_big b hb]
      have := ih ((b + 1) / 2) (by omega) ((a + 1) / 2) (by omega)
      omega
    · rw [sz_small a ha]; exact sz_pos b

theorem sz_strict (a b : Nat) (ha : 1 ≤ a) (hab : a < b) : sz a < sz b := by
  have hb : 1 < b := by omega
  rw [sz_big b hb]
  by_cases h1 : 1 < a
  · rw [sz_big a h1]
    have := sz_mono ((b + 1) / 2) ((a + 1) / 2) (by omega)
    omega
  · rw [sz_small a h1]; omega

theorem computeSize_fst (m : Nat) : (computeSize m).1 = if m = 1 then 2 else sz m := by
  unfold computeSize; split
  · rfl
  · rw [sizeLoop_fst]; omega

theorem computeSize_lt_succ (m : Nat) : (computeSize m).1 < (computeSize (m + 1)).1 := by
  rw [computeSize_fst, computeSize_fst]
  match m with
  | 0 => simp [sz_small 0 (by omega)]
  | 1 => simp [sz_big 2 (by omega), sz_small 1 (by omega)]
  | m + 2 =>
    have h1 : ¬ (m + 2 = 1) := by omega
    have h2 : ¬ (m + 2 + 1 = 1) := by omega
    simp only [h1, h2, if_false]
    exact sz_strict _ _ (by omega) (by omega)

theorem computeSize_strictMono : ∀ (b a : Nat), a < b → (computeSize a).1 < (computeSize b).1 := by
  intro b
  induction b with
  | zero => intro a h; omega
  | succ b ih =>
    intro a h
    have := computeSize_lt_succ b
    by_cases e : a = b
    · subst e; exact this
    · have := ih a (by omega); omega

theorem computeSize_injective (a b : Nat) (h : (computeSize a).1 = (computeSize b).1) : a = b := by
  rcases Nat.lt_trichotomy a b with hlt | heq | hgt
  · have := computeSize_strictMono b a hlt; omega
  · exact heq
  · have := computeSize_strictMono a b hgt; omega

end Verif.Merkle
