/-
The representation relation between an implementation-shaped node and the spec tree it stands for, over a storage
(C09 "resolve on demand", C11, C13) or without one (C12, the imported partial trie).

`Rep H P n t`: the node `n` represents the spec tree `t`, where
  * a hash reference `(h, w)` stands for a non-empty subtree `t'` with `h = hash t'`, `w = weight t'` and `P t'`
    (`P := StoredAll H s`: every node of `t'` is in the storage `s`; `P := fun _ => True`: nothing is known, the partial
    trie of C12), and — the embedded-short-node rule — a reference that is the child of a branch never stands for a
    short node;
  * a node that is not dirty carries its true hash in the cached field and satisfies `P` for its whole subtree
    (dirty = "not saved yet" since fix 8a63293);
  * a branch's cached weight is the sum of its children's weights.
-/
import Verif.Lemmas.WmptReopen
import Verif.Lemmas.WmptSpecOps
namespace Verif.Wmpt

def PT.isShort : PT → Bool
  | .short _ _ => true
  | _ => false

inductive Rep (H : Bytes → Bytes) (P : PT → Prop) : WN → PT → Prop
  | nil : Rep H P .nil .none
  | empty : Rep H P .empty .none
  | ref (t : PT) : t.isNone = false → P t → Rep H P (.hashRef (PT.hash H t) t.weight) t
  | value (h v : Bytes) (w : Nat) (d : Bool) :
      (d = false → h = PT.hash H (.value v w) ∧ P (.value v w)) → Rep H P (.value h v w d) (.value v w)
  | short (k h : Bytes) (c : WN) (d tc : Bool) (tc' : PT) :
      Rep H P c tc' →
      (d = false → h = PT.hash H (.short k tc') ∧ P (.short k tc')) → Rep H P (.short k h c d tc) (.short k tc')
  | routing (h : Bytes) (ch : Nib → WN) (w : Nat) (d tc : Bool) (f : Nib → PT) :
      (∀ i, Rep H P (ch i) (f i)) →
      (∀ i hh ww, ch i = .hashRef hh ww → (f i).isShort = false) →
      w = (PT.branch f).weight →
      (d = false → h = PT.hash H (.branch f) ∧ P (.branch f)) → Rep H P (.routing h ch w d tc) (.branch f)

/-- the storage instance -/
abbrev RepS (H : Bytes → Bytes) (s : Store) : WN → PT → Prop := Rep H (StoredAll H s)

/-- the storage-less instance (imported partial trie) -/
abbrev RepP (H : Bytes → Bytes) : WN → PT → Prop := Rep H (fun _ => True)

theorem Rep.weight {H : Bytes → Bytes} {P : PT → Prop} {n : WN} {t : PT} (h : Rep H P n t) : n.weight = t.weight := by
  induction h with
  | nil => rfl
  | empty => rfl
  | ref t _ _ => rfl
  | value h v w d _ => rfl
  | short k h c d tc tc' _ _ ih => simpa [WN.weight, PT.weight] using ih
  | routing h ch w d tc f _ _ hw _ _ => simpa [WN.weight] using hw

theorem Rep.isNil_iff {H : Bytes → Bytes} {P : PT → Prop} {n : WN} {t : PT} (h : Rep H P n t) (hne : n ≠ .empty) :
    n.isNil = t.isNone := by
  cases h <;> simp_all [WN.isNil, PT.isNone]

end Verif.Wmpt
