/-
Histories with checkpoints (Verif.Model.WmptProtocol): `SaveRoot` / `Rollback` in any number, mixed with Update /
Delete / Root / Commit / DeleteNodes, under the protocol automaton `pctl`.

  1. what the operations leave alone (`created`, `oldRoot`, ...);
  2. the invariant `PInv` (the GC invariant `GInv` + what the protocol mode guarantees about the checkpoint);
  3. `pinv_step`, one lemma per operation;
  4. `pinv_run`, the fold;
  5. consequences: `protocol_stored`, `protocol_recoverable`, `protocol_answers_are_spec`,
     `protocol_rollback_restores`, `protocol_checkpoint_stored`.
Core Lean only.
-/
import Verif.Model.WmptProtocol
import Verif.Lemmas.WmptGcInv
import Verif.Lemmas.WmptCopyRoot
import Verif.Lemmas.WmptReload
namespace Verif.Wmpt
open RepOps RepMore

section
variable {H : Bytes → Bytes}

/-! ### 1. what the operations leave alone -/

theorem proto_update_frame (t : WT) (key : List Nib) (v : Bytes) (w : Nat) :
    (update H t key v w).1.store = t.store ∧ (update H t key v w).1.created = t.created ∧
    (update H t key v w).1.oldRoot = t.oldRoot ∧ (update H t key v w).1.deleted = t.deleted := by
  unfold update
  split
  · exact ⟨rfl, rfl, rfl, rfl⟩
  · split
    · simp only
      split <;> exact ⟨rfl, rfl, rfl, rfl⟩
    · simp only
      split <;> exact ⟨rfl, rfl, rfl, rfl⟩

theorem proto_deleteKey_frame (t : WT) (key : List Nib) :
    (deleteKey H t key).1.store = t.store ∧ (deleteKey H t key).1.created = t.created ∧
    (deleteKey H t key).1.oldRoot = t.oldRoot ∧ (deleteKey H t key).1.deleted = t.deleted := by
  unfold deleteKey
  simp only
  split <;> exact ⟨rfl, rfl, rfl, rfl⟩

theorem proto_rootHash_frame (t : WT) :
    (rootHash H t).1.store = t.store ∧ (rootHash H t).1.created = t.created ∧
    (rootHash H t).1.oldRoot = t.oldRoot ∧ (rootHash H t).1.deleted = t.deleted := by
  unfold rootHash
  split <;> exact ⟨rfl, rfl, rfl, rfl⟩

/-- `created` after `Commit`: freshly listed (dirty root), or the old list or the empty one (clean root) -/
theorem proto_commit_created (t : WT) (lvl : Int) (h : Bytes) (hdb : t.hasDb = true)
    (hc : h ∈ (commit H t lvl).1.created) : t.store.get h = none ∨ h ∈ t.created := by
  by_cases hd : t.root.dirty = true
  · exact .inl (commit_created_fresh H t lvl h hdb hc hd)
  · have hd' : t.root.dirty = false := by simpa using hd
    rw [(commit_clean_eq (H := H) lvl t hd').1] at hc
    simp only at hc
    split at hc
    · exact .inr hc
    · cases hc

theorem proto_dirty_of_dirtyCached : ∀ {n : WN}, dirtyCached n = [] → n.dirty = false := by
  intro n h
  cases n with
  | value hh v w d => cases d <;> simp_all [dirtyCached, WN.dirty]
  | short k hh c d tc => cases d <;> simp_all [dirtyCached, WN.dirty]
  | routing hh ch w d tc => cases d <;> simp_all [dirtyCached, WN.dirty]
  | _ => rfl

/-- deleting nothing -/
theorem proto_apply_nil (s : Store) : s.apply (([] : List Bytes).map StoreOp.del) = s := rfl

/-! ### 2. the invariant -/

/-- `ts` = live content, `tc` = content of the last commit, `tsave` = content at the last checkpoint.
    * `clean`: when the automaton says "clean", the root is clean and nothing changed since the last commit;
    * `usave`, `isave`: the checkpoint content is a past live content (its shape; no two of its nodes collide);
    * `ckpt`: while `Rollback` is allowed, the checkpoint is in storage, `created` lists none of its nodes and `oldRoot`
      names it;
    * `armed`: nothing committed since `SaveRoot`;
    * `comm0`: before the first `DeleteNodes` pass after the commit, nothing staged for deletion is a node of the
      checkpoint. -/
structure PInv (H : Bytes → Bytes) (st : HState) (c : PCtl) (ts tc tsave : PT) : Prop where
  ginv : GInv H st ts tc
  clean : c.clean = true → st.t.root.dirty = false ∧ ts = tc
  usave : Uniform 64 tsave
  isave : HashInj H (fun x => PT.Sub x tsave)
  ckpt : c.mode ≠ .idle → StoredAll H st.t.store tsave ∧ (∀ k ∈ st.t.created, k ∉ NL H tsave) ∧
    (tsave ≠ .none → st.t.oldRoot.1 = PT.hash H tsave) ∧ st.t.oldRoot.2 = tsave.weight
  armed : c.mode = .armed → tsave = tc ∧ st.t.created = []
  comm0 : c.mode = .committed false → ∀ k ∈ st.t.deleted, k ∉ NL H tsave

theorem pinv_init : PInv H {} {} .none .none .none where
  ginv := ginv_init
  clean := fun _ => ⟨rfl, rfl⟩
  usave := uniform_none 64
  isave := by
    intro x y hx hy _
    simp only [PT.Sub] at hx hy
    subst hx; subst hy; rfl
  ckpt := fun h => absurd rfl h
  armed := fun h => by cases h
  comm0 := fun h => by cases h

theorem pspecStep_plain (ts tc tsave : PT) (op : HOp) (hpl : op.plainGC) :
    pspecStep (ts, tc, tsave) op = (specStep ts op, committedStep ts tc op, tsave) := by
  cases op <;> first | rfl | exact hpl.elim

/-! ### 3. one step -/

/-- operations that touch neither the storage nor `created` / `oldRoot` / `deleted` nor the committed content -/
theorem pinv_frame {st st' : HState} {c c' : PCtl} {ts ts' tc tsave : PT} (hi : PInv H st c ts tc tsave)
    (hg : GInv H st' ts' tc) (hstore : st'.t.store = st.t.store) (hcr : st'.t.created = st.t.created)
    (hor : st'.t.oldRoot = st.t.oldRoot) (hdel : st'.t.deleted = st.t.deleted)
    (hmode : c'.mode = c.mode ∨ c'.mode = .idle)
    (hclean : c'.clean = true → st'.t.root.dirty = false ∧ ts' = tc) : PInv H st' c' ts' tc tsave where
  ginv := hg
  clean := hclean
  usave := hi.usave
  isave := hi.isave
  ckpt := by
    intro hm
    rcases hmode with e | e
    · rw [hstore, hcr, hor]
      exact hi.ckpt (by rw [← e]; exact hm)
    · exact absurd e hm
  armed := by
    intro hm
    rcases hmode with e | e
    · rw [hcr]
      exact hi.armed (by rw [← e]; exact hm)
    · rw [e] at hm; cases hm
  comm0 := by
    intro hm
    rcases hmode with e | e
    · rw [hdel]
      exact hi.comm0 (by rw [← e]; exact hm)
    · rw [e] at hm; cases hm

theorem pinv_step_upd (hlen : ∀ x, (H x).length = 32) {st : HState} {c : PCtl} {ts tc tsave : PT}
    (key : List Nib) (v : Bytes) (w : Nat)
    (hi : PInv H st c ts tc tsave) (hwf : (HOp.upd key v w).wf) (hok : PTOK ts) (hd : Distinct H ts) :
    PInv H (hstep H st (.upd key v w))
      { clean := false, mode := match c.mode with | .committed _ => .idle | m => m }
      (ts.insert key v w) tc tsave := by
  have hg := ginv_step_other hlen hi.ginv (op := .upd key v w) trivial hwf hok hd (fun _ e => by cases e)
  obtain ⟨f1, f2, f3, f4⟩ := proto_update_frame (H := H) st.t key v w
  refine pinv_frame hi hg f1 f2 f3 f4 ?_ (fun h => by cases h)
  show (match c.mode with | .committed _ => PMode.idle | m => m) = c.mode ∨ _
  cases c.mode <;> simp

theorem pinv_step_del (hlen : ∀ x, (H x).length = 32) {st : HState} {c : PCtl} {ts tc tsave : PT}
    (key : List Nib)
    (hi : PInv H st c ts tc tsave) (hwf : (HOp.del key).wf) (hok : PTOK ts) (hd : Distinct H ts) :
    PInv H (hstep H st (.del key))
      { clean := false, mode := match c.mode with | .committed _ => .idle | m => m }
      (specStep ts (.del key)) tc tsave := by
  have hg := ginv_step_other hlen hi.ginv (op := .del key) trivial hwf hok hd (fun _ e => by cases e)
  obtain ⟨f1, f2, f3, f4⟩ := proto_deleteKey_frame (H := H) st.t key
  refine pinv_frame hi hg f1 f2 f3 f4 ?_ (fun h => by cases h)
  show (match c.mode with | .committed _ => PMode.idle | m => m) = c.mode ∨ _
  cases c.mode <;> simp

theorem pinv_step_root (hlen : ∀ x, (H x).length = 32) {st : HState} {c : PCtl} {ts tc tsave : PT}
    (hi : PInv H st c ts tc tsave) (hok : PTOK ts) (hd : Distinct H ts) :
    PInv H (hstep H st .root) c ts tc tsave := by
  have hg := ginv_step_other hlen hi.ginv (op := .root) trivial trivial hok hd (fun _ e => by cases e)
  obtain ⟨f1, f2, f3, f4⟩ := proto_rootHash_frame (H := H) st.t
  refine pinv_frame hi hg f1 f2 f3 f4 (.inl rfl) (fun h => ?_)
  obtain ⟨h1, h2⟩ := hi.clean h
  refine ⟨?_, h2⟩
  show (rootHash H st.t).1.root.dirty = false
  rw [rootHash_of_clean st.t h1]; exact h1

theorem pinv_step_gc (hlen : ∀ x, (H x).length = 32) {st : HState} {c c' : PCtl} {ts tc tsave : PT}
    (hi : PInv H st c ts tc tsave) (hc : pctl c .gc = some c') (hok : PTOK ts) (hd : Distinct H ts) :
    PInv H (hstep H st .gc) c' ts tc tsave := by
  have hg : GInv H (hstep H st .gc) ts tc :=
    ginv_step_other hlen hi.ginv (op := .gc) trivial trivial hok hd (fun _ e => by cases e)
  simp only [pctl, Option.some.injEq] at hc
  subst hc
  refine { ginv := hg, clean := hi.clean, usave := hi.usave, isave := hi.isave, ckpt := ?_, armed := ?_, comm0 := ?_ }
  · intro hm
    cases hc : c.mode with
    | idle => rw [hc] at hm; exact absurd rfl hm
    | armed =>
      obtain ⟨_, h2, h3, h4⟩ := hi.ckpt (by rw [hc]; intro e; cases e)
      refine ⟨?_, h2, h3, h4⟩
      rw [(hi.armed hc).1]
      exact hg.stored
    | committed g =>
      cases g with
      | true => rw [hc] at hm; exact absurd rfl hm
      | false =>
        obtain ⟨h1, h2, h3, h4⟩ := hi.ckpt (by rw [hc]; intro e; cases e)
        exact ⟨storedAll_deleteNodes st.t h1 (hi.comm0 hc), h2, h3, h4⟩
  · intro hm
    cases hc : c.mode with
    | idle => rw [hc] at hm; cases hm
    | armed => exact hi.armed hc
    | committed g => cases g <;> (rw [hc] at hm; cases hm)
  · intro hm
    cases hc : c.mode with
    | idle => rw [hc] at hm; cases hm
    | armed => rw [hc] at hm; cases hm
    | committed g => cases g <;> (rw [hc] at hm; cases hm)

theorem proto_subClosed_or (a b : PT) : SubClosed (fun x => PT.Sub x a ∨ PT.Sub x b) := by
  intro t x ht hx
  rcases ht with ht | ht
  · exact .inl (hx.trans ht)
  · exact .inr (hx.trans ht)

theorem proto_hashInj_or {a b : PT} (ha : HashInj H (fun x => PT.Sub x a)) (hb : HashInj H (fun x => PT.Sub x b))
    (hab : ∀ x y, PT.Sub x a → PT.Sub y b → PT.hash H x = PT.hash H y → PT.persist H x = PT.persist H y) :
    HashInj H (fun x => PT.Sub x a ∨ PT.Sub x b) := by
  intro x y hx hy e
  rcases hx with hx | hx <;> rcases hy with hy | hy
  · exact ha x y hx hy e
  · exact hab x y hx hy e
  · exact (hab y x hy hx e.symm).symm
  · exact hb x y hx hy e

theorem pinv_step_commit (hlen : ∀ x, (H x).length = 32) {st : HState} {c c' : PCtl} {ts tc tsave : PT} (lvl : Int)
    (hi : PInv H st c ts tc tsave) (hc : pctl c (.commit lvl) = some c') (hd : Distinct H ts)
    (hcol : c.mode = .armed → ∀ x y, PT.Sub x ts → PT.Sub y tsave → PT.hash H x = PT.hash H y →
      PT.persist H x = PT.persist H y) :
    PInv H (hstep H st (.commit lvl)) c' ts ts tsave := by
  have hg : GInv H (hstep H st (.commit lvl)) ts ts := ginv_step_commit hlen lvl hi.ginv hd
  have hrepS : RepS H st.t.store st.t.root ts := repS_of_repSub hi.ginv.rep hi.ginv.stored
  obtain ⟨_, _, r3, _, _⟩ := rep_commit_self hlen lvl st.t (hashInj_of_distinct hd) hrepS hi.ginv.proper
  simp only [pctl, Option.some.injEq] at hc
  subst hc
  refine { ginv := hg, clean := fun _ => ⟨r3, rfl⟩, usave := hi.usave, isave := hi.isave, ckpt := ?_, armed := ?_,
           comm0 := ?_ }
  · intro hm
    cases hc : c.mode with
    | idle => rw [hc] at hm; exact absurd rfl hm
    | committed g => rw [hc] at hm; exact absurd rfl hm
    | armed =>
      obtain ⟨e1, e2⟩ := hi.armed hc
      obtain ⟨_, _, h3, h4⟩ := hi.ckpt (by rw [hc]; intro e; cases e)
      have hst : StoredAll H st.t.store tsave := by rw [e1]; exact hi.ginv.stored
      obtain ⟨_, _, _, _, _, _, hmono⟩ :=
        rep_commit hlen (proto_subClosed_or ts tsave)
          (proto_hashInj_or (hashInj_of_distinct hd) hi.isave (hcol hc)) lvl st.t hrepS hi.ginv.proper (.inl (PT.Sub.refl ts))
      refine ⟨?_, ?_, ?_, ?_⟩
      · show StoredAll H ((commit H st.t lvl).1.store.apply (commit H st.t lvl).2) tsave
        rw [commit_store]
        exact hmono tsave (.inr (PT.Sub.refl tsave)) hst
      · intro k hk hin
        obtain ⟨x, hx, hn, rfl⟩ := mem_NL_iff.mp hin
        rcases proto_commit_created st.t lvl _ hi.ginv.hasDb hk with h | h
        · rw [hst.sub_get hx hn] at h; cases h
        · rw [e2] at h; cases h
      · show tsave ≠ .none → (commit H st.t lvl).1.oldRoot.1 = _
        rw [commit_oldRoot]; exact h3
      · show (commit H st.t lvl).1.oldRoot.2 = _
        rw [commit_oldRoot]; exact h4
  · intro hm
    cases hc : c.mode <;> (rw [hc] at hm; cases hm)
  · intro hm
    cases hc : c.mode with
    | idle => rw [hc] at hm; cases hm
    | committed g => rw [hc] at hm; cases hm
    | armed =>
      obtain ⟨e1, _⟩ := hi.armed hc
      intro k hk
      have hk0 : k ∈ st.t.deleted := commit_deleted_sub H st.t lvl k hk
      have := hi.ginv.queues k (List.mem_append_right _ hk0)
      rw [pad32_eq_self (hi.ginv.lensD k hk0), ← e1] at this
      exact this

/-- `GInv` looks at `hasDb`, `store`, `root` and the three GC queues only -/
theorem ginv_congr {st st' : HState} {ts tc : PT} (hi : GInv H st ts tc) (h1 : st'.t.hasDb = st.t.hasDb)
    (h2 : st'.t.store = st.t.store) (h3 : st'.t.root = st.t.root) (h4 : st'.t.deleted = st.t.deleted)
    (h5 : st'.t.tempDeleted = st.t.tempDeleted) (h6 : st'.t.pending = st.t.pending) : GInv H st' ts tc where
  hasDb := by rw [h1]; exact hi.hasDb
  stored := by rw [h2]; exact hi.stored
  rep := by rw [h3]; exact hi.rep
  notNil := by rw [h3]; exact hi.notNil
  proper := by rw [h3]; exact hi.proper
  upDirty := by rw [h3]; exact hi.upDirty
  noEmp := by rw [h3]; exact hi.noEmp
  uniform := hi.uniform
  uniformC := hi.uniformC
  queues := by rw [h5, h4]; exact hi.queues
  stale := by rw [h6, h3]; exact hi.stale
  lens := by rw [h5, h6, h3]; exact hi.lens
  lensD := by rw [h4]; exact hi.lensD

theorem pinv_step_saveRoot {st : HState} {c c' : PCtl} {ts tc tsave : PT}
    (hi : PInv H st c ts tc tsave) (hc : pctl c .saveRoot = some c') (hd : Distinct H ts) :
    PInv H (hstep H st .saveRoot) c' ts tc ts := by
  have hcl : c.clean = true := by
    cases h : c.clean with
    | true => rfl
    | false => simp [pctl, h] at hc
  simp only [pctl, hcl, if_true, Option.some.injEq] at hc
  subst hc
  obtain ⟨hdirty, e⟩ := hi.clean hcl
  have hg : GInv H (hstep H st .saveRoot) ts tc := ginv_congr hi.ginv rfl rfl rfl rfl rfl rfl
  refine { ginv := hg, clean := fun _ => ⟨hdirty, e⟩, usave := hi.ginv.uniform, isave := hashInj_of_distinct hd,
           ckpt := ?_, armed := ?_,
           comm0 := fun h => by cases h }
  · intro _
    refine ⟨?_, fun k hk => (by cases hk), fun _ => ?_, ?_⟩
    · show StoredAll H st.t.store ts
      rw [e]; exact hi.ginv.stored
    · show st.t.root.hashField H = PT.hash H ts
      exact hi.ginv.rep.hashField_of_clean hdirty hi.ginv.notNil
    · show st.t.root.weight = ts.weight
      exact hi.ginv.rep.weight
  · intro _
    exact ⟨e, rfl⟩

/-- the trie that shows the checkpoint reference over a storage that holds the checkpoint, with empty queues -/
theorem ginv_checkpoint {st : HState} {t0 : PT} (hdb : st.t.hasDb = true) (hs : StoredAll H st.t.store t0)
    (hu : Uniform 64 t0) (hw : t0.weight = 0 → t0 = .none)
    (hroot : st.t.root = if t0.weight = 0 then .empty else .hashRef (PT.hash H t0) t0.weight)
    (h1 : st.t.tempDeleted = []) (h2 : st.t.deleted = []) (h3 : st.t.pending = []) : GInv H st t0 t0 := by
  by_cases h0 : t0.weight = 0
  · have e := hw h0
    subst e
    have hr : st.t.root = .empty := by rw [hroot]; rfl
    exact { hasDb := hdb
            stored := trivial
            rep := by rw [hr]; exact Rep.empty
            notNil := by rw [hr]; rfl
            proper := by rw [hr]; trivial
            upDirty := by rw [hr]; trivial
            noEmp := by rw [hr]; trivial
            uniform := uniform_none 64
            uniformC := uniform_none 64
            queues := by rw [h1, h2]; intro h hm; cases hm
            stale := by rw [h3, hr]; intro h hm; cases hm
            lens := by rw [h1, h3, hr]; intro h hm; cases hm
            lensD := by rw [h2]; intro h hm; cases hm }
  · have hn : t0.isNone = false := PT.isNone_of_weight h0
    have hr : st.t.root = .hashRef (PT.hash H t0) t0.weight := by rw [hroot, if_neg h0]
    exact { hasDb := hdb
            stored := hs
            rep := by rw [hr]; exact Rep.ref t0 hn (PT.Sub.refl t0)
            notNil := by rw [hr]; rfl
            proper := by rw [hr]; trivial
            upDirty := by rw [hr]; trivial
            noEmp := by rw [hr]; trivial
            uniform := hu
            uniformC := hu
            queues := by rw [h1, h2]; intro h hm; cases hm
            stale := by rw [h3, hr]; intro h hm; cases hm
            lens := by rw [h1, h3, hr]; intro h hm; cases hm
            lensD := by rw [h2]; intro h hm; cases hm }

theorem proto_rollback_root (t : WT) (t0 : PT) (h3 : t0 ≠ .none → t.oldRoot.1 = PT.hash H t0)
    (h4 : t.oldRoot.2 = t0.weight) :
    (rollback t).1.root = if t0.weight = 0 then .empty else .hashRef (PT.hash H t0) t0.weight := by
  show (if t.oldRoot.2 > 0 then WN.hashRef t.oldRoot.1 t.oldRoot.2 else WN.empty) = _
  rw [h4]
  by_cases h0 : t0.weight = 0
  · simp [h0]
  · have hne : t0 ≠ .none := reload_weight_none h0
    have hpos : t0.weight > 0 := Nat.pos_of_ne_zero h0
    rw [h3 hne, if_pos hpos, if_neg h0]

theorem pinv_step_rollback {st : HState} {c c' : PCtl} {ts tc tsave : PT}
    (hi : PInv H st c ts tc tsave) (hc : pctl c .rollback = some c') (hw : tsave.weight = 0 → tsave = .none) :
    PInv H (hstep H st .rollback) c' tsave tsave tsave := by
  have hm : c.mode ≠ .idle := by
    intro e
    simp [pctl, e] at hc
  have hc' : c' = { clean := true, mode := .idle } := by
    cases h : c.mode with
    | idle => exact absurd h hm
    | armed => simp [pctl, h] at hc; exact hc.symm
    | committed g => simp [pctl, h] at hc; exact hc.symm
  subst hc'
  obtain ⟨h1, h2, h3, h4⟩ := hi.ckpt hm
  have hroot := proto_rollback_root (H := H) st.t tsave h3 h4
  have hst : StoredAll H (hstep H st .rollback).t.store tsave := by
    show StoredAll H (st.t.store.apply (st.t.created.map StoreOp.del)) tsave
    refine storedAll_apply_dels _ (fun x hx hn hin => ?_) h1
    exact h2 _ hin (mem_NL_iff.mpr ⟨x, hx, hn, rfl⟩)
  have hg : GInv H (hstep H st .rollback) tsave tsave :=
    ginv_checkpoint (st := hstep H st .rollback) hi.ginv.hasDb hst hi.usave hw hroot rfl rfl rfl
  refine { ginv := hg, clean := fun _ => ⟨?_, rfl⟩, usave := hi.usave, isave := hi.isave,
           ckpt := fun h => absurd rfl h,
           armed := fun h => (by cases h), comm0 := fun h => (by cases h) }
  show (rollback st.t).1.root.dirty = false
  rw [hroot]
  split <;> rfl

/-- one step of an accepted history keeps the invariant.
    `hcol`: at a `Commit` in mode `armed` no node of the live content collides with a different node of the
    checkpoint (the commit batch overwrites by key, and a key that is already stored is not listed in `created`);
    `hrb`: a checkpoint of total weight 0 is the empty trie. -/
theorem pinv_step (hlen : ∀ x, (H x).length = 32) {st : HState} {c c' : PCtl} {ts tc tsave : PT} {op : HOp}
    (hi : PInv H st c ts tc tsave) (hc : pctl c op = some c') (hwf : op.wf) (hok : PTOK ts) (hd : Distinct H ts)
    (hcol : ∀ lvl, op = .commit lvl → c.mode = .armed → ∀ x y, PT.Sub x ts → PT.Sub y tsave →
      PT.hash H x = PT.hash H y → PT.persist H x = PT.persist H y)
    (hrb : op = .rollback → tsave.weight = 0 → tsave = .none) :
    PInv H (hstep H st op) c' (pspecStep (ts, tc, tsave) op).1 (pspecStep (ts, tc, tsave) op).2.1
      (pspecStep (ts, tc, tsave) op).2.2 := by
  cases op with
  | upd key v w =>
    simp only [pctl, Option.some.injEq] at hc
    subst hc
    exact pinv_step_upd hlen key v w hi hwf hok hd
  | del key =>
    simp only [pctl, Option.some.injEq] at hc
    subst hc
    exact pinv_step_del hlen key hi hwf hok hd
  | root =>
    simp only [pctl, Option.some.injEq] at hc
    subst hc
    exact pinv_step_root hlen hi hok hd
  | commit lvl => exact pinv_step_commit hlen lvl hi hc hd (hcol lvl rfl)
  | gc => exact pinv_step_gc hlen hi hc hok hd
  | saveRoot => exact pinv_step_saveRoot hi hc hd
  | rollback => exact pinv_step_rollback hi hc (hrb rfl)

/-! ### 4. a whole history -/

theorem pspecRun_snoc (p : List HOp) (op : HOp) : pspecRun (p ++ [op]) = pspecStep (pspecRun p) op := by
  simp [pspecRun, List.foldl_append]

theorem pctlRun_snoc (p : List HOp) (op : HOp) : pctlRun (p ++ [op]) = (pctlRun p).bind (fun c => pctl c op) := by
  simp [pctlRun, List.foldl_append]

theorem pctl_foldl_none (q : List HOp) :
    q.foldl (fun (c : Option PCtl) op => c.bind (fun c => pctl c op)) none = none := by
  induction q with
  | nil => rfl
  | cons op q ih => simpa using ih

/-- a prefix of an accepted history is accepted -/
theorem pctlRun_prefix (p q : List HOp) (h : pctlRun (p ++ q) ≠ none) : pctlRun p ≠ none := by
  intro e
  apply h
  simp only [pctlRun, List.foldl_append] at e ⊢
  rw [e]
  exact pctl_foldl_none q

theorem pinv_run_aux (hlen : ∀ x, (H x).length = 32) (q : List HOp) : ∀ (p : List HOp),
    pctlRun (p ++ q) ≠ none →
    (∀ op ∈ q, op.wf) →
    (∀ q1 q2, q = q1 ++ q2 → PTOK (pspecRun (p ++ q1)).1 ∧ Distinct H (pspecRun (p ++ q1)).1) →
    (∀ q1 lvl q2, q = q1 ++ .commit lvl :: q2 → ∀ c, pctlRun (p ++ q1) = some c → c.mode = .armed →
      ∀ x y, PT.Sub x (pspecRun (p ++ q1)).1 → PT.Sub y (pspecRun (p ++ q1)).2.2 →
        PT.hash H x = PT.hash H y → PT.persist H x = PT.persist H y) →
    (∀ q1 q2, q = q1 ++ .rollback :: q2 →
      (pspecRun (p ++ q1)).2.2.weight = 0 → (pspecRun (p ++ q1)).2.2 = .none) →
    (∃ c, pctlRun p = some c ∧ PInv H (hrun H p) c (pspecRun p).1 (pspecRun p).2.1 (pspecRun p).2.2) →
    ∃ c, pctlRun (p ++ q) = some c ∧
      PInv H (hrun H (p ++ q)) c (pspecRun (p ++ q)).1 (pspecRun (p ++ q)).2.1 (pspecRun (p ++ q)).2.2 := by
  induction q with
  | nil => intro p _ _ _ _ _ hi; simpa using hi
  | cons op q ih =>
    intro p hacc hwf hok hcol hrb ⟨c, hc, hi⟩
    have e : p ++ op :: q = (p ++ [op]) ++ q := by simp
    rw [e] at hacc ⊢
    have hacc1 := pctlRun_prefix _ _ hacc
    rw [pctlRun_snoc, hc] at hacc1
    have hacc2 : pctl c op ≠ none := hacc1
    obtain ⟨c', hc'⟩ : ∃ c', pctl c op = some c' := by
      cases h : pctl c op with
      | none => exact absurd h hacc2
      | some c' => exact ⟨c', rfl⟩
    apply ih (p ++ [op]) hacc
    · exact fun o ho => hwf o (List.mem_cons_of_mem _ ho)
    · intro q1 q2 hq
      have := hok (op :: q1) q2 (by rw [hq]; rfl)
      simpa using this
    · intro q1 lvl q2 hq
      have := hcol (op :: q1) lvl q2 (by rw [hq]; rfl)
      simpa using this
    · intro q1 q2 hq
      have := hrb (op :: q1) q2 (by rw [hq]; rfl)
      simpa using this
    · refine ⟨c', by rw [pctlRun_snoc, hc]; exact hc', ?_⟩
      rw [hrun_snoc, pspecRun_snoc]
      have h0 := hok [] (op :: q) rfl
      simp only [List.append_nil] at h0
      refine pinv_step hlen hi hc' (hwf op List.mem_cons_self) h0.1 h0.2 (fun lvl hop hm => ?_) (fun hop => ?_)
      · have := hcol [] lvl q (by rw [hop]; rfl) c (by simpa using hc) hm
        simp only [List.append_nil] at this
        exact this
      · have := hrb [] q (by rw [hop]; rfl)
        simp only [List.append_nil] at this
        exact this

/-- MAIN: the invariant after a history that the protocol accepts.
    Hypotheses: the automaton accepts the history; 32-byte keys, non-empty values; every intermediate live spec tree
    fits the encodings (`PTOK`) and is `Distinct`; at a `Commit` in mode `armed` (the first one after a `SaveRoot`) no
    node of the live content collides with a different node of the checkpoint; where a `Rollback` happens, a
    checkpoint of total weight 0 is the empty trie; 32-byte hash. -/
theorem pinv_run (hlen : ∀ x, (H x).length = 32) (ops : List HOp)
    (hacc : pctlRun ops ≠ none)
    (hwf : ∀ op ∈ ops, op.wf)
    (hok : ∀ p q, ops = p ++ q → PTOK (pspecRun p).1 ∧ Distinct H (pspecRun p).1)
    (hcol : ∀ p lvl q, ops = p ++ .commit lvl :: q → ∀ c, pctlRun p = some c → c.mode = .armed →
      ∀ x y, PT.Sub x (pspecRun p).1 → PT.Sub y (pspecRun p).2.2 →
        PT.hash H x = PT.hash H y → PT.persist H x = PT.persist H y)
    (hrb : ∀ p q, ops = p ++ .rollback :: q → (pspecRun p).2.2.weight = 0 → (pspecRun p).2.2 = .none) :
    ∃ c, pctlRun ops = some c ∧
      PInv H (hrun H ops) c (pspecRun ops).1 (pspecRun ops).2.1 (pspecRun ops).2.2 := by
  have := pinv_run_aux hlen ops [] (by simpa using hacc) hwf (by simpa using hok) (by simpa using hcol)
    (by simpa using hrb) ⟨{}, rfl, pinv_init⟩
  simpa using this

/-- the GC invariant after an accepted history -/
theorem pinv_run_ginv (hlen : ∀ x, (H x).length = 32) (ops : List HOp)
    (hacc : pctlRun ops ≠ none)
    (hwf : ∀ op ∈ ops, op.wf)
    (hok : ∀ p q, ops = p ++ q → PTOK (pspecRun p).1 ∧ Distinct H (pspecRun p).1)
    (hcol : ∀ p lvl q, ops = p ++ .commit lvl :: q → ∀ c, pctlRun p = some c → c.mode = .armed →
      ∀ x y, PT.Sub x (pspecRun p).1 → PT.Sub y (pspecRun p).2.2 →
        PT.hash H x = PT.hash H y → PT.persist H x = PT.persist H y)
    (hrb : ∀ p q, ops = p ++ .rollback :: q → (pspecRun p).2.2.weight = 0 → (pspecRun p).2.2 = .none) :
    GInv H (hrun H ops) (pspecRun ops).1 (pspecRun ops).2.1 := by
  obtain ⟨_, _, hi⟩ := pinv_run hlen ops hacc hwf hok hcol hrb
  exact hi.ginv

/-- the invariant after every prefix -/
theorem pinv_prefix (hlen : ∀ x, (H x).length = 32) (ops : List HOp)
    (hacc : pctlRun ops ≠ none)
    (hwf : ∀ op ∈ ops, op.wf)
    (hok : ∀ p q, ops = p ++ q → PTOK (pspecRun p).1 ∧ Distinct H (pspecRun p).1)
    (hcol : ∀ p lvl q, ops = p ++ .commit lvl :: q → ∀ c, pctlRun p = some c → c.mode = .armed →
      ∀ x y, PT.Sub x (pspecRun p).1 → PT.Sub y (pspecRun p).2.2 →
        PT.hash H x = PT.hash H y → PT.persist H x = PT.persist H y)
    (hrb : ∀ p q, ops = p ++ .rollback :: q → (pspecRun p).2.2.weight = 0 → (pspecRun p).2.2 = .none)
    (p q : List HOp) (hsplit : ops = p ++ q) :
    ∃ c, pctlRun p = some c ∧ PInv H (hrun H p) c (pspecRun p).1 (pspecRun p).2.1 (pspecRun p).2.2 :=
  pinv_run hlen p (pctlRun_prefix p q (by rw [← hsplit]; exact hacc))
    (fun o ho => hwf o (by rw [hsplit]; exact List.mem_append_left _ ho))
    (fun p1 q1 hq => hok p1 (q1 ++ q) (by rw [hsplit, hq, List.append_assoc]))
    (fun p1 lvl q1 hq => hcol p1 lvl (q1 ++ q) (by rw [hsplit, hq, List.append_assoc]; rfl))
    (fun p1 q1 hq => hrb p1 (q1 ++ q) (by rw [hsplit, hq, List.append_assoc]; rfl))

/-- the checkpoint content is the live content after a prefix of the history (the one that ends before the last
    `SaveRoot`; the empty prefix when there is none) -/
theorem pspecRun_save_prefix_aux (q : List HOp) : ∀ (p : List HOp),
    (∃ p' q', p = p' ++ q' ∧ (pspecRun p).2.2 = (pspecRun p').1) →
    ∃ p' q', p ++ q = p' ++ q' ∧ (pspecRun (p ++ q)).2.2 = (pspecRun p').1 := by
  induction q with
  | nil => intro p h; simpa using h
  | cons op q ih =>
    intro p ⟨p', q', e1, e2⟩
    have e : p ++ op :: q = (p ++ [op]) ++ q := by simp
    rw [e]
    apply ih (p ++ [op])
    by_cases hc : op = .saveRoot
    · subst hc
      exact ⟨p, [.saveRoot], rfl, by rw [pspecRun_snoc]; rfl⟩
    · refine ⟨p', q' ++ [op], by rw [e1, List.append_assoc], ?_⟩
      rw [pspecRun_snoc, ← e2]
      cases op <;> first | rfl | exact absurd rfl hc

theorem pspecRun_save_prefix (ops : List HOp) :
    ∃ p' q', ops = p' ++ q' ∧ (pspecRun ops).2.2 = (pspecRun p').1 := by
  have := pspecRun_save_prefix_aux ops [] ⟨[], [], rfl, rfl⟩
  simpa using this

/-- the collision side condition of `pinv_run` from the collision freedom of everything the history ever held:
    no two different nodes of (possibly different) intermediate live contents have the same hash -/
theorem protocol_hcol_of_global (ops : List HOp)
    (hinj : HashInj H (fun x => ∃ p q, ops = p ++ q ∧ PT.Sub x (pspecRun p).1)) :
    ∀ p lvl q, ops = p ++ .commit lvl :: q → ∀ c, pctlRun p = some c → c.mode = .armed →
      ∀ x y, PT.Sub x (pspecRun p).1 → PT.Sub y (pspecRun p).2.2 →
        PT.hash H x = PT.hash H y → PT.persist H x = PT.persist H y := by
  intro p lvl q hsplit _ _ _ x y hx hy e
  obtain ⟨p', q', e1, e2⟩ := pspecRun_save_prefix p
  rw [e2] at hy
  exact hinj x y ⟨p, _, hsplit, hx⟩ ⟨p', q' ++ .commit lvl :: q, by rw [hsplit, e1, List.append_assoc], hy⟩ e

/-! ### 5. main theorems -/

/-- after ANY accepted history, every node of the last committed trie (after a `Rollback`: of the checkpoint) is in
    storage -/
theorem protocol_stored (hlen : ∀ x, (H x).length = 32) (ops : List HOp)
    (hacc : pctlRun ops ≠ none)
    (hwf : ∀ op ∈ ops, op.wf)
    (hok : ∀ p q, ops = p ++ q → PTOK (pspecRun p).1 ∧ Distinct H (pspecRun p).1)
    (hcol : ∀ p lvl q, ops = p ++ .commit lvl :: q → ∀ c, pctlRun p = some c → c.mode = .armed →
      ∀ x y, PT.Sub x (pspecRun p).1 → PT.Sub y (pspecRun p).2.2 →
        PT.hash H x = PT.hash H y → PT.persist H x = PT.persist H y)
    (hrb : ∀ p q, ops = p ++ .rollback :: q → (pspecRun p).2.2.weight = 0 → (pspecRun p).2.2 = .none) :
    StoredAll H (hrun H ops).t.store (pspecRun ops).2.1 :=
  (pinv_run_ginv hlen ops hacc hwf hok hcol hrb).stored

/-- while `Rollback` is allowed (mode `armed` or `committed _`), every node of the checkpoint is in storage -/
theorem protocol_checkpoint_stored (hlen : ∀ x, (H x).length = 32) (ops : List HOp)
    (hacc : pctlRun ops ≠ none)
    (hwf : ∀ op ∈ ops, op.wf)
    (hok : ∀ p q, ops = p ++ q → PTOK (pspecRun p).1 ∧ Distinct H (pspecRun p).1)
    (hcol : ∀ p lvl q, ops = p ++ .commit lvl :: q → ∀ c, pctlRun p = some c → c.mode = .armed →
      ∀ x y, PT.Sub x (pspecRun p).1 → PT.Sub y (pspecRun p).2.2 →
        PT.hash H x = PT.hash H y → PT.persist H x = PT.persist H y)
    (hrb : ∀ p q, ops = p ++ .rollback :: q → (pspecRun p).2.2.weight = 0 → (pspecRun p).2.2 = .none)
    (c : PCtl) (hc : pctlRun ops = some c) (hm : c.mode ≠ .idle) :
    StoredAll H (hrun H ops).t.store (pspecRun ops).2.2 := by
  obtain ⟨c', hc', hi⟩ := pinv_run hlen ops hacc hwf hok hcol hrb
  rw [hc] at hc'
  cases hc'
  exact (hi.ckpt hm).1

/-- if the history ends with a clean root (after a `Commit` or a `Rollback`), the trie reopened from just
    `(Root(), Weight())` over the same storage is observationally identical to the live trie -/
theorem protocol_recoverable (hlen : ∀ x, (H x).length = 32) (ops : List HOp)
    (hacc : pctlRun ops ≠ none)
    (hwf : ∀ op ∈ ops, op.wf)
    (hok : ∀ p q, ops = p ++ q → PTOK (pspecRun p).1 ∧ Distinct H (pspecRun p).1)
    (hcol : ∀ p lvl q, ops = p ++ .commit lvl :: q → ∀ c, pctlRun p = some c → c.mode = .armed →
      ∀ x y, PT.Sub x (pspecRun p).1 → PT.Sub y (pspecRun p).2.2 →
        PT.hash H x = PT.hash H y → PT.persist H x = PT.persist H y)
    (hrb : ∀ p q, ops = p ++ .rollback :: q → (pspecRun p).2.2.weight = 0 → (pspecRun p).2.2 = .none)
    (hd : (hrun H ops).t.root.dirty = false) :
    sameAnswers H (reopen H (hrun H ops).t) (hrun H ops).t :=
  sameAnswers_of_hinv hlen (pinv_run_ginv hlen ops hacc hwf hok hcol hrb).hinv hd (hok ops [] (by simp)).1

/-- ... and each of the common answers is the spec's -/
theorem protocol_answers_are_spec (hlen : ∀ x, (H x).length = 32) (ops : List HOp)
    (hacc : pctlRun ops ≠ none)
    (hwf : ∀ op ∈ ops, op.wf)
    (hok : ∀ p q, ops = p ++ q → PTOK (pspecRun p).1 ∧ Distinct H (pspecRun p).1)
    (hcol : ∀ p lvl q, ops = p ++ .commit lvl :: q → ∀ c, pctlRun p = some c → c.mode = .armed →
      ∀ x y, PT.Sub x (pspecRun p).1 → PT.Sub y (pspecRun p).2.2 →
        PT.hash H x = PT.hash H y → PT.persist H x = PT.persist H y)
    (hrb : ∀ p q, ops = p ++ .rollback :: q → (pspecRun p).2.2.weight = 0 → (pspecRun p).2.2 = .none)
    (hd : (hrun H ops).t.root.dirty = false) (b : Nat) (hb1 : 1 ≤ b) (hb : b ≤ (pspecRun ops).1.weight) :
    ∃ k v key, ownerSpec (pspecRun ops).1.entries b = some (k, v) ∧ keybytesToHex key = k ∧ key.length = 32 ∧
      (blockProof H (reopen H (hrun H ops).t) b).2 =
        .ok (key, Cbor.encTrie (((pspecRun ops).1.proofPairs H b).map Cbor.encBase)) ∧
      (blockProof H (hrun H ops).t b).2 =
        .ok (key, Cbor.encTrie (((pspecRun ops).1.proofPairs H b).map Cbor.encBase)) ∧
      verifyPairs H (((pspecRun ops).1.proofPairs H b).map PairD.ok) b = .ok ((rootHash H (hrun H ops).t).2, v) :=
  answers_of_hinv hlen (pinv_run_ginv hlen ops hacc hwf hok hcol hrb).hinv hd (hok ops [] (by simp)).1 b hb1 hb

/-- the state right after a `Rollback`: the live content and the committed content are the checkpoint content -/
theorem pspecRun_rollback (p : List HOp) :
    pspecRun (p ++ [.rollback]) = ((pspecRun p).2.2, (pspecRun p).2.2, (pspecRun p).2.2) := by
  rw [pspecRun_snoc]; rfl

/-- ... and the root is a clean reference (or the empty trie) -/
theorem hrun_rollback_clean (p : List HOp) : (hrun H (p ++ [.rollback])).t.root.dirty = false := by
  rw [hrun_snoc]
  show (if (hrun H p).t.oldRoot.2 > 0 then WN.hashRef (hrun H p).t.oldRoot.1 (hrun H p).t.oldRoot.2
    else WN.empty).dirty = false
  split <;> rfl

/-- `Rollback` restores the checkpoint: right after an accepted `Rollback` the live content is the content at the
    last `SaveRoot`, the root is clean, and the trie (and the trie reopened from it) answers every block of the
    checkpoint's total weight like the checkpoint content -/
theorem protocol_rollback_restores (hlen : ∀ x, (H x).length = 32) (p : List HOp)
    (hacc : pctlRun (p ++ [.rollback]) ≠ none)
    (hwf : ∀ op ∈ p ++ [.rollback], op.wf)
    (hok : ∀ p1 q, p ++ [.rollback] = p1 ++ q → PTOK (pspecRun p1).1 ∧ Distinct H (pspecRun p1).1)
    (hcol : ∀ p1 lvl q, p ++ [.rollback] = p1 ++ .commit lvl :: q → ∀ c, pctlRun p1 = some c → c.mode = .armed →
      ∀ x y, PT.Sub x (pspecRun p1).1 → PT.Sub y (pspecRun p1).2.2 →
        PT.hash H x = PT.hash H y → PT.persist H x = PT.persist H y)
    (hrb : ∀ p1 q, p ++ [.rollback] = p1 ++ .rollback :: q →
      (pspecRun p1).2.2.weight = 0 → (pspecRun p1).2.2 = .none) :
    (pspecRun (p ++ [.rollback])).1 = (pspecRun p).2.2 ∧
    (hrun H (p ++ [.rollback])).t.root.dirty = false ∧
    ∀ b, 1 ≤ b → b ≤ (pspecRun p).2.2.weight →
      ∃ k v key, ownerSpec (pspecRun p).2.2.entries b = some (k, v) ∧ keybytesToHex key = k ∧ key.length = 32 ∧
        (blockProof H (reopen H (hrun H (p ++ [.rollback])).t) b).2 =
          .ok (key, Cbor.encTrie (((pspecRun p).2.2.proofPairs H b).map Cbor.encBase)) ∧
        (blockProof H (hrun H (p ++ [.rollback])).t b).2 =
          .ok (key, Cbor.encTrie (((pspecRun p).2.2.proofPairs H b).map Cbor.encBase)) ∧
        verifyPairs H (((pspecRun p).2.2.proofPairs H b).map PairD.ok) b =
          .ok ((rootHash H (hrun H (p ++ [.rollback])).t).2, v) := by
  have e : (pspecRun (p ++ [.rollback])).1 = (pspecRun p).2.2 := by rw [pspecRun_rollback]
  refine ⟨e, hrun_rollback_clean p, fun b hb1 hb => ?_⟩
  have h := protocol_answers_are_spec hlen (p ++ [.rollback]) hacc hwf hok hcol hrb (hrun_rollback_clean p) b hb1
    (by rw [e]; exact hb)
  rw [e] at h
  exact h

end
end Verif.Wmpt
