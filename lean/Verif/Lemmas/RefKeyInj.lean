/-
`KeyInjOn` from primitive assumptions: on a sub-node-closed set `V` of canonical nodes with origins below 2^64, if the
hash has no collision between their hash inputs (`hH`) and no two nodes of different type have the same hash input
(`hsep`: the three confusions of finding C02-type-confusion, which C02's `Unamb` excludes position-locally), then equal
key ⇒ equal (position, subtree) — across positions and across origins.
-/
import Verif.Lemmas.MptEncInj
import Verif.Lemmas.MptChain
namespace Verif.MptStore
open Verif.Mpt

def sameCtor : Node → Node → Prop
  | .empty, .empty => True
  | .leaf .., .leaf .. => True
  | .full .., .full .. => True
  | .ext .., .ext .. => True
  | _, _ => False

theorem segs_inj2 (H : Bytes → Bytes) (ch₁ ch₂ : Nib → Node) (p₁ p₂ : List Nib) :
    ∀ (l : List Nib) (v₁ v₂ : Bytes), segs H ch₁ p₁ l ++ v₁ = segs H ch₂ p₂ l ++ v₂ →
      (∀ i ∈ l, seg H ch₁ p₁ i = seg H ch₂ p₂ i) ∧ v₁ = v₂ := by
  intro l
  induction l with
  | nil => intro v₁ v₂ h; exact ⟨fun i hi => (by cases hi), (by simpa [segs] using h)⟩
  | cons i l ih =>
    intro v₁ v₂ h
    rw [segs_cons, segs_cons, List.append_assoc, List.append_assoc, List.cons_append, List.cons_append] at h
    obtain ⟨e1, e2⟩ := split_sep_unique _ _ _ _ (seg_sepFree H ch₁ p₁ i) (seg_sepFree H ch₂ p₂ i) h
    obtain ⟨e3, e4⟩ := ih v₁ v₂ e2
    refine ⟨fun j hj => ?_, e4⟩
    cases hj with
    | head => exact e1
    | tail _ hj => exact e3 j hj

theorem le64_append_inj {o₁ o₂ : Nat} {x₁ x₂ : Bytes} (h1 : o₁ < 2 ^ 64) (h2 : o₂ < 2 ^ 64)
    (h : le64 o₁ ++ x₁ = le64 o₂ ++ x₂) : o₁ = o₂ ∧ x₁ = x₂ := by
  obtain ⟨e1, e2⟩ := List.append_inj h (by rw [le64_length, le64_length])
  exact ⟨le64_inj h1 h2 e1, e2⟩

theorem exists_child_of_wfn {o : Nat} {ch : Nib → Node} {val : Option Bytes} (h : WFn (.full o ch val)) :
    ∃ i, (ch i).isEmpty = false := by
  cases hf : firstCh ch with
  | some i => exact ⟨i, firstCh_some hf⟩
  | none =>
    have h0 := firstCh_none hf
    have := h.2.2
    simp only [entryCount, h0] at this
    split at this <;> omega

/-- the hypotheses on the set `V` -/
structure KeyHyps (H : Bytes → Bytes) (V : Ref → Prop) : Prop where
  closed : ∀ r, V r → ∀ s ∈ refs r.t r.pos, V s
  wf : ∀ r, V r → WFn r.t
  org : ∀ r, V r → origin r.t < 2 ^ 64
  hne : ∀ x, H x ≠ []
  /-- no hash collision between hash inputs of nodes of `V` -/
  hH : ∀ a b, V a → V b → H (enc H a.t a.pos) = H (enc H b.t b.pos) → enc H a.t a.pos = enc H b.t b.pos
  /-- no type confusion: nodes of different type have different hash inputs -/
  hsep : ∀ a b, V a → V b → enc H a.t a.pos = enc H b.t b.pos → sameCtor a.t b.t

theorem ref_key_inj (H : Bytes → Bytes) (V : Ref → Prop) (hy : KeyHyps H V) :
    ∀ (t₁ : Node) (p₁ : List Nib) (b : Ref), V ⟨p₁, t₁⟩ → V b → key H t₁ p₁ = b.key H → (⟨p₁, t₁⟩ : Ref) = b := by
  intro t₁
  induction t₁ with
  | empty => intro p₁ b ha _ _; exact absurd (hy.wf _ ha) (by simp [WFn])
  | leaf o₁ lp₁ lv₁ =>
    intro p₁ b ha hb hk
    obtain ⟨p₂, t₂⟩ := b
    have hn2 := WFn_ne_empty (hy.wf _ hb)
    simp only [Ref.key] at hk
    rw [key_eq_enc H p₁ (t := .leaf o₁ lp₁ lv₁) rfl, key_eq_enc H p₂ hn2] at hk
    have he := hy.hH _ _ ha hb hk
    have hs := hy.hsep _ _ ha hb he
    cases t₂ with
    | leaf o₂ lp₂ lv₂ =>
      simp only [enc_leaf] at he
      obtain ⟨eo, ex⟩ := le64_append_inj (hy.org _ ha) (hy.org _ hb) he
      obtain ⟨e0, ex'⟩ := split_sep_unique _ _ _ _ (map_nibChar_sepFree p₁) (map_nibChar_sepFree p₂) ex
      obtain ⟨e1, e2⟩ := split_sep_unique _ _ _ _ (map_nibChar_sepFree lp₁) (map_nibChar_sepFree lp₂) ex'
      simp only [origin] at eo
      rw [map_nibChar_inj _ _ e0, map_nibChar_inj _ _ e1, e2, eo]
    | empty => simp [Node.isEmpty] at hn2
    | full o₂ ch₂ val₂ => simp [sameCtor] at hs
    | ext o₂ ep₂ c₂ => simp [sameCtor] at hs
  | full o₁ ch₁ val₁ ih =>
    intro p₁ b ha hb hk
    obtain ⟨p₂, t₂⟩ := b
    have hn2 := WFn_ne_empty (hy.wf _ hb)
    simp only [Ref.key] at hk
    rw [key_eq_enc H p₁ (t := .full o₁ ch₁ val₁) rfl, key_eq_enc H p₂ hn2] at hk
    have he := hy.hH _ _ ha hb hk
    have hs := hy.hsep _ _ ha hb he
    cases t₂ with
    | full o₂ ch₂ val₂ =>
      have hw1 := hy.wf _ ha
      have hw2 := hy.wf _ hb
      simp only [enc_full] at he
      obtain ⟨eo, ex⟩ := le64_append_inj (hy.org _ ha) (hy.org _ hb) he
      simp only [origin] at eo
      obtain ⟨hseg, hval⟩ := segs_inj2 H ch₁ ch₂ p₁ p₂ _ _ _ ex
      have hv : val₁ = val₂ := valBytes_inj hw1.2.1 hw2.2.1 hval
      -- children: pairwise equal as references
      have hchild : ∀ i, ((ch₁ i).isEmpty = true ∧ (ch₂ i).isEmpty = true) ∨
          ((ch₁ i).isEmpty = false ∧ (⟨p₁ ++ [i], ch₁ i⟩ : Ref) = ⟨p₂ ++ [i], ch₂ i⟩) := by
        intro i
        have hsi := hseg i (List.mem_finRange i)
        unfold seg at hsi
        cases h1 : (ch₁ i).isEmpty with
        | true =>
          cases h2 : (ch₂ i).isEmpty with
          | true => exact Or.inl ⟨rfl, rfl⟩
          | false =>
            simp only [h1, h2, if_true] at hsi
            exact absurd (hexBytes_eq_nil hsi.symm) (key_ne_nil hy.hne _ h2)
        | false =>
          cases h2 : (ch₂ i).isEmpty with
          | true =>
            simp only [h1, h2, if_true] at hsi
            exact absurd (hexBytes_eq_nil hsi) (key_ne_nil hy.hne _ h1)
          | false =>
            simp only [h1, h2] at hsi
            have hkk := hexBytes_inj _ _ hsi
            right
            refine ⟨rfl, ih i (p₁ ++ [i]) ⟨p₂ ++ [i], ch₂ i⟩ ?_ ?_ hkk⟩
            · exact hy.closed _ ha _ (by
                simp only [refs, List.mem_cons, List.mem_flatMap, List.mem_finRange, true_and]
                right; refine ⟨i, ?_⟩
                cases hc : ch₁ i with
                | empty => rw [hc] at h1; simp [Node.isEmpty] at h1
                | leaf _ _ _ => simp [refs]
                | full _ _ _ => simp [refs]
                | ext _ _ _ => simp [refs])
            · exact hy.closed _ hb _ (by
                simp only [refs, List.mem_cons, List.mem_flatMap, List.mem_finRange, true_and]
                right; refine ⟨i, ?_⟩
                cases hc : ch₂ i with
                | empty => rw [hc] at h2; simp [Node.isEmpty] at h2
                | leaf _ _ _ => simp [refs]
                | full _ _ _ => simp [refs]
                | ext _ _ _ => simp [refs])
      have hch : ch₁ = ch₂ := by
        funext i
        rcases hchild i with ⟨h1, h2⟩ | ⟨_, h⟩
        · rw [eq_empty_of_isEmpty h1, eq_empty_of_isEmpty h2]
        · exact (Ref.mk.injEq _ _ _ _ ▸ h).2
      have hp : p₁ = p₂ := by
        obtain ⟨i, hi⟩ := exists_child_of_wfn hw1
        rcases hchild i with ⟨h1, _⟩ | ⟨_, h⟩
        · rw [hi] at h1; cases h1
        · have := (Ref.mk.injEq _ _ _ _ ▸ h).1
          exact List.append_cancel_right this
      rw [hp, hch, hv, eo]
    | empty => simp [Node.isEmpty] at hn2
    | leaf o₂ lp₂ lv₂ => simp [sameCtor] at hs
    | ext o₂ ep₂ c₂ => simp [sameCtor] at hs
  | ext o₁ ep₁ c₁ ih =>
    intro p₁ b ha hb hk
    obtain ⟨p₂, t₂⟩ := b
    have hn2 := WFn_ne_empty (hy.wf _ hb)
    simp only [Ref.key] at hk
    rw [key_eq_enc H p₁ (t := .ext o₁ ep₁ c₁) rfl, key_eq_enc H p₂ hn2] at hk
    have he := hy.hH _ _ ha hb hk
    have hs := hy.hsep _ _ ha hb he
    cases t₂ with
    | ext o₂ ep₂ c₂ =>
      simp only [enc_ext] at he
      obtain ⟨eo, ex⟩ := le64_append_inj (hy.org _ ha) (hy.org _ hb) he
      simp only [origin] at eo
      obtain ⟨e1, e2⟩ := split_sep_unique _ _ _ _ (map_nibChar_sepFree ep₁) (map_nibChar_sepFree ep₂) ex
      have hep := map_nibChar_inj _ _ e1
      subst hep
      have hc := ih (p₁ ++ ep₁) ⟨p₂ ++ ep₁, c₂⟩
        (hy.closed _ ha _ (by
          have hne := WFn_ne_empty (hy.wf _ ha).2.2
          simp only [refs, List.mem_cons]
          right
          cases hcc : c₁ with
          | empty => rw [hcc] at hne; simp [Node.isEmpty] at hne
          | leaf _ _ _ => simp [refs]
          | full _ _ _ => simp [refs]
          | ext _ _ _ => simp [refs]))
        (hy.closed _ hb _ (by
          have hne := WFn_ne_empty (hy.wf _ hb).2.2
          simp only [refs, List.mem_cons]
          right
          cases hcc : c₂ with
          | empty => rw [hcc] at hne; simp [Node.isEmpty] at hne
          | leaf _ _ _ => simp [refs]
          | full _ _ _ => simp [refs]
          | ext _ _ _ => simp [refs]))
        e2
      have h1 := (Ref.mk.injEq _ _ _ _ ▸ hc).1
      have h2 := (Ref.mk.injEq _ _ _ _ ▸ hc).2
      rw [List.append_cancel_right h1, h2, eo]
    | empty => simp [Node.isEmpty] at hn2
    | leaf o₂ lp₂ lv₂ => simp [sameCtor] at hs
    | full o₂ ch₂ val₂ => simp [sameCtor] at hs

/-- **`KeyInjOn` from primitive assumptions.** -/
theorem keyInjOn_of_hyps (H : Bytes → Bytes) (V : Ref → Prop) (hy : KeyHyps H V) : KeyInjOn H V := by
  intro a b ha hb hk
  obtain ⟨p, t⟩ := a
  exact ref_key_inj H V hy t p b ha hb hk

end Verif.MptStore
