import Verif.Model.RingHeap
import Verif.Lemmas.Ring
/-! Lemmas for C20 on the heap refinement: at HEAD the heap is append-only, so pointers handed out keep their entry. -/
namespace Verif.Ring

variable {ε : Type}

/-- every reference stored in the ring points into the heap -/
def ValidH (s : HState ε) : Prop := ∀ a, some a ∈ s.ring.slots → a < s.heap.length

theorem validH_init (cap : Nat) : ValidH (initH cap : HState ε) := by
  intro a h
  simp [initH, init] at h

theorem slots_derive (r : State Nat) (c : Nat) : (derive r c).slots = r.slots := by
  unfold derive; split <;> rfl

theorem heap_step (s : HState ε) (op : Op ε) : ∃ extra, (stepH s op).heap = s.heap ++ extra := by
  cases op with
  | write c e =>
    simp only [stepH, writeH]
    split
    · exact ⟨[e], rfl⟩
    · exact ⟨[], by simp⟩
  | derive c => exact ⟨[], by simp [stepH]⟩

theorem heap_run (h : List (Op ε)) : ∀ s : HState ε, ∃ extra, (runH s h).heap = s.heap ++ extra := by
  induction h with
  | nil => intro s; exact ⟨[], by simp [runH]⟩
  | cons op h ih =>
    intro s
    obtain ⟨e1, h1⟩ := heap_step s op
    obtain ⟨e2, h2⟩ := ih (stepH s op)
    refine ⟨e1 ++ e2, ?_⟩
    simp only [runH, List.foldl_cons] at h2 ⊢
    rw [h2, h1, List.append_assoc]

theorem validH_step (s : HState ε) (op : Op ε) (hv : ValidH s) : ValidH (stepH s op) := by
  cases op with
  | write c e =>
    simp only [stepH, writeH]
    cases hk : s.ring.cores[c]? with
    | none => exact hv
    | some k =>
      intro a ha
      simp only [write, hk] at ha
      simp only [List.length_append, List.length_singleton]
      rcases List.mem_or_eq_of_mem_set ha with h | h
      · have := hv a h; omega
      · cases h; omega
  | derive c =>
    intro a ha
    simp only [stepH, slots_derive] at ha
    exact hv a ha

theorem validH_run (h : List (Op ε)) : ∀ s : HState ε, ValidH s → ValidH (runH s h) := by
  induction h with
  | nil => intro s hv; exact hv
  | cons op h ih => intro s hv; exact ih _ (validH_step s op hv)

theorem mem_getLogs (r : State Nat) (a : Nat) (h : a ∈ getLogs r) : some a ∈ r.slots := by
  simp only [getLogs, visit, List.mem_reverse, List.mem_filterMap, id] at h
  obtain ⟨x, hx, rfl⟩ := h
  rcases List.mem_append.mp hx with h1 | h1
  · exact List.mem_of_mem_drop h1
  · exact List.mem_of_mem_take h1

theorem filterMap_congr_mem {β γ : Type} (f g : β → Option γ) : ∀ (l : List β), (∀ a ∈ l, f a = g a) →
    l.filterMap f = l.filterMap g
  | [], _ => rfl
  | a :: l, h => by
    simp only [List.filterMap_cons, h a (by simp)]
    rw [filterMap_congr_mem f g l (fun b hb => h b (by simp [hb]))]

/-- **Snapshots are immutable at HEAD**: the pointers returned by `GetLogs` read the same entries after any later
history of writes and derivations. -/
theorem deref_stable (s : HState ε) (hv : ValidH s) (h : List (Op ε)) :
    deref (runH s h) (getLogsH s) = deref s (getLogsH s) ∧ (deref s (getLogsH s)).length = (getLogsH s).length := by
  obtain ⟨extra, he⟩ := heap_run h s
  have hval : ∀ a ∈ getLogsH s, a < s.heap.length := fun a ha => hv a (mem_getLogs s.ring a ha)
  constructor
  · unfold deref
    apply filterMap_congr_mem
    intro a ha
    rw [he, List.getElem?_append_left (hval a ha)]
  · unfold deref
    have : ∀ l : List Nat, (∀ a ∈ l, a < s.heap.length) → (l.filterMap (fun a => s.heap[a]?)).length = l.length := by
      intro l
      induction l with
      | nil => intro _; rfl
      | cons a l ih =>
        intro hl
        have ha : a < s.heap.length := hl a (by simp)
        simp only [List.filterMap_cons, List.getElem?_eq_getElem ha, List.length_cons]
        rw [ih (fun b hb => hl b (by simp [hb]))]
    exact this _ hval

/-! ### the heap model refines the value model -/

theorem getLogs_absH (s : HState ε) : getLogs (absH s) = deref s (getLogsH s) := by
  simp only [getLogs, visit, absH, getLogsH, deref]
  rw [← List.map_drop, ← List.map_take, ← List.map_append, List.filterMap_map, List.filterMap_reverse,
    List.filterMap_filterMap]
  congr 2

theorem absH_step (s : HState ε) (op : Op ε) (hv : ValidH s) : absH (stepH s op) = step (absH s) op := by
  cases op with
  | write c e =>
    simp only [stepH, step, writeH, write]
    have hc : (absH s).cores = s.ring.cores := rfl
    rw [hc]
    cases hk : s.ring.cores[c]? with
    | none => rfl
    | some k =>
      simp only [absH, write, hk, List.map_set, List.length_map]
      have hmap : List.map (fun r => r.bind fun a => (s.heap ++ [e])[a]?) s.ring.slots
          = List.map (fun r => r.bind fun a => s.heap[a]?) s.ring.slots := by
        apply List.map_congr_left
        intro r hr
        cases r with
        | none => rfl
        | some a => simp [List.getElem?_append_left (hv a hr)]
      simp [hmap]
  | derive c =>
    simp only [stepH, step, derive]
    have hc : (absH s).cores = s.ring.cores := rfl
    rw [hc]
    cases hk : s.ring.cores[c]? with
    | none => simp [absH, derive, hk]
    | some k => simp [absH, derive, hk]

theorem absH_run (h : List (Op ε)) : ∀ s : HState ε, ValidH s → absH (runH s h) = run (absH s) h := by
  induction h with
  | nil => intro s _; rfl
  | cons op h ih =>
    intro s hv
    simp only [runH, run, List.foldl_cons] at ih ⊢
    rw [ih _ (validH_step s op hv), absH_step s op hv]

theorem absH_init (cap : Nat) : absH (initH cap : HState ε) = init cap := by
  simp [absH, initH, init]

end Verif.Ring
