/-
C11 "the committed trie is recoverable", for histories of Update / Delete / Root / Commit (no garbage-collection passes):
the invariant that a history keeps (`HInv`: the trie in memory represents the spec tree obtained by folding the pure
`PT.insert` / `PT.delete` over the same operations), and the consequence that after a history whose root is clean the
trie reopened from just `(Root(), Weight())` over the same storage answers every block query exactly as the live trie
does: same owner key, same proof bytes, and the proof is the honest proof of the spec tree, which verifies.
Core Lean only.
-/
import Verif.Model.WmptHistory
import Verif.Lemmas.WmptRepMore
namespace Verif.Wmpt

open RepOps RepMore

/-! ### the spec side of a history -/

/-- the operations this file is about -/
def HOp.plain : HOp → Prop
  | .upd _ _ _ => True
  | .del _ => True
  | .root => True
  | .commit _ => True
  | _ => False

/-- well-formed arguments: 32-byte keys (64 nibbles), `Update` with a non-empty value -/
def HOp.wf : HOp → Prop
  | .upd key v _ => key.length = 64 ∧ v ≠ []
  | .del key => key.length = 64
  | _ => True

def specStep (ts : PT) : HOp → PT
  | .upd key v w => ts.insert key v w
  | .del key => match ts.delete key with | some t' => t' | none => ts
  | _ => ts

def specRun (ops : List HOp) : PT := ops.foldl specStep .none

/-- what a history of plain operations keeps -/
structure HInv (H : Bytes → Bytes) (st : HState) (ts : PT) : Prop where
  hasDb : st.t.hasDb = true
  rep : RepS H st.t.store st.t.root ts
  notNil : st.t.root.isNil = false
  proper : Proper st.t.root
  upDirty : UpDirty st.t.root
  noEmp : NoEmp st.t.root
  uniform : Uniform 64 ts

section
variable {H : Bytes → Bytes}

/-! ### small facts -/

theorem normRoot_of_notNil {n : WN} (h : n.isNil = false) : normRoot n = n := by
  simp [normRoot, h]

theorem normRoot_isNil (n : WN) : (normRoot n).isNil = false := by
  cases n <;> rfl

theorem rootHash_root_isNil (t : WT) : (rootHash H t).1.root.isNil = t.root.isNil := by
  unfold rootHash
  split
  · exact calcHash_fst_isNil H t.root
  · rfl

theorem rootHash_store (t : WT) : (rootHash H t).1.store = t.store := by
  unfold rootHash; split <;> rfl

theorem rootHash_hasDb (t : WT) : (rootHash H t).1.hasDb = t.hasDb := by
  unfold rootHash; split <;> rfl

theorem commit_hasDb (t : WT) (lvl : Int) : (commit H t lvl).1.hasDb = t.hasDb := by
  unfold commit
  dsimp only
  split
  · split <;> rfl
  · rfl

theorem commit_store (t : WT) (lvl : Int) : (commit H t lvl).1.store = t.store := by
  unfold commit
  dsimp only
  split
  · split <;> rfl
  · rfl

theorem commit_root_of_clean (t : WT) (lvl : Int) (hd : t.root.dirty = false) : (commit H t lvl).1.root = t.root := by
  simp only [commit, hd, Bool.not_false, if_true]
  split <;> rfl

/-- `Update(key, value ≠ "", _)` never leaves a nil root -/
theorem update_root_isNil (t : WT) (key : List Nib) (value : Bytes) (w : Nat) (hv : value ≠ []) (hp : Proper t.root)
    (hn : t.root.isNil = false) : (update H t key value w).1.root.isNil = false := by
  have := inv_insert nodeInv_proper t.hasDb t.store (.value [] value w true) trivial rfl (by simp) (fuelFor key)
    (normRoot t.root) key ((proper_normRoot _).mpr hp)
  have h2 := this.2.1 (Or.inl (normRoot_isNil _))
  unfold update
  split
  · exact hn
  · dsimp only
    split
    · exact normRoot_isNil _
    · exact h2

/-! ### 1. one step -/

theorem hinv_init : HInv H {} .none where
  hasDb := rfl
  rep := Rep.empty
  notNil := rfl
  proper := trivial
  upDirty := trivial
  noEmp := trivial
  uniform := uniform_none 64

theorem hinv_step (hlen : ∀ x, (H x).length = 32) {st : HState} {ts : PT} {op : HOp} (hi : HInv H st ts)
    (hpl : op.plain) (hwf : op.wf) (hok : PTOK ts)
    (hinj : ∀ lvl, op = .commit lvl → HashInj H (fun x => PT.Sub x ts)) :
    HInv H (hstep H st op) (specStep ts op) := by
  obtain ⟨hdb, hrep, hnn, hp, hud, hne, hu⟩ := hi
  have hrepN : RepS H st.t.store (normRoot st.t.root) ts := by rw [normRoot_of_notNil hnn]; exact hrep
  cases op with
  | gc => exact hpl.elim
  | saveRoot => exact hpl.elim
  | rollback => exact hpl.elim
  | upd key v w =>
    obtain ⟨hk, hv⟩ := hwf
    obtain ⟨_, e2, e3, e4, e5, _⟩ := rep_update_insert hlen st.t ts key v w hdb hrepN hne hu hok hk hv
    have hnil := update_root_isNil (H := H) st.t key v w hv hp hnn
    have hg := good_update_insert (H := H) st.t key v w hv ⟨hp, hud⟩
    rw [normRoot_of_notNil hnil] at e4
    exact { hasDb := e3, rep := by simp only [hstep, specStep]; rw [e2]; exact e4, notNil := hnil, proper := hg.1,
            upDirty := hg.2, noEmp := e5, uniform := uniform_insert hu hk v w }
  | del key =>
    have hk : key.length = 64 := hwf
    obtain ⟨e1, e2, e3, e4⟩ := rep_deleteKey hlen st.t ts 64 key hdb hrepN hne hu hok hk
    have hg := good_deleteKey hlen st.t ts 64 key hdb hrepN hne hu hok hk ⟨hp, hud⟩
    rcases e4 with ⟨_, hd, hr⟩ | ⟨ts', hres, hd, hr, _⟩
    · have hs : specStep ts (.del key) = ts := by simp only [specStep, hd]
      rw [hs]
      exact { hasDb := e2, rep := by simp only [hstep]; rw [e1, hr]; exact hrep,
              notNil := by simp only [hstep]; rw [hr]; exact hnn, proper := hg.1, upDirty := hg.2, noEmp := e3,
              uniform := hu }
    · have hs : specStep ts (.del key) = ts' := by simp only [specStep, hd]
      rw [hs]
      have hnil : (deleteKey H st.t key).1.root.isNil = false := by
        revert hres
        unfold deleteKey
        dsimp only
        split
        · intro h; cases h
        · intro _; exact normRoot_isNil _
      rw [normRoot_of_notNil hnil] at hr
      exact { hasDb := e2, rep := by simp only [hstep]; rw [e1]; exact hr, notNil := hnil, proper := hg.1,
              upDirty := hg.2, noEmp := e3, uniform := uniform_delete hu hk hd }
  | root =>
    obtain ⟨r1, _⟩ := rep_rootHash st.t hrep hp hnn
    have hp' := (proper_rootHash (H := H) st.t).mpr hp
    exact { hasDb := by simp only [hstep]; rw [rootHash_hasDb]; exact hdb,
            rep := by simp only [hstep, specStep]; rw [rootHash_store]; exact r1,
            notNil := by simp only [hstep]; rw [rootHash_root_isNil]; exact hnn,
            proper := hp', upDirty := (upDirty_rootHash (H := H) st.t).mpr hud, noEmp := noEmp_of_proper hp',
            uniform := hu }
  | commit lvl =>
    obtain ⟨r1, _, _, r4, _⟩ := rep_commit_self hlen lvl st.t (hinj lvl rfl) hrep hp
    have hud' := (upDirty_commit (H := H) lvl st.t hud).2
    have hnil : (commit H st.t lvl).1.root.isNil = false := by
      by_cases he : st.t.root = .empty
      · have hd : st.t.root.dirty = false := by rw [he]; rfl
        rw [commit_root_of_clean st.t lvl hd]; exact hnn
      · exact (r1.not_nil_empty (hrep.isNone_false hnn he)).1
    exact { hasDb := by simp only [hstep]; rw [commit_hasDb]; exact hdb,
            rep := by simp only [hstep, specStep]; rw [commit_store]; exact r1, notNil := hnil, proper := r4,
            upDirty := hud', noEmp := noEmp_of_proper r4, uniform := hu }

/-! ### 2. a whole history -/

theorem specRun_append (p q : List HOp) : specRun (p ++ q) = q.foldl specStep (specRun p) := by
  simp [specRun, List.foldl_append]

theorem hrun_append (p q : List HOp) : hrun H (p ++ q) = q.foldl (hstep H) (hrun H p) := by
  simp [hrun, List.foldl_append]

theorem hinv_run_aux (hlen : ∀ x, (H x).length = 32) (q : List HOp) : ∀ (p : List HOp),
    (∀ op ∈ q, op.plain ∧ op.wf) →
    (∀ q1 q2, q = q1 ++ q2 → PTOK (specRun (p ++ q1))) →
    (∀ q1 lvl q2, q = q1 ++ .commit lvl :: q2 → HashInj H (fun x => PT.Sub x (specRun (p ++ q1)))) →
    HInv H (hrun H p) (specRun p) → HInv H (hrun H (p ++ q)) (specRun (p ++ q)) := by
  induction q with
  | nil => intro p _ _ _ hi; simpa using hi
  | cons op q ih =>
    intro p hall hok hinj hi
    have e : p ++ op :: q = (p ++ [op]) ++ q := by simp
    rw [e]
    apply ih (p ++ [op])
    · exact fun o ho => hall o (List.mem_cons_of_mem _ ho)
    · intro q1 q2 hq
      have := hok (op :: q1) q2 (by rw [hq]; rfl)
      simpa using this
    · intro q1 lvl q2 hq
      have := hinj (op :: q1) lvl q2 (by rw [hq]; rfl)
      simpa using this
    · have h1 : hrun H (p ++ [op]) = hstep H (hrun H p) op := by rw [hrun_append]; rfl
      have h2 : specRun (p ++ [op]) = specStep (specRun p) op := by rw [specRun_append]; rfl
      rw [h1, h2]
      have hok0 : PTOK (specRun p) := by simpa using hok [] (op :: q) rfl
      refine hinv_step hlen hi (hall op List.mem_cons_self).1 (hall op List.mem_cons_self).2 hok0 ?_
      intro lvl hop
      have := hinj [] lvl q (by rw [hop]; rfl)
      simpa using this

theorem hinv_run (hlen : ∀ x, (H x).length = 32) (ops : List HOp)
    (hall : ∀ op ∈ ops, op.plain ∧ op.wf)
    (hok : ∀ p q, ops = p ++ q → PTOK (specRun p))
    (hinj : ∀ p lvl q, ops = p ++ .commit lvl :: q → HashInj H (fun x => PT.Sub x (specRun p))) :
    HInv H (hrun H ops) (specRun ops) := by
  have := hinv_run_aux hlen ops [] hall (by simpa using hok) (by simpa using hinj) hinv_init
  simpa using this

/-! ### 3. the committed trie is recoverable -/

/-- `RepMore.blockProof_rep` with the key bytes named as the value of the function `hexToKeybytes` (so that two tries
    representing the same spec tree return the same key bytes) -/
theorem blockProof_rep' (hlen : ∀ x, (H x).length = 32) (t : WT) (tspec : PT) (m b : Nat)
    (hdb : t.hasDb = true) (hrep : RepS H t.store t.root tspec) (hp : Proper t.root) (hud : UpDirty t.root)
    (hu : Uniform m tspec) (hm : m % 2 = 0) (hm2 : m ≤ 99) (hok : PTOK tspec) (hb1 : 1 ≤ b) (hb : b ≤ tspec.weight) :
    ∃ k v key, tspec.owner b = some (k, v) ∧ hexToKeybytes k = .ok key ∧ keybytesToHex key = k ∧ 2 * key.length = m ∧
      (blockProof H t b).2 = .ok (key, Cbor.encTrie ((tspec.proofPairs H b).map Cbor.encBase)) := by
  have hd := depth_le_of_uniform hu
  obtain ⟨k, v, ho, hg⟩ := gbp_rep hlen t.store tspec t.root b 200 [] hrep hp hud hok.1 hok.2 hb1 hb (by omega)
  obtain ⟨hkl, hkn⟩ := owner_key hu ho
  obtain ⟨key, hk, hl, hx⟩ := hexToKeybytes_ok k (by rw [hkl]; exact hm) hkn
  refine ⟨k, v, key, ho, hk, hx, by omega, ?_⟩
  have hw : ¬ b > t.root.weight := by rw [hrep.weight]; omega
  simp only [List.nil_append] at hg
  simp only [blockProof, hw, if_false, hdb, hg, hk]

theorem rootHash_of_clean (t : WT) (hd : t.root.dirty = false) : rootHash H t = (t, t.root.hashField H) := by
  simp [rootHash, hd]

theorem reopen_of_clean (t : WT) (hd : t.root.dirty = false) :
    reopen H t =
      { root := if t.root.weight = 0 then .empty else .hashRef (t.root.hashField H) t.root.weight, store := t.store } := by
  simp only [reopen, rootHash_of_clean t hd, WT.weight]

theorem PT.isNone_of_weight {t : PT} (h : t.weight ≠ 0) : t.isNone = false := by
  cases t <;> simp_all [PT.isNone, PT.weight]

/-- the reopened trie `New(NewHashNode(Root(), Weight()), sameStorage)` of a clean, non-empty trie is the reference to
    the spec tree, which is completely stored -/
theorem reopen_rep {st : HState} {ts : PT} (hi : HInv H st ts) (hd : st.t.root.dirty = false) (hw : ts.weight ≠ 0) :
    reopen H st.t = { root := .hashRef (PT.hash H ts) ts.weight, store := st.t.store } ∧
    StoredAll H st.t.store ts ∧
    RepS H st.t.store (.hashRef (PT.hash H ts) ts.weight) ts ∧ (rootHash H st.t).2 = PT.hash H ts := by
  have hn := PT.isNone_of_weight hw
  have hst : StoredAll H st.t.store ts := hi.rep.P_of_clean hd hn
  have hh : st.t.root.hashField H = PT.hash H ts := hi.rep.hashField_of_clean hd hi.notNil
  have hwt : st.t.root.weight = ts.weight := hi.rep.weight
  refine ⟨?_, hst, Rep.ref ts hn hst, ?_⟩
  · rw [reopen_of_clean st.t hd, hh, hwt]
    simp only [hw, if_false]
  · rw [rootHash_of_clean st.t hd]; exact hh

/-- 3/4, for any state satisfying the invariant: with a clean root, the reopened trie and the live trie return, for
    every block of the total weight, the same key and the same proof bytes: the 32 key bytes of the owner of the block
    (by the cumulative-weight definition `ownerSpec` over the entries of the spec tree) and the encoding of the honest
    proof of the spec tree, which verifies against `Root()` and yields the owner's value. -/
theorem answers_of_hinv (hlen : ∀ x, (H x).length = 32) {st : HState} {ts : PT} (hi : HInv H st ts)
    (hd : st.t.root.dirty = false) (hok : PTOK ts) (b : Nat) (hb1 : 1 ≤ b) (hb : b ≤ ts.weight) :
    ∃ k v key, ownerSpec ts.entries b = some (k, v) ∧ keybytesToHex key = k ∧ key.length = 32 ∧
      (blockProof H (reopen H st.t) b).2 = .ok (key, Cbor.encTrie ((ts.proofPairs H b).map Cbor.encBase)) ∧
      (blockProof H st.t b).2 = .ok (key, Cbor.encTrie ((ts.proofPairs H b).map Cbor.encBase)) ∧
      verifyPairs H ((ts.proofPairs H b).map PairD.ok) b = .ok ((rootHash H st.t).2, v) := by
  have hw : ts.weight ≠ 0 := by omega
  obtain ⟨e, hst, hr, hroot⟩ := reopen_rep hi hd hw
  obtain ⟨k, v, key, ho, hk, hx, hl, hbp⟩ :=
    blockProof_rep' hlen st.t ts 64 b hi.hasDb hi.rep hi.proper hi.upDirty hi.uniform (by decide) (by decide) hok hb1 hb
  obtain ⟨k', v', key', ho', hk', _, _, hbp'⟩ :=
    blockProof_rep' hlen (reopen H st.t) ts 64 b (by rw [e]) (by rw [e]; exact hr) (by rw [e]; trivial)
      (by rw [e]; trivial) hi.uniform (by decide) (by decide) hok hb1 hb
  obtain ⟨k'', v'', ho'', _, hv⟩ := reopen_verifies H hlen st.t.store ts b (2 * ts.depth) hst hok.1 hok.2 hb1 hb
    (Nat.le_refl _)
  rw [ho] at ho' ho''
  cases ho'; cases ho''
  rw [hk] at hk'
  cases hk'
  refine ⟨k, v, key, ?_, hx, by omega, hbp', hbp, ?_⟩
  · rw [← owner_eq_ownerSpec ts b hb1 hb]; exact ho
  · rw [hroot]; exact hv

/-- 3, for any state satisfying the invariant -/
theorem sameAnswers_of_hinv (hlen : ∀ x, (H x).length = 32) {st : HState} {ts : PT} (hi : HInv H st ts)
    (hd : st.t.root.dirty = false) (hok : PTOK ts) : sameAnswers H (reopen H st.t) st.t := by
  have hwt : st.t.root.weight = ts.weight := hi.rep.weight
  have hwe : (reopen H st.t).weight = st.t.weight := by
    rw [reopen_of_clean st.t hd]
    simp only [WT.weight]
    split
    · rename_i h; rw [h]; rfl
    · rfl
  refine ⟨hwe, fun blk hblk => ?_⟩
  rw [hwe] at hblk
  have hr := List.mem_range'_1.mp hblk
  have hb : blk ≤ ts.weight := by simp only [WT.weight] at hr; omega
  obtain ⟨_, _, key, _, _, _, h1, h2, _⟩ := answers_of_hinv hlen hi hd hok blk hr.1 hb
  rw [h1, h2]
  exact ⟨rfl, rfl⟩

/-- MAIN (C11): after a history of `Update` / `Delete` / `Root` / `Commit` operations that leaves a clean root (e.g. one
    that ends with a `Commit`), the trie reopened from just `(Root(), Weight())` over the same storage is
    observationally identical to the live trie: same total weight, and for every block the same owner key and the
    same proof bytes, without error.
    Hypotheses: the hash has 32 bytes; 32-byte keys and non-empty values; every intermediate spec tree fits the
    encodings (`PTOK`: total weight below `2 ^ 64`, byte strings within the CBOR bounds); no hash collision among the
    nodes of the tree a `Commit` writes. -/
theorem commit_recoverable (hlen : ∀ x, (H x).length = 32) (ops : List HOp)
    (hall : ∀ op ∈ ops, op.plain ∧ op.wf)
    (hok : ∀ p q, ops = p ++ q → PTOK (specRun p))
    (hinj : ∀ p lvl q, ops = p ++ .commit lvl :: q → HashInj H (fun x => PT.Sub x (specRun p)))
    (hd : (hrun H ops).t.root.dirty = false) (hokf : PTOK (specRun ops)) :
    sameAnswers H (reopen H (hrun H ops).t) (hrun H ops).t :=
  sameAnswers_of_hinv hlen (hinv_run hlen ops hall hok hinj) hd hokf

/-- 4. each of the common answers is the spec's: the total weight is the weight of the spec tree `specRun ops` (the fold
    of the pure `PT.insert` / `PT.delete` over the history), `Root()` is its hash, and for every block
    `1 ≤ b ≤ weight` both tries return the 32 key bytes of the owner of `b` (`ownerSpec` over the entries) with the
    encoded honest proof, which verifies against `Root()` and yields the owner's value. -/
theorem commit_recoverable_spec (hlen : ∀ x, (H x).length = 32) (ops : List HOp)
    (hall : ∀ op ∈ ops, op.plain ∧ op.wf)
    (hok : ∀ p q, ops = p ++ q → PTOK (specRun p))
    (hinj : ∀ p lvl q, ops = p ++ .commit lvl :: q → HashInj H (fun x => PT.Sub x (specRun p)))
    (hd : (hrun H ops).t.root.dirty = false) (hokf : PTOK (specRun ops)) :
    (hrun H ops).t.weight = (specRun ops).weight ∧ (reopen H (hrun H ops).t).weight = (specRun ops).weight ∧
    ((specRun ops).weight ≠ 0 → (rootHash H (hrun H ops).t).2 = PT.hash H (specRun ops)) ∧
    ∀ b, 1 ≤ b → b ≤ (specRun ops).weight →
      ∃ k v key, ownerSpec (specRun ops).entries b = some (k, v) ∧ keybytesToHex key = k ∧ key.length = 32 ∧
        (blockProof H (reopen H (hrun H ops).t) b).2 =
          .ok (key, Cbor.encTrie (((specRun ops).proofPairs H b).map Cbor.encBase)) ∧
        (blockProof H (hrun H ops).t b).2 =
          .ok (key, Cbor.encTrie (((specRun ops).proofPairs H b).map Cbor.encBase)) ∧
        verifyPairs H (((specRun ops).proofPairs H b).map PairD.ok) b = .ok ((rootHash H (hrun H ops).t).2, v) := by
  have hi := hinv_run hlen ops hall hok hinj
  have hw : (hrun H ops).t.weight = (specRun ops).weight := hi.rep.weight
  refine ⟨hw, ?_, fun h => (reopen_rep hi hd h).2.2.2, fun b hb1 hb => answers_of_hinv hlen hi hd hokf b hb1 hb⟩
  rw [(sameAnswers_of_hinv hlen hi hd hokf).1, hw]

end
end Verif.Wmpt
