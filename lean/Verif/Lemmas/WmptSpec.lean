/- Helper lemmas about the weighted-trie spec tree (entry lists, cumulative ownership). -/
import Verif.Model.WmptSpec
namespace Verif.Wmpt

theorem entriesWeight_nil : entriesWeight [] = 0 := rfl

theorem entriesWeight_cons (e : Entry) (es : List Entry) : entriesWeight (e :: es) = e.2.2 + entriesWeight es := by
  simp [entriesWeight]

theorem entriesWeight_append (a b : List Entry) : entriesWeight (a ++ b) = entriesWeight a + entriesWeight b := by
  simp [entriesWeight]

theorem entriesWeight_prepend (k : Bytes) (es : List Entry) : entriesWeight (es.map (Entry.prepend k)) = entriesWeight es := by
  induction es with
  | nil => rfl
  | cons e tl ih => simp [entriesWeight_cons, Entry.prepend, ih]

theorem entriesWeight_flatMap {α} (l : List α) (f : α → List Entry) :
    entriesWeight (l.flatMap f) = (l.map (fun a => entriesWeight (f a))).sum := by
  induction l with
  | nil => rfl
  | cons a tl ih => simp [List.flatMap_cons, entriesWeight_append, ih]

theorem ownerSpec_append (a c : List Entry) (b : Nat) (hb : 1 ≤ b) :
    ownerSpec (a ++ c) b = if b ≤ entriesWeight a then ownerSpec a b else ownerSpec c (b - entriesWeight a) := by
  induction a generalizing b with
  | nil => simp [ownerSpec, entriesWeight_nil]; omega
  | cons e tl ih =>
    simp only [List.cons_append, ownerSpec, entriesWeight_cons]
    by_cases h : b ≤ e.2.2
    · have : b ≤ e.2.2 + entriesWeight tl := by omega
      simp [h, this]
    · simp only [h, if_false]
      rw [ih (b - e.2.2) (by omega)]
      by_cases h2 : b - e.2.2 ≤ entriesWeight tl
      · have : b ≤ e.2.2 + entriesWeight tl := by omega
        simp [h2, this]
      · have : ¬ b ≤ e.2.2 + entriesWeight tl := by omega
        simp only [h2, this, if_false]
        congr 1; omega

theorem ownerSpec_prepend (k : Bytes) (es : List Entry) (b : Nat) :
    ownerSpec (es.map (Entry.prepend k)) b = (ownerSpec es b).map (fun r => (k ++ r.1, r.2)) := by
  induction es generalizing b with
  | nil => rfl
  | cons e tl ih =>
    simp only [List.map_cons, ownerSpec, Entry.prepend]
    by_cases h : b ≤ e.2.2 <;> simp [h, ih]

theorem ownerSpec_none_of_gt (es : List Entry) (b : Nat) (h : entriesWeight es < b) : ownerSpec es b = none := by
  induction es generalizing b with
  | nil => rfl
  | cons e tl ih =>
    rw [entriesWeight_cons] at h
    have : ¬ b ≤ e.2.2 := by omega
    simp only [ownerSpec, this, if_false]
    exact ih _ (by omega)

theorem weight_eq_entriesWeight (t : PT) : t.weight = entriesWeight t.entries := by
  induction t with
  | none => rfl
  | value v w => simp [PT.weight, PT.entries, entriesWeight]
  | short k c ih => simp [PT.weight, PT.entries, entriesWeight_prepend, ih]
  | branch ch ih =>
    simp only [PT.weight, PT.entries, entriesWeight_flatMap, entriesWeight_prepend]
    congr 1
    exact List.map_congr_left (fun i _ => ih i)

theorem pick_spec (ch : Nib → PT) (ih : ∀ i b, 1 ≤ b → b ≤ (ch i).weight → (ch i).owner b = ownerSpec (ch i).entries b)
    (is : List Nib) (b : Nat) (hb : 1 ≤ b) :
    ownerSpec (is.flatMap (fun i => ((ch i).entries).map (Entry.prepend [nb i]))) b =
      match PT.pick ch is b with
      | none => none
      | some (i, b') => ((ch i).owner b').map (fun r => (nb i :: r.1, r.2)) := by
  induction is generalizing b with
  | nil => simp [PT.pick, ownerSpec]
  | cons i tl ihl =>
    simp only [List.flatMap_cons]
    rw [ownerSpec_append _ _ _ hb, entriesWeight_prepend, ← weight_eq_entriesWeight]
    unfold PT.pick
    by_cases hn : (ch i).isNone
    · -- an absent child has no entries and weight 0
      have hw : (ch i).weight = 0 := by
        cases h : ch i <;> simp_all [PT.isNone, PT.weight]
      have : ¬ b ≤ 0 := by omega
      simp only [hn, if_true, hw, this, if_false, Nat.sub_zero]
      exact ihl b hb
    · simp only [hn]
      by_cases hle : b ≤ (ch i).weight
      · simp only [hle, if_true]
        rw [ownerSpec_prepend]
        simp [ih i b hb hle]
      · simp only [hle, if_false]
        exact ihl _ (by omega)

theorem owner_eq_ownerSpec (t : PT) (b : Nat) (hb : 1 ≤ b) (hw : b ≤ t.weight) : t.owner b = ownerSpec t.entries b := by
  induction t generalizing b with
  | none => simp [PT.weight] at hw; omega
  | value v w =>
    simp only [PT.weight] at hw
    simp [PT.owner, PT.entries, ownerSpec, hw]
  | short k c ih =>
    simp only [PT.weight] at hw
    have : ¬ b > c.weight := by omega
    simp only [PT.owner, PT.entries, this, if_false, ownerSpec_prepend, ih b hb hw]
  | branch ch ih =>
    simp only [PT.owner, PT.entries]
    rw [pick_spec ch ih allNib b hb]
    cases PT.pick ch allNib b with
    | none => rfl
    | some r => rfl


end Verif.Wmpt
