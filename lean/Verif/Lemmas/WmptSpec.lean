/- Helper lemmas about the weighted-trie spec tree (entry lists, cumulative ownership). -/
import Verif.Model.WmptSpec
namespace Verif.Wmpt

theorem entriesWeight_nil : entriesWeight [] = 0 := rfl

theorem entriesWeight_cons (e : Entry) (es : List Entry) : entriesWeight (e :: es) = e.2.2 + entriesWeight es := by
  simp [entriesWeight]

theorem entriesWeight_append (a b : List Entry) : entriesWeight (a ++ b) = entriesWeight a + entriesWeight b := by
  simp [entriesWeight]

theorem entriesWeight_prepend (k : Bytes) (es : List Entry) : entriesWeight (es.map (Entry.prepend k)) = entriesWeight es := by
  induction es with
  | nil => rfl
  | cons e tl ih => simp [entriesWeight_cons, Entry.prepend, ih]

theorem entriesWeight_flatMap {α} (l : List α) (f : α → List Entry) :
    entriesWeight (l.flatMap f) = (l.map (fun a => entriesWeight (f a))).sum := by
  induction l with
  | nil => rfl
  | cons a tl ih => simp [List.flatMap_cons, entriesWeight_append, ih]

theorem ownerSpec_append (a c : List Entry) (b : Nat) (hb : 1 ≤ b) :
    ownerSpec (a ++ c) b = if b ≤ entriesWeight a then ownerSpec a b else ownerSpec c (b - entriesWeight a) := by
  induction a generalizing b with
  | nil => simp [ownerSpec, entriesWeight_nil]; omega
  | cons e tl ih =>
    simp only [List.cons_append, ownerSpec, entriesWeight_cons]
    by_cases h : b ≤ e.2.2
    · have : b ≤ e.2.2 + entriesWeight tl := by omega
      simp [h, this]
    · simp only [h, if_false]
      rw [ih (b - e.2.2) (by omega)]
      by_cases h2 : b - e.2.2 ≤ entriesWeight tl
      · have : b ≤ e.2.2 + entriesWeight tl := by omega
        simp [h2, this]
      · have : ¬ b ≤ e.2.2 + entriesWeight tl := by omega
        simp only [h2, this, if_false]
        congr 1; omega

theorem ownerSpec_prepend (k : Bytes) (es : List Entry) (b : Nat) :
    ownerSpec (es.map (Entry.prepend k)) b = (ownerSpec es b).map (fun r => (k ++ r.1, r.2)) := by
  induction es generalizing b with
  | nil => rfl
  | cons e tl ih =>
    simp only [List.map_cons, ownerSpec, Entry.prepend]
    by_cases h : b ≤ e.2.2 <;> simp [h, ih]

theorem ownerSpec_none_of_gt (es : List Entry) (b : Nat) (h : entriesWeight es < b) : ownerSpec es b = none := by
  induction es generalizing b with
  | nil => rfl
  | cons e tl ih =>
    rw [entriesWeight_cons] at h
    have : ¬ b ≤ e.2.2 := by omega
    simp only [ownerSpec, this, if_false]
    exact ih _ (by omega)

end Verif.Wmpt
