/-
Chains of rounds on one trie: origins of the references of a round, and "a node recorded dead stays dead"
at the level of references.  Also: the 8-byte little-endian origin encoding is injective below 2^64.
-/
import Verif.Lemmas.MptRound
namespace Verif.Mpt

theorem le64_inj {n m : Nat} (hn : n < 2 ^ 64) (hm : m < 2 ^ 64) (h : le64 n = le64 m) : n = m := by
  have hb : ∀ a b : Nat, UInt8.ofNat (a % 256) = UInt8.ofNat (b % 256) → a % 256 = b % 256 := by
    intro a b e
    have := congrArg UInt8.toNat e
    simpa [UInt8.toNat_ofNat'] using this
  simp only [le64, List.range, List.range.loop, List.map_cons, List.map_nil, List.cons.injEq, and_true] at h
  obtain ⟨h0, h1, h2, h3, h4, h5, h6, h7⟩ := h
  have e0 := hb _ _ h0
  have e1 := hb _ _ h1
  have e2 := hb _ _ h2
  have e3 := hb _ _ h3
  have e4 := hb _ _ h4
  have e5 := hb _ _ h5
  have e6 := hb _ _ h6
  have e7 := hb _ _ h7
  simp only [Nat.shiftRight_eq_div_pow] at e0 e1 e2 e3 e4 e5 e6 e7
  simp only [Nat.reduceMul, Nat.reducePow, Nat.div_one] at e0 e1 e2 e3 e4 e5 e6 e7 hn hm
  omega

theorem le64_length (n : Nat) : (le64 n).length = 8 := by simp [le64]

end Verif.Mpt

namespace Verif.MptStore
open Verif.Mpt Collector

/-- the NEW references of an event list -/
def newRefs : List Event → List Ref
  | [] => []
  | .put _ n :: es => n :: newRefs es
  | .del _ :: es => newRefs es

theorem newRefs_append (a b : List Event) : newRefs (a ++ b) = newRefs a ++ newRefs b := by
  induction a with
  | nil => rfl
  | cons e a ih => cases e <;> simp [newRefs, ih]

theorem newRefs_origin {v : Nat} {es : List Event} (h : ∀ e ∈ es, NewOrigin v e) : ∀ n ∈ newRefs es, origin n.t = v := by
  induction es with
  | nil => intro n hn; cases hn
  | cons e es ih =>
    intro n hn
    have ih' := ih (fun e' he' => h e' (List.mem_cons_of_mem _ he'))
    cases e with
    | del o => exact ih' n hn
    | put o m =>
      simp only [newRefs, List.mem_cons] at hn
      rcases hn with rfl | hn
      · exact h _ (List.mem_cons_self ..)
      · exact ih' n hn

/-- a reference live after an event list was live before or is a NEW of an event -/
theorem liveRunR_new (es : List Event) : ∀ (L : Ref → Prop) (r : Ref), liveRunR L es r → L r ∨ r ∈ newRefs es := by
  induction es with
  | nil => intro L r h; exact Or.inl h
  | cons e es ih =>
    intro L r h
    rcases ih _ r h with h1 | h1
    · cases e with
      | del o => exact Or.inl h1.1
      | put o n =>
        cases o with
        | none => exact h1.elim (fun e => Or.inr (by simp [newRefs, e])) Or.inl
        | some o => exact h1.elim (fun e => Or.inr (by simp [newRefs, e])) (fun h => Or.inl h.1)
    · right; cases e <;> simp [newRefs, h1]

/-- every OLD reference of a disciplined event list was live before or is a NEW of the list -/
theorem eventRefs_sub_of_disc (es : List Event) : ∀ (L : Ref → Prop), DiscR L es →
    ∀ r ∈ eventRefs es, L r ∨ r ∈ newRefs es := by
  induction es with
  | nil => intro L _ r hr; cases hr
  | cons e es ih =>
    intro L hd r hr
    obtain ⟨hok, hd'⟩ := hd
    have hrest : ∀ r ∈ eventRefs es, L r ∨ r ∈ newRefs (e :: es) := by
      intro r hr
      rcases ih _ hd' r hr with h1 | h1
      · cases e with
        | del o => exact Or.inl h1.1
        | put o n =>
          cases o with
          | none => exact h1.elim (fun e => Or.inr (by simp [newRefs, e])) Or.inl
          | some o => exact h1.elim (fun e => Or.inr (by simp [newRefs, e])) (fun h => Or.inl h.1)
      · right; cases e <;> simp [newRefs, h1]
    cases e with
    | del o =>
      simp only [eventRefs, List.mem_cons] at hr
      rcases hr with rfl | hr
      · exact Or.inl hok
      · exact hrest r hr
    | put o n =>
      cases o with
      | none =>
        simp only [eventRefs, List.mem_cons] at hr
        rcases hr with rfl | hr
        · exact Or.inr (by simp [newRefs])
        · exact hrest r hr
      | some o =>
        simp only [eventRefs, List.mem_cons] at hr
        rcases hr with rfl | rfl | hr
        · exact Or.inl hok
        · exact Or.inr (by simp [newRefs])
        · exact hrest r hr

/-- the NEW references of a round carry the round's version as origin -/
theorem round_new_origin {v : Nat} {t0 t : Node} {es : List Event} (h : RoundEvents v t0 es t) :
    ∀ n ∈ newRefs es, origin n.t = v := by
  induction h with
  | nil t => intro n hn; cases hn
  | ins t p b es t' _ _ ih =>
    intro n hn
    rw [newRefs_append, List.mem_append] at hn
    rcases hn with hn | hn
    · exact newRefs_origin (insertE_new_origin v b t [] p) n hn
    · exact ih n hn
  | del t n' p ev es t' hE _ ih =>
    intro n hn
    rw [newRefs_append, List.mem_append] at hn
    rcases hn with hn | hn
    · have := deleteE_new_origin v t [] p
      rw [hE] at this
      exact newRefs_origin this n hn
    · exact ih n hn
  | delLast t p ev es t' hE _ ih =>
    intro n hn
    rw [newRefs_append, List.mem_append] at hn
    rcases hn with hn | hn
    · have := deleteE_new_origin v t [] p
      rw [hE] at this
      exact newRefs_origin this n hn
    · exact ih n hn

end Verif.MptStore
