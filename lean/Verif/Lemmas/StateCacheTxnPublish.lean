import Verif.Lemmas.StateCacheBasic
/-!
# `TransactionCache.Commit` publishes the transaction's writes into its block cache (C07)
-/
namespace Verif.SC

variable {H K B V : Type} [DecidableEq H] [DecidableEq K]

theorem foldl_setValue_other (l : List (K × Entry V)) (bc : BC K B V) (k : K) (hk : k ∉ l.map Prod.fst) :
    alookup (l.foldl (fun b p => b.setValue p.1 p.2) bc).cache k = alookup bc.cache k := by
  induction l generalizing bc with
  | nil => rfl
  | cons p r ih =>
    simp only [List.map_cons, List.mem_cons, not_or] at hk
    simp only [List.foldl_cons]
    rw [ih _ hk.2]
    unfold BC.setValue
    simp only
    rw [alookup_aset]
    simp [Ne.symm hk.1]

theorem foldl_setValue_hit (l : List (K × Entry V)) (bc : BC K B V) (k : K) (e : Entry V)
    (hnd : (l.map Prod.fst).Nodup) (he : alookup l k = some e) :
    alookup (l.foldl (fun b p => b.setValue p.1 p.2) bc).cache k = some e := by
  induction l generalizing bc with
  | nil => simp [alookup] at he
  | cons p r ih =>
    obtain ⟨a, x⟩ := p
    simp only [List.map_cons, List.nodup_cons] at hnd
    simp only [List.foldl_cons]
    by_cases hak : a = k
    · subst hak
      simp [alookup] at he
      subst he
      rw [foldl_setValue_other r _ a hnd.1]
      unfold BC.setValue
      simp only
      rw [alookup_aset]; simp
    · simp [alookup, hak] at he
      exact ih _ hnd.2 he

theorem foldl_setValue_hash (l : List (K × Entry V)) (bc : BC K B V) :
    (l.foldl (fun b p => b.setValue p.1 p.2) bc).hash = bc.hash ∧
    (l.foldl (fun b p => b.setValue p.1 p.2) bc).prev = bc.prev ∧
    (l.foldl (fun b p => b.setValue p.1 p.2) bc).committed = bc.committed := by
  induction l generalizing bc with
  | nil => exact ⟨rfl, rfl, rfl⟩
  | cons p r ih => simp only [List.foldl_cons]; exact ih _

theorem aerase_keys_nodup (l : List (K × Entry V)) (k : K) (h : (l.map Prod.fst).Nodup) :
    ((aerase l k).map Prod.fst).Nodup ∧ k ∉ (aerase l k).map Prod.fst := by
  induction l with
  | nil => simp [aerase]
  | cons p r ih =>
    obtain ⟨a, x⟩ := p
    simp only [List.map_cons, List.nodup_cons] at h
    obtain ⟨ih1, ih2⟩ := ih h.2
    unfold aerase at ih1 ih2 ⊢
    by_cases hak : a = k
    · subst hak
      have hf : List.filter (fun p : K × Entry V => decide (p.1 ≠ a)) ((a, x) :: r)
          = List.filter (fun p : K × Entry V => decide (p.1 ≠ a)) r := by simp [List.filter]
      rw [hf]; exact ⟨ih1, ih2⟩
    · have hf : List.filter (fun p : K × Entry V => decide (p.1 ≠ k)) ((a, x) :: r)
          = (a, x) :: List.filter (fun p : K × Entry V => decide (p.1 ≠ k)) r := by simp [List.filter, hak]
      rw [hf]
      simp only [List.map_cons, List.nodup_cons, List.mem_cons, not_or]
      refine ⟨⟨fun hm => h.1 ?_, ih1⟩, Ne.symm hak, ih2⟩
      obtain ⟨q, hq, hqa⟩ := List.mem_map.mp hm
      exact List.mem_map.mpr ⟨q, (List.mem_filter.mp hq).1, hqa⟩

theorem aset_keys_nodup (l : List (K × Entry V)) (k : K) (e : Entry V) (h : (l.map Prod.fst).Nodup) :
    ((aset l k e).map Prod.fst).Nodup := by
  unfold aset
  simp only [List.map_cons, List.nodup_cons]
  exact ⟨(aerase_keys_nodup l k h).2, (aerase_keys_nodup l k h).1⟩

end Verif.SC

namespace Verif.SC
variable {H K B V : Type} [DecidableEq H] [DecidableEq K] [DecidableEq B]

/-- every transaction cache's pending map has each key once (they are only ever changed by `aset` or reset) -/
def TcsNodup (s : Sys H K B V) : Prop := ∀ t tc, alookup s.tcs t = some tc → (tc.cache.map Prod.fst).Nodup

theorem TcsNodup.aset {s : Sys H K B V} (h : TcsNodup s) (t : H) (tc : TC H K B V)
    (hn : (tc.cache.map Prod.fst).Nodup) (s' : Sys H K B V) (hs : s'.tcs = Verif.SC.aset s.tcs t tc) : TcsNodup s' := by
  intro t' tc' ht'
  rw [hs, alookup_aset] at ht'
  by_cases htt : t = t'
  · simp [htt] at ht'; subst ht'; exact hn
  · simp [htt] at ht'; exact h t' tc' ht'

theorem Sys.step_tcsNodup (s : Sys H K B V) (op : Op H K B V) (h : TcsNodup s) : TcsNodup (s.step op).1 := by
  have keep : ∀ s' : Sys H K B V, s'.tcs = s.tcs → TcsNodup s' := fun s' hs t tc ht => h t tc (by rw [← hs]; exact ht)
  cases op with
  | blk b hash prev => exact keep _ rfl
  | bhash b hash => simp only [Sys.step]; split <;> exact keep _ rfl
  | txn t b => simp only [Sys.step]; split
               · exact h.aset t ⟨.block b, []⟩ (by simp) _ rfl
               · exact keep _ rfl
  | qtxn t b => exact h.aset t ⟨.query b, []⟩ (by simp) _ rfl
  | tset t k v =>
    simp only [Sys.step]; split
    · rename_i tc ht
      exact h.aset t _ (aset_keys_nodup tc.cache k (.val v) (h t tc ht)) _ rfl
    · exact keep _ rfl
  | trem t k =>
    simp only [Sys.step]; split
    · rename_i tc ht
      exact h.aset t _ (aset_keys_nodup tc.cache k .tomb (h t tc ht)) _ rfl
    · exact keep _ rfl
  | tget t k =>
    simp only [Sys.step]
    split
    · split
      · exact keep _ rfl
      · split
        · split
          · exact keep _ rfl
          · exact keep _ rfl
        · exact keep _ rfl
    · exact keep _ rfl
  | tcommit t =>
    simp only [Sys.step]
    split
    · split
      · split
        · exact h.aset t _ (by simp) _ rfl
        · exact keep _ rfl
      · split <;> exact keep _ rfl
    · exact keep _ rfl
  | bset b k v => simp only [Sys.step]; split <;> exact keep _ rfl
  | bget b k => simp only [Sys.step]; split <;> exact keep _ rfl
  | bcommit b => simp only [Sys.step]; split <;> exact keep _ rfl
  | qget b k => exact keep _ rfl
  | sget k b => exact keep _ rfl
  | srem k => exact keep _ rfl

theorem Sys.run_tcsNodup (s : Sys H K B V) (ops : List (Op H K B V)) (h : TcsNodup s) : TcsNodup (s.run ops).1 := by
  induction ops generalizing s with
  | nil => exact h
  | cons op rest ih => simp only [Sys.run]; exact ih _ (Sys.step_tcsNodup s op h)

end Verif.SC
