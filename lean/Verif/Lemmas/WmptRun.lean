/-
The history theorem of the weighted trie at the level of the spec tree: after any sequence of updates and
deletes (all keys of one length) the entry list of the trie is THE strictly key-sorted list of the live
(key, value, weight) triples of the reference map; total weight and block ownership read off that list.
Core Lean only.
-/
import Verif.Lemmas.WmptSpecOps
namespace Verif.Wmpt

/-! ### the lexicographic strict order on byte strings -/

/-- lexicographic strict order on byte strings (bytes compared as numbers; a proper prefix is smaller) -/
def bytesLt : Bytes → Bytes → Prop
  | [], [] => False
  | [], _ :: _ => True
  | _ :: _, [] => False
  | a :: p, b :: q => a.toNat < b.toNat ∨ (a = b ∧ bytesLt p q)

theorem bytesLt_irrefl (a : Bytes) : ¬ bytesLt a a := by
  induction a with
  | nil => simp [bytesLt]
  | cons x xs ih => simp [bytesLt, ih]

theorem bytesLt_trans {a b c : Bytes} : bytesLt a b → bytesLt b c → bytesLt a c := by
  induction a generalizing b c with
  | nil => cases b <;> cases c <;> simp [bytesLt]
  | cons x xs ih =>
    cases b with
    | nil => simp [bytesLt]
    | cons y ys =>
      cases c with
      | nil => simp [bytesLt]
      | cons z zs =>
        simp only [bytesLt]
        rintro (h1 | ⟨rfl, h1⟩) (h2 | ⟨rfl, h2⟩)
        · left; omega
        · left; exact h1
        · left; exact h2
        · right; exact ⟨rfl, ih h1 h2⟩

theorem bytesLt_asymm {a b : Bytes} (h1 : bytesLt a b) (h2 : bytesLt b a) : False :=
  bytesLt_irrefl a (bytesLt_trans h1 h2)

/-- the order is total: distinct byte strings are comparable -/
theorem bytesLt_total (a b : Bytes) : a = b ∨ bytesLt a b ∨ bytesLt b a := by
  induction a generalizing b with
  | nil => cases b <;> simp [bytesLt]
  | cons x xs ih =>
    cases b with
    | nil => simp [bytesLt]
    | cons y ys =>
      simp only [bytesLt, List.cons.injEq]
      by_cases hxy : x = y
      · subst hxy
        rcases ih ys with h | h | h
        · exact .inl ⟨rfl, h⟩
        · exact .inr (.inl (.inr ⟨rfl, h⟩))
        · exact .inr (.inr (.inr ⟨rfl, h⟩))
      · have : x.toNat ≠ y.toNat := fun e => hxy (UInt8.toNat_inj.mp e)
        by_cases hlt : x.toNat < y.toNat
        · exact .inr (.inl (.inl hlt))
        · exact .inr (.inr (.inl (by omega)))

theorem bytesLt_append_left (k a b : Bytes) : bytesLt (k ++ a) (k ++ b) ↔ bytesLt a b := by
  induction k with
  | nil => simp
  | cons x xs ih => simp [bytesLt, ih]

theorem bytesLt_cons_of_lt {x y : UInt8} (h : x.toNat < y.toNat) (a b : Bytes) : bytesLt (x :: a) (y :: b) := by
  simp [bytesLt, h]

/-! ### GOAL 1: the entry list is strictly sorted by key -/

theorem sorted_keys_prepend (sk : Bytes) (es : List Entry) (h : (es.map (·.1)).Pairwise bytesLt) :
    ((es.map (Entry.prepend sk)).map (·.1)).Pairwise bytesLt := by
  rw [keys_prepend]
  exact List.Pairwise.map _ (fun a b hab => (bytesLt_append_left sk a b).mpr hab) h

theorem finRange_pairwise_lt (n : Nat) : (List.finRange n).Pairwise (· < ·) := by
  rw [List.pairwise_iff_getElem]
  intro i j hi hj hij
  simp only [List.getElem_finRange, Fin.lt_def]
  simpa using hij

/-- the entries of any spec tree come out in strictly increasing key order -/
theorem entries_sorted_any (t : PT) : (t.entries.map (·.1)).Pairwise bytesLt := by
  induction t with
  | none => simp [PT.entries]
  | value vv vw => simp [PT.entries]
  | short sk c ih => exact sorted_keys_prepend sk _ ih
  | branch ch ih =>
    simp only [PT.entries, List.map_flatMap]
    rw [List.pairwise_flatMap]
    refine ⟨fun i _ => sorted_keys_prepend [nb i] _ (ih i), ?_⟩
    refine (finRange_pairwise_lt 16).imp ?_
    intro i j hij x hx y hy
    rw [keys_prepend] at hx hy
    obtain ⟨x', _, rfl⟩ := List.mem_map.mp hx
    obtain ⟨y', _, rfl⟩ := List.mem_map.mp hy
    simp only [List.cons_append, List.nil_append]
    exact bytesLt_cons_of_lt (by rw [nb_toNat, nb_toNat]; exact hij) _ _

/-- GOAL 1 -/
theorem entries_sorted {n : Nat} {t : PT} (_hu : Uniform n t) : (t.entries.map (·.1)).Pairwise bytesLt :=
  entries_sorted_any t

/-- all keys of the entry list of a uniform tree have length `n` -/
theorem entries_key_length {n : Nat} {t : PT} (hu : Uniform n t) {e : Entry} (he : e ∈ t.entries) :
    e.1.length = n := by
  obtain ⟨k, v, w⟩ := e
  obtain ⟨key, hk, rfl, _⟩ := (mem_entries_iff hu k v w).mp he
  simpa using hk

/-! ### GOAL 2: runs of operations -/

inductive Op where
  | upd (key : List Nib) (v : Bytes) (w : Nat)
  | del (key : List Nib)

def Op.key : Op → List Nib
  | .upd k _ _ => k
  | .del k => k

/-- one operation on the spec tree; deleting an absent key leaves the trie unchanged -/
def ptStep (t : PT) : Op → PT
  | .upd key v w => t.insert key v w
  | .del key =>
    match t.delete key with
    | some t' => t'
    | none => t

def ptRun (ops : List Op) : PT := ops.foldl ptStep .none

/-- one operation on the reference map: an update binds `key` to `(v, w)`, except that re-writing the value
already bound keeps the stored weight (`PT.insVal`); a delete erases `key` -/
def mapStep (m : List Nib → Option (Bytes × Nat)) : Op → (List Nib → Option (Bytes × Nat))
  | .upd key v w => fun q => if q = key then some (PT.insVal (m key) v w) else m q
  | .del key => fun q => if q = key then none else m q

def mapRun (ops : List Op) : List Nib → Option (Bytes × Nat) := ops.foldl mapStep (fun _ => none)

/-- every key in `ops` has length `n` -/
def OpsOK (n : Nat) (ops : List Op) : Prop := ∀ op ∈ ops, op.key.length = n

theorem lookup_none_of_length {n : Nat} {t : PT} {q : List Nib} (hu : Uniform n t) (hq : q.length ≠ n) :
    t.lookup q = none := by
  cases h : t.lookup q with
  | none => rfl
  | some r => exact absurd (lookup_length hu h) hq

theorem step_inv {n : Nat} {t : PT} {m : List Nib → Option (Bytes × Nat)} {op : Op}
    (hu : Uniform n t) (hl : ∀ q, t.lookup q = m q) (hk : op.key.length = n) :
    Uniform n (ptStep t op) ∧ ∀ q, (ptStep t op).lookup q = mapStep m op q := by
  cases op with
  | upd key v w =>
    simp only [Op.key] at hk
    have hu' : Uniform n (t.insert key v w) := uniform_insert hu hk v w
    refine ⟨hu', fun q => ?_⟩
    simp only [ptStep, mapStep]
    by_cases hq : q.length = n
    · rw [lookup_insert_insVal hu hk hq, hl key, hl q]
    · have hne : q ≠ key := fun e => hq (e ▸ hk)
      rw [lookup_none_of_length hu' hq, if_neg hne, ← hl q, lookup_none_of_length hu hq]
  | del key =>
    simp only [Op.key] at hk
    simp only [ptStep, mapStep]
    cases hd : t.delete key with
    | none =>
      refine ⟨hu, fun q => ?_⟩
      have hn : t.lookup key = none := (delete_none_iff hu hk).mp hd
      by_cases hqk : q = key
      · subst hqk; simp [hn]
      · simp [hqk, hl q]
    | some t' =>
      have hu' : Uniform n t' := uniform_delete hu hk hd
      refine ⟨hu', fun q => ?_⟩
      by_cases hq : q.length = n
      · simp only [lookup_delete hu hk hq hd, hl q]
      · have hne : q ≠ key := fun e => hq (e ▸ hk)
        simp only [if_neg hne]
        rw [lookup_none_of_length hu' hq, ← hl q, lookup_none_of_length hu hq]

theorem fold_inv {n : Nat} (ops : List Op) (hok : OpsOK n ops) (t : PT) (m : List Nib → Option (Bytes × Nat))
    (hu : Uniform n t) (hl : ∀ q, t.lookup q = m q) :
    Uniform n (ops.foldl ptStep t) ∧ ∀ q, (ops.foldl ptStep t).lookup q = ops.foldl mapStep m q := by
  induction ops generalizing t m with
  | nil => exact ⟨hu, hl⟩
  | cons op tl ih =>
    simp only [List.foldl_cons]
    obtain ⟨hu', hl'⟩ := step_inv hu hl (hok op List.mem_cons_self)
    exact ih (fun o ho => hok o (List.mem_cons_of_mem _ ho)) _ _ hu' hl'

section Run
variable {n : Nat} {ops : List Op}

/-- (a) the trie reached by any run is uniform -/
theorem run_uniform (hok : OpsOK n ops) : Uniform n (ptRun ops) :=
  (fold_inv ops hok .none (fun _ => none) (uniform_none n) (fun q => PT.lookup_none q)).1

/-- (b) the trie denotes the reference map (for keys of every length) -/
theorem run_lookup_all (hok : OpsOK n ops) (q : List Nib) : (ptRun ops).lookup q = mapRun ops q :=
  (fold_inv ops hok .none (fun _ => none) (uniform_none n) (fun q => PT.lookup_none q)).2 q

theorem run_lookup (hok : OpsOK n ops) : ∀ q, q.length = n → (ptRun ops).lookup q = mapRun ops q :=
  fun q _ => run_lookup_all hok q

/-- the reference map binds only keys of length `n` -/
theorem mapRun_none_of_length (hok : OpsOK n ops) {q : List Nib} (hq : q.length ≠ n) : mapRun ops q = none := by
  rw [← run_lookup_all hok q]; exact lookup_none_of_length (run_uniform hok) hq

/-- (c) the entry list is exactly the live set of the reference map -/
theorem run_entries (hok : OpsOK n ops) (k v : Bytes) (w : Nat) :
    (k, v, w) ∈ (ptRun ops).entries ↔
      ∃ key : List Nib, key.length = n ∧ k = key.map nb ∧ mapRun ops key = some (v, w) := by
  rw [mem_entries_iff (run_uniform hok)]
  constructor
  · rintro ⟨key, hk, rfl, hl⟩; exact ⟨key, hk, rfl, by rw [← run_lookup_all hok]; exact hl⟩
  · rintro ⟨key, hk, rfl, hl⟩; exact ⟨key, hk, rfl, by rw [run_lookup_all hok]; exact hl⟩

/-- the entry list is strictly sorted by key … -/
theorem run_sorted (ops : List Op) : ((ptRun ops).entries.map (·.1)).Pairwise bytesLt :=
  entries_sorted_any _

/-- … in particular without repeated keys -/
theorem run_keys_nodup (ops : List Op) : ((ptRun ops).entries.map (·.1)).Nodup :=
  entries_keys_nodup _

/-- (d) total weight = sum of the live weights -/
theorem run_weight (ops : List Op) : (ptRun ops).weight = entriesWeight (ptRun ops).entries :=
  weight_eq_entriesWeight _

/-- (d) the owner of block `b` = the live key whose cumulative-weight interval (in key order) contains `b` -/
theorem run_owner (ops : List Op) (b : Nat) (hb : 1 ≤ b) (hw : b ≤ (ptRun ops).weight) :
    (ptRun ops).owner b = ownerSpec (ptRun ops).entries b :=
  owner_eq_ownerSpec _ b hb hw

end Run

/-! ### (e) history independence of the content -/

/-- two lists strictly sorted by a strict order with the same members are equal -/
theorem pairwise_ext {α : Type} {r : α → α → Prop} (hirr : ∀ a, ¬ r a a) (hasym : ∀ a b, r a b → r b a → False)
    {l₁ l₂ : List α} (h₁ : l₁.Pairwise r) (h₂ : l₂.Pairwise r) (hm : ∀ x, x ∈ l₁ ↔ x ∈ l₂) : l₁ = l₂ := by
  induction l₁ generalizing l₂ with
  | nil =>
    cases l₂ with
    | nil => rfl
    | cons b l₂ => exact absurd ((hm b).mpr List.mem_cons_self) (by simp)
  | cons a l₁ ih =>
    cases l₂ with
    | nil => exact absurd ((hm a).mp List.mem_cons_self) (by simp)
    | cons b l₂ =>
      rw [List.pairwise_cons] at h₁ h₂
      have hab : a = b := by
        rcases List.mem_cons.mp ((hm a).mp List.mem_cons_self) with h | h
        · exact h
        · rcases List.mem_cons.mp ((hm b).mpr List.mem_cons_self) with h' | h'
          · exact h'.symm
          · exact (hasym a b (h₁.1 b h') (h₂.1 a h)).elim
      subst hab
      congr 1
      refine ih h₁.2 h₂.2 (fun x => ⟨fun hx => ?_, fun hx => ?_⟩)
      · rcases List.mem_cons.mp ((hm x).mp (List.mem_cons_of_mem _ hx)) with h | h
        · subst h; exact (hirr _ (h₁.1 _ hx)).elim
        · exact h
      · rcases List.mem_cons.mp ((hm x).mpr (List.mem_cons_of_mem _ hx)) with h | h
        · subst h; exact (hirr _ (h₂.1 _ hx)).elim
        · exact h

/-- entry lists strictly sorted by key with the same members are equal -/
theorem entries_ext {l₁ l₂ : List Entry} (h₁ : (l₁.map (·.1)).Pairwise bytesLt)
    (h₂ : (l₂.map (·.1)).Pairwise bytesLt) (hm : ∀ x, x ∈ l₁ ↔ x ∈ l₂) : l₁ = l₂ := by
  rw [List.pairwise_map] at h₁ h₂
  exact pairwise_ext (r := fun e₁ e₂ : Entry => bytesLt e₁.1 e₂.1) (fun a => bytesLt_irrefl a.1)
    (fun _ _ h h' => bytesLt_asymm h h') h₁ h₂ hm

/-- (e) two histories with the same final reference map yield the same entry list -/
theorem run_entries_ext {n : Nat} {ops₁ ops₂ : List Op} (h₁ : OpsOK n ops₁) (h₂ : OpsOK n ops₂)
    (hm : ∀ q, mapRun ops₁ q = mapRun ops₂ q) : (ptRun ops₁).entries = (ptRun ops₂).entries := by
  refine entries_ext (run_sorted ops₁) (run_sorted ops₂) ?_
  rintro ⟨k, v, w⟩
  rw [run_entries h₁, run_entries h₂]
  simp only [hm]

/-- hence also the same total weight and the same owner of every block -/
theorem run_weight_ext {n : Nat} {ops₁ ops₂ : List Op} (h₁ : OpsOK n ops₁) (h₂ : OpsOK n ops₂)
    (hm : ∀ q, mapRun ops₁ q = mapRun ops₂ q) : (ptRun ops₁).weight = (ptRun ops₂).weight := by
  rw [run_weight, run_weight, run_entries_ext h₁ h₂ hm]

theorem run_owner_ext {n : Nat} {ops₁ ops₂ : List Op} (h₁ : OpsOK n ops₁) (h₂ : OpsOK n ops₂)
    (hm : ∀ q, mapRun ops₁ q = mapRun ops₂ q) (b : Nat) (hb : 1 ≤ b) (hw : b ≤ (ptRun ops₁).weight) :
    (ptRun ops₁).owner b = (ptRun ops₂).owner b := by
  rw [run_owner ops₁ b hb hw, run_owner ops₂ b hb (by rw [← run_weight_ext h₁ h₂ hm]; exact hw),
    run_entries_ext h₁ h₂ hm]

end Verif.Wmpt
