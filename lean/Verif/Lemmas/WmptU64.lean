/-
Go's fixed-width weight arithmetic (Verif.Model.WmptU64): under the no-overflow hypothesis (the total weight of the trie
stays below 2^64 before and after the operation) the wrap-around versions `insertU` / `deleteU` / `updateU` / `deleteKeyU`
/ `hrunU` compute exactly what the model over the natural numbers computes.  Core Lean only.
-/
import Verif.Model.WmptU64
import Verif.Lemmas.WmptHistoryInv
import Verif.Lemmas.WmptAbs
import Verif.Lemmas.WmptGcInv
namespace Verif.Wmpt

open RepOps

/-! ### A. arithmetic -/

theorem M64_eq : M64 = 18446744073709551616 := by decide

theorem M64_eq_int : (M64 : Int) = 18446744073709551616 := by rw [M64_eq]; rfl

theorem addI64_wrap (a : Nat) (c : Int) (h0 : 0 ≤ (a : Int) + c) (h1 : (a : Int) + c < 2 ^ 64) :
    addI64 a (wrapI64 c) = ((a : Int) + c).toNat := by
  unfold addI64 wrapI64
  rw [M64_eq_int]
  omega

theorem add64_eq (a b : Nat) (h : a + b < 2 ^ 64) : add64 a b = a + b := by
  unfold add64
  rw [M64_eq]
  omega

theorem sub64_eq (a b : Nat) (hb : b ≤ a) (ha : a < 2 ^ 64) : sub64 a b = a - b := by
  unfold sub64
  rw [M64_eq_int]
  omega

theorem wrapI64_wrap (x : Int) : wrapI64 (wrapI64 x) = wrapI64 x := by
  unfold wrapI64
  rw [M64_eq_int]
  omega

theorem wrapI64_eq (x : Int) (h : -2 ^ 63 ≤ x ∧ x < 2 ^ 63) : wrapI64 x = x := by
  unfold wrapI64
  rw [M64_eq_int]
  omega

theorem wrapI64_zero : wrapI64 0 = 0 := by decide

/-! ### B. storage-backed tries: insert -/

/-- the wrap-around result `u` agrees with the model's result `r`; the int64 delta is the model's delta wrapped -/
def EqI (u r : IRes) : Prop := u.node = r.node ∧ u.err = r.err ∧ u.td = r.td ∧ u.change = wrapI64 r.change

section ModelEqU
variable {hasDb : Bool} {s : Store}

theorem EqI.mk' {un rn : WN} {uc rc : Int} {ue re : Option Err} {ut rt : List Bytes} (h1 : un = rn) (h2 : ue = re)
    (h3 : ut = rt) (h4 : uc = wrapI64 rc) : EqI ⟨un, uc, ue, ut⟩ ⟨rn, rc, re, rt⟩ := ⟨h1, h2, h3, h4⟩

/- NB: the goals below are closed only after both sides are unfolded to explicit structures: a definitional-equality
   check through `wrapI64` of an open term would make the kernel evaluate `% 2^64` in unary. -/
theorem insertU_nil_key (fuel : Nat) (n : WN) (a v : Bytes) (w : Nat) (d : Bool) :
    EqI (insertU hasDb s (fuel + 1) n [] (.value a v w d)) (insert hasDb s (fuel + 1) n [] (.value a v w d)) := by
  cases n with
  | hashRef h hw =>
    simp only [insert, insertU]
    cases resolveHash hasDb s h with
    | err e => exact EqI.mk' rfl rfl rfl wrapI64_zero.symm
    | ok rn =>
      cases rn <;> simp only <;> try exact EqI.mk' rfl rfl rfl rfl
      split
      · exact EqI.mk' rfl rfl rfl wrapI64_zero.symm
      · exact EqI.mk' rfl rfl rfl rfl
  | value vh vv vw vd =>
    simp only [insert, insertU]
    split
    · exact EqI.mk' rfl rfl rfl wrapI64_zero.symm
    · exact EqI.mk' rfl rfl rfl rfl
  | routing _ _ _ _ _ => simp only [insert, insertU]; exact EqI.mk' rfl rfl rfl wrapI64_zero.symm
  | short _ _ _ _ _ => simp only [insert, insertU]; exact EqI.mk' rfl rfl rfl wrapI64_zero.symm
  | _ => simp only [insert, insertU]; exact EqI.mk' rfl rfl rfl rfl

theorem insertU_short_eq_m (fuel : Nat) (sk h : Bytes) (c : WN) (d tc : Bool) (key : List Nib) (hk : key ≠ [])
    (value : WN) :
    insertU hasDb s (fuel + 1) (.short sk h c d tc) key value =
      (let kb := key.map nb
       let p := commonPrefix sk kb
       if p = sk.length then
         let r := insertU hasDb s fuel c (key.drop p) value
         { node := .short sk h r.node true tc, change := r.change, err := r.err, td := r.td }
       else if p = key.length then { node := .short sk h c true tc, err := some .invalidKey }
       else
         match nibOf (sk.getD p 0), key[p]? with
         | some i1, some i2 =>
           let branch := WN.routing [] (upd (upd noCh i1 (mkShort (sk.drop (p + 1)) c)) i2 (mkShort (kb.drop (p + 1)) value))
             (add64 (WN.short sk h c d tc).weight value.weight) true false
           if p = 0 then { node := branch, change := wrapI64 value.weight, td := [h] }
           else { node := .short (kb.take p) [] branch true false, change := wrapI64 value.weight, td := [h] }
         | _, _ => { node := .short sk h c true tc, err := some .panic, td := [h] }) := by
  cases key with
  | nil => exact absurd rfl hk
  | cons k ks => rfl

theorem insertU_short_prefix_m (fuel : Nat) (sn K2 : List Nib) (hs : sn ≠ []) (h : Bytes) (c : WN) (d tc : Bool)
    (value : WN) :
    insertU hasDb s (fuel + 1) (.short (sn.map nb) h c d tc) (sn ++ K2) value =
      { node := .short (sn.map nb) h (insertU hasDb s fuel c K2 value).node true tc,
        change := (insertU hasDb s fuel c K2 value).change,
        err := (insertU hasDb s fuel c K2 value).err,
        td := (insertU hasDb s fuel c K2 value).td } := by
  rw [insertU_short_eq_m _ _ _ _ _ _ _ (by simp [hs])]
  simp only [cp_prefix]
  simp

theorem insertU_short_split_m (fuel : Nat) (a s' K' : List Nib) (i1 i2 : Nib) (hne : i1 ≠ i2) (h : Bytes) (c : WN)
    (d tc : Bool) (value : WN) :
    insertU hasDb s (fuel + 1) (.short ((a ++ i1 :: s').map nb) h c d tc) (a ++ i2 :: K') value =
      { node := mkShort (a.map nb) (.routing [] (upd (upd noCh i1 (mkShort (s'.map nb) c)) i2 (mkShort (K'.map nb) value))
          (add64 c.weight value.weight) true false),
        change := wrapI64 value.weight, td := [h] } := by
  rw [insertU_short_eq_m _ _ _ _ _ _ _ (by simp)]
  simp only [cp_split _ _ _ _ _ hne]
  have h1 : a.length ≠ ((a ++ i1 :: s').map nb).length := by simp
  have h1' : a.length ≠ (a ++ i2 :: K').length := by simp
  simp only [h1, h1', if_false]
  have h2 : ((a ++ i1 :: s').map nb).getD a.length 0 = nb i1 := by simp [List.getD]
  have h3 : (a ++ i2 :: K')[a.length]? = some i2 := by simp
  rw [h2, h3, nibOf_nb]
  simp only
  have h4 : ((a ++ i1 :: s').map nb).drop (a.length + 1) = s'.map nb := by
    rw [← List.map_drop, drop_len_succ]
  have h5 : ((a ++ i2 :: K').map nb).drop (a.length + 1) = K'.map nb := by
    rw [← List.map_drop, drop_len_succ]
  have h6 : ((a ++ i2 :: K').map nb).take a.length = a.map nb := by simp
  rw [h4, h5, h6]
  by_cases ha : a = []
  · subst ha; simp [mkShort, WN.weight]
  · have : a.length ≠ 0 := by simpa using ha
    simp [ha, this, mkShort, WN.weight]

end ModelEqU

theorem updP_self (f : Nib → PT) (k : Nib) (y : PT) : PT.updP f k y k = y := by simp [PT.updP]

section InsertU
variable {H : Bytes → Bytes} {s : Store}

theorem insertU_eq_aux (hlen : ∀ x, (H x).length = 32) (v : Bytes) (w : Nat) :
    ∀ (fuel : Nat) (n : WN) (t : PT) (m : Nat) (key : List Nib),
    RepS H s n t → Uniform m t → PTOK t → (t.insert key v w).weight < 2 ^ 64 → key.length = m → need n key ≤ fuel →
    EqI (insertU true s fuel n key (.value [] v w true)) (insert true s fuel n key (.value [] v w true)) := by
  intro fuel
  induction fuel with
  | zero =>
    intro n t m key _ _ _ _ _ hf
    unfold need at hf
    split at hf <;> omega
  | succ fuel ih =>
    intro n t m key hrep hu hok hnew hk hf
    cases key with
    | nil => exact insertU_nil_key fuel n [] v w true
    | cons k ks =>
      cases hrep with
      | nil => simp only [insert, insertU]; exact EqI.mk' rfl rfl rfl rfl
      | empty => simp only [insert, insertU]; exact EqI.mk' rfl rfl rfl rfl
      | value h vv vw d hcl => simp only [insert, insertU]; exact EqI.mk' rfl rfl rfl wrapI64_zero.symm
      | ref t hn hst =>
        have hres := resolve_stored H hlen s t hn hst hok.1 hok.2
        have hf' : need (PT.loaded H t) (k :: ks) ≤ fuel := by
          rw [need_of_ref rfl] at hf
          rw [need_of_not_ref (loaded_not_ref hn)]
          omega
        have IH := ih (PT.loaded H t) t m (k :: ks) (rep_loaded hst hn hu) hu hok hnew hk hf'
        have M := rep_insert_aux hlen v w fuel (PT.loaded H t) t m (k :: ks) (rep_loaded hst hn hu) hu hok hk hf'
        have h1 := M.1
        have h1u : (insertU true s fuel (PT.loaded H t) (k :: ks) (.value [] v w true)).err = none := IH.2.1.trans h1
        simp only [insert, insertU, hres, h1, h1u]
        exact IH
      | short sk h c d tc tc' hc hcl =>
        obtain ⟨sn, rfl⟩ := exists_nibs sk hu.2.1
        obtain ⟨hs, hle, hvb, huc⟩ := uniform_short_iff.mp hu
        rcases cp_cases sn (k :: ks) (by omega) with ⟨K2, hK⟩ | ⟨a, i1, s', i2, K', rfl, hK, hni⟩
        · rw [hK, insert_short_prefix_m _ _ _ hs, insertU_short_prefix_m _ _ _ hs]
          rw [hK, PT.insert_short_prefix _ _ hs] at hnew
          have hk2 : K2.length = m - sn.length := by rw [hK] at hk; simp at hk; omega
          have hsl : sn.length ≠ 0 := by simpa using hs
          have hf' : need c K2 ≤ fuel := by
            unfold need at hf ⊢
            rw [hK] at hf
            simp only [isRef, Bool.false_eq_true, if_false, List.length_append] at hf
            split <;> omega
          obtain ⟨e1, e2, e3, e4⟩ := ih c tc' _ K2 hc huc hok.short hnew hk2 hf'
          exact EqI.mk' (by rw [e1]) e2 e3 e4
        · rw [hK, insert_short_split_m _ _ _ _ _ _ hni, insertU_short_split_m _ _ _ _ _ _ hni]
          rw [hK, PT.insert_short_split _ _ _ _ _ hni] at hnew
          have hcw : c.weight = tc'.weight := hc.weight
          have hb : c.weight + w < 2 ^ 64 := by
            have e : (PT.mkShort (a.map nb) (PT.branch (PT.updP (PT.updP PT.noChP i1 (PT.mkShort (s'.map nb) tc')) i2
                (PT.mkShort (K'.map nb) (.value v w))))).weight = tc'.weight + w := by
              rw [weight_mkShortP, weight_split _ _ hni, weight_mkShortP, weight_mkShortP]; rfl
            rw [e] at hnew
            omega
          have e : add64 c.weight (WN.value [] v w true).weight = c.weight + (WN.value [] v w true).weight :=
            add64_eq _ _ hb
          rw [e]
          exact EqI.mk' rfl rfl rfl rfl
      | routing h ch cw d tc f hch hroute hcw hcl =>
        simp only [Uniform] at hu
        simp only [List.length_cons] at hk
        have hf' : need (ch k) ks ≤ fuel := by
          unfold need at hf ⊢
          simp only [isRef, Bool.false_eq_true, if_false, List.length_cons] at hf
          split <;> omega
        simp only [PT.insert] at hnew
        have hnewc : ((f k).insert ks v w).weight < 2 ^ 64 := by
          have := PT.weight_child_le (PT.updP f k ((f k).insert ks v w)) k
          rw [updP_self] at this
          omega
        obtain ⟨e1, e2, e3, e4⟩ := ih (ch k) (f k) (m - 1) ks (hch k) (hu.2 k) (hok.child k) hnewc (by omega) hf'
        obtain ⟨h1, h2, h3, h4, h5, h6⟩ := rep_insert_aux hlen v w fuel (ch k) (f k) (m - 1) ks (hch k) (hu.2 k)
          (hok.child k) (by omega) hf'
        have h1u : (insertU true s fuel (ch k) ks (.value [] v w true)).err = none := by rw [e2, h1]
        simp only [insert, insertU, h1, h1u]
        have hwk : (ch k).weight = (f k).weight := (hch k).weight
        have hwr := h2.weight
        have ew := weight_updP f k ((f k).insert ks v w)
        have hle := PT.weight_child_le f k
        have ea : addI64 cw (insertU true s fuel (ch k) ks (.value [] v w true)).change =
            ((cw : Int) + (insert true s fuel (ch k) ks (.value [] v w true)).change).toNat := by
          rw [e4]
          apply addI64_wrap <;> omega
        rw [ea, e1]
        exact EqI.mk' rfl rfl e3 e4

/-- B (insert): below 2^64 (before and after), `insertU` returns the node, error and superseded hashes of `insert`;
    its int64 delta is the model's delta wrapped into [-2^63, 2^63) -/
theorem insertU_eq (hlen : ∀ x, (H x).length = 32) (v : Bytes) (w : Nat) :
    ∀ (fuel : Nat) (n : WN) (t : PT) (m : Nat) (key : List Nib),
    RepS H s n t → Uniform m t → PTOK t → (t.insert key v w).weight < 2 ^ 64 → key.length = m → need n key ≤ fuel →
    let r := insert true s fuel n key (.value [] v w true)
    let u := insertU true s fuel n key (.value [] v w true)
    u.node = r.node ∧ u.err = r.err ∧ u.td = r.td ∧ u.change = wrapI64 r.change := by
  intro fuel n t m key hrep hu hok hnew hk hf
  exact insertU_eq_aux hlen v w fuel n t m key hrep hu hok hnew hk hf

end InsertU

/-! ### B. storage-backed tries: delete -/

section DeleteU
variable {H : Bytes → Bytes} {s : Store}

theorem deleteU_eq_delete (hlen : ∀ x, (H x).length = 32) :
    ∀ (fuel : Nat) (n : WN) (t : PT) (m : Nat) (key : List Nib),
    RepS H s n t → NoEmp n → Uniform m t → PTOK t → key.length = m → need n key ≤ fuel →
    deleteU H true s fuel n key = delete H true s fuel n key := by
  intro fuel
  induction fuel with
  | zero =>
    intro n t m key _ _ _ _ _ hf
    unfold need at hf
    split at hf <;> omega
  | succ fuel ih =>
    intro n t m key hrep hne hu hok hk hf
    cases hrep with
    | nil => simp only [delete, deleteU]
    | empty => simp only [delete, deleteU]
    | value h vv vw d hcl => simp only [delete, deleteU]
    | ref t hn hst =>
      have hres := resolve_stored H hlen s t hn hst hok.1 hok.2
      have hf' : need (PT.loaded H t) key ≤ fuel := by
        rw [need_of_ref rfl] at hf
        rw [need_of_not_ref (loaded_not_ref hn)]
        omega
      have IH := ih (PT.loaded H t) t m key (rep_loaded hst hn hu) (noEmp_loaded t) hu hok hk hf'
      simp only [delete, deleteU, hres, IH]
      rfl
    | short sk h c d tc tc' hc hcl =>
      obtain ⟨sn, rfl⟩ := exists_nibs sk hu.2.1
      obtain ⟨hs, hle, hvb, huc⟩ := uniform_short_iff.mp hu
      simp only [NoEmp] at hne
      have hsl : sn.length ≠ 0 := by simpa using hs
      have hf' : need c (key.drop (sn.map nb).length) ≤ fuel := by
        unfold need at hf ⊢
        simp only [isRef, Bool.false_eq_true, if_false] at hf
        simp only [List.length_drop, List.length_map]
        split <;> omega
      have IH := ih c tc' (m - sn.length) (key.drop (sn.map nb).length) hc hne.2 huc hok.short
        (by simp only [List.length_drop, List.length_map]; omega) hf'
      simp only [delete, deleteU, IH]
      rfl
    | routing h ch cw d tc f hch hroute hcw hcl =>
      simp only [Uniform] at hu
      simp only [NoEmp] at hne
      cases key with
      | nil => simp only [delete, deleteU]
      | cons k ks =>
        simp only [List.length_cons] at hk
        have hf' : need (ch k) ks ≤ fuel := by
          unfold need at hf ⊢
          simp only [isRef, Bool.false_eq_true, if_false, List.length_cons] at hf
          split <;> omega
        have IH := ih (ch k) (f k) (m - 1) ks (hch k) (hne k).2 (hu.2 k) (hok.child k) (by omega) hf'
        have M := rep_delete_aux hlen fuel (ch k) (f k) (m - 1) ks (hch k) (hne k).2 (hu.2 k) (hok.child k) (by omega) hf'
        simp only [delete, deleteU, IH]
        generalize delete H true s fuel (ch k) ks = r at M ⊢
        rcases M with ⟨h1, _, _⟩ | ⟨h1, _, _, _, t'', _, _, h7⟩
        · simp only [h1]
        · have hwk : (ch k).weight = (f k).weight := (hch k).weight
          have hle := PT.weight_child_le f k
          have hb := hok.1
          have e : sub64 cw r.change = cw - r.change := sub64_eq _ _ (by omega) (by omega)
          simp only [h1, e]
          rfl

/-- B (delete): below 2^64, `deleteU` returns exactly what `delete` returns -/
theorem deleteU_eq (hlen : ∀ x, (H x).length = 32) :
    ∀ (fuel : Nat) (n : WN) (t : PT) (m : Nat) (key : List Nib),
    RepS H s n t → NoEmp n → Uniform m t → PTOK t → key.length = m → need n key ≤ fuel →
    let r := delete H true s fuel n key
    let u := deleteU H true s fuel n key
    u.node = r.node ∧ u.err = r.err ∧ u.td = r.td ∧ u.change = r.change := by
  intro fuel n t m key hrep hne hu hok hk hf
  rw [deleteU_eq_delete hlen fuel n t m key hrep hne hu hok hk hf]
  exact ⟨rfl, rfl, rfl, rfl⟩

end DeleteU

/-! ### C. `Update` / `Delete` and histories -/

section TrieU
variable {H : Bytes → Bytes}

/-- `Update` (both the insert and the delete case; for the insert case the new total weight is below 2^64 as well) -/
theorem updateU_eq (hlen : ∀ x, (H x).length = 32) (t : WT) (ts : PT) (key : List Nib) (value : Bytes) (w : Nat)
    (hdb : t.hasDb = true) (hrep : RepS H t.store (normRoot t.root) ts) (hne : NoEmp t.root)
    (hu : Uniform 64 ts) (hok : PTOK ts) (hnew : value ≠ [] → (ts.insert key value w).weight < 2 ^ 64) :
    updateU H t key value w = update H t key value w := by
  by_cases hk : key.length = 64
  · have hf : need (normRoot t.root) key ≤ fuelFor key := Nat.le_trans (need_le _ key) (RepOps.fuelFor_ok key)
    by_cases hv : value = []
    · have E : deleteU H t.hasDb t.store (fuelFor key) (normRoot t.root) key =
          delete H t.hasDb t.store (fuelFor key) (normRoot t.root) key := by
        rw [hdb]
        exact deleteU_eq_delete hlen _ _ ts 64 key hrep ((noEmp_normRoot _).mpr hne) hu hok hk hf
      unfold updateU update
      simp only [hk, hv, ne_eq, not_true_eq_false, if_false, E]
      rfl
    · have E : EqI (insertU t.hasDb t.store (fuelFor key) (normRoot t.root) key (.value [] value w true))
          (insert t.hasDb t.store (fuelFor key) (normRoot t.root) key (.value [] value w true)) := by
        rw [hdb]
        exact insertU_eq_aux hlen value w _ _ ts 64 key hrep hu hok (hnew hv) hk hf
      unfold updateU update
      simp only [hk, hv, ne_eq, not_true_eq_false, not_false_eq_true, if_false, if_true, E.1, E.2.1, E.2.2.1]
      rfl
  · unfold updateU update
    simp only [hk, ne_eq, not_false_eq_true, if_true]

/-- `Delete` -/
theorem deleteKeyU_eq (hlen : ∀ x, (H x).length = 32) (t : WT) (ts : PT) (m : Nat) (key : List Nib)
    (hdb : t.hasDb = true) (hrep : RepS H t.store (normRoot t.root) ts) (hne : NoEmp t.root)
    (hu : Uniform m ts) (hok : PTOK ts) (hk : key.length = m) :
    deleteKeyU H t key = deleteKey H t key := by
  have hrep' : RepS H t.store t.root ts := by
    by_cases he : t.root = .empty
    · rw [he] at hrep ⊢; exact hrep
    · exact rep_of_normRoot hrep he
  have hf : need t.root key ≤ fuelFor key := Nat.le_trans (need_le _ key) (RepOps.fuelFor_ok key)
  have E : deleteU H t.hasDb t.store (fuelFor key) t.root key = delete H t.hasDb t.store (fuelFor key) t.root key := by
    rw [hdb]
    exact deleteU_eq_delete hlen _ _ ts m key hrep' hne hu hok hk hf
  unfold deleteKeyU deleteKey
  simp only [E]
  rfl

/-- one history step -/
theorem hstepU_eq (hlen : ∀ x, (H x).length = 32) {st : HState} {ts : PT} {op : HOp} (hi : HInv H st ts)
    (hwf : op.wf) (hok : PTOK ts) (hok' : (specStep ts op).weight < 2 ^ 64) :
    hstepU H st op = hstep H st op := by
  have hrepN : RepS H st.t.store (normRoot st.t.root) ts := by rw [normRoot_of_notNil hi.notNil]; exact hi.rep
  cases op with
  | upd key v w =>
    simp only [hstepU, hstep]
    rw [updateU_eq hlen st.t ts key v w hi.hasDb hrepN hi.noEmp hi.uniform hok (fun _ => hok')]
  | del key =>
    simp only [hstepU, hstep]
    rw [deleteKeyU_eq hlen st.t ts 64 key hi.hasDb hrepN hi.noEmp hi.uniform hok hwf]
  | root => rfl
  | commit lvl => rfl
  | gc => rfl
  | saveRoot => rfl
  | rollback => rfl

theorem hrunU_eq_aux (hlen : ∀ x, (H x).length = 32) (q : List HOp) : ∀ (p : List HOp),
    (∀ op ∈ q, op.plain ∧ op.wf) →
    (∀ q1 q2, q = q1 ++ q2 → PTOK (specRun (p ++ q1))) →
    (∀ q1 lvl q2, q = q1 ++ .commit lvl :: q2 → HashInj H (fun x => PT.Sub x (specRun (p ++ q1)))) →
    HInv H (hrun H p) (specRun p) → q.foldl (hstepU H) (hrun H p) = q.foldl (hstep H) (hrun H p) := by
  induction q with
  | nil => intro p _ _ _ _; rfl
  | cons op q ih =>
    intro p hall hok hinj hi
    have h1 : hrun H (p ++ [op]) = hstep H (hrun H p) op := by rw [hrun_append]; rfl
    have h2 : specRun (p ++ [op]) = specStep (specRun p) op := by rw [specRun_append]; rfl
    have hok0 : PTOK (specRun p) := by simpa using hok [] (op :: q) rfl
    have hok1 : PTOK (specRun (p ++ [op])) := hok [op] q rfl
    have hop := hall op List.mem_cons_self
    have hs : hstepU H (hrun H p) op = hstep H (hrun H p) op :=
      hstepU_eq hlen hi hop.2 hok0 (by rw [← h2]; exact hok1.1)
    simp only [List.foldl_cons]
    rw [hs, ← h1]
    apply ih (p ++ [op])
    · exact fun o ho => hall o (List.mem_cons_of_mem _ ho)
    · intro q1 q2 hq
      have := hok (op :: q1) q2 (by rw [hq]; rfl)
      simpa using this
    · intro q1 lvl q2 hq
      have := hinj (op :: q1) lvl q2 (by rw [hq]; rfl)
      simpa using this
    · rw [h1, h2]
      refine hinv_step hlen hi hop.1 hop.2 hok0 ?_
      intro lvl e
      have := hinj [] lvl q (by rw [e]; rfl)
      simpa using this

/-- C: a history of `Update` / `Delete` / `Root` / `Commit` over the wrap-around arithmetic is the history over the
    model's arithmetic, as long as every intermediate total weight is below 2^64 (the hypotheses of `hinv_run`) -/
theorem hrunU_eq (hlen : ∀ x, (H x).length = 32) (ops : List HOp)
    (hall : ∀ op ∈ ops, op.plain ∧ op.wf)
    (hok : ∀ p q, ops = p ++ q → PTOK (specRun p))
    (hinj : ∀ p lvl q, ops = p ++ .commit lvl :: q → HashInj H (fun x => PT.Sub x (specRun p))) :
    hrunU H ops = hrun H ops := by
  have := hrunU_eq_aux hlen ops [] hall (by simpa using hok) (by simpa using hinj) hinv_init
  exact this

theorem hrunU_eq_gc_aux (hlen : ∀ x, (H x).length = 32) (q : List HOp) : ∀ (p : List HOp),
    (∀ op ∈ q, op.plainGC ∧ op.wf) →
    (∀ q1 q2, q = q1 ++ q2 → PTOK (specRun (p ++ q1)) ∧ Distinct H (specRun (p ++ q1))) →
    GInv H (hrun H p) (specRun p) (committedRun p) →
    q.foldl (hstepU H) (hrun H p) = q.foldl (hstep H) (hrun H p) := by
  induction q with
  | nil => intro p _ _ _; rfl
  | cons op q ih =>
    intro p hall hok hi
    have h1 : hrun H (p ++ [op]) = hstep H (hrun H p) op := by rw [hrun_append]; rfl
    have h2 : specRun (p ++ [op]) = specStep (specRun p) op := by rw [specRun_append]; rfl
    have hok0 := hok [] (op :: q) rfl
    simp only [List.append_nil] at hok0
    have hok1 := (hok [op] q rfl).1
    have hop := hall op List.mem_cons_self
    have hs : hstepU H (hrun H p) op = hstep H (hrun H p) op :=
      hstepU_eq hlen hi.hinv hop.2 hok0.1 (by rw [← h2]; exact hok1.1)
    simp only [List.foldl_cons]
    rw [hs, ← h1]
    apply ih (p ++ [op])
    · exact fun o ho => hall o (List.mem_cons_of_mem _ ho)
    · intro q1 q2 hq
      have := hok (op :: q1) q2 (by rw [hq]; rfl)
      simpa using this
    · rw [h1, h2, committedRun_snoc]
      exact ginv_step hlen hi hop.1 hop.2 hok0.1 hok0.2

/-- C, with garbage-collection passes (`DeleteNodes`) anywhere in the history: the hypotheses of `ginv_run` -/
theorem hrunU_eq_gc (hlen : ∀ x, (H x).length = 32) (ops : List HOp)
    (hall : ∀ op ∈ ops, op.plainGC ∧ op.wf)
    (hok : ∀ p q, ops = p ++ q → PTOK (specRun p) ∧ Distinct H (specRun p)) :
    hrunU H ops = hrun H ops := by
  have := hrunU_eq_gc_aux hlen ops [] hall (by simpa using hok) ginv_init
  exact this

end TrieU

/-! ### D. in-memory tries (no references into a storage) -/

section Mem
variable {H : Bytes → Bytes} {hasDb : Bool} {s : Store}

theorem insertU_eq_mem_aux (v : Bytes) (w : Nat) :
    ∀ (fuel : Nat) (n : WN) (t : PT) (m : Nat) (key : List Nib),
    abs n = some t → WInv n → Uniform m t → key.length = m → key.length + 1 ≤ fuel →
    t.weight < 2 ^ 64 → (t.insert key v w).weight < 2 ^ 64 →
    EqI (insertU hasDb s fuel n key (.value [] v w true)) (insert hasDb s fuel n key (.value [] v w true)) := by
  intro fuel
  induction fuel with
  | zero => intro n t m key _ _ _ _ hf; omega
  | succ fuel ih =>
    intro n t m key ha hw hu hk hf hold hnew
    cases key with
    | nil => exact insertU_nil_key fuel n [] v w true
    | cons k ks =>
      cases n with
      | hashRef h cw => simp [abs] at ha
      | nil => simp only [insert, insertU]; exact EqI.mk' rfl rfl rfl rfl
      | empty => simp only [insert, insertU]; exact EqI.mk' rfl rfl rfl rfl
      | value vh vv vw vd => simp only [insert, insertU]; exact EqI.mk' rfl rfl rfl wrapI64_zero.symm
      | short sk h c d tc =>
        obtain ⟨t', hc, rfl⟩ := abs_short_some.mp ha
        obtain ⟨sn, rfl⟩ := exists_nibs sk hu.2.1
        obtain ⟨hs, hle, hvb, huc⟩ := uniform_short_iff.mp hu
        simp only [WInv] at hw
        have hcw : c.weight = t'.weight := weight_abs hw hc
        rcases cp_cases sn (k :: ks) (by omega) with ⟨K2, hK⟩ | ⟨a, i1, s', i2, K', rfl, hK, hni⟩
        · rw [hK, RepOps.insert_short_prefix_m _ _ _ hs, insertU_short_prefix_m _ _ _ hs]
          rw [hK, PT.insert_short_prefix _ _ hs] at hnew
          have hk2 : K2.length = m - sn.length := by rw [hK] at hk; simp at hk; omega
          have hsl : sn.length ≠ 0 := by simpa using hs
          have hf' : K2.length + 1 ≤ fuel := by rw [hK] at hf; simp at hf; omega
          obtain ⟨e1, e2, e3, e4⟩ := ih c t' _ K2 hc hw huc hk2 hf' hold hnew
          exact EqI.mk' (by rw [e1]) e2 e3 e4
        · rw [hK, RepOps.insert_short_split_m _ _ _ _ _ _ hni, insertU_short_split_m _ _ _ _ _ _ hni]
          rw [hK, PT.insert_short_split _ _ _ _ _ hni] at hnew
          have hb : c.weight + w < 2 ^ 64 := by
            have e : (PT.mkShort (a.map nb) (PT.branch (PT.updP (PT.updP PT.noChP i1 (PT.mkShort (s'.map nb) t')) i2
                (PT.mkShort (K'.map nb) (.value v w))))).weight = t'.weight + w := by
              rw [weight_mkShortP, weight_split _ _ hni, weight_mkShortP, weight_mkShortP]; rfl
            rw [e] at hnew
            omega
          have e : add64 c.weight (WN.value [] v w true).weight = c.weight + (WN.value [] v w true).weight :=
            add64_eq _ _ hb
          rw [e]
          exact EqI.mk' rfl rfl rfl rfl
      | routing h ch cw d tc =>
        obtain ⟨f, hf', rfl⟩ := abs_routing_some.mp ha
        have hcw : cw = (PT.branch f).weight := weight_abs hw ha
        simp only [Uniform] at hu
        simp only [List.length_cons] at hk hf
        simp only [WInv] at hw
        simp only [PT.insert] at hnew
        have hle := PT.weight_child_le f k
        have hnewc : ((f k).insert ks v w).weight < 2 ^ 64 := by
          have := PT.weight_child_le (PT.updP f k ((f k).insert ks v w)) k
          rw [updP_self] at this
          omega
        obtain ⟨e1, e2, e3, e4⟩ := ih (ch k) (f k) (m - 1) ks (hf' k) (hw.1 k) (hu.2 k) (by omega) (by omega)
          (by omega) hnewc
        obtain ⟨h1, h2⟩ := insert_uniform_spec (hasDb := hasDb) (s := s) (v := v) (w := w) fuel (ch k) (f k) (m - 1) ks
          (hf' k) (hu.2 k) (by omega) (by omega)
        obtain ⟨h3, h4⟩ := h2 (hw.1 k)
        have h5 := abs_insert fuel (ch k) (f k) ks (hf' k) h1
        have hwr := weight_abs h3 h5
        have hwk : (ch k).weight = (f k).weight := weight_abs (hw.1 k) (hf' k)
        have h1u : (insertU hasDb s fuel (ch k) ks (.value [] v w true)).err = none := by rw [e2, h1]
        simp only [insert, insertU, h1, h1u]
        have ew := weight_updP f k ((f k).insert ks v w)
        have ea : addI64 cw (insertU hasDb s fuel (ch k) ks (.value [] v w true)).change =
            ((cw : Int) + (insert hasDb s fuel (ch k) ks (.value [] v w true)).change).toNat := by
          rw [e4]
          apply addI64_wrap <;> omega
        rw [ea, e1]
        exact EqI.mk' rfl rfl e3 e4

/-- D (insert): an in-memory trie (`Good`), any `hasDb` / storage -/
theorem insertU_eq_mem (v : Bytes) (w : Nat) {fuel m : Nat} {n : WN} {t : PT} {key : List Nib} (g : Good m n t)
    (hk : key.length = m) (hf : key.length + 1 ≤ fuel) (hold : t.weight < 2 ^ 64)
    (hnew : (t.insert key v w).weight < 2 ^ 64) :
    let r := insert hasDb s fuel n key (.value [] v w true)
    let u := insertU hasDb s fuel n key (.value [] v w true)
    u.node = r.node ∧ u.err = r.err ∧ u.td = r.td ∧ u.change = wrapI64 r.change :=
  insertU_eq_mem_aux v w fuel n t m key g.abs_eq g.winv g.uniform hk hf hold hnew

theorem deleteU_eq_delete_mem :
    ∀ (fuel : Nat) (n : WN) (t : PT) (m : Nat) (key : List Nib),
    abs n = some t → WInv n → NoEmpty n → Uniform m t → key.length = m → key.length + 1 ≤ fuel → t.weight < 2 ^ 64 →
    deleteU H hasDb s fuel n key = delete H hasDb s fuel n key := by
  intro fuel
  induction fuel with
  | zero => intro n t m key _ _ _ _ _ hf; omega
  | succ fuel ih =>
    intro n t m key ha hw hn hu hk hf hold
    cases n with
    | hashRef h cw => simp [abs] at ha
    | nil => simp only [delete, deleteU]
    | empty => simp only [delete, deleteU]
    | value vh vv vw vd => simp only [delete, deleteU]
    | short sk h c d tc =>
      obtain ⟨t', hc, rfl⟩ := abs_short_some.mp ha
      simp only [Uniform] at hu
      obtain ⟨hs, _, hle, _, huc⟩ := hu
      simp only [WInv] at hw
      simp only [NoEmpty] at hn
      have hsl : sk.length ≠ 0 := by simpa using hs
      have IH := ih c t' (m - sk.length) (key.drop sk.length) hc hw hn.2 huc
        (by simp only [List.length_drop]; omega) (by simp only [List.length_drop]; omega) hold
      simp only [delete, deleteU, IH]
      rfl
    | routing h ch cw d tc =>
      obtain ⟨f, hf', rfl⟩ := abs_routing_some.mp ha
      have hcw : cw = (PT.branch f).weight := weight_abs hw ha
      simp only [Uniform] at hu
      simp only [WInv] at hw
      simp only [NoEmpty] at hn
      cases key with
      | nil => simp only [delete, deleteU]
      | cons k ks =>
        simp only [List.length_cons] at hk hf
        have hle := PT.weight_child_le f k
        have IH := ih (ch k) (f k) (m - 1) ks (hf' k) (hw.1 k) (hn k).2 (hu.2 k) (by omega) (by omega) (by omega)
        have M := delete_uniform_spec (H := H) (hasDb := hasDb) (s := s) fuel (ch k) (f k) (m - 1) ks (hf' k) (hn k).2
          (hu.2 k) (by omega) (by omega)
        simp only [delete, deleteU, IH]
        generalize delete H hasDb s fuel (ch k) ks = r at M ⊢
        rcases M with ⟨h1, _, _⟩ | ⟨h1, _, _, _, h6⟩
        · simp only [h1]
        · have h7 := (h6 (hw.1 k)).2
          have hwk : (ch k).weight = (f k).weight := weight_abs (hw.1 k) (hf' k)
          have e : sub64 cw r.change = cw - r.change := sub64_eq _ _ (by omega) (by omega)
          simp only [h1, e]
          rfl

/-- D (delete) -/
theorem deleteU_eq_mem {fuel m : Nat} {n : WN} {t : PT} {key : List Nib} (g : Good m n t)
    (hk : key.length = m) (hf : key.length + 1 ≤ fuel) (hold : t.weight < 2 ^ 64) :
    let r := delete H hasDb s fuel n key
    let u := deleteU H hasDb s fuel n key
    u.node = r.node ∧ u.err = r.err ∧ u.td = r.td ∧ u.change = r.change := by
  rw [deleteU_eq_delete_mem fuel n t m key g.abs_eq g.winv g.noEmpty g.uniform hk hf hold]
  exact ⟨rfl, rfl, rfl, rfl⟩

end Mem

/-! ### E. the hypothesis is needed -/

/-- two entries of weight 2^63 each: the model's root weight is 2^64, Go's uint64 sum is 0 (the split site of `insert`) -/
theorem overflow_differs :
    let v1 : WN := .value [] [1] (2 ^ 63) true
    let v2 : WN := .value [] [2] (2 ^ 63) true
    let r1 := insert false [] 2 .empty [1] v1
    let r2 := insert false [] 2 r1.node [2] v2
    let u1 := insertU false [] 2 .empty [1] v1
    let u2 := insertU false [] 2 u1.node [2] v2
    r1.err = none ∧ r2.err = none ∧ u1.err = none ∧ u2.err = none ∧
      r1.node.weight = 2 ^ 63 ∧ u1.node.weight = 2 ^ 63 ∧ r2.node.weight = 2 ^ 64 ∧ u2.node.weight = 0 := by
  decide

/-- the int64 delta itself wraps (2^63 is not an int64): `insertU` reports `-2^63` where the model reports `2^63`;
    `uint64(int64(weight) + change)` is right all the same (`addI64_wrap`) -/
theorem change_wraps :
    (insertU false [] 2 .empty [1] (.value [] [1] (2 ^ 63) true)).change = -(2 ^ 63) ∧
    (insert false [] 2 .empty [1] (.value [] [1] (2 ^ 63) true)).change = 2 ^ 63 := by
  decide

end Verif.Wmpt
