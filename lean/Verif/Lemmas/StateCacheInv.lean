import Verif.Lemmas.StateCacheBasic
/-! The state-cache invariant and its preservation by every thread step (reader and committer). -/
set_option linter.unusedSectionVars false
namespace Verif.SC

variable {K B V : Type} [DecidableEq K] [DecidableEq B]

/-- entry for key `k` at block `b` in the version maps -/
def entryAt (sc : SC K B V) (k : K) (b : B) : Option (Entry V) :=
  match alookup sc.cache k with
  | some m => m.peek b
  | none => none

def linkAt (sc : SC K B V) (b : B) : Option B := sc.links.peek b

theorem entryAt_of_cache {sc sc' : SC K B V} {k : K} {m : LRU B (Entry V)}
    (h : sc'.cache = aset sc.cache k m) (k' : K) (b : B) :
    entryAt sc' k' b = if k = k' then m.peek b else entryAt sc k' b := by
  unfold entryAt
  rw [h]
  simp only [alookup_aset]
  by_cases hk : k = k' <;> simp [hk]

theorem keys_of_cache {sc sc' : SC K B V} {k : K} {m m' : LRU B (Entry V)}
    (h : sc'.cache = aset sc.cache k m') (hm : alookup sc.cache k = some m) (k' : K) :
    (alookup sc'.cache k').isSome = (alookup sc.cache k').isSome := by
  rw [h]
  simp only [alookup_aset]
  by_cases hk : k = k'
  · subst hk; simp [hm]
  · simp [hk]

/-- The invariant. `hole` is the block of the commit in flight (past its link check), if any. -/
structure Inv (sc : SC K B V) (T : Tree K B V) (hole : Option B) : Prop where
  sound : ∀ k b e, entryAt sc k b = some e → Chain T k b e
  linked : ∀ b p, linkAt sc b = some p →
    ∃ x, T.find b = some x ∧ x.prev = p ∧ ∀ k e, alookup x.writes k = some e → entryAt sc k b = some e
  committed : ∀ b x, T.find b = some x → linkAt sc b ≠ none ∨ hole = some b

/-- what a reader thread knows at each program point -/
def RInv (sc : SC K B V) (T : Tree K B V) (r : Reader K B V) : Prop :=
  match r.pc with
  | .cache => True
  | .link cur _ => Walk T r.key r.blk cur
  | .entry cur _ linked => Walk T r.key r.blk cur ∧ ∀ p, linked = some p → linkAt sc cur = some p
  | .memo e => Chain T r.key r.blk e
  | .done res => ∀ v, res = some v → Chain T r.key r.blk (.val v)

/-- how a reader step may change the shared state -/
structure RFrame (sc sc' : SC K B V) (r : Reader K B V) : Prop where
  links : ∀ b, linkAt sc' b = linkAt sc b
  keys : ∀ k, (alookup sc'.cache k).isSome = (alookup sc.cache k).isSome
  keep : ∀ k b e, entryAt sc k b = some e → entryAt sc' k b = some e
  new : ∀ k b e, entryAt sc' k b = some e → entryAt sc k b = some e ∨ (k = r.key ∧ b = r.blk ∧ ∃ e', r.pc = .memo e' ∧ e = e')
  capK : sc'.capK = sc.capK
  maxDepth : sc'.maxDepth = sc.maxDepth

theorem Entry.result_val {e : Entry V} {v : V} (h : e.result = some v) : e = .val v := by
  cases e with
  | val w => simp [Entry.result] at h; subst h; rfl
  | tomb => simp [Entry.result] at h

theorem RFrame.id (sc : SC K B V) (r : Reader K B V) : RFrame sc sc r :=
  ⟨fun _ => rfl, fun _ => rfl, fun _ _ _ h => h, fun _ _ _ h => .inl h, rfl, rfl⟩

theorem Reader.stepSC_frame (sc : SC K B V) (r : Reader K B V)
    (hev : (r.stepSC sc).evictions = sc.evictions) : RFrame sc (r.stepSC sc) r := by
  cases hpc : r.pc with
  | cache =>
    have : r.stepSC sc = sc := by unfold Reader.stepSC; rw [hpc]
    rw [this]; exact RFrame.id sc r
  | link cur n =>
    have : r.stepSC sc = { sc with links := (sc.links.get cur).1 } := by
      unfold Reader.stepSC; rw [hpc]
    rw [this]
    refine ⟨fun b => ?_, fun _ => rfl, fun _ _ _ h => h, fun _ _ _ h => .inl h, rfl, rfl⟩
    simp [linkAt, LRU.get_peek]
  | entry cur n linked =>
    cases hm : alookup sc.cache r.key with
    | none =>
      have : r.stepSC sc = sc := by unfold Reader.stepSC; rw [hpc]; simp only [hm]
      rw [this]; exact RFrame.id sc r
    | some m =>
      have hs : r.stepSC sc = { sc with cache := aset sc.cache r.key (m.get cur).1 } := by
        unfold Reader.stepSC; rw [hpc]; simp only [hm]
      have hc : (r.stepSC sc).cache = aset sc.cache r.key (m.get cur).1 := by rw [hs]
      have hent : ∀ k b, entryAt (r.stepSC sc) k b = entryAt sc k b := by
        intro k b
        rw [entryAt_of_cache hc]
        by_cases hk : r.key = k
        · subst hk; simp [entryAt, hm, LRU.get_peek]
        · simp [hk]
      refine ⟨fun _ => by rw [hs]; rfl, keys_of_cache hc hm, fun k b e h => by rw [hent]; exact h,
        fun k b e h => .inl (by rw [hent] at h; exact h), by rw [hs], by rw [hs]⟩
  | memo e =>
    cases hm : alookup sc.cache r.key with
    | none =>
      have : r.stepSC sc = sc := by unfold Reader.stepSC; rw [hpc]; simp only [hm]
      rw [this]; exact RFrame.id sc r
    | some m =>
      have hs : r.stepSC sc = { sc with cache := aset sc.cache r.key (m.containsOrAdd r.blk e).1,
                                        evictions := sc.evictions + (m.containsOrAdd r.blk e).2.toNat, entryEv := sc.entryEv + (m.containsOrAdd r.blk e).2.toNat } := by
        unfold Reader.stepSC; rw [hpc]; simp only [hm]
      have hc : (r.stepSC sc).cache = aset sc.cache r.key (m.containsOrAdd r.blk e).1 := by rw [hs]
      have hne : (m.containsOrAdd r.blk e).2 = false := by
        rw [hs] at hev
        cases hb : (m.containsOrAdd r.blk e).2 with
        | false => rfl
        | true => simp [hb] at hev
      have hent : ∀ k b, entryAt (r.stepSC sc) k b
            = if r.key = k ∧ r.blk = b ∧ entryAt sc k b = none then some e else entryAt sc k b := by
        intro k b
        rw [entryAt_of_cache hc]
        by_cases hk : r.key = k
        · subst hk
          simp only [true_and, if_true]
          rw [LRU.containsOrAdd_peek _ _ _ _ hne]
          simp only [entryAt, hm]
          by_cases hb : r.blk = b
          · subst hb; rfl
          · simp [hb]
        · simp [hk]
      refine ⟨fun _ => by rw [hs]; rfl, keys_of_cache hc hm, fun k b e' h => ?_, fun k b e' h => ?_,
        by rw [hs], by rw [hs]⟩
      · rw [hent]
        by_cases hcnd : r.key = k ∧ r.blk = b ∧ entryAt sc k b = none
        · rw [hcnd.2.2] at h; cases h
        · simp [h]
      · rw [hent] at h
        by_cases hcnd : r.key = k ∧ r.blk = b ∧ entryAt sc k b = none
        · simp [hcnd] at h
          exact .inr ⟨hcnd.1.symm, hcnd.2.1.symm, e, hpc, h.symm⟩
        · simp [hcnd] at h; exact .inl h
  | done res =>
    have : r.stepSC sc = sc := by unfold Reader.stepSC; rw [hpc]
    rw [this]; exact RFrame.id sc r

theorem RInv.stable {sc sc' : SC K B V} {T T' : Tree K B V} {r : Reader K B V}
    (h : RInv sc T r) (hl : ∀ b p, linkAt sc b = some p → linkAt sc' b = some p) (hT : T.le T') :
    RInv sc' T' r := by
  unfold RInv at *
  cases hpc : r.pc with
  | cache => trivial
  | link cur n => rw [hpc] at h; exact Walk.mono hT h
  | entry cur n linked =>
    rw [hpc] at h
    exact ⟨Walk.mono hT h.1, fun p hp => hl _ _ (h.2 p hp)⟩
  | memo e => rw [hpc] at h; exact Chain.mono hT h
  | done res => rw [hpc] at h; exact fun v hv => Chain.mono hT (h v hv)

theorem Inv.of_rframe {sc sc' : SC K B V} {T : Tree K B V} {hole : Option B} {r : Reader K B V}
    (hI : Inv sc T hole) (hR : RInv sc T r) (F : RFrame sc sc' r) : Inv sc' T hole := by
  refine ⟨fun k b e h => ?_, fun b p h => ?_, fun b x h => ?_⟩
  · rcases F.new k b e h with h | ⟨hk, hb, e', hpc, he⟩
    · exact hI.sound k b e h
    · unfold RInv at hR; rw [hpc] at hR; subst hk; subst hb; subst he; exact hR
  · rw [F.links] at h
    obtain ⟨x, hx, hp, hw⟩ := hI.linked b p h
    exact ⟨x, hx, hp, fun k e hk => F.keep _ _ _ (hw k e hk)⟩
  · rcases hI.committed b x h with h | h
    · exact .inl (by rw [F.links]; exact h)
    · exact .inr h

theorem entryAt_eq_peek {sc : SC K B V} {k : K} {m : LRU B (Entry V)} (hm : alookup sc.cache k = some m) (b : B) :
    entryAt sc k b = m.peek b := by
  unfold entryAt; rw [hm]

theorem Reader.step_inv {sc : SC K B V} {T : Tree K B V} {hole : Option B} {r : Reader K B V}
    (hI : Inv sc T hole) (hR : RInv sc T r) (hev : (r.stepSC sc).evictions = sc.evictions) :
    Inv (r.stepSC sc) T hole ∧ RInv (r.stepSC sc) T { r with pc := r.stepPc sc } := by
  have F := Reader.stepSC_frame sc r hev
  refine ⟨Inv.of_rframe hI hR F, ?_⟩
  cases hpc : r.pc with
  | cache =>
    unfold RInv Reader.stepPc; simp only [hpc]
    cases alookup sc.cache r.key with
    | none => simp
    | some m => exact Walk.refl _
  | link cur n =>
    unfold RInv at hR ⊢; unfold Reader.stepPc; rw [hpc] at hR; simp only [hpc]
    refine ⟨hR, fun p hp => ?_⟩
    rw [F.links]; rw [LRU.get_snd] at hp; exact hp
  | entry cur n linked =>
    unfold RInv at hR; rw [hpc] at hR
    obtain ⟨hW, hL⟩ := hR
    unfold RInv Reader.stepPc; simp only [hpc]
    cases hm : alookup sc.cache r.key with
    | none => simp
    | some m =>
      simp only
      rw [LRU.get_snd]
      cases he : m.peek cur with
      | some e =>
        have hch : Chain T r.key r.blk e :=
          Walk.chain hW (hI.sound _ _ _ (by rw [entryAt_eq_peek hm]; exact he))
        simp only
        by_cases hcb : cur = r.blk
        · simp only [hcb, if_true]
          intro v hv
          rw [Entry.result_val hv] at hch; exact hch
        · simp only [hcb, if_false]; exact hch
      | none =>
        simp only
        cases linked with
        | none => simp
        | some p =>
          simp only
          by_cases hd : n + 1 > sc.maxDepth
          · simp [hd]
          · simp only [hd, if_false]
            obtain ⟨x, hx, hp, hw⟩ := hI.linked cur p (hL p rfl)
            have hnone : alookup x.writes r.key = none := by
              cases hxw : alookup x.writes r.key with
              | none => rfl
              | some e' =>
                have := hw _ _ hxw
                rw [entryAt_eq_peek hm, he] at this; cases this
            have := Walk.snoc hW hx hnone
            rw [hp] at this; exact this
  | memo e =>
    unfold RInv at hR ⊢; unfold Reader.stepPc; rw [hpc] at hR; simp only [hpc]
    intro v hv
    rw [Entry.result_val hv] at hR; exact hR
  | done res =>
    unfold RInv at hR ⊢; unfold Reader.stepPc; rw [hpc] at hR; simp only [hpc]
    exact hR

end Verif.SC
