/-
C11 "once a commit's batch has been written, the committed trie is in storage".

For a trie `n` that represents the spec tree `t` over the storage `s` (`RepS H s n t`, Verif.Lemmas.WmptRep):
  * `rep_calcHash`   : `CalcHash` (= `Root()`) returns `PT.hash H t` and does not disturb the representation;
  * `saveNode_*_rep` : `Save` of a dirty node whose children are settled writes `(hash t, enc (persist t))`;
  * `storedAll_mono` : writing puts of the form `(hash x, enc (persist x))` keeps every stored tree stored, as long as
                       the hash does not collide on the set `S` of spec nodes in play;
  * `rep_commitNode` : after the batch of `commitNode` is applied, the committed node represents `t` over the new
                       storage, is clean, and `t` is stored entirely;
  * `rep_commit`     : the same for `Commit(collapseLevel)` on a whole trie, plus the root hash.

Side conditions that are really needed (`Proper`, below): `.empty` occurs at the root only, a short node has a child,
and a short node that is clean has a child that is not dirty (dirtiness propagates upwards).
-/
import Verif.Lemmas.WmptRep
import Verif.Lemmas.WmptCommit
import Verif.Lemmas.WmptOps
namespace Verif.Wmpt

/-! ### side condition on the implementation node -/

/-- `.empty` (the `*nilNode`) occurs at the root only; a short node has a child; a short node that is not dirty has a
    child that is not dirty (the part of "a dirty child has a dirty parent" that `Serialize` depends on: the branch
    entry of an embedded short node quotes the cached hash of the short node's child). -/
def Proper : WN → Prop
  | .short _ _ c d _ => c.isNil = false ∧ c ≠ .empty ∧ (d = false → c.dirty = false) ∧ Proper c
  | .routing _ ch _ _ _ => ∀ i, ch i ≠ .empty ∧ Proper (ch i)
  | _ => True

/-- `x` is a node of the spec tree `t` (a subtree, `t` itself included) -/
def PT.Sub (x : PT) : PT → Prop
  | .none => x = .none
  | .value v w => x = .value v w
  | .short k c => x = .short k c ∨ PT.Sub x c
  | .branch ch => x = .branch ch ∨ ∃ i, PT.Sub x (ch i)

theorem PT.Sub.refl (t : PT) : PT.Sub t t := by
  cases t <;> simp [PT.Sub]

theorem PT.Sub.short {x : PT} {k : Bytes} {c : PT} (h : PT.Sub x c) : PT.Sub x (.short k c) := Or.inr h

theorem PT.Sub.branch {x : PT} {ch : Nib → PT} (i : Nib) (h : PT.Sub x (ch i)) : PT.Sub x (.branch ch) :=
  Or.inr ⟨i, h⟩

theorem PT.Sub.trans {x y t : PT} (hxy : PT.Sub x y) : PT.Sub y t → PT.Sub x t := by
  induction t with
  | none => intro h; simp only [PT.Sub] at h; subst h; exact hxy
  | value v w => intro h; simp only [PT.Sub] at h; subst h; exact hxy
  | short k c ih =>
    intro h
    rcases h with rfl | h
    · exact hxy
    · exact (ih h).short
  | branch ch ih =>
    intro h
    rcases h with rfl | ⟨i, h⟩
    · exact hxy
    · exact (ih i h).branch i

section
variable {H : Bytes → Bytes}

/-! ### basic facts about `Rep` -/

theorem Rep.isNone_iff {P : PT → Prop} {n : WN} {t : PT} (h : Rep H P n t) :
    t.isNone = true ↔ (n = .nil ∨ n = .empty) := by
  cases h <;> simp_all [PT.isNone]

theorem Rep.isNone_false {P : PT → Prop} {n : WN} {t : PT} (h : Rep H P n t) (h1 : n.isNil = false) (h2 : n ≠ .empty) :
    t.isNone = false := by
  cases h <;> simp_all [PT.isNone, WN.isNil]

theorem Rep.not_nil_empty {P : PT → Prop} {n : WN} {t : PT} (h : Rep H P n t) (ht : t.isNone = false) :
    n.isNil = false ∧ n ≠ .empty := by
  cases h <;> simp_all [PT.isNone, WN.isNil]

/-- the representation only depends on what `P` says about the nodes of `t` -/
theorem Rep.mono {P P' : PT → Prop} {n : WN} {t : PT} (h : Rep H P n t) :
    (∀ x, PT.Sub x t → P x → P' x) → Rep H P' n t := by
  induction h with
  | nil => intro _; exact Rep.nil
  | empty => intro _; exact Rep.empty
  | ref t hn hp => intro hm; exact Rep.ref t hn (hm t (PT.Sub.refl t) hp)
  | value h v w d hc =>
    intro hm
    exact Rep.value h v w d (fun hd => ⟨(hc hd).1, hm _ (PT.Sub.refl _) (hc hd).2⟩)
  | short k h c d tc tc' _ hc ih =>
    intro hm
    exact Rep.short k h c d tc tc' (ih (fun x hx => hm x hx.short))
      (fun hd => ⟨(hc hd).1, hm _ (PT.Sub.refl _) (hc hd).2⟩)
  | routing h ch w d tc f _ href hw hc ih =>
    intro hm
    exact Rep.routing h ch w d tc f (fun i => ih i (fun x hx => hm x (hx.branch i))) href hw
      (fun hd => ⟨(hc hd).1, hm _ (PT.Sub.refl _) (hc hd).2⟩)

/-- a node that is not dirty (a reference, a saved node) has `P` for its whole tree -/
theorem Rep.P_of_clean {P : PT → Prop} {n : WN} {t : PT} (h : Rep H P n t) (hd : n.dirty = false)
    (ht : t.isNone = false) : P t := by
  cases h with
  | nil => simp [PT.isNone] at ht
  | empty => simp [PT.isNone] at ht
  | ref t _ hp => exact hp
  | value h v w d hc => exact (hc hd).2
  | short k h c d tc tc' _ hc => exact (hc hd).2
  | routing h ch w d tc f _ _ _ hc => exact (hc hd).2

/-- a node that is not dirty carries the hash of the tree it stands for -/
theorem Rep.hashField_of_clean {P : PT → Prop} {n : WN} {t : PT} (h : Rep H P n t) (hd : n.dirty = false)
    (hn : n.isNil = false) : n.hashField H = PT.hash H t := by
  cases h with
  | nil => simp [WN.isNil] at hn
  | empty => rfl
  | ref t _ hp => rfl
  | value h v w d hc => exact (hc hd).1
  | short k h c d tc tc' _ hc => exact (hc hd).1
  | routing h ch w d tc f _ _ _ hc => exact (hc hd).1

/-! ### 1. `CalcHash` on a represented node -/

/-- `Root()`: `CalcHash` returns the hash of the spec tree and the refreshed node still represents it.
    Side condition: a short node has a child (`Proper`); for `.short k _ .nil` the code hashes `k` alone, which is not
    the hash of any spec tree. -/
theorem rep_calcHash {P : PT → Prop} {n : WN} {t : PT} (h : Rep H P n t) :
    Proper n → Rep H P (calcHash H n).1 t ∧ (calcHash H n).2 = PT.hash H t := by
  induction h with
  | nil => intro _; exact ⟨Rep.nil, rfl⟩
  | empty => intro _; exact ⟨Rep.empty, rfl⟩
  | ref t hn hp => intro _; exact ⟨Rep.ref t hn hp, rfl⟩
  | value h v w d hc =>
    intro _
    cases d with
    | false => exact ⟨Rep.value h v w false hc, (hc rfl).1⟩
    | true => exact ⟨Rep.value _ v w true (by simp), rfl⟩
  | short k h c d tc tc' hr hc ih =>
    intro hp
    cases d with
    | false => exact ⟨Rep.short k h c false tc tc' hr hc, (hc rfl).1⟩
    | true =>
      obtain ⟨hnil, _, _, hpc⟩ := hp
      obtain ⟨ih1, ih2⟩ := ih hpc
      simp only [calcHash, hnil, if_true, Bool.false_eq_true, if_false, ih2]
      exact ⟨Rep.short k _ _ true tc tc' ih1 (by simp), rfl⟩
  | routing h ch w d tc f hr href hw hc ih =>
    intro hp
    cases d with
    | false => exact ⟨Rep.routing h ch w false tc f hr href hw hc, (hc rfl).1⟩
    | true =>
      have ih' := fun i => ih i (hp i).2
      have e2 : allNib.flatMap (fun i => (calcHash H (ch i)).2) = allNib.flatMap (fun i => PT.hash H (f i)) := by
        simp only [List.flatMap_def]
        congr 1
        exact List.map_congr_left (fun i _ => (ih' i).2)
      simp only [calcHash, if_true, List.map_map, Function.comp_def, List.flatMap_map, e2]
      refine ⟨Rep.routing _ _ w true tc f (fun i => ?_) (fun i hh ww hi => ?_) hw (by simp), by rw [hw]; rfl⟩
      · rw [ofList_map_allNib]; exact (ih' i).1
      · rw [ofList_map_allNib] at hi
        -- a refreshed child is a reference only when it was one
        have : ch i = .hashRef hh ww := by
          cases hci : ch i with
          | hashRef a b => simpa [hci, calcHash] using hi
          | nil => simp [hci, calcHash] at hi
          | empty => simp [hci, calcHash] at hi
          | value a b c d => cases d <;> simp [hci, calcHash] at hi
          | routing a b c d e => cases d <;> simp [hci, calcHash] at hi
          | short a b c d e =>
            cases d with
            | false => simp [hci, calcHash] at hi
            | true => by_cases hx : c.isNil <;> simp [hci, calcHash, hx] at hi
        exact href i hh ww this

/-- `Root()` on a trie: the root hash of the spec tree, and the trie still represents it -/
theorem rep_rootHash {P : PT → Prop} (t : WT) {tspec : PT} (h : Rep H P t.root tspec) (hp : Proper t.root)
    (hn : t.root.isNil = false) :
    Rep H P (rootHash H t).1.root tspec ∧ (rootHash H t).2 = PT.hash H tspec := by
  by_cases hd : t.root.dirty = true
  · simp only [rootHash, hd, if_true]
    exact rep_calcHash h hp
  · simp only [rootHash, hd, Bool.false_eq_true, if_false]
    exact ⟨h, h.hashField_of_clean (by simpa using hd) hn⟩

/-! ### 2. `Serialize` / `Save` of a represented node whose children are settled -/

/-- `CalcHash` of a node that is not dirty: nothing changes and the hash is the hash of the spec tree -/
theorem calcHash_rep_clean {P : PT → Prop} {c : WN} {tc : PT} (h : Rep H P c tc) (hd : c.dirty = false) :
    calcHash H c = (c, PT.hash H tc) := by
  cases h with
  | nil => rfl
  | empty => rfl
  | ref t _ _ => rfl
  | value h v w d hc => simp only [WN.dirty] at hd; subst hd; simp [calcHash, (hc rfl).1]
  | short k h c d tc tc' _ hc => simp only [WN.dirty] at hd; subst hd; simp [calcHash, (hc rfl).1]
  | routing h ch w d tc f _ _ _ hc => simp only [WN.dirty] at hd; subst hd; simp [calcHash, (hc rfl).1]

/-- the entry a settled child gets inside its parent branch is the honest entry of the subtree it stands for -/
theorem childEntry_rep {P : PT → Prop} {c : WN} {tc : PT} (h : Rep H P c tc) (hd : c.dirty = false)
    (he : c ≠ .empty) (hp : Proper c) (href : ∀ hh ww, c = .hashRef hh ww → tc.isShort = false) :
    childEntry H c = PT.childEntry H tc := by
  cases h with
  | nil => rfl
  | empty => exact absurd rfl he
  | ref t hn _ =>
    have hs := href _ _ rfl
    cases tc <;> simp_all [PT.isNone, PT.isShort, childEntry, PT.childEntry, WN.hashField, WN.weight, PT.weight]
  | value h v w d hc =>
    simp only [WN.dirty] at hd; subst hd
    simp [childEntry, PT.childEntry, WN.hashField, WN.weight, PT.weight, ← (hc rfl).1]
  | short k h c d tc tc' hr hc =>
    simp only [WN.dirty] at hd; subst hd
    obtain ⟨hnil, _, hcd, _⟩ := hp
    have h1 := hr.hashField_of_clean (hcd rfl) hnil
    have h2 := hr.weight
    simp [childEntry, PT.childEntry, WN.weight, h1, h2, ← (hc rfl).1]
  | routing h ch w d tc f _ _ hw hc =>
    simp only [WN.dirty] at hd; subst hd
    simp [childEntry, PT.childEntry, WN.hashField, WN.weight, ← (hc rfl).1, hw]

theorem saveNode_value_rep (h v : Bytes) (w : Nat) :
    saveNode H (.value h v w true) =
      (.value (PT.hash H (.value v w)) v w false,
       (PT.hash H (.value v w), Cbor.encBase (PT.persist H (.value v w)))) := by
  simp [saveNode, serializeP, calcHash, WN.hashField, PT.persist, PT.hash]

theorem saveNode_short_rep (hlen : ∀ x, (H x).length = 32) {P : PT → Prop} (k h : Bytes) {c : WN} (tc : Bool) {tc' : PT}
    (hr : Rep H P c tc') (hd : c.dirty = false) (hnil : c.isNil = false) :
    saveNode H (.short k h c true tc) =
      (.short k (PT.hash H (.short k tc')) c false false,
       (PT.hash H (.short k tc'), Cbor.encBase (PT.persist H (.short k tc')))) := by
  have h1 := hr.hashField_of_clean hd hnil
  have h2 := hr.weight
  have h3 := calcHash_rep_clean hr hd
  have h4 := pad32_of_length _ (PT.hash_length H hlen tc')
  simp only [saveNode, serializeP, calcHash, hnil, h3, if_true, Bool.false_eq_true, if_false, h1, h2, WN.weight, h4]
  simp [WN.hashField, PT.persist, PT.hash, h4]

theorem saveNode_routing_rep {P : PT → Prop} (h : Bytes) {ch : Nib → WN} {w : Nat} (tc : Bool) {f : Nib → PT}
    (hr : ∀ i, Rep H P (ch i) (f i)) (hd : ∀ i, (ch i).dirty = false) (he : ∀ i, ch i ≠ .empty)
    (hp : ∀ i, Proper (ch i)) (href : ∀ i hh ww, ch i = .hashRef hh ww → (f i).isShort = false)
    (hw : w = (PT.branch f).weight) :
    saveNode H (.routing h ch w true tc) =
      (.routing (PT.hash H (.branch f)) ch w false false,
       (PT.hash H (.branch f), Cbor.encBase (PT.persist H (.branch f)))) := by
  have h1 : allNib.map (fun i => calcHash H (ch i)) = allNib.map (fun i => (ch i, PT.hash H (f i))) :=
    List.map_congr_left (fun i _ => calcHash_rep_clean (hr i) (hd i))
  have h2 : allNib.map (fun i => childEntry H (ch i)) = allNib.map (fun i => PT.childEntry H (f i)) :=
    List.map_congr_left (fun i _ => childEntry_rep (hr i) (hd i) (he i) (hp i) (href i))
  simp [saveNode, serializeP, calcHash, h1, List.map_map, Function.comp_def, ofList_map_allNib', List.flatMap_map,
    WN.hashField, PT.persist, PT.hash, h2, hw]

/-- the children of the node are not dirty (they are saved, or references) -/
def KidsClean : WN → Prop
  | .short _ _ c _ _ => c.dirty = false
  | .routing _ ch _ _ _ => ∀ i, (ch i).dirty = false
  | _ => True

/-- `Serialize` of a represented in-memory node (dirty or not) whose children are settled yields the honest persisted
    form of the spec node (a reference serializes to a `hashNode` entry instead, and Go never serializes nil) -/
theorem serializeP_rep (hlen : ∀ x, (H x).length = 32) {P : PT → Prop} {n : WN} {t : PT} (h : Rep H P n t)
    (hp : Proper n) (hk : KidsClean n) (hnil : n.isNil = false) (hnr : ∀ hh ww, n ≠ .hashRef hh ww) :
    (serializeP H n).2 = PT.persist H t := by
  cases h with
  | nil => simp [WN.isNil] at hnil
  | empty => rfl
  | ref t _ _ => exact absurd rfl (hnr _ _)
  | value h v w d hc =>
    cases d with
    | false => simp [serializeP, calcHash, WN.hashField, PT.persist, ← (hc rfl).1]
    | true => simp [serializeP, calcHash, WN.hashField, PT.persist, PT.hash]
  | short k h c d tc tc' hr hc =>
    obtain ⟨hcn, _, _, _⟩ := hp
    have hd : c.dirty = false := hk
    have h1 := hr.hashField_of_clean hd hcn
    have h2 := hr.weight
    have h3 := calcHash_rep_clean hr hd
    have h4 := pad32_of_length _ (PT.hash_length H hlen tc')
    cases d with
    | false =>
      simp only [serializeP, calcHash, Bool.false_eq_true, if_false, h1, h2, WN.weight, h4]
      simp [PT.persist, h4, ← (hc rfl).1]
    | true =>
      simp only [serializeP, calcHash, hcn, h3, if_true, Bool.false_eq_true, if_false, h1, h2, WN.weight, h4]
      simp [PT.persist, PT.hash, h4]
  | routing h ch w d tc f hr href hw hc =>
    have hd : ∀ i, (ch i).dirty = false := hk
    have h1 : allNib.map (fun i => calcHash H (ch i)) = allNib.map (fun i => (ch i, PT.hash H (f i))) :=
      List.map_congr_left (fun i _ => calcHash_rep_clean (hr i) (hd i))
    have h2 : allNib.map (fun i => childEntry H (ch i)) = allNib.map (fun i => PT.childEntry H (f i)) :=
      List.map_congr_left (fun i _ => childEntry_rep (hr i) (hd i) (hp i).1 (hp i).2 (href i))
    cases d with
    | false => simp [serializeP, calcHash, PT.persist, h2, ← (hc rfl).1]
    | true =>
      simp [serializeP, calcHash, h1, List.map_map, Function.comp_def, ofList_map_allNib', List.flatMap_map,
        PT.persist, PT.hash, h2, hw]

/-! ### 3. the storage after a batch of puts -/

theorem get_put_same (s : Store) (k v : Bytes) : (s.put k v).get k = some v := by
  simp [Store.put, Store.get]

theorem get_put_ne (s : Store) (k v k' : Bytes) (h : k' ≠ k) : (s.put k v).get k' = s.get k' := by
  have := get_del_ne s k k' h
  simp only [Store.put, Store.get, List.lookup] at this ⊢
  have hk : (k' == k) = false := by simp [h]
  simp [hk, this]

/-- reading key `k` after a batch of puts: untouched when no put has that key, else the value of one of them -/
theorem get_apply_puts (ps : List (Bytes × Bytes)) (s : Store) (k : Bytes) :
    ((∀ p ∈ ps, p.1 ≠ k) ∧ (s.apply (ps.map (fun p => StoreOp.put p.1 p.2))).get k = s.get k) ∨
    (∃ v, (k, v) ∈ ps ∧ (s.apply (ps.map (fun p => StoreOp.put p.1 p.2))).get k = some v) := by
  induction ps generalizing s with
  | nil => left; exact ⟨by simp, rfl⟩
  | cons q tl ih =>
    simp only [List.map_cons, Store.apply]
    rcases ih (s.put q.1 q.2) with ⟨hno, hg⟩ | ⟨v, hv, hg⟩
    · by_cases hk : k = q.1
      · right
        refine ⟨q.2, by subst hk; exact List.mem_cons_self, ?_⟩
        rw [hg, hk, get_put_same]
      · left
        refine ⟨?_, by rw [hg, get_put_ne _ _ _ _ hk]⟩
        intro p hp
        rcases List.mem_cons.mp hp with rfl | hp
        · exact fun e => hk e.symm
        · exact hno p hp
    · right; exact ⟨v, List.mem_cons_of_mem _ hv, hg⟩

/-- a batch whose puts agree on equal keys makes each of its puts readable -/
theorem get_apply_puts_mem (ps : List (Bytes × Bytes)) (s : Store)
    (hc : ∀ p ∈ ps, ∀ q ∈ ps, p.1 = q.1 → p.2 = q.2) (p : Bytes × Bytes) (hp : p ∈ ps) :
    (s.apply (ps.map (fun p => StoreOp.put p.1 p.2))).get p.1 = some p.2 := by
  rcases get_apply_puts ps s p.1 with ⟨hno, _⟩ | ⟨v, hv, hg⟩
  · exact absurd rfl (hno p hp)
  · rw [hg, hc p hp (p.1, v) hv rfl]

/-- the hash separates the persisted forms of the spec nodes in `S` (collision freedom relative to `S`; a global
    injectivity of a 32-byte hash would be unsatisfiable) -/
def HashInj (H : Bytes → Bytes) (S : PT → Prop) : Prop :=
  ∀ x y, S x → S y → PT.hash H x = PT.hash H y → PT.persist H x = PT.persist H y

/-- `S` contains the nodes of its members -/
def SubClosed (S : PT → Prop) : Prop := ∀ t x, S t → PT.Sub x t → S x

/-- every put of the batch writes a spec node of `S` under its hash -/
def HonestPuts (H : Bytes → Bytes) (S : PT → Prop) (ps : List (Bytes × Bytes)) : Prop :=
  ∀ p ∈ ps, ∃ x, S x ∧ p = (PT.hash H x, Cbor.encBase (PT.persist H x))

theorem StoredAll.of_sub {s s' : Store} {t : PT}
    (h : ∀ x, PT.Sub x t → x.isNone = false → s.get (PT.hash H x) = some (Cbor.encBase (PT.persist H x)) →
      s'.get (PT.hash H x) = some (Cbor.encBase (PT.persist H x))) :
    StoredAll H s t → StoredAll H s' t := by
  induction t with
  | none => intro _; trivial
  | value v w => intro hs; exact h _ (PT.Sub.refl _) rfl hs
  | short k c ih =>
    intro hs
    exact ⟨h _ (PT.Sub.refl _) rfl hs.1, ih (fun x hx => h x hx.short) hs.2⟩
  | branch ch ih =>
    intro hs
    exact ⟨h _ (PT.Sub.refl _) rfl hs.1, fun i => ih i (fun x hx => h x (hx.branch i)) (hs.2 i)⟩

/-- store monotonicity: honest puts of nodes of `S` keep every stored tree of `S` stored -/
theorem storedAll_mono {S : PT → Prop} (hcl : SubClosed S) (hinj : HashInj H S) {s : Store} {t : PT}
    {ps : List (Bytes × Bytes)} (hst : StoredAll H s t) (ht : S t) (hps : HonestPuts H S ps) :
    StoredAll H (s.apply (ps.map (fun p => StoreOp.put p.1 p.2))) t := by
  refine StoredAll.of_sub (fun x hx _ hg => ?_) hst
  rcases get_apply_puts ps s (PT.hash H x) with ⟨_, hg'⟩ | ⟨v, hv, hg'⟩
  · rw [hg', hg]
  · obtain ⟨y, hy, e⟩ := hps _ hv
    have e1 : PT.hash H x = PT.hash H y := congrArg Prod.fst e
    have e2 : v = Cbor.encBase (PT.persist H y) := congrArg Prod.snd e
    rw [hg', e2, hinj x y (hcl t x ht hx) hy e1]

/-- honest puts of nodes of `S` agree on equal keys -/
theorem HonestPuts.agree {S : PT → Prop} (hinj : HashInj H S) {ps : List (Bytes × Bytes)} (hps : HonestPuts H S ps) :
    ∀ p ∈ ps, ∀ q ∈ ps, p.1 = q.1 → p.2 = q.2 := by
  intro p hp q hq e
  obtain ⟨x, hx, rfl⟩ := hps p hp
  obtain ⟨y, hy, rfl⟩ := hps q hq
  simp only at e ⊢
  rw [hinj x y hx hy e]

/-! ### 4. `commitNode` -/

/-- What the result (`node`, `puts`) of committing a node that represents `t` over `s` guarantees, in a form that
    composes over the children of a node: the statement about the storage is made for every storage `s''` that keeps
    the trees of `s` below `t` and from which every put can be read back. -/
def CommitOK (H : Bytes → Bytes) (s : Store) (t : PT) (node : WN) (puts : List (Bytes × Bytes)) : Prop :=
  Rep H (fun _ => True) node t ∧ node.dirty = false ∧ Proper node ∧
  (∀ p ∈ puts, ∃ x, PT.Sub x t ∧ x.isNone = false ∧ p = (PT.hash H x, Cbor.encBase (PT.persist H x))) ∧
  ∀ s'', (∀ x, PT.Sub x t → StoredAll H s x → StoredAll H s'' x) → (∀ p ∈ puts, s''.get p.1 = some p.2) →
    RepS H s'' node t ∧ StoredAll H s'' t

/-- a node that is not dirty is left alone -/
theorem CommitOK.skip {s : Store} {n : WN} {t : PT} (h : RepS H s n t) (hp : Proper n) (hd : n.dirty = false) :
    CommitOK H s t n [] := by
  refine ⟨h.mono (fun _ _ _ => trivial), hd, hp, by simp, fun s'' hret _ => ⟨h.mono hret, ?_⟩⟩
  by_cases hn : t.isNone = true
  · cases t <;> simp [PT.isNone] at hn
    trivial
  · exact hret t (PT.Sub.refl t) (h.P_of_clean hd (by simpa using hn))

theorem commitOK_value (s : Store) (v : Bytes) (w : Nat) :
    CommitOK H s (.value v w) (.value (PT.hash H (.value v w)) v w false)
      [(PT.hash H (.value v w), Cbor.encBase (PT.persist H (.value v w)))] := by
  refine ⟨Rep.value _ v w false (fun _ => ⟨rfl, trivial⟩), rfl, trivial, ?_, fun s'' _ hget => ?_⟩
  · intro p hp
    exact ⟨_, PT.Sub.refl _, rfl, List.mem_singleton.mp hp⟩
  · have hs : StoredAll H s'' (.value v w) := hget _ List.mem_cons_self
    exact ⟨Rep.value _ v w false (fun _ => ⟨rfl, hs⟩), hs⟩

theorem commitOK_short {s : Store} (k : Bytes) {tc' : PT} {cn cn' : WN} {cputs : List (Bytes × Bytes)}
    (hc : CommitOK H s tc' cn cputs) (hne : tc'.isNone = false)
    (hcn : cn' = cn ∨ cn' = .hashRef (PT.hash H tc') tc'.weight) :
    CommitOK H s (.short k tc') (.short k (PT.hash H (.short k tc')) cn' false false)
      (cputs ++ [(PT.hash H (.short k tc'), Cbor.encBase (PT.persist H (.short k tc')))]) := by
  obtain ⟨c1, c2, c3, c4, c5⟩ := hc
  have hcn1 : Rep H (fun _ => True) cn' tc' := by
    rcases hcn with rfl | rfl
    · exact c1
    · exact Rep.ref tc' hne trivial
  refine ⟨Rep.short k _ cn' false false tc' hcn1 (fun _ => ⟨rfl, trivial⟩), rfl, ?_, ?_, fun s'' hret hget => ?_⟩
  · rcases hcn with rfl | rfl
    · exact ⟨(c1.not_nil_empty hne).1, (c1.not_nil_empty hne).2, fun _ => c2, c3⟩
    · simp [Proper, WN.isNil, WN.dirty]
  · intro p hp
    rcases List.mem_append.mp hp with hp | hp
    · obtain ⟨x, hx, hxn, e⟩ := c4 p hp
      exact ⟨x, hx.short, hxn, e⟩
    · exact ⟨_, PT.Sub.refl _, rfl, List.mem_singleton.mp hp⟩
  · obtain ⟨r1, r2⟩ := c5 s'' (fun x hx => hret x hx.short) (fun p hp => hget p (List.mem_append_left _ hp))
    have hs : StoredAll H s'' (.short k tc') :=
      ⟨hget _ (List.mem_append_right _ List.mem_cons_self), r2⟩
    refine ⟨Rep.short k _ cn' false false tc' ?_ (fun _ => ⟨rfl, hs⟩), hs⟩
    rcases hcn with rfl | rfl
    · exact r1
    · exact Rep.ref tc' hne r2

theorem commitOK_routing {s : Store} {f : Nib → PT} {cn : Nib → WN} {cp : Nib → List (Bytes × Bytes)} {w : Nat}
    (hc : ∀ i, CommitOK H s (f i) (cn i) (cp i)) (he : ∀ i, cn i ≠ .empty)
    (href : ∀ i hh ww, cn i = .hashRef hh ww → (f i).isShort = false) (hw : w = (PT.branch f).weight)
    {node : WN}
    (hnode : node = .routing (PT.hash H (.branch f)) cn w false false ∨ node = .hashRef (PT.hash H (.branch f)) w) :
    CommitOK H s (.branch f) node
      (allNib.flatMap cp ++ [(PT.hash H (.branch f), Cbor.encBase (PT.persist H (.branch f)))]) := by
  have hrep : ∀ (P : PT → Prop), (∀ i, Rep H P (cn i) (f i)) → P (.branch f) → Rep H P node (.branch f) := by
    intro P hr hp
    rcases hnode with rfl | rfl
    · exact Rep.routing _ cn w false false f hr href hw (fun _ => ⟨rfl, hp⟩)
    · rw [hw]; exact Rep.ref (.branch f) rfl hp
  refine ⟨hrep _ (fun i => (hc i).1) trivial, ?_, ?_, ?_, fun s'' hret hget => ?_⟩
  · rcases hnode with rfl | rfl <;> rfl
  · rcases hnode with rfl | rfl
    · exact fun i => ⟨he i, (hc i).2.2.1⟩
    · trivial
  · intro p hp
    rcases List.mem_append.mp hp with hp | hp
    · obtain ⟨i, _, hpi⟩ := List.mem_flatMap.mp hp
      obtain ⟨x, hx, hxn, e⟩ := (hc i).2.2.2.1 p hpi
      exact ⟨x, hx.branch i, hxn, e⟩
    · exact ⟨_, PT.Sub.refl _, rfl, List.mem_singleton.mp hp⟩
  · have hk : ∀ i, RepS H s'' (cn i) (f i) ∧ StoredAll H s'' (f i) := fun i =>
      (hc i).2.2.2.2 s'' (fun x hx => hret x (hx.branch i))
        (fun p hp => hget p (List.mem_append_left _ (List.mem_flatMap.mpr ⟨i, by simp [allNib], hp⟩)))
    have hs : StoredAll H s'' (.branch f) :=
      ⟨hget _ (List.mem_append_right _ List.mem_cons_self), fun i => (hk i).2⟩
    exact ⟨hrep _ (fun i => (hk i).1) hs, hs⟩

/-- the per-child step of `commit` on a branch: nil and clean children are skipped -/
def commitKid (H : Bytes → Bytes) (collapse : Int) (lvl : Nat) (c : WN) : CRes :=
  if c.isNil || !c.dirty then { node := c } else commitNode H collapse lvl c

theorem commitNode_routing_node (collapse : Int) (lvl : Nat) (h : Bytes) (ch : Nib → WN) (w : Nat) (tc : Bool) :
    (commitNode H collapse lvl (.routing h ch w true tc)).node =
      if (lvl : Int) = collapse then
        .hashRef ((saveNode H (.routing h (fun i => (commitKid H collapse (lvl + 1) (ch i)).node) w true tc)).1.hashField H) w
      else (saveNode H (.routing h (fun i => (commitKid H collapse (lvl + 1) (ch i)).node) w true tc)).1 := by
  simp [commitNode, commitKid, List.map_map, Function.comp_def, ofList_map_allNib']

theorem commitNode_routing_puts (collapse : Int) (lvl : Nat) (h : Bytes) (ch : Nib → WN) (w : Nat) (tc : Bool) :
    (commitNode H collapse lvl (.routing h ch w true tc)).puts =
      allNib.flatMap (fun i => (commitKid H collapse (lvl + 1) (ch i)).puts) ++
        [(saveNode H (.routing h (fun i => (commitKid H collapse (lvl + 1) (ch i)).node) w true tc)).2] := by
  simp [commitNode, commitKid, List.map_map, Function.comp_def, ofList_map_allNib', List.flatMap_map]

/-- the committed children of a branch and the branch saved on top of them -/
theorem commitOK_kids (collapse : Int) (lvl : Nat) {s : Store} (h : Bytes) {ch : Nib → WN} {w : Nat} (tc : Bool)
    {f : Nib → PT} (hr : ∀ i, RepS H s (ch i) (f i)) (hp : ∀ i, ch i ≠ .empty ∧ Proper (ch i))
    (href : ∀ i hh ww, ch i = .hashRef hh ww → (f i).isShort = false) (hw : w = (PT.branch f).weight)
    (ih : ∀ i, Proper (ch i) →
      CommitOK H s (f i) (commitNode H collapse lvl (ch i)).node (commitNode H collapse lvl (ch i)).puts ∧
      ((f i).isShort = true → ∀ hh ww, (commitNode H collapse lvl (ch i)).node = .hashRef hh ww → ch i = .hashRef hh ww)) :
    saveNode H (.routing h (fun i => (commitKid H collapse lvl (ch i)).node) w true tc) =
      (.routing (PT.hash H (.branch f)) (fun i => (commitKid H collapse lvl (ch i)).node) w false false,
       (PT.hash H (.branch f), Cbor.encBase (PT.persist H (.branch f)))) ∧
    ∀ node, node = .routing (PT.hash H (.branch f)) (fun i => (commitKid H collapse lvl (ch i)).node) w false false ∨
        node = .hashRef (PT.hash H (.branch f)) w →
      CommitOK H s (.branch f) node
        (allNib.flatMap (fun i => (commitKid H collapse lvl (ch i)).puts) ++
          [(PT.hash H (.branch f), Cbor.encBase (PT.persist H (.branch f)))]) := by
  have hk : ∀ i, CommitOK H s (f i) (commitKid H collapse lvl (ch i)).node (commitKid H collapse lvl (ch i)).puts ∧
      (commitKid H collapse lvl (ch i)).node ≠ .empty ∧
      (∀ hh ww, (commitKid H collapse lvl (ch i)).node = .hashRef hh ww → (f i).isShort = false) := by
    intro i
    unfold commitKid
    by_cases hc : ((ch i).isNil || !(ch i).dirty) = true
    · simp only [hc, if_true]
      have hd : (ch i).dirty = false := by
        cases hci : ch i <;> simp_all [WN.isNil, WN.dirty]
      exact ⟨CommitOK.skip (hr i) (hp i).2 hd, (hp i).1, href i⟩
    · simp only [hc, Bool.false_eq_true, if_false]
      obtain ⟨i1, i2⟩ := ih i (hp i).2
      have hd : (ch i).dirty = true := by
        cases hx : (ch i).dirty <;> simp_all
      have hne : (f i).isNone = false := by
        apply (hr i).isNone_false
        · cases hci : ch i <;> simp_all [WN.isNil, WN.dirty]
        · exact (hp i).1
      refine ⟨i1, (i1.1.not_nil_empty hne).2, fun hh ww e => ?_⟩
      by_cases hs : (f i).isShort = true
      · exact href i hh ww (i2 hs hh ww e)
      · simpa using hs
  refine ⟨saveNode_routing_rep h tc (fun i => (hk i).1.1) (fun i => (hk i).1.2.1) (fun i => (hk i).2.1)
    (fun i => (hk i).1.2.2.1) (fun i => (hk i).2.2) hw, fun node hnode => ?_⟩
  exact commitOK_routing (fun i => (hk i).1) (fun i => (hk i).2.1) (fun i => (hk i).2.2) hw hnode

theorem commitNode_clean (collapse : Int) (lvl : Nat) (n : WN) (hd : n.dirty = false) :
    commitNode H collapse lvl n = { node := n } := by
  cases n <;> simp_all [commitNode, WN.dirty]

theorem commitNode_ok_clean (collapse : Int) (lvl : Nat) {s : Store} {n : WN} {t : PT} (h : RepS H s n t)
    (hp : Proper n) (hd : n.dirty = false) :
    CommitOK H s t (commitNode H collapse lvl n).node (commitNode H collapse lvl n).puts ∧
    (t.isShort = true → ∀ hh ww, (commitNode H collapse lvl n).node = .hashRef hh ww → n = .hashRef hh ww) := by
  rw [commitNode_clean collapse lvl n hd]
  exact ⟨CommitOK.skip h hp hd, fun _ _ _ e => e⟩

/-- the composable form of the main theorem -/
theorem commitNode_ok (hlen : ∀ x, (H x).length = 32) (collapse : Int) {s : Store} {n : WN} {t : PT}
    (h : RepS H s n t) : ∀ lvl, Proper n →
    CommitOK H s t (commitNode H collapse lvl n).node (commitNode H collapse lvl n).puts ∧
    (t.isShort = true → ∀ hh ww, (commitNode H collapse lvl n).node = .hashRef hh ww → n = .hashRef hh ww) := by
  induction h with
  | nil => intro lvl hp; exact commitNode_ok_clean collapse lvl Rep.nil hp rfl
  | empty => intro lvl hp; exact commitNode_ok_clean collapse lvl Rep.empty hp rfl
  | ref t hn hpt => intro lvl hp; exact commitNode_ok_clean collapse lvl (Rep.ref t hn hpt) hp rfl
  | value h v w d hc =>
    intro lvl hp
    cases d with
    | false => exact commitNode_ok_clean collapse lvl (Rep.value h v w false hc) hp rfl
    | true =>
      simp only [commitNode, Bool.not_true, Bool.false_eq_true, if_false, saveNode_value_rep]
      exact ⟨commitOK_value s v w, by simp [PT.isShort]⟩
  | short k h c d tc tc' hr hc ih =>
    intro lvl hp
    cases d with
    | false => exact commitNode_ok_clean collapse lvl (Rep.short k h c false tc tc' hr hc) hp rfl
    | true =>
      obtain ⟨hnil, hemp, _, hpc⟩ := hp
      obtain ⟨i1, _⟩ := ih (lvl + 1) hpc
      have hne : tc'.isNone = false := hr.isNone_false hnil hemp
      have hnil' := (i1.1.not_nil_empty hne).1
      have e := saveNode_short_rep hlen k h tc i1.1 i1.2.1 hnil'
      have e1 := i1.1.hashField_of_clean i1.2.1 hnil'
      have e2 := i1.1.weight
      simp only [commitNode, Bool.not_true, Bool.false_eq_true, if_false, hnil, e, e1, e2]
      by_cases hl : (lvl : Int) = collapse
      · simp only [hl, if_true]
        exact ⟨commitOK_short k i1 hne (Or.inr rfl), by simp⟩
      · simp only [hl, if_false]
        exact ⟨commitOK_short k i1 hne (Or.inl rfl), by simp⟩
  | routing h ch w d tc f hr href hw hc ih =>
    intro lvl hp
    cases d with
    | false => exact commitNode_ok_clean collapse lvl (Rep.routing h ch w false tc f hr href hw hc) hp rfl
    | true =>
      obtain ⟨e, hk⟩ := commitOK_kids collapse (lvl + 1) h tc hr hp href hw (fun i => ih i (lvl + 1))
      rw [commitNode_routing_node, commitNode_routing_puts, e]
      refine ⟨hk _ ?_, by simp [PT.isShort]⟩
      by_cases hl : (lvl : Int) = collapse
      · right; simp [hl, WN.hashField]
      · left; simp [hl]

/-- from the composable form to the storage after the batch, given collision freedom on a set `S` of spec nodes that
    contains `t` (and whatever else has to stay stored) and is closed under taking subtrees -/
theorem CommitOK.apply {S : PT → Prop} (hcl : SubClosed S) (hinj : HashInj H S) {s : Store} {t : PT} {node : WN}
    {puts : List (Bytes × Bytes)} (hc : CommitOK H s t node puts) (hS : S t) :
    RepS H (s.apply (puts.map (fun p => StoreOp.put p.1 p.2))) node t ∧
    StoredAll H (s.apply (puts.map (fun p => StoreOp.put p.1 p.2))) t ∧
    HonestPuts H S puts ∧
    ∀ t2, S t2 → StoredAll H s t2 → StoredAll H (s.apply (puts.map (fun p => StoreOp.put p.1 p.2))) t2 := by
  obtain ⟨_, _, _, c4, c5⟩ := hc
  have hps : HonestPuts H S puts := by
    intro p hp
    obtain ⟨x, hx, _, e⟩ := c4 p hp
    exact ⟨x, hcl t x hS hx, e⟩
  have hmono : ∀ t2, S t2 → StoredAll H s t2 → StoredAll H (s.apply (puts.map (fun p => StoreOp.put p.1 p.2))) t2 :=
    fun t2 h2 hs2 => storedAll_mono hcl hinj hs2 h2 hps
  obtain ⟨r1, r2⟩ := c5 _ (fun x hx hs => hmono x (hcl t x hS hx) hs) (get_apply_puts_mem puts s (hps.agree hinj))
  exact ⟨r1, r2, hps, hmono⟩

/-- MAIN (C11 for `commitNode`): once the batch of `commitNode` has been written, the committed node represents the
    same spec tree over the new storage, it is clean, the whole tree is stored, every put writes a node of the tree
    under its hash, and every other stored tree of `S` is still stored. No "a dirty child has a dirty parent" hypothesis
    is needed beyond the short-node clause of `Proper`: a clean node is skipped, and `Rep` already says that its whole
    subtree is stored under the cached hash. -/
theorem rep_commitNode (hlen : ∀ x, (H x).length = 32) {S : PT → Prop} (hcl : SubClosed S) (hinj : HashInj H S)
    (collapse : Int) (lvl : Nat) {s : Store} {n : WN} {t : PT} (h : RepS H s n t) (hp : Proper n) (hS : S t) :
    let r := commitNode H collapse lvl n
    let s' := s.apply (r.puts.map (fun p => StoreOp.put p.1 p.2))
    RepS H s' r.node t ∧ StoredAll H s' t ∧ r.node.dirty = false ∧ Proper r.node ∧
    (∀ p ∈ r.puts, ∃ x, PT.Sub x t ∧ x.isNone = false ∧ p = (PT.hash H x, Cbor.encBase (PT.persist H x))) ∧
    (∀ t2, S t2 → StoredAll H s t2 → StoredAll H s' t2) := by
  intro r s'
  have hc := (commitNode_ok hlen collapse h lvl hp).1
  obtain ⟨r1, r2, _, r4⟩ := hc.apply hcl hinj hS
  exact ⟨r1, r2, hc.2.1, hc.2.2.1, hc.2.2.2.1, r4⟩

/-! ### 5. `Commit(collapseLevel)` -/

theorem commit_ok (hlen : ∀ x, (H x).length = 32) (collapse : Int) (t : WT) {tspec : PT}
    (h : RepS H t.store t.root tspec) (hp : Proper t.root) :
    ∃ node puts, (commit H t collapse).1.root = node ∧ (commit H t collapse).1.store = t.store ∧
      (commit H t collapse).2 = puts.map (fun p => StoreOp.put p.1 p.2) ∧
      CommitOK H t.store tspec node puts := by
  obtain ⟨root, hasDb, store, oldRoot, deleted, tempDeleted, pending, created⟩ := t
  simp only at h hp
  by_cases hd : root.dirty = false
  · refine ⟨root, [], ?_, ?_, by simp [commit, hd], CommitOK.skip h hp hd⟩
    · simp only [commit, hd, Bool.not_false, if_true]; split <;> rfl
    · simp only [commit, hd, Bool.not_false, if_true]; split <;> rfl
  · have hd' : root.dirty = true := by simpa using hd
    cases h with
    | nil => simp [WN.dirty] at hd'
    | empty => simp [WN.dirty] at hd'
    | ref _ _ _ => simp [WN.dirty] at hd'
    | value hh v w d hc =>
      simp only [WN.dirty] at hd'; subst hd'
      have hdd : (WN.value hh v w true).dirty = true := rfl
      have := (commitNode_ok hlen collapse (Rep.value hh v w true hc) 0 hp).1
      exact ⟨_, _, by simp [commit, hdd], by simp [commit, hdd], by simp [commit, hdd], this⟩
    | short k hh c d tc tc' hr hc =>
      simp only [WN.dirty] at hd'; subst hd'
      have hdd : (WN.short k hh c true tc).dirty = true := rfl
      have := (commitNode_ok hlen collapse (Rep.short k hh c true tc tc' hr hc) 0 hp).1
      exact ⟨_, _, by simp [commit, hdd], by simp [commit, hdd], by simp [commit, hdd], this⟩
    | routing hh ch w d tc f hr href hw hc =>
      simp only [WN.dirty] at hd'; subst hd'
      have hdd : (WN.routing hh ch w true tc).dirty = true := rfl
      obtain ⟨e, hk⟩ := commitOK_kids collapse 1 hh tc hr hp href hw
        (fun i hpi => commitNode_ok hlen collapse (hr i) 1 hpi)
      simp only [commitKid] at e hk
      refine ⟨_, _, ?_, ?_, ?_, hk _ (Or.inl rfl)⟩
      · simp only [commit, hdd, Bool.not_true, Bool.false_eq_true, if_false, List.map_map, Function.comp_def,
          ofList_map_allNib', e]
      · simp [commit, hdd]
      · simp only [commit, hdd, Bool.not_true, Bool.false_eq_true, if_false, List.map_map, Function.comp_def,
          ofList_map_allNib', List.flatMap_map, e]

/-- MAIN (C11): after `Commit(collapseLevel)` and the write of its batch, the trie in memory represents the same spec
    tree over the new storage, its root is clean and carries the root hash, the whole tree is in storage (so it can be
    reopened from the root hash alone, Verif.Lemmas.WmptReopen), and every other stored tree of `S` is still stored.
    `Commit` itself leaves `store` alone: the caller writes the batch. -/
theorem rep_commit (hlen : ∀ x, (H x).length = 32) {S : PT → Prop} (hcl : SubClosed S) (hinj : HashInj H S)
    (collapse : Int) (t : WT) {tspec : PT} (h : RepS H t.store t.root tspec) (hp : Proper t.root) (hS : S tspec) :
    let t' := (commit H t collapse).1
    let s' := t.store.apply (commit H t collapse).2
    RepS H s' t'.root tspec ∧ StoredAll H s' tspec ∧ t'.root.dirty = false ∧ Proper t'.root ∧
    (tspec.isNone = false → t'.root.hashField H = PT.hash H tspec) ∧
    t'.store = t.store ∧
    (∀ t2, S t2 → StoredAll H t.store t2 → StoredAll H s' t2) := by
  intro t' s'
  obtain ⟨node, puts, e1, e2, e3, hc⟩ := commit_ok hlen collapse t h hp
  obtain ⟨r1, r2, _, r4⟩ := hc.apply hcl hinj hS
  have hs' : s' = t.store.apply (puts.map (fun p => StoreOp.put p.1 p.2)) := by simp only [s', e3]
  have ht' : t'.root = node := e1
  rw [hs', ht']
  exact ⟨r1, r2, hc.2.1, hc.2.2.1, fun hn => r1.hashField_of_clean hc.2.1 (r1.not_nil_empty hn).1, e2, r4⟩

/-- the smallest instance: the only collision freedom `Commit` itself needs is among the nodes of the committed tree -/
theorem subClosed_sub (t : PT) : SubClosed (fun x => PT.Sub x t) := fun _ _ ht hx => hx.trans ht

theorem rep_commit_self (hlen : ∀ x, (H x).length = 32) (collapse : Int) (t : WT) {tspec : PT}
    (hinj : HashInj H (fun x => PT.Sub x tspec)) (h : RepS H t.store t.root tspec) (hp : Proper t.root) :
    let t' := (commit H t collapse).1
    let s' := t.store.apply (commit H t collapse).2
    RepS H s' t'.root tspec ∧ StoredAll H s' tspec ∧ t'.root.dirty = false ∧ Proper t'.root ∧
    (tspec.isNone = false → t'.root.hashField H = PT.hash H tspec) := by
  intro t' s'
  obtain ⟨r1, r2, r3, r4, r5, _⟩ := rep_commit hlen (subClosed_sub tspec) hinj collapse t h hp (PT.Sub.refl tspec)
  exact ⟨r1, r2, r3, r4, r5⟩

end
end Verif.Wmpt
