/-
`Update(key, empty value, w)` is the delete spelling of the Go API.  `HOp.wf` demands a non-empty value for `.upd`, so
the history theorems of Verif.Lemmas.WmptGcInv do not speak about it; here it is reduced to `.del key`:

  1. `HOp.normDel`, `HOp.wf'`;
  2. `hstep_upd_empty`  : on a state whose root is not `nil`, `Update(key, [], w)` with a 64-nibble key is `Delete(key)`;
  3. `hrun_normDel`     : a history and its normalized history reach the same state; `gc_stored_wf'`,
     `gc_recoverable_wf'`, `gc_answers_are_spec_wf'`.
Core Lean only.
-/
import Verif.Lemmas.WmptGcInv
namespace Verif.Wmpt
open RepOps RepMore

/-! ### 1. the normalized history -/

/-- `Update(key, empty, _)` spelled as the `Delete(key)` it is -/
def HOp.normDel : HOp → HOp
  | .upd key [] _ => .del key
  | op => op

/-- like `HOp.wf`, but `Update` takes any value (the empty one included) -/
def HOp.wf' : HOp → Prop
  | .upd key _ _ => key.length = 64
  | .del key => key.length = 64
  | _ => True

theorem HOp.wf'_of_wf {op : HOp} (h : op.wf) : op.wf' := by
  cases op with
  | upd key v w => exact h.1
  | del key => exact h
  | _ => trivial

theorem HOp.normDel_of_wf {op : HOp} (h : op.wf) : op.normDel = op := by
  cases op with
  | upd key v w =>
    cases v with
    | nil => exact absurd rfl h.2
    | cons a l => rfl
  | _ => rfl

theorem HOp.normDel_wf {op : HOp} (h : op.wf') : op.normDel.wf := by
  cases op with
  | upd key v w =>
    cases v with
    | nil => exact h
    | cons a l => exact ⟨h, by simp⟩
  | del key => exact h
  | _ => trivial

theorem HOp.normDel_plainGC {op : HOp} (h : op.plainGC) : op.normDel.plainGC := by
  cases op with
  | upd key v w => cases v <;> trivial
  | del key => trivial
  | root => trivial
  | commit lvl => trivial
  | gc => trivial
  | saveRoot => exact h.elim
  | rollback => exact h.elim

section
variable {H : Bytes → Bytes}

/-! ### 2. one step -/

/-- a failed `delete` on a node that is not `nil` leaves a node that is not `nil` (the in-place state keeps the top
    constructor) -/
theorem delete_err_notNil (hasDb : Bool) (s : Store) (fuel : Nat) (n : WN) (key : List Nib) (e : Err)
    (hn : n.isNil = false) :
    (delete H hasDb s fuel n key).err = some e → (delete H hasDb s fuel n key).node.isNil = false := by
  cases fuel with
  | zero => simpa [delete] using fun _ => hn
  | succ fuel =>
    cases n with
    | nil => cases hn
    | empty => simp [delete, WN.isNil]
    | value h v w d =>
      simp only [delete]
      split
      · intro _; rfl
      · intro he; cases he
    | hashRef h w =>
      simp only [delete]
      split
      · intro _; rfl
      · split
        · intro _; rfl
        · rename_i hnone
          intro he
          rw [hnone] at he
          cases he
    | short sk h c d tc =>
      simp only [delete]
      split
      · intro _; rfl
      · split
        · intro he; cases he
        · split
          · intro _; rfl
          · split <;> (intro he; cases he)
    | routing h ch w d tc =>
      simp only [delete]
      split
      · intro _; rfl
      · split
        · intro _; rfl
        · split
          · intro he; cases he
          · split
            · intro he; cases he
            · split
              · intro _; rfl
              · split <;> (intro he; cases he)

/-- `Update(key, [], w)` on a trie whose root is not `nil`, with a 64-nibble key, leaves the trie `Delete(key)` leaves
    (the two differ in `normRoot` applied to the input root and to the root of a failed call only) -/
theorem update_empty_eq_deleteKey (t : WT) (key : List Nib) (w : Nat) (hn : t.root.isNil = false)
    (hk : key.length = 64) : (update H t key [] w).1 = (deleteKey H t key).1 := by
  have e0 : normRoot t.root = t.root := normRoot_of_notNil hn
  unfold update deleteKey
  rw [e0]
  simp only [hk, ne_eq, not_true_eq_false, if_false]
  cases he : (delete H t.hasDb t.store (fuelFor key) t.root key).err with
  | none => rfl
  | some e =>
    simp only
    rw [normRoot_of_notNil (delete_err_notNil t.hasDb t.store (fuelFor key) t.root key e hn he)]

/-- ... with the same verdict: the same error, or both succeed -/
theorem update_empty_res (t : WT) (key : List Nib) (w : Nat) (hn : t.root.isNil = false) (hk : key.length = 64) :
    ((update H t key [] w).2 = .ok () ↔ ∃ c, (deleteKey H t key).2 = .ok c) ∧
    (∀ e, (update H t key [] w).2 = .err e ↔ (deleteKey H t key).2 = .err e) := by
  have e0 : normRoot t.root = t.root := normRoot_of_notNil hn
  unfold update deleteKey
  rw [e0]
  simp only [hk, ne_eq, not_true_eq_false, if_false]
  cases he : (delete H t.hasDb t.store (fuelFor key) t.root key).err with
  | none => simp
  | some e => simp

/-- 2. `Update(key, [], w)` is `Delete(key)`.  Hypotheses: the root is not `nil` (`GInv.notNil` / `HInv.notNil`: the
    state of every history; on a `nil` root `Update` normalizes to the empty node and `Delete` does not), and a
    64-nibble key (`Update` rejects any other key, `Delete` does not check). -/
theorem hstep_upd_empty (s : HState) (key : List Nib) (w : Nat) (hn : s.t.root.isNil = false)
    (hk : key.length = 64) : hstep H s (.upd key [] w) = hstep H s (.del key) := by
  show ({ s with t := (update H s.t key [] w).1 } : HState) = { s with t := (deleteKey H s.t key).1 }
  rw [update_empty_eq_deleteKey s.t key w hn hk]

theorem hstep_normDel (s : HState) (op : HOp) (hn : s.t.root.isNil = false) (hwf : op.wf') :
    hstep H s op = hstep H s op.normDel := by
  cases op with
  | upd key v w =>
    cases v with
    | nil => exact hstep_upd_empty s key w hn hwf
    | cons a l => rfl
  | _ => rfl

/-! ### 3. a whole history -/

theorem normDel_all (ops : List HOp) (hall : ∀ op ∈ ops, op.plainGC ∧ op.wf') :
    ∀ o ∈ ops.map HOp.normDel, o.plainGC ∧ o.wf := by
  intro o ho
  obtain ⟨o', ho', rfl⟩ := List.mem_map.mp ho
  exact ⟨HOp.normDel_plainGC (hall o' ho').1, HOp.normDel_wf (hall o' ho').2⟩

theorem hrun_normDel_aux (hlen : ∀ x, (H x).length = 32) (ops : List HOp)
    (hall : ∀ op ∈ ops, op.plainGC ∧ op.wf')
    (hok : ∀ p q, ops.map HOp.normDel = p ++ q → PTOK (specRun p) ∧ Distinct H (specRun p))
    (q : List HOp) : ∀ (p : List HOp), ops = p ++ q → hrun H p = hrun H (p.map HOp.normDel) →
      hrun H ops = hrun H (ops.map HOp.normDel) := by
  induction q with
  | nil =>
    intro p hsplit hp
    rw [List.append_nil] at hsplit
    rw [hsplit]; exact hp
  | cons op q ih =>
    intro p hsplit hp
    have hmem : op ∈ ops := by rw [hsplit]; simp
    apply ih (p ++ [op]) (by rw [hsplit]; simp)
    have hg := ginv_prefix hlen (ops.map HOp.normDel) (normDel_all ops hall) hok (p.map HOp.normDel) ((op :: q).map HOp.normDel)
      (by rw [hsplit, List.map_append])
    rw [← hp] at hg
    rw [List.map_append, List.map_cons, List.map_nil, hrun_snoc, hrun_snoc, ← hp]
    exact hstep_normDel (hrun H p) op hg.notNil (hall op hmem).2

/-- 3. a history with `Update(key, [], _)` operations and its normalized history (those spelled `Delete(key)`) reach
    the same state.  Hypotheses: the operations are Update / Delete / Root / Commit / DeleteNodes with 64-nibble keys
    (any value); every intermediate spec tree OF THE NORMALIZED HISTORY is `PTOK` and `Distinct`; 32-byte hash. -/
theorem hrun_normDel (hlen : ∀ x, (H x).length = 32) (ops : List HOp)
    (hall : ∀ op ∈ ops, op.plainGC ∧ op.wf')
    (hok : ∀ p q, ops.map HOp.normDel = p ++ q → PTOK (specRun p) ∧ Distinct H (specRun p)) :
    hrun H ops = hrun H (ops.map HOp.normDel) :=
  hrun_normDel_aux hlen ops hall hok ops [] rfl rfl

/-- the GC invariant for histories with empty-value updates, against the spec of the normalized history -/
theorem ginv_run_wf' (hlen : ∀ x, (H x).length = 32) (ops : List HOp)
    (hall : ∀ op ∈ ops, op.plainGC ∧ op.wf')
    (hok : ∀ p q, ops.map HOp.normDel = p ++ q → PTOK (specRun p) ∧ Distinct H (specRun p)) :
    GInv H (hrun H ops) (specRun (ops.map HOp.normDel)) (committedRun (ops.map HOp.normDel)) := by
  rw [hrun_normDel hlen ops hall hok]
  exact ginv_run hlen (ops.map HOp.normDel) (normDel_all ops hall) hok

/-- `gc_stored` for histories with empty-value updates: every node of the last committed trie (of the normalized
    history) is in storage -/
theorem gc_stored_wf' (hlen : ∀ x, (H x).length = 32) (ops : List HOp)
    (hall : ∀ op ∈ ops, op.plainGC ∧ op.wf')
    (hok : ∀ p q, ops.map HOp.normDel = p ++ q → PTOK (specRun p) ∧ Distinct H (specRun p)) :
    StoredAll H (hrun H ops).t.store (committedRun (ops.map HOp.normDel)) :=
  (ginv_run_wf' hlen ops hall hok).stored

/-- `gc_recoverable` for histories with empty-value updates -/
theorem gc_recoverable_wf' (hlen : ∀ x, (H x).length = 32) (ops : List HOp)
    (hall : ∀ op ∈ ops, op.plainGC ∧ op.wf')
    (hok : ∀ p q, ops.map HOp.normDel = p ++ q → PTOK (specRun p) ∧ Distinct H (specRun p))
    (hd : (hrun H ops).t.root.dirty = false) :
    sameAnswers H (reopen H (hrun H ops).t) (hrun H ops).t :=
  sameAnswers_of_hinv hlen (ginv_run_wf' hlen ops hall hok).hinv hd (hok (ops.map HOp.normDel) [] (by simp)).1

/-- `gc_answers_are_spec` for histories with empty-value updates: the common answers are those of the spec tree of the
    normalized history -/
theorem gc_answers_are_spec_wf' (hlen : ∀ x, (H x).length = 32) (ops : List HOp)
    (hall : ∀ op ∈ ops, op.plainGC ∧ op.wf')
    (hok : ∀ p q, ops.map HOp.normDel = p ++ q → PTOK (specRun p) ∧ Distinct H (specRun p))
    (hd : (hrun H ops).t.root.dirty = false) (b : Nat) (hb1 : 1 ≤ b)
    (hb : b ≤ (specRun (ops.map HOp.normDel)).weight) :
    ∃ k v key, ownerSpec (specRun (ops.map HOp.normDel)).entries b = some (k, v) ∧ keybytesToHex key = k ∧
      key.length = 32 ∧
      (blockProof H (reopen H (hrun H ops).t) b).2 =
        .ok (key, Cbor.encTrie (((specRun (ops.map HOp.normDel)).proofPairs H b).map Cbor.encBase)) ∧
      (blockProof H (hrun H ops).t b).2 =
        .ok (key, Cbor.encTrie (((specRun (ops.map HOp.normDel)).proofPairs H b).map Cbor.encBase)) ∧
      verifyPairs H (((specRun (ops.map HOp.normDel)).proofPairs H b).map PairD.ok) b =
        .ok ((rootHash H (hrun H ops).t).2, v) :=
  answers_of_hinv hlen (ginv_run_wf' hlen ops hall hok).hinv hd (hok (ops.map HOp.normDel) [] (by simp)).1 b hb1 hb

/-- a history that is already well-formed in the old sense is its own normalized history -/
theorem map_normDel_of_wf (ops : List HOp) (hwf : ∀ op ∈ ops, op.wf) : ops.map HOp.normDel = ops := by
  induction ops with
  | nil => rfl
  | cons op ops ih =>
    rw [List.map_cons, HOp.normDel_of_wf (hwf op List.mem_cons_self),
      ih (fun o ho => hwf o (List.mem_cons_of_mem _ ho))]

end
end Verif.Wmpt
