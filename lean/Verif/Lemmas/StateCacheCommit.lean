import Verif.Lemmas.StateCacheInv
/-! Preservation of the state-cache invariant by every step of the committer thread. -/
set_option linter.unusedSectionVars false
namespace Verif.SC

variable {K B V : Type} [DecidableEq K] [DecidableEq B]

def Committer.blk (m : Committer K B V) : Blk K B V := ⟨m.hash, m.prev, m.writes⟩

/-- facts a committer past its link check relies on; `todo` = keys not yet fully published -/
structure MAct (sc : SC K B V) (T : Tree K B V) (m : Committer K B V) (todo : List (K × Entry V)) : Prop where
  inTree : T.find m.hash = some m.blk
  unlinked : linkAt sc m.hash = none
  nodup : (m.writes.map Prod.fst).Nodup
  split : ∃ done, m.writes = done ++ todo ∧ ∀ k e, (k, e) ∈ done → entryAt sc k m.hash = some e

def MInv (sc : SC K B V) (T : Tree K B V) (m : Committer K B V) : Prop :=
  match m.pc with
  | .start => (m.writes.map Prod.fst).Nodup
  | .linkcheck => (m.writes.map Prod.fst).Nodup
  | .done _ => True
  | .keyGet todo => MAct sc T m todo
  | .keyAdd fresh todo =>
    MAct sc T m todo ∧ ∀ k e t, todo = (k, e) :: t → (fresh = true ↔ alookup sc.cache k = none)
  | .keyPut fr todo =>
    MAct sc T m todo ∧ ∀ k e t, todo = (k, e) :: t →
      match fr with
      | some l => alookup sc.cache k = none ∧ ∀ b, l.peek b = if m.hash = b then some e else none
      | none => entryAt sc k m.hash = some e
  | .publish => MAct sc T m []

/-- the block of the commit in flight: past the link check, before the link is published -/
def CPc.hole (h : B) : CPc K B V → Option B
  | .keyGet _ => some h
  | .keyAdd _ _ => some h
  | .keyPut _ _ => some h
  | .publish => some h
  | _ => none

/-- the specification tree after a committer step: the block enters the tree when its link check passes -/
def Committer.treeAfter (T : Tree K B V) (sc : SC K B V) (m : Committer K B V) : Tree K B V :=
  match m.pc with
  | .linkcheck => match linkAt sc m.hash with
    | none => T ++ [m.blk]
    | some _ => T
  | _ => T

theorem entryAt_congr {sc sc' : SC K B V} (h : sc'.cache = sc.cache) (k : K) (b : B) :
    entryAt sc' k b = entryAt sc k b := by unfold entryAt; rw [h]

theorem Inv.congr {sc sc' : SC K B V} {T : Tree K B V} {hole : Option B} (hI : Inv sc T hole)
    (hl : ∀ b, linkAt sc' b = linkAt sc b) (he : ∀ k b, entryAt sc' k b = entryAt sc k b) : Inv sc' T hole := by
  refine ⟨fun k b e h => hI.sound k b e (by rw [← he]; exact h), fun b p h => ?_, fun b x h => ?_⟩
  · rw [hl] at h
    obtain ⟨x, hx, hp, hw⟩ := hI.linked b p h
    exact ⟨x, hx, hp, fun k e hk => by rw [he]; exact hw k e hk⟩
  · rw [hl]; exact hI.committed b x h

theorem MAct.congr {sc sc' : SC K B V} {T : Tree K B V} {m m' : Committer K B V} {todo : List (K × Entry V)}
    (h : MAct sc T m todo) (hh : m'.hash = m.hash) (hp : m'.prev = m.prev) (hw : m'.writes = m.writes)
    (hl : ∀ b, linkAt sc' b = linkAt sc b) (he : ∀ k b, entryAt sc' k b = entryAt sc k b) : MAct sc' T m' todo := by
  obtain ⟨d, hd, hde⟩ := h.split
  refine ⟨?_, ?_, ?_, ⟨d, ?_, ?_⟩⟩
  · have := h.inTree; unfold Committer.blk at *; rw [hh, hp, hw]; exact this
  · rw [hh, hl]; exact h.unlinked
  · rw [hw]; exact h.nodup
  · rw [hw]; exact hd
  · intro k e hk; rw [hh, he]; exact hde k e hk

theorem key_not_in_done {done t : List (K × Entry V)} {k : K} {e : Entry V}
    (h : ((done ++ (k, e) :: t).map Prod.fst).Nodup) : ∀ e', (k, e') ∉ done := by
  intro e' hmem
  rw [List.map_append, List.nodup_append] at h
  have h3 := h.2.2 k (List.mem_map.mpr ⟨(k, e'), hmem, rfl⟩) k (by simp)
  exact h3 rfl

theorem alookup_of_split {done t : List (K × Entry V)} {k : K} {e : Entry V}
    (h : ((done ++ (k, e) :: t).map Prod.fst).Nodup) : alookup (done ++ (k, e) :: t) k = some e := by
  rw [alookup_append]
  have : alookup done k = none := by
    cases hd : alookup done k with
    | none => rfl
    | some e' => exact absurd (alookup_mem hd) (key_not_in_done h e')
  rw [this]; simp

/-- publishing the entry `(k, m.hash) ↦ e` of the block in flight keeps the invariant -/
theorem Inv.add_own {sc sc' : SC K B V} {T : Tree K B V} {m : Committer K B V} {k : K} {e : Entry V}
    {done t : List (K × Entry V)}
    (hI : Inv sc T (some m.hash)) (hin : T.find m.hash = some m.blk) (hun : linkAt sc m.hash = none)
    (hnd : (m.writes.map Prod.fst).Nodup) (hsp : m.writes = done ++ (k, e) :: t)
    (hl : ∀ b, linkAt sc' b = linkAt sc b)
    (he : ∀ k' b, entryAt sc' k' b = if k = k' ∧ m.hash = b then some e else entryAt sc k' b) :
    Inv sc' T (some m.hash) := by
  have hwk : alookup m.writes k = some e := by rw [hsp]; rw [hsp] at hnd; exact alookup_of_split hnd
  refine ⟨fun k' b e' h => ?_, fun b p h => ?_, fun b x h => ?_⟩
  · rw [he] at h
    by_cases hc : k = k' ∧ m.hash = b
    · simp [hc] at h; subst h
      obtain ⟨hk, hb⟩ := hc; subst hk; subst hb
      exact Chain.here hin hwk
    · simp [hc] at h; exact hI.sound _ _ _ h
  · rw [hl] at h
    obtain ⟨x, hx, hp, hw⟩ := hI.linked b p h
    refine ⟨x, hx, hp, fun k' e' hk' => ?_⟩
    rw [he]
    have hb : m.hash ≠ b := by intro hb; rw [hb] at hun; rw [hun] at h; cases h
    simp [hb]; exact hw k' e' hk'
  · rw [hl]; exact hI.committed b x h

theorem Committer.step_inv {sc : SC K B V} {T : Tree K B V} {m : Committer K B V}
    (hI : Inv sc T (CPc.hole m.hash m.pc)) (hM : MInv sc T m)
    (hev : (m.stepSC sc).evictions = sc.evictions) :
    Inv (m.stepSC sc) (m.treeAfter T sc) (CPc.hole m.hash (m.stepPc sc)) ∧
    MInv (m.stepSC sc) (m.treeAfter T sc) { m with pc := m.stepPc sc } ∧
    T.le (m.treeAfter T sc) ∧
    (∀ b p, linkAt sc b = some p → linkAt (m.stepSC sc) b = some p) := by
  cases hpc : m.pc with
  | start =>
    have hs : m.stepSC sc = sc := by unfold Committer.stepSC; rw [hpc]
    have hp : m.stepPc sc = .linkcheck := by unfold Committer.stepPc; rw [hpc]
    have ht : m.treeAfter T sc = T := by unfold Committer.treeAfter; rw [hpc]
    rw [hs, hp, ht]; rw [hpc] at hI
    unfold MInv at hM ⊢; rw [hpc] at hM
    exact ⟨hI, hM, Tree.le_refl T, fun _ _ h => h⟩
  | done eff =>
    have hs : m.stepSC sc = sc := by unfold Committer.stepSC; rw [hpc]
    have hp : m.stepPc sc = .done eff := by unfold Committer.stepPc; rw [hpc]
    have ht : m.treeAfter T sc = T := by unfold Committer.treeAfter; rw [hpc]
    rw [hs, hp, ht]; rw [hpc] at hI
    exact ⟨hI, by unfold MInv; trivial, Tree.le_refl T, fun _ _ h => h⟩
  | linkcheck =>
    have hs : m.stepSC sc = { sc with links := (sc.links.get m.hash).1 } := by unfold Committer.stepSC; rw [hpc]
    have hl : ∀ b, linkAt (m.stepSC sc) b = linkAt sc b := by
      intro b; rw [hs]; simp [linkAt, LRU.get_peek]
    have he : ∀ k b, entryAt (m.stepSC sc) k b = entryAt sc k b := fun k b => entryAt_congr (by rw [hs]) k b
    rw [hpc] at hI
    unfold MInv at hM; rw [hpc] at hM
    have hI0 : Inv (m.stepSC sc) T none := Inv.congr hI hl he
    cases hlk : linkAt sc m.hash with
    | some p =>
      have hp : m.stepPc sc = .done false := by
        unfold Committer.stepPc; rw [hpc]; simp only [LRU.get_snd]
        unfold linkAt at hlk; rw [hlk]
      have ht : m.treeAfter T sc = T := by unfold Committer.treeAfter; rw [hpc]; simp only [hlk]
      rw [hp, ht]
      exact ⟨hI0, by unfold MInv; trivial, Tree.le_refl T, fun b p h => by rw [hl]; exact h⟩
    | none =>
      have hp : m.stepPc sc = CPc.next m.writes := by
        unfold Committer.stepPc; rw [hpc]; simp only [LRU.get_snd]
        unfold linkAt at hlk; rw [hlk]
      have ht : m.treeAfter T sc = T ++ [m.blk] := by unfold Committer.treeAfter; rw [hpc]; simp only [hlk]
      have hfn : T.find m.hash = none := by
        cases hf : T.find m.hash with
        | none => rfl
        | some x =>
          rcases hI.committed _ _ hf with h | h
          · exact absurd hlk h
          · cases h
      have hle : T.le (T ++ [m.blk]) := Tree.le_append T m.blk hfn
      have hI1 : Inv (m.stepSC sc) (T ++ [m.blk]) (some m.hash) := by
        refine ⟨fun k b e h => Chain.mono hle (hI0.sound k b e h), fun b p h => ?_, fun b x h => ?_⟩
        · obtain ⟨x, hx, hp, hw⟩ := hI0.linked b p h
          exact ⟨x, hle _ _ hx, hp, hw⟩
        · rw [Tree.find_append_of_none T m.blk b hfn] at h
          by_cases hb : m.blk.hash = b
          · exact .inr (by rw [← hb]; rfl)
          · simp [hb] at h
            rcases hI0.committed b x h with h | h
            · exact .inl h
            · cases h
      have hact : MAct (m.stepSC sc) (T ++ [m.blk]) { m with pc := CPc.next m.writes } m.writes := by
        refine ⟨?_, ?_, hM, ⟨[], rfl, fun k e h => by cases h⟩⟩
        · rw [Tree.find_append_of_none T m.blk _ hfn]; simp [Committer.blk]
        · rw [hl]; exact hlk
      rw [hp, ht]
      refine ⟨?_, ?_, hle, fun b p h => by rw [hl]; exact h⟩
      · cases hw : m.writes with
        | nil => exact hI1
        | cons a r => exact hI1
      · unfold MInv CPc.next
        cases hw : m.writes with
        | nil => simp only; rw [hw] at hact; exact hact
        | cons a r => simp only; rw [hw] at hact; exact hact
  | keyGet todo =>
    have hs : m.stepSC sc = sc := by unfold Committer.stepSC; rw [hpc]
    have ht : m.treeAfter T sc = T := by unfold Committer.treeAfter; rw [hpc]
    rw [hpc] at hI
    unfold MInv at hM; rw [hpc] at hM
    rw [hs, ht]
    cases todo with
    | nil =>
      have hp : m.stepPc sc = .publish := by unfold Committer.stepPc; rw [hpc]
      rw [hp]
      exact ⟨hI, by unfold MInv; exact hM.congr rfl rfl rfl (fun _ => rfl) (fun _ _ => rfl), Tree.le_refl T, fun _ _ h => h⟩
    | cons a t =>
      obtain ⟨k, e⟩ := a
      have hp : m.stepPc sc = .keyAdd (alookup sc.cache k).isNone ((k, e) :: t) := by
        unfold Committer.stepPc; rw [hpc]
      rw [hp]
      refine ⟨hI, ?_, Tree.le_refl T, fun _ _ h => h⟩
      unfold MInv
      refine ⟨hM.congr rfl rfl rfl (fun _ => rfl) (fun _ _ => rfl), fun k' e' t' h => ?_⟩
      cases h
      cases alookup sc.cache k <;> simp
  | keyAdd fresh todo =>
    have ht : m.treeAfter T sc = T := by unfold Committer.treeAfter; rw [hpc]
    rw [hpc] at hI
    unfold MInv at hM; rw [hpc] at hM
    obtain ⟨hA, hF⟩ := hM
    rw [ht]
    cases todo with
    | nil =>
      have hs : m.stepSC sc = sc := by unfold Committer.stepSC; rw [hpc]; cases fresh <;> rfl
      have hp : m.stepPc sc = .publish := by unfold Committer.stepPc; rw [hpc]
      rw [hs, hp]
      exact ⟨hI, by unfold MInv; exact hA.congr rfl rfl rfl (fun _ => rfl) (fun _ _ => rfl), Tree.le_refl T, fun _ _ h => h⟩
    | cons a t =>
      obtain ⟨k, e⟩ := a
      have hFk := hF k e t rfl
      cases fresh with
      | true =>
        have hkn : alookup sc.cache k = none := hFk.mp rfl
        have hs : m.stepSC sc = { sc with evictions := sc.evictions + ((LRU.empty sc.capK : LRU B (Entry V)).add m.hash e).2.toNat, entryEv := sc.entryEv + ((LRU.empty sc.capK : LRU B (Entry V)).add m.hash e).2.toNat } := by
          unfold Committer.stepSC; rw [hpc]
        have hp : m.stepPc sc = .keyPut (some ((LRU.empty sc.capK : LRU B (Entry V)).add m.hash e).1) ((k, e) :: t) := by
          unfold Committer.stepPc; rw [hpc]
        have hne : ((LRU.empty sc.capK : LRU B (Entry V)).add m.hash e).2 = false := by
          rw [hs] at hev
          cases hb : ((LRU.empty sc.capK : LRU B (Entry V)).add m.hash e).2 with
          | false => rfl
          | true => simp [hb] at hev
        have hl : ∀ b, linkAt (m.stepSC sc) b = linkAt sc b := fun b => by rw [hs]; rfl
        have he : ∀ k b, entryAt (m.stepSC sc) k b = entryAt sc k b := fun k b => entryAt_congr (by rw [hs]) k b
        rw [hp]
        refine ⟨Inv.congr hI hl he, ?_, Tree.le_refl T, fun b p h => by rw [hl]; exact h⟩
        unfold MInv
        refine ⟨hA.congr rfl rfl rfl hl he, fun k' e' t' h => ?_⟩
        cases h
        simp only
        refine ⟨by rw [hs]; exact hkn, fun b => ?_⟩
        rw [LRU.add_peek _ _ _ _ hne, LRU.empty_peek]
      | false =>
        have hkn : alookup sc.cache k ≠ none := fun h => by have := hFk.mpr h; cases this
        cases hm0 : alookup sc.cache k with
        | none => exact absurd hm0 hkn
        | some m0 =>
          have hs : m.stepSC sc = { sc with cache := aset sc.cache k (m0.add m.hash e).1,
                                            evictions := sc.evictions + (m0.add m.hash e).2.toNat, entryEv := sc.entryEv + (m0.add m.hash e).2.toNat } := by
            unfold Committer.stepSC; rw [hpc]; simp only [hm0]
          have hp : m.stepPc sc = .keyPut none ((k, e) :: t) := by unfold Committer.stepPc; rw [hpc]
          have hne : (m0.add m.hash e).2 = false := by
            rw [hs] at hev
            cases hb : (m0.add m.hash e).2 with
            | false => rfl
            | true => simp [hb] at hev
          have hc : (m.stepSC sc).cache = aset sc.cache k (m0.add m.hash e).1 := by rw [hs]
          have hl : ∀ b, linkAt (m.stepSC sc) b = linkAt sc b := fun b => by rw [hs]; rfl
          have he : ∀ k' b, entryAt (m.stepSC sc) k' b = if k = k' ∧ m.hash = b then some e else entryAt sc k' b := by
            intro k' b
            rw [entryAt_of_cache hc]
            by_cases hk : k = k'
            · subst hk
              simp only [true_and, if_true]
              rw [LRU.add_peek _ _ _ _ hne, entryAt_eq_peek hm0]
            · simp [hk]
          obtain ⟨d, hd, hde⟩ := hA.split
          rw [hp]
          refine ⟨Inv.add_own hI hA.inTree hA.unlinked hA.nodup hd hl he, ?_, Tree.le_refl T,
            fun b p h => by rw [hl]; exact h⟩
          unfold MInv
          refine ⟨⟨hA.inTree, by rw [hl]; exact hA.unlinked, hA.nodup, ⟨d, hd, fun k' e' hk' => ?_⟩⟩, fun k' e' t' h => ?_⟩
          · rw [he]
            have hnd := hA.nodup; rw [hd] at hnd
            have : k ≠ k' := fun hkk => by subst hkk; exact key_not_in_done hnd e' hk'
            simp [this]; exact hde k' e' hk'
          · cases h
            simp only
            rw [he]; simp
  | keyPut fr todo =>
    have ht : m.treeAfter T sc = T := by unfold Committer.treeAfter; rw [hpc]
    rw [hpc] at hI
    unfold MInv at hM; rw [hpc] at hM
    obtain ⟨hA, hF⟩ := hM
    rw [ht]
    cases todo with
    | nil =>
      have hs : m.stepSC sc = sc := by unfold Committer.stepSC; rw [hpc]; cases fr <;> rfl
      have hp : m.stepPc sc = .publish := by unfold Committer.stepPc; rw [hpc]
      rw [hs, hp]
      exact ⟨hI, by unfold MInv; exact hA.congr rfl rfl rfl (fun _ => rfl) (fun _ _ => rfl), Tree.le_refl T, fun _ _ h => h⟩
    | cons a t =>
      obtain ⟨k, e⟩ := a
      have hFk := hF k e t rfl
      have hp : m.stepPc sc = CPc.next t := by unfold Committer.stepPc; rw [hpc]
      obtain ⟨d, hd, hde⟩ := hA.split
      -- in both cases the entry (k, m.hash) ↦ e is in the shared maps after the step and nothing else changed
      have key : ∃ (hl : ∀ b, linkAt (m.stepSC sc) b = linkAt sc b),
          (∀ k' b, entryAt (m.stepSC sc) k' b = if k = k' ∧ m.hash = b then some e else entryAt sc k' b) := by
        cases fr with
        | none =>
          have hs : m.stepSC sc = sc := by unfold Committer.stepSC; rw [hpc]
          simp only at hFk
          refine ⟨fun b => by rw [hs], fun k' b => ?_⟩
          rw [hs]
          by_cases hc : k = k' ∧ m.hash = b
          · obtain ⟨h1, h2⟩ := hc; subst h1; subst h2; simp [hFk]
          · simp [hc]
        | some l =>
          have hs : m.stepSC sc = { sc with cache := aset sc.cache k l } := by unfold Committer.stepSC; rw [hpc]
          simp only at hFk
          have hc : (m.stepSC sc).cache = aset sc.cache k l := by rw [hs]
          refine ⟨fun b => by rw [hs]; rfl, fun k' b => ?_⟩
          rw [entryAt_of_cache hc]
          by_cases hk : k = k'
          · subst hk
            simp only [true_and, if_true]
            rw [hFk.2 b]
            have : entryAt sc k b = none := by unfold entryAt; rw [hFk.1]
            rw [this]
          · simp [hk]
      obtain ⟨hl, he⟩ := key
      have hI' := Inv.add_own hI hA.inTree hA.unlinked hA.nodup hd hl he
      have hact : MAct (m.stepSC sc) T { m with pc := CPc.next t } t := by
        refine ⟨hA.inTree, by rw [hl]; exact hA.unlinked, hA.nodup, ⟨d ++ [(k, e)], by rw [hd]; simp, fun k' e' hk' => ?_⟩⟩
        rw [he]
        rw [List.mem_append] at hk'
        rcases hk' with hk' | hk'
        · have hnd := hA.nodup; rw [hd] at hnd
          have : k ≠ k' := fun hkk => by subst hkk; exact key_not_in_done hnd e' hk'
          simp [this]; exact hde k' e' hk'
        · simp at hk'; obtain ⟨h1, h2⟩ := hk'; subst h1; subst h2; simp
      rw [hp]
      refine ⟨?_, ?_, Tree.le_refl T, fun b p h => by rw [hl]; exact h⟩
      · cases t <;> exact hI'
      · unfold MInv CPc.next
        cases t with
        | nil => exact hact
        | cons a r => exact hact
  | publish =>
    have hs : m.stepSC sc = { sc with links := (sc.links.add m.hash m.prev).1,
                                      evictions := sc.evictions + (sc.links.add m.hash m.prev).2.toNat } := by
      unfold Committer.stepSC; rw [hpc]
    have hp : m.stepPc sc = .done true := by unfold Committer.stepPc; rw [hpc]
    have ht : m.treeAfter T sc = T := by unfold Committer.treeAfter; rw [hpc]
    rw [hpc] at hI
    unfold MInv at hM; rw [hpc] at hM
    have hne : (sc.links.add m.hash m.prev).2 = false := by
      rw [hs] at hev
      cases hb : (sc.links.add m.hash m.prev).2 with
      | false => rfl
      | true => simp [hb] at hev
    have hl : ∀ b, linkAt (m.stepSC sc) b = if m.hash = b then some m.prev else linkAt sc b := by
      intro b; rw [hs]; simp only [linkAt]; rw [LRU.add_peek _ _ _ _ hne]
    have he : ∀ k b, entryAt (m.stepSC sc) k b = entryAt sc k b := fun k b => entryAt_congr (by rw [hs]) k b
    obtain ⟨d, hd, hde⟩ := hM.split
    rw [hp, ht]
    refine ⟨⟨fun k b e h => hI.sound k b e (by rw [← he]; exact h), fun b p h => ?_, fun b x h => ?_⟩,
      by unfold MInv; trivial, Tree.le_refl T, fun b p h => ?_⟩
    · rw [hl] at h
      by_cases hb : m.hash = b
      · simp [hb] at h
        refine ⟨m.blk, by rw [← hb]; exact hM.inTree, h, fun k e hk => ?_⟩
        rw [he, ← hb]
        have hk' : (k, e) ∈ m.writes := alookup_mem hk
        rw [hd] at hk'; simp at hk'
        exact hde k e hk'
      · simp [hb] at h
        obtain ⟨x, hx, hp, hw⟩ := hI.linked b p h
        exact ⟨x, hx, hp, fun k e hk => by rw [he]; exact hw k e hk⟩
    · left
      rw [hl]
      by_cases hb : m.hash = b
      · simp [hb]
      · simp [hb]
        rcases hI.committed b x h with h | h
        · exact h
        · simp [CPc.hole] at h; exact absurd h hb
    · rw [hl]
      by_cases hb : m.hash = b
      · rw [← hb, hM.unlinked] at h; cases h
      · simp [hb]; exact h

end Verif.SC
