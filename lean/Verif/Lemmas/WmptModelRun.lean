/- Histories on the implementation-shaped model (in-memory trie, no references) refine the spec histories. -/
import Verif.Lemmas.WmptAbs
import Verif.Lemmas.WmptRun
namespace Verif.Wmpt

/-- one exported operation of the model: `Update(key, v, w)` with a non-empty value, `Delete(key)` -/
def mStep (H : Bytes → Bytes) (t : WT) : Op → WT
  | .upd key v w => (update H t key v w).1
  | .del key => (deleteKey H t key).1

def mRun (H : Bytes → Bytes) (ops : List Op) : WT := ops.foldl (mStep H) {}

/-- keys have 64 nibbles (32 bytes), updated values are non-empty -/
def OpsWF (ops : List Op) : Prop :=
  ∀ op ∈ ops, op.key.length = 64 ∧ (∀ key v w, op = .upd key v w → v ≠ [])

theorem OpsWF.ok {ops : List Op} (h : OpsWF ops) : OpsOK 64 ops := fun op hop => (h op hop).1

theorem mStep_good (H : Bytes → Bytes) (t : WT) (tp : PT) (op : Op) (g : Good 64 (normRoot t.root) tp)
    (hk : op.key.length = 64) (hv : ∀ key v w, op = .upd key v w → v ≠ []) :
    Good 64 (normRoot (mStep H t op).root) (ptStep tp op) := by
  cases op with
  | upd key v w =>
    have hk' : key.length = 64 := hk
    have hv' : v ≠ [] := hv key v w rfl
    simp only [mStep, update, ptStep]
    have hne : ¬ key.length ≠ 64 := by simp [hk']
    simp only [hne, if_false, hv', ne_eq, not_false_eq_true, if_true]
    obtain ⟨he, hg, _⟩ := good_insert (hasDb := t.hasDb) (s := t.store) (v := v) (w := w) g hk' (fuelFor_ok key)
    simp only [he]
    exact hg.normRoot
  | del key =>
    have hk' : key.length = 64 := hk
    simp only [mStep, deleteKey, ptStep]
    -- `Delete` works on the root as it is; the root is never the Go nil, `normRoot` only matters for the fresh trie
    have hroot : Good 64 t.root tp := by
      have : normRoot t.root = t.root ∨ t.root = .nil := by
        unfold normRoot; by_cases h : t.root.isNil
        · right; cases hr : t.root <;> simp_all [WN.isNil]
        · left; simp [h]
      rcases this with h | h
      · rw [h] at g; exact g
      · rw [h] at g ⊢
        exact ⟨by simpa [normRoot, WN.isNil, abs] using g.abs_eq, trivial, trivial, g.uniform⟩
    rcases good_delete (H := H) (hasDb := t.hasDb) (s := t.store) hroot hk' (fuelFor_ok key) with ⟨he, hd, hn⟩ | ⟨he, t', hd, hg, _⟩
    · simp only [he, hd, hn]
      exact g
    · simp only [he, hd]
      exact hg.normRoot.normRoot

/-- after any history the in-memory model trie represents the spec trie of that history, with right weights -/
theorem mRun_good (H : Bytes → Bytes) (ops : List Op) (hwf : OpsWF ops) :
    Good 64 (normRoot (mRun H ops).root) (ptRun ops) := by
  unfold mRun ptRun
  have h : ∀ (l : List Op) (t : WT) (tp : PT), Good 64 (normRoot t.root) tp → OpsWF l →
      Good 64 (normRoot (l.foldl (mStep H) t).root) (l.foldl ptStep tp) := by
    intro l
    induction l with
    | nil => intro t tp g _; exact g
    | cons op tl ih =>
      intro t tp g hw
      simp only [List.foldl_cons]
      apply ih
      · exact mStep_good H t tp op g (hw op List.mem_cons_self).1 (hw op List.mem_cons_self).2
      · intro o ho; exact hw o (List.mem_cons_of_mem _ ho)
  exact h ops {} .none (by simpa [normRoot, WN.isNil] using (good_empty 64)) hwf

end Verif.Wmpt
