/- Helper lemmas about the weighted-trie decoders. -/
import Verif.Model.WmptProof
namespace Verif.Wmpt

theorem deserKids_total (H : Bytes → Bytes) (rec : List PairD → Res (WN × List PairD))
    (hrec : ∀ ps, (rec ps).isPanic = false) (is : List Nib) (ch : Nib → WN) (ps : List PairD) :
    (deserKids H rec is ch ps).isPanic = false := by
  induction is generalizing ch ps with
  | nil => simp [deserKids, Res.isPanic]
  | cons i tl ih =>
    unfold deserKids
    by_cases hn : (ch i).isNil
    · simp only [hn, if_true]; exact ih ch ps
    · simp only [hn]
      have := hrec ps
      cases hr : rec ps with
      | err e => rw [hr] at this; cases e <;> simp_all [Res.isPanic]
      | ok r =>
        obtain ⟨c, ps'⟩ := r
        simp only
        by_cases hh : (ch i).hashField H ≠ c.hashField H
        · simp [hh, Res.isPanic]
        · simp only [hh, if_false]; exact ih _ _

end Verif.Wmpt
