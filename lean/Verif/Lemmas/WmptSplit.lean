/-
`Commit` split from the write of its batch (Verif.Model.WmptSplit): with only `Root()` reads and AT MOST ONE
`DeleteNodes` pass between a Commit and the write of its batch nothing differs from writing the batch at once.

  1. commutation: `rootHash_apply_comm`, `deleteNodes_apply_comm`, `commit_batch_disjoint`, `deleteNodes_commit_comm`
  2. `split_eq_fused` (and `split_held_eq_fused` for a history that ends with its batch outstanding)
  3. `split_crash_safe`: at every prefix every node of the last durably committed content is in storage
  4. `split_two_gc_breaks`: two passes between the Commit and the write lose the previous durable root
Core Lean only.
-/
import Verif.Model.WmptSplit
import Verif.Model.WmptToy
import Verif.Lemmas.WmptGcInv
namespace Verif.Wmpt
open RepOps RepMore

/-! ### 1. commutation -/

theorem Store.del_del_comm (s : Store) (a k : Bytes) : (s.del a).del k = (s.del k).del a := by
  simp only [Store.del, List.filter_filter]
  congr 1
  funext e
  exact Bool.and_comm _ _

theorem Store.put_del_comm (s : Store) (a k v : Bytes) (h : a ≠ k) : (s.del a).put k v = (s.put k v).del a := by
  have hk : (k != a) = true := by simpa using fun e => h e.symm
  show (k, v) :: (s.del a).del k = List.filter (fun e => e.1 != a) ((k, v) :: s.del k)
  rw [List.filter_cons]
  simp only [hk, if_true]
  rw [Store.del_del_comm]
  rfl

/-- a put commutes with a list of deletes of other keys -/
theorem apply_dels_put (ks : List Bytes) (k v : Bytes) (h : k ∉ ks) : ∀ s : Store,
    (s.apply (ks.map StoreOp.del)).put k v = (s.put k v).apply (ks.map StoreOp.del) := by
  induction ks with
  | nil => intro s; rfl
  | cons a tl ih =>
    intro s
    simp only [List.map_cons, Store.apply]
    rw [ih (fun hm => h (List.mem_cons_of_mem _ hm)),
      Store.put_del_comm s a k v (fun e => h (e ▸ List.mem_cons_self))]

/-- a list of puts commutes with a list of deletes of other keys -/
theorem apply_dels_puts (ks : List Bytes) (ps : List StoreOp)
    (h : ∀ op ∈ ps, ∃ k v, op = StoreOp.put k v ∧ k ∉ ks) : ∀ s : Store,
    (s.apply (ks.map StoreOp.del)).apply ps = (s.apply ps).apply (ks.map StoreOp.del) := by
  induction ps with
  | nil => intro s; rfl
  | cons op tl ih =>
    intro s
    obtain ⟨k, v, rfl, hk⟩ := h op List.mem_cons_self
    simp only [Store.apply]
    rw [apply_dels_put ks k v hk, ih (fun o ho => h o (List.mem_cons_of_mem _ ho))]

section
variable {H : Bytes → Bytes}

/-- `Root()` does not look at the store: it commutes with the write of any batch -/
theorem rootHash_apply_comm (x : WT) (ops : List StoreOp) :
    rootHash H { x with store := x.store.apply ops } =
      (let y := rootHash H x; ({ y.1 with store := y.1.store.apply ops }, y.2)) := by
  by_cases h : x.root.dirty = true <;> simp [rootHash, h]

/-- `DeleteNodes()` commutes with the write of a batch of puts of keys that are not queued in `deleted` -/
theorem deleteNodes_apply_comm (x : WT) (batch : List StoreOp)
    (h : ∀ op ∈ batch, ∃ k v, op = StoreOp.put k v ∧ k ∉ x.deleted) :
    (deleteNodes { x with store := x.store.apply batch }).1 =
      { (deleteNodes x).1 with store := (deleteNodes x).1.store.apply batch } := by
  simp only [deleteNodes]
  rw [apply_dels_puts x.deleted batch h]

theorem saveNode_key (n : WN) : (saveNode H n).2.1 = (saveNode H n).1.hashField H := by
  simp only [saveNode]
  generalize (serializeP H n).1 = m
  cases m <;> rfl

theorem flatMap_put_keys (l : List CRes) (h : ∀ r ∈ l, r.puts.map Prod.fst = r.created) :
    (l.flatMap (fun r => r.puts)).map Prod.fst = l.flatMap (fun r => r.created) := by
  induction l with
  | nil => rfl
  | cons a tl ih =>
    simp only [List.flatMap_cons, List.map_append]
    rw [h a List.mem_cons_self, ih (fun r hr => h r (List.mem_cons_of_mem _ hr))]

/-- the keys `commit` puts are exactly the hashes it lists as created -/
theorem commitNode_put_keys (collapse : Int) (n : WN) : ∀ lvl : Nat,
    (commitNode H collapse lvl n).puts.map Prod.fst = (commitNode H collapse lvl n).created := by
  induction n with
  | nil => intro lvl; rfl
  | empty => intro lvl; rfl
  | hashRef h w => intro lvl; rfl
  | value h v w d =>
    intro lvl
    cases d with
    | false => rfl
    | true =>
      simp only [commitNode, Bool.not_true, Bool.false_eq_true, if_false, List.map_cons, List.map_nil, saveNode_key]
  | short k h c d tc ih =>
    intro lvl
    cases d with
    | false => rfl
    | true =>
      simp only [commitNode, Bool.not_true, Bool.false_eq_true, if_false, List.map_append, List.map_cons, List.map_nil,
        saveNode_key]
      congr 1
      split
      · rfl
      · exact ih (lvl + 1)
  | routing h ch w d tc ih =>
    intro lvl
    cases d with
    | false => rfl
    | true =>
      simp only [commitNode, Bool.not_true, Bool.false_eq_true, if_false, List.map_append, List.map_cons, List.map_nil,
        saveNode_key]
      congr 1
      apply flatMap_put_keys
      intro r hr
      obtain ⟨i, _, rfl⟩ := List.mem_map.mp hr
      split
      · rfl
      · exact ih i (lvl + 1)

/-- a dirty root: the batch of `Commit` puts the created hashes, which are erased from `deleted` -/
theorem commit_dirty_shape (t : WT) (lvl : Int) (hd : t.root.dirty = true) :
    ∃ r : CRes, r.puts.map Prod.fst = r.created ∧
      (commit H t lvl).1.deleted = eraseAll t.deleted (r.created.map pad32) ∧
      (commit H t lvl).2 = r.puts.map (fun p => StoreOp.put p.1 p.2) := by
  obtain ⟨root, hasDb, store, oldRoot, deleted, tempDeleted, pending, created⟩ := t
  simp only at hd
  cases root with
  | nil => simp [WN.dirty] at hd
  | empty => simp [WN.dirty] at hd
  | hashRef _ _ => simp [WN.dirty] at hd
  | value hh v w d =>
    refine ⟨commitNode H lvl 0 (.value hh v w d), commitNode_put_keys lvl _ 0, ?_, ?_⟩ <;>
      simp only [commit, hd, Bool.not_true, Bool.false_eq_true, if_false]
  | short k hh c d tc =>
    refine ⟨commitNode H lvl 0 (.short k hh c d tc), commitNode_put_keys lvl _ 0, ?_, ?_⟩ <;>
      simp only [commit, hd, Bool.not_true, Bool.false_eq_true, if_false]
  | routing hh ch w d tc =>
    let rs : List CRes := allNib.map (fun i =>
      if (ch i).isNil || !(ch i).dirty then ({ node := ch i } : CRes) else commitNode H lvl 1 (ch i))
    let s := saveNode H (.routing hh (ofList (rs.map (fun r => r.node))) w d tc)
    refine ⟨{ node := s.1, puts := rs.flatMap (fun r => r.puts) ++ [s.2],
              created := rs.flatMap (fun r => r.created) ++ [s.1.hashField H],
              superseded := hh :: rs.flatMap (fun r => r.superseded) }, ?_, ?_, ?_⟩
    · simp only [List.map_append, List.map_cons, List.map_nil, s, saveNode_key]
      congr 1
      apply flatMap_put_keys
      intro r hr
      obtain ⟨i, _, rfl⟩ := List.mem_map.mp hr
      split
      · rfl
      · exact commitNode_put_keys lvl _ 1
    · simp only [commit, hd, Bool.not_true, Bool.false_eq_true, if_false, rs, s]
    · simp only [commit, hd, Bool.not_true, Bool.false_eq_true, if_false, rs, s]

/-- every operation of the batch of `Commit` is a put of a key that is not queued in `deleted` afterwards
    (`deleted` holds 32-byte keys: `GInv.lensD`) -/
theorem commit_batch_disjoint (t : WT) (lvl : Int) (hlenD : ∀ h ∈ t.deleted, h.length = 32) :
    ∀ op ∈ (commit H t lvl).2, ∃ k v, op = StoreOp.put k v ∧ k ∉ (commit H t lvl).1.deleted := by
  intro op hop
  by_cases hd : t.root.dirty = true
  · obtain ⟨r, hk, hdel, hb⟩ := commit_dirty_shape (H := H) t lvl hd
    rw [hb] at hop
    obtain ⟨p, hp, rfl⟩ := List.mem_map.mp hop
    refine ⟨p.1, p.2, rfl, fun hm => ?_⟩
    rw [hdel] at hm
    obtain ⟨hm1, hm2⟩ := mem_eraseAll.mp hm
    have hc : p.1 ∈ r.created := by rw [← hk]; exact List.mem_map.mpr ⟨p, hp, rfl⟩
    exact hm2 (List.mem_map.mpr ⟨p.1, hc, pad32_eq_self (hlenD _ hm1)⟩)
  · have hclean : t.root.dirty = false := by simpa using hd
    rw [(commit_clean_eq (H := H) lvl t hclean).2] at hop
    cases hop

/-- KEY LEMMA: one `DeleteNodes()` pass before or after the write of the batch of the preceding `Commit` -/
theorem deleteNodes_commit_comm (t : WT) (lvl : Int) (hlenD : ∀ h ∈ t.deleted, h.length = 32) :
    (deleteNodes { (commit H t lvl).1 with store := (commit H t lvl).1.store.apply (commit H t lvl).2 }).1 =
      { (deleteNodes (commit H t lvl).1).1 with
        store := (deleteNodes (commit H t lvl).1).1.store.apply (commit H t lvl).2 } :=
  deleteNodes_apply_comm _ _ (commit_batch_disjoint t lvl hlenD)

/-! ### 2. the split history and its fused form -/

/-- the fused state of a split state whose batch is outstanding: the batch written -/
def fusedOf (s : SState) (batch : List StoreOp) : HState :=
  { t := { s.h.t with store := s.h.t.store.apply batch },
    puts := s.h.puts ++ batch.filterMap (fun o => match o with | .put k v => some (k, v) | .del _ => none) }

/-- `deleted` holds 32-byte keys -/
def LD (t : WT) : Prop := ∀ h ∈ t.deleted, h.length = 32

/-- the split state `s` against the fused state `hs`; `held` / `n` as in `splitOK` -/
def Sync (s : SState) (hs : HState) : Bool → Nat → Prop
  | false, _ => s.pend = none ∧ s.h = hs ∧ LD s.h.t
  | true, n => ∃ batch, s.pend = some batch ∧ hs = fusedOf s batch ∧ n ≤ 1 ∧
      (n = 1 → ∀ op ∈ batch, ∃ k v, op = StoreOp.put k v ∧ k ∉ s.h.t.deleted) ∧ LD s.h.t

theorem split_commit_deleted_sub (H : Bytes → Bytes) (t : WT) (lvl : Int) (k : Bytes)
    (hk : k ∈ (commit H t lvl).1.deleted) : k ∈ t.deleted := by
  unfold commit at hk
  by_cases hd : t.root.dirty = true
  · simp only [hd, Bool.not_true, Bool.false_eq_true, if_false] at hk
    exact (mem_eraseAll.mp hk).1
  · simp only [hd, Bool.not_false, if_true] at hk
    split at hk <;> exact hk

theorem update_deleted (t : WT) (key : List Nib) (v : Bytes) (w : Nat) : (update H t key v w).1.deleted = t.deleted := by
  unfold update
  split
  · rfl
  · split
    · dsimp only
      split <;> rfl
    · dsimp only
      split <;> rfl

theorem deleteKey_deleted (t : WT) (key : List Nib) : (deleteKey H t key).1.deleted = t.deleted := by
  unfold deleteKey
  dsimp only
  split <;> rfl

/-- every operation keeps `deleted` a list of 32-byte keys -/
theorem ld_hstep (st : HState) (o : HOp) (h : LD st.t) : LD (hstep H st o).t := by
  cases o with
  | upd key v w => intro k hk; exact h k (by rw [← update_deleted (H := H) st.t key v w]; exact hk)
  | del key => intro k hk; exact h k (by rw [← deleteKey_deleted (H := H) st.t key]; exact hk)
  | root => intro k hk; exact h k (by rw [← (rootHash_queues (H := H) st.t).2.1]; exact hk)
  | commit lvl => intro k hk; exact h k (split_commit_deleted_sub H st.t lvl k hk)
  | gc =>
    intro k hk
    obtain ⟨h0, _, rfl⟩ := List.mem_map.mp ((mem_deleteNodes_deleted st.t).mp hk)
    exact pad32_length h0
  | saveRoot => exact h
  | rollback => intro k hk; cases hk

theorem sync_op {s : SState} {hs : HState} {n : Nat} (o : HOp) (h : Sync s hs false n) :
    Sync (sstep H s (.op o)) (hstep H hs o) false 0 := by
  obtain ⟨h1, h2, h3⟩ := h
  subst h2
  exact ⟨h1, rfl, ld_hstep s.h o h3⟩

theorem sync_commitB {s : SState} {hs : HState} {n : Nat} (lvl : Int) (h : Sync s hs false n) :
    Sync (sstep H s (.commitB lvl)) (hstep H hs (.commit lvl)) true 1 := by
  obtain ⟨h1, h2, h3⟩ := h
  subst h2
  simp only [sstep, h1]
  exact ⟨(commit H s.h.t lvl).2, rfl, rfl, Nat.le_refl 1, fun _ => commit_batch_disjoint s.h.t lvl h3,
    fun k hk => h3 k (split_commit_deleted_sub H s.h.t lvl k hk)⟩

theorem sync_root {s : SState} {hs : HState} {n : Nat} (h : Sync s hs true n) :
    Sync (sstep H s (.op .root)) (hstep H hs .root) true n := by
  obtain ⟨batch, h1, h2, h3, h4, h5⟩ := h
  subst h2
  have ed : (rootHash H s.h.t).1.deleted = s.h.t.deleted := (rootHash_queues (H := H) s.h.t).2.1
  refine ⟨batch, h1, ?_, h3, ?_, ?_⟩
  · simp only [hstep, sstep, fusedOf, rootHash_apply_comm]
  · intro hn op hop
    obtain ⟨k, v, e, hk⟩ := h4 hn op hop
    exact ⟨k, v, e, fun hm => hk (by rw [← ed]; exact hm)⟩
  · intro k hk
    exact h5 k (by rw [← ed]; exact hk)

theorem sync_gc {s : SState} {hs : HState} {n : Nat} (h : Sync s hs true (n + 1)) :
    Sync (sstep H s (.op .gc)) (hstep H hs .gc) true n := by
  obtain ⟨batch, h1, h2, h3, h4, h5⟩ := h
  subst h2
  have hn : n = 0 := by omega
  subst hn
  refine ⟨batch, h1, ?_, Nat.zero_le 1, (fun e => by cases e), ?_⟩
  · simp only [hstep, sstep, fusedOf, deleteNodes_apply_comm s.h.t batch (h4 rfl)]
  · intro k hk
    obtain ⟨h0, _, rfl⟩ := List.mem_map.mp ((mem_deleteNodes_deleted s.h.t).mp hk)
    exact pad32_length h0

theorem sync_writeB {s : SState} {hs : HState} {n : Nat} (h : Sync s hs true n) :
    Sync (sstep H s .writeB) hs false 0 := by
  obtain ⟨batch, h1, h2, _, _, h5⟩ := h
  subst h2
  simp only [sstep, h1]
  exact ⟨rfl, rfl, h5⟩

theorem sync_run : ∀ (q : List SOp) (s : SState) (hs : HState) (held : Bool) (n : Nat), Sync s hs held n →
    splitOK held n q = true →
    ∃ held' n', Sync (q.foldl (sstep H) s) ((fuse q).foldl (hstep H) hs) held' n' := by
  intro q
  induction q with
  | nil => intro s hs held n h _; exact ⟨held, n, h⟩
  | cons op q ih =>
    intro s hs held n h hok
    cases held with
    | false =>
      cases op with
      | op o => exact ih _ _ false 0 (sync_op o h) (by simpa [splitOK] using hok)
      | commitB lvl => exact ih _ _ true 1 (sync_commitB lvl h) (by simpa [splitOK] using hok)
      | writeB => simp [splitOK] at hok
    | true =>
      cases op with
      | commitB lvl => simp [splitOK] at hok
      | writeB => exact ih _ _ false 0 (sync_writeB h) (by simpa [splitOK] using hok)
      | op o =>
        cases o with
        | root => exact ih _ _ true n (sync_root h) (by simpa [splitOK] using hok)
        | gc =>
          cases n with
          | zero => simp [splitOK] at hok
          | succ m => exact ih _ _ true m (sync_gc h) (by simpa [splitOK] using hok)
        | _ => simp [splitOK] at hok

theorem sync_init : Sync ({} : SState) ({} : HState) false 0 := ⟨rfl, rfl, fun _ hk => by cases hk⟩

/-- GOAL 2. A split history that follows the protocol (`splitOK`: between a Commit and the write of its batch only
    `Root()` reads and at most one `DeleteNodes` pass) and whose last batch has been written ends in exactly the state
    of its fused history: trie memory, storage (structurally) and the record of puts. -/
theorem split_eq_fused (ops : List SOp) (hok : splitOK false 0 ops = true) (hw : (srun H ops).pend = none) :
    (srun H ops).h = hrun H (fuse ops) := by
  obtain ⟨held, n, h⟩ := sync_run (H := H) ops {} {} false 0 sync_init hok
  cases held with
  | false => exact h.2.1
  | true =>
    obtain ⟨batch, h1, _⟩ := h
    have : (srun H ops).pend = some batch := h1
    rw [hw] at this
    cases this

/-- ... and while the last batch is outstanding the fused history is the split state with the batch written -/
theorem split_held_eq_fused (ops : List SOp) (hok : splitOK false 0 ops = true) (batch : List StoreOp)
    (hw : (srun H ops).pend = some batch) : hrun H (fuse ops) = fusedOf (srun H ops) batch := by
  obtain ⟨held, n, h⟩ := sync_run (H := H) ops {} {} false 0 sync_init hok
  cases held with
  | false =>
    have : (srun H ops).pend = none := h.1
    rw [hw] at this
    cases this
  | true =>
    obtain ⟨b, h1, h2, _⟩ := h
    have : (srun H ops).pend = some b := h1
    rw [hw] at this
    cases this
    exact h2

/-! ### 3. the crash clause -/

/-- fold for `durableSpec`: the fused history so far, and the committed content of the fused history of the longest
    prefix whose batches are all written (a `commitB` leaves it alone, the `writeB` makes the commit durable) -/
def durStep (a : List HOp × PT) : SOp → List HOp × PT
  | .op o => (a.1 ++ [o], match o with | .commit _ => committedRun (a.1 ++ [o]) | _ => a.2)
  | .commitB lvl => (a.1 ++ [.commit lvl], a.2)
  | .writeB => (a.1, committedRun a.1)

def durAcc (p : List SOp) : List HOp × PT := p.foldl durStep ([], .none)

/-- the last DURABLY committed content after the split history `p` -/
def durableSpec (p : List SOp) : PT := (durAcc p).2

theorem fuse_append (p q : List SOp) : fuse (p ++ q) = fuse p ++ fuse q := by
  induction p with
  | nil => rfl
  | cons op p ih => cases op <;> simp [fuse, ih]

theorem durAcc_snoc (p : List SOp) (op : SOp) : durAcc (p ++ [op]) = durStep (durAcc p) op := by
  simp [durAcc, List.foldl_append]

theorem durFold_fst (p : List SOp) : ∀ a : List HOp × PT, (p.foldl durStep a).1 = a.1 ++ fuse p := by
  induction p with
  | nil => intro a; simp [fuse]
  | cons op p ih =>
    intro a
    simp only [List.foldl_cons]
    rw [ih]
    cases op <;> simp [durStep, fuse]

theorem durAcc_fst (p : List SOp) : (durAcc p).1 = fuse p := by
  have := durFold_fst p ([], .none)
  simpa [durAcc] using this

theorem srun_snoc (p : List SOp) (op : SOp) : srun H (p ++ [op]) = sstep H (srun H p) op := by
  simp [srun, List.foldl_append]

/-- the invariant of the crash clause after the prefix `p` -/
def CI (H : Bytes → Bytes) (p : List SOp) (held : Bool) (n : Nat) : Prop :=
  Sync (srun H p) (hrun H (fuse p)) held n ∧
    match held with
    | false => durableSpec p = committedRun (fuse p)
    | true => StoredAll H (srun H p).h.t.store (durableSpec p) ∧
        (n = 1 → ∀ k ∈ (srun H p).h.t.deleted, k ∉ NL H (durableSpec p))

theorem ci_op {p : List SOp} {n : Nat} (o : HOp) (h : CI H p false n) : CI H (p ++ [.op o]) false 0 := by
  obtain ⟨h1, h2⟩ := h
  refine ⟨?_, ?_⟩
  · have := sync_op (H := H) o h1
    rw [srun_snoc, fuse_append]
    show Sync _ (hrun H (fuse p ++ [o])) false 0
    rw [hrun_snoc]
    exact this
  · show durableSpec (p ++ [.op o]) = committedRun (fuse (p ++ [.op o]))
    have h2' : (durAcc p).2 = committedRun (fuse p) := h2
    rw [fuse_append]
    show (durAcc (p ++ [.op o])).2 = committedRun (fuse p ++ [o])
    rw [durAcc_snoc]
    cases o <;> simp only [durStep, durAcc_fst, committedRun_snoc, committedStep, h2']

theorem ci_commitB {p : List SOp} {n : Nat} (lvl : Int) (h : CI H p false n)
    (hg : GInv H (hrun H (fuse p)) (specRun (fuse p)) (committedRun (fuse p))) :
    CI H (p ++ [.commitB lvl]) true 1 := by
  obtain ⟨h1, h2⟩ := h
  have h2' : (durAcc p).2 = committedRun (fuse p) := h2
  have ed : durableSpec (p ++ [.commitB lvl]) = committedRun (fuse p) := by
    show (durAcc (p ++ [.commitB lvl])).2 = _
    rw [durAcc_snoc]
    exact h2'
  have hpend : (srun H p).pend = none := h1.1
  have hh : (srun H p).h = hrun H (fuse p) := h1.2.1
  have et : (srun H (p ++ [.commitB lvl])).h.t = (commit H (hrun H (fuse p)).t lvl).1 := by
    rw [srun_snoc, ← hh]
    simp only [sstep, hpend]
  refine ⟨?_, ?_, ?_⟩
  · have := sync_commitB (H := H) lvl h1
    rw [srun_snoc, fuse_append]
    show Sync _ (hrun H (fuse p ++ [.commit lvl])) true 1
    rw [hrun_snoc]
    exact this
  · rw [ed, et, commit_store]
    exact hg.stored
  · intro _ k hk
    rw [ed]
    rw [et] at hk
    have hk0 := split_commit_deleted_sub H _ lvl k hk
    have := hg.queues k (List.mem_append_right _ hk0)
    rwa [pad32_eq_self (hg.lensD k hk0)] at this

theorem ci_root {p : List SOp} {n : Nat} (h : CI H p true n) : CI H (p ++ [.op .root]) true n := by
  obtain ⟨h1, h2, h3⟩ := h
  have ed : durableSpec (p ++ [.op .root]) = durableSpec p := by
    show (durAcc (p ++ [.op .root])).2 = _
    rw [durAcc_snoc]
    rfl
  have et : (srun H (p ++ [.op .root])).h.t = (rootHash H (srun H p).h.t).1 := by
    rw [srun_snoc]
    rfl
  refine ⟨?_, ?_, ?_⟩
  · have := sync_root (H := H) h1
    rw [srun_snoc, fuse_append]
    show Sync _ (hrun H (fuse p ++ [.root])) true n
    rw [hrun_snoc]
    exact this
  · rw [ed, et, rootHash_store]
    exact h2
  · intro hn k hk
    rw [ed]
    rw [et, (rootHash_queues (H := H) (srun H p).h.t).2.1] at hk
    exact h3 hn k hk

theorem ci_gc {p : List SOp} {n : Nat} (h : CI H p true (n + 1)) : CI H (p ++ [.op .gc]) true n := by
  obtain ⟨h1, h2, h3⟩ := h
  have hn : n = 0 := by
    obtain ⟨_, _, _, hle, _⟩ := h1
    omega
  subst hn
  have ed : durableSpec (p ++ [.op .gc]) = durableSpec p := by
    show (durAcc (p ++ [.op .gc])).2 = _
    rw [durAcc_snoc]
    rfl
  have et : (srun H (p ++ [.op .gc])).h.t = (deleteNodes (srun H p).h.t).1 := by
    rw [srun_snoc]
    rfl
  refine ⟨?_, ?_, ?_⟩
  · have := sync_gc (H := H) h1
    rw [srun_snoc, fuse_append]
    show Sync _ (hrun H (fuse p ++ [.gc])) true 0
    rw [hrun_snoc]
    exact this
  · rw [ed, et]
    exact storedAll_deleteNodes _ h2 (h3 rfl)
  · intro e; cases e

theorem ci_writeB {p : List SOp} {n : Nat} (h : CI H p true n) : CI H (p ++ [.writeB]) false 0 := by
  obtain ⟨h1, _, _⟩ := h
  have ef : fuse (p ++ [.writeB]) = fuse p := by rw [fuse_append]; simp [fuse]
  refine ⟨?_, ?_⟩
  · have := sync_writeB (H := H) h1
    rw [srun_snoc, ef]
    exact this
  · show (durAcc (p ++ [.writeB])).2 = committedRun (fuse (p ++ [.writeB]))
    rw [durAcc_snoc, ef]
    show committedRun (durAcc p).1 = _
    rw [durAcc_fst]

theorem ci_init : CI H [] false 0 := ⟨sync_init, rfl⟩

/-- what `durableSpec p` is, by the protocol state after `p`: with no batch outstanding the committed content of the
    whole fused history; with a batch outstanding that of the fused history BEFORE the unwritten `commitB` -/
def DS (p : List SOp) : Bool → Prop
  | false => durableSpec p = committedRun (fuse p)
  | true => ∃ p0 lvl mid, p = p0 ++ SOp.commitB lvl :: mid ∧ durableSpec p = committedRun (fuse p0) ∧
      ∀ o ∈ mid, o = SOp.op .root ∨ o = SOp.op .gc

theorem ds_op {p : List SOp} (o : HOp) (h : DS p false) : DS (p ++ [.op o]) false := by
  have h2' : (durAcc p).2 = committedRun (fuse p) := h
  show durableSpec (p ++ [.op o]) = committedRun (fuse (p ++ [.op o]))
  rw [fuse_append]
  show (durAcc (p ++ [.op o])).2 = committedRun (fuse p ++ [o])
  rw [durAcc_snoc]
  cases o <;> simp only [durStep, durAcc_fst, committedRun_snoc, committedStep, h2']

theorem ds_commitB {p : List SOp} (lvl : Int) (h : DS p false) : DS (p ++ [.commitB lvl]) true := by
  have h2' : (durAcc p).2 = committedRun (fuse p) := h
  refine ⟨p, lvl, [], rfl, ?_, fun o ho => by cases ho⟩
  show (durAcc (p ++ [.commitB lvl])).2 = _
  rw [durAcc_snoc]
  exact h2'

theorem ds_mid {p : List SOp} (o : HOp) (ho : o = .root ∨ o = .gc) (h : DS p true) : DS (p ++ [.op o]) true := by
  obtain ⟨p0, lvl, mid, e, hd, hm⟩ := h
  refine ⟨p0, lvl, mid ++ [.op o], by rw [e]; simp, ?_, ?_⟩
  · rw [← hd]
    show (durAcc (p ++ [.op o])).2 = (durAcc p).2
    rw [durAcc_snoc]
    rcases ho with rfl | rfl <;> rfl
  · intro x hx
    rcases List.mem_append.mp hx with hx | hx
    · exact hm x hx
    · have : x = .op o := by simpa using hx
      subst this
      rcases ho with rfl | rfl
      · exact Or.inl rfl
      · exact Or.inr rfl

theorem ds_writeB {p : List SOp} : DS (p ++ [.writeB]) false := by
  have ef : fuse (p ++ [.writeB]) = fuse p := by rw [fuse_append]; simp [fuse]
  show (durAcc (p ++ [.writeB])).2 = committedRun (fuse (p ++ [.writeB]))
  rw [durAcc_snoc, ef]
  show committedRun (durAcc p).1 = _
  rw [durAcc_fst]

theorem ds_aux : ∀ (q p : List SOp) (held : Bool) (n : Nat), splitOK held n q = true → DS p held →
    ∀ q1 q2, q = q1 ++ q2 → ∃ held', DS (p ++ q1) held' := by
  intro q
  induction q with
  | nil =>
    intro p held n _ hds q1 q2 hq
    have : q1 = [] := by
      cases q1 with
      | nil => rfl
      | cons _ _ => cases hq
    subst this
    rw [List.append_nil]
    exact ⟨held, hds⟩
  | cons op q ih =>
    intro p held n hsok hds q1 q2 hq
    cases q1 with
    | nil =>
      rw [List.append_nil]
      exact ⟨held, hds⟩
    | cons o' q1' =>
      have ho : o' = op := by injection hq with a _; exact a.symm
      have hq' : q = q1' ++ q2 := by injection hq
      subst ho
      have e : p ++ o' :: q1' = (p ++ [o']) ++ q1' := by simp
      rw [e]
      cases held with
      | false =>
        cases o' with
        | op o => exact ih _ false 0 (by simpa [splitOK] using hsok) (ds_op o hds) q1' q2 hq'
        | commitB lvl => exact ih _ true 1 (by simpa [splitOK] using hsok) (ds_commitB lvl hds) q1' q2 hq'
        | writeB => simp [splitOK] at hsok
      | true =>
        cases o' with
        | commitB lvl => simp [splitOK] at hsok
        | writeB => exact ih _ false 0 (by simpa [splitOK] using hsok) ds_writeB q1' q2 hq'
        | op o =>
          cases o with
          | root => exact ih _ true n (by simpa [splitOK] using hsok) (ds_mid .root (Or.inl rfl) hds) q1' q2 hq'
          | gc =>
            cases n with
            | zero => simp [splitOK] at hsok
            | succ m => exact ih _ true m (by simpa [splitOK] using hsok) (ds_mid .gc (Or.inr rfl) hds) q1' q2 hq'
          | _ => simp [splitOK] at hsok

/-- `durableSpec` is what its name says: after a prefix `p` of a history that follows the protocol it is the committed
    content of the fused history of `p` itself, or — when `p` ends between a `commitB` and its `writeB` (only `Root()`
    and `DeleteNodes` since) — of the fused history of what precedes that `commitB` -/
theorem durableSpec_cases (ops : List SOp) (hsplit : splitOK false 0 ops = true) (p q : List SOp) (hpq : ops = p ++ q) :
    durableSpec p = committedRun (fuse p) ∨
    ∃ p0 lvl mid, p = p0 ++ SOp.commitB lvl :: mid ∧ durableSpec p = committedRun (fuse p0) ∧
      ∀ o ∈ mid, o = SOp.op .root ∨ o = SOp.op .gc := by
  obtain ⟨held, h⟩ := ds_aux ops [] false 0 hsplit (rfl : durableSpec [] = committedRun (fuse [])) p q hpq
  rw [List.nil_append] at h
  cases held with
  | false => exact Or.inl h
  | true => exact Or.inr h

section
variable (hlen : ∀ x, (H x).length = 32) (ops : List SOp)
  (hall : ∀ op ∈ fuse ops, op.plainGC ∧ op.wf)
  (hok : ∀ p q, fuse ops = p ++ q → PTOK (specRun p) ∧ Distinct H (specRun p))
include hlen hall hok

theorem ci_ginv {p q : List SOp} (hpq : ops = p ++ q) :
    GInv H (hrun H (fuse p)) (specRun (fuse p)) (committedRun (fuse p)) :=
  ginv_prefix hlen (fuse ops) hall hok (fuse p) (fuse q) (by rw [hpq, fuse_append])

theorem ci_goal {p q : List SOp} (hpq : ops = p ++ q) {held : Bool} {n : Nat} (h : CI H p held n) :
    StoredAll H (srun H p).h.t.store (durableSpec p) := by
  cases held with
  | true => exact h.2.1
  | false =>
    obtain ⟨h1, h2⟩ := h
    have hh : (srun H p).h = hrun H (fuse p) := h1.2.1
    have h2' : durableSpec p = committedRun (fuse p) := h2
    rw [hh, h2']
    exact (ci_ginv hlen ops hall hok hpq).stored

theorem crash_aux : ∀ (q p : List SOp) (held : Bool) (n : Nat), ops = p ++ q → splitOK held n q = true →
    CI H p held n → ∀ q1 q2, q = q1 ++ q2 → StoredAll H (srun H (p ++ q1)).h.t.store (durableSpec (p ++ q1)) := by
  intro q
  induction q with
  | nil =>
    intro p held n hpq _ hci q1 q2 hq
    have : q1 = [] := by
      cases q1 with
      | nil => rfl
      | cons _ _ => cases hq
    subst this
    rw [List.append_nil]
    exact ci_goal hlen ops hall hok hpq hci
  | cons op q ih =>
    intro p held n hpq hsok hci q1 q2 hq
    cases q1 with
    | nil =>
      rw [List.append_nil]
      exact ci_goal hlen ops hall hok hpq hci
    | cons o' q1' =>
      have ho : o' = op := by injection hq with a _; exact a.symm
      have hq' : q = q1' ++ q2 := by injection hq
      subst ho
      have e : p ++ o' :: q1' = (p ++ [o']) ++ q1' := by simp
      have hpq' : ops = (p ++ [o']) ++ q := by rw [hpq]; simp
      rw [e]
      cases held with
      | false =>
        cases o' with
        | op o => exact ih _ false 0 hpq' (by simpa [splitOK] using hsok) (ci_op o hci) q1' q2 hq'
        | commitB lvl =>
          exact ih _ true 1 hpq' (by simpa [splitOK] using hsok)
            (ci_commitB lvl hci (ci_ginv hlen ops hall hok hpq)) q1' q2 hq'
        | writeB => simp [splitOK] at hsok
      | true =>
        cases o' with
        | commitB lvl => simp [splitOK] at hsok
        | writeB => exact ih _ false 0 hpq' (by simpa [splitOK] using hsok) (ci_writeB hci) q1' q2 hq'
        | op o =>
          cases o with
          | root => exact ih _ true n hpq' (by simpa [splitOK] using hsok) (ci_root hci) q1' q2 hq'
          | gc =>
            cases n with
            | zero => simp [splitOK] at hsok
            | succ m => exact ih _ true m hpq' (by simpa [splitOK] using hsok) (ci_gc hci) q1' q2 hq'
          | _ => simp [splitOK] at hsok

/-- GOAL 3 (crash clause). Under the protocol `splitOK`, after EVERY prefix `p` of a split history — in particular
    between a Commit and the write of its batch, before, between and after the `Root()` reads and the one
    `DeleteNodes` pass — every node of the last durably committed content is in storage.
    Hypotheses on the fused history as in `gc_stored` / `gc_crash`. -/
theorem split_crash_safe (hsplit : splitOK false 0 ops = true) (p q : List SOp) (hpq : ops = p ++ q) :
    StoredAll H (srun H p).h.t.store (durableSpec p) := by
  have := crash_aux hlen ops hall hok ops [] false 0 (by simp) hsplit ci_init p q hpq
  simpa using this

/-- GOAL 3, observable form (as `gc_crash`): after every prefix `p` of the split history the trie opened on the
    storage from just `(hash, weight)` of the last durably committed content answers every block `1 ≤ b ≤ weight`
    with the 32 key bytes of its owner and the encoded honest proof, which verifies against the durable root hash. -/
theorem split_crash_answers (hsplit : splitOK false 0 ops = true) (p q : List SOp) (hpq : ops = p ++ q)
    (b : Nat) (hb1 : 1 ≤ b) (hb : b ≤ (durableSpec p).weight) :
    ∃ k v key, ownerSpec (durableSpec p).entries b = some (k, v) ∧ keybytesToHex key = k ∧ key.length = 32 ∧
      (blockProof H { root := .hashRef (PT.hash H (durableSpec p)) (durableSpec p).weight,
                      store := (srun H p).h.t.store } b).2 =
        .ok (key, Cbor.encTrie (((durableSpec p).proofPairs H b).map Cbor.encBase)) ∧
      verifyPairs H (((durableSpec p).proofPairs H b).map PairD.ok) b = .ok (PT.hash H (durableSpec p), v) := by
  have hst := split_crash_safe hlen ops hall hok hsplit p q hpq
  -- the durable content is the committed content of the fused history of a prefix `p'` of `p`
  have hpre : ∃ p' r', p = p' ++ r' ∧ durableSpec p = committedRun (fuse p') := by
    rcases durableSpec_cases ops hsplit p q hpq with h | ⟨p0, lvl, mid, e, h, _⟩
    · exact ⟨p, [], by simp, h⟩
    · exact ⟨p0, _, e, h⟩
  obtain ⟨p', r', e, hd⟩ := hpre
  have hi := ci_ginv hlen ops hall hok (p := p') (q := r' ++ q) (by rw [hpq, e, List.append_assoc])
  obtain ⟨p'', q'', e1, e2⟩ := committedRun_prefix (fuse p')
  have hokc : PTOK (durableSpec p) := by
    rw [hd, e2]
    exact (hok p'' (q'' ++ fuse (r' ++ q)) (by rw [hpq, e, List.append_assoc, fuse_append, e1, List.append_assoc])).1
  have huc : Uniform 64 (durableSpec p) := by rw [hd]; exact hi.uniformC
  generalize durableSpec p = d at hst hokc huc hb ⊢
  have hn : d.isNone = false := PT.isNone_of_weight (by omega)
  have hdep := depth_le_of_uniform huc
  obtain ⟨k, v, ho, _, hv⟩ := reopen_verifies H hlen (srun H p).h.t.store d b 200 hst hokc.1 hokc.2 hb1 hb (by omega)
  obtain ⟨k', v', key, ho', _, hx, hl, hbp⟩ :=
    blockProof_rep' hlen { root := .hashRef (PT.hash H d) d.weight, store := (srun H p).h.t.store } d 64 b rfl
      (Rep.ref d hn hst) trivial trivial huc (by decide) (by decide) hokc hb1 hb
  rw [ho] at ho'
  cases ho'
  refine ⟨k, v, key, ?_, hx, by omega, hbp, hv⟩
  rw [← owner_eq_ownerSpec d b hb1 hb]; exact ho

end

end

/-! ### 4. sharpness: two passes between the Commit and the write -/

def splitKeyA : List Nib := List.replicate 64 1
def splitKeyD : List Nib := 2 :: List.replicate 63 4

/-- two keys, a durable commit (fused), a change of one key, `Commit` whose batch is held by the caller -/
def splitCommon : List SOp :=
  [.op (.upd splitKeyA [1, 0xee] 2), .op (.upd splitKeyD [2, 0xee] 3), .op (.commit (-1)), .op (.upd splitKeyD [4] 1),
   .commitB (-1)]

/-- the trie reopened from the root hash and weight of the durable commit (after the third operation) over the storage
    the split history `ops` leaves -/
def durableReopen (ops : List SOp) : WT :=
  { root := .hashRef (rootHash toyH (srun toyH (splitCommon.take 3)).h.t).2 (srun toyH (splitCommon.take 3)).h.t.weight,
    store := (srun toyH ops).h.t.store }

set_option maxRecDepth 1000000 in
/-- GOAL 4. With TWO `DeleteNodes` passes before the write of the batch (`splitOK` fails) the storage a crash leaves has
    lost the previous durable root: the trie reopened from it cannot answer block 1. With ONE pass every block 1..5 is
    answered. -/
theorem split_two_gc_breaks :
    splitOK false 0 (splitCommon ++ [.op .gc, .op .gc]) = false ∧
    splitOK false 0 (splitCommon ++ [.op .gc]) = true ∧
    (srun toyH (splitCommon.take 3)).h.t.weight = 5 ∧
    Res.isOk (blockProof toyH (durableReopen (splitCommon ++ [.op .gc, .op .gc])) 1).2 = false ∧
    Res.isOk (blockProof toyH (durableReopen (splitCommon ++ [.op .gc])) 1).2 = true ∧
    (List.range' 1 5).all (fun b => Res.isOk (blockProof toyH (durableReopen (splitCommon ++ [.op .gc])) b).2) = true := by
  decide

end Verif.Wmpt
