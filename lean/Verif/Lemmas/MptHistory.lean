/-
Operation sequences on the state trie at one version, their abstract content, and the invariant linking both
(`Repr`).  The map-refinement facts about `insert`/`delete` are taken as the explicit hypothesis `MapLaws`
(they are the theorems of `Verif.Props.C01`).  Core Lean only.
-/
import Verif.Lemmas.MptCanon
namespace Verif.Mpt

/-- The map-refinement facts about `insert` / `delete` (proved in `Verif.Props.C01`; taken here as one explicit,
    named hypothesis so that the C02 composition theorem is closed by instantiating it). -/
structure MapLaws : Prop where
  lookup_insert : ∀ v b t p q, WF t → b ≠ [] → lookup (insert v b t p) q = if q = p then some b else lookup t q
  wf_insert     : ∀ v b t p, WF t → b ≠ [] → WFn (insert v b t p)
  lookup_delete_node : ∀ v t p t', WF t → delete v t p = .node t' → ∀ q, lookup t' q = if q = p then none else lookup t q
  lookup_delete_removed : ∀ v t p, WF t → delete v t p = .removed → ∀ q, q ≠ p → lookup t q = none
  wf_delete     : ∀ v t p t', WF t → delete v t p = .node t' → WFn t'
  delete_notPresent_iff : ∀ v t p, WF t → (delete v t p = .notPresent ↔ lookup t p = none)
  delete_no_panic : ∀ v t p, WF t → delete v t p ≠ .panic

/-- the exported mutating operations: `Insert(p, b)` (an empty `b` deletes, an over-size `b` is rejected and leaves the
    trie unchanged) and `Delete(p)` (a failing delete leaves the trie unchanged) -/
inductive Op where
  | ins (p : List Nib) (b : Bytes) : Op
  | del (p : List Nib) : Op

/-- one exported operation at version `v` (`maxSize` is the value-size limit of `Insert`) -/
def step (maxSize v : Nat) (t : Node) : Op → Node
  | .ins p b => (Trie.insert maxSize v t p b).1
  | .del p => (Trie.delete v t p).1

def runFrom (maxSize v : Nat) (t : Node) (ops : List Op) : Node := ops.foldl (step maxSize v) t

/-- the trie after executing `ops` from the empty trie, all at the single version `v` -/
def run (maxSize v : Nat) (ops : List Op) : Node := runFrom maxSize v .empty ops

abbrev Content := List Nib → Option Bytes

/-- the effect of one operation on the abstract path ↦ value map -/
def stepMap (maxSize : Nat) (m : Content) : Op → Content
  | .ins p b =>
    if b = [] then fun q => if q = p then none else m q
    else if b.length > maxSize then m
    else fun q => if q = p then some b else m q
  | .del p => fun q => if q = p then none else m q

def contentFrom (maxSize : Nat) (m : Content) (ops : List Op) : Content := ops.foldl (stepMap maxSize) m

/-- the abstract content after `ops` (starting from the empty map) -/
def content (maxSize : Nat) (ops : List Op) : Content := contentFrom maxSize (fun _ => none) ops

/-- the invariant linking a trie to an abstract map -/
def Repr (v : Nat) (t : Node) (m : Content) : Prop := WF t ∧ AllOrigin v t ∧ ∀ q, lookup t q = m q

theorem repr_delete (L : MapLaws) (v : Nat) (t : Node) (m : Content) (p : List Nib) (h : Repr v t m) :
    Repr v (Trie.delete v t p).1 (fun q => if q = p then none else m q) := by
  obtain ⟨hw, ho, hm⟩ := h
  unfold Trie.delete
  split
  · rename_i hd
    have hnone := (L.delete_notPresent_iff v t p hw).mp hd
    refine ⟨hw, ho, fun q => ?_⟩
    by_cases hq : q = p
    · subst hq; simp [hnone]
    · simp [hq, hm]
  · rename_i hd; exact absurd hd (L.delete_no_panic v t p hw)
  · rename_i hd
    refine ⟨Or.inl rfl, by simp [AllOrigin], fun q => ?_⟩
    by_cases hq : q = p
    · simp [hq]
    · simp [hq, ← hm, L.lookup_delete_removed v t p hw hd q hq]
  · rename_i t' hd
    refine ⟨Or.inr (L.wf_delete v t p t' hw hd), allOrigin_delete v t p t' ho hd, fun q => ?_⟩
    rw [L.lookup_delete_node v t p t' hw hd q, hm]

theorem repr_step (L : MapLaws) (maxSize v : Nat) (t : Node) (m : Content) (op : Op) (h : Repr v t m) :
    Repr v (step maxSize v t op) (stepMap maxSize m op) := by
  cases op with
  | del p => exact repr_delete L v t m p h
  | ins p b =>
    simp only [step, stepMap, Trie.insert]
    by_cases hb : b = []
    · simp only [hb, if_true]; exact repr_delete L v t m p h
    · simp only [hb, if_false]
      by_cases hs : b.length > maxSize
      · simp only [hs, if_true]; exact h
      · simp only [hs, if_false]
        obtain ⟨hw, ho, hm⟩ := h
        refine ⟨Or.inr (L.wf_insert v b t p hw hb), allOrigin_insert v b t p ho, fun q => ?_⟩
        rw [L.lookup_insert v b t p q hw hb, hm]

theorem repr_runFrom (L : MapLaws) (maxSize v : Nat) (ops : List Op) : ∀ (t : Node) (m : Content), Repr v t m →
    Repr v (runFrom maxSize v t ops) (contentFrom maxSize m ops) := by
  induction ops with
  | nil => intro t m h; exact h
  | cons op ops ih =>
    intro t m h
    simp only [runFrom, contentFrom, List.foldl_cons]
    exact ih _ _ (repr_step L maxSize v t m op h)

end Verif.Mpt
