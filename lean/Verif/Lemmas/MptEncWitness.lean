/-
Concrete type-confusion collisions of the node-hash format:
  * `xExt` / `xLeaf`   extension ↔ leaf (needs a child key that starts with ':'; shown with `H = id`, origin 58);
  * `cLeaf H v` / `cFull v`   leaf ↔ branch, for EVERY hash function `H` and origin `v` (no property of `H` is used).
Core Lean only.
-/
import Verif.Lemmas.MptEncInj
import Verif.Lemmas.MptCanonDec
namespace Verif.Mpt

/-! ### type-confusion witnesses -/
theorem key_full_congr (H : Bytes → Bytes) {o : Nat} {ch₁ ch₂ : Nib → Node} {val : Option Bytes} {pre : List Nib}
    (h1 : ∀ i, (ch₁ i).isEmpty = (ch₂ i).isEmpty)
    (h2 : ∀ i, key H (ch₁ i) (pre ++ [i]) = key H (ch₂ i) (pre ++ [i])) :
    key H (.full o ch₁ val) pre = key H (.full o ch₂ val) pre := by
  simp only [key]
  have : (fun i => (if (ch₁ i).isEmpty then [] else hexBytes (key H (ch₁ i) (pre ++ [i]))) ++ [sep])
      = (fun i => (if (ch₂ i).isEmpty then [] else hexBytes (key H (ch₂ i) (pre ++ [i]))) ++ [sep]) := by
    funext i; rw [h1, h2]
  rw [this]

theorem le64_58 : le64 58 = [58, 0, 0, 0, 0, 0, 0, 0] := by decide

/-- leaf/extension confusion (needs a child key starting with `:`; shown with `H = id`, origin 58) -/
def xF : Node := .full 58 (upd (upd emptyCh 0 (.leaf 58 [] [1])) 1 (.leaf 58 [] [2])) none
def xLv : Bytes := (key id xF [1, 1]).drop 1
def xExt : Node := .full 58 (upd (upd emptyCh 1 (.ext 58 [1] xF)) 2 (.leaf 58 [] [1])) none
def xLeaf : Node := .full 58 (upd (upd emptyCh 1 (.leaf 58 [] xLv)) 2 (.leaf 58 [] [1])) none

theorem xKey : key id (.ext 58 [1] xF) [1] = key id (.leaf 58 [] xLv) [1] := by
  have hF : key id xF [1, 1] = sep :: xLv := by
    simp only [xLv, xF, key, id, le64_58]
    rfl
  simp only [key, id, List.map_nil, List.append_nil]
  rw [show [1] ++ [1] = ([1, 1] : List Nib) from rfl, hF]
  simp

theorem xRoot : root id xExt = root id xLeaf := by
  apply key_full_congr
  · intro i; simp only [upd]
    split
    · rfl
    · split <;> rfl
  · intro i; simp only [upd]
    split
    · rfl
    · split
      · rename_i h; subst h; exact xKey
      · rfl

theorem xLv_ne : xLv ≠ [] := by simp [xLv, xF, key, le64_58]

theorem xLookup : lookup xExt [1] ≠ lookup xLeaf [1] := by
  have h1 : lookup xExt [1] = none := by decide
  have h2 : lookup xLeaf [1] = some xLv := by simp [xLeaf, upd, lookup, xLv_ne]
  rw [h1, h2]; simp

/-- leaf/branch confusion: works for every hash function and origin -/
def cL₁ (v : Nat) : Node := .leaf v [] [1]
def cL₂ (v : Nat) : Node := .leaf v [] [2]
def cFull (v : Nat) : Node := .full v (upd (upd emptyCh 1 (cL₁ v)) 2 (cL₂ v)) none
def cLeaf (H : Bytes → Bytes) (v : Nat) : Node :=
  .leaf v (toNibs (key H (cL₁ v) [1])) (hexBytes (key H (cL₂ v) [2]) ++ List.replicate 14 sep)

theorem cRoot (H : Bytes → Bytes) (v : Nat) : root H (cLeaf H v) = root H (cFull v) := by
  simp only [root, cLeaf, cFull, key, finRange16, ← hexBytes_eq]
  simp [upd, emptyCh, Node.isEmpty, cL₁, cL₂, List.replicate]

theorem cWF (H : Bytes → Bytes) (v : Nat) : WF (cLeaf H v) ∧ WF (cFull v) := by
  refine ⟨Or.inr ?_, Or.inr ((wfnB_iff _).mp rfl)⟩
  simp [cLeaf, WFn, List.replicate]

theorem cOrigin (H : Bytes → Bytes) (v : Nat) : AllOrigin v (cLeaf H v) ∧ AllOrigin v (cFull v) :=
  ⟨allOrigin_leaf _ _ _, allOrigin_full _ (allOrigin_upd (allOrigin_upd (allOrigin_emptyCh v)
    (allOrigin_leaf _ _ _)) (allOrigin_leaf _ _ _))⟩

theorem cLookup (H : Bytes → Bytes) (v : Nat) : lookup (cLeaf H v) [1] ≠ lookup (cFull v) [1] := by
  have h2 : lookup (cFull v) [1] = some [1] := by simp [cFull, cL₁, upd, lookup]
  rw [h2, cLeaf, lookup_leaf_c]
  intro h
  split at h
  · split at h
    · cases h
    · have := congrArg List.length (Option.some.inj h)
      simp at this
  · cases h

end Verif.Mpt
