import Verif.Lemmas.MerkleArray
/-! Lemmas for C19: the index arithmetic of `GetPathByIndex` on the flat array picks the sibling on every level. -/
namespace Verif.Merkle

variable {α : Type}

/-- reading the flat array inside a known segment -/
theorem getD_of_drop (arr : Array α) (z : α) (p : Nat) (A B : List α) (h : arr.toList.drop p = A ++ B)
    (m : Nat) (hm : m < A.length) : arr.getD (p + m) z = A.getD m z := by
  have : (arr.toList.drop p)[m]? = A[m]? := by rw [h, List.getElem?_append_left hm]
  rw [List.getElem?_drop, Array.getElem?_toList] at this
  simp [Array.getD_eq_getD_getElem?, List.getD_eq_getElem?_getD, this]

theorem drop_next (H : α → α → α) (arr : Array α) (pl0 : Nat) (L : List α) (hL : 1 < L.length)
    (h : arr.toList.drop pl0 = (levelsFrom H L).flatten) :
    arr.toList.drop (pl0 + L.length) = (levelsFrom H (pairUp H L)).flatten := by
  rw [flatten_levelsFrom, if_pos hL] at h
  rw [← List.drop_drop, h, List.drop_left]

/-- sibling selection by array reads at the level's offset -/
theorem sib_read (H : α → α → α) (z : α) (arr : Array α) (l0 : Nat) (L : List α)
    (h : arr.toList.drop l0 = (levelsFrom H L).flatten) (i : Nat) (hi : i < L.length) :
    (if i % 2 = 1 then arr.getD (l0 + i - 1) z
     else if l0 + i + 1 < l0 + L.length then arr.getD (l0 + i + 1) z
     else arr.getD (l0 + i) z) = sibOf z L i := by
  have hd : ∃ B, arr.toList.drop l0 = L ++ B := by
    rw [h, flatten_levelsFrom]; split
    · exact ⟨_, rfl⟩
    · exact ⟨[], by simp⟩
  obtain ⟨B, hB⟩ := hd
  unfold sibOf
  by_cases hodd : i % 2 = 1
  · simp only [hodd, if_true]
    have : l0 + i - 1 = l0 + (i - 1) := by omega
    rw [this]; exact getD_of_drop arr z l0 L B hB _ (by omega)
  · simp only [hodd, if_false]
    by_cases hl : i + 1 < L.length
    · have : l0 + i + 1 < l0 + L.length := by omega
      simp only [this, hl, if_true]
      exact getD_of_drop arr z l0 L B hB _ hl
    · have : ¬ (l0 + i + 1 < l0 + L.length) := by omega
      simp only [this, hl, if_false]
      exact getD_of_drop arr z l0 L B hB _ hi

theorem set_append_replicate (done : List α) (k : Nat) (z v : α) (hk : 1 ≤ k) :
    (done ++ List.replicate k z).set done.length v = (done ++ [v]) ++ List.replicate (k - 1) z := by
  obtain ⟨k', rfl⟩ : ∃ k', k = k' + 1 := ⟨k - 1, by omega⟩
  simp [List.replicate_succ]

/-- the loop of `GetPathByIndex` appends the siblings of all levels above `L` -/
theorem pathLoop_spec (H : α → α → α) (z : α) (arr : Array α) (L : List α) :
    ∀ (pl0 : Nat) (done : List α) (idx : Nat), 1 < L.length →
      arr.toList.drop pl0 = (levelsFrom H L).flatten → idx < L.length →
      pathLoop z arr pl0 L.length done.length idx
          (done ++ List.replicate ((levelsFrom H (pairUp H L)).length - 1) z)
        = done ++ specPath z (levelsFrom H (pairUp H L)) (idx / 2) := by
  induction L using levelsFrom.induct H with
  | case1 L hL ih =>
    intro pl0 done idx _ hrep hidx
    have hlen : (L.length + 1) / 2 = (pairUp H L).length := (length_pairUp H L).symm
    have hnext := drop_next H arr pl0 L hL hrep
    rw [pathLoop]
    by_cases h2 : 2 < L.length
    · simp only [h2, dite_true]
      have hL' : 1 < (pairUp H L).length := by rw [length_pairUp]; omega
      have hidx' : idx / 2 < (pairUp H L).length := by rw [length_pairUp]; omega
      have e : (idx - idx % 2) / 2 = idx / 2 := by omega
      rw [e, hlen, sib_read H z arr (pl0 + L.length) (pairUp H L) hnext (idx / 2) hidx']
      rw [levelsFrom_cons H (pairUp H L) hL']
      obtain ⟨X, xs, hX⟩ : ∃ X xs, levelsFrom H (pairUp H (pairUp H L)) = X :: xs := by
        cases hx : levelsFrom H (pairUp H (pairUp H L)) with
        | nil => exact absurd hx (levelsFrom_ne_nil H _)
        | cons a b => exact ⟨a, b, rfl⟩
      have hk : (pairUp H L :: levelsFrom H (pairUp H (pairUp H L))).length - 1
          = (levelsFrom H (pairUp H (pairUp H L))).length := by simp
      rw [hk, set_append_replicate done _ z _ (by rw [hX]; simp)]
      have := ih (pl0 + L.length) (done ++ [sibOf z (pairUp H L) (idx / 2)]) (idx / 2) hL' hnext hidx'
      rw [List.length_append, List.length_singleton] at this
      rw [this, hX]
      simp [specPath]
    · simp only [h2, dite_false]
      have hL' : ¬ 1 < (pairUp H L).length := by rw [length_pairUp]; omega
      rw [levelsFrom_single H _ hL']
      simp [specPath]
  | case2 L hL => intro _ _ _ h; exact absurd h hL

/-- the last slot of the flat array is the root -/
theorem getLast?_flatten (H : α → α → α) (z : α) (L : List α) : 1 ≤ L.length →
    (levelsFrom H L).flatten.getLast? = some (rootOf H z L) := by
  induction L using levelsFrom.induct H with
  | case1 L hL ih =>
    intro _
    rw [flatten_levelsFrom, if_pos hL, rootOf_step H z L hL]
    have h1 : 1 ≤ (pairUp H L).length := by rw [length_pairUp]; omega
    rw [List.getLast?_append, ih h1]
    simp
  | case2 L hL =>
    intro h1
    rw [flatten_levelsFrom, if_neg hL, rootOf_base H z L hL]
    match L, h1, hL with
    | [a], _, _ => simp
    | _ :: _ :: _, _, hL => simp at hL

/-- the root of the whole tree -/
def specRoot (H : α → α → α) (z : α) : List α → α
  | [a] => H a a
  | l => rootOf H z l

theorem getRoot_computeTree (H : α → α → α) (z : α) (ls : List α) (h : 1 ≤ ls.length) :
    getRoot z (computeTree H z ls) = specRoot H z ls := by
  have ht := computeTree_tree H z ls h
  have hr : getRoot z (computeTree H z ls) = ((computeTree H z ls).tree.toList.getLast?).getD z := by
    simp [getRoot, Array.getD_eq_getD_getElem?, List.getLast?_eq_getElem?]
  rw [hr, ht]
  by_cases h1 : ls.length = 1
  · match ls, h1 with
    | [a], _ => simp [levels, specRoot]
  · rw [levels_of_ne_one H ls h1, getLast?_flatten H z ls h]
    match ls, h1 with
    | [], _ => simp at h
    | _ :: _ :: _, _ => simp [specRoot]

/-- **`GetPathByIndex` on the computed tree returns the sibling path of the specification.** -/
theorem pathByIndex_computeTree (H : α → α → α) (z : α) (ls : List α) (i : Nat) (hi : i < ls.length) :
    (pathByIndex z (computeTree H z ls) i).nodes = specPath z (levels H ls) i ∧
    (pathByIndex z (computeTree H z ls) i).leafIndex = (i : Int) := by
  refine ⟨?_, rfl⟩
  have h : 1 ≤ ls.length := by omega
  have ht := computeTree_tree H z ls h
  have hsz := computeSize_spec H ls h
  by_cases h1 : ls.length = 1
  · match ls, h1 with
    | [a], _ =>
      have : i = 0 := by simpa using hi
      subst this
      simp [pathByIndex, computeTree, computeSize, levels, specPath, sibOf, pathLoop]
  · have hL : 1 < ls.length := by omega
    rw [levels_of_ne_one H ls h1] at ht hsz ⊢
    have hlv : (computeTree H z ls).levels = (levelsFrom H ls).length := by
      simp [computeTree, hsz]
    have hlc : (computeTree H z ls).leavesCount = ls.length := rfl
    have hrep : (computeTree H z ls).tree.toList.drop 0 = (levelsFrom H ls).flatten := by simpa using ht
    unfold pathByIndex
    simp only [hlv, hlc]
    have hp0 := sib_read H z (computeTree H z ls).tree 0 ls hrep i hi
    simp only [Nat.zero_add] at hp0
    rw [hp0, levelsFrom_cons H ls hL]
    obtain ⟨X, xs, hX⟩ : ∃ X xs, levelsFrom H (pairUp H ls) = X :: xs := by
      cases hx : levelsFrom H (pairUp H ls) with
      | nil => exact absurd hx (levelsFrom_ne_nil H _)
      | cons a b => exact ⟨a, b, rfl⟩
    have hk : (ls :: levelsFrom H (pairUp H ls)).length - 1 = (levelsFrom H (pairUp H ls)).length := by simp
    rw [hk]
    have hset := set_append_replicate ([] : List α) (levelsFrom H (pairUp H ls)).length z (sibOf z ls i)
      (by rw [hX]; simp)
    simp only [List.nil_append, List.length_nil] at hset
    rw [hset]
    have := pathLoop_spec H z (computeTree H z ls).tree ls 0 [sibOf z ls i] i hL hrep hi
    simp only [List.length_singleton] at this
    rw [this, hX]
    simp [specPath]

end Verif.Merkle

namespace Verif.Merkle
variable {α : Type}

/-- the loop of `GetLeafIndex` finds the first leaf equal to the hash -/
theorem leafIndexLoop_spec [DecidableEq α] (z : α) (arr : Array α) (h : α) : ∀ (l : List α) (i : Nat),
    (∀ m, m < l.length → arr.getD (i + m) z = l.getD m z) →
    leafIndexLoop z arr h i l.length = if h ∈ l then some (i + l.idxOf h) else none := by
  intro l
  induction l with
  | nil => intro i _; simp [leafIndexLoop]
  | cons a l ih =>
    intro i hl
    have h0 : arr.getD i z = a := by simpa using hl 0 (by simp)
    simp only [List.length_cons, leafIndexLoop, h0]
    by_cases e : a = h
    · subst e; simp [List.idxOf_cons]
    · have hl' : ∀ m, m < l.length → arr.getD (i + 1 + m) z = l.getD m z := by
        intro m hm
        have := hl (m + 1) (by simp; omega)
        simpa [Nat.add_assoc, Nat.add_comm 1 m] using this
      have e' : ¬ h = a := fun x => e x.symm
      rw [if_neg e, ih (i + 1) hl']
      simp only [List.mem_cons, e', false_or, List.idxOf_cons]
      have : (a == h) = false := by simpa using e
      simp only [this, cond_false]
      split
      · congr 1; omega
      · rfl

theorem getLeafIndex_computeTree [DecidableEq α] (H : α → α → α) (z : α) (ls : List α) (hn : 1 ≤ ls.length) (h : α) :
    getLeafIndex z (computeTree H z ls) h = if h ∈ ls then some (ls.idxOf h) else none := by
  have ht := computeTree_tree H z ls hn
  have hpre : ∃ B, (computeTree H z ls).tree.toList.drop 0 = ls ++ B := by
    rw [List.drop_zero, ht]
    by_cases h1 : ls.length = 1
    · match ls, h1 with
      | [a], _ => exact ⟨[H a a], by simp [levels]⟩
    · rw [levels_of_ne_one H ls h1, flatten_levelsFrom]; split
      · exact ⟨_, rfl⟩
      · exact ⟨[], by simp⟩
  obtain ⟨B, hB⟩ := hpre
  have := leafIndexLoop_spec z (computeTree H z ls).tree h ls 0
    (fun m hm => getD_of_drop _ z 0 ls B hB m hm)
  simpa [getLeafIndex, computeTree] using this

end Verif.Merkle
