/- Helper lemmas about the storage and the bookkeeping lists of the weighted-trie model. -/
import Verif.Model.WmptOps
namespace Verif.Wmpt

theorem mem_eraseAll {l xs : List Bytes} {h : Bytes} : h ∈ eraseAll l xs ↔ h ∈ l ∧ h ∉ xs := by
  simp [eraseAll, List.mem_filter]

theorem get_del_ne (s : Store) (k k' : Bytes) (h : k' ≠ k) : (s.del k).get k' = s.get k' := by
  induction s with
  | nil => rfl
  | cons e tl ih =>
    simp only [Store.del, Store.get, List.filter] at ih ⊢
    by_cases he : e.1 = k
    · have : (e.1 != k) = false := by simp [he]
      simp only [this]
      have hk : (k' == e.1) = false := by simp [he, h]
      rw [ih]
      simp [List.lookup, hk]
    · have : (e.1 != k) = true := by simp [he]
      simp only [this]
      by_cases hk : k' = e.1
      · simp [List.lookup, hk]
      · have hk' : (k' == e.1) = false := by simp [hk]
        simp [List.lookup, hk', ih]

/-- deleting a list of keys leaves every other key untouched -/
theorem get_apply_dels (s : Store) (ks : List Bytes) (k' : Bytes) (h : k' ∉ ks) :
    (s.apply (ks.map StoreOp.del)).get k' = s.get k' := by
  induction ks generalizing s with
  | nil => rfl
  | cons k tl ih =>
    simp only [List.map_cons, Store.apply]
    rw [ih _ (fun hm => h (List.mem_cons_of_mem _ hm))]
    exact get_del_ne s k k' (fun e => h (e ▸ List.mem_cons_self))

end Verif.Wmpt
