/-
Lemmas about the node cache model (Verif.Model.MptCache): the cache never changes what a read sees beyond adding its
own entries to the store (`viewOf`), all traversals through `getNodeC` compute what the partial-tree traversals of
Verif.Model.MptPartial compute on the store extended by the cache, and they preserve every entry-wise invariant.
-/
import Verif.Lemmas.MptPartial
import Verif.Model.MptCache
namespace Verif.Cache
open Verif.Mpt (Bytes Nib)
open Verif.Codec Verif.Partial

/-! ### decoded content of a store; the partial tree over decoded content -/

/-- the decoded node the byte store holds under `k` (absent or undecodable: none) -/
def nodeOf (g : Bytes → Option Bytes) (k : Bytes) : Option Repr :=
  match g k with
  | none => none
  | some bs =>
    match decode bs with
    | .ok r => some r
    | _ => none

/-- `buildP` over decoded content -/
def buildV (view : Bytes → Option Repr) : Nat → Bytes → PTree
  | 0, k => .missing k
  | n + 1, k =>
    match view k with
    | none => .missing k
    | some r =>
      match r.body with
      | .leaf _ p v => .leaf p v
      | .full ch v =>
        .full (fun i => match ch[i.val]? with
                        | some (some ck) => buildV view n ck
                        | _ => .empty) v
      | .ext p ck => .ext p (buildV view n ck)
      | .value _ => .missing k

theorem buildP_eq_buildV (g : Bytes → Option Bytes) : ∀ (n : Nat) (k : Bytes), buildP g n k = buildV (nodeOf g) n k := by
  intro n
  induction n with
  | zero => intro k; rfl
  | succ n ih =>
    intro k
    simp only [buildP, buildV, nodeOf]
    cases hg : g k with
    | none => rfl
    | some bs =>
      simp only
      cases hd : decode bs with
      | err => rfl
      | panic => rfl
      | ok r =>
        obtain ⟨ver, org, body⟩ := r
        cases body with
        | value v => rfl
        | leaf pre p v => rfl
        | full ch v =>
          simp only
          congr 1
          funext i
          cases ch[i.val]? with
          | none => rfl
          | some o => cases o with
            | none => rfl
            | some ck => exact ih ck
        | ext p ck => simp only [ih]

/-! ### clones, cache reads and writes -/

theorem cloneR_ok {r : Repr} (h : ReprOK r) : cloneR r = r := by
  simp [cloneR, decode_encode_ok r h]

theorem cloneR_decoded {bs : Bytes} {r : Repr} (h : decode bs = .ok r) : cloneR r = r :=
  cloneR_ok (decode_reprOK bs r h)

/-- an entry-wise property of a cache: of every local live entry and of everything `main` answers -/
def Cache.All (P : Bytes → Repr → Prop) (c : Cache) : Prop :=
  (∀ k r, (k, some r) ∈ c.loc → P k r) ∧ (∀ k r, c.main k = some r → P k r)

/-- every cached node survives an encode / decode copy unchanged -/
def CacheOK (c : Cache) : Prop := Cache.All (fun _ r => ReprOK r) c

theorem cacheOK_empty : CacheOK Cache.empty :=
  ⟨fun _ _ h => by simp [Cache.empty] at h, fun _ _ h => by simp [Cache.empty] at h⟩

theorem Cache.get_set (c : Cache) (k : Bytes) (r : Repr) (k' : Bytes) :
    (c.set k r).get k' = if k = k' then some (cloneR (cloneR r)) else c.get k' := by
  by_cases h : k = k' <;> simp [Cache.get, Cache.set, h]

theorem Cache.get_remove (c : Cache) (k k' : Bytes) :
    (c.remove k).get k' = if k = k' then none else c.get k' := by
  by_cases h : k = k' <;> simp [Cache.get, Cache.remove, h]

/-- what `Get` returns is a clone of an entry -/
theorem Cache.get_some {c : Cache} {k : Bytes} {r : Repr} (h : c.get k = some r) :
    (∃ r0, (k, some r0) ∈ c.loc ∧ r = cloneR r0) ∨ c.main k = some r := by
  unfold Cache.get at h
  split at h
  · rename_i k0 r0 hf
    left
    have hm := List.mem_of_find?_eq_some hf
    have hk := List.find?_some hf
    simp only [beq_iff_eq] at hk
    subst hk
    simp only [Option.some.injEq] at h
    exact ⟨r0, hm, h.symm⟩
  · cases h
  · right; exact h

theorem Cache.All.get {P : Bytes → Repr → Prop} {c : Cache} (hP : Cache.All P c) (hok : CacheOK c) {k : Bytes}
    {r : Repr} (h : c.get k = some r) : P k r := by
  rcases Cache.get_some h with ⟨r0, hm, rfl⟩ | hm
  · rw [cloneR_ok (hok.1 k r0 hm)]
    exact hP.1 k r0 hm
  · exact hP.2 k r hm

theorem Cache.All.set {P : Bytes → Repr → Prop} {c : Cache} (hP : Cache.All P c) {k : Bytes} {r : Repr}
    (h : P k (cloneR r)) : Cache.All P (c.set k r) := by
  refine ⟨?_, hP.2⟩
  intro k' r' hm
  simp only [Cache.set, List.mem_cons, Prod.mk.injEq, Option.some.injEq] at hm
  rcases hm with ⟨rfl, rfl⟩ | hm
  · exact h
  · exact hP.1 k' r' hm

theorem Cache.All.remove {P : Bytes → Repr → Prop} {c : Cache} (hP : Cache.All P c) (k : Bytes) :
    Cache.All P (c.remove k) := by
  refine ⟨?_, hP.2⟩
  intro k' r' hm
  simp only [Cache.remove, List.mem_cons, Prod.mk.injEq, reduceCtorEq, and_false, false_or] at hm
  exact hP.1 k' r' hm

/-! ### what a trie with cache `c` sees of the store -/

/-- the node a read of key `k` finds: the cached one, else the stored one -/
def viewOf (c : Cache) (get : Bytes → Option Bytes) (k : Bytes) : Option Repr :=
  match c.get k with
  | some r => some r
  | none => nodeOf get k

theorem nodeOf_unionGet {c : Cache} (hok : CacheOK c) (get : Bytes → Option Bytes) :
    nodeOf (unionGet c get) = viewOf c get := by
  funext k
  unfold nodeOf unionGet viewOf
  cases hc : c.get k with
  | none => rfl
  | some r =>
    have : ReprOK r := Cache.All.get hok hok hc
    simp [decode_encode_ok r this]

/-- the property of stored nodes that a read copies into the cache -/
def StoreAll (P : Bytes → Repr → Prop) (get : Bytes → Option Bytes) : Prop :=
  ∀ k bs r, get k = some bs → decode bs = .ok r → P k r

theorem storeAll_ok (get : Bytes → Option Bytes) : StoreAll (fun _ r => ReprOK r) get :=
  fun _ bs r _ hd => decode_reprOK bs r hd

/-- `getNode`: returns what the view holds, leaves the view unchanged, keeps every entry-wise invariant that stored
    nodes satisfy -/
theorem getNodeC_spec (c : Cache) (get : Bytes → Option Bytes) (k : Bytes) :
    (getNodeC c get k).2 = viewOf c get k ∧ viewOf (getNodeC c get k).1 get = viewOf c get ∧
      (∀ P : Bytes → Repr → Prop, StoreAll P get → Cache.All P c → Cache.All P (getNodeC c get k).1) := by
  cases hc : c.get k with
  | some r =>
    have e : getNodeC c get k = (c, some r) := by simp [getNodeC, hc]
    rw [e]
    exact ⟨by simp [viewOf, hc], rfl, fun _ _ h => h⟩
  | none =>
    cases hg : get k with
    | none =>
      have e : getNodeC c get k = (c, none) := by simp [getNodeC, hc, hg]
      rw [e]
      exact ⟨by simp [viewOf, hc, nodeOf, hg], rfl, fun _ _ h => h⟩
    | some bs =>
      cases hd : decode bs with
      | err =>
        have e : getNodeC c get k = (c, none) := by simp [getNodeC, hc, hg, hd]
        rw [e]
        exact ⟨by simp [viewOf, hc, nodeOf, hg, hd], rfl, fun _ _ h => h⟩
      | panic =>
        have e : getNodeC c get k = (c, none) := by simp [getNodeC, hc, hg, hd]
        rw [e]
        exact ⟨by simp [viewOf, hc, nodeOf, hg, hd], rfl, fun _ _ h => h⟩
      | ok r =>
        have e : getNodeC c get k = (c.set k r, some r) := by simp [getNodeC, hc, hg, hd]
        rw [e]
        have hcl : cloneR r = r := cloneR_decoded hd
        refine ⟨by simp [viewOf, hc, nodeOf, hg, hd], ?_, ?_⟩
        · funext k'
          simp only [viewOf, Cache.get_set, hcl]
          by_cases hk : k = k'
          · subst hk; simp [hc, nodeOf, hg, hd]
          · simp [hk]
        · intro P hs hP
          exact hP.set (by rw [hcl]; exact hs k bs r hg hd)

theorem getNodeC_ok {c : Cache} (hok : CacheOK c) (get : Bytes → Option Bytes) (k : Bytes) :
    CacheOK (getNodeC c get k).1 :=
  (getNodeC_spec c get k).2.2 _ (storeAll_ok get) hok

/-! ### lookups through the cache -/

theorem buildV_not_empty (V : Bytes → Option Repr) (n : Nat) (k : Bytes) : (buildV V n k).isEmpty = false := by
  cases n with
  | zero => rfl
  | succ n =>
    simp only [buildV]
    cases V k with
    | none => rfl
    | some r =>
      obtain ⟨ver, org, body⟩ := r
      cases body <;> rfl

/-- `lookupKey` computes `lookupP` on the partial tree of the view, leaves the view unchanged and keeps every
    entry-wise invariant of stored nodes -/
theorem lookupKey_spec (get : Bytes → Option Bytes) (V : Bytes → Option Repr) :
    ∀ (n : Nat) (c : Cache) (k p : Bytes), viewOf c get = V →
      (lookupKey get n c k p).2 = lookupP (buildV V n k) p ∧ viewOf (lookupKey get n c k p).1 get = V ∧
        (∀ P : Bytes → Repr → Prop, StoreAll P get → Cache.All P c → Cache.All P (lookupKey get n c k p).1) := by
  intro n
  induction n with
  | zero => intro c k p hV; exact ⟨rfl, hV, fun _ _ h => h⟩
  | succ n ih =>
    intro c k p hV
    obtain ⟨g1, g2, g3⟩ := getNodeC_spec c get k
    rw [hV] at g1 g2
    simp only [lookupKey, buildV]
    generalize getNodeC c get k = res at g1 g2 g3
    obtain ⟨c', o⟩ := res
    simp only at g1 g2 g3
    subst g1
    cases hv : V k with
    | none => exact ⟨rfl, g2, g3⟩
    | some r =>
      simp only
      obtain ⟨ver, org, body⟩ := r
      cases body with
      | value v => exact ⟨rfl, g2, g3⟩
      | leaf pre lp v => exact ⟨rfl, g2, g3⟩
      | full ch v =>
        simp only
        cases p with
        | nil => exact ⟨rfl, g2, g3⟩
        | cons x rest =>
          simp only [lookupP]
          cases nibOf x with
          | none => exact ⟨by simp, g2, g3⟩
          | some i =>
            simp only
            cases hch : ch[i.val]? with
            | none => exact ⟨by simp [PTree.isEmpty], g2, g3⟩
            | some o =>
              cases o with
              | none => exact ⟨by simp [PTree.isEmpty], g2, g3⟩
              | some ck =>
                simp only
                obtain ⟨h1, h2, h3⟩ := ih c' ck rest g2
                refine ⟨?_, h2, fun P hs hP => h3 P hs (g3 P hs hP)⟩
                rw [h1]
                simp [buildV_not_empty]
      | ext ep ck =>
        simp only [lookupP]
        by_cases h0 : matchLen p ep = 0
        · simp only [h0, if_true]; exact ⟨trivial, g2, g3⟩
        · simp only [h0, if_false]
          by_cases h1 : matchLen p ep = ep.length
          · simp only [h1, if_true]
            obtain ⟨i1, i2, i3⟩ := ih c' ck (p.drop ep.length) g2
            exact ⟨i1, i2, fun P hs hP => i3 P hs (g3 P hs hP)⟩
          · simp only [h1, if_false]; exact ⟨trivial, g2, g3⟩

/-! ### iteration through the cache -/

/-- one round of the branch loop of `iterKey` -/
def iterStep (get : Bytes → Option Bytes) (m : IterErr) (n : Nat) (ch : List (Option Bytes)) (pre : Bytes)
    (a : IterAcc) (i : Nib) : IterAcc :=
  match ch[i.val]? with
  | some (some ck) =>
    let r := iterKey get m n a.1 ck (pre ++ [Verif.Mpt.nibChar i])
    (r.1, a.2.1 || r.2.1 != .none, a.2.2 ++ r.2.2)
  | _ => a

/-- the children of a branch in the partial tree of a view -/
def childV (V : Bytes → Option Repr) (n : Nat) (ch : List (Option Bytes)) (i : Nib) : PTree :=
  match ch[i.val]? with
  | some (some ck) => buildV V n ck
  | _ => .empty

/-- what `iterKey` has to satisfy at fuel `n` (the induction hypothesis of `iterKey_spec`) -/
def IterSpec (get : Bytes → Option Bytes) (V : Bytes → Option Repr) (m : IterErr) (n : Nat) : Prop :=
  ∀ (c : Cache) (k pre : Bytes), viewOf c get = V →
    (iterKey get m n c k pre).2.1 = iterErr m (buildV V n k) ∧
    (iterKey get m n c k pre).2.2 = valuesP (buildV V n k) pre ∧
    viewOf (iterKey get m n c k pre).1 get = V ∧
    (∀ P : Bytes → Repr → Prop, StoreAll P get → Cache.All P c → Cache.All P (iterKey get m n c k pre).1)

theorem iterFold_spec (get : Bytes → Option Bytes) (V : Bytes → Option Repr) (m : IterErr) (n : Nat)
    (ih : IterSpec get V m n) (ch : List (Option Bytes)) (pre : Bytes) :
    ∀ (l : List Nib) (a : IterAcc), viewOf a.1 get = V →
      (l.foldl (iterStep get m n ch pre) a).2.1
          = (a.2.1 || l.any (fun i => iterErr m (childV V n ch i) != .none)) ∧
      (l.foldl (iterStep get m n ch pre) a).2.2
          = a.2.2 ++ l.flatMap (fun i => valuesP (childV V n ch i) (pre ++ [Verif.Mpt.nibChar i])) ∧
      viewOf (l.foldl (iterStep get m n ch pre) a).1 get = V ∧
      (∀ P : Bytes → Repr → Prop, StoreAll P get → Cache.All P a.1 →
        Cache.All P (l.foldl (iterStep get m n ch pre) a).1) := by
  intro l
  induction l with
  | nil => intro a ha; exact ⟨by simp, by simp, ha, fun _ _ h => h⟩
  | cons i l ihl =>
    intro a ha
    simp only [List.foldl_cons, List.any_cons, List.flatMap_cons]
    -- one step
    have hstep : viewOf (iterStep get m n ch pre a i).1 get = V ∧
        (iterStep get m n ch pre a i).2.1 = (a.2.1 || iterErr m (childV V n ch i) != .none) ∧
        (iterStep get m n ch pre a i).2.2 = a.2.2 ++ valuesP (childV V n ch i) (pre ++ [Verif.Mpt.nibChar i]) ∧
        (∀ P : Bytes → Repr → Prop, StoreAll P get → Cache.All P a.1 →
          Cache.All P (iterStep get m n ch pre a i).1) := by
      unfold iterStep childV
      cases ch[i.val]? with
      | none => exact ⟨ha, by simp [iterErr], by simp [valuesP], fun _ _ h => h⟩
      | some o =>
        cases o with
        | none => exact ⟨ha, by simp [iterErr], by simp [valuesP], fun _ _ h => h⟩
        | some ck =>
          obtain ⟨h1, h2, h3, h4⟩ := ih a.1 ck (pre ++ [Verif.Mpt.nibChar i]) ha
          exact ⟨h3, by simp only [h1], by simp only [h2], h4⟩
    obtain ⟨s1, s2, s3, s4⟩ := hstep
    obtain ⟨r1, r2, r3, r4⟩ := ihl (iterStep get m n ch pre a i) s1
    refine ⟨?_, ?_, r3, fun P hs hP => r4 P hs (s4 P hs hP)⟩
    · rw [r1, s2, Bool.or_assoc]
    · rw [r2, s3, List.append_assoc]

theorem iterKey_spec (get : Bytes → Option Bytes) (V : Bytes → Option Repr) (m : IterErr) :
    ∀ n, IterSpec get V m n := by
  intro n
  induction n with
  | zero => intro c k pre hV; exact ⟨rfl, rfl, hV, fun _ _ h => h⟩
  | succ n ih =>
    intro c k pre hV
    obtain ⟨g1, g2, g3⟩ := getNodeC_spec c get k
    rw [hV] at g1 g2
    simp only [iterKey, buildV]
    generalize getNodeC c get k = res at g1 g2 g3
    obtain ⟨c', o⟩ := res
    simp only at g1 g2 g3
    subst g1
    cases hv : V k with
    | none => exact ⟨rfl, rfl, g2, g3⟩
    | some r =>
      simp only
      obtain ⟨ver, org, body⟩ := r
      cases body with
      | value v => exact ⟨rfl, rfl, g2, g3⟩
      | leaf pre' lp v => exact ⟨rfl, rfl, g2, g3⟩
      | ext ep ck =>
        simp only [iterErr, valuesP]
        obtain ⟨i1, i2, i3, i4⟩ := ih c' ck (pre ++ ep) g2
        exact ⟨i1, i2, i3, fun P hs hP => i4 P hs (g3 P hs hP)⟩
      | full ch v =>
        clear hv
        cases v with
        | none =>
          obtain ⟨f1, f2, f3, f4⟩ := iterFold_spec get V m n ih ch pre (List.finRange 16) (c', false, []) g2
          simp only [Bool.false_or] at f1
          refine ⟨?_, ?_, f3, fun P hs hP => f4 P hs (g3 P hs hP)⟩
          · change (if (List.foldl (iterStep get m n ch pre) (c', false, []) (List.finRange 16)).2.1 = true
              then IterErr.iterChild else IterErr.none) = _
            rw [f1]; rfl
          · change (List.foldl (iterStep get m n ch pre) (c', false, []) (List.finRange 16)).2.2 = _
            rw [f2]; rfl
        | some b =>
          obtain ⟨f1, f2, f3, f4⟩ := iterFold_spec get V m n ih ch pre (List.finRange 16) (c', false, [(pre, b)]) g2
          simp only [Bool.false_or] at f1
          refine ⟨?_, ?_, f3, fun P hs hP => f4 P hs (g3 P hs hP)⟩
          · change (if (List.foldl (iterStep get m n ch pre) (c', false, [(pre, b)]) (List.finRange 16)).2.1 = true
              then IterErr.iterChild else IterErr.none) = _
            rw [f1]; rfl
          · change (List.foldl (iterStep get m n ch pre) (c', false, [(pre, b)]) (List.finRange 16)).2.2 = _
            rw [f2]; rfl

/-! ### growing the view: only `nodeNotFound` answers can change -/

/-- every node `V` holds, `V'` holds too -/
def Agrees (V V' : Bytes → Option Repr) : Prop := ∀ k r, V k = some r → V' k = some r

theorem lookupP_mono {V V' : Bytes → Option Repr} (h : Agrees V V') :
    ∀ (n : Nat) (k p : Bytes),
      lookupP (buildV V n k) p = .nodeNotFound ∨ lookupP (buildV V n k) p = lookupP (buildV V' n k) p := by
  intro n
  induction n with
  | zero => intro k p; left; rfl
  | succ n ih =>
    intro k p
    simp only [buildV]
    cases hv : V k with
    | none => left; rfl
    | some r =>
      rw [h k r hv]
      simp only
      obtain ⟨ver, org, body⟩ := r
      cases body with
      | value v => left; rfl
      | leaf pre lp v => right; rfl
      | full ch v =>
        simp only
        cases p with
        | nil => right; rfl
        | cons x rest =>
          simp only [lookupP]
          cases nibOf x with
          | none => right; rfl
          | some i =>
            simp only
            cases ch[i.val]? with
            | none => right; rfl
            | some o =>
              cases o with
              | none => right; rfl
              | some ck =>
                simp only [buildV_not_empty]
                exact ih ck rest
      | ext ep ck =>
        simp only [lookupP]
        by_cases h0 : matchLen p ep = 0
        · right; simp [h0]
        · by_cases h1 : matchLen p ep = ep.length
          · rw [if_neg h0, if_pos h1, if_neg h0, if_pos h1]
            exact ih ck _
          · right; simp [h0, h1]

/-- a lookup of `p` inspects at most `p.length + 1` nodes: any larger fuel gives the same partial-tree answer -/
theorem lookupP_fuel (V : Bytes → Option Repr) :
    ∀ (n m : Nat) (k p : Bytes), p.length < n → p.length < m →
      lookupP (buildV V n k) p = lookupP (buildV V m k) p := by
  intro n
  induction n with
  | zero => intro m k p h; omega
  | succ n ih =>
    intro m k p hn hm
    cases m with
    | zero => omega
    | succ m =>
      simp only [buildV]
      cases hv : V k with
      | none => rfl
      | some r =>
        simp only
        obtain ⟨ver, org, body⟩ := r
        cases body with
        | value v => rfl
        | leaf pre lp v => rfl
        | full ch v =>
          simp only
          cases p with
          | nil => rfl
          | cons x rest =>
            simp only [lookupP]
            cases nibOf x with
            | none => rfl
            | some i =>
              simp only
              cases ch[i.val]? with
              | none => rfl
              | some o =>
                cases o with
                | none => rfl
                | some ck =>
                  simp only [buildV_not_empty]
                  simp only [List.length_cons] at hn hm
                  exact ih m ck rest (by omega) (by omega)
        | ext ep ck =>
          simp only [lookupP]
          by_cases h0 : matchLen p ep = 0
          · simp [h0]
          · by_cases h1 : matchLen p ep = ep.length
            · rw [if_neg h0, if_pos h1, if_neg h0, if_pos h1]
              have hlen : (p.drop ep.length).length < p.length := by
                have e := congrArg List.length (matchLen_eq_length p ep h1)
                simp only [List.length_append] at e
                have : 0 < ep.length := by omega
                omega
              exact ih m ck _ (by omega) (by omega)
            · simp [h0, h1]

/-! ### the cache updates of `insertNode` / `deleteNode` -/

theorem cacheInsertNode_all {P : Bytes → Repr → Prop} {c : Cache} (hP : Cache.All P c) {newK : Bytes} {newR : Repr}
    (h : P newK (cloneR newR)) (oldK : Option Bytes) : Cache.All P (cacheInsertNode c newK newR oldK) := by
  unfold cacheInsertNode
  cases oldK with
  | none => exact hP.set h
  | some ok =>
    simp only
    split
    · exact hP.set h
    · exact (hP.set h).remove ok

theorem cacheDeleteNode_all {P : Bytes → Repr → Prop} {c : Cache} (hP : Cache.All P c) (k : Bytes) :
    Cache.All P (cacheDeleteNode c k) := hP.remove k

end Verif.Cache
