import Verif.Model.RingGlue
import Verif.Lemmas.RingHeap
/-! Level filtering through `Check` is uniform over a logger and all loggers derived from it: a glue history is the
ring history of its enabled entries. -/
namespace Verif.Ring

/-- the ring operation a glue operation amounts to under minimum level `min` -/
def keep (min : Int) : GOp → Option (Op LEntry)
  | .log c e => if min ≤ e.lvl then some (.write c e) else none
  | .derive c => some (.derive c)

structure GInv (min : Int) (s : GState) : Prop where
  len : s.enab.length = s.h.ring.cores.length
  all : ∀ m ∈ s.enab, m = min

theorem ginv_init (cap : Nat) (min : Int) : GInv min (initG cap min) :=
  ⟨by simp [initG, initH, init], by simp [initG]⟩

theorem stepH_write_invalid (s : HState LEntry) (c : Nat) (e : LEntry) (h : s.ring.cores[c]? = none) :
    stepH s (.write c e) = s := by simp [stepH, writeH, h]

theorem stepH_derive_invalid (s : HState LEntry) (c : Nat) (h : s.ring.cores[c]? = none) :
    stepH s (.derive c) = s := by simp [stepH, derive, h]

theorem stepG_keep (min : Int) (s : GState) (op : GOp) (hi : GInv min s) :
    (stepG s op).h = (match keep min op with | some o => stepH s.h o | none => s.h) ∧ GInv min (stepG s op) := by
  obtain ⟨hlen, hall⟩ := hi
  cases op with
  | log c e =>
    simp only [stepG, logG, keep]
    by_cases hc : c < s.enab.length
    · have hm : s.enab[c]? = some s.enab[c] := List.getElem?_eq_getElem hc
      have hmin : s.enab[c] = min := hall _ (List.getElem_mem hc)
      rw [hm, hmin]
      by_cases hl : min ≤ e.lvl
      · simp only [hl, if_true]
        exact ⟨rfl, by
          refine ⟨?_, hall⟩
          show s.enab.length = (writeH s.h c e).ring.cores.length
          rw [hlen]; unfold writeH; split
          · simp only [write]; split <;> rfl
          · rfl⟩
      · simp only [hl, if_false]
        exact ⟨trivial, hlen, hall⟩
    · have hm : s.enab[c]? = none := List.getElem?_eq_none (by omega)
      have hk : s.h.ring.cores[c]? = none := List.getElem?_eq_none (by omega)
      rw [hm]
      refine ⟨?_, hlen, hall⟩
      by_cases hl : min ≤ e.lvl
      · simp only [hl, if_true]; exact (stepH_write_invalid s.h c e hk).symm
      · simp only [hl, if_false]
  | derive c =>
    simp only [stepG, deriveG, keep]
    by_cases hc : c < s.enab.length
    · have hm : s.enab[c]? = some s.enab[c] := List.getElem?_eq_getElem hc
      have hk : s.h.ring.cores[c]? = some s.h.ring.cores[c] := List.getElem?_eq_getElem (by omega)
      rw [hm, hk]
      refine ⟨rfl, ?_, ?_⟩
      · simp only [stepH, derive, hk, List.length_append, List.length_singleton, hlen]
      · intro m hmem
        simp only [List.mem_append, List.mem_singleton] at hmem
        rcases hmem with h | h
        · exact hall m h
        · rw [h]; exact hall _ (List.getElem_mem hc)
    · have hm : s.enab[c]? = none := List.getElem?_eq_none (by omega)
      have hk : s.h.ring.cores[c]? = none := List.getElem?_eq_none (by omega)
      rw [hm]
      exact ⟨(stepH_derive_invalid s.h c hk).symm, hlen, hall⟩

theorem runG_keep (min : Int) (h : List GOp) : ∀ s : GState, GInv min s →
    (runG s h).h = runH s.h (h.filterMap (keep min)) := by
  induction h with
  | nil => intro s _; rfl
  | cons op h ih =>
    intro s hi
    obtain ⟨h1, h2⟩ := stepG_keep min s op hi
    simp only [runG, List.foldl_cons] at ih ⊢
    rw [ih _ h2, h1]
    cases hk : keep min op with
    | none => simp [List.filterMap_cons, hk]
    | some o => simp [List.filterMap_cons, hk, runH]

theorem ginv_run (min : Int) (h : List GOp) : ∀ s : GState, GInv min s → GInv min (runG s h) := by
  induction h with
  | nil => intro s hi; exact hi
  | cons op h ih => intro s hi; exact ih _ (stepG_keep min s op hi).2

end Verif.Ring
