import Verif.Lemmas.StateCacheSys
/-! Completeness of lookups (C07 "publish"): without eviction, a lookup whose chain reaches a written value within
`maxDepth` blocks hits it. -/
set_option linter.unusedSectionVars false
namespace Verif.SC

variable {H K B V : Type} [DecidableEq H] [DecidableEq K] [DecidableEq B]

/-- a walk of exactly `n` parent steps through committed blocks none of which wrote `k` -/
inductive WalkN (T : Tree K B V) (k : K) : Nat → B → B → Prop where
  | refl (b : B) : WalkN T k 0 b b
  | step {n : Nat} {b c : B} {x : Blk K B V} :
      T.find b = some x → alookup x.writes k = none → WalkN T k n x.prev c → WalkN T k (n + 1) b c

theorem WalkN.walk {T : Tree K B V} {k : K} {n : Nat} {b c : B} (h : WalkN T k n b c) : Walk T k b c := by
  induction h with
  | refl b => exact .refl b
  | step hf hw _ ih => exact .step hf hw ih

theorem Inv.present {sc : SC K B V} {T : Tree K B V} (hI : Inv sc T none) {b : B} {x : Blk K B V} {k : K} {e : Entry V}
    (hx : T.find b = some x) (hw : alookup x.writes k = some e) :
    linkAt sc b = some x.prev ∧ entryAt sc k b = some e := by
  rcases hI.committed b x hx with h | h
  · cases hl : linkAt sc b with
    | none => exact absurd hl h
    | some p =>
      obtain ⟨y, hy, hp, hyw⟩ := hI.linked b p hl
      rw [hx] at hy; cases hy
      exact ⟨by rw [hp], hyw k e hw⟩
  · cases h

theorem Inv.link_of_find {sc : SC K B V} {T : Tree K B V} (hI : Inv sc T none) {b : B} {x : Blk K B V}
    (hx : T.find b = some x) : linkAt sc b = some x.prev := by
  rcases hI.committed b x hx with h | h
  · cases hl : linkAt sc b with
    | none => exact absurd hl h
    | some p =>
      obtain ⟨y, hy, hp, _⟩ := hI.linked b p hl
      rw [hx] at hy; cases hy
      rw [hp]
  · cases h

/-- from `link cur cnt`, with the written block `n` steps ahead, the walk ends in a hit of the written value -/
theorem Reader.run_complete {T : Tree K B V} {k : K} {d b : B} {x : Blk K B V} {v : V}
    (hx : T.find b = some x) (hw : alookup x.writes k = some (.val v)) :
    ∀ (n : Nat) (sc : SC K B V) (r : Reader K B V) (cur : B) (cnt fuel : Nat),
      Inv sc T none → WalkN T k n cur b → Walk T k d cur → r.key = k → r.blk = d → r.pc = .link cur cnt →
      cnt + n ≤ sc.maxDepth → 2 * n + 3 ≤ fuel → (Reader.run fuel sc r).1.evictions = sc.evictions →
      (Reader.run fuel sc r).2.pc = .done (some v) := by
  intro n
  induction n with
  | zero =>
    intro sc r cur cnt fuel hI hwn hwalk hk hd hpc hdepth hfuel hev
    cases hwn
    -- cur = b: the entry is present
    obtain ⟨f2, rfl⟩ : ∃ f2, fuel = f2 + 3 := ⟨fuel - 3, by omega⟩
    have hnd1 : ∀ v', r.pc ≠ .done v' := by intro v' h; rw [hpc] at h; cases h
    rw [Reader.run_succ _ _ _ hnd1] at hev ⊢
    have hR : RInv sc T r := by unfold RInv; rw [hpc, hk, hd]; exact hwalk
    have e1 : (r.stepSC sc).evictions = sc.evictions :=
      Nat.le_antisymm (by rw [← hev]; exact Reader.run_ev_le _ _ _) (Reader.stepSC_ev_le sc r)
    obtain ⟨hI1, hR1⟩ := Reader.step_inv hI hR e1
    have hpc1 : r.stepPc sc = .entry b cnt (linkAt sc b) := by
      unfold Reader.stepPc; rw [hpc]; simp only [LRU.get_snd]; rfl
    -- second step
    have hent1 : entryAt (r.stepSC sc) k b = some (.val v) := (hI1.present hx hw).2
    obtain ⟨m, hm1, hm2⟩ : ∃ m, alookup (r.stepSC sc).cache k = some m ∧ m.peek b = some (.val v) := by
      unfold entryAt at hent1
      cases h : alookup (r.stepSC sc).cache k with
      | none => rw [h] at hent1; cases hent1
      | some m => rw [h] at hent1; exact ⟨m, rfl, hent1⟩
    let r1 : Reader K B V := { r with pc := r.stepPc sc }
    have hnd2 : ∀ v', r1.pc ≠ .done v' := by intro v' h; simp only [r1] at h; rw [hpc1] at h; cases h
    rw [Reader.run_succ _ _ _ hnd2] at hev ⊢
    have hpc2 : r1.stepPc (r.stepSC sc) = (if b = d then .done (some v) else .memo (.val v)) := by
      unfold Reader.stepPc
      simp only [r1, hpc1, hk, hd, hm1, LRU.get_snd, hm2, Entry.result]
    by_cases hbd : b = d
    · rw [hpc2, if_pos hbd] at hev ⊢
      rw [Reader.run_of_done _ _ _ rfl]
    · rw [hpc2, if_neg hbd] at hev ⊢
      rw [Reader.run_succ _ _ _ (by intro v' h; cases h)]
      have : Reader.stepPc (r1.stepSC (r.stepSC sc)) { r1 with pc := RPc.memo (Entry.val v) } = .done (some v) := by
        unfold Reader.stepPc; simp only [Entry.result]
      rw [this, Reader.run_of_done _ _ _ rfl]
  | succ n ih =>
    intro sc r cur cnt fuel hI hwn hwalk hk hd hpc hdepth hfuel hev
    cases hwn with
    | step hf hnw hrest =>
      rename_i y
      obtain ⟨f2, rfl⟩ : ∃ f2, fuel = f2 + 2 := ⟨fuel - 2, by omega⟩
      have hnd1 : ∀ v', r.pc ≠ .done v' := by intro v' h; rw [hpc] at h; cases h
      rw [Reader.run_succ _ _ _ hnd1] at hev ⊢
      have hR : RInv sc T r := by unfold RInv; rw [hpc, hk, hd]; exact hwalk
      have e1 : (r.stepSC sc).evictions = sc.evictions :=
        Nat.le_antisymm (by rw [← hev]; exact Reader.run_ev_le _ _ _) (Reader.stepSC_ev_le sc r)
      obtain ⟨hI1, hR1⟩ := Reader.step_inv hI hR e1
      have hlink : linkAt sc cur = some y.prev := hI.link_of_find hf
      have hpc1 : r.stepPc sc = .entry cur cnt (some y.prev) := by
        unfold Reader.stepPc; rw [hpc]; simp only [LRU.get_snd]
        unfold linkAt at hlink; rw [hlink]
      have hF := Reader.stepSC_frame sc r e1
      have hmd1 : (r.stepSC sc).maxDepth = sc.maxDepth := hF.maxDepth
      -- the key's version map exists (the written block's entry is in it)
      have hentb : entryAt (r.stepSC sc) k b = some (.val v) := (hI1.present hx hw).2
      obtain ⟨m, hm1⟩ : ∃ m, alookup (r.stepSC sc).cache k = some m := by
        unfold entryAt at hentb
        cases h : alookup (r.stepSC sc).cache k with
        | none => rw [h] at hentb; cases hentb
        | some m => exact ⟨m, rfl⟩
      let r1 : Reader K B V := { r with pc := r.stepPc sc }
      have hnd2 : ∀ v', r1.pc ≠ .done v' := by intro v' h; simp only [r1] at h; rw [hpc1] at h; cases h
      rw [Reader.run_succ _ _ _ hnd2] at hev ⊢
      have e2 : (r1.stepSC (r.stepSC sc)).evictions = (r.stepSC sc).evictions :=
        Nat.le_antisymm (by rw [← e1] at hev; rw [← hev]; exact Reader.run_ev_le _ _ _) (Reader.stepSC_ev_le _ r1)
      obtain ⟨hI2, hR2⟩ := Reader.step_inv hI1 hR1 e2
      have hF2 := Reader.stepSC_frame (r.stepSC sc) r1 e2
      -- the answer on the chain from `cur`
      have hchain : Chain T k cur (.val v) := (WalkN.step hf hnw hrest).walk.chain (.here hx hw)
      cases hpe : m.peek cur with
      | some e =>
        have he : e = .val v :=
          Chain.det (hI1.sound k cur e (by rw [entryAt_eq_peek hm1]; exact hpe)) hchain
        subst he
        have hpc2 : r1.stepPc (r.stepSC sc) = (if cur = d then .done (some v) else .memo (.val v)) := by
          unfold Reader.stepPc
          simp only [r1, hpc1, hk, hd, hm1, LRU.get_snd, hpe, Entry.result]
        by_cases hbd : cur = d
        · rw [hpc2, if_pos hbd] at hev ⊢
          rw [Reader.run_of_done _ _ _ rfl]
        · rw [hpc2, if_neg hbd] at hev ⊢
          obtain ⟨f3, rfl⟩ : ∃ f3, f2 = f3 + 1 := ⟨f2 - 1, by omega⟩
          rw [Reader.run_succ _ _ _ (by intro v' h; cases h)]
          have : Reader.stepPc (r1.stepSC (r.stepSC sc)) { r1 with pc := RPc.memo (Entry.val v) } = .done (some v) := by
            unfold Reader.stepPc; simp only [Entry.result]
          rw [this, Reader.run_of_done _ _ _ rfl]
      | none =>
        have hpc2 : r1.stepPc (r.stepSC sc) = .link y.prev (cnt + 1) := by
          unfold Reader.stepPc
          simp only [r1, hpc1, hk, hm1, LRU.get_snd, hpe, hmd1]
          have : ¬ (cnt + 1 > sc.maxDepth) := by omega
          simp [this]
        rw [hpc2] at hev ⊢
        have hmd2 : (r1.stepSC (r.stepSC sc)).maxDepth = sc.maxDepth := by rw [hF2.maxDepth, hmd1]
        exact ih (r1.stepSC (r.stepSC sc)) { r1 with pc := .link y.prev (cnt + 1) } y.prev (cnt + 1) f2 hI2 hrest
          (Walk.snoc hwalk hf hnw) hk hd rfl (by rw [hmd2]; omega) (by omega) (by rw [hev, e2, e1])

/-- `StateCache.Get` finds a value written within `maxDepth` blocks up the chain -/
theorem SC.get_complete {T : Tree K B V} (sc : SC K B V) (hI : Inv sc T none) {k : K} {d b : B} {x : Blk K B V} {v : V}
    {n : Nat} (hwn : WalkN T k n d b) (hn : n ≤ sc.maxDepth) (hx : T.find b = some x)
    (hw : alookup x.writes k = some (.val v)) (hev : (sc.get k d).1.evictions = sc.evictions) :
    (sc.get k d).2 = some v := by
  unfold SC.get at hev ⊢
  simp only at hev ⊢
  have hentb : entryAt sc k b = some (.val v) := (hI.present hx hw).2
  obtain ⟨m, hm1⟩ : ∃ m, alookup sc.cache k = some m := by
    unfold entryAt at hentb
    cases h : alookup sc.cache k with
    | none => rw [h] at hentb; cases hentb
    | some m => exact ⟨m, rfl⟩
  have hfuel : 2 * sc.maxDepth + 4 = (2 * sc.maxDepth + 3) + 1 := by omega
  rw [hfuel] at hev ⊢
  rw [Reader.run_succ _ _ _ (by intro v' h; cases h)] at hev ⊢
  have hs : (Reader.init k d).stepSC sc = sc := by unfold Reader.stepSC Reader.init; rfl
  have hp : (Reader.init k d).stepPc sc = .link d 0 := by
    unfold Reader.stepPc Reader.init; simp only [hm1]
  rw [hs, hp] at hev ⊢
  have := Reader.run_complete hx hw n sc { Reader.init k d with pc := .link d 0 } d 0 (2 * sc.maxDepth + 3) hI hwn
    (.refl d) rfl rfl rfl (by omega) (by omega) hev
  unfold Reader.result; rw [this]

/-! ### the depth cut-off -/

/-- the first `n` blocks of `b`'s chain are committed and the cache holds no entry (own write or memo) of `k` at them -/
def NoEntryN (sc : SC K B V) (T : Tree K B V) (k : K) : Nat → B → Prop
  | 0, _ => True
  | n + 1, b => entryAt sc k b = none ∧ ∃ x, T.find b = some x ∧ NoEntryN sc T k n x.prev

theorem NoEntryN.frame {sc sc' : SC K B V} {T : Tree K B V} {k : K} {n : Nat} {b : B}
    (h : NoEntryN sc T k n b) (hf : ∀ b', entryAt sc k b' = none → entryAt sc' k b' = none) : NoEntryN sc' T k n b := by
  induction n generalizing b with
  | zero => trivial
  | succ n ih =>
    obtain ⟨h1, x, hx, h2⟩ := h
    exact ⟨hf b h1, x, hx, ih h2⟩

theorem RFrame.none_keep {sc sc' : SC K B V} {r : Reader K B V} (F : RFrame sc sc' r)
    (hnm : ∀ e, r.pc ≠ .memo e) (k : K) (b : B) (h : entryAt sc k b = none) : entryAt sc' k b = none := by
  cases h' : entryAt sc' k b with
  | none => rfl
  | some e =>
    rcases F.new k b e h' with h1 | ⟨_, _, e', hpc, _⟩
    · rw [h] at h1; cases h1
    · exact absurd hpc (hnm e')

/-- from `link cur cnt` with `maxDepth + 1 - cnt` entry-free committed blocks ahead, the walk ends in a miss -/
theorem Reader.run_cutoff {T : Tree K B V} {k : K} {d : B} :
    ∀ (r0 : Nat) (sc : SC K B V) (r : Reader K B V) (cur : B) (cnt fuel : Nat),
      Inv sc T none → NoEntryN sc T k r0 cur → Walk T k d cur → r.key = k → r.blk = d → r.pc = .link cur cnt →
      0 < r0 → cnt + r0 = sc.maxDepth + 1 → 2 * r0 + 1 ≤ fuel → (Reader.run fuel sc r).1.evictions = sc.evictions →
      (Reader.run fuel sc r).2.pc = .done none := by
  intro r0
  induction r0 with
  | zero => intro sc r cur cnt fuel _ _ _ _ _ _ hpos _ _ _; omega
  | succ n ih =>
    intro sc r cur cnt fuel hI hne hwalk hk hd hpc _ hc hfuel hev
    obtain ⟨hnone, x, hx, hrest⟩ := hne
    obtain ⟨f2, rfl⟩ : ∃ f2, fuel = f2 + 2 := ⟨fuel - 2, by omega⟩
    have hnd1 : ∀ v', r.pc ≠ .done v' := by intro v' h; rw [hpc] at h; cases h
    rw [Reader.run_succ _ _ _ hnd1] at hev ⊢
    have hR : RInv sc T r := by unfold RInv; rw [hpc, hk, hd]; exact hwalk
    have e1 : (r.stepSC sc).evictions = sc.evictions :=
      Nat.le_antisymm (by rw [← hev]; exact Reader.run_ev_le _ _ _) (Reader.stepSC_ev_le sc r)
    obtain ⟨hI1, hR1⟩ := Reader.step_inv hI hR e1
    have hF := Reader.stepSC_frame sc r e1
    have hlink : linkAt sc cur = some x.prev := hI.link_of_find hx
    have hpc1 : r.stepPc sc = .entry cur cnt (some x.prev) := by
      unfold Reader.stepPc; rw [hpc]; simp only [LRU.get_snd]
      unfold linkAt at hlink; rw [hlink]
    have hmd1 : (r.stepSC sc).maxDepth = sc.maxDepth := hF.maxDepth
    have hnm1 : ∀ e, r.pc ≠ .memo e := by intro e h; rw [hpc] at h; cases h
    let r1 : Reader K B V := { r with pc := r.stepPc sc }
    have hnd2 : ∀ v', r1.pc ≠ .done v' := by intro v' h; simp only [r1] at h; rw [hpc1] at h; cases h
    rw [Reader.run_succ _ _ _ hnd2] at hev ⊢
    have e2 : (r1.stepSC (r.stepSC sc)).evictions = (r.stepSC sc).evictions :=
      Nat.le_antisymm (by rw [← e1] at hev; rw [← hev]; exact Reader.run_ev_le _ _ _) (Reader.stepSC_ev_le _ r1)
    obtain ⟨hI2, _⟩ := Reader.step_inv hI1 hR1 e2
    have hF2 := Reader.stepSC_frame (r.stepSC sc) r1 e2
    have hnm2 : ∀ e, r1.pc ≠ .memo e := by intro e h; simp only [r1] at h; rw [hpc1] at h; cases h
    have hnone1 : entryAt (r.stepSC sc) k cur = none := hF.none_keep hnm1 k cur hnone
    cases hm : alookup (r.stepSC sc).cache k with
    | none =>
      have hpc2 : r1.stepPc (r.stepSC sc) = .done none := by
        unfold Reader.stepPc; simp only [r1, hpc1, hk, hm]
      rw [hpc2, Reader.run_of_done _ _ _ rfl]
    | some m =>
      have hpe : m.peek cur = none := by rw [← entryAt_eq_peek hm]; exact hnone1
      by_cases hn0 : n = 0
      · have hpc2 : r1.stepPc (r.stepSC sc) = .done none := by
          unfold Reader.stepPc
          simp only [r1, hpc1, hk, hm, LRU.get_snd, hpe, hmd1]
          have : cnt + 1 > sc.maxDepth := by omega
          simp [this]
        rw [hpc2, Reader.run_of_done _ _ _ rfl]
      · have hpc2 : r1.stepPc (r.stepSC sc) = .link x.prev (cnt + 1) := by
          unfold Reader.stepPc
          simp only [r1, hpc1, hk, hm, LRU.get_snd, hpe, hmd1]
          have : ¬ (cnt + 1 > sc.maxDepth) := by omega
          simp [this]
        rw [hpc2] at hev ⊢
        have hmd2 : (r1.stepSC (r.stepSC sc)).maxDepth = sc.maxDepth := by rw [hF2.maxDepth, hmd1]
        -- `cur` wrote nothing for `k` (its entry would be present)
        have hnw : alookup x.writes k = none := by
          cases hw : alookup x.writes k with
          | none => rfl
          | some e => have := (hI.present hx hw).2; rw [hnone] at this; cases this
        have hrest2 : NoEntryN (r1.stepSC (r.stepSC sc)) T k n x.prev :=
          (hrest.frame (fun b' h => hF.none_keep hnm1 k b' h)).frame (fun b' h => hF2.none_keep hnm2 k b' h)
        exact ih (r1.stepSC (r.stepSC sc)) { r1 with pc := .link x.prev (cnt + 1) } x.prev (cnt + 1) f2 hI2 hrest2
          (Walk.snoc hwalk hx hnw) hk hd rfl (by omega) (by rw [hmd2]; omega) (by omega) (by rw [hev, e2, e1])

/-- the depth cut-off is exact: if the first `maxDepth + 1` blocks of the chain of `d` are committed and the cache holds
    no entry of `k` at any of them, `StateCache.Get(k, d)` misses — whatever lies beyond -/
theorem SC.get_cutoff {T : Tree K B V} (sc : SC K B V) (hI : Inv sc T none) {k : K} {d : B}
    (hne : NoEntryN sc T k (sc.maxDepth + 1) d) (hev : (sc.get k d).1.evictions = sc.evictions) :
    (sc.get k d).2 = none := by
  unfold SC.get at hev ⊢
  simp only at hev ⊢
  have hfuel : 2 * sc.maxDepth + 4 = (2 * sc.maxDepth + 3) + 1 := by omega
  rw [hfuel] at hev ⊢
  rw [Reader.run_succ _ _ _ (by intro v' h; cases h)] at hev ⊢
  have hs : (Reader.init k d).stepSC sc = sc := by unfold Reader.stepSC Reader.init; rfl
  rw [hs] at hev ⊢
  cases hm : alookup sc.cache k with
  | none =>
    have hp : (Reader.init k d).stepPc sc = .done none := by unfold Reader.stepPc Reader.init; simp only [hm]
    rw [hp, Reader.run_of_done _ _ _ rfl]; rfl
  | some m =>
    have hp : (Reader.init k d).stepPc sc = .link d 0 := by unfold Reader.stepPc Reader.init; simp only [hm]
    rw [hp] at hev ⊢
    have := Reader.run_cutoff (sc.maxDepth + 1) sc { Reader.init k d with pc := .link d 0 } d 0 (2 * sc.maxDepth + 3)
      hI hne (.refl d) rfl rfl rfl (by omega) (by omega) (by omega) hev
    unfold Reader.result; rw [this]

theorem pendLookup_cons_none {m : List (K × Entry V)} {rest : List (List (K × Entry V))} {k : K}
    (h : pendLookup (m :: rest) k = none) : alookup m k = none ∧ pendLookup rest k = none := by
  unfold pendLookup at h
  cases hm : alookup m k with
  | some e => rw [hm] at h; cases h
  | none => rw [hm] at h; exact ⟨rfl, h⟩

/-- every lookup operation whose context has no pending entry for the key and whose chain reaches a written value within
    `maxDepth` blocks returns that value (a hit), when no LRU evicts during the lookup -/
theorem Sys.step_complete {T : Tree K B V} (s : Sys H K B V) (op : Op H K B V) (hS : SysInv s T)
    {pend : List (List (K × Entry V))} {b c : B} {k : K} {x : Blk K B V} {v : V} {n : Nat}
    (hctx : s.ctx op = some (pend, b, k)) (hp : pendLookup pend k = none)
    (hwalk : WalkN T k n b c) (hn : n ≤ s.sc.maxDepth) (hx : T.find c = some x)
    (hw : alookup x.writes k = some (.val v)) (hev : (s.step op).1.sc.evictions = s.sc.evictions) :
    (s.step op).2 = .hit v := by
  cases op with
  | tget t k' =>
    simp only [Sys.ctx] at hctx
    simp only [Sys.step] at hev ⊢
    cases h1 : alookup s.tcs t with
    | none => simp [h1] at hctx
    | some tc =>
      simp only [h1] at hctx hev ⊢
      cases h3 : tc.main with
      | block h =>
        simp only [h3] at hctx hev ⊢
        cases h4 : alookup s.bcs h with
        | none => simp [h4] at hctx
        | some bc =>
          simp only [h4, Option.some.injEq, Prod.mk.injEq] at hctx hev ⊢
          obtain ⟨rfl, rfl, rfl⟩ := hctx
          obtain ⟨hp1, hp'⟩ := pendLookup_cons_none hp
          obtain ⟨hp2, _⟩ := pendLookup_cons_none hp'
          simp only [hp1] at hev ⊢
          unfold BC.get at hev ⊢
          simp only [hp2] at hev ⊢
          rw [SC.get_complete s.sc hS.inv hwalk hn hx hw hev]; rfl
      | query qb =>
        simp only [h3, Option.some.injEq, Prod.mk.injEq] at hctx hev ⊢
        obtain ⟨rfl, rfl, rfl⟩ := hctx
        obtain ⟨hp1, _⟩ := pendLookup_cons_none hp
        simp only [hp1] at hev ⊢
        rw [SC.get_complete s.sc hS.inv hwalk hn hx hw hev]; rfl
  | bget h k' =>
    simp only [Sys.ctx] at hctx
    simp only [Sys.step] at hev ⊢
    cases h4 : alookup s.bcs h with
    | none => simp [h4] at hctx
    | some bc =>
      simp only [h4, Option.some.injEq, Prod.mk.injEq] at hctx hev ⊢
      obtain ⟨rfl, rfl, rfl⟩ := hctx
      obtain ⟨hp2, _⟩ := pendLookup_cons_none hp
      unfold BC.get at hev ⊢
      simp only [hp2] at hev ⊢
      rw [SC.get_complete s.sc hS.inv hwalk hn hx hw hev]; rfl
  | qget qb k' =>
    simp only [Sys.ctx, Option.some.injEq, Prod.mk.injEq] at hctx
    obtain ⟨rfl, rfl, rfl⟩ := hctx
    simp only [Sys.step] at hev ⊢
    rw [SC.get_complete s.sc hS.inv hwalk hn hx hw hev]; rfl
  | sget k' qb =>
    simp only [Sys.ctx, Option.some.injEq, Prod.mk.injEq] at hctx
    obtain ⟨rfl, rfl, rfl⟩ := hctx
    simp only [Sys.step] at hev ⊢
    rw [SC.get_complete s.sc hS.inv hwalk hn hx hw hev]; rfl
  | blk _ _ _ => simp [Sys.ctx] at hctx
  | bhash _ _ => simp [Sys.ctx] at hctx
  | txn _ _ => simp [Sys.ctx] at hctx
  | qtxn _ _ => simp [Sys.ctx] at hctx
  | tset _ _ _ => simp [Sys.ctx] at hctx
  | trem _ _ => simp [Sys.ctx] at hctx
  | tcommit _ => simp [Sys.ctx] at hctx
  | bset _ _ _ => simp [Sys.ctx] at hctx
  | bcommit _ => simp [Sys.ctx] at hctx
  | srem _ => simp [Sys.ctx] at hctx

end Verif.SC
