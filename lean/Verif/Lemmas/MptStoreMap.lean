/-
Lookup lemmas for the association-list maps of `Verif.Model.MptStore`.
-/
import Verif.Model.MptStore
namespace Verif.MptStore
namespace Map
variable {κ ν : Type} [DecidableEq κ]

@[simp] theorem get_nil (x : κ) : Map.get ([] : Map κ ν) x = none := rfl

theorem get_cons (k : κ) (v : ν) (m : Map κ ν) (x : κ) :
    Map.get ((k, v) :: m) x = if k = x then some v else Map.get m x := rfl

theorem get_del (m : Map κ ν) (k x : κ) : Map.get (Map.del m k) x = if k = x then none else Map.get m x := by
  induction m with
  | nil => simp [Map.del]
  | cons e m ih =>
    obtain ⟨k', v⟩ := e
    by_cases h : k' = k
    · subst h
      have : Map.del ((k', v) :: m) k' = Map.del m k' := by simp [Map.del]
      rw [this, ih, get_cons]
      by_cases hx : k' = x <;> simp [hx]
    · have : Map.del ((k', v) :: m) k = (k', v) :: Map.del m k := by simp [Map.del, h]
      rw [this, get_cons, ih, get_cons]
      by_cases hx : k' = x
      · subst hx; simp [Ne.symm h]
      · simp [hx]

theorem get_put (m : Map κ ν) (k : κ) (v : ν) (x : κ) :
    Map.get (Map.put m k v) x = if k = x then some v else Map.get m x := by
  unfold Map.put
  rw [get_cons, get_del]
  by_cases h : k = x <;> simp [h]

theorem get_del_same (m : Map κ ν) (k : κ) : Map.get (Map.del m k) k = none := by simp [get_del]

theorem get_del_other (m : Map κ ν) {k x : κ} (h : k ≠ x) : Map.get (Map.del m k) x = Map.get m x := by
  simp [get_del, h]

theorem get_put_same (m : Map κ ν) (k : κ) (v : ν) : Map.get (Map.put m k v) k = some v := by simp [get_put]

theorem get_put_other (m : Map κ ν) {k x : κ} (v : ν) (h : k ≠ x) : Map.get (Map.put m k v) x = Map.get m x := by
  simp [get_put, h]

/-- membership of a key in `keys` is definedness of `get` -/
theorem get_isSome_iff (m : Map κ ν) (x : κ) : (Map.get m x).isSome = true ↔ x ∈ Map.keys m := by
  induction m with
  | nil => simp [Map.keys]
  | cons e m ih =>
    obtain ⟨k, v⟩ := e
    rw [get_cons]
    by_cases h : k = x
    · subst h; simp [Map.keys]
    · simp only [h, if_false, ih, Map.keys, List.map_cons, List.mem_cons]
      constructor
      · intro hx; exact Or.inr hx
      · intro hx; rcases hx with hx | hx
        · exact absurd hx.symm h
        · exact hx

/-- every entry found by `get` is an element of the list -/
theorem mem_of_get {m : Map κ ν} {x : κ} {v : ν} (h : Map.get m x = some v) : (x, v) ∈ m := by
  induction m with
  | nil => simp at h
  | cons e m ih =>
    obtain ⟨k, w⟩ := e
    rw [get_cons] at h
    by_cases hk : k = x
    · subst hk; simp at h; subst h; simp
    · simp [hk] at h; exact List.mem_cons_of_mem _ (ih h)

/-- `putAll` of a batch: a key outside the batch keeps its value -/
theorem get_putAll_of_not_mem (m : Map κ ν) (es : List (κ × ν)) (x : κ) (h : ∀ e ∈ es, e.1 ≠ x) :
    Map.get (Map.putAll m es) x = Map.get m x := by
  induction es generalizing m with
  | nil => rfl
  | cons e es ih =>
    simp only [Map.putAll, List.foldl_cons]
    have := ih (Map.put m e.1 e.2) (fun e' he' => h e' (List.mem_cons_of_mem _ he'))
    simp only [Map.putAll] at this
    rw [this, get_put_other _ _ (h e (List.mem_cons_self ..))]

/-- `putAll` of a batch: a key of the batch gets the value of one of its entries -/
theorem get_putAll_of_mem (m : Map κ ν) (es : List (κ × ν)) (x : κ) (h : ∃ e ∈ es, e.1 = x) :
    ∃ e ∈ es, e.1 = x ∧ Map.get (Map.putAll m es) x = some e.2 := by
  induction es generalizing m with
  | nil => obtain ⟨e, he, _⟩ := h; cases he
  | cons e es ih =>
    simp only [Map.putAll, List.foldl_cons]
    by_cases hl : ∃ e' ∈ es, e'.1 = x
    · obtain ⟨e', he', hx, hg⟩ := ih (Map.put m e.1 e.2) hl
      exact ⟨e', List.mem_cons_of_mem _ he', hx, hg⟩
    · have hno : ∀ e' ∈ es, e'.1 ≠ x := fun e' he' hx => hl ⟨e', he', hx⟩
      have hx : e.1 = x := by
        obtain ⟨e', he', hx⟩ := h
        rcases List.mem_cons.mp he' with rfl | he''
        · exact hx
        · exact absurd hx (hno e' he'')
      refine ⟨e, List.mem_cons_self .., hx, ?_⟩
      have := get_putAll_of_not_mem (Map.put m e.1 e.2) es x hno
      simp only [Map.putAll] at this
      rw [this, ← hx, get_put_same]

/-- a key of the batch gets a value that does not depend on the map the batch is written to -/
theorem get_putAll_indep (es : List (κ × ν)) (x : κ) (h : ∃ e ∈ es, e.1 = x) :
    ∀ m m' : Map κ ν, Map.get (Map.putAll m es) x = Map.get (Map.putAll m' es) x := by
  induction es with
  | nil => obtain ⟨e, he, _⟩ := h; cases he
  | cons e es ih =>
    intro m m'
    simp only [Map.putAll, List.foldl_cons]
    by_cases hl : ∃ e' ∈ es, e'.1 = x
    · have := ih hl (Map.put m e.1 e.2) (Map.put m' e.1 e.2)
      simpa [Map.putAll] using this
    · have hno : ∀ e' ∈ es, e'.1 ≠ x := fun e' he' hx => hl ⟨e', he', hx⟩
      have hx : e.1 = x := by
        obtain ⟨e', he', hx⟩ := h
        rcases List.mem_cons.mp he' with rfl | he''
        · exact hx
        · exact absurd hx (hno e' he'')
      have h1 := get_putAll_of_not_mem (Map.put m e.1 e.2) es x hno
      have h2 := get_putAll_of_not_mem (Map.put m' e.1 e.2) es x hno
      simp only [Map.putAll] at h1 h2
      rw [h1, h2, ← hx, get_put_same, get_put_same]

/-- writing a batch twice is writing it once -/
theorem get_putAll_idem (m : Map κ ν) (es : List (κ × ν)) (x : κ) :
    Map.get (Map.putAll (Map.putAll m es) es) x = Map.get (Map.putAll m es) x := by
  by_cases h : ∃ e ∈ es, e.1 = x
  · exact get_putAll_indep es x h _ _
  · exact get_putAll_of_not_mem _ es x (fun e he hx => h ⟨e, he, hx⟩)

/-- `delAll`: a key that is not deleted keeps its value; a deleted key is gone -/
theorem get_delAll (m : Map κ ν) (ks : List κ) (x : κ) :
    Map.get (Map.delAll m ks) x = if x ∈ ks then none else Map.get m x := by
  induction ks generalizing m with
  | nil => simp [Map.delAll]
  | cons k ks ih =>
    simp only [Map.delAll, List.foldl_cons]
    have := ih (Map.del m k)
    simp only [Map.delAll] at this
    rw [this, get_del]
    by_cases h1 : x ∈ ks
    · simp [h1]
    · by_cases h2 : k = x
      · subst h2; simp
      · simp [h1, h2, Ne.symm h2]

theorem mem_del {m : Map κ ν} {k : κ} {e : κ × ν} (h : e ∈ Map.del m k) : e ∈ m := by
  simp only [Map.del, List.mem_filter] at h; exact h.1

theorem mem_put {m : Map κ ν} {k : κ} {v : ν} {e : κ × ν} (h : e ∈ Map.put m k v) : e = (k, v) ∨ e ∈ m := by
  simp only [Map.put, List.mem_cons] at h
  rcases h with h | h
  · exact Or.inl h
  · exact Or.inr (mem_del h)

theorem mem_delAll {m : Map κ ν} {ks : List κ} {e : κ × ν} (h : e ∈ Map.delAll m ks) : e ∈ m := by
  induction ks generalizing m with
  | nil => simpa [Map.delAll] using h
  | cons k ks ih =>
    simp only [Map.delAll, List.foldl_cons] at h
    exact mem_del (ih (m := Map.del m k) (by simpa [Map.delAll] using h))

/-- a key with an element in the list is found by `get` -/
theorem get_isSome_of_mem {m : Map κ ν} {e : κ × ν} (h : e ∈ m) : (Map.get m e.1).isSome = true := by
  rw [get_isSome_iff]; exact List.mem_map_of_mem h

end Map
end Verif.MptStore
