/-
Histories that continue on a reloaded trie (Verif.Model.WmptReload): the GC invariant `GInv` survives a reload, the
invariant `RInv` of a whole history with reloads, and its consequences (the analogues of `gc_stored`,
`gc_recoverable`, `gc_answers_are_spec`, `gc_crash`).
Core Lean only.
-/
import Verif.Model.WmptReload
import Verif.Lemmas.WmptGcInv
namespace Verif.Wmpt
open RepOps RepMore

section
variable {H : Bytes → Bytes}

/-! ### 1. a reload keeps the GC invariant -/

theorem reload_weight_none {t : PT} (h : t.weight ≠ 0) : t ≠ .none := by
  intro e; subst e; exact h rfl

/-- the trie opened from `(hash, weight)` of the last committed trie over the same storage satisfies the GC invariant,
    with the committed trie as its content -/
theorem ginv_reload {st : HState} {ts tc : PT} {croot : Bytes} {cweight : Nat} (hi : GInv H st ts tc)
    (hw : tc.weight = 0 → tc = .none) (hc : tc ≠ .none → croot = PT.hash H tc) (hcw : cweight = tc.weight) :
    GInv H { st with t := { root := if cweight = 0 then .empty else .hashRef croot cweight, store := st.t.store } }
      tc tc := by
  by_cases h0 : tc.weight = 0
  · have e := hw h0
    subst e
    have hz : cweight = 0 := by rw [hcw]; rfl
    subst hz
    exact { hasDb := rfl
            stored := trivial
            rep := by simp only [if_true]; exact Rep.empty
            notNil := rfl
            proper := trivial
            upDirty := trivial
            noEmp := trivial
            uniform := uniform_none 64
            uniformC := uniform_none 64
            queues := fun h hm => by cases hm
            stale := fun h hm => by cases hm
            lens := fun h hm => by cases hm
            lensD := fun h hm => by cases hm }
  · have hne : tc ≠ .none := reload_weight_none h0
    have hcr := hc hne
    have hn : tc.isNone = false := PT.isNone_of_weight h0
    have hz : ¬ cweight = 0 := by rw [hcw]; exact h0
    subst hcw
    subst hcr
    exact { hasDb := rfl
            stored := hi.stored
            rep := by
              simp only [hz, if_false]
              exact Rep.ref tc hn (PT.Sub.refl tc)
            notNil := by simp only [hz, if_false]; rfl
            proper := by simp only [hz, if_false]; trivial
            upDirty := by simp only [hz, if_false]; trivial
            noEmp := by simp only [hz, if_false]; trivial
            uniform := hi.uniformC
            uniformC := hi.uniformC
            queues := fun h hm => by cases hm
            stale := by
              simp only [hz, if_false]
              intro h hm; cases hm
            lens := by
              simp only [hz, if_false]
              intro h hm; cases hm
            lensD := fun h hm => by cases hm }

/-! ### 2. the invariant of a history with reloads -/

/-- the side conditions on one operation: `Update` / `Delete` / `Root` / `Commit` / `DeleteNodes` with well-formed
    arguments, or a reload -/
def ROp.ok : ROp → Prop
  | .op o => o.plainGC ∧ o.wf
  | .reload => True

/-- `ts` = spec trie of the live trie, `tc` = spec trie of the last commit, whose root hash and weight the state
    remembers -/
structure RInv (H : Bytes → Bytes) (s : RState) (ts tc : PT) : Prop where
  ginv : GInv H s.h ts tc
  croot : tc ≠ .none → s.croot = PT.hash H tc
  cweight : s.cweight = tc.weight

theorem rinv_init : RInv H {} .none .none where
  ginv := ginv_init
  croot := fun h => absurd rfl h
  cweight := rfl

theorem rspecStep_op (ts tc : PT) (o : HOp) :
    rspecStep (ts, tc) (.op o) = (specStep ts o, committedStep ts tc o) := by
  cases o <;> rfl

theorem rspecStep_reload (ts tc : PT) : rspecStep (ts, tc) .reload = (tc, tc) := rfl

theorem rstep_op_h (s : RState) (o : HOp) : (rstep H s (.op o)).h = hstep H s.h o := by
  cases o <;> rfl

theorem rstep_op_croot (s : RState) (o : HOp) (hnc : ∀ lvl, o ≠ .commit lvl) :
    (rstep H s (.op o)).croot = s.croot := by
  cases o <;> first | rfl | exact absurd rfl (hnc _)

theorem rstep_op_cweight (s : RState) (o : HOp) (hnc : ∀ lvl, o ≠ .commit lvl) :
    (rstep H s (.op o)).cweight = s.cweight := by
  cases o <;> first | rfl | exact absurd rfl (hnc _)

/-- one step of a history with reloads keeps the invariant -/
theorem rinv_step (hlen : ∀ x, (H x).length = 32) {s : RState} {ts tc : PT} {op : ROp} (hi : RInv H s ts tc)
    (hop : op.ok) (hok : PTOK ts) (hd : Distinct H ts) (hw : op = .reload → tc.weight = 0 → tc = .none) :
    RInv H (rstep H s op) (rspecStep (ts, tc) op).1 (rspecStep (ts, tc) op).2 := by
  cases op with
  | reload => exact ⟨ginv_reload hi.ginv (hw rfl) hi.croot hi.cweight, hi.croot, hi.cweight⟩
  | op o =>
    rw [rspecStep_op]
    by_cases hc : ∃ lvl, o = .commit lvl
    · obtain ⟨lvl, rfl⟩ := hc
      have hg : GInv H (hstep H s.h (.commit lvl)) ts ts := ginv_step_commit hlen lvl hi.ginv hd
      exact ⟨hg, fun _ => (rep_rootHash _ hg.rep hg.proper hg.notNil).2, hg.rep.weight⟩
    · have hnc : ∀ lvl, o ≠ .commit lvl := fun lvl e => hc ⟨lvl, e⟩
      have hg := ginv_step hlen hi.ginv hop.1 hop.2 hok hd
      have e : committedStep ts tc o = tc := by
        cases o <;> first | rfl | exact absurd rfl (hnc _)
      rw [e] at hg ⊢
      refine ⟨by rw [rstep_op_h]; exact hg, ?_, ?_⟩
      · rw [rstep_op_croot s o hnc]; exact hi.croot
      · rw [rstep_op_cweight s o hnc]; exact hi.cweight

theorem rrun_snoc (p : List ROp) (op : ROp) : rrun H (p ++ [op]) = rstep H (rrun H p) op := by
  simp [rrun, List.foldl_append]

theorem rspecRun_snoc (p : List ROp) (op : ROp) : rspecRun (p ++ [op]) = rspecStep (rspecRun p) op := by
  simp [rspecRun, List.foldl_append]

theorem rinv_run_aux (hlen : ∀ x, (H x).length = 32) (q : List ROp) : ∀ (p : List ROp),
    (∀ op ∈ q, op.ok) →
    (∀ q1 q2, q = q1 ++ q2 → PTOK (rspecRun (p ++ q1)).1 ∧ Distinct H (rspecRun (p ++ q1)).1) →
    (∀ q1 q2, q = q1 ++ .reload :: q2 → (rspecRun (p ++ q1)).2.weight = 0 → (rspecRun (p ++ q1)).2 = .none) →
    RInv H (rrun H p) (rspecRun p).1 (rspecRun p).2 →
    RInv H (rrun H (p ++ q)) (rspecRun (p ++ q)).1 (rspecRun (p ++ q)).2 := by
  induction q with
  | nil => intro p _ _ _ hi; simpa using hi
  | cons op q ih =>
    intro p hall hok hrl hi
    have e : p ++ op :: q = (p ++ [op]) ++ q := by simp
    rw [e]
    apply ih (p ++ [op])
    · exact fun o ho => hall o (List.mem_cons_of_mem _ ho)
    · intro q1 q2 hq
      have := hok (op :: q1) q2 (by rw [hq]; rfl)
      simpa using this
    · intro q1 q2 hq
      have := hrl (op :: q1) q2 (by rw [hq]; rfl)
      simpa using this
    · rw [rrun_snoc, rspecRun_snoc]
      have h0 := hok [] (op :: q) rfl
      simp only [List.append_nil] at h0
      refine rinv_step hlen hi (hall op List.mem_cons_self) h0.1 h0.2 (fun hop => ?_)
      have := hrl [] q (by rw [hop]; rfl)
      simp only [List.append_nil] at this
      exact this

/-- the invariant after a history of Update / Delete / Root / Commit / DeleteNodes operations and reloads; the
    "weight 0 means empty" condition on the committed trie is needed only where a reload happens -/
theorem rinv_run_gen (hlen : ∀ x, (H x).length = 32) (ops : List ROp)
    (hall : ∀ op ∈ ops, op.ok)
    (hok : ∀ p q, ops = p ++ q → PTOK (rspecRun p).1 ∧ Distinct H (rspecRun p).1)
    (hrl : ∀ p q, ops = p ++ .reload :: q → (rspecRun p).2.weight = 0 → (rspecRun p).2 = .none) :
    RInv H (rrun H ops) (rspecRun ops).1 (rspecRun ops).2 := by
  have := rinv_run_aux hlen ops [] hall (by simpa using hok) (by simpa using hrl) rinv_init
  simpa using this

/-- the invariant after a history of Update / Delete / Root / Commit / DeleteNodes operations and reloads -/
theorem rinv_run (hlen : ∀ x, (H x).length = 32) (ops : List ROp)
    (hall : ∀ op ∈ ops, op.ok)
    (hok : ∀ p q, ops = p ++ q → PTOK (rspecRun p).1 ∧ Distinct H (rspecRun p).1 ∧
      ((rspecRun p).2.weight = 0 → (rspecRun p).2 = .none)) :
    RInv H (rrun H ops) (rspecRun ops).1 (rspecRun ops).2 :=
  rinv_run_gen hlen ops hall (fun p q h => ⟨(hok p q h).1, (hok p q h).2.1⟩) (fun p _ h => (hok p _ h).2.2)

/-- the invariant after every prefix -/
theorem rinv_prefix (hlen : ∀ x, (H x).length = 32) (ops : List ROp)
    (hall : ∀ op ∈ ops, op.ok)
    (hok : ∀ p q, ops = p ++ q → PTOK (rspecRun p).1 ∧ Distinct H (rspecRun p).1 ∧
      ((rspecRun p).2.weight = 0 → (rspecRun p).2 = .none))
    (p q : List ROp) (hsplit : ops = p ++ q) : RInv H (rrun H p) (rspecRun p).1 (rspecRun p).2 :=
  rinv_run hlen p (fun o ho => hall o (by rw [hsplit]; exact List.mem_append_left _ ho))
    (fun p1 q1 hq => hok p1 (q1 ++ q) (by rw [hsplit, hq, List.append_assoc]))

/-- the last committed trie is the live spec trie after a prefix of the history -/
theorem rspecRun_snd_prefix_aux (q : List ROp) : ∀ (p : List ROp),
    (∃ p' q', p = p' ++ q' ∧ (rspecRun p).2 = (rspecRun p').1) →
    ∃ p' q', p ++ q = p' ++ q' ∧ (rspecRun (p ++ q)).2 = (rspecRun p').1 := by
  induction q with
  | nil => intro p h; simpa using h
  | cons op q ih =>
    intro p ⟨p', q', e1, e2⟩
    have e : p ++ op :: q = (p ++ [op]) ++ q := by simp
    rw [e]
    apply ih (p ++ [op])
    by_cases hc : ∃ lvl, op = .op (.commit lvl)
    · obtain ⟨lvl, rfl⟩ := hc
      exact ⟨p, [.op (.commit lvl)], rfl, by rw [rspecRun_snoc]; rfl⟩
    · refine ⟨p', q' ++ [op], by rw [e1, List.append_assoc], ?_⟩
      rw [rspecRun_snoc, ← e2]
      cases op with
      | reload => rfl
      | op o => cases o <;> first | rfl | exact absurd ⟨_, rfl⟩ hc

theorem rspecRun_snd_prefix (ops : List ROp) : ∃ p' q', ops = p' ++ q' ∧ (rspecRun ops).2 = (rspecRun p').1 := by
  have := rspecRun_snd_prefix_aux ops [] ⟨[], [], rfl, rfl⟩
  simpa using this

/-! ### 3. main theorems -/

/-- after ANY history of `Update` / `Delete` / `Root` / `Commit` / `DeleteNodes` operations and reloads (the trie
    reopened from the root hash and weight of the last `Commit`, over the same storage), every node of the last
    committed trie is in storage.
    Hypotheses: 32-byte hash; 32-byte keys, non-empty values; every intermediate live spec tree fits the encodings
    (`PTOK`) and is `Distinct`; a committed trie of total weight 0 is the empty one. -/
theorem reload_stored (hlen : ∀ x, (H x).length = 32) (ops : List ROp)
    (hall : ∀ op ∈ ops, op.ok)
    (hok : ∀ p q, ops = p ++ q → PTOK (rspecRun p).1 ∧ Distinct H (rspecRun p).1 ∧
      ((rspecRun p).2.weight = 0 → (rspecRun p).2 = .none)) :
    StoredAll H (rrun H ops).h.t.store (rspecRun ops).2 :=
  (rinv_run hlen ops hall hok).ginv.stored

/-- if the history ends with a clean root (after a `Commit` or a reload), the trie reopened from just
    `(Root(), Weight())` over the same storage is observationally identical to the live trie -/
theorem reload_recoverable (hlen : ∀ x, (H x).length = 32) (ops : List ROp)
    (hall : ∀ op ∈ ops, op.ok)
    (hok : ∀ p q, ops = p ++ q → PTOK (rspecRun p).1 ∧ Distinct H (rspecRun p).1 ∧
      ((rspecRun p).2.weight = 0 → (rspecRun p).2 = .none))
    (hd : (rrun H ops).h.t.root.dirty = false) :
    sameAnswers H (reopen H (rrun H ops).h.t) (rrun H ops).h.t :=
  sameAnswers_of_hinv hlen (rinv_run hlen ops hall hok).ginv.hinv hd (hok ops [] (by simp)).1

/-- ... and each of the common answers is the spec's -/
theorem reload_answers_are_spec (hlen : ∀ x, (H x).length = 32) (ops : List ROp)
    (hall : ∀ op ∈ ops, op.ok)
    (hok : ∀ p q, ops = p ++ q → PTOK (rspecRun p).1 ∧ Distinct H (rspecRun p).1 ∧
      ((rspecRun p).2.weight = 0 → (rspecRun p).2 = .none))
    (hd : (rrun H ops).h.t.root.dirty = false) (b : Nat) (hb1 : 1 ≤ b) (hb : b ≤ (rspecRun ops).1.weight) :
    ∃ k v key, ownerSpec (rspecRun ops).1.entries b = some (k, v) ∧ keybytesToHex key = k ∧ key.length = 32 ∧
      (blockProof H (reopen H (rrun H ops).h.t) b).2 =
        .ok (key, Cbor.encTrie (((rspecRun ops).1.proofPairs H b).map Cbor.encBase)) ∧
      (blockProof H (rrun H ops).h.t b).2 =
        .ok (key, Cbor.encTrie (((rspecRun ops).1.proofPairs H b).map Cbor.encBase)) ∧
      verifyPairs H (((rspecRun ops).1.proofPairs H b).map PairD.ok) b = .ok ((rootHash H (rrun H ops).h.t).2, v) :=
  answers_of_hinv hlen (rinv_run hlen ops hall hok).ginv.hinv hd (hok ops [] (by simp)).1 b hb1 hb

/-- crash clause: after every prefix `p` of the history, the trie opened on the storage from just `(hash, weight)` of
    the last committed trie answers every block `1 ≤ b ≤ weight` like that trie -/
theorem reload_crash (hlen : ∀ x, (H x).length = 32) (ops : List ROp)
    (hall : ∀ op ∈ ops, op.ok)
    (hok : ∀ p q, ops = p ++ q → PTOK (rspecRun p).1 ∧ Distinct H (rspecRun p).1 ∧
      ((rspecRun p).2.weight = 0 → (rspecRun p).2 = .none))
    (p q : List ROp) (hsplit : ops = p ++ q)
    (b : Nat) (hb1 : 1 ≤ b) (hb : b ≤ (rspecRun p).2.weight) :
    ∃ k v key, ownerSpec (rspecRun p).2.entries b = some (k, v) ∧ keybytesToHex key = k ∧ key.length = 32 ∧
      (getBlockProof H true (rrun H p).h.t.store 200
          (.hashRef (PT.hash H (rspecRun p).2) (rspecRun p).2.weight) b []).res =
        .ok (k, ((rspecRun p).2.proofPairs H b).map Cbor.encBase) ∧
      (blockProof H { root := .hashRef (PT.hash H (rspecRun p).2) (rspecRun p).2.weight,
                      store := (rrun H p).h.t.store } b).2 =
        .ok (key, Cbor.encTrie (((rspecRun p).2.proofPairs H b).map Cbor.encBase)) ∧
      verifyPairs H (((rspecRun p).2.proofPairs H b).map PairD.ok) b = .ok (PT.hash H (rspecRun p).2, v) := by
  have hi := (rinv_prefix hlen ops hall hok p q hsplit).ginv
  obtain ⟨p', q', e1, e2⟩ := rspecRun_snd_prefix p
  have hokc : PTOK (rspecRun p).2 := by
    rw [e2]
    exact (hok p' (q' ++ q) (by rw [hsplit, e1, List.append_assoc])).1
  have hst := hi.stored
  have hn : (rspecRun p).2.isNone = false := PT.isNone_of_weight (by omega)
  have hdep := depth_le_of_uniform hi.uniformC
  obtain ⟨k, v, ho, hg, hv⟩ := reopen_verifies H hlen (rrun H p).h.t.store (rspecRun p).2 b 200 hst hokc.1 hokc.2
    hb1 hb (by omega)
  obtain ⟨k', v', key, ho', _, hx, hl, hbp⟩ :=
    blockProof_rep' hlen { root := .hashRef (PT.hash H (rspecRun p).2) (rspecRun p).2.weight,
                           store := (rrun H p).h.t.store } (rspecRun p).2 64 b rfl
      (Rep.ref (rspecRun p).2 hn hst) trivial trivial hi.uniformC (by decide) (by decide) hokc hb1 hb
  rw [ho] at ho'
  cases ho'
  refine ⟨k, v, key, ?_, hx, by omega, hg, hbp, hv⟩
  rw [← owner_eq_ownerSpec (rspecRun p).2 b hb1 hb]; exact ho

/-- the state right after a reload: the live content is the content of the last commit, and the root is clean -/
theorem rspecRun_reload (p : List ROp) : rspecRun (p ++ [.reload]) = ((rspecRun p).2, (rspecRun p).2) := by
  rw [rspecRun_snoc]; rfl

theorem rrun_reload_clean (p : List ROp) : (rrun H (p ++ [.reload])).h.t.root.dirty = false := by
  rw [rrun_snoc]
  show (if (rrun H p).cweight = 0 then WN.empty else WN.hashRef (rrun H p).croot (rrun H p).cweight).dirty = false
  split <;> rfl

/-- the trie right after a reload answers every block like the spec trie of the last commit (and so does the trie
    reopened from it) -/
theorem reload_after_reload_answers (hlen : ∀ x, (H x).length = 32) (p : List ROp)
    (hall : ∀ op ∈ p ++ [.reload], op.ok)
    (hok : ∀ p1 q, p ++ [.reload] = p1 ++ q → PTOK (rspecRun p1).1 ∧ Distinct H (rspecRun p1).1 ∧
      ((rspecRun p1).2.weight = 0 → (rspecRun p1).2 = .none))
    (b : Nat) (hb1 : 1 ≤ b) (hb : b ≤ (rspecRun p).2.weight) :
    ∃ k v key, ownerSpec (rspecRun p).2.entries b = some (k, v) ∧ keybytesToHex key = k ∧ key.length = 32 ∧
      (blockProof H (reopen H (rrun H (p ++ [.reload])).h.t) b).2 =
        .ok (key, Cbor.encTrie (((rspecRun p).2.proofPairs H b).map Cbor.encBase)) ∧
      (blockProof H (rrun H (p ++ [.reload])).h.t b).2 =
        .ok (key, Cbor.encTrie (((rspecRun p).2.proofPairs H b).map Cbor.encBase)) ∧
      verifyPairs H (((rspecRun p).2.proofPairs H b).map PairD.ok) b =
        .ok ((rootHash H (rrun H (p ++ [.reload])).h.t).2, v) := by
  have e : (rspecRun (p ++ [.reload])).1 = (rspecRun p).2 := by rw [rspecRun_reload]
  have h := reload_answers_are_spec hlen (p ++ [.reload]) hall hok (rrun_reload_clean p) b hb1 (by rw [e]; exact hb)
  rw [e] at h
  exact h

end
end Verif.Wmpt
