/-
`TableOK` of a generated method table implies the lockset discipline of its footprint in the RW-lock model.
-/
import Verif.Model.LockTable
import Verif.Lemmas.RWDiscipline

set_option linter.unusedSimpArgs false
namespace Verif.LockTable
open Verif.RW Verif.Gen.LockFacts

variable {V ρ : Type}

theorem toFAcc_held (a : Access) : (toFAcc a).held = modeOf a.mode := by
  unfold toFAcc; cases a.kind <;> rfl

theorem frozenL_spec {fp : List FAcc} {l : Nat} (h : frozenL fp l = true) : ∀ x, x ∈ fp → x.loc = l → x.write = false := by
  intro x hx hl
  have := (List.all_eq_true.1 h) x hx
  simp [hl] at this; exact this

theorem sameSub_spec {fp : List FAcc} {l s : Nat} (h : sameSub fp l s = true) : ∀ x, x ∈ fp → x.loc = l → x.sub = s := by
  intro x hx hl
  have := (List.all_eq_true.1 h) x hx
  simp [hl] at this; exact this

theorem mem_footprint {tbl : List Method} {f : FAcc} (h : f ∈ footprint tbl) :
    ∃ m, m ∈ tbl ∧ ∃ a, a ∈ m.accesses ∧ toFAcc a = f := by
  simp only [footprint, List.mem_flatMap, List.mem_map] at h
  exact h

/-- the two facts about a footprint that the lockset discipline needs -/
structure FpOK (fp : List FAcc) : Prop where
  unlocked : ∀ a, a ∈ fp → a.held = none →
    (a.write = false ∧ ∀ x, x ∈ fp → x.loc = a.loc → x.write = false) ∨ (a.sub ≠ 0 ∧ ∀ x, x ∈ fp → x.loc = a.loc → x.sub = a.sub)
  subProt : ∀ a, a ∈ fp → a.write = true → a.held ≠ some .W → a.sub ≠ 0 ∧ ∀ x, x ∈ fp → x.loc = a.loc → x.sub = a.sub

theorem fpOK_of_tableOK {tbl : List Method} (h : TableOK tbl) : FpOK (footprint tbl) := by
  have hall := List.all_eq_true.1 h
  constructor
  · intro f hf hheld
    obtain ⟨m, hm, a, ha, rfl⟩ := mem_footprint hf
    have hmOK := hall m hm
    simp only [Bool.and_eq_true] at hmOK
    obtain ⟨⟨⟨_, hwb⟩, hsp⟩, hne⟩ := hmOK
    have hnl : locked a = false := by
      rw [toFAcc_held] at hheld
      unfold locked
      cases hmode : a.mode <;> simp_all [modeOf]
    by_cases hg : a.goroutine = 0
    · have := (List.all_eq_true.1 hwb) a ha
      simp only [hnl, hg, Bool.or_eq_true, Bool.and_eq_true, bne_iff_ne, ne_eq, not_true_eq_false,
        Bool.false_eq_true, false_or, Bool.not_eq_true'] at this
      rcases this with ⟨h1, h2⟩ | ⟨⟨_, h1⟩, h2⟩
      · exact .inl ⟨h1, frozenL_spec h2⟩
      · exact .inr ⟨h1, sameSub_spec h2⟩
    · have := (List.all_eq_true.1 hne) a ha
      simp only [Bool.or_eq_true, beq_iff_eq, hg, false_or, Bool.and_eq_true, Bool.not_eq_true'] at this
      exact .inl ⟨this.1, frozenL_spec this.2⟩
  · intro f hf hw hnW
    obtain ⟨m, hm, a, ha, rfl⟩ := mem_footprint hf
    have hmOK := hall m hm
    simp only [Bool.and_eq_true] at hmOK
    obtain ⟨⟨⟨_, _⟩, hsp⟩, _⟩ := hmOK
    have hmw : (a.mode == LockMode.write) = false := by
      rw [toFAcc_held] at hnW
      cases hmode : a.mode <;> simp_all [modeOf]
    have := (List.all_eq_true.1 hsp) a ha
    simp only [hw, hmw, Bool.not_true, Bool.false_or, Bool.and_eq_true, bne_iff_ne, ne_eq] at this
    exact ⟨this.1, sameSub_spec this.2⟩

theorem fpOK_of_fpOKb {fp : List FAcc} (h : fpOKb fp = true) : FpOK fp := by
  have hall := List.all_eq_true.1 h
  constructor
  · intro a ha hheld
    have := hall a ha
    simp only [Bool.and_eq_true, Bool.or_eq_true, bne_iff_ne, ne_eq, hheld, not_true_eq_false, false_or,
      Bool.not_eq_true'] at this
    rcases this.1 with ⟨h1, h2⟩ | ⟨h1, h2⟩
    · exact .inl ⟨h1, frozenL_spec h2⟩
    · exact .inr ⟨h1, sameSub_spec h2⟩
  · intro a ha hw hnW
    have := hall a ha
    simp only [Bool.and_eq_true, Bool.or_eq_true, bne_iff_ne, ne_eq, hw, Bool.not_true, Bool.false_eq_true, false_or,
      beq_iff_eq, hnW] at this
    exact ⟨this.2.1, sameSub_spec this.2.2⟩

theorem lockset_of_fpOK {fp : List FAcc} (h : FpOK fp) : LocksetOK fp := by
  intro a ha b hb hloc hw
  -- it suffices to treat "a writes"; the other case is symmetric
  have key : ∀ a b : FAcc, a ∈ fp → b ∈ fp → a.loc = b.loc → a.write = true → Protected a b := by
    intro a b ha hb hloc hwa
    by_cases haW : a.held = some .W
    · by_cases hbn : b.held = none
      · rcases h.unlocked b hb hbn with ⟨_, hfz⟩ | ⟨hs, hss⟩
        · have := hfz a ha hloc; rw [hwa] at this; cases this
        · exact .inr (.inr ⟨by rw [hss a ha hloc]; exact hs, hss a ha hloc⟩)
      · exact .inl ⟨haW, hbn⟩
    · obtain ⟨hs, hss⟩ := h.subProt a ha hwa haW
      exact .inr (.inr ⟨hs, (hss b hb hloc.symm).symm⟩)
  rcases hw with hwa | hwb
  · exact key a b ha hb hloc hwa
  · rcases key b a hb ha hloc.symm hwb with h1 | h1 | ⟨h1, h2⟩
    · exact .inr (.inl h1)
    · exact .inl h1
    · exact .inr (.inr ⟨by rw [← h2]; exact h1, h2.symm⟩)

theorem writesOnly_of_conf {fp : List FAcc} (k : Prog V ρ) : Conf fp (some .R) k → BodyOK k → WritesOnly (bkOf fp) k := by
  induction k with
  | ret r => intro _ hb; simp only [BodyOK] at hb
  | rd l s k ih => intro hc hb; simp only [Conf] at hc; simp only [BodyOK] at hb; simp only [WritesOnly]; exact fun v => ih v (hc.2 v) (hb v)
  | wr l s v k ih =>
    intro hc hb; simp only [Conf] at hc; simp only [BodyOK] at hb; simp only [WritesOnly]
    exact ⟨⟨_, hc.1, rfl, rfl, by simp⟩, ih hc.2 hb⟩
  | acq m k ih => intro _ hb; simp only [BodyOK] at hb
  | rel k ih =>
    intro _ hb; simp only [BodyOK] at hb
    obtain ⟨r, rfl⟩ := hb
    simp only [WritesOnly]


end Verif.LockTable
