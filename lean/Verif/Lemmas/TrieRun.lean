/-
Runs of one trie made of own rounds and merges of child tries, children themselves being such runs (nested
transactions): the whole event list of the trie obeys the event discipline and covers its final tree.
-/
import Verif.Lemmas.OrderChanges
namespace Verif.MptStore
open Verif.Mpt Collector

/-- `TrieRun H U Vok t es t'`: the events `es` of one trie from tree `t` to `t'`, all references inside `U`: own rounds —
    each at its own version `v` with `Vok v` (a trie's version may change between its rounds: `SetVersion`; children and
    parents may run at different versions: `mergeChanges` keeps the child's origins since fix 280766e) — and merges of children that are opened on the current tree with a fresh collector `c0`, run themselves
    (`esC`, possibly with nested children) and are replayed in the order `orderChanges` computes (which is not stuck) -/
inductive TrieRun (H : Bytes → Bytes) (U : Ref → Prop) (Vok : Nat → Prop) : Node → List Event → Node → Prop where
  | nil (t : Node) : TrieRun H U Vok t [] t
  | own (v : Nat) (t t1 t' : Node) (es1 es : List Event) : Vok v → RoundEvents v t es1 t1 → (∀ r ∈ eventRefs es1, U r) →
      TrieRun H U Vok t1 es t' → TrieRun H U Vok t (es1 ++ es) t'
  | merge (t t2 t' : Node) (c0 : Trie) (esC es : List Event) (cs : List (Change Ref)) :
      c0.cc.changes = [] ∧ c0.cc.deletes = [] → TrieRun H U Vok t esC t2 →
      cs.Perm (c0.applyEvents H esC).cc.getChanges →   -- Go hands mergeChanges the changes in map order
      orderStuck H cs = false →
      TrieRun H U Vok t2 es t' →
      TrieRun H U Vok t (mergeEvents (orderChanges H cs) (c0.applyEvents H esC).cc.getDeletes ++ es) t'

theorem liveRun_sub_nodes {κ N : Type} (k : N → κ) (P : N → Prop) (cs : List (Call N)) :
    ∀ (L : κ → Prop), (∀ c ∈ cs, CallNodes P c) → ∀ x, liveRun k L cs x → L x ∨ ∃ n, P n ∧ k n = x := by
  induction cs with
  | nil => intro L _ x h; exact Or.inl h
  | cons c cs ih =>
    intro L hc x h
    rcases ih _ (fun c' hc' => hc c' (List.mem_cons_of_mem _ hc')) x h with h1 | h1
    · have hcn := hc c (List.mem_cons_self ..)
      cases c with
      | del o => exact Or.inl h1.1
      | add o n =>
        cases o with
        | none => exact h1.elim (fun e => Or.inr ⟨n, hcn.1, e.symm⟩) Or.inl
        | some o => exact h1.elim (fun e => Or.inr ⟨n, hcn.1, e.symm⟩) (fun h => Or.inl h.1)
    · exact Or.inr h1

theorem callNodes_mono {N : Type} {P Q : N → Prop} (h : ∀ n, P n → Q n) (c : Call N) (hc : CallNodes P c) : CallNodes Q c := by
  cases c with
  | del o => exact h _ hc
  | add o n => exact ⟨h _ hc.1, fun o' ho' => h _ (hc.2 o' ho')⟩

theorem trieRun_discipline (H : Bytes → Bytes) (U : Ref → Prop) (hU : KeyInjOn H U) {Vok : Nat → Prop} {t t' : Node} {es : List Event}
    (h : TrieRun H U Vok t es t') :
    WF t → (∀ r ∈ refs t [], U r) → ∀ LK : Bytes → Prop, (∀ r ∈ refs t [], LK (r.key H)) →
      (∀ x, LK x → ∃ r, U r ∧ r.key H = x) →
      Disc (Ref.key H) LK (callsOf H es) ∧ (∀ r ∈ refs t' [], liveRun (Ref.key H) LK (callsOf H es) (r.key H)) ∧
      WF t' ∧ (∀ r ∈ eventRefs es, U r) ∧ (∀ r ∈ refs t' [], U r) := by
  induction h with
  | nil t => intro hw hUt LK hcov _; exact ⟨trivial, hcov, hw, (fun r hr => by cases hr), hUt⟩
  | own v t t1 t' es1 es _ hr hE _ ih =>
    intro hw hUt LK hcov hLKU
    -- the own round, at reference level with the live references of `U` whose key is live
    have hLR : ∀ r ∈ refs t [], (fun r => U r ∧ LK (r.key H)) r := fun r hr' => ⟨hUt r hr', hcov r hr'⟩
    obtain ⟨hd, hc, hw1⟩ := round_ok hr hw (fun r => U r ∧ LK (r.key H)) hLR
    have hLKimg : ∀ x, LK x ↔ keyImg H (fun r => U r ∧ LK (r.key H)) x := by
      intro x
      constructor
      · intro hx
        obtain ⟨r, hrU, hk⟩ := hLKU x hx
        exact ⟨r, ⟨hrU, hk ▸ hx⟩, hk⟩
      · rintro ⟨r, ⟨_, hl⟩, rfl⟩; exact hl
    obtain ⟨hdk, hlk⟩ := disc_keys H U hU es1 _ LK hLKimg (fun r hr' => hr'.1) hE hd
    have hUt1 : ∀ r ∈ refs t1 [], U r := by
      intro r hr'
      rcases liveRunR_sub es1 _ r (hc r hr') with h1 | h1
      · exact h1.1
      · exact hE r h1
    obtain ⟨hd2, hc2, hw2, hE2, hUt2⟩ := ih hw1 hUt1 (liveRun (Ref.key H) LK (callsOf H es1))
      (fun r hr' => (hlk _).mpr ⟨r, hc r hr', rfl⟩)
      (by
        intro x hx
        obtain ⟨r, hrl, hk⟩ := (hlk x).mp hx
        rcases liveRunR_sub es1 _ r hrl with h1 | h1
        · exact ⟨r, h1.1, hk⟩
        · exact ⟨r, hE r h1, hk⟩)
    refine ⟨?_, ?_, hw2, ?_, hUt2⟩
    · rw [callsOf_append]; exact (disc_append _ _ _ _).mpr ⟨hdk, hd2⟩
    · intro r hr'; rw [callsOf_append, liveRun_append]; exact hc2 r hr'
    · intro r hr'
      rcases (eventRefs_append _ _ r).mp hr' with h1 | h1
      · exact hE r h1
      · exact hE2 r h1
  | merge t t2 t' c0 esC es cs hfreshC _ hpermcs hstuck _ ihC ih =>
    intro hw hUt LK hcov hLKU
    -- the child's own run, started from the keys of the tree it was opened on
    obtain ⟨hdC, hcC, hw2, hEC, hUt2⟩ := ihC hw hUt (fun x => x ∈ (refs t []).map (Ref.key H))
      (fun r hr' => List.mem_map.mpr ⟨r, hr', rfl⟩)
      (by intro x hx; obtain ⟨r, hr', hk⟩ := List.mem_map.mp hx; exact ⟨r, hUt r hr', hk⟩)
    obtain ⟨inv, inv2, prov⟩ := collector_invs H _ c0 esC hfreshC hdC
    have provT : Prov (Ref.key H) (fun _ => True) (c0.applyEvents H esC).cc :=
      ⟨fun e he => ⟨(prov.changes e he).1, trivial, fun _ _ => trivial⟩, fun e he => ⟨(prov.deletes e he).1, trivial⟩⟩
    have hgood := orderChanges_good H _ hstuck
    have hperm := (orderChanges_perm H cs).trans hpermcs
    have hmerge := merge_calls_ok (Ref.key H) _ _ _ inv inv2 provT _ hperm hgood LK
      (by intro x hx; obtain ⟨r, hr', rfl⟩ := List.mem_map.mp hx; exact hcov r hr')
    have hne : ∀ c ∈ orderChanges H cs, ∀ o, c.old = some o → o.key H ≠ c.new.key H := by
      intro c hc o ho
      have hc' : c ∈ (c0.applyEvents H esC).cc.getChanges := hperm.mem_iff.mp hc
      obtain ⟨e, he, rfl⟩ := List.mem_map.mp hc'
      have hk := (prov.changes e he).1
      have hg := Map.get_of_mem_nodup inv2.nodup he
      rw [hk]
      exact inv2.old_ne _ _ o hg ho
    have hcalls := callsOf_mergeEvents H _ (c0.applyEvents H esC).cc.getDeletes hne
    -- the nodes the replay hands to the parent's collector come from the child's events
    have hnodes : ∀ c ∈ mergeCalls (orderChanges H cs) (c0.applyEvents H esC).cc.getDeletes,
        CallNodes U c := by
      intro c hc
      simp only [mergeCalls, List.mem_append, List.mem_map] at hc
      rcases hc with ⟨ch, hch, rfl⟩ | ⟨d, hd', rfl⟩
      · have hch' : ch ∈ (c0.applyEvents H esC).cc.getChanges := hperm.mem_iff.mp hch
        obtain ⟨e, he, rfl⟩ := List.mem_map.mp hch'
        have := (prov.changes e he).2
        exact ⟨hEC _ this.1, fun o' ho' => hEC _ (this.2 o' ho')⟩
      · simp only [getDeletes] at hd'
        obtain ⟨e, he, rfl⟩ := List.mem_map.mp hd'
        exact hEC _ (prov.deletes e he).2
    have hEM : ∀ r ∈ eventRefs (mergeEvents (orderChanges H cs)
        (c0.applyEvents H esC).cc.getDeletes), U r := by
      intro r hr'
      simp only [mergeEvents] at hr'
      rcases (eventRefs_append _ _ r).mp hr' with h1 | h1
      · have : ∀ (l : List (Change Ref)), (∀ c ∈ l, U c.new ∧ ∀ o, c.old = some o → U o) →
            r ∈ eventRefs (l.map (fun c => Event.put c.old c.new)) → U r := by
          intro l
          induction l with
          | nil => intro _ h; cases h
          | cons c l ihl =>
            intro hl h
            rcases c with ⟨_ | o, n⟩
            · simp only [List.map_cons, eventRefs, List.mem_cons] at h
              rcases h with rfl | h
              · exact (hl _ (List.mem_cons_self ..)).1
              · exact ihl (fun c' hc' => hl c' (List.mem_cons_of_mem _ hc')) h
            · simp only [List.map_cons, eventRefs, List.mem_cons] at h
              rcases h with rfl | rfl | h
              · exact (hl _ (List.mem_cons_self ..)).2 _ rfl
              · exact (hl _ (List.mem_cons_self ..)).1
              · exact ihl (fun c' hc' => hl c' (List.mem_cons_of_mem _ hc')) h
        apply this _ _ h1
        intro c hc
        have hc' : c ∈ (c0.applyEvents H esC).cc.getChanges := hperm.mem_iff.mp hc
        obtain ⟨e, he, rfl⟩ := List.mem_map.mp hc'
        have := (prov.changes e he).2
        exact ⟨hEC _ this.1, fun o' ho' => hEC _ (this.2 o' ho')⟩
      · have : ∀ (l : List Ref), (∀ d ∈ l, U d) → r ∈ eventRefs (l.map Event.del) → U r := by
          intro l
          induction l with
          | nil => intro _ h; cases h
          | cons d l ihl =>
            intro hl h
            simp only [List.map_cons, eventRefs, List.mem_cons] at h
            rcases h with rfl | h
            · exact hl _ (List.mem_cons_self ..)
            · exact ihl (fun d' hd' => hl d' (List.mem_cons_of_mem _ hd')) h
        apply this _ _ h1
        intro d hd'
        simp only [getDeletes] at hd'
        obtain ⟨e, he, rfl⟩ := List.mem_map.mp hd'
        exact hEC _ (prov.deletes e he).2
    -- continue with the rest of the run
    obtain ⟨hd2, hc2, hw', hE2, hUt'⟩ := ih hw2 hUt2
      (liveRun (Ref.key H) LK (mergeCalls (orderChanges H cs) (c0.applyEvents H esC).cc.getDeletes))
      (fun r hr' => hmerge.2 _ (hcC r hr'))
      (by
        intro x hx
        rcases liveRun_sub_nodes (Ref.key H) U _ LK hnodes x hx with h1 | ⟨n, hn, hk⟩
        · exact hLKU x h1
        · exact ⟨n, hn, hk⟩)
    refine ⟨?_, ?_, hw', ?_, hUt'⟩
    · rw [callsOf_append, hcalls]; exact (disc_append _ _ _ _).mpr ⟨hmerge.1, hd2⟩
    · intro r hr'; rw [callsOf_append, hcalls, liveRun_append]; exact hc2 r hr'
    · intro r hr'
      rcases (eventRefs_append _ _ r).mp hr' with h1 | h1
      · exact hEM r h1
      · exact hE2 r h1

end Verif.MptStore
