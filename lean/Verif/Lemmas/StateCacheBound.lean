import Verif.Lemmas.StateCacheSys
/-! A static sufficient condition for `NoEviction`: count, per key, the operations that can add an entry to the key's
version map (lookups of the key that may memoise, block commits) and the block commits (links). If every count stays
within the capacity, no LRU ever evicts. -/
set_option linter.unusedSectionVars false
namespace Verif.SC

section Assoc
variable {α β : Type} [DecidableEq α]

theorem aerase_length_le (l : List (α × β)) (k : α) : (aerase l k).length ≤ l.length := by
  unfold aerase; exact List.length_filter_le _ _

theorem aerase_length_lt (l : List (α × β)) (k : α) (h : alookup l k ≠ none) : (aerase l k).length + 1 ≤ l.length := by
  induction l with
  | nil => simp at h
  | cons p r ih =>
    obtain ⟨a, b⟩ := p
    by_cases hak : a = k
    · have : aerase ((a, b) :: r) k = aerase r k := by unfold aerase; simp [List.filter, hak]
      rw [this]
      have := aerase_length_le r k
      simp only [List.length_cons]; omega
    · have hr : alookup r k ≠ none := by simpa [hak] using h
      have : aerase ((a, b) :: r) k = (a, b) :: aerase r k := by unfold aerase; simp [List.filter, hak]
      rw [this]
      have := ih hr
      simp only [List.length_cons]; omega

end Assoc

namespace LRU
variable {κ ν : Type} [DecidableEq κ]

theorem get_length (l : LRU κ ν) (k : κ) : (l.get k).1.items.length ≤ l.items.length := by
  unfold get
  cases h : alookup l.items k with
  | none => exact Nat.le_refl _
  | some v =>
    simp only [List.length_cons]
    exact aerase_length_lt l.items k (by rw [h]; simp)

theorem add_length (l : LRU κ ν) (k : κ) (v : ν) :
    (l.add k v).1.items.length ≤ l.items.length + (if l.peek k = none then 1 else 0) := by
  unfold add peek
  cases h : alookup l.items k with
  | some w =>
    simp only [List.length_cons]
    have := aerase_length_lt l.items k (by rw [h]; simp)
    simp; omega
  | none =>
    simp only [if_true]
    by_cases hc : l.items.length + 1 > l.cap
    · simp only [hc, if_true, List.length_dropLast, List.length_cons]; omega
    · simp only [hc, if_false, List.length_cons]; omega

theorem add_cap (l : LRU κ ν) (k : κ) (v : ν) : (l.add k v).1.cap = l.cap := by
  unfold add
  cases alookup l.items k with
  | some w => rfl
  | none => simp only; split <;> rfl

theorem add_noev (l : LRU κ ν) (k : κ) (v : ν) (h : l.peek k ≠ none ∨ l.items.length < l.cap) :
    (l.add k v).2 = false := by
  unfold add peek at *
  cases hk : alookup l.items k with
  | some w => rfl
  | none =>
    rcases h with h | h
    · exact absurd hk h
    · have : ¬ (l.items.length + 1 > l.cap) := by omega
      simp [this]

theorem containsOrAdd_length (l : LRU κ ν) (k : κ) (v : ν) :
    (l.containsOrAdd k v).1.items.length ≤ l.items.length + 1 := by
  unfold containsOrAdd
  cases h : alookup l.items k with
  | some w => simp
  | none =>
    have := add_length l k v
    simp only
    split at this <;> omega

theorem containsOrAdd_cap (l : LRU κ ν) (k : κ) (v : ν) : (l.containsOrAdd k v).1.cap = l.cap := by
  unfold containsOrAdd
  cases alookup l.items k with
  | some w => rfl
  | none => exact add_cap l k v

theorem containsOrAdd_noev (l : LRU κ ν) (k : κ) (v : ν) (h : l.items.length < l.cap) :
    (l.containsOrAdd k v).2 = false := by
  unfold containsOrAdd
  cases hk : alookup l.items k with
  | some w => rfl
  | none => exact add_noev l k v (.inr h)

end LRU

variable {H K B V : Type} [DecidableEq H] [DecidableEq K] [DecidableEq B]

def RPc.isDone : RPc B V → Bool
  | .done _ => true
  | _ => false

theorem RPc.isDone_iff (pc : RPc B V) : pc.isDone = true ↔ ∃ v, pc = .done v := by
  cases pc <;> simp [RPc.isDone]

/-- size bookkeeping: every version map has at most `nk k` items, the link cache at most `nc` -/
structure Len (sc : SC K B V) (capK maxDepth : Nat) (nk : K → Nat) (nc : Nat) : Prop where
  hcap : sc.capK = capK
  hdep : sc.maxDepth = maxDepth
  maps : ∀ k m, alookup sc.cache k = some m → m.items.length ≤ nk k ∧ m.cap = capK
  links : sc.links.items.length ≤ nc ∧ sc.links.cap = maxDepth

theorem Len.mono {sc : SC K B V} {capK maxDepth : Nat} {nk nk' : K → Nat} {nc nc' : Nat}
    (h : Len sc capK maxDepth nk nc) (hk : ∀ k, nk k ≤ nk' k) (hc : nc ≤ nc') : Len sc capK maxDepth nk' nc' :=
  ⟨h.hcap, h.hdep, fun k m hm => ⟨Nat.le_trans (h.maps k m hm).1 (hk k), (h.maps k m hm).2⟩,
    ⟨Nat.le_trans h.links.1 hc, h.links.2⟩⟩

/-- a lookup adds at most one item, to the map of its key, and only as its last step -/
theorem Reader.run_len (capK maxDepth : Nat) (nk : K → Nat) (nc : Nat) (n : Nat) (sc : SC K B V) (r : Reader K B V)
    (hroom : nk r.key + 1 ≤ capK)
    (h : Len sc capK maxDepth (fun k => nk k + (if k = r.key ∧ r.pc.isDone = true then 1 else 0)) nc) :
    (Reader.run n sc r).1.evictions = sc.evictions ∧
    Len (Reader.run n sc r).1 capK maxDepth (fun k => nk k + (if k = r.key then 1 else 0)) nc := by
  have weaken : ∀ (sc : SC K B V) (r : Reader K B V),
      Len sc capK maxDepth (fun k => nk k + (if k = r.key ∧ r.pc.isDone = true then 1 else 0)) nc →
      Len sc capK maxDepth (fun k => nk k + (if k = r.key then 1 else 0)) nc := by
    intro sc r h
    refine h.mono (fun k => ?_) (Nat.le_refl _)
    by_cases hk : k = r.key
    · simp only [hk, true_and, if_true]; split <;> omega
    · simp [hk]
  induction n generalizing sc r with
  | zero => exact ⟨rfl, weaken sc r h⟩
  | succ n ih =>
    by_cases hd : r.pc.isDone = true
    · obtain ⟨v, hv⟩ := (RPc.isDone_iff r.pc).mp hd
      rw [Reader.run_of_done _ _ _ hv]
      exact ⟨rfl, weaken sc r h⟩
    · have hnd : ∀ v, r.pc ≠ .done v := fun v hv => hd ((RPc.isDone_iff r.pc).mpr ⟨v, hv⟩)
      rw [Reader.run_succ _ _ _ hnd]
      -- before the step every map is within nk
      have h0' : Len sc capK maxDepth nk nc := by
        refine ⟨h.hcap, h.hdep, fun k m hm => ?_, h.links⟩
        have := h.maps k m hm
        have hf : ¬ (k = r.key ∧ r.pc.isDone = true) := fun hh => hd hh.2
        simp only [hf, if_false, Nat.add_zero] at this
        exact this
      -- one step
      have key : (r.stepSC sc).evictions = sc.evictions ∧
          Len (r.stepSC sc) capK maxDepth
            (fun k => nk k + (if k = r.key ∧ (r.stepPc sc).isDone = true then 1 else 0)) nc := by
        cases hpc : r.pc with
        | done v => exact absurd hpc (hnd v)
        | cache =>
          have hs : r.stepSC sc = sc := by unfold Reader.stepSC; rw [hpc]
          rw [hs]; exact ⟨rfl, h0'.mono (fun k => Nat.le_add_right _ _) (Nat.le_refl _)⟩
        | link cur cnt =>
          have hs : r.stepSC sc = { sc with links := (sc.links.get cur).1 } := by unfold Reader.stepSC; rw [hpc]
          rw [hs]
          refine ⟨rfl, ⟨h0'.hcap, h0'.hdep, fun k m hm => ?_, ?_⟩⟩
          · have := h0'.maps k m hm; exact ⟨Nat.le_trans this.1 (Nat.le_add_right _ _), this.2⟩
          · exact ⟨Nat.le_trans (LRU.get_length _ _) h0'.links.1, by rw [LRU.get_cap]; exact h0'.links.2⟩
        | entry cur cnt linked =>
          cases hm : alookup sc.cache r.key with
          | none =>
            have hs : r.stepSC sc = sc := by unfold Reader.stepSC; rw [hpc]; simp only [hm]
            rw [hs]; exact ⟨rfl, h0'.mono (fun k => Nat.le_add_right _ _) (Nat.le_refl _)⟩
          | some m =>
            have hs : r.stepSC sc = { sc with cache := aset sc.cache r.key (m.get cur).1 } := by
              unfold Reader.stepSC; rw [hpc]; simp only [hm]
            rw [hs]
            refine ⟨rfl, ⟨h0'.hcap, h0'.hdep, fun k m' hm' => ?_, h0'.links⟩⟩
            simp only [alookup_aset] at hm'
            by_cases hk : r.key = k
            · simp only [hk, if_true, Option.some.injEq] at hm'
              subst hm'
              have := h0'.maps r.key m hm
              rw [← hk]
              exact ⟨Nat.le_trans (Nat.le_trans (LRU.get_length _ _) this.1) (Nat.le_add_right _ _),
                by rw [LRU.get_cap]; exact this.2⟩
            · simp only [hk, if_false] at hm'
              have := h0'.maps k m' hm'
              exact ⟨Nat.le_trans this.1 (Nat.le_add_right _ _), this.2⟩
        | memo e =>
          have hp : r.stepPc sc = .done e.result := by unfold Reader.stepPc; rw [hpc]
          cases hm : alookup sc.cache r.key with
          | none =>
            have hs : r.stepSC sc = sc := by unfold Reader.stepSC; rw [hpc]; simp only [hm]
            rw [hs]; exact ⟨rfl, h0'.mono (fun k => Nat.le_add_right _ _) (Nat.le_refl _)⟩
          | some m =>
            have hs : r.stepSC sc = { sc with cache := aset sc.cache r.key (m.containsOrAdd r.blk e).1,
                                              evictions := sc.evictions + (m.containsOrAdd r.blk e).2.toNat, entryEv := sc.entryEv + (m.containsOrAdd r.blk e).2.toNat } := by
              unfold Reader.stepSC; rw [hpc]; simp only [hm]
            have hmm := h0'.maps r.key m hm
            have hne : (m.containsOrAdd r.blk e).2 = false :=
              LRU.containsOrAdd_noev m r.blk e (by rw [hmm.2]; omega)
            rw [hs]
            refine ⟨by simp [hne], ⟨h0'.hcap, h0'.hdep, fun k m' hm' => ?_, h0'.links⟩⟩
            simp only [alookup_aset] at hm'
            by_cases hk : r.key = k
            · simp only [hk, if_true, Option.some.injEq] at hm'
              subst hm'
              rw [← hk]
              simp only [hp, RPc.isDone, and_self, if_true]
              exact ⟨Nat.le_trans (LRU.containsOrAdd_length _ _ _) (by omega), by rw [LRU.containsOrAdd_cap]; exact hmm.2⟩
            · simp only [hk, if_false] at hm'
              have := h0'.maps k m' hm'
              exact ⟨Nat.le_trans this.1 (Nat.le_add_right _ _), this.2⟩
      obtain ⟨he, hl⟩ := key
      have := ih (r.stepSC sc) { r with pc := r.stepPc sc } hroom hl
      exact ⟨by rw [this.1, he], this.2⟩

theorem SC.get_len (capK maxDepth : Nat) (nk : K → Nat) (nc : Nat) (sc : SC K B V) (k : K) (b : B)
    (hroom : nk k + 1 ≤ capK) (h : Len sc capK maxDepth nk nc) :
    (sc.get k b).1.evictions = sc.evictions ∧
    Len (sc.get k b).1 capK maxDepth (fun k' => nk k' + (if k' = k then 1 else 0)) nc := by
  unfold SC.get
  simp only
  exact Reader.run_len capK maxDepth nk nc _ sc (Reader.init k b) hroom
    (h.mono (fun k' => Nat.le_add_right _ _) (Nat.le_refl _))

/-! ### a commit adds at most one item per map and one link -/

def CPc.published : CPc K B V → Bool
  | .done true => true
  | _ => false

/-- the private version map of a commit step holds exactly the new item -/
def CPc.freshOK (capK : Nat) (h : B) : CPc K B V → Prop
  | .keyPut (some l) _ => l.items.length ≤ 1 ∧ l.cap = capK ∧ (l.peek h).isSome = true
  | _ => True

structure CLen (sc : SC K B V) (capK maxDepth : Nat) (nk : K → Nat) (nc : Nat) (h : B) (pub : Bool) : Prop where
  hcap : sc.capK = capK
  hdep : sc.maxDepth = maxDepth
  maps : ∀ k m, alookup sc.cache k = some m →
    m.items.length ≤ nk k + (if (m.peek h).isSome = true then 1 else 0) ∧ m.cap = capK
  links : sc.links.items.length ≤ nc + (if pub = true then 1 else 0) ∧ sc.links.cap = maxDepth

theorem CLen.congr_cache {sc sc' : SC K B V} {capK maxDepth : Nat} {nk : K → Nat} {nc : Nat} {h : B} {pub : Bool}
    (hl : CLen sc capK maxDepth nk nc h pub) (hc : sc'.cache = sc.cache) (hk : sc'.capK = sc.capK)
    (hd : sc'.maxDepth = sc.maxDepth) (hli : sc'.links = sc.links) : CLen sc' capK maxDepth nk nc h pub :=
  ⟨by rw [hk]; exact hl.hcap, by rw [hd]; exact hl.hdep, fun k m hm => hl.maps k m (by rw [← hc]; exact hm),
    by rw [hli]; exact hl.links⟩

theorem CLen.set_map {sc sc' : SC K B V} {capK maxDepth : Nat} {nk : K → Nat} {nc : Nat} {h : B} {pub : Bool}
    (hl : CLen sc capK maxDepth nk nc h pub) {k : K} {m' : LRU B (Entry V)}
    (hc : sc'.cache = aset sc.cache k m') (hk : sc'.capK = sc.capK) (hd : sc'.maxDepth = sc.maxDepth)
    (hli : sc'.links = sc.links)
    (hm' : m'.items.length ≤ nk k + (if (m'.peek h).isSome = true then 1 else 0) ∧ m'.cap = capK) :
    CLen sc' capK maxDepth nk nc h pub := by
  refine ⟨by rw [hk]; exact hl.hcap, by rw [hd]; exact hl.hdep, fun k' m hm => ?_, by rw [hli]; exact hl.links⟩
  rw [hc, alookup_aset] at hm
  by_cases hkk : k = k'
  · simp only [hkk, if_true, Option.some.injEq] at hm; subst hm; rw [← hkk]; exact hm'
  · simp only [hkk, if_false] at hm; exact hl.maps k' m hm

theorem Committer.step_clen (capK maxDepth : Nat) (nk : K → Nat) (nc : Nat) (sc : SC K B V) (c : Committer K B V)
    (hroomK : ∀ k, nk k + 1 ≤ capK) (hroomC : nc + 1 ≤ maxDepth)
    (h : CLen sc capK maxDepth nk nc c.hash c.pc.published) (hf : c.pc.freshOK capK c.hash) :
    (c.stepSC sc).evictions = sc.evictions ∧
    CLen (c.stepSC sc) capK maxDepth nk nc c.hash (c.stepPc sc).published ∧ (c.stepPc sc).freshOK capK c.hash := by
  have npub : ∀ {p : CPc K B V}, (∀ b, p ≠ .done b) → p.published = false := by
    intro p hp; cases p <;> simp [CPc.published]
    rename_i b; exact absurd rfl (hp b)
  have nextOK : ∀ t : List (K × Entry V), (CPc.next t : CPc K B V).published = false ∧
      (CPc.next t : CPc K B V).freshOK capK c.hash := by
    intro t; cases t <;> exact ⟨rfl, trivial⟩
  cases hpc : c.pc with
  | start =>
    have hs : c.stepSC sc = sc := by unfold Committer.stepSC; rw [hpc]
    have hp : c.stepPc sc = .linkcheck := by unfold Committer.stepPc; rw [hpc]
    rw [hs, hp]; rw [hpc] at h; exact ⟨rfl, h, trivial⟩
  | done b =>
    have hs : c.stepSC sc = sc := by unfold Committer.stepSC; rw [hpc]
    have hp : c.stepPc sc = .done b := by unfold Committer.stepPc; rw [hpc]
    rw [hs, hp]; rw [hpc] at h; exact ⟨rfl, h, trivial⟩
  | linkcheck =>
    have hs : c.stepSC sc = { sc with links := (sc.links.get c.hash).1 } := by unfold Committer.stepSC; rw [hpc]
    rw [hpc] at h
    have hpub : (c.stepPc sc).published = false ∧ (c.stepPc sc).freshOK capK c.hash := by
      unfold Committer.stepPc; rw [hpc]; simp only
      cases (sc.links.get c.hash).2 with
      | some _ => exact ⟨rfl, trivial⟩
      | none => exact nextOK c.writes
    rw [hs, hpub.1]
    refine ⟨rfl, ⟨h.hcap, h.hdep, h.maps, ?_⟩, hpub.2⟩
    have := h.links
    simp only [CPc.published] at this
    exact ⟨Nat.le_trans (LRU.get_length _ _) this.1, by rw [LRU.get_cap]; exact this.2⟩
  | keyGet t =>
    have hs : c.stepSC sc = sc := by unfold Committer.stepSC; rw [hpc]
    rw [hpc] at h
    have hpub : (c.stepPc sc).published = false ∧ (c.stepPc sc).freshOK capK c.hash := by
      unfold Committer.stepPc; rw [hpc]
      cases t with
      | nil => exact ⟨rfl, trivial⟩
      | cons a t => obtain ⟨k, e⟩ := a; exact ⟨rfl, trivial⟩
    rw [hs, hpub.1]; exact ⟨rfl, h, hpub.2⟩
  | keyAdd fr t =>
    rw [hpc] at h
    cases t with
    | nil =>
      have hs : c.stepSC sc = sc := by unfold Committer.stepSC; rw [hpc]; cases fr <;> rfl
      have hp : c.stepPc sc = .publish := by unfold Committer.stepPc; rw [hpc]
      rw [hs, hp]; exact ⟨rfl, h, trivial⟩
    | cons a t =>
      obtain ⟨k, e⟩ := a
      cases fr with
      | true =>
        have hs : c.stepSC sc = { sc with evictions := sc.evictions + ((LRU.empty sc.capK : LRU B (Entry V)).add c.hash e).2.toNat, entryEv := sc.entryEv + ((LRU.empty sc.capK : LRU B (Entry V)).add c.hash e).2.toNat } := by
          unfold Committer.stepSC; rw [hpc]
        have hp : c.stepPc sc = .keyPut (some ((LRU.empty sc.capK : LRU B (Entry V)).add c.hash e).1) ((k, e) :: t) := by
          unfold Committer.stepPc; rw [hpc]
        have hcap1 : 1 ≤ sc.capK := by rw [h.hcap]; have := hroomK k; omega
        have hne : ((LRU.empty sc.capK : LRU B (Entry V)).add c.hash e).2 = false :=
          LRU.add_noev _ _ _ (.inr (by simp [LRU.empty]; omega))
        have h' : CLen sc capK maxDepth nk nc c.hash false := h
        rw [hs, hp]
        refine ⟨by simp [hne], h'.congr_cache rfl rfl rfl rfl, ?_⟩
        simp only [CPc.freshOK]
        refine ⟨?_, by rw [LRU.add_cap]; exact h.hcap, ?_⟩
        · have := LRU.add_length (LRU.empty sc.capK : LRU B (Entry V)) c.hash e
          simp [LRU.empty, LRU.peek] at this; exact this
        · rw [LRU.add_peek _ _ _ _ hne]; simp
      | false =>
        cases hm0 : alookup sc.cache k with
        | none =>
          have hs : c.stepSC sc = sc := by unfold Committer.stepSC; rw [hpc]; simp only [hm0]
          have hp : c.stepPc sc = .keyPut none ((k, e) :: t) := by unfold Committer.stepPc; rw [hpc]
          rw [hs, hp]; exact ⟨rfl, h, trivial⟩
        | some m0 =>
          have hs : c.stepSC sc = { sc with cache := aset sc.cache k (m0.add c.hash e).1,
                                            evictions := sc.evictions + (m0.add c.hash e).2.toNat, entryEv := sc.entryEv + (m0.add c.hash e).2.toNat } := by
            unfold Committer.stepSC; rw [hpc]; simp only [hm0]
          have hp : c.stepPc sc = .keyPut none ((k, e) :: t) := by unfold Committer.stepPc; rw [hpc]
          have hm := h.maps k m0 hm0
          have hne : (m0.add c.hash e).2 = false := by
            apply LRU.add_noev
            cases hpk : m0.peek c.hash with
            | some _ => exact .inl (by simp)
            | none =>
              right
              have := hm.1; rw [hpk] at this; simp at this
              rw [hm.2]; have := hroomK k; omega
          have h' : CLen sc capK maxDepth nk nc c.hash false := h
          rw [hs, hp]
          refine ⟨by simp [hne], ?_, trivial⟩
          show CLen _ capK maxDepth nk nc c.hash false
          refine h'.set_map (k := k) (m' := (m0.add c.hash e).1) rfl rfl rfl rfl ?_
          refine ⟨?_, by rw [LRU.add_cap]; exact hm.2⟩
          have hlen := LRU.add_length m0 c.hash e
          have hpres : ((m0.add c.hash e).1.peek c.hash).isSome = true := by
            rw [LRU.add_peek _ _ _ _ hne]; simp
          simp only [hpres, if_true]
          cases hpk : m0.peek c.hash with
          | some _ =>
            have := hm.1; rw [hpk] at this hlen; simp at this hlen; omega
          | none =>
            have := hm.1; rw [hpk] at this hlen; simp at this hlen; omega
  | keyPut fr t =>
    rw [hpc] at h hf
    cases t with
    | nil =>
      have hs : c.stepSC sc = sc := by unfold Committer.stepSC; rw [hpc]; cases fr <;> rfl
      have hp : c.stepPc sc = .publish := by unfold Committer.stepPc; rw [hpc]
      rw [hs, hp]; exact ⟨rfl, h, trivial⟩
    | cons a t =>
      obtain ⟨k, e⟩ := a
      have hp : c.stepPc sc = CPc.next t := by unfold Committer.stepPc; rw [hpc]
      rw [hp, (nextOK t).1]
      cases fr with
      | none =>
        have hs : c.stepSC sc = sc := by unfold Committer.stepSC; rw [hpc]
        rw [hs]; exact ⟨rfl, h, (nextOK t).2⟩
      | some l =>
        have hs : c.stepSC sc = { sc with cache := aset sc.cache k l } := by unfold Committer.stepSC; rw [hpc]
        have h' : CLen sc capK maxDepth nk nc c.hash false := h
        rw [hs]
        simp only [CPc.freshOK] at hf
        refine ⟨rfl, ?_, (nextOK t).2⟩
        refine h'.set_map (k := k) (m' := l) rfl rfl rfl rfl ?_
        simp only [hf.2.2, if_true]
        exact ⟨by omega, hf.2.1⟩
  | publish =>
    have hs : c.stepSC sc = { sc with links := (sc.links.add c.hash c.prev).1,
                                      evictions := sc.evictions + (sc.links.add c.hash c.prev).2.toNat } := by
      unfold Committer.stepSC; rw [hpc]
    have hp : c.stepPc sc = .done true := by unfold Committer.stepPc; rw [hpc]
    rw [hpc] at h
    have hl := h.links
    simp only [CPc.published] at hl
    have hne : (sc.links.add c.hash c.prev).2 = false :=
      LRU.add_noev _ _ _ (.inr (by rw [hl.2]; simp at hl; omega))
    rw [hs, hp]
    refine ⟨by simp [hne], ⟨h.hcap, h.hdep, h.maps, ?_⟩, trivial⟩
    simp only [CPc.published, if_true]
    have := LRU.add_length sc.links c.hash c.prev
    refine ⟨?_, by rw [LRU.add_cap]; exact hl.2⟩
    simp at hl
    split at this <;> omega

theorem Committer.run_clen (capK maxDepth : Nat) (nk : K → Nat) (nc : Nat) (n : Nat) (sc : SC K B V) (c : Committer K B V)
    (hroomK : ∀ k, nk k + 1 ≤ capK) (hroomC : nc + 1 ≤ maxDepth)
    (h : CLen sc capK maxDepth nk nc c.hash c.pc.published) (hf : c.pc.freshOK capK c.hash) :
    (Committer.run n sc c).1.evictions = sc.evictions ∧
    Len (Committer.run n sc c).1 capK maxDepth (fun k => nk k + 1) (nc + 1) := by
  have weaken : ∀ (sc : SC K B V) (hsh : B) (pub : Bool), CLen sc capK maxDepth nk nc hsh pub →
      Len sc capK maxDepth (fun k => nk k + 1) (nc + 1) := by
    intro sc hsh pub h
    refine ⟨h.hcap, h.hdep, fun k m hm => ?_, ?_⟩
    · have := h.maps k m hm
      exact ⟨by have := this.1; split at this <;> omega, this.2⟩
    · have := h.links
      exact ⟨by have := this.1; split at this <;> omega, this.2⟩
  induction n generalizing sc c with
  | zero => exact ⟨rfl, weaken sc _ _ h⟩
  | succ n ih =>
    by_cases hd : ∃ b, c.pc = .done b
    · obtain ⟨b, hb⟩ := hd
      rw [Committer.run_of_done _ _ _ hb]
      exact ⟨rfl, weaken sc _ _ h⟩
    · have hnd : ∀ b, c.pc ≠ .done b := fun b hb => hd ⟨b, hb⟩
      rw [Committer.run_succ _ _ _ hnd]
      obtain ⟨he, hl, hf'⟩ := Committer.step_clen capK maxDepth nk nc sc c hroomK hroomC h hf
      have := ih (c.stepSC sc) { c with pc := c.stepPc sc } hl hf'
      exact ⟨by rw [this.1, he], this.2⟩

theorem SC.commit_len (capK maxDepth : Nat) (nk : K → Nat) (nc : Nat) (sc : SC K B V) (hash prev : B)
    (writes : List (K × Entry V)) (hroomK : ∀ k, nk k + 1 ≤ capK) (hroomC : nc + 1 ≤ maxDepth)
    (h : Len sc capK maxDepth nk nc) :
    (sc.commit hash prev writes).1.evictions = sc.evictions ∧
    Len (sc.commit hash prev writes).1 capK maxDepth (fun k => nk k + 1) (nc + 1) := by
  unfold SC.commit
  simp only
  apply Committer.run_clen capK maxDepth nk nc _ sc ⟨hash, prev, writes, .linkcheck⟩ hroomK hroomC _ trivial
  refine ⟨h.hcap, h.hdep, fun k m hm => ?_, ?_⟩
  · have := h.maps k m hm; exact ⟨by omega, this.2⟩
  · simp only [CPc.published]; exact ⟨by have := h.links.1; simp; omega, h.links.2⟩

/-! ### whole histories -/

/-- the operation may add an item to the version map of key `k`: a lookup of `k` (memo) or any block commit -/
def Op.touches (k : K) : Op H K B V → Bool
  | .tget _ k' => decide (k = k')
  | .bget _ k' => decide (k = k')
  | .qget _ k' => decide (k = k')
  | .sget k' _ => decide (k = k')
  | .bcommit _ => true
  | _ => false

def Op.isCommit : Op H K B V → Bool
  | .bcommit _ => true
  | _ => false

/-- `StateCache.Remove` drops a whole version map: it counts as an eviction -/
def Op.isRemove : Op H K B V → Bool
  | .srem _ => true
  | _ => false

theorem BC.get_len (capK maxDepth : Nat) (nk : K → Nat) (nc : Nat) (sc : SC K B V) (bc : BC K B V) (k : K)
    (hroom : nk k + 1 ≤ capK) (h : Len sc capK maxDepth nk nc) :
    (bc.get sc k).1.evictions = sc.evictions ∧
    Len (bc.get sc k).1 capK maxDepth (fun k' => nk k' + (if k' = k then 1 else 0)) nc := by
  unfold BC.get
  cases alookup bc.cache k with
  | some e => exact ⟨rfl, h.mono (fun _ => Nat.le_add_right _ _) (Nat.le_refl _)⟩
  | none => exact SC.get_len capK maxDepth nk nc sc k bc.base hroom h

theorem Sys.step_len (capK maxDepth : Nat) (nk : K → Nat) (nc : Nat) (s : Sys H K B V) (op : Op H K B V)
    (hroomK : ∀ k, nk k + (if op.touches k = true then 1 else 0) ≤ capK)
    (hroomC : nc + (if op.isCommit = true then 1 else 0) ≤ maxDepth)
    (hnr : op.isRemove = false)
    (h : Len s.sc capK maxDepth nk nc) :
    (s.step op).1.sc.evictions = s.sc.evictions ∧
    Len (s.step op).1.sc capK maxDepth (fun k => nk k + (if op.touches k = true then 1 else 0))
      (nc + (if op.isCommit = true then 1 else 0)) := by
  have same : Len s.sc capK maxDepth (fun k => nk k + (if op.touches k = true then 1 else 0))
      (nc + (if op.isCommit = true then 1 else 0)) :=
    h.mono (fun _ => Nat.le_add_right _ _) (Nat.le_add_right _ _)
  have getcase : ∀ (k0 : K), (∀ k, op.touches k = decide (k = k0)) → op.isCommit = false →
      ∀ (sc' : SC K B V), (sc'.evictions = s.sc.evictions ∧
        Len sc' capK maxDepth (fun k' => nk k' + (if k' = k0 then 1 else 0)) nc) →
      (sc'.evictions = s.sc.evictions ∧
        Len sc' capK maxDepth (fun k => nk k + (if op.touches k = true then 1 else 0))
          (nc + (if op.isCommit = true then 1 else 0))) := by
    intro k0 ht hc sc' hh
    refine ⟨hh.1, hh.2.mono (fun k => ?_) (by simp [hc])⟩
    rw [ht k]; simp
  have roomOf : ∀ (k0 : K), (∀ k, op.touches k = decide (k = k0)) → nk k0 + 1 ≤ capK := by
    intro k0 ht
    have := hroomK k0
    rw [ht k0] at this; simpa using this
  cases op with
  | blk hh hash prev => exact ⟨rfl, same⟩
  | bhash hh hash => simp only [Sys.step]; cases alookup s.bcs hh <;> exact ⟨rfl, same⟩
  | txn t hh => simp only [Sys.step]; cases alookup s.bcs hh <;> exact ⟨rfl, same⟩
  | qtxn t b => exact ⟨rfl, same⟩
  | tset t k v => simp only [Sys.step]; cases alookup s.tcs t <;> exact ⟨rfl, same⟩
  | trem t k => simp only [Sys.step]; cases alookup s.tcs t <;> exact ⟨rfl, same⟩
  | tcommit t =>
    simp only [Sys.step]
    cases alookup s.tcs t with
    | none => exact ⟨rfl, same⟩
    | some tc =>
      simp only
      cases tc.main with
      | block hh => simp only; cases alookup s.bcs hh <;> exact ⟨rfl, same⟩
      | query b => simp only; cases tc.cache <;> exact ⟨rfl, same⟩
  | bset hh k v => simp only [Sys.step]; cases alookup s.bcs hh <;> exact ⟨rfl, same⟩
  | tget t k0 =>
    have ht : ∀ k, (Op.tget t k0 : Op H K B V).touches k = decide (k = k0) := fun k => rfl
    simp only [Sys.step]
    cases alookup s.tcs t with
    | none => exact ⟨rfl, same⟩
    | some tc =>
      simp only
      cases alookup tc.cache k0 with
      | some e => exact ⟨rfl, same⟩
      | none =>
        simp only
        cases tc.main with
        | block hh =>
          simp only
          cases alookup s.bcs hh with
          | none => exact ⟨rfl, same⟩
          | some bc => exact getcase k0 ht rfl _ (BC.get_len capK maxDepth nk nc s.sc bc k0 (roomOf k0 ht) h)
        | query b => exact getcase k0 ht rfl _ (SC.get_len capK maxDepth nk nc s.sc k0 b (roomOf k0 ht) h)
  | bget hh k0 =>
    have ht : ∀ k, (Op.bget hh k0 : Op H K B V).touches k = decide (k = k0) := fun k => rfl
    simp only [Sys.step]
    cases alookup s.bcs hh with
    | none => exact ⟨rfl, same⟩
    | some bc => exact getcase k0 ht rfl _ (BC.get_len capK maxDepth nk nc s.sc bc k0 (roomOf k0 ht) h)
  | srem k0 => simp [Op.isRemove] at hnr
  | qget b k0 =>
    have ht : ∀ k, (Op.qget b k0 : Op H K B V).touches k = decide (k = k0) := fun k => rfl
    exact getcase k0 ht rfl _ (SC.get_len capK maxDepth nk nc s.sc k0 b (roomOf k0 ht) h)
  | sget k0 b =>
    have ht : ∀ k, (Op.sget k0 b : Op H K B V).touches k = decide (k = k0) := fun k => rfl
    exact getcase k0 ht rfl _ (SC.get_len capK maxDepth nk nc s.sc k0 b (roomOf k0 ht) h)
  | bcommit hh =>
    simp only [Sys.step]
    cases alookup s.bcs hh with
    | none => exact ⟨rfl, same⟩
    | some bc =>
      simp only [BC.commit]
      have := SC.commit_len capK maxDepth nk nc s.sc bc.hash bc.prev bc.cache
        (fun k => by have := hroomK k; simpa [Op.touches] using this)
        (by simpa [Op.isCommit] using hroomC) h
      refine ⟨this.1, this.2.mono (fun k => by simp [Op.touches]) (by simp [Op.isCommit])⟩

theorem Sys.run_noEviction (capK maxDepth : Nat) (ops : List (Op H K B V)) (s : Sys H K B V) (nk : K → Nat) (nc : Nat)
    (h : Len s.sc capK maxDepth nk nc)
    (hK : ∀ k, nk k + (ops.filter (fun o => o.touches k)).length ≤ capK)
    (hC : nc + (ops.filter (fun o => o.isCommit)).length ≤ maxDepth)
    (hR : ∀ op ∈ ops, op.isRemove = false) : NoEviction s ops := by
  induction ops generalizing s nk nc with
  | nil => rfl
  | cons op rest ih =>
    unfold NoEviction
    simp only [Sys.run]
    have hk1 : ∀ k, nk k + (if op.touches k = true then 1 else 0) ≤ capK := by
      intro k; have := hK k
      simp only [List.filter_cons] at this
      split at this <;> simp_all <;> omega
    have hc1 : nc + (if op.isCommit = true then 1 else 0) ≤ maxDepth := by
      have := hC
      simp only [List.filter_cons] at this
      split at this <;> simp_all <;> omega
    obtain ⟨he, hl⟩ := Sys.step_len capK maxDepth nk nc s op hk1 hc1 (hR op (by simp)) h
    have := ih (s.step op).1 _ _ hl
      (by
        intro k; have := hK k
        simp only [List.filter_cons] at this
        split at this <;> simp_all <;> omega)
      (by
        have := hC
        simp only [List.filter_cons] at this
        split at this <;> simp_all <;> omega)
      (fun o ho => hR o (by simp [ho]))
    unfold NoEviction at this
    rw [this, he]

theorem Len.init (capK maxDepth : Nat) : Len (Sys.new capK maxDepth : Sys H K B V).sc capK maxDepth (fun _ => 0) 0 := by
  refine ⟨rfl, rfl, fun k m hm => ?_, ⟨Nat.le_refl _, rfl⟩⟩
  simp [Sys.new, SC.new] at hm

end Verif.SC
