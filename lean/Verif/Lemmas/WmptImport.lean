/-
C12 "export_import": what `GetPath` exports for a marked trie (`collectNodes`) is the pre-order list of the honest
persisted nodes of the marked part, and `Deserialize` rebuilds from it exactly the pruned trie `prune H n` (root flagged
dirty), which represents the same spec tree, has the same root hash and is free of references along every marked key.

Side condition that is really needed besides `Proper`: `DirtyUp` (a branch that is not dirty has no dirty child).
`Serialize` of a branch that is not dirty quotes the CACHED hashes of its children; a dirty child below a clean branch
would be exported with a stale hash in the parent's entry and the importer's parent/child hash check would fail.
-/
import Verif.Lemmas.WmptExportDefs
namespace Verif.Wmpt
open RepOps (NoEmp PTOK)

/-- dirtiness propagates upwards at branches (the short-node clause is part of `Proper`) -/
def DirtyUp : WN → Prop
  | .short _ _ c _ _ => DirtyUp c
  | .routing _ ch _ d _ => (d = false → ∀ i, (ch i).dirty = false) ∧ ∀ i, DirtyUp (ch i)
  | _ => True

def PT.shortChild : PT → PT
  | .short _ c => c
  | _ => .none

def PT.kid : PT → Nib → PT
  | .branch f, i => f i
  | _, _ => .none

section
variable (H : Bytes → Bytes)

/-- the exported structures in pre-order, as `collectNodes` computes them -/
def pieces : WN → List PBase
  | .nil => []
  | .empty => [{ nilNode := true }]
  | .hashRef h w => [{ hashNode := some ⟨h, w⟩ }]
  | .value h v w d => [(serializeP H (.value h v w d)).2]
  | .short k h c d tc => (serializeP H (.short k h c d tc)).2 :: pieces c
  | .routing h ch w d tc =>
    if tc then (serializeP H (.routing h ch w d tc)).2 :: allNib.flatMap (fun i => pieces (ch i))
    else [{ hashNode := some ⟨(calcHash H (.routing h ch w d tc)).2, w⟩ }]

/-- the honest export of a node `n` that represents the spec tree `t`: an unmarked branch is one `(hash, weight)`
    reference, a marked branch / a short node is its honest persisted form followed by the export of its children -/
def hpieces : WN → PT → List PBase
  | .nil, _ => []
  | .empty, _ => [{ nilNode := true }]
  | .hashRef h w, _ => [{ hashNode := some ⟨h, w⟩ }]
  | .value _ _ _ _, t => [PT.persist H t]
  | .short _ _ c _ _, t => PT.persist H t :: hpieces c t.shortChild
  | .routing _ ch w _ tc, t =>
    if tc then PT.persist H t :: allNib.flatMap (fun i => hpieces (ch i) (t.kid i))
    else [{ hashNode := some ⟨PT.hash H t, w⟩ }]

end

section
variable {H : Bytes → Bytes}

/-! ### 1. what `collectNodes` exports -/

theorem collect_pieces (n : WN) : (collectNodes H n).2 = (pieces H n).map Cbor.encBase := by
  induction n with
  | nil => rfl
  | empty => rfl
  | hashRef h w => rfl
  | value h v w d => rfl
  | short k h c d tc ih => simp [collectNodes, pieces, ih]
  | routing h ch w d tc ih =>
    cases tc with
    | false => simp [collectNodes, pieces]
    | true =>
      simp only [collectNodes, pieces, Bool.not_true, Bool.false_eq_true, if_false, if_true, List.map_cons,
        List.flatMap_map, List.map_flatMap, ih]

theorem calcHash_hashField (n : WN) (hn : n.isNil = false) : (calcHash H n).1.hashField H = (calcHash H n).2 := by
  cases n with
  | nil => simp [WN.isNil] at hn
  | empty => rfl
  | hashRef h w => rfl
  | value h v w d => cases d <;> rfl
  | routing h ch w d tc => cases d <;> rfl
  | short k h c d tc =>
    cases d with
    | false => rfl
    | true => by_cases hc : c.isNil <;> simp only [calcHash, hc, if_true, if_false, Bool.false_eq_true] <;> rfl

/-- after `CalcHash` the cached hash of a represented node is the hash of its spec tree -/
theorem rep_calcHash_hashField {P : PT → Prop} {n : WN} {t : PT} (h : Rep H P n t) (hp : Proper n)
    (hn : n.isNil = false) : (calcHash H n).1.hashField H = PT.hash H t := by
  rw [calcHash_hashField n hn]; exact (rep_calcHash h hp).2

theorem rep_calcHash_weight {P : PT → Prop} {n : WN} {t : PT} (h : Rep H P n t) (hp : Proper n) :
    (calcHash H n).1.weight = t.weight := (rep_calcHash h hp).1.weight

/-- the entry of a refreshed child inside its parent branch is the honest one (no cleanliness needed) -/
theorem childEntry_calcHash {P : PT → Prop} {c : WN} {tc : PT} (h : Rep H P c tc) (he : c ≠ .empty) (hp : Proper c)
    (href : ∀ hh ww, c = .hashRef hh ww → tc.isShort = false) :
    childEntry H (calcHash H c).1 = PT.childEntry H tc := by
  by_cases hd : c.dirty = false
  · rw [calcHash_of_clean H c hd]; exact childEntry_rep h hd he hp href
  · have hd' : c.dirty = true := by simpa using hd
    cases h with
    | nil => rfl
    | empty => exact absurd rfl he
    | ref t hn _ => simp [WN.dirty] at hd'
    | value h v w d hc =>
      simp only [WN.dirty] at hd'; subst hd'
      simp [calcHash, childEntry, PT.childEntry, WN.hashField, WN.weight, PT.weight, PT.hash]
    | short k h c d tc tc' hr hc =>
      simp only [WN.dirty] at hd'; subst hd'
      obtain ⟨hnil, _, _, hpc⟩ := hp
      have h1 := rep_calcHash_hashField hr hpc hnil
      have h2 := rep_calcHash_weight hr hpc
      have h3 := (rep_calcHash hr hpc).2
      simp [calcHash, hnil, childEntry, PT.childEntry, WN.weight, h1, h2, h3, PT.hash]
    | routing h ch w d tc f hr hrf hw hc =>
      simp only [WN.dirty] at hd'; subst hd'
      have h3 := (rep_calcHash (Rep.routing h ch w true tc f hr hrf hw hc) hp).2
      simp only [calcHash, if_true] at h3
      simp only [calcHash, if_true, childEntry, WN.hashField, WN.weight, PT.childEntry, h3]
      rw [hw]

/-- `Serialize` of a represented node, dirty or not, yields the honest persisted form of the spec node (a reference
    serializes to a `hashNode` entry instead, and Go never serializes nil) -/
theorem serializeP_honest (hlen : ∀ x, (H x).length = 32) {P : PT → Prop} {n : WN} {t : PT} (h : Rep H P n t)
    (hp : Proper n) (hu : DirtyUp n) (hnil : n.isNil = false) (hnr : ∀ hh ww, n ≠ .hashRef hh ww) :
    (serializeP H n).2 = PT.persist H t := by
  by_cases hd : n.dirty = false
  · refine serializeP_rep hlen h hp ?_ hnil hnr
    cases h with
    | short k h c d tc tc' hr hc => exact hp.2.2.1 hd
    | routing h ch w d tc f hr href hw hc => exact hu.1 hd
    | _ => trivial
  · have hd' : n.dirty = true := by simpa using hd
    cases h with
    | nil => simp [WN.isNil] at hnil
    | empty => rfl
    | ref t _ _ => exact absurd rfl (hnr _ _)
    | value h v w d hc =>
      simp only [WN.dirty] at hd'; subst hd'
      simp [serializeP, calcHash, WN.hashField, PT.persist, PT.hash]
    | short k h c d tc tc' hr hc =>
      simp only [WN.dirty] at hd'; subst hd'
      obtain ⟨hcn, _, _, hpc⟩ := hp
      have h1 := rep_calcHash_hashField hr hpc hcn
      have h2 := rep_calcHash_weight hr hpc
      have h3 := (rep_calcHash hr hpc).2
      have h4 := pad32_of_length _ (PT.hash_length H hlen tc')
      simp only [serializeP, calcHash, hcn, if_true, Bool.false_eq_true, if_false, h1, h2, h3, WN.weight, h4]
      simp [PT.persist, PT.hash, h4]
    | routing h ch w d tc f hr href hw hc =>
      simp only [WN.dirty] at hd'; subst hd'
      have h1 : allNib.map (fun i => childEntry H (calcHash H (ch i)).1) = allNib.map (fun i => PT.childEntry H (f i)) :=
        List.map_congr_left (fun i _ => childEntry_calcHash (hr i) (hp i).1 (hp i).2 (href i))
      have h3 := (rep_calcHash (Rep.routing h ch w true false f hr href hw hc) hp).2
      simp only [calcHash, if_true] at h3
      simp only [serializeP, calcHash, if_true, h3, List.map_map, Function.comp_def, ofList_map_allNib, h1]
      simp [PT.persist]

theorem Rep.eq_none_of_nil {P : PT → Prop} {t : PT} (h : Rep H P .nil t) : t = .none := by
  cases h; rfl

/-- the exported structures are the honest ones -/
theorem pieces_honest (hlen : ∀ x, (H x).length = 32) {P : PT → Prop} {n : WN} {t : PT} (h : Rep H P n t) :
    Proper n → DirtyUp n → pieces H n = hpieces H n t := by
  induction h with
  | nil => intro _ _; rfl
  | empty => intro _ _; rfl
  | ref t hn hp => intro _ _; rfl
  | value h v w d hc =>
    intro hp hu
    simp only [pieces, hpieces]
    rw [serializeP_honest hlen (Rep.value h v w d hc) hp hu rfl (by simp)]
  | short k h c d tc tc' hr hc ih =>
    intro hp hu
    simp only [pieces, hpieces, PT.shortChild]
    rw [serializeP_honest hlen (Rep.short k h c d tc tc' hr hc) hp hu rfl (by simp), ih hp.2.2.2 hu]
  | routing h ch w d tc f hr href hw hc ih =>
    intro hp hu
    cases tc with
    | false =>
      simp only [pieces, hpieces, Bool.false_eq_true, if_false]
      rw [(rep_calcHash (Rep.routing h ch w d false f hr href hw hc) hp).2]
    | true =>
      simp only [pieces, hpieces, if_true, PT.kid]
      rw [serializeP_honest hlen (Rep.routing h ch w d true f hr href hw hc) hp hu rfl (by simp)]
      congr 1
      simp only [List.flatMap_def]
      congr 1
      exact List.map_congr_left (fun i _ => ih i (hp i).2 (hu.2 i))

/-- 1. `collect_spec`: `GetPath` exports the honest structures of the marked part in pre-order -/
theorem collect_spec (hlen : ∀ x, (H x).length = 32) {P : PT → Prop} {n : WN} {t : PT} (h : Rep H P n t)
    (hp : Proper n) (hu : DirtyUp n) : (collectNodes H n).2 = (hpieces H n t).map Cbor.encBase := by
  rw [collect_pieces, pieces_honest hlen h hp hu]

/-! ### 3. the pruned trie represents the same spec tree -/

theorem prune_isNil (n : WN) : (prune H n).isNil = n.isNil := by
  cases n with
  | routing h ch w d tc => cases tc <;> simp [prune, WN.isNil]
  | _ => simp [prune, WN.isNil]

theorem prune_ne_empty {n : WN} (h : n ≠ .empty) : prune H n ≠ .empty := by
  cases n with
  | routing h ch w d tc => cases tc <;> simp [prune]
  | empty => exact absurd rfl h
  | _ => simp [prune]

theorem prune_dirty (n : WN) : (prune H n).dirty = false := by
  cases n with
  | routing h ch w d tc => cases tc <;> simp [prune, WN.dirty]
  | _ => simp [prune, WN.dirty]

theorem prune_weight (n : WN) : (prune H n).weight = n.weight := by
  induction n with
  | routing h ch w d tc ih => cases tc <;> simp [prune, WN.weight]
  | short k h c d tc ih => simpa [prune, WN.weight] using ih
  | _ => simp [prune, WN.weight]

theorem prune_rep_aux {P : PT → Prop} {n : WN} {t : PT} (h : Rep H P n t) :
    Proper n → RepP H (prune H n) t ∧ Proper (prune H n) := by
  induction h with
  | nil => intro _; exact ⟨Rep.nil, trivial⟩
  | empty => intro _; exact ⟨Rep.empty, trivial⟩
  | ref t hn hp => intro _; exact ⟨Rep.ref t hn trivial, trivial⟩
  | value h v w d hc =>
    intro hp
    have e := (rep_calcHash (Rep.value h v w d hc) hp).2
    exact ⟨Rep.value _ v w false (fun _ => ⟨e, trivial⟩), trivial⟩
  | short k h c d tc tc' hr hc ih =>
    intro hp
    have e := (rep_calcHash (Rep.short k h c d tc tc' hr hc) hp).2
    obtain ⟨hnil, hemp, _, hpc⟩ := hp
    obtain ⟨i1, i2⟩ := ih hpc
    refine ⟨Rep.short k _ _ false false tc' i1 (fun _ => ⟨e, trivial⟩), ?_⟩
    exact ⟨by rw [prune_isNil]; exact hnil, prune_ne_empty hemp, fun _ => prune_dirty c, i2⟩
  | routing h ch w d tc f hr href hw hc ih =>
    intro hp
    have e := (rep_calcHash (Rep.routing h ch w d tc f hr href hw hc) hp).2
    cases tc with
    | false =>
      simp only [prune, Bool.false_eq_true, if_false, e]
      rw [hw]
      exact ⟨Rep.ref (.branch f) rfl trivial, trivial⟩
    | true =>
      simp only [prune, if_true]
      refine ⟨Rep.routing _ _ w false false f (fun i => (ih i (hp i).2).1) (fun i hh ww hi => ?_) hw
        (fun _ => ⟨e, trivial⟩), fun i => ⟨prune_ne_empty (hp i).1, (ih i (hp i).2).2⟩⟩
      have hri := hr i
      cases hci : ch i with
      | hashRef a b => exact href i a b hci
      | nil => simp [hci, prune] at hi
      | empty => simp [hci, prune] at hi
      | value a b c d => simp [hci, prune] at hi
      | short a b c d e => simp [hci, prune] at hi
      | routing a b c d e =>
        rw [hci] at hri
        generalize f i = x at hri ⊢
        cases hri
        rfl

theorem proper_noEmp' : ∀ {n : WN}, Proper n → NoEmp n
  | .nil, _ => trivial
  | .empty, _ => trivial
  | .hashRef _ _, _ => trivial
  | .value _ _ _ _, _ => trivial
  | .short _ _ _ _ _, h => ⟨h.2.1, proper_noEmp' h.2.2.2⟩
  | .routing _ _ _ _ _, h => fun i => ⟨(h i).1, proper_noEmp' (h i).2⟩

/-- 3. `prune_rep` -/
theorem prune_rep {P : PT → Prop} {n : WN} {t : PT} (h : Rep H P n t) (hp : Proper n) :
    RepP H (prune H n) t ∧ Proper (prune H n) ∧ NoEmp (prune H n) ∧ (prune H n).weight = n.weight :=
  ⟨(prune_rep_aux h hp).1, (prune_rep_aux h hp).2, proper_noEmp' (prune_rep_aux h hp).2, prune_weight n⟩

theorem importedRoot_weight (n : WN) : (importedRoot n).weight = n.weight := by
  cases n <;> rfl

theorem importedRoot_rep {P : PT → Prop} {n : WN} {t : PT} (h : Rep H P n t) (hp : Proper n) :
    Rep H P (importedRoot n) t ∧ Proper (importedRoot n) := by
  cases h with
  | short k h c d tc tc' hr hc =>
    exact ⟨Rep.short k h c true tc tc' hr (by simp), hp.1, hp.2.1, by simp, hp.2.2.2⟩
  | routing h ch w d tc f hr href hw hc => exact ⟨Rep.routing h ch w true tc f hr href hw (by simp), hp⟩
  | nil => exact ⟨Rep.nil, hp⟩
  | empty => exact ⟨Rep.empty, hp⟩
  | ref t hn hpt => exact ⟨Rep.ref t hn hpt, hp⟩
  | value h v w d hc => exact ⟨Rep.value h v w d hc, hp⟩

/-- 3'. the same for the root as `Deserialize` leaves it, and the root hash -/
theorem importedRoot_prune_rep {P : PT → Prop} {n : WN} {t : PT} (h : Rep H P n t) (hp : Proper n) :
    RepP H (importedRoot (prune H n)) t ∧ Proper (importedRoot (prune H n)) ∧ NoEmp (importedRoot (prune H n)) ∧
    (importedRoot (prune H n)).weight = n.weight ∧
    (calcHash H (importedRoot (prune H n))).2 = PT.hash H t := by
  obtain ⟨h1, h2⟩ := prune_rep_aux h hp
  obtain ⟨h3, h4⟩ := importedRoot_rep h1 h2
  exact ⟨h3, h4, proper_noEmp' h4, by rw [importedRoot_weight, prune_weight], (rep_calcHash h3 h4).2⟩

/-! ### 4. the pruned trie has no reference on a marked key -/

theorem clear_importedRoot (n : WN) (key : List Nib) : Clear (importedRoot n) key ↔ Clear n key := by
  cases n with
  | routing h ch w d tc => cases key <;> simp [importedRoot, Clear]
  | short k h c d tc => simp [importedRoot, Clear]
  | _ => simp [importedRoot]

/-- 4. `prune_clear`: every key of the trie's key length whose path is marked can be walked in the imported trie without
    meeting a reference. (The key length matters: the empty key is vacuously `Marked` at an unmarked branch.) -/
theorem prune_clear {P : PT → Prop} {n : WN} {t : PT} (h : Rep H P n t) :
    ∀ (m : Nat) (key : List Nib), Uniform m t → key.length = m → Marked n key → Clear (prune H n) key := by
  induction h with
  | nil => intro m key _ _ _; simp [prune, Clear]
  | empty => intro m key _ _ _; simp [prune, Clear]
  | ref t hn hp => intro m key _ _ hm; simp [Marked] at hm
  | value h v w d hc => intro m key _ _ _; simp [prune, Clear]
  | short k h c d tc tc' hr hc ih =>
    intro m key hu hk hm
    simp only [Marked] at hm
    simp only [prune, Clear]
    by_cases hs : shortMatches k key = true
    · simp only [hs, if_true] at hm ⊢
      exact ih (m - k.length) _ hu.2.2.2.2 (by simp [hk]) hm
    · simp [hs]
  | routing h ch w d tc f hr href hw hc ih =>
    intro m key hu hk hm
    cases key with
    | nil => simp only [Uniform] at hu; simp at hk; omega
    | cons a ks =>
      simp only [Marked] at hm
      obtain ⟨rfl, hm⟩ := hm
      simp only [prune, if_true, Clear]
      exact ih a (m - 1) ks (hu.2 a) (by simp at hk; omega) hm

theorem prune_clear_root {P : PT → Prop} {n : WN} {t : PT} (h : Rep H P n t) (m : Nat) (key : List Nib)
    (hu : Uniform m t) (hk : key.length = m) (hm : Marked n key) : Clear (importedRoot (prune H n)) key :=
  (clear_importedRoot _ _).mpr (prune_clear h m key hu hk hm)

/-! ### 2. the importer rebuilds the pruned trie -/

theorem ofBytes_encBase (p : PBase) (h : Cbor.PBaseWF p) : PairD.ofBytes (some (Cbor.encBase p)) = .ok p := by
  simp [PairD.ofBytes, Cbor.decBase_encBase p h]

theorem hashNode_wf (h : Bytes) (w : Nat) (hh : h.length = 32) (hw : w < 2 ^ 64) :
    Cbor.PBaseWF { hashNode := some ⟨h, w⟩ } := by
  refine ⟨?_, ?_, ?_, ?_⟩ <;> intro _ e <;> cases e
  exact ⟨by simp [hh], hw⟩

theorem nilNode_wf : Cbor.PBaseWF { nilNode := true } := by
  refine ⟨?_, ?_, ?_, ?_⟩ <;> intro _ e <;> cases e

/-- every exported structure fits the CBOR layer -/
theorem hpieces_wf (hlen : ∀ x, (H x).length = 32) {P : PT → Prop} {n : WN} {t : PT} (h : Rep H P n t) :
    PTOK t → ∀ p ∈ hpieces H n t, Cbor.PBaseWF p := by
  induction h with
  | nil => intro _ p hp; simp [hpieces] at hp
  | empty => intro _ p hp; simp only [hpieces, List.mem_singleton] at hp; subst hp; exact nilNode_wf
  | ref t hn _ =>
    intro hok p hp
    simp only [hpieces, List.mem_singleton] at hp; subst hp
    exact hashNode_wf _ _ (PT.hash_length H hlen t) hok.1
  | value h v w d hc =>
    intro hok p hp
    simp only [hpieces, List.mem_singleton] at hp; subst hp
    exact persist_wf H hlen _ hok.1 hok.2
  | short k h c d tc tc' hr hc ih =>
    intro hok p hp
    simp only [hpieces, List.mem_cons, PT.shortChild] at hp
    rcases hp with rfl | hp
    · exact persist_wf H hlen _ hok.1 hok.2
    · exact ih hok.short p hp
  | routing h ch w d tc f hr href hw hc ih =>
    intro hok p hp
    cases tc with
    | false =>
      simp only [hpieces, Bool.false_eq_true, if_false, List.mem_singleton] at hp; subst hp
      exact hashNode_wf _ _ (PT.hash_length H hlen _) (by rw [hw]; exact hok.1)
    | true =>
      simp only [hpieces, if_true, List.mem_cons, List.mem_flatMap, PT.kid] at hp
      rcases hp with rfl | ⟨i, _, hp⟩
      · exact persist_wf H hlen _ hok.1 hok.2
      · exact ih i (hok.child i) p hp

theorem map_ofBytes_enc (l : List PBase) (h : ∀ p ∈ l, Cbor.PBaseWF p) :
    (l.map Cbor.encBase).map (fun b => PairD.ofBytes (some b)) = l.map PairD.ok := by
  rw [List.map_map]
  exact List.map_congr_left (fun p hp => ofBytes_encBase p (h p hp))

theorem refOf_hashField {t : PT} (hn : t.isNone = false) : (PT.refOf H t).hashField H = PT.hash H t := by
  cases t <;> simp [PT.refOf, WN.hashField, PT.isNone] at hn ⊢

theorem prune_hashField {P : PT → Prop} {n : WN} {t : PT} (h : Rep H P n t) (hp : Proper n) (hn : n.isNil = false) :
    (prune H n).hashField H = PT.hash H t :=
  (prune_rep_aux h hp).1.hashField_of_clean (prune_dirty n) (by rw [prune_isNil]; exact hn)

theorem length_le_flatMap {α β} (g : α → List β) (is : List α) (i : α) (hi : i ∈ is) :
    (g i).length ≤ (is.flatMap g).length := by
  induction is with
  | nil => cases hi
  | cons a tl ih =>
    simp only [List.flatMap_cons, List.length_append]
    rcases List.mem_cons.mp hi with rfl | hi
    · omega
    · have := ih hi; omega

/-- the loop over the children of a deserialized branch: every non-nil placeholder `tb i` is replaced by the node `g i`
    rebuilt from the pairs `pcs i`, which are consumed in order -/
theorem deserKids_run (rec : List PairD → Res (WN × List PairD)) (g : Nib → WN) (pcs : Nib → List PairD) :
    ∀ (is : List Nib) (tb : Nib → WN) (rest : List PairD), is.Nodup →
      (∀ i ∈ is, (tb i).isNil = true → pcs i = [] ∧ g i = tb i) →
      (∀ i ∈ is, (tb i).isNil = false →
        (∀ rest', rec (pcs i ++ rest') = .ok (g i, rest')) ∧ (tb i).hashField H = (g i).hashField H) →
      deserKids H rec is tb (is.flatMap pcs ++ rest) = .ok (fun j => if j ∈ is then g j else tb j, rest) := by
  intro is
  induction is with
  | nil => intro tb rest _ _ _; simp [deserKids]
  | cons i tl ih =>
    intro tb rest hnd h1 h2
    have hnd' := (List.nodup_cons.mp hnd)
    simp only [deserKids, List.flatMap_cons, List.append_assoc]
    by_cases hn : (tb i).isNil = true
    · obtain ⟨e1, e2⟩ := h1 i List.mem_cons_self hn
      rw [if_pos hn, e1, List.nil_append,
        ih tb rest hnd'.2 (fun j hj => h1 j (List.mem_cons_of_mem _ hj)) (fun j hj => h2 j (List.mem_cons_of_mem _ hj))]
      congr 2
      funext j
      by_cases hj : j = i
      · subst hj; simp [hnd'.1, e2]
      · simp [hj]
    · have hn' : (tb i).isNil = false := by simpa using hn
      obtain ⟨e1, e2⟩ := h2 i List.mem_cons_self hn'
      have hne : ∀ j ∈ tl, j ≠ i := fun j hj e => hnd'.1 (e ▸ hj)
      rw [if_neg hn, e1]
      simp only [e2, ne_eq, not_true_eq_false, if_false]
      rw [ih (upd tb i (g i)) rest hnd'.2
        (fun j hj => by simpa [upd, hne j hj] using h1 j (List.mem_cons_of_mem _ hj))
        (fun j hj => by simpa [upd, hne j hj] using h2 j (List.mem_cons_of_mem _ hj))]
      congr 2
      funext j
      by_cases hj : j = i
      · subst hj; simp [hnd'.1, upd]
      · simp [hj, upd]

theorem allNib_nodup : allNib.Nodup := by decide

/-- `deserializeTrie` on the export of `n` followed by `rest` rebuilds `prune H n` and leaves `rest`; the fuel only has
    to cover the number of exported structures -/
theorem deser_pieces (hlen : ∀ x, (H x).length = 32) {P : PT → Prop} {n : WN} {t : PT} (h : Rep H P n t) :
    Proper n → PTOK t → n.isNil = false → n ≠ .empty → ∀ fuel rest, (hpieces H n t).length ≤ fuel →
      deserializeTrie H fuel ((hpieces H n t).map PairD.ok ++ rest) = .ok (prune H n, rest) := by
  induction h with
  | nil => intro _ _ hn; simp [WN.isNil] at hn
  | empty => intro _ _ _ he; exact absurd rfl he
  | ref t hn _ =>
    intro _ _ _ _ fuel rest hf
    obtain ⟨f, rfl⟩ : ∃ f, fuel = f + 1 := ⟨fuel - 1, by simp only [hpieces, List.length_singleton] at hf; omega⟩
    simp [hpieces, deserializeTrie, deserializeNode, prune]
  | value h v w d hc =>
    intro hp _ _ _ fuel rest hf
    obtain ⟨f, rfl⟩ : ∃ f, fuel = f + 1 := ⟨fuel - 1, by simp only [hpieces, List.length_singleton] at hf; omega⟩
    have e := (rep_calcHash (Rep.value h v w d hc) hp).2
    simp [hpieces, deserializeTrie, deserializeNode, prune, PT.persist, e]
  | short k h c d tc tc' hr hc ih =>
    intro hp hok _ _ fuel rest hf
    obtain ⟨f, rfl⟩ : ∃ f, fuel = f + 1 := ⟨fuel - 1, by simp only [hpieces, List.length_cons] at hf; omega⟩
    have e := (rep_calcHash (Rep.short k h c d tc tc' hr hc) hp).2
    obtain ⟨hnil, hemp, _, hpc⟩ := hp
    have hf' : (hpieces H c tc').length ≤ f := by
      simp only [hpieces, List.length_cons, PT.shortChild] at hf; omega
    have hrec := ih hpc hok.short hnil hemp f rest hf'
    have hh : (WN.hashRef (PT.hash H tc') tc'.weight).hashField H = (prune H c).hashField H := by
      rw [prune_hashField hr hpc hnil]; rfl
    simp only [hpieces, PT.shortChild, List.map_cons, List.cons_append, deserializeTrie,
      deserializeNode_short H hlen k tc' hok.1 hok.2.2.1, hrec, hh, ne_eq, not_true_eq_false, if_false, prune, e]
  | routing h ch w d tc f hr href hw hc ih =>
    intro hp hok _ _ fuel rest hf
    have e := (rep_calcHash (Rep.routing h ch w d tc f hr href hw hc) hp).2
    cases tc with
    | false =>
      obtain ⟨f', rfl⟩ : ∃ f', fuel = f' + 1 := ⟨fuel - 1, by
        simp only [hpieces, Bool.false_eq_true, if_false, List.length_singleton] at hf; omega⟩
      simp [hpieces, deserializeTrie, deserializeNode, prune, e]
    | true =>
      obtain ⟨f', rfl⟩ : ∃ f', fuel = f' + 1 := ⟨fuel - 1, by
        simp only [hpieces, if_true, List.length_cons] at hf; omega⟩
      have hf' : (allNib.flatMap (fun i => hpieces H (ch i) (f i))).length ≤ f' := by
        simp only [hpieces, if_true, List.length_cons, PT.kid] at hf; omega
      have hkids := deserKids_run (H := H) (deserializeTrie H f') (fun i => prune H (ch i))
        (fun i => (hpieces H (ch i) (f i)).map PairD.ok) allNib (fun i => PT.refOf H (f i)) rest allNib_nodup
        (fun i _ hn => by
          rw [PT.refOf_isNil] at hn
          have hci : ch i = .nil := by
            rcases (hr i).isNone_iff.mp hn with e | e
            · exact e
            · exact absurd e (hp i).1
          have hfi : f i = .none := by cases hfi : f i <;> simp_all [PT.isNone]
          simp [hci, hfi, hpieces, prune, PT.refOf])
        (fun i _ hn => by
          rw [PT.refOf_isNil] at hn
          have hnil : (ch i).isNil = false := by rw [(hr i).isNil_iff (hp i).1]; exact hn
          refine ⟨fun rest' => ih i (hp i).2 (hok.child i) hnil (hp i).1 f' rest' ?_, ?_⟩
          · exact Nat.le_trans (length_le_flatMap (fun i => hpieces H (ch i) (f i)) allNib i (by simp [allNib])) hf'
          · rw [refOf_hashField hn, prune_hashField (hr i) (hp i).2 hnil])
      have hall : (fun j => if j ∈ allNib then prune H (ch j) else PT.refOf H (f j)) = fun j => prune H (ch j) := by
        funext j; simp [allNib]
      rw [hall] at hkids
      simp only [hpieces, if_true, PT.kid, List.map_cons, List.cons_append, List.map_flatMap, deserializeTrie,
        deserializeNode_branch H hlen f hok.1 hok.2.keysNib, hkids, prune, e, ← hw]

/-- the root check of `Deserialize` on the rebuilt trie -/
theorem root_check {P : PT → Prop} {n : WN} {t : PT} (h : Rep H P n t) (hp : Proper n) (pairs rest : List PairD)
    (hne : pairs ≠ []) (hd : deserializeTrie H (pairs.length + 1) pairs = .ok (prune H n, rest)) :
    importPairs H pairs = .ok (some (importedRoot (prune H n))) := by
  have hclean : ∀ {c : WN} {tc : PT}, Rep H P c tc → Proper c → calcHash H (prune H c) = (prune H c, PT.hash H tc) := by
    intro c tc hr hpc
    exact calcHash_rep_clean (prune_rep_aux hr hpc).1 (prune_dirty c)
  simp only [importPairs, hne, if_false, hd]
  cases h with
  | nil => simp [prune, importedRoot]
  | empty => simp [prune, importedRoot]
  | ref t hn _ => simp [prune, importedRoot]
  | value h v w d hc => simp [prune, importedRoot]
  | short k h c d tc tc' hr hc =>
    have e := (rep_calcHash (Rep.short k h c d tc tc' hr hc) hp).2
    obtain ⟨hnil, _, _, hpc⟩ := hp
    have hn' : (prune H c).isNil = false := by rw [prune_isNil]; exact hnil
    have key : rehash H (.short k (PT.hash H (.short k tc')) (prune H c) true false) =
        .short k (PT.hash H (.short k tc')) (prune H c) true false := by
      simp only [rehash, calcHash, if_true, hn', Bool.false_eq_true, if_false, hclean hr hpc]
      simp [PT.hash]
    simp only [prune, e, key, importedRoot, WN.hashField, ne_eq, not_true_eq_false, if_false]
  | routing h ch w d tc f hr href hw hc =>
    have e := (rep_calcHash (Rep.routing h ch w d tc f hr href hw hc) hp).2
    cases tc with
    | false => simp [prune, importedRoot]
    | true =>
      have h1 : allNib.map (fun i => calcHash H (prune H (ch i))) = allNib.map (fun i => (prune H (ch i), PT.hash H (f i))) :=
        List.map_congr_left (fun i _ => hclean (hr i) (hp i).2)
      have key : rehash H (.routing (PT.hash H (.branch f)) (fun i => prune H (ch i)) w true false) =
          .routing (PT.hash H (.branch f)) (fun i => prune H (ch i)) w true false := by
        simp only [rehash, calcHash, if_true, h1, List.map_map, Function.comp_def, ofList_map_allNib', List.flatMap_map]
        simp [PT.hash, hw]
      simp only [prune, if_true, e, key, importedRoot, WN.hashField, ne_eq, not_true_eq_false, if_false]

/-- 2. `import_spec`: `Deserialize` of the export of `n` rebuilds exactly `prune H n`, root flagged dirty -/
theorem import_spec (hlen : ∀ x, (H x).length = 32) {P : PT → Prop} {n : WN} {t : PT} (h : Rep H P n t)
    (hp : Proper n) (hu : DirtyUp n) (hok : PTOK t) (hnil : n.isNil = false) (hemp : n ≠ .empty) :
    importPairs H ((collectNodes H n).2.map (fun b => PairD.ofBytes (some b))) =
      .ok (some (importedRoot (prune H n))) := by
  rw [collect_spec hlen h hp hu, map_ofBytes_enc _ (hpieces_wf hlen h hok)]
  have hne : (hpieces H n t).map PairD.ok ≠ [] := by
    cases h with
    | nil => simp [WN.isNil] at hnil
    | routing h ch w d tc f hr href hw hc => cases tc <;> simp [hpieces]
    | _ => simp [hpieces]
  have hd := deser_pieces hlen h hp hok hnil hemp (((hpieces H n t).map PairD.ok).length + 1) [] (by simp)
  simp only [List.append_nil] at hd
  exact root_check h hp _ [] hne hd

/-- the empty trie: one nil-node pair is exported, and the importer rebuilds the empty trie -/
theorem import_spec_empty :
    importPairs H ((collectNodes H .empty).2.map (fun b => PairD.ofBytes (some b))) = .ok (some .empty) := by
  have e : PairD.ofBytes (some (Cbor.encBase { nilNode := true })) = .ok { nilNode := true } :=
    ofBytes_encBase _ nilNode_wf
  simp [collectNodes, serializeP, e, importPairs, deserializeTrie, deserializeNode]

/-- a nil root (Go: `t.root == nil`) exports no pair, and `Deserialize` of no pairs leaves the trie alone -/
theorem import_spec_nil :
    importPairs H ((collectNodes H .nil).2.map (fun b => PairD.ofBytes (some b))) = .ok none := by
  simp [collectNodes, importPairs]

/-- `import_spec` including the empty trie -/
theorem import_spec' (hlen : ∀ x, (H x).length = 32) {P : PT → Prop} {n : WN} {t : PT} (h : Rep H P n t)
    (hp : Proper n) (hu : DirtyUp n) (hok : PTOK t) (hnil : n.isNil = false) :
    importPairs H ((collectNodes H n).2.map (fun b => PairD.ofBytes (some b))) =
      .ok (some (importedRoot (prune H n))) := by
  by_cases hemp : n = .empty
  · subst hemp; exact import_spec_empty
  · exact import_spec hlen h hp hu hok hnil hemp

/-! ### 5. byte level: `GetPath`'s CBOR output through `Deserialize` -/

/-- 5. `Deserialize` (on any trie object `t0`) of the CBOR encoding of the export installs `prune H n` as the root.
    The two size hypotheses are those of the CBOR round trip of the pair list (every serialized node and the number of
    nodes fit a 64-bit length). -/
theorem import_bytes (hlen : ∀ x, (H x).length = 32) {P : PT → Prop} {n : WN} {t : PT} (h : Rep H P n t)
    (hp : Proper n) (hu : DirtyUp n) (hok : PTOK t) (hnil : n.isNil = false)
    (hsz : ∀ b ∈ (collectNodes H n).2, b.length < 2 ^ 64) (hcnt : (collectNodes H n).2.length < 2 ^ 64) (t0 : WT) :
    importTrie H t0 (Cbor.encTrie (collectNodes H n).2) =
      ({ t0 with root := importedRoot (prune H n) }, .ok ()) := by
  have e : ((collectNodes H n).2.map some).map PairD.ofBytes =
      (collectNodes H n).2.map (fun b => PairD.ofBytes (some b)) := by
    rw [List.map_map]; rfl
  simp only [importTrie, Cbor.decTrie_encTrie _ hsz hcnt, e, import_spec' hlen h hp hu hok hnil]

/-- C12 for the imported trie object: it represents the source's spec tree, `Root()` is the source's root hash, and
    every marked key of full length is free of references -/
theorem export_import (hlen : ∀ x, (H x).length = 32) {P : PT → Prop} {n : WN} {t : PT} (h : Rep H P n t)
    (hp : Proper n) (hu : DirtyUp n) (hok : PTOK t) (hnil : n.isNil = false) :
    ∃ r, importPairs H ((collectNodes H n).2.map (fun b => PairD.ofBytes (some b))) = .ok (some r) ∧
      RepP H r t ∧ Proper r ∧ NoEmp r ∧ r.weight = n.weight ∧ (calcHash H r).2 = PT.hash H t ∧
      ∀ (m : Nat) (key : List Nib), Uniform m t → key.length = m → Marked n key → Clear r key := by
  obtain ⟨h1, h2, h3, h4, h5⟩ := importedRoot_prune_rep h hp
  exact ⟨_, import_spec' hlen h hp hu hok hnil, h1, h2, h3, h4, h5, fun m key hm hk hmk => prune_clear_root h m key hm hk hmk⟩

end
end Verif.Wmpt
