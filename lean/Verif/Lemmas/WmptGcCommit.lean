/-
GC safety (C11 with DeleteNodes passes): what `Root()`, `Commit(collapseLevel)` and `DeleteNodes()` do to the lists of
Verif.Lemmas.WmptGcDefs (`NL`, `cl`, `dirtyHashes`, `dirtyCached`) and to the GC queues of the trie.

  1. `mem_NL_iff`, `NL_length32`
  2. `NL_perm`          : every occurrence of the spec tree is held by a clean node / reference or by a dirty node
  3. `cl_sub`, `cl_sub_NL`
  4. `cl_calcHash`, `dirtyHashes_calcHash`, `dirtyCached_calcHash` and the `rootHash` corollaries
  5. `commitNode_created`, `commitNode_superseded` (and the `commitKid` forms)
  6. `commit_dirty_queues`, `commit_clean_eq`, `commit_dirtyCached`, `commit_cl`
  7. `deleteNodes_*`, `storedAll_deleteNodes`, `pad32_*`
Core Lean only.
-/
import Verif.Lemmas.WmptGcDefs
import Verif.Lemmas.WmptDirtyUp
import Verif.Lemmas.WmptOps
namespace Verif.Wmpt
open RepMore

section
variable {H : Bytes → Bytes}

/-! ### 0. small facts -/

theorem gc_dirtyUp_of_upDirty : ∀ {n : WN}, UpDirty n → DirtyUp n
  | .nil, _ => trivial
  | .empty, _ => trivial
  | .hashRef _ _, _ => trivial
  | .value _ _ _ _, _ => trivial
  | .short _ _ c _ _, h => (gc_dirtyUp_of_upDirty (n := c) h.2 : DirtyUp c)
  | .routing _ _ _ _ _, h => ⟨h.1, fun i => gc_dirtyUp_of_upDirty (h.2 i)⟩

private theorem flatMap_congr_allNib {α : Type} {f g : Nib → List α} (h : ∀ i, f i = g i) :
    allNib.flatMap f = allNib.flatMap g := by
  have : f = g := funext h
  rw [this]

private theorem flatMap_eq_nil_allNib {α : Type} {f : Nib → List α} (h : ∀ i, f i = []) : allNib.flatMap f = [] := by
  rw [List.flatMap_eq_nil_iff]
  exact fun i _ => h i

private theorem perm_flatMap_append {α β : Type} (l : List α) {f g k : α → List β}
    (h : ∀ a ∈ l, (f a).Perm (g a ++ k a)) : (l.flatMap f).Perm (l.flatMap g ++ l.flatMap k) := by
  induction l with
  | nil => exact List.Perm.refl _
  | cons a tl ih =>
    simp only [List.flatMap_cons]
    have h1 := h a List.mem_cons_self
    have h2 := ih (fun b hb => h b (List.mem_cons_of_mem _ hb))
    refine (List.Perm.append h1 h2).trans ?_
    -- (g a ++ k a) ++ (G ++ K) ~ (g a ++ G) ++ (k a ++ K)
    rw [List.append_assoc, List.append_assoc]
    refine List.Perm.append_left _ ?_
    rw [← List.append_assoc, ← List.append_assoc]
    exact List.Perm.append_right _ List.perm_append_comm

private theorem mem_ite_nil {a h : Bytes} {c : Prop} [Decidable c] (hm : a ∈ (if c then [] else [h])) : a ∈ [h] := by
  by_cases hc : c
  · rw [if_pos hc] at hm; cases hm
  · rw [if_neg hc] at hm; exact hm

private theorem mem_allNib (i : Nib) : i ∈ allNib := by simp [allNib]

/-- a node that is not dirty has no dirty node below it (`UpDirty`): nothing to write -/
theorem dirtyHashes_of_clean : ∀ {n : WN} (t : PT), UpDirty n → n.dirty = false → dirtyHashes H n t = [] := by
  intro n
  induction n with
  | nil => intros; rfl
  | empty => intros; rfl
  | hashRef h w => intros; rfl
  | value h v w d => intro t _ hd; simp only [WN.dirty] at hd; subst hd; rfl
  | short k h c d tc ih =>
    intro t hu hd
    simp only [WN.dirty] at hd; subst hd
    simp only [dirtyHashes, Bool.false_eq_true, if_false, List.nil_append]
    exact ih _ hu.2 (hu.1 rfl)
  | routing h ch w d tc ih =>
    intro t hu hd
    simp only [WN.dirty] at hd; subst hd
    simp only [dirtyHashes, Bool.false_eq_true, if_false, List.nil_append]
    exact flatMap_eq_nil_allNib (fun i => ih i _ (hu.2 i) (hu.1 rfl i))

theorem dirtyCached_of_clean : ∀ {n : WN}, UpDirty n → n.dirty = false → dirtyCached n = [] := by
  intro n
  induction n with
  | nil => intros; rfl
  | empty => intros; rfl
  | hashRef h w => intros; rfl
  | value h v w d => intro _ hd; simp only [WN.dirty] at hd; subst hd; rfl
  | short k h c d tc ih =>
    intro hu hd
    simp only [WN.dirty] at hd; subst hd
    simp only [dirtyCached, Bool.false_eq_true, if_false, List.nil_append]
    exact ih hu.2 (hu.1 rfl)
  | routing h ch w d tc ih =>
    intro hu hd
    simp only [WN.dirty] at hd; subst hd
    simp only [dirtyCached, Bool.false_eq_true, if_false, List.nil_append]
    exact flatMap_eq_nil_allNib (fun i => ih i (hu.2 i) (hu.1 rfl i))

theorem dirtyCached_of_allClean : ∀ {n : WN}, AllClean n → dirtyCached n = [] := by
  intro n
  induction n with
  | nil => intros; rfl
  | empty => intros; rfl
  | hashRef h w => intros; rfl
  | value h v w d => intro hc; simp only [AllClean] at hc; subst hc; rfl
  | short k h c d tc ih =>
    intro hc
    obtain ⟨rfl, hc⟩ := hc
    simp only [dirtyCached, Bool.false_eq_true, if_false, List.nil_append]
    exact ih hc
  | routing h ch w d tc ih =>
    intro hc
    obtain ⟨rfl, hc⟩ := hc
    simp only [dirtyCached, Bool.false_eq_true, if_false, List.nil_append]
    exact flatMap_eq_nil_allNib (fun i => ih i (hc i))

/-- a node that is not dirty (a saved node, a reference, nil, the empty trie) holds its whole subtree clean -/
theorem cl_eq_NL_of_clean {P : PT → Prop} {n : WN} {t : PT} (h : Rep H P n t) (hd : n.dirty = false) :
    cl H n t = NL H t := by
  cases h with
  | nil => rfl
  | empty => rfl
  | ref t _ _ => rfl
  | value h v w d hc => simp only [WN.dirty] at hd; subst hd; rfl
  | short k h c d tc tc' _ hc => simp only [WN.dirty] at hd; subst hd; rfl
  | routing h ch w d tc f _ _ _ hc => simp only [WN.dirty] at hd; subst hd; rfl

/-! ### 1. `NL` -/

theorem mem_NL_iff {t : PT} {h : Bytes} :
    h ∈ NL H t ↔ ∃ x, PT.Sub x t ∧ x.isNone = false ∧ h = PT.hash H x := by
  induction t with
  | none =>
    simp only [NL, List.not_mem_nil, PT.Sub, false_iff]
    rintro ⟨x, rfl, hx, _⟩
    simp [PT.isNone] at hx
  | value v w =>
    simp only [NL, List.mem_singleton, PT.Sub]
    constructor
    · intro e; exact ⟨_, rfl, rfl, e⟩
    · rintro ⟨x, rfl, _, e⟩; exact e
  | short k c ih =>
    simp only [NL, List.mem_cons, PT.Sub, ih]
    constructor
    · rintro (e | ⟨x, hx, hn, e⟩)
      · exact ⟨_, Or.inl rfl, rfl, e⟩
      · exact ⟨x, Or.inr hx, hn, e⟩
    · rintro ⟨x, (rfl | hx), hn, e⟩
      · exact Or.inl e
      · exact Or.inr ⟨x, hx, hn, e⟩
  | branch f ih =>
    simp only [NL, List.mem_cons, PT.Sub, List.mem_flatMap]
    constructor
    · rintro (e | ⟨i, _, hi⟩)
      · exact ⟨_, Or.inl rfl, rfl, e⟩
      · obtain ⟨x, hx, hn, e⟩ := (ih i).mp hi
        exact ⟨x, Or.inr ⟨i, hx⟩, hn, e⟩
    · rintro ⟨x, (rfl | ⟨i, hx⟩), hn, e⟩
      · exact Or.inl e
      · exact Or.inr ⟨i, mem_allNib i, (ih i).mpr ⟨x, hx, hn, e⟩⟩

theorem NL_length32 (hlen : ∀ x, (H x).length = 32) {t : PT} : ∀ h ∈ NL H t, h.length = 32 := by
  intro h hh
  obtain ⟨x, _, _, rfl⟩ := mem_NL_iff.mp hh
  exact PT.hash_length H hlen x

theorem NL_of_isNone {t : PT} (h : t.isNone = true) : NL H t = [] := by
  cases t <;> simp [PT.isNone] at h
  rfl

/-! ### 2. every occurrence is held clean or dirty -/

theorem NL_perm {P : PT → Prop} {n : WN} {t : PT} (h : Rep H P n t) :
    Proper n → UpDirty n → (NL H t).Perm (cl H n t ++ dirtyHashes H n t) := by
  induction h with
  | nil => intro _ _; exact List.Perm.refl _
  | empty => intro _ _; exact List.Perm.refl _
  | ref t _ _ => intro _ _; simp only [cl, dirtyHashes, List.append_nil]; exact List.Perm.refl _
  | value h v w d hc =>
    intro _ _
    cases d with
    | false => simp only [cl, dirtyHashes, Bool.false_eq_true, if_false, List.append_nil]; exact List.Perm.refl _
    | true => simp only [cl, dirtyHashes, if_true, List.nil_append, NL]; exact List.Perm.refl _
  | short k h c d tc tc' hr hc ih =>
    intro hp hu
    cases d with
    | false =>
      have e := dirtyHashes_of_clean (H := H) tc' hu.2 (hu.1 rfl)
      simp only [cl, dirtyHashes, Bool.false_eq_true, if_false, PT.shortChild, e, List.append_nil]
      exact List.Perm.refl _
    | true =>
      have ih' := ih hp.2.2.2 hu.2
      simp only [cl, dirtyHashes, if_true, PT.shortChild, NL]
      refine (List.Perm.cons _ ih').trans ?_
      exact (List.perm_middle (l₁ := cl H c tc') (l₂ := dirtyHashes H c tc') (a := PT.hash H (.short k tc'))).symm
  | routing h ch w d tc f hr href hw hc ih =>
    intro hp hu
    cases d with
    | false =>
      have e : allNib.flatMap (fun i => dirtyHashes H (ch i) (f i)) = [] :=
        flatMap_eq_nil_allNib (fun i => dirtyHashes_of_clean (f i) (hu.2 i) (hu.1 rfl i))
      simp only [cl, dirtyHashes, Bool.false_eq_true, if_false, PT.kid, e, List.append_nil]
      exact List.Perm.refl _
    | true =>
      have ih' := perm_flatMap_append allNib (f := fun i => NL H (f i)) (g := fun i => cl H (ch i) (f i))
        (k := fun i => dirtyHashes H (ch i) (f i)) (fun i _ => ih i (hp i).2 (hu.2 i))
      simp only [cl, dirtyHashes, if_true, PT.kid, NL]
      refine (List.Perm.cons _ ih').trans ?_
      exact (List.perm_middle (l₁ := allNib.flatMap (fun i => cl H (ch i) (f i)))
        (l₂ := allNib.flatMap (fun i => dirtyHashes H (ch i) (f i))) (a := PT.hash H (.branch f))).symm

/-! ### 3. what is held clean lies inside a tree that satisfies `P` -/

theorem cl_sub {P : PT → Prop} {n : WN} {t : PT} (h : Rep H P n t) :
    ∀ hh ∈ cl H n t, ∃ y x, P y ∧ PT.Sub x y ∧ x.isNone = false ∧ hh = PT.hash H x := by
  have key : ∀ (y : PT), P y → ∀ hh ∈ NL H y, ∃ y x, P y ∧ PT.Sub x y ∧ x.isNone = false ∧ hh = PT.hash H x := by
    intro y hy hh hm
    obtain ⟨x, hx, hn, e⟩ := mem_NL_iff.mp hm
    exact ⟨y, x, hy, hx, hn, e⟩
  induction h with
  | nil => intro hh hm; cases hm
  | empty => intro hh hm; cases hm
  | ref t _ hp => exact key t hp
  | value h v w d hc =>
    cases d with
    | false => exact key _ (hc rfl).2
    | true => intro hh hm; cases hm
  | short k h c d tc tc' hr hc ih =>
    cases d with
    | false => exact key _ (hc rfl).2
    | true => exact ih
  | routing h ch w d tc f hr href hw hc ih =>
    cases d with
    | false => exact key _ (hc rfl).2
    | true =>
      intro hh hm
      simp only [cl, if_true, PT.kid, List.mem_flatMap] at hm
      obtain ⟨i, _, hi⟩ := hm
      exact ih i hh hi

/-- the instance of the GC invariant: what the live trie holds clean is a node of the last committed trie -/
theorem cl_sub_NL {tc : PT} {n : WN} {t : PT} (h : Rep H (fun x => PT.Sub x tc) n t) :
    ∀ hh ∈ cl H n t, hh ∈ NL H tc := by
  intro hh hm
  obtain ⟨y, x, hy, hx, hn, e⟩ := cl_sub h hh hm
  exact mem_NL_iff.mpr ⟨x, hx.trans hy, hn, e⟩

/-! ### 4. `CalcHash` / `Root()` -/

theorem cl_calcHash (n : WN) : ∀ t, cl H (calcHash H n).1 t = cl H n t := by
  induction n with
  | nil => intro t; rfl
  | empty => intro t; rfl
  | hashRef h w => intro t; rfl
  | value h v w d => intro t; cases d <;> rfl
  | short k h c d tc ih =>
    intro t
    cases d with
    | false => rfl
    | true =>
      by_cases hn : c.isNil = true
      · cases c <;> simp [WN.isNil] at hn
        simp [calcHash, WN.isNil, cl]
      · simp only [calcHash, hn, if_true, Bool.false_eq_true, if_false, cl, ih]
  | routing h ch w d tc ih =>
    intro t
    cases d with
    | false => rfl
    | true =>
      simp only [calcHash, if_true, cl, List.map_map, Function.comp_def, ofList_map_allNib, ih]

theorem dirtyHashes_calcHash (n : WN) : ∀ t, dirtyHashes H (calcHash H n).1 t = dirtyHashes H n t := by
  induction n with
  | nil => intro t; rfl
  | empty => intro t; rfl
  | hashRef h w => intro t; rfl
  | value h v w d => intro t; cases d <;> rfl
  | short k h c d tc ih =>
    intro t
    cases d with
    | false => rfl
    | true =>
      by_cases hn : c.isNil = true
      · cases c <;> simp [WN.isNil] at hn
        simp [calcHash, WN.isNil, dirtyHashes]
      · simp only [calcHash, hn, if_true, Bool.false_eq_true, if_false, dirtyHashes, ih]
  | routing h ch w d tc ih =>
    intro t
    cases d with
    | false => rfl
    | true =>
      simp only [calcHash, if_true, dirtyHashes, List.map_map, Function.comp_def, ofList_map_allNib, ih]

/-- after `Root()` every dirty node caches its current hash -/
theorem dirtyCached_calcHash {P : PT → Prop} {n : WN} {t : PT} (h : Rep H P n t) :
    Proper n → UpDirty n → dirtyCached (calcHash H n).1 = dirtyHashes H n t := by
  induction h with
  | nil => intro _ _; rfl
  | empty => intro _ _; rfl
  | ref t _ _ => intro _ _; rfl
  | value h v w d hc => intro _ _; cases d <;> rfl
  | short k h c d tc tc' hr hc ih =>
    intro hp hu
    cases d with
    | false =>
      have hcd := hu.1 rfl
      simp only [calcHash, Bool.false_eq_true, if_false, dirtyCached, dirtyHashes, List.nil_append, PT.shortChild,
        dirtyCached_of_clean hu.2 hcd, dirtyHashes_of_clean (H := H) tc' hu.2 hcd]
    | true =>
      obtain ⟨hnil, _, _, hpc⟩ := hp
      have e2 := (rep_calcHash hr hpc).2
      simp only [calcHash, hnil, if_true, Bool.false_eq_true, if_false, dirtyCached, dirtyHashes, PT.shortChild,
        ih hpc hu.2, e2, PT.hash]
  | routing h ch w d tc f hr href hw hc ih =>
    intro hp hu
    cases d with
    | false =>
      have e1 : allNib.flatMap (fun i => dirtyCached (ch i)) = [] :=
        flatMap_eq_nil_allNib (fun i => dirtyCached_of_clean (hu.2 i) (hu.1 rfl i))
      have e2 : allNib.flatMap (fun i => dirtyHashes H (ch i) (f i)) = [] :=
        flatMap_eq_nil_allNib (fun i => dirtyHashes_of_clean (f i) (hu.2 i) (hu.1 rfl i))
      simp only [calcHash, Bool.false_eq_true, if_false, dirtyCached, dirtyHashes, List.nil_append, PT.kid, e1, e2]
    | true =>
      have e2 : allNib.flatMap (fun i => (calcHash H (ch i)).2) = allNib.flatMap (fun i => PT.hash H (f i)) :=
        flatMap_congr_allNib (fun i => (rep_calcHash (hr i) (hp i).2).2)
      have e3 : allNib.flatMap (fun i => dirtyCached (calcHash H (ch i)).1) =
          allNib.flatMap (fun i => dirtyHashes H (ch i) (f i)) :=
        flatMap_congr_allNib (fun i => ih i (hp i).2 (hu.2 i))
      simp only [calcHash, if_true, dirtyCached, dirtyHashes, PT.kid, List.map_map, Function.comp_def,
        ofList_map_allNib, List.flatMap_map, e2, e3, PT.hash, hw]

theorem cl_rootHash (t : WT) (ts : PT) : cl H (rootHash H t).1.root ts = cl H t.root ts := by
  unfold rootHash
  split
  · exact cl_calcHash t.root ts
  · rfl

theorem dirtyHashes_rootHash (t : WT) (ts : PT) :
    dirtyHashes H (rootHash H t).1.root ts = dirtyHashes H t.root ts := by
  unfold rootHash
  split
  · exact dirtyHashes_calcHash t.root ts
  · rfl

theorem dirtyCached_rootHash {P : PT → Prop} (t : WT) {ts : PT} (h : Rep H P t.root ts) (hp : Proper t.root)
    (hu : UpDirty t.root) : dirtyCached (rootHash H t).1.root = dirtyHashes H t.root ts := by
  unfold rootHash
  split
  · exact dirtyCached_calcHash h hp hu
  · rename_i hd
    have hd' : t.root.dirty = false := by simpa using hd
    simp only [dirtyCached_of_clean hu hd', dirtyHashes_of_clean (H := H) ts hu hd']

theorem rootHash_queues (t : WT) :
    (rootHash H t).1.tempDeleted = t.tempDeleted ∧ (rootHash H t).1.deleted = t.deleted ∧
    (rootHash H t).1.pending = t.pending ∧ (rootHash H t).1.store = t.store ∧ (rootHash H t).1.hasDb = t.hasDb := by
  unfold rootHash
  split <;> exact ⟨rfl, rfl, rfl, rfl, rfl⟩

/-! ### 5. `commitNode`: what is listed as created and as superseded -/

theorem commitNode_routing_created (collapse : Int) (lvl : Nat) (h : Bytes) (ch : Nib → WN) (w : Nat) (tc : Bool) :
    (commitNode H collapse lvl (.routing h ch w true tc)).created =
      allNib.flatMap (fun i => (commitKid H collapse (lvl + 1) (ch i)).created) ++
        [(saveNode H (.routing h (fun i => (commitKid H collapse (lvl + 1) (ch i)).node) w true tc)).1.hashField H] := by
  simp [commitNode, commitKid, List.map_map, Function.comp_def, ofList_map_allNib', List.flatMap_map]

theorem commitNode_routing_superseded (collapse : Int) (lvl : Nat) (h : Bytes) (ch : Nib → WN) (w : Nat) (tc : Bool) :
    (commitNode H collapse lvl (.routing h ch w true tc)).superseded =
      allNib.flatMap (fun i => (commitKid H collapse (lvl + 1) (ch i)).superseded) ++
        (if h = (saveNode H (.routing h (fun i => (commitKid H collapse (lvl + 1) (ch i)).node) w true tc)).1.hashField H
          then [] else [h]) := by
  simp [commitNode, commitKid, List.map_map, Function.comp_def, ofList_map_allNib', List.flatMap_map]

/-- what part 5 says about a result `r` of committing the node `n` that stands for `t` -/
def CreatedOK (H : Bytes → Bytes) (n : WN) (t : PT) (r : CRes) : Prop :=
  (∀ hh ∈ dirtyHashes H n t, hh ∈ r.created) ∧ (∀ hh ∈ r.superseded, hh ∈ dirtyCached n)

theorem createdOK_clean {n : WN} (t : PT) (hu : UpDirty n) (hd : n.dirty = false) : CreatedOK H n t { node := n } := by
  refine ⟨fun hh hm => ?_, fun hh hm => ?_⟩
  · rw [dirtyHashes_of_clean t hu hd] at hm; cases hm
  · cases hm

/-- the per-child step (`commitKid`): from the statement about `commitNode` on the child -/
theorem createdOK_kid (collapse : Int) (lvl : Nat) {c : WN} (t : PT) (hu : UpDirty c)
    (ih : CreatedOK H c t (commitNode H collapse lvl c)) : CreatedOK H c t (commitKid H collapse lvl c) := by
  unfold commitKid
  split
  · rename_i hc
    have hd : c.dirty = false := by
      cases c <;> simp_all [WN.isNil, WN.dirty]
    exact createdOK_clean t hu hd
  · exact ih

theorem commitNode_createdOK (hlen : ∀ x, (H x).length = 32) (collapse : Int) {s : Store} {n : WN} {t : PT}
    (h : RepS H s n t) : ∀ lvl, Proper n → UpDirty n → CreatedOK H n t (commitNode H collapse lvl n) := by
  induction h with
  | nil => intro lvl _ hu; rw [commitNode_clean collapse lvl _ rfl]; exact createdOK_clean _ hu rfl
  | empty => intro lvl _ hu; rw [commitNode_clean collapse lvl _ rfl]; exact createdOK_clean _ hu rfl
  | ref t hn hpt => intro lvl _ hu; rw [commitNode_clean collapse lvl _ rfl]; exact createdOK_clean _ hu rfl
  | value h v w d hc =>
    intro lvl hp hu
    cases d with
    | false => rw [commitNode_clean collapse lvl _ rfl]; exact createdOK_clean _ hu rfl
    | true =>
      simp only [commitNode, Bool.not_true, Bool.false_eq_true, if_false, saveNode_value_rep, CreatedOK, WN.hashField,
        dirtyHashes, dirtyCached, if_true]
      exact ⟨fun hh hm => hm, fun hh hm => mem_ite_nil hm⟩
  | short k h c d tc tc' hr hc ih =>
    intro lvl hp hu
    cases d with
    | false => rw [commitNode_clean collapse lvl _ rfl]; exact createdOK_clean _ hu rfl
    | true =>
      obtain ⟨hnil, hemp, _, hpc⟩ := hp
      obtain ⟨i1, _⟩ := commitNode_ok hlen collapse hr (lvl + 1) hpc
      obtain ⟨c1, c2⟩ := ih (lvl + 1) hpc hu.2
      have hne : tc'.isNone = false := hr.isNone_false hnil hemp
      have hnil' := (i1.1.not_nil_empty hne).1
      have e := saveNode_short_rep hlen k h tc i1.1 i1.2.1 hnil'
      simp only [commitNode, Bool.not_true, Bool.false_eq_true, if_false, hnil, e, CreatedOK, WN.hashField,
        dirtyHashes, dirtyCached, if_true, PT.shortChild]
      refine ⟨fun hh hm => ?_, fun hh hm => ?_⟩
      · rcases List.mem_append.mp hm with hm | hm
        · exact List.mem_append_right _ hm
        · exact List.mem_append_left _ (c1 hh hm)
      · rcases List.mem_append.mp hm with hm | hm
        · exact List.mem_append_right _ (c2 hh hm)
        · exact List.mem_append_left _ (mem_ite_nil hm)
  | routing h ch w d tc f hr href hw hc ih =>
    intro lvl hp hu
    cases d with
    | false => rw [commitNode_clean collapse lvl _ rfl]; exact createdOK_clean _ hu rfl
    | true =>
      obtain ⟨e, _⟩ := commitOK_kids collapse (lvl + 1) h tc hr hp href hw
        (fun i hpi => commitNode_ok hlen collapse (hr i) (lvl + 1) hpi)
      have hk : ∀ i, CreatedOK H (ch i) (f i) (commitKid H collapse (lvl + 1) (ch i)) := fun i =>
        createdOK_kid collapse (lvl + 1) (f i) (hu.2 i) (ih i (lvl + 1) (hp i).2 (hu.2 i))
      unfold CreatedOK
      rw [commitNode_routing_created, commitNode_routing_superseded, e]
      simp only [WN.hashField, dirtyHashes, dirtyCached, if_true, PT.kid]
      refine ⟨fun hh hm => ?_, fun hh hm => ?_⟩
      · rcases List.mem_append.mp hm with hm | hm
        · exact List.mem_append_right _ hm
        · obtain ⟨i, hi, hm⟩ := List.mem_flatMap.mp hm
          exact List.mem_append_left _ (List.mem_flatMap.mpr ⟨i, hi, (hk i).1 hh hm⟩)
      · rcases List.mem_append.mp hm with hm | hm
        · obtain ⟨i, hi, hm⟩ := List.mem_flatMap.mp hm
          exact List.mem_append_right _ (List.mem_flatMap.mpr ⟨i, hi, (hk i).2 hh hm⟩)
        · exact List.mem_append_left _ (mem_ite_nil hm)

/-- every dirty node is saved and its new hash listed as created (also a branch collapsed at the collapse level,
    fix e0c8e87) -/
theorem commitNode_created (hlen : ∀ x, (H x).length = 32) (collapse : Int) (lvl : Nat) {s : Store} {n : WN} {t : PT}
    (h : RepS H s n t) (hp : Proper n) (hu : UpDirty n) :
    ∀ hh ∈ dirtyHashes H n t, hh ∈ (commitNode H collapse lvl n).created :=
  (commitNode_createdOK hlen collapse h lvl hp hu).1

/-- only old cached hashes of dirty nodes are queued as superseded -/
theorem commitNode_superseded (hlen : ∀ x, (H x).length = 32) (collapse : Int) (lvl : Nat) {s : Store} {n : WN} {t : PT}
    (h : RepS H s n t) (hp : Proper n) (hu : UpDirty n) :
    ∀ hh ∈ (commitNode H collapse lvl n).superseded, hh ∈ dirtyCached n :=
  (commitNode_createdOK hlen collapse h lvl hp hu).2

theorem commitKid_created (hlen : ∀ x, (H x).length = 32) (collapse : Int) (lvl : Nat) {s : Store} {n : WN} {t : PT}
    (h : RepS H s n t) (hp : Proper n) (hu : UpDirty n) :
    ∀ hh ∈ dirtyHashes H n t, hh ∈ (commitKid H collapse lvl n).created :=
  (createdOK_kid collapse lvl t hu (commitNode_createdOK hlen collapse h lvl hp hu)).1

theorem commitKid_superseded (hlen : ∀ x, (H x).length = 32) (collapse : Int) (lvl : Nat) {s : Store} {n : WN} {t : PT}
    (h : RepS H s n t) (hp : Proper n) (hu : UpDirty n) :
    ∀ hh ∈ (commitKid H collapse lvl n).superseded, hh ∈ dirtyCached n :=
  (createdOK_kid collapse lvl t hu (commitNode_createdOK hlen collapse h lvl hp hu)).2

/-- the GC invariant's `Rep` (over "is a node of the committed trie `tc`") is a `RepS` once `tc` is stored -/
theorem gc_storedAll_sub {s : Store} {t x : PT} (h : StoredAll H s t) (hx : PT.Sub x t) : StoredAll H s x := by
  induction t with
  | none => simp only [PT.Sub] at hx; subst hx; trivial
  | value v w => simp only [PT.Sub] at hx; subst hx; exact h
  | short k c ih =>
    rcases hx with rfl | hx
    · exact h
    · exact ih h.2 hx
  | branch ch ih =>
    rcases hx with rfl | ⟨i, hx⟩
    · exact h
    · exact ih i (h.2 i) hx

theorem repS_of_repSub {s : Store} {tc : PT} {n : WN} {t : PT} (h : Rep H (fun x => PT.Sub x tc) n t)
    (hs : StoredAll H s tc) : RepS H s n t :=
  h.mono (fun _ _ hx => gc_storedAll_sub hs hx)

/-! ### 6. `Commit(collapseLevel)` -/

/-- clean root: the pending queue is moved; when there were pending changes (the root is the clean empty node after the
    deletion of every key) the list of created nodes is emptied, otherwise it is kept -/
theorem commit_clean_eq (collapse : Int) (t : WT) (hd : t.root.dirty = false) :
    (commit H t collapse).1 = { t with tempDeleted := t.tempDeleted ++ t.pending, pending := [],
                                        created := if t.pending.isEmpty then t.created else [] } ∧
    (commit H t collapse).2 = [] := by
  simp only [commit, hd, Bool.not_false, if_true, and_true]
  cases t.pending.isEmpty <;> rfl

theorem gc_commit_pending (collapse : Int) (t : WT) : (commit H t collapse).1.pending = [] := by
  unfold commit
  simp only
  split
  · split <;> rfl
  · rfl

/-- dirty root: the queues after `Commit`, in terms of the created list `cr` and the superseded list `sup` of the run -/
theorem commit_dirty_queues (hlen : ∀ x, (H x).length = 32) (collapse : Int) (t : WT) {ts : PT}
    (h : RepS H t.store t.root ts) (hp : Proper t.root) (hu : UpDirty t.root) (hd : t.root.dirty = true) :
    ∃ cr sup : List Bytes,
      (commit H t collapse).1.tempDeleted =
        eraseAll (t.tempDeleted ++ t.pending ++ sup.filter (fun h => h ≠ [])) cr ∧
      (commit H t collapse).1.deleted = eraseAll t.deleted (cr.map pad32) ∧
      (commit H t collapse).1.pending = [] ∧
      (∀ hh ∈ dirtyHashes H t.root ts, hh ∈ cr) ∧ (∀ hh ∈ sup, hh ∈ dirtyCached t.root) := by
  obtain ⟨root, hasDb, store, oldRoot, deleted, tempDeleted, pending, created⟩ := t
  simp only at h hp hu hd
  cases h with
  | nil => simp [WN.dirty] at hd
  | empty => simp [WN.dirty] at hd
  | ref _ _ _ => simp [WN.dirty] at hd
  | value hh v w d hc =>
    have ok := commitNode_createdOK hlen collapse (Rep.value hh v w d hc) 0 hp hu
    refine ⟨(commitNode H collapse 0 (.value hh v w d)).created, (commitNode H collapse 0 (.value hh v w d)).superseded,
      ?_, ?_, ?_, ok.1, ok.2⟩ <;> simp only [commit, hd, Bool.not_true, Bool.false_eq_true, if_false]
  | short k hh c d tc tc' hr hc =>
    have ok := commitNode_createdOK hlen collapse (Rep.short k hh c d tc tc' hr hc) 0 hp hu
    refine ⟨(commitNode H collapse 0 (.short k hh c d tc)).created,
      (commitNode H collapse 0 (.short k hh c d tc)).superseded,
      ?_, ?_, ?_, ok.1, ok.2⟩ <;> simp only [commit, hd, Bool.not_true, Bool.false_eq_true, if_false]
  | routing hh ch w d tc f hr href hw hc =>
    simp only [WN.dirty] at hd; subst hd
    have hdd : (WN.routing hh ch w true tc).dirty = true := rfl
    obtain ⟨e, _⟩ := commitOK_kids collapse 1 hh tc hr hp href hw
      (fun i hpi => commitNode_ok hlen collapse (hr i) 1 hpi)
    have hk : ∀ i, CreatedOK H (ch i) (f i) (commitKid H collapse 1 (ch i)) := fun i =>
      createdOK_kid collapse 1 (f i) (hu.2 i) (commitNode_createdOK hlen collapse (hr i) 1 (hp i).2 (hu.2 i))
    refine ⟨allNib.flatMap (fun i => (commitKid H collapse 1 (ch i)).created) ++ [PT.hash H (.branch f)],
      hh :: allNib.flatMap (fun i => (commitKid H collapse 1 (ch i)).superseded), ?_, ?_, ?_, ?_, ?_⟩
    · simp only [commitKid] at e ⊢
      simp only [commit, hdd, Bool.not_true, Bool.false_eq_true, if_false, List.map_map, Function.comp_def,
        ofList_map_allNib', List.flatMap_map, e, WN.hashField]
    · simp only [commitKid] at e ⊢
      simp only [commit, hdd, Bool.not_true, Bool.false_eq_true, if_false, List.map_map, Function.comp_def,
        ofList_map_allNib', List.flatMap_map, e, WN.hashField]
    · simp only [commit, hdd, Bool.not_true, Bool.false_eq_true, if_false]
    · intro x hm
      simp only [dirtyHashes, if_true, PT.kid] at hm
      rcases List.mem_append.mp hm with hm | hm
      · exact List.mem_append_right _ hm
      · obtain ⟨i, hi, hm⟩ := List.mem_flatMap.mp hm
        exact List.mem_append_left _ (List.mem_flatMap.mpr ⟨i, hi, (hk i).1 x hm⟩)
    · intro x hm
      simp only [dirtyCached, if_true]
      rcases List.mem_cons.mp hm with rfl | hm
      · exact List.mem_append_left _ List.mem_cons_self
      · obtain ⟨i, hi, hm⟩ := List.mem_flatMap.mp hm
        exact List.mem_append_right _ (List.mem_flatMap.mpr ⟨i, hi, (hk i).2 x hm⟩)

/-- after `Commit` no dirty node is left in memory: the next `Commit` queues nothing -/
theorem commit_dirtyCached (collapse : Int) (t : WT) (hp : Proper t.root) (hu : UpDirty t.root) :
    dirtyCached (commit H t collapse).1.root = [] :=
  dirtyCached_of_allClean (commit_allClean H t collapse (gc_dirtyUp_of_upDirty hu) hp)

theorem commit_dirtyHashes (collapse : Int) (t : WT) (ts : PT) (hu : UpDirty t.root) :
    dirtyHashes H (commit H t collapse).1.root ts = [] :=
  dirtyHashes_of_clean ts (upDirty_commit collapse t hu).2 (upDirty_commit collapse t hu).1

/-- after `Commit` the trie in memory holds every occurrence of its spec tree clean -/
theorem commit_cl (hlen : ∀ x, (H x).length = 32) (collapse : Int) (t : WT) {ts : PT}
    (h : RepS H t.store t.root ts) (hp : Proper t.root) : cl H (commit H t collapse).1.root ts = NL H ts := by
  obtain ⟨node, puts, e1, _, _, hc⟩ := commit_ok hlen collapse t h hp
  rw [e1]
  exact cl_eq_NL_of_clean hc.1 hc.2.1

/-- the same from any representation of the result (e.g. the one of `rep_commit_self`) -/
theorem commit_cl_of_rep {P : PT → Prop} (collapse : Int) (t : WT) {ts : PT} (hu : UpDirty t.root)
    (h : Rep H P (commit H t collapse).1.root ts) : cl H (commit H t collapse).1.root ts = NL H ts :=
  cl_eq_NL_of_clean h (upDirty_commit collapse t hu).1

/-! ### 7. `DeleteNodes()` and `pad32` -/

theorem gc_deleteNodes_store (t : WT) : (deleteNodes t).1.store = t.store.apply (t.deleted.map StoreOp.del) := rfl

theorem gc_deleteNodes_batch (t : WT) : (deleteNodes t).2 = t.deleted.map StoreOp.del := rfl

theorem mem_deleteNodes_deleted (t : WT) {h : Bytes} :
    h ∈ (deleteNodes t).1.deleted ↔ h ∈ t.tempDeleted.map pad32 := by
  simp only [deleteNodes, List.mem_eraseDups]

theorem gc_deleteNodes_tempDeleted (t : WT) : (deleteNodes t).1.tempDeleted = [] := rfl

theorem gc_deleteNodes_pending (t : WT) : (deleteNodes t).1.pending = t.pending := rfl

theorem gc_deleteNodes_hasDb (t : WT) : (deleteNodes t).1.hasDb = t.hasDb := rfl

/-- keys that are not node hashes of `tc` can be deleted -/
theorem storedAll_deleteNodes (t : WT) {tc : PT} (hs : StoredAll H t.store tc)
    (hk : ∀ k ∈ t.deleted, k ∉ NL H tc) : StoredAll H (deleteNodes t).1.store tc := by
  refine StoredAll.of_sub (fun x hx hn hg => ?_) hs
  rw [gc_deleteNodes_store, get_apply_dels _ _ _ (fun hm => hk _ hm (mem_NL_iff.mpr ⟨x, hx, hn, rfl⟩))]
  exact hg

theorem pad32_length (h : Bytes) : (pad32 h).length = 32 := by
  simp only [pad32, List.length_take, List.length_append, List.length_replicate]
  omega

theorem pad32_pad32 (h : Bytes) : pad32 (pad32 h) = pad32 h := pad32_of_length _ (pad32_length h)

theorem pad32_eq_self {h : Bytes} (hl : h.length = 32) : pad32 h = h := pad32_of_length h hl

theorem pad32_nil : pad32 [] = zeros32 := by
  simp [pad32, zeros32]

end
end Verif.Wmpt
