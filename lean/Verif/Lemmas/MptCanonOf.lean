/-
`canonOf`: an independent construction of the canonical state trie from a finite content (association list with
distinct paths and non-empty values), NOT defined through `insert`/`delete`:

  * no entry                     → the empty trie
  * exactly one entry (p, b)     → a leaf with the remaining path p
  * every path starts with the same nibble i → descend into the tails, accumulating i in the common prefix
  * otherwise                    → a branch (its value is the value of the empty remaining path, child i is built from the
                                   tails of the paths starting with i), wrapped in an extension carrying the accumulated
                                   common prefix when that prefix is non-empty.

`buildP_spec` shows the result is canonical (`WFn`), single-origin and looks up exactly the content; with the
uniqueness of the canonical form this identifies it with the trie reached by any history.  Core Lean only.
-/
import Verif.Lemmas.MptCanon
import Verif.Lemmas.MptHistory
namespace Verif.Mpt

abbrev Entry := List Nib × Bytes

/-- association-list lookup (first match) -/
def alookup : List Entry → List Nib → Option Bytes
  | [], _ => none
  | e :: l, q => if e.1 = q then some e.2 else alookup l q

/-- a finite content: distinct paths, non-empty values -/
def Good (l : List Entry) : Prop := l.Pairwise (fun a b => a.1 ≠ b.1) ∧ ∀ e ∈ l, e.2 ≠ []

/-- the entries whose path starts with `i`, with that nibble removed -/
def sub (l : List Entry) (i : Nib) : List Entry :=
  l.filterMap (fun e => match e.1 with
    | j :: r => if j = i then some (r, e.2) else none
    | [] => none)

/-- `some i` iff every path is non-empty and starts with `i` (for a non-empty list) -/
def sharedHead (l : List Entry) : Option Nib :=
  match l with
  | ((i :: _), _) :: _ => if l.all (fun e => e.1.head? == some i) then some i else none
  | _ => none

def wrapE (v : Nat) (acc : List Nib) (n : Node) : Node :=
  match acc with
  | [] => n
  | _ :: _ => .ext v acc n

/-- the canonical trie of the content `l` below the accumulated common prefix `acc` (`fuel` bounds the path lengths) -/
def buildP (v : Nat) : Nat → List Nib → List Entry → Node
  | _, _, [] => .empty
  | _, acc, [(p, b)] => .leaf v (acc ++ p) b
  | 0, _, _ :: _ :: _ => .empty
  | f + 1, acc, e₁ :: e₂ :: r =>
    match sharedHead (e₁ :: e₂ :: r) with
    | some i => buildP v f (acc ++ [i]) (sub (e₁ :: e₂ :: r) i)
    | none =>
      wrapE v acc (.full v (fun i => buildP v f [] (sub (e₁ :: e₂ :: r) i)) (alookup (e₁ :: e₂ :: r) []))

def maxLen : List Entry → Nat
  | [] => 0
  | e :: l => max e.1.length (maxLen l)

/-- **the canonical trie of a finite content** (all nodes written at version `v`) -/
def canonOf (v : Nat) (l : List Entry) : Node := buildP v (maxLen l) [] l

/-! ### association lists -/

theorem alookup_mem {l : List Entry} {q : List Nib} {b : Bytes} (h : alookup l q = some b) : (q, b) ∈ l := by
  induction l with
  | nil => cases h
  | cons e l ih =>
    simp only [alookup] at h
    split at h
    · rename_i he; cases h; subst he; exact List.mem_cons_self
    · exact List.mem_cons_of_mem _ (ih h)

theorem alookup_isSome_of_mem {l : List Entry} {e : Entry} (h : e ∈ l) : ∃ b, alookup l e.1 = some b := by
  induction l with
  | nil => cases h
  | cons e' l ih =>
    simp only [alookup]
    by_cases he : e'.1 = e.1
    · exact ⟨e'.2, by simp [he]⟩
    · rcases List.mem_cons.mp h with rfl | h'
      · exact absurd rfl he
      · simp only [he, if_false]; exact ih h'

theorem mem_sub {l : List Entry} {i : Nib} {e : Entry} : e ∈ sub l i ↔ (i :: e.1, e.2) ∈ l := by
  unfold sub
  rw [List.mem_filterMap]
  constructor
  · rintro ⟨a, ha, hf⟩
    obtain ⟨p, b⟩ := a
    cases p with
    | nil => simp at hf
    | cons j r =>
      simp only at hf
      split at hf
      · rename_i hj; cases hf; subst hj; exact ha
      · cases hf
  · intro h
    exact ⟨(i :: e.1, e.2), h, by simp⟩

theorem alookup_sub (l : List Entry) (i : Nib) (r : List Nib) : alookup (sub l i) r = alookup l (i :: r) := by
  induction l with
  | nil => rfl
  | cons e l ih =>
    obtain ⟨p, b⟩ := e
    cases p with
    | nil => simpa [sub, alookup] using ih
    | cons j p' =>
      by_cases hj : j = i
      · subst hj
        have : sub ((j :: p', b) :: l) j = (p', b) :: sub l j := by simp [sub]
        rw [this]
        simp only [alookup, List.cons.injEq, true_and]
        rw [ih]
      · have : sub ((j :: p', b) :: l) i = sub l i := by simp [sub, hj]
        rw [this, ih]
        simp [alookup, hj]

theorem good_sub {l : List Entry} (h : Good l) (i : Nib) : Good (sub l i) := by
  refine ⟨?_, fun e he => h.2 (i :: e.1, e.2) (mem_sub.mp he)⟩
  unfold sub
  refine List.Pairwise.filterMap _ ?_ h.1
  intro a a' hne b hb b' hb'
  obtain ⟨p, x⟩ := a
  obtain ⟨p', x'⟩ := a'
  cases p with
  | nil => simp at hb
  | cons j r =>
    cases p' with
    | nil => simp at hb'
    | cons j' r' =>
      simp only at hb hb'
      split at hb
      · split at hb'
        · cases hb; cases hb'
          rename_i h1 h2
          intro hr
          apply hne
          simp only at hr ⊢
          rw [h1, h2, hr]
        · cases hb'
      · cases hb

theorem good_tail {e : Entry} {l : List Entry} (h : Good (e :: l)) : Good l :=
  ⟨(List.pairwise_cons.mp h.1).2, fun x hx => h.2 x (List.mem_cons_of_mem _ hx)⟩

theorem maxLen_le {l : List Entry} {e : Entry} (h : e ∈ l) : e.1.length ≤ maxLen l := by
  induction l with
  | nil => cases h
  | cons e' l ih =>
    simp only [maxLen]
    rcases List.mem_cons.mp h with rfl | h'
    · exact Nat.le_max_left _ _
    · exact Nat.le_trans (ih h') (Nat.le_max_right _ _)

theorem sharedHead_some {l : List Entry} {i : Nib} (h : sharedHead l = some i) :
    ∀ e ∈ l, ∃ r, e.1 = i :: r := by
  unfold sharedHead at h
  split at h
  · rename_i j _ _ _
    split at h
    · rename_i hall
      cases h
      intro e he
      have := List.all_eq_true.mp hall e he
      cases hp : e.1 with
      | nil => simp [hp] at this
      | cons a r => simp [hp] at this; exact ⟨r, by rw [this]⟩
    · cases h
  · cases h

theorem sharedHead_none {l : List Entry} (hl : l ≠ []) (h : sharedHead l = none) :
    (∃ e ∈ l, e.1 = []) ∨
      (∃ e₁ ∈ l, ∃ e₂ ∈ l, ∃ i j r s, e₁.1 = i :: r ∧ e₂.1 = j :: s ∧ i ≠ j) := by
  cases l with
  | nil => exact absurd rfl hl
  | cons e l' =>
    obtain ⟨p, b⟩ := e
    cases p with
    | nil => exact Or.inl ⟨_, List.mem_cons_self, rfl⟩
    | cons i r =>
      simp only [sharedHead] at h
      split at h
      · cases h
      · rename_i hall
        by_cases hex : ∃ x ∈ ((i :: r, b) :: l'), x.1.head? ≠ some i
        · obtain ⟨x, hx, hne⟩ := hex
          cases hp : x.1 with
          | nil => exact Or.inl ⟨x, hx, hp⟩
          | cons j s =>
            refine Or.inr ⟨(i :: r, b), List.mem_cons_self, x, hx, i, j, r, s, rfl, hp, ?_⟩
            intro hij; apply hne; rw [hp, hij]; rfl
        · exfalso
          apply hall
          rw [List.all_eq_true]
          intro x hx
          by_cases hh : x.1.head? = some i
          · simp [hh]
          · exact absurd ⟨x, hx, hh⟩ hex

/-! ### counting children from below -/

theorem countCh_ge_one {ch : Nib → Node} {i : Nib} (hi : (ch i).isEmpty = false) : 1 ≤ countCh ch := by
  unfold countCh
  exact List.countP_pos_iff.mpr ⟨i, List.mem_finRange i, by simp [hi]⟩

theorem length_ge_two_of_mem {α : Type} {l : List α} {a b : α} (ha : a ∈ l) (hb : b ∈ l) (hab : a ≠ b) :
    2 ≤ l.length := by
  match l, ha, hb with
  | [], ha, _ => cases ha
  | [x], ha, hb =>
    simp only [List.mem_singleton] at ha hb
    exact absurd (ha.trans hb.symm) hab
  | _ :: _ :: _, _, _ => simp

theorem countCh_ge_two {ch : Nib → Node} {i j : Nib} (hij : i ≠ j) (hi : (ch i).isEmpty = false)
    (hj : (ch j).isEmpty = false) : 2 ≤ countCh ch := by
  unfold countCh
  rw [List.countP_eq_length_filter]
  exact length_ge_two_of_mem (a := i) (b := j)
    (List.mem_filter.mpr ⟨List.mem_finRange i, by simp [hi]⟩)
    (List.mem_filter.mpr ⟨List.mem_finRange j, by simp [hj]⟩) hij

/-! ### the builder is canonical and has the content -/

theorem lookup_full_eq {v : Nat} {ch : Nib → Node} {l : List Entry} (hg : Good l)
    (hch : ∀ i r, lookup (ch i) r = alookup (sub l i) r) :
    ∀ r, lookup (.full v ch (alookup l [])) r = alookup l r := by
  intro r
  cases r with
  | nil =>
    rw [lookup_full_nil_c]
    cases hv : alookup l [] with
    | none => rfl
    | some b =>
      have hb : b ≠ [] := hg.2 ([], b) (alookup_mem hv)
      simp [hb]
  | cons i r' => rw [lookup_full_cons_c, hch, alookup_sub]

theorem buildP_spec (v : Nat) : ∀ (f : Nat) (acc : List Nib) (l : List Entry), Good l → (∀ e ∈ l, e.1.length ≤ f) →
    (l ≠ [] → WFn (buildP v f acc l)) ∧ AllOrigin v (buildP v f acc l) ∧
      (∀ r, lookup (buildP v f acc l) (acc ++ r) = alookup l r) ∧
      (∀ q b, lookup (buildP v f acc l) q = some b → ∃ r, q = acc ++ r) := by
  intro f acc l
  fun_induction buildP v f acc l with
  | case1 f acc =>
    intro _ _
    exact ⟨fun h => absurd rfl h, by simp [AllOrigin], fun r => by simp [alookup], fun q b h => by simp at h⟩
  | case2 f acc p b =>
    intro hg _
    have hb : b ≠ [] := hg.2 (p, b) List.mem_cons_self
    refine ⟨fun _ => by simpa [WFn] using hb, by simp [AllOrigin], fun r => ?_, fun q b' h => ?_⟩
    · rw [lookup_leaf]
      simp only [alookup, List.append_cancel_left_eq, hb, if_false]
      by_cases hr : r = p
      · simp [hr]
      · have : ¬ p = r := fun h => hr h.symm
        simp [hr, this]
    · rw [lookup_leaf] at h
      by_cases hq : q = acc ++ p
      · exact ⟨p, hq⟩
      · simp [hq] at h
  | case3 acc e₁ e₂ r =>
    intro hg hlen
    exfalso
    have h1 := hlen e₁ List.mem_cons_self
    have h2 := hlen e₂ (List.mem_cons_of_mem _ List.mem_cons_self)
    have hne := (List.pairwise_cons.mp hg.1).1 e₂ List.mem_cons_self
    apply hne
    rw [List.eq_nil_of_length_eq_zero (Nat.le_zero.mp h1), List.eq_nil_of_length_eq_zero (Nat.le_zero.mp h2)]
  | case4 f acc e₁ e₂ r i hsh ih =>
    intro hg hlen
    have hall := sharedHead_some hsh
    have hlen' : ∀ e ∈ sub (e₁ :: e₂ :: r) i, e.1.length ≤ f := by
      intro e he
      have := hlen _ (mem_sub.mp he)
      simp only [List.length_cons] at this
      omega
    obtain ⟨r₁, hr₁⟩ := hall e₁ List.mem_cons_self
    have hsubne : sub (e₁ :: e₂ :: r) i ≠ [] := by
      have : (r₁, e₁.2) ∈ sub (e₁ :: e₂ :: r) i := mem_sub.mpr (by rw [← hr₁]; exact List.mem_cons_self)
      intro h; rw [h] at this; cases this
    obtain ⟨ih1, ih2, ih3, ih4⟩ := ih (good_sub hg i) hlen'
    refine ⟨fun _ => ih1 hsubne, ih2, fun q => ?_, fun q b h => ?_⟩
    · -- lookup at acc ++ q
      have hnone : ∀ q', (∀ r', q' ≠ i :: r') →
          lookup (buildP v f (acc ++ [i]) (sub (e₁ :: e₂ :: r) i)) (acc ++ q') = alookup (e₁ :: e₂ :: r) q' := by
        intro q' hq'
        have h1 : alookup (e₁ :: e₂ :: r) q' = none := by
          cases hv : alookup (e₁ :: e₂ :: r) q' with
          | none => rfl
          | some b =>
            obtain ⟨r', hr'⟩ := hall _ (alookup_mem hv)
            exact absurd hr' (hq' r')
        have h2 : lookup (buildP v f (acc ++ [i]) (sub (e₁ :: e₂ :: r) i)) (acc ++ q') = none := by
          cases hv : lookup (buildP v f (acc ++ [i]) (sub (e₁ :: e₂ :: r) i)) (acc ++ q') with
          | none => rfl
          | some b =>
            obtain ⟨r', hr'⟩ := ih4 _ _ hv
            rw [List.append_assoc] at hr'
            exact absurd (List.append_cancel_left hr') (hq' r')
        rw [h1, h2]
      cases q with
      | nil => exact hnone [] (fun r' h => by cases h)
      | cons j q' =>
        by_cases hj : j = i
        · subst hj
          have := ih3 q'
          rw [List.append_assoc] at this
          rw [show [j] ++ q' = j :: q' from rfl] at this
          rw [this, alookup_sub]
        · exact hnone (j :: q') (fun r' h => by injection h with h1 _; exact hj h1)
    · obtain ⟨r', hr'⟩ := ih4 q b h
      exact ⟨i :: r', by rw [hr', List.append_assoc]; rfl⟩
  | case5 f acc e₁ e₂ r hsh ih =>
    intro hg hlen
    have hlen' : ∀ i, ∀ e ∈ sub (e₁ :: e₂ :: r) i, e.1.length ≤ f := by
      intro i e he
      have := hlen _ (mem_sub.mp he)
      simp only [List.length_cons] at this
      omega
    have ihs := fun i => ih i (good_sub hg i) (hlen' i)
    -- children
    have hchild : ∀ {i : Nib} {p : List Nib} {b : Bytes}, (i :: p, b) ∈ (e₁ :: e₂ :: r) →
        (buildP v f [] (sub (e₁ :: e₂ :: r) i)).isEmpty = false := by
      intro i p b hm
      have hne : sub (e₁ :: e₂ :: r) i ≠ [] := by
        have : (p, b) ∈ sub (e₁ :: e₂ :: r) i := mem_sub.mpr hm
        intro h; rw [h] at this; cases this
      exact wf_not_isEmpty ((ihs i).1 hne)
    have hlook := lookup_full_eq (v := v) (ch := fun i => buildP v f [] (sub (e₁ :: e₂ :: r) i)) hg
      (fun i r' => by simpa using (ihs i).2.2.1 r')
    have hwf : WFn (.full v (fun i => buildP v f [] (sub (e₁ :: e₂ :: r) i)) (alookup (e₁ :: e₂ :: r) [])) := by
      simp only [WFn]
      refine ⟨fun i => ?_, fun b hb => hg.2 _ (alookup_mem hb), ?_⟩
      · by_cases hs : sub (e₁ :: e₂ :: r) i = []
        · left; rw [hs]; cases f <;> rfl
        · right; exact (ihs i).1 hs
      · rcases sharedHead_none (by simp) hsh with ⟨e, he, hp⟩ | ⟨x₁, hx₁, x₂, hx₂, i, j, s₁, s₂, h1, h2, hij⟩
        · -- an entry with empty path, and another entry with a non-empty one
          obtain ⟨b, hb⟩ := alookup_isSome_of_mem he
          rw [hp] at hb
          have hne := (List.pairwise_cons.mp hg.1).1 e₂ List.mem_cons_self
          have : ∃ (j : Nib) (s : List Nib) (b' : Bytes), (j :: s, b') ∈ (e₁ :: e₂ :: r) := by
            cases h1 : e₁.1 with
            | cons j s => exact ⟨j, s, e₁.2, by rw [← h1]; exact List.mem_cons_self⟩
            | nil =>
              cases h2 : e₂.1 with
              | cons j s => exact ⟨j, s, e₂.2, by rw [← h2]; exact List.mem_cons_of_mem _ List.mem_cons_self⟩
              | nil => exact absurd (h1.trans h2.symm) hne
          obtain ⟨j, s, b', hm⟩ := this
          have := countCh_ge_one (ch := fun i => buildP v f [] (sub (e₁ :: e₂ :: r) i)) (hchild hm)
          simp only [entryCount, hb, Option.isSome_some, if_true]
          omega
        · have hm₁ : (i :: s₁, x₁.2) ∈ (e₁ :: e₂ :: r) := by rw [← h1]; exact hx₁
          have hm₂ : (j :: s₂, x₂.2) ∈ (e₁ :: e₂ :: r) := by rw [← h2]; exact hx₂
          have := countCh_ge_two (ch := fun i => buildP v f [] (sub (e₁ :: e₂ :: r) i)) hij (hchild hm₁) (hchild hm₂)
          simp only [entryCount]
          omega
    have hor : AllOrigin v (.full v (fun i => buildP v f [] (sub (e₁ :: e₂ :: r) i)) (alookup (e₁ :: e₂ :: r) [])) := by
      simp only [AllOrigin, true_and]
      exact fun i => (ihs i).2.1
    cases acc with
    | nil =>
      simp only [wrapE, List.nil_append]
      exact ⟨fun _ => hwf, hor, hlook, fun q _ _ => ⟨q, rfl⟩⟩
    | cons a acc' =>
      simp only [wrapE]
      refine ⟨fun _ => ?_, ?_, fun q => ?_, fun q b h => ?_⟩
      · simp only [WFn]; exact ⟨by simp, rfl, hwf⟩
      · exact ⟨rfl, hor⟩
      · rw [lookup_ext_append_c _ _ _ (by simp)]; exact hlook q
      · obtain ⟨q', hq', _⟩ := lookup_ext_some h
        exact ⟨q', hq'⟩

/-- the independent builder yields a canonical, single-origin trie with exactly the given content -/
theorem canonOf_spec (v : Nat) {l : List Entry} (hg : Good l) :
    WF (canonOf v l) ∧ AllOrigin v (canonOf v l) ∧ ∀ q, lookup (canonOf v l) q = alookup l q := by
  obtain ⟨h1, h2, h3, _⟩ := buildP_spec v (maxLen l) [] l hg (fun e he => maxLen_le he)
  refine ⟨?_, h2, fun q => by simpa [canonOf] using h3 q⟩
  by_cases hl : l = []
  · left; subst hl; rfl
  · right; exact h1 hl

/-- every canonical single-origin trie with content `l` IS `canonOf v l` -/
theorem eq_canonOf {v : Nat} {t : Node} {l : List Entry} (hg : Good l) (hw : WF t) (ho : AllOrigin v t)
    (h : ∀ q, lookup t q = alookup l q) : t = canonOf v l := by
  obtain ⟨h1, h2, h3⟩ := canonOf_spec v hg
  exact canon_unique hw h1 ho h2 (fun q => by rw [h, h3])

/-! ### the content of a history as a finite list -/

def eraseKey (p : List Nib) (l : List Entry) : List Entry := l.filter (fun e => decide (e.1 ≠ p))

/-- the effect of one exported operation on the finite content (mirrors `stepMap`) -/
def lstep (maxSize : Nat) (l : List Entry) : Op → List Entry
  | .ins p b =>
    if b = [] then eraseKey p l
    else if b.length > maxSize then l
    else (p, b) :: eraseKey p l
  | .del p => eraseKey p l

def contentListFrom (maxSize : Nat) (l : List Entry) (ops : List Op) : List Entry := ops.foldl (lstep maxSize) l

/-- the finite content after `ops` (starting from the empty content) -/
def contentList (maxSize : Nat) (ops : List Op) : List Entry := contentListFrom maxSize [] ops

theorem alookup_eraseKey (p : List Nib) (l : List Entry) (q : List Nib) :
    alookup (eraseKey p l) q = if q = p then none else alookup l q := by
  induction l with
  | nil => simp [eraseKey, alookup]
  | cons e l ih =>
    unfold eraseKey at ih ⊢
    by_cases he : e.1 = p
    · have : List.filter (fun e => decide (e.1 ≠ p)) (e :: l) = List.filter (fun e => decide (e.1 ≠ p)) l := by
        simp [he]
      rw [this, ih]
      by_cases hq : q = p
      · simp [hq]
      · have : ¬ e.1 = q := fun h => hq (h.symm.trans he)
        simp [hq, alookup, this]
    · have : List.filter (fun e => decide (e.1 ≠ p)) (e :: l) = e :: List.filter (fun e => decide (e.1 ≠ p)) l := by
        simp [he]
      rw [this]
      simp only [alookup, ih]
      by_cases hq : q = p
      · simp [hq]
        intro h; exact absurd h he
      · simp [hq]

theorem good_eraseKey {l : List Entry} (h : Good l) (p : List Nib) : Good (eraseKey p l) :=
  ⟨List.Pairwise.filter _ h.1, fun e he => h.2 e (List.mem_filter.mp he).1⟩

theorem good_cons_eraseKey {l : List Entry} (h : Good l) (p : List Nib) {b : Bytes} (hb : b ≠ []) :
    Good ((p, b) :: eraseKey p l) := by
  have hg := good_eraseKey h p
  refine ⟨List.pairwise_cons.mpr ⟨fun e he => ?_, hg.1⟩, fun e he => ?_⟩
  · have := (List.mem_filter.mp he).2
    simp only [ne_eq, decide_not, Bool.not_eq_eq_eq_not, Bool.not_true, decide_eq_false_iff_not] at this
    exact fun h => this h.symm
  · rcases List.mem_cons.mp he with rfl | he'
    · exact hb
    · exact hg.2 e he'

theorem lstep_spec (maxSize : Nat) {l : List Entry} (hg : Good l) (op : Op) :
    Good (lstep maxSize l op) ∧ ∀ q, alookup (lstep maxSize l op) q = stepMap maxSize (alookup l) op q := by
  cases op with
  | del p => exact ⟨good_eraseKey hg p, fun q => by simp [lstep, stepMap, alookup_eraseKey]⟩
  | ins p b =>
    simp only [lstep, stepMap]
    by_cases hb : b = []
    · simp only [hb, if_true]; exact ⟨good_eraseKey hg p, fun q => alookup_eraseKey p l q⟩
    · simp only [hb, if_false]
      by_cases hs : b.length > maxSize
      · simp only [hs, if_true]; refine ⟨hg, ?_⟩; simp
      · simp only [hs, if_false]
        refine ⟨good_cons_eraseKey hg p hb, fun q => ?_⟩
        simp only [alookup, alookup_eraseKey]
        by_cases hq : q = p
        · simp [hq]
        · have : ¬ p = q := fun h => hq h.symm
          simp [hq, this]

theorem contentListFrom_spec (maxSize : Nat) (ops : List Op) : ∀ (l : List Entry) (m : Content), Good l →
    (∀ q, alookup l q = m q) →
    Good (contentListFrom maxSize l ops) ∧
      ∀ q, alookup (contentListFrom maxSize l ops) q = contentFrom maxSize m ops q := by
  induction ops with
  | nil => intro l m hg hm; exact ⟨hg, hm⟩
  | cons op ops ih =>
    intro l m hg hm
    simp only [contentListFrom, contentFrom, List.foldl_cons]
    obtain ⟨h1, h2⟩ := lstep_spec maxSize hg op
    refine ih _ _ h1 (fun q => ?_)
    rw [h2]
    have : alookup l = m := funext hm
    rw [this]

/-- the finite content of a history is a `Good` list representing the abstract content -/
theorem contentList_spec (maxSize : Nat) (ops : List Op) :
    Good (contentList maxSize ops) ∧ ∀ q, alookup (contentList maxSize ops) q = content maxSize ops q :=
  contentListFrom_spec maxSize ops [] (fun _ => none) ⟨List.Pairwise.nil, fun e he => by cases he⟩ (fun _ => rfl)

end Verif.Mpt
