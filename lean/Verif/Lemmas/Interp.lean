/-
Exhaustion: every trie of every forest the interpreter (`Forest.step`, Verif.Model.MptInterp) can reach has a history
that is a `TrieRun` — so the run-level theorems (`C04_complete_run`, `dead_not_live_run`, `run_resolves`) apply to every
history of the trie-building op language, not only to the event logs the harness checks.
-/
import Verif.Model.MptInterp
import Verif.Lemmas.TrieRun
import Verif.Lemmas.NotStuck
import Verif.Lemmas.MptEncInj
namespace Verif.MptStore
open Verif.Mpt Collector

/-! ### runs compose -/

theorem trieRun_append {H : Bytes → Bytes} {U : Ref → Prop} {Vok : Nat → Prop} {t t1 t2 : Node} {a b : List Event}
    (h1 : TrieRun H U Vok t a t1) (h2 : TrieRun H U Vok t1 b t2) : TrieRun H U Vok t (a ++ b) t2 := by
  induction h1 with
  | nil t => simpa using h2
  | own v t t1' t' es1 es hv hr hE _ ih =>
    rw [List.append_assoc]; exact TrieRun.own v t t1' t2 es1 (es ++ b) hv hr hE (ih h2)
  | merge t t2' t' c0 esC es cs hf hC hp hs _ _ ih =>
    rw [List.append_assoc]; exact TrieRun.merge t t2' t2 c0 esC (es ++ b) cs hf hC hp hs (ih h2)

/-! ### the state of a trie depends on its events only through collector and store -/

theorem applyEvent_congr (H : Bytes → Bytes) (e : Event) (T X : Trie) (hcc : T.cc = X.cc) (hdb : T.db = X.db) :
    (T.applyEvent H e).cc = (X.applyEvent H e).cc ∧ (T.applyEvent H e).db = (X.applyEvent H e).db := by
  cases e with
  | del o => simp [Trie.applyEvent, Trie.deleteNode, hcc, hdb]
  | put o n =>
    cases o with
    | none => simp [Trie.applyEvent, Trie.insertNode, hcc, hdb]
    | some o =>
      simp only [Trie.applyEvent, Trie.insertNode]
      by_cases h : o.key H = n.key H <;> simp [h, hcc, hdb]

theorem applyEvents_congr (H : Bytes → Bytes) (es : List Event) : ∀ (T X : Trie), T.cc = X.cc → T.db = X.db →
    (T.applyEvents H es).cc = (X.applyEvents H es).cc ∧ (T.applyEvents H es).db = (X.applyEvents H es).db := by
  induction es with
  | nil => intro T X h1 h2; exact ⟨h1, h2⟩
  | cons e es ih =>
    intro T X h1 h2
    obtain ⟨h3, h4⟩ := applyEvent_congr H e T X h1 h2
    exact ih _ _ h3 h4

theorem applyEvents_append (H : Bytes → Bytes) (T : Trie) (a b : List Event) :
    T.applyEvents H (a ++ b) = (T.applyEvents H a).applyEvents H b := by
  simp [Trie.applyEvents, List.foldl_append]

theorem startRoot_applyEvents (H : Bytes → Bytes) (es : List Event) : ∀ T : Trie,
    (T.applyEvents H es).cc.startRoot = T.cc.startRoot := by
  induction es with
  | nil => intro T; rfl
  | cons e es ih =>
    intro T
    have : T.applyEvents H (e :: es) = (T.applyEvent H e).applyEvents H es := rfl
    rw [this, ih]
    cases e with
    | del o =>
      simp only [Trie.applyEvent, Trie.deleteNode, deleteChange]
      split <;> rfl
    | put o n =>
      cases o with
      | none => simp [Trie.applyEvent, Trie.insertNode, addChange]
      | some o =>
        simp only [Trie.applyEvent, Trie.insertNode]
        split
        · rfl
        · simp only [addChange]
          split
          · split
            · split <;> rfl
            · rfl
          · rfl

/-! ### the root key determines the tree -/

theorem root_inj_on (H : Bytes → Bytes) (U : Ref → Prop) (hU : KeyInjOn H U) (hne : ∀ x, H x ≠ []) {t t' : Node}
    (hw : WF t) (hw' : WF t') (hu : ∀ r ∈ refs t [], U r) (hu' : ∀ r ∈ refs t' [], U r)
    (h : root H t = root H t') : t = t' := by
  have href : ∀ n : Node, n.isEmpty = false → (⟨[], n⟩ : Ref) ∈ refs n [] := by
    intro n hn
    cases n <;> simp [refs, Node.isEmpty] at hn ⊢
  cases he : t.isEmpty with
  | true =>
    cases he' : t'.isEmpty with
    | true => rw [eq_empty_of_isEmpty he, eq_empty_of_isEmpty he']
    | false =>
      rw [eq_empty_of_isEmpty he] at h
      exact absurd h.symm (by simpa [root, key] using key_ne_nil hne [] he')
  | false =>
    cases he' : t'.isEmpty with
    | true =>
      rw [eq_empty_of_isEmpty he'] at h
      exact absurd h (by simpa [root, key] using key_ne_nil hne [] he)
    | false =>
      have := hU ⟨[], t⟩ ⟨[], t'⟩ (hu _ (href t he)) (hu' _ (href t' he')) h
      exact (Ref.mk.injEq _ _ _ _ ▸ this).2

/-! ### histories -/

/-- the trie value `T` is a freshly opened trie on the canonical tree `t0` after the events `es`, which form a run
    ending in `T.tree` -/
def Hist (H : Bytes → Bytes) (U : Ref → Prop) (Vok : Nat → Prop) (T : Trie) : Prop :=
  ∃ (t0 : Node) (es : List Event) (v0 : Nat),
    T.cc = ((Trie.open (root H t0) t0 v0).applyEvents H es).cc ∧
    T.db = ((Trie.open (root H t0) t0 v0).applyEvents H es).db ∧
    TrieRun H U Vok t0 es T.tree ∧ T.root = root H T.tree ∧ WF t0 ∧ (∀ r ∈ refs t0 [], U r)

def Good (H : Bytes → Bytes) (U : Ref → Prop) (Vok : Nat → Prop) (f : Forest) : Prop :=
  ∀ e ∈ f.tries, Hist H U Vok e.2.2

theorem hist_tree_ok {H : Bytes → Bytes} {U : Ref → Prop} {Vok : Nat → Prop} (hU : KeyInjOn H U) {T : Trie}
    (h : Hist H U Vok T) : WF T.tree ∧ ∀ r ∈ refs T.tree [], U r := by
  obtain ⟨t0, es, v0, _, _, hrun, _, hw, hu⟩ := h
  obtain ⟨_, _, hw', _, hu'⟩ := trieRun_discipline H U hU hrun hw hu (fun x => x ∈ (refs t0 []).map (Ref.key H))
    (fun r hr => List.mem_map.mpr ⟨r, hr, rfl⟩)
    (by intro x hx; obtain ⟨r, hr, hk⟩ := List.mem_map.mp hx; exact ⟨r, hu r hr, hk⟩)
  exact ⟨hw', hu'⟩

/-- the side conditions of one op: the events of an own operation stay inside `U` and run at an allowed version;
    (a merge needs none: its ordering is never stuck, `trieRun_not_stuck`) -/
def StepIn (H : Bytes → Bytes) (ord : List (Change Ref) → List (Change Ref)) (U : Ref → Prop) (Vok : Nat → Prop)
    (f : Forest) : TOp → Prop
  | .ins id p b =>
    ∀ pid t, f.find id = some (pid, t) → Vok t.version ∧
      (if b = [] then ∀ r ∈ eventRefs (deleteE t.version t.tree [] p).2, U r
       else ∀ r ∈ eventRefs (insertE t.version b t.tree [] p).2, U r)
  | .del id p =>
    ∀ pid t, f.find id = some (pid, t) → Vok t.version ∧ ∀ r ∈ eventRefs (deleteE t.version t.tree [] p).2, U r
  | _ => True

/-! ### forest bookkeeping -/

theorem find_mem {f : Forest} {id pid : Nat} {t : Trie} (h : f.find id = some (pid, t)) : (id, pid, t) ∈ f.tries := by
  simp only [Forest.find, Option.map_eq_some_iff] at h
  obtain ⟨e, he, h2⟩ := h
  have hm := List.mem_of_find?_eq_some he
  have hid := List.find?_some he
  simp only [decide_eq_true_eq] at hid
  obtain ⟨i, p, t'⟩ := e
  simp only [Prod.mk.injEq] at h2
  obtain ⟨rfl, rfl⟩ := h2
  simp only at hid
  subst hid
  exact hm

theorem mem_set {f : Forest} {id : Nat} {t : Trie} {e : Nat × Nat × Trie} (h : e ∈ (f.set id t).tries) :
    e ∈ f.tries ∨ e.2.2 = t := by
  simp only [Forest.set, List.mem_map] at h
  obtain ⟨e0, he0, rfl⟩ := h
  by_cases hid : e0.1 = id
  · simp [hid]
  · simp [hid, he0]

theorem mem_close {f : Forest} {id : Nat} {e : Nat × Nat × Trie} (h : e ∈ (f.close id).tries) : e ∈ f.tries := by
  simp only [Forest.close, List.mem_filter] at h
  exact h.1

theorem good_set {H : Bytes → Bytes} {U : Ref → Prop} {Vok : Nat → Prop} {f : Forest} (hg : Good H U Vok f) (id : Nat)
    (t : Trie) (ht : Hist H U Vok t) : Good H U Vok (f.set id t) := by
  intro e he
  rcases mem_set he with h | h
  · exact hg e h
  · rw [h]; exact ht

theorem good_close {H : Bytes → Bytes} {U : Ref → Prop} {Vok : Nat → Prop} {f : Forest} (hg : Good H U Vok f) (id : Nat) :
    Good H U Vok (f.close id) := fun e he => hg e (mem_close he)

/-! ### own operations -/

theorem hist_extend {H : Bytes → Bytes} {U : Ref → Prop} {Vok : Nat → Prop} {T : Trie} (h : Hist H U Vok T)
    (es1 : List Event) (tree' : Node) (hrun : TrieRun H U Vok T.tree es1 tree') (T' : Trie)
    (hcc : T'.cc = (T.applyEvents H es1).cc) (hdb : T'.db = (T.applyEvents H es1).db)
    (htree : T'.tree = tree') (hroot : T'.root = root H tree') : Hist H U Vok T' := by
  obtain ⟨t0, es, v0, h1, h2, h3, _, hw, hu⟩ := h
  refine ⟨t0, es ++ es1, v0, ?_, ?_, ?_, ?_, hw, hu⟩
  · rw [hcc, applyEvents_append]; exact (applyEvents_congr H es1 _ _ h1 h2).1
  · rw [hdb, applyEvents_append]; exact (applyEvents_congr H es1 _ _ h1 h2).2
  · rw [htree]; exact trieRun_append h3 hrun
  · rw [hroot, htree]

theorem hist_insert {H : Bytes → Bytes} {U : Ref → Prop} {Vok : Nat → Prop} {T : Trie} (h : Hist H U Vok T)
    (p : List Nib) (b : Bytes) (hb : b ≠ []) (hv : Vok T.version)
    (hE : ∀ r ∈ eventRefs (insertE T.version b T.tree [] p).2, U r) : Hist H U Vok (T.insert H p b).1 := by
  have hr : RoundEvents T.version T.tree ((insertE T.version b T.tree [] p).2 ++ []) (insertE T.version b T.tree [] p).1 :=
    RoundEvents.ins _ _ _ _ _ hb (RoundEvents.nil _)
  have hrun : TrieRun H U Vok T.tree (insertE T.version b T.tree [] p).2 (insertE T.version b T.tree [] p).1 := by
    have := TrieRun.own (H := H) (U := U) (Vok := Vok) T.version _ _ _ _ [] hv hr (by simpa using hE) (TrieRun.nil _)
    simpa using this
  exact hist_extend h _ _ hrun _ rfl rfl rfl rfl

theorem hist_delete {H : Bytes → Bytes} {U : Ref → Prop} {Vok : Nat → Prop} {T : Trie} (h : Hist H U Vok T)
    (p : List Nib) (hv : Vok T.version) (hE : ∀ r ∈ eventRefs (deleteE T.version T.tree [] p).2, U r)
    (T' : Trie) (es : List Event) (hd : T.delete H p = (T', .ok, es)) : Hist H U Vok T' := by
  simp only [Trie.delete] at hd
  cases hE2 : deleteE T.version T.tree [] p with
  | mk res ev =>
    rw [hE2] at hd hE
    cases res with
    | notPresent => simp at hd
    | panic => simp at hd
    | removed =>
      simp only [Prod.mk.injEq] at hd
      obtain ⟨rfl, _, _⟩ := hd
      have hr : RoundEvents T.version T.tree (ev ++ []) .empty := RoundEvents.delLast _ _ _ _ _ hE2 (RoundEvents.nil _)
      have hrun : TrieRun H U Vok T.tree ev .empty := by
        have := TrieRun.own (H := H) (U := U) (Vok := Vok) T.version _ _ _ _ [] hv hr (by simpa using hE) (TrieRun.nil _)
        simpa using this
      exact hist_extend h _ _ hrun _ rfl rfl rfl rfl
    | node n =>
      simp only [Prod.mk.injEq] at hd
      obtain ⟨rfl, _, _⟩ := hd
      have hr : RoundEvents T.version T.tree (ev ++ []) n := RoundEvents.del _ _ _ _ _ _ hE2 (RoundEvents.nil _)
      have hrun : TrieRun H U Vok T.tree ev n := by
        have := TrieRun.own (H := H) (U := U) (Vok := Vok) T.version _ _ _ _ [] hv hr (by simpa using hE) (TrieRun.nil _)
        simpa using this
      exact hist_extend h _ _ hrun _ rfl rfl rfl rfl

/-! ### merge -/

theorem hist_merge {H : Bytes → Bytes} {U : Ref → Prop} {Vok : Nat → Prop} (hU : KeyInjOn H U) (hne : ∀ x, H x ≠ [])
    {p c : Trie} (hp : Hist H U Vok p) (hc : Hist H U Vok c) (cs : List (Change Ref)) (hperm : cs.Perm c.cc.getChanges)
    (p' : Trie) (hm : mergeMPTChangesOrd H p c cs = .ok p') : Hist H U Vok p' := by
  simp only [mergeMPTChangesOrd] at hm
  by_cases h1 : p.root = c.root
  · simp only [h1, if_true, MergeRes.ok.injEq] at hm; rw [← hm]; exact hp
  · simp only [h1, if_false, mergeChanges] at hm
    by_cases h2 : p.root ≠ c.cc.startRoot
    · simp [h2] at hm
    · simp only [h2, if_false, MergeRes.ok.injEq] at hm
      have h2' : p.root = c.cc.startRoot := by simpa using h2
      -- the state of p' is that of p after the merge events
      have hfold : ∀ (l : List (Change Ref)) (q : Trie),
          l.foldl (fun t c => t.insertNode H c.old c.new) q = q.applyEvents H (l.map (fun c => Event.put c.old c.new)) := by
        intro l
        induction l with
        | nil => intro q; rfl
        | cons c l ih => intro q; simp [Trie.applyEvents, Trie.applyEvent] at ih ⊢; exact ih _
      have hfold2 : ∀ (ds : List Ref) (q : Trie), ds.foldl (Trie.deleteNode H) q = q.applyEvents H (ds.map Event.del) := by
        intro ds
        induction ds with
        | nil => intro q; rfl
        | cons d ds ih => intro q; simp [Trie.applyEvents, Trie.applyEvent] at ih ⊢; exact ih _
      have hstate : ∀ q : Trie, (c.cc.getDeletes.foldl (Trie.deleteNode H)
          ((orderChanges H cs).foldl (fun t c => t.insertNode H c.old c.new) q))
          = q.applyEvents H (mergeEvents (orderChanges H cs) c.cc.getDeletes) := by
        intro q; rw [hfold, hfold2, mergeEvents, applyEvents_append]
      -- the child's run starts from the parent's current tree
      obtain ⟨t0c, esC, v0c, hc1, _, hcrun, _, hcw, hcu⟩ := hc
      obtain ⟨hpw, hpu⟩ := hist_tree_ok hU hp
      have hproot : p.root = root H p.tree := by obtain ⟨_, _, _, _, _, _, h, _, _⟩ := hp; exact h
      have hstart : c.cc.startRoot = root H t0c := by
        rw [hc1, startRoot_applyEvents]; rfl
      have ht0 : p.tree = t0c := root_inj_on H U hU hne hpw hcw hpu hcu (by rw [← hproot, h2', hstart])
      have hcroot : c.root = root H c.tree := by assumption
      -- package
      have hrun : TrieRun H U Vok p.tree (mergeEvents (orderChanges H cs) c.cc.getDeletes) c.tree := by
        have hperm' : cs.Perm ((Trie.open (root H t0c) t0c v0c).applyEvents H esC).cc.getChanges := by rw [← hc1]; exact hperm
        -- the ordering is never stuck on the collector of a trie that ran a TrieRun (Lemmas/NotStuck)
        have hstuck : orderStuck H cs = false :=
          trieRun_not_stuck H U hU hcrun hcw hcu (Trie.open (root H t0c) t0c v0c) ⟨rfl, rfl⟩ cs hperm'
        have := TrieRun.merge (H := H) (U := U) (Vok := Vok) p.tree c.tree c.tree (Trie.open (root H t0c) t0c v0c) esC [] cs
          ⟨rfl, rfl⟩ (by rw [ht0]; exact hcrun) hperm' hstuck (TrieRun.nil _)
        rw [← hc1] at this
        simpa using this
      rw [← hm]
      refine hist_extend hp _ _ hrun _ ?_ ?_ rfl ?_
      · simp only [hstate]
      · simp only [hstate]
      · exact hcroot

/-! ### the exhaustion theorem -/

theorem step_good (H : Bytes → Bytes) (ord : List (Change Ref) → List (Change Ref)) (hord : ∀ l, (ord l).Perm l)
    (U : Ref → Prop) (Vok : Nat → Prop) (hU : KeyInjOn H U) (hne : ∀ x, H x ≠ [])
    (f : Forest) (op : TOp) (hg : Good H U Vok f) (hin : StepIn H ord U Vok f op) : Good H U Vok (f.step H ord op).1 := by
  cases op with
  | child id pid =>
    simp only [Forest.step]
    cases hp : f.find pid with
    | none => simpa using hg
    | some pp =>
      obtain ⟨ppid, p⟩ := pp
      cases hc : f.find id with
      | some cc => simpa using hg
      | none =>
        simp only
        split
        · exact hg
        · intro e he
          simp only [List.mem_append, List.mem_singleton] at he
          rcases he with he | rfl
          · exact hg e he
          · have hph := hg _ (find_mem hp)
            obtain ⟨hpw, hpu⟩ := hist_tree_ok hU hph
            have hproot : p.root = root H p.tree := by obtain ⟨_, _, _, _, _, _, h, _, _⟩ := hph; exact h
            refine ⟨p.tree, [], p.version, ?_, ?_, TrieRun.nil _, hproot, hpw, hpu⟩
            · simp [Trie.applyEvents, hproot]
            · simp [Trie.applyEvents, hproot]
  | ins id p b =>
    simp only [Forest.step]
    cases hf : f.find id with
    | none => simpa using hg
    | some pt =>
      obtain ⟨pid, t⟩ := pt
      obtain ⟨hv, hE⟩ := hin pid t hf
      have hth := hg _ (find_mem hf)
      simp only
      by_cases hb : b = []
      · simp only [hb, if_true] at hE ⊢
        cases hd : t.delete H p with
        | mk t' r =>
          obtain ⟨o, es⟩ := r
          cases o with
          | ok => exact good_set hg id t' (hist_delete hth p hv hE t' es hd)
          | notPresent => exact hg
          | tooLarge => exact hg
          | panic => exact hg
      · simp only [hb, if_false] at hE ⊢
        exact good_set hg id _ (hist_insert hth p b hb hv hE)
  | del id p =>
    simp only [Forest.step]
    cases hf : f.find id with
    | none => simpa using hg
    | some pt =>
      obtain ⟨pid, t⟩ := pt
      obtain ⟨hv, hE⟩ := hin pid t hf
      have hth := hg _ (find_mem hf)
      simp only
      cases hd : t.delete H p with
      | mk t' r =>
        obtain ⟨o, es⟩ := r
        cases o with
        | ok => exact good_set hg id t' (hist_delete hth p hv hE t' es hd)
        | notPresent => exact hg
        | tooLarge => exact hg
        | panic => exact hg
  | merge id keep =>
    simp only [Forest.step]
    cases hf : f.find id with
    | none => simpa using hg
    | some pc =>
      obtain ⟨pid, c⟩ := pc
      simp only
      split
      · exact hg
      · cases hfp : f.find pid with
        | none => simpa using hg
        | some pp =>
          obtain ⟨ppid, p⟩ := pp
          simp only
          cases hm : mergeMPTChangesOrd H p c (ord c.cc.getChanges) with
          | stale => exact hg
          | ok p' =>
            have hp' := hist_merge hU hne (hg _ (find_mem hfp)) (hg _ (find_mem hf)) _ (hord _) p' hm
            simp only
            split
            · exact good_set hg pid p' hp'
            · exact good_close (good_set hg pid p' hp') id
  | discard id =>
    simp only [Forest.step]
    cases hf : f.find id with
    | none => simpa using hg
    | some pt =>
      simp only
      split
      · exact hg
      · exact good_close hg id
  | ver id v =>
    simp only [Forest.step]
    cases hf : f.find id with
    | none => simpa using hg
    | some pt =>
      obtain ⟨pid, t⟩ := pt
      obtain ⟨t0, es, v0, h1, h2, h3, h4, hw, hu⟩ := hg _ (find_mem hf)
      exact good_set hg id _ ⟨t0, es, v0, h1, h2, h3, h4, hw, hu⟩

/-- side conditions along a whole op list -/
def RunIn (H : Bytes → Bytes) (ord : List (Change Ref) → List (Change Ref)) (U : Ref → Prop) (Vok : Nat → Prop) :
    Forest → List TOp → Prop
  | _, [] => True
  | f, op :: ops => StepIn H ord U Vok f op ∧ RunIn H ord U Vok (f.step H ord op).1 ops

/-- **Exhaustion.**  Starting from a forest whose tries have run histories (e.g. one freshly opened block trie), every
    trie of every forest reached by the trie-building ops has a history that is a `TrieRun`. -/
theorem interp_is_trieRun (H : Bytes → Bytes) (ord : List (Change Ref) → List (Change Ref)) (hord : ∀ l, (ord l).Perm l)
    (U : Ref → Prop) (Vok : Nat → Prop) (hU : KeyInjOn H U) (hne : ∀ x, H x ≠ []) (ops : List TOp) :
    ∀ f : Forest, Good H U Vok f → RunIn H ord U Vok f ops → Good H U Vok (f.run H ord ops) := by
  induction ops with
  | nil => intro f hg _; exact hg
  | cons op ops ih =>
    intro f hg hin
    exact ih _ (step_good H ord hord U Vok hU hne f op hg hin.1) hin.2

/-- a freshly opened block trie on a canonical tree inside `U` has the empty history -/
theorem good_init (H : Bytes → Bytes) (U : Ref → Prop) (Vok : Nat → Prop) (t0 : Node) (v : Nat) (hw : WF t0)
    (hu : ∀ r ∈ refs t0 [], U r) : Good H U Vok { tries := [(0, 0, Trie.open (root H t0) t0 v)] } := by
  intro e he
  simp only [List.mem_singleton] at he
  subst he
  exact ⟨t0, [], v, rfl, rfl, TrieRun.nil _, rfl, hw, hu⟩

/-! ### the block trie keeps its start root -/

theorem mem_set' {f : Forest} {id : Nat} {t : Trie} {e : Nat × Nat × Trie} (h : e ∈ (f.set id t).tries) :
    e ∈ f.tries ∨ (e.1 = id ∧ e.2.2 = t) := by
  simp only [Forest.set, List.mem_map] at h
  obtain ⟨e0, he0, rfl⟩ := h
  by_cases hid : e0.1 = id
  · simp [hid]
  · simp [hid, he0]

theorem mergeOrd_startRoot (H : Bytes → Bytes) (p c p' : Trie) (cs : List (Change Ref))
    (hm : mergeMPTChangesOrd H p c cs = .ok p') : p'.cc.startRoot = p.cc.startRoot := by
  simp only [mergeMPTChangesOrd] at hm
  by_cases h1 : p.root = c.root
  · simp only [h1, if_true, MergeRes.ok.injEq] at hm; rw [← hm]
  · simp only [h1, if_false, mergeChanges] at hm
    by_cases h2 : p.root ≠ c.cc.startRoot
    · simp [h2] at hm
    · simp only [h2, if_false, MergeRes.ok.injEq] at hm
      have hfold : ∀ (l : List (Change Ref)) (q : Trie),
          l.foldl (fun t c => t.insertNode H c.old c.new) q = q.applyEvents H (l.map (fun c => Event.put c.old c.new)) := by
        intro l
        induction l with
        | nil => intro q; rfl
        | cons c l ih => intro q; simp [Trie.applyEvents, Trie.applyEvent] at ih ⊢; exact ih _
      have hfold2 : ∀ (ds : List Ref) (q : Trie), ds.foldl (Trie.deleteNode H) q = q.applyEvents H (ds.map Event.del) := by
        intro ds
        induction ds with
        | nil => intro q; rfl
        | cons d ds ih => intro q; simp [Trie.applyEvents, Trie.applyEvent] at ih ⊢; exact ih _
      rw [← hm]
      simp only [hfold, hfold2, startRoot_applyEvents]

/-- the trie with id 0 (the block trie) keeps the start root of its collector -/
def Root0 (f : Forest) (r0 : Bytes) : Prop := ∀ e ∈ f.tries, e.1 = 0 → e.2.2.cc.startRoot = r0

theorem delete_startRoot (H : Bytes → Bytes) (t t' : Trie) (p : List Nib) (es : List Event)
    (hd : t.delete H p = (t', .ok, es)) : t'.cc.startRoot = t.cc.startRoot := by
  simp only [Trie.delete] at hd
  cases hE : deleteE t.version t.tree [] p with
  | mk res ev =>
    rw [hE] at hd
    cases res with
    | notPresent => simp at hd
    | panic => simp at hd
    | removed => simp only [Prod.mk.injEq] at hd; obtain ⟨rfl, _, _⟩ := hd; exact startRoot_applyEvents H ev t
    | node n => simp only [Prod.mk.injEq] at hd; obtain ⟨rfl, _, _⟩ := hd; exact startRoot_applyEvents H ev t

theorem step_root0 (H : Bytes → Bytes) (ord : List (Change Ref) → List (Change Ref)) (f : Forest) (op : TOp) (r0 : Bytes)
    (h : Root0 f r0) : Root0 (f.step H ord op).1 r0 := by
  have hset : ∀ (id pid : Nat) (t t' : Trie), f.find id = some (pid, t) → t'.cc.startRoot = t.cc.startRoot →
      Root0 (f.set id t') r0 := by
    intro id pid t t' hf hs e he h0
    rcases mem_set' he with h1 | ⟨h1, h2⟩
    · exact h e h1 h0
    · rw [h2, hs]
      have := h _ (find_mem hf) (by rw [← h1]; exact h0)
      exact this
  have hclose : ∀ (g : Forest) (id : Nat), Root0 g r0 → Root0 (g.close id) r0 :=
    fun g id hg e he h0 => hg e (mem_close he) h0
  cases op with
  | child id pid =>
    simp only [Forest.step]
    cases hp : f.find pid with
    | none => simpa using h
    | some pp =>
      cases hc : f.find id with
      | some cc => simpa using h
      | none =>
        simp only
        split
        · exact h
        · rename_i hid
          intro e he h0
          simp only [List.mem_append, List.mem_singleton] at he
          rcases he with he | rfl
          · exact h e he h0
          · exact absurd h0 hid
  | ins id p b =>
    simp only [Forest.step]
    cases hf : f.find id with
    | none => simpa using h
    | some pt =>
      obtain ⟨pid, t⟩ := pt
      simp only
      by_cases hb : b = []
      · simp only [hb, if_true]
        cases hd : t.delete H p with
        | mk t' r =>
          obtain ⟨o, es⟩ := r
          cases o with
          | ok => exact hset id pid t t' hf (delete_startRoot H t t' p es hd)
          | notPresent => exact h
          | tooLarge => exact h
          | panic => exact h
      · simp only [hb, if_false]
        exact hset id pid t _ hf (startRoot_applyEvents H _ t)
  | del id p =>
    simp only [Forest.step]
    cases hf : f.find id with
    | none => simpa using h
    | some pt =>
      obtain ⟨pid, t⟩ := pt
      simp only
      cases hd : t.delete H p with
      | mk t' r =>
        obtain ⟨o, es⟩ := r
        cases o with
        | ok => exact hset id pid t t' hf (delete_startRoot H t t' p es hd)
        | notPresent => exact h
        | tooLarge => exact h
        | panic => exact h
  | merge id keep =>
    simp only [Forest.step]
    cases hf : f.find id with
    | none => simpa using h
    | some pc =>
      obtain ⟨pid, c⟩ := pc
      simp only
      split
      · exact h
      · cases hfp : f.find pid with
        | none => simpa using h
        | some pp =>
          obtain ⟨ppid, p⟩ := pp
          simp only
          cases hm : mergeMPTChangesOrd H p c (ord c.cc.getChanges) with
          | stale => exact h
          | ok p' =>
            have := hset pid ppid p p' hfp (mergeOrd_startRoot H p c p' _ hm)
            simp only
            split
            · exact this
            · exact hclose _ id this
  | discard id =>
    simp only [Forest.step]
    cases hf : f.find id with
    | none => simpa using h
    | some pt =>
      simp only
      split
      · exact h
      · exact hclose f id h
  | ver id v =>
    simp only [Forest.step]
    cases hf : f.find id with
    | none => simpa using h
    | some pt =>
      obtain ⟨pid, t⟩ := pt
      exact hset id pid t _ hf rfl

theorem run_root0 (H : Bytes → Bytes) (ord : List (Change Ref) → List (Change Ref)) (r0 : Bytes) (ops : List TOp) :
    ∀ f : Forest, Root0 f r0 → Root0 (f.run H ord ops) r0 := by
  induction ops with
  | nil => intro f h; exact h
  | cons op ops ih => intro f h; exact ih _ (step_root0 H ord f op r0 h)

/-- **Exhaustion, for the block trie**: after any op list from a freshly opened block trie on `t0`, the block trie's state
    is that of a freshly opened trie on THE SAME `t0` after a `TrieRun` from `t0` to its current tree. -/
theorem block_is_trieRun (H : Bytes → Bytes) (ord : List (Change Ref) → List (Change Ref)) (hord : ∀ l, (ord l).Perm l)
    (U : Ref → Prop) (Vok : Nat → Prop) (hU : KeyInjOn H U) (hne : ∀ x, H x ≠ []) (t0 : Node) (v : Nat) (hw : WF t0)
    (hu : ∀ r ∈ refs t0 [], U r) (ops : List TOp)
    (hin : RunIn H ord U Vok { tries := [(0, 0, Trie.open (root H t0) t0 v)] } ops) (pid : Nat) (b : Trie)
    (hb : (Forest.run H ord { tries := [(0, 0, Trie.open (root H t0) t0 v)] } ops).find 0 = some (pid, b)) :
    ∃ (es : List Event) (v0 : Nat),
      b.cc = ((Trie.open (root H t0) t0 v0).applyEvents H es).cc ∧
      b.db = ((Trie.open (root H t0) t0 v0).applyEvents H es).db ∧
      TrieRun H U Vok t0 es b.tree ∧ b.root = root H b.tree := by
  have hg := interp_is_trieRun H ord hord U Vok hU hne ops _ (good_init H U Vok t0 v hw hu) hin
  have hr := run_root0 H ord (root H t0) ops { tries := [(0, 0, Trie.open (root H t0) t0 v)] }
    (by intro e he _; simp only [List.mem_singleton] at he; subst he; rfl)
  have hmem := find_mem hb
  obtain ⟨t0', es, v0, h1, h2, h3, h4, hw', hu'⟩ := hg _ hmem
  have hs : b.cc.startRoot = root H t0 := hr _ hmem rfl
  have hs' : b.cc.startRoot = root H t0' := by rw [h1, startRoot_applyEvents]; rfl
  have ht : t0' = t0 := root_inj_on H U hU hne hw' hw hu' hu (by rw [← hs', hs])
  subst ht
  exact ⟨es, v0, h1, h2, h3, h4⟩

end Verif.MptStore
