/-
Record maps of histories whose rounds are executed and saved more than once at the same version: with the overwrite
policy of `RecordDeadNodes` every record of the final map is the dead set of the LAST execution of some round.
-/
import Verif.Model.MptStore
import Verif.Lemmas.MptStoreEvents
namespace Verif.MptStore
open Verif.Mpt

theorem mem_put {ν : Type} (d : Map Nat ν) (v : Nat) (x : ν) (e : Nat × ν) (h : e ∈ Map.put d v x) :
    e = (v, x) ∨ (e ∈ d ∧ e.1 ≠ v) := by
  simp only [Map.put, Map.del, List.mem_cons, List.mem_filter] at h
  rcases h with h | h
  · exact Or.inl h
  · exact Or.inr ⟨h.1, by simpa using h.2⟩

theorem mem_recExecs_overwrite (v : Nat) (D : Nat → List Bytes) (k : Nat) (d : DeadRecs) (e : Nat × List Bytes)
    (h : e ∈ recExecs recOverwrite v D k d) : e = (v, D k) ∨ (e ∈ d ∧ e.1 ≠ v) := by
  induction k with
  | zero => exact mem_put d v (D 0) e h
  | succ k ih =>
    rcases mem_put _ v (D (k + 1)) e h with h1 | ⟨h1, h2⟩
    · exact Or.inl h1
    · rcases ih h1 with h3 | h3
      · exact absurd (by rw [h3]) h2
      · exact Or.inr h3

/-- every record of the final map is the dead set of the last execution of a round -/
theorem mem_recRounds_overwrite (ver n : Nat → Nat) (D : Nat → Nat → List Bytes) (R : Nat) (e : Nat × List Bytes)
    (h : e ∈ recRounds recOverwrite ver n D R) : ∃ i, i < R ∧ e = (ver (i + 1), D (i + 1) (n (i + 1))) := by
  induction R with
  | zero => cases h
  | succ R ih =>
    rcases mem_recExecs_overwrite _ _ _ _ e h with h1 | ⟨h1, _⟩
    · exact ⟨R, Nat.lt_succ_self R, h1⟩
    · obtain ⟨i, hi, he⟩ := ih h1
      exact ⟨i, Nat.lt_succ_of_lt hi, he⟩

/-! the witness history of the negative theorems of Props/C05: one leaf; round 1 (version 2) executed twice -/

def wT0 : Node := .leaf 1 [3] [65]
def wE : Nat → Nat → List Event := fun i k => if i = 1 ∧ k = 0 then (insertE 2 [66] wT0 [] [3]).2 else []
def wD : Nat → Nat → List Bytes := fun i k => ((Trie.open [] wT0 2).applyEvents id (wE i k)).cc.getDeletes.map (Ref.key id)

theorem wD_first : wD 1 0 = [Ref.key id ⟨[], wT0⟩] := by
  have hne : Ref.key id ⟨[], .leaf 1 [3] [65]⟩ ≠ Ref.key id ⟨[], .leaf 2 [3] [66]⟩ := by
    intro hk
    simp [Ref.key, key, le64] at hk
    exact absurd (congrArg List.getLast? hk) (by simp)
  simp [wD, wE, wT0, insertE, splitCommon, Trie.applyEvents, Trie.applyEvent, Trie.insertNode, Trie.open,
    Collector.addChange, Collector.getDeletes, Map.get, Map.put, Map.del, hne]

theorem wD_second : wD 1 1 = [] := by
  simp [wD, wE, Trie.applyEvents, Trie.open, Collector.getDeletes]

end Verif.MptStore
