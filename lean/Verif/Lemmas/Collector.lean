/-
The change-collector algebra: an invariant of the literal `AddChange` / `DeleteChange` state machine relating the
collector to the set of live node keys, for ANY sequence of calls that obeys the event discipline
(`AddChange(old,new)` is only called with a live `old` whose key differs from `new`'s).
-/
import Verif.Lemmas.MptStoreMap
namespace Verif.MptStore
namespace Collector
variable {κ N : Type} [DecidableEq κ]

/-- a call of the collector -/
inductive Call (N : Type) where
  | add (old : Option N) (new : N)
  | del (old : N)

def step (k : N → κ) (cc : Collector κ N) : Call N → Collector κ N
  | .add o n => cc.addChange k o n
  | .del o => cc.deleteChange k o

def run (k : N → κ) (cc : Collector κ N) (cs : List (Call N)) : Collector κ N := cs.foldl (step k) cc

/-- the live set after a call: `old` leaves, `new` enters -/
def liveStep (k : N → κ) (L : κ → Prop) : Call N → κ → Prop
  | .add none n => fun x => x = k n ∨ L x
  | .add (some o) n => fun x => x = k n ∨ (L x ∧ x ≠ k o)
  | .del o => fun x => L x ∧ x ≠ k o

def liveRun (k : N → κ) (L : κ → Prop) : List (Call N) → κ → Prop
  | [] => L
  | c :: cs => liveRun k (liveStep k L c) cs

/-- the discipline of one call: a replaced node is live and is not the node replacing it -/
def CallOk (k : N → κ) (L : κ → Prop) : Call N → Prop
  | .add (some o) n => L (k o) ∧ k o ≠ k n
  | _ => True

/-- the event discipline of a call sequence started with live set `L` -/
def Disc (k : N → κ) (L : κ → Prop) : List (Call N) → Prop
  | [] => True
  | c :: cs => CallOk k L c ∧ Disc k (liveStep k L c) cs

/-- the invariant tying the collector to the live set `L`, given the set `L0` of keys live when it was created -/
structure Inv (k : N → κ) (L0 L : κ → Prop) (cc : Collector κ N) : Prop where
  /-- every pending new node is live -/
  changes_live : ∀ x c, Map.get cc.changes x = some c → L x
  /-- every live node is an original one or a pending new one -/
  live_cover : ∀ x, L x → L0 x ∨ (Map.get cc.changes x).isSome = true
  /-- no node reported as deleted is live -/
  deletes_dead : ∀ x d, Map.get cc.deletes x = some d → ¬ L x
  /-- the recorded predecessor of a pending change is an original node -/
  old_original : ∀ x c o, Map.get cc.changes x = some c → c.old = some o → L0 (k o)
  /-- entries are stored under the key of their node -/
  changes_keyed : ∀ x c, Map.get cc.changes x = some c → k c.new = x
  deletes_keyed : ∀ x d, Map.get cc.deletes x = some d → k d = x

theorem inv_init (k : N → κ) (L0 : κ → Prop) (r : κ) : Inv k L0 L0 ({ startRoot := r } : Collector κ N) where
  changes_live := by intro x c h; simp at h
  live_cover := by intro x h; exact Or.inl h
  deletes_dead := by intro x d h; simp at h
  old_original := by intro x c o h; simp at h
  changes_keyed := by intro x c h; simp at h
  deletes_keyed := by intro x d h; simp at h

theorem inv_add_none {k : N → κ} {L0 L : κ → Prop} {cc : Collector κ N} (h : Inv k L0 L cc) (n : N) :
    Inv k L0 (liveStep k L (.add none n)) (cc.addChange k none n) := by
  simp only [addChange, liveStep]
  constructor
  · intro x c hx
    simp only [Map.get_put] at hx
    by_cases e : k n = x
    · exact Or.inl e.symm
    · simp [e] at hx; exact Or.inr (h.changes_live x c hx)
  · intro x hx
    simp only [Map.get_put]
    by_cases e : k n = x
    · simp [e]
    · simp only [e, if_false]
      rcases hx with hx | hx
      · exact absurd hx.symm e
      · exact h.live_cover x hx
  · intro x d hx
    simp only [Map.get_del] at hx
    by_cases e : k n = x
    · simp [e] at hx
    · simp only [e, if_false] at hx
      intro hl
      rcases hl with hl | hl
      · exact e hl.symm
      · exact h.deletes_dead x d hx hl
  · intro x c o hx ho
    simp only [Map.get_put] at hx
    by_cases e : k n = x
    · simp [e] at hx; subst hx; simp at ho
    · simp [e] at hx; exact h.old_original x c o hx ho
  · intro x c hx
    simp only [Map.get_put] at hx
    by_cases e : k n = x
    · simp [e] at hx; subst hx; exact e
    · simp [e] at hx; exact h.changes_keyed x c hx
  · intro x d hx
    simp only [Map.get_del] at hx
    by_cases e : k n = x
    · simp [e] at hx
    · simp [e] at hx; exact h.deletes_keyed x d hx

theorem inv_del {k : N → κ} {L0 L : κ → Prop} {cc : Collector κ N} (h : Inv k L0 L cc) (o : N) :
    Inv k L0 (liveStep k L (.del o)) (cc.deleteChange k o) := by
  simp only [deleteChange, liveStep]
  cases hg : Map.get cc.changes (k o) with
  | some c0 =>
    simp only
    constructor
    · intro x c hx
      simp only [Map.get_del] at hx
      by_cases e : k o = x
      · simp [e] at hx
      · simp [e] at hx; exact ⟨h.changes_live x c hx, fun hxo => e hxo.symm⟩
    · intro x hx
      simp only [Map.get_del]
      have e : k o ≠ x := fun e => hx.2 e.symm
      simp only [e, if_false]
      exact h.live_cover x hx.1
    · intro x d hx hl; exact h.deletes_dead x d hx hl.1
    · intro x c o' hx ho
      simp only [Map.get_del] at hx
      by_cases e : k o = x
      · simp [e] at hx
      · simp [e] at hx; exact h.old_original x c o' hx ho
    · intro x c hx
      simp only [Map.get_del] at hx
      by_cases e : k o = x
      · simp [e] at hx
      · simp [e] at hx; exact h.changes_keyed x c hx
    · exact h.deletes_keyed
  | none =>
    simp only
    constructor
    · intro x c hx
      have e : x ≠ k o := by intro e; subst e; rw [hg] at hx; cases hx
      exact ⟨h.changes_live x c hx, e⟩
    · intro x hx; exact h.live_cover x hx.1
    · intro x d hx hl
      simp only [Map.get_put] at hx
      by_cases e : k o = x
      · exact hl.2 e.symm
      · simp [e] at hx; exact h.deletes_dead x d hx hl.1
    · exact h.old_original
    · exact h.changes_keyed
    · intro x d hx
      simp only [Map.get_put] at hx
      by_cases e : k o = x
      · simp [e] at hx; subst hx; exact e
      · simp [e] at hx; exact h.deletes_keyed x d hx

theorem inv_add_some {k : N → κ} {L0 L : κ → Prop} {cc : Collector κ N} (h : Inv k L0 L cc) (o n : N)
    (hlive : L (k o)) (hne : k o ≠ k n) :
    Inv k L0 (liveStep k L (.add (some o) n)) (cc.addChange k (some o) n) := by
  simp only [addChange, liveStep]
  -- facts used in every branch
  have dead' : ∀ x d, Map.get (Map.del cc.deletes (k n)) x = some d → ¬ (x = k n ∨ (L x ∧ x ≠ k o)) := by
    intro x d hx
    simp only [Map.get_del] at hx
    by_cases e : k n = x
    · simp [e] at hx
    · simp only [e, if_false] at hx
      intro hl
      rcases hl with hl | hl
      · exact e hl.symm
      · exact h.deletes_dead x d hx hl.1
  have dkeyed' : ∀ x d, Map.get (Map.del cc.deletes (k n)) x = some d → k d = x := by
    intro x d hx
    simp only [Map.get_del] at hx
    by_cases e : k n = x
    · simp [e] at hx
    · simp [e] at hx; exact h.deletes_keyed x d hx
  cases hg : Map.get cc.changes (k o) with
  | none =>
    simp only
    have ho0 : L0 (k o) := by
      rcases h.live_cover (k o) hlive with h0 | h1
      · exact h0
      · rw [hg] at h1; simp at h1
    constructor
    · intro x c hx
      simp only [Map.get_put] at hx
      by_cases e : k n = x
      · exact Or.inl e.symm
      · simp [e] at hx
        refine Or.inr ⟨h.changes_live x c hx, ?_⟩
        intro e2; subst e2; rw [hg] at hx; cases hx
    · intro x hx
      simp only [Map.get_put]
      by_cases e : k n = x
      · simp [e]
      · simp only [e, if_false]
        rcases hx with hx | hx
        · exact absurd hx.symm e
        · exact h.live_cover x hx.1
    · intro x d hx hl
      simp only [Map.get_put] at hx
      by_cases e : k o = x
      · rcases hl with hl | hl
        · exact hne (e.trans hl)
        · exact hl.2 e.symm
      · simp only [e, if_false] at hx
        exact dead' x d hx hl
    · intro x c o' hx ho'
      simp only [Map.get_put] at hx
      by_cases e : k n = x
      · simp [e] at hx; subst hx; simp at ho'; subst ho'; exact ho0
      · simp [e] at hx; exact h.old_original x c o' hx ho'
    · intro x c hx
      simp only [Map.get_put] at hx
      by_cases e : k n = x
      · simp [e] at hx; subst hx; exact e
      · simp [e] at hx; exact h.changes_keyed x c hx
    · intro x d hx
      simp only [Map.get_put] at hx
      by_cases e : k o = x
      · simp [e] at hx; subst hx; exact e
      · simp only [e, if_false] at hx; exact dkeyed' x d hx
  | some prev =>
    simp only
    -- the re-keyed entry keeps only original predecessors
    have hprevOld : ∀ po, prev.old = some po → L0 (k po) := fun po hpo => h.old_original (k o) prev po hg hpo
    -- common: the map with the old entry erased
    have erased_live : ∀ x c, Map.get (Map.del cc.changes (k o)) x = some c → (x = k n ∨ (L x ∧ x ≠ k o)) := by
      intro x c hx
      simp only [Map.get_del] at hx
      by_cases e : k o = x
      · simp [e] at hx
      · simp [e] at hx; exact Or.inr ⟨h.changes_live x c hx, fun e2 => e e2.symm⟩
    have erased_cover : ∀ x, (L x ∧ x ≠ k o) → L0 x ∨ (Map.get (Map.del cc.changes (k o)) x).isSome = true := by
      intro x hx
      simp only [Map.get_del]
      have e : k o ≠ x := fun e => hx.2 e.symm
      simp only [e, if_false]
      exact h.live_cover x hx.1
    have erased_old : ∀ x c o', Map.get (Map.del cc.changes (k o)) x = some c → c.old = some o' → L0 (k o') := by
      intro x c o' hx ho'
      simp only [Map.get_del] at hx
      by_cases e : k o = x
      · simp [e] at hx
      · simp [e] at hx; exact h.old_original x c o' hx ho'
    have erased_keyed : ∀ x c, Map.get (Map.del cc.changes (k o)) x = some c → k c.new = x := by
      intro x c hx
      simp only [Map.get_del] at hx
      by_cases e : k o = x
      · simp [e] at hx
      · simp [e] at hx; exact h.changes_keyed x c hx
    -- the three sub-branches share the "put under k n" reasoning
    have put_case : ∀ (po : Option N), (∀ p, po = some p → L0 (k p)) →
        Inv k L0 (fun x => x = k n ∨ (L x ∧ x ≠ k o))
          { cc with deletes := Map.del cc.deletes (k n),
                    changes := Map.put (Map.del cc.changes (k o)) (k n) ⟨po, n⟩ } := by
      intro po hpo
      constructor
      · intro x c hx
        simp only [Map.get_put] at hx
        by_cases e : k n = x
        · exact Or.inl e.symm
        · simp only [e, if_false] at hx; exact erased_live x c hx
      · intro x hx
        simp only [Map.get_put]
        by_cases e : k n = x
        · simp [e]
        · simp only [e, if_false]
          rcases hx with hx | hx
          · exact absurd hx.symm e
          · exact erased_cover x hx
      · exact dead'
      · intro x c o' hx ho'
        simp only [Map.get_put] at hx
        by_cases e : k n = x
        · simp [e] at hx; subst hx; exact hpo o' ho'
        · simp only [e, if_false] at hx; exact erased_old x c o' hx ho'
      · intro x c hx
        simp only [Map.get_put] at hx
        by_cases e : k n = x
        · simp [e] at hx; subst hx; exact e
        · simp only [e, if_false] at hx; exact erased_keyed x c hx
      · exact dkeyed'
    cases hpo : prev.old with
    | none =>
      simp only
      exact put_case none (by intro p hp; cases hp)
    | some po =>
      simp only
      by_cases hback : k n = k po
      · -- the chain returned to the original node: the entry disappears, the node is an original one
        simp only [hback, if_true]
        constructor
        · intro x c hx; rw [← hback]; exact erased_live x c hx
        · intro x hx
          rcases hx with hx | hx
          · left; rw [hx]; exact hprevOld po hpo
          · exact erased_cover x hx
        · intro x d hx; rw [← hback] at hx ⊢; exact dead' x d hx
        · exact erased_old
        · exact erased_keyed
        · intro x d hx; rw [← hback] at hx; exact dkeyed' x d hx
      · simp only [hback, if_false]
        exact put_case (some po) (by intro p hp; cases hp; exact hprevOld po hpo)

theorem inv_step {k : N → κ} {L0 L : κ → Prop} {cc : Collector κ N} (h : Inv k L0 L cc) (c : Call N)
    (hok : CallOk k L c) : Inv k L0 (liveStep k L c) (step k cc c) := by
  cases c with
  | add o n =>
    cases o with
    | none => exact inv_add_none h n
    | some o => exact inv_add_some h o n hok.1 hok.2
  | del o => exact inv_del h o

theorem inv_run {k : N → κ} {L0 : κ → Prop} (cs : List (Call N)) :
    ∀ {L : κ → Prop} {cc : Collector κ N}, Inv k L0 L cc → Disc k L cs → Inv k L0 (liveRun k L cs) (run k cc cs) := by
  induction cs with
  | nil => intro L cc h _; exact h
  | cons c cs ih =>
    intro L cc h hd
    exact ih (inv_step h c hd.1) hd.2

/-! ### provenance: every node held by the collector was handed to it by a call, and sits under its own key -/

structure Prov (k : N → κ) (P : N → Prop) (cc : Collector κ N) : Prop where
  changes : ∀ e ∈ cc.changes, k e.2.new = e.1 ∧ P e.2.new ∧ ∀ o, e.2.old = some o → P o
  deletes : ∀ e ∈ cc.deletes, k e.2 = e.1 ∧ P e.2

def CallNodes (P : N → Prop) : Call N → Prop
  | .add o n => P n ∧ ∀ o', o = some o' → P o'
  | .del o => P o

theorem prov_init (k : N → κ) (P : N → Prop) (r : κ) : Prov k P ({ startRoot := r } : Collector κ N) where
  changes := by intro e h; cases h
  deletes := by intro e h; cases h

theorem prov_step {k : N → κ} {P : N → Prop} {cc : Collector κ N} (h : Prov k P cc) (c : Call N)
    (hc : CallNodes P c) : Prov k P (step k cc c) := by
  cases c with
  | del o =>
    simp only [step, deleteChange]
    cases hg : Map.get cc.changes (k o) with
    | some c0 =>
      exact ⟨fun e he => h.changes e (Map.mem_del he), h.deletes⟩
    | none =>
      refine ⟨h.changes, fun e he => ?_⟩
      rcases Map.mem_put he with rfl | he
      · exact ⟨rfl, hc⟩
      · exact h.deletes e he
  | add o n =>
    have hdel : ∀ e ∈ Map.del cc.deletes (k n), k e.2 = e.1 ∧ P e.2 := fun e he => h.deletes e (Map.mem_del he)
    cases o with
    | none =>
      simp only [step, addChange]
      refine ⟨fun e he => ?_, hdel⟩
      rcases Map.mem_put he with rfl | he
      · exact ⟨rfl, hc.1, by intro o ho; cases ho⟩
      · exact h.changes e he
    | some o =>
      simp only [step, addChange]
      cases hg : Map.get cc.changes (k o) with
      | none =>
        simp only
        refine ⟨fun e he => ?_, fun e he => ?_⟩
        · rcases Map.mem_put he with rfl | he
          · exact ⟨rfl, hc.1, by intro o' ho'; cases ho'; exact hc.2 o rfl⟩
          · exact h.changes e he
        · rcases Map.mem_put he with rfl | he
          · exact ⟨rfl, hc.2 o rfl⟩
          · exact hdel e he
      | some prev =>
        simp only
        have hprev := h.changes (k o, prev) (Map.mem_of_get hg)
        have herased : ∀ e ∈ Map.del cc.changes (k o), k e.2.new = e.1 ∧ P e.2.new ∧ ∀ o, e.2.old = some o → P o :=
          fun e he => h.changes e (Map.mem_del he)
        cases hpo : prev.old with
        | none =>
          simp only
          refine ⟨fun e he => ?_, hdel⟩
          rcases Map.mem_put he with rfl | he
          · exact ⟨rfl, hc.1, by intro o' ho'; cases ho'⟩
          · exact herased e he
        | some po =>
          simp only
          by_cases hback : k n = k po
          · simp only [hback, if_true]
            exact ⟨herased, by rw [← hback]; exact hdel⟩
          · simp only [hback, if_false]
            refine ⟨fun e he => ?_, hdel⟩
            rcases Map.mem_put he with rfl | he
            · exact ⟨rfl, hc.1, by intro o' ho'; cases ho'; exact hprev.2.2 po hpo⟩
            · exact herased e he

theorem prov_run {k : N → κ} {P : N → Prop} (cs : List (Call N)) :
    ∀ {cc : Collector κ N}, Prov k P cc → (∀ c ∈ cs, CallNodes P c) → Prov k P (run k cc cs) := by
  induction cs with
  | nil => intro cc h _; exact h
  | cons c cs ih =>
    intro cc h hc
    exact ih (prov_step h c (hc c (List.mem_cons_self ..))) (fun c' hc' => hc c' (List.mem_cons_of_mem _ hc'))

end Collector
end Verif.MptStore
