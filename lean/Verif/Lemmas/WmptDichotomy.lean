/-
The dichotomy behind the two open findings of C10: an ACCEPTED block proof is either `Faithful` to the trie (and then
`C10_sound_partial` applies) or it `Exhibits` one of the structural fingerprints
  (K) node-kind confusion  — an element decodes as another node kind than the trie's node at that position,
  (W) forged child weights — an element of the right kind claims a child weight different from the real one
at the first position of the owner path (the path the TRUE weights select) where `Faithful` fails.
The dichotomy is structural: no hypothesis on the hash function, none on the rebuilt root hash.
-/
import Verif.Lemmas.WmptSound
import Verif.Props.C10
namespace Verif.Wmpt

/-! ### What `deserializeNode` can produce -/

/-- `deserializeNode` yields a clean, unmarked branch / value / short-over-a-reference, an empty node or a reference -/
theorem deserializeNode_shape (q : PBase) (n : WN) (hq : deserializeNode q = .ok n) :
    (∃ h ch w, n = .routing h ch w false false) ∨ (∃ h v w, n = .value h v w false) ∨
    (∃ k h vh w, n = .short k h (.hashRef vh w) false false) ∨ n = .empty ∨ (∃ h w, n = .hashRef h w) := by
  unfold deserializeNode at hq
  repeat' split at hq
  all_goals (cases hq <;> simp)

theorem deserializeNode_routing_flags (q : PBase) (h : Bytes) (ch : Nib → WN) (w : Nat) (d tc : Bool)
    (hq : deserializeNode q = .ok (.routing h ch w d tc)) : d = false ∧ tc = false := by
  rcases deserializeNode_shape q _ hq with ⟨_, _, _, e⟩ | ⟨_, _, _, e⟩ | ⟨_, _, _, _, e⟩ | e | ⟨_, _, e⟩ <;> cases e
  exact ⟨rfl, rfl⟩

theorem deserializeNode_value_flag (q : PBase) (h v : Bytes) (w : Nat) (d : Bool)
    (hq : deserializeNode q = .ok (.value h v w d)) : d = false := by
  rcases deserializeNode_shape q _ hq with ⟨_, _, _, e⟩ | ⟨_, _, _, e⟩ | ⟨_, _, _, _, e⟩ | e | ⟨_, _, e⟩ <;> cases e
  rfl

theorem deserializeNode_short_shape (q : PBase) (k h : Bytes) (c : WN) (d tc : Bool)
    (hq : deserializeNode q = .ok (.short k h c d tc)) : ∃ vh, c = .hashRef vh c.weight ∧ d = false ∧ tc = false := by
  rcases deserializeNode_shape q _ hq with ⟨_, _, _, e⟩ | ⟨_, _, _, e⟩ | ⟨_, _, vh, w, e⟩ | e | ⟨_, _, e⟩ <;> cases e
  exact ⟨vh, rfl, rfl, rfl⟩

/-! ### The fingerprints -/

/-- (K) the decoded proof element `n` is not of the kind of the trie's node `t` at this position
    (an absent subtree `.none` is matched by no element) -/
def KindMismatch : PT → WN → Prop
  | .value _ _, .value _ _ _ _ => False
  | .short _ _, .short _ _ _ _ _ => False
  | .branch _, .routing _ _ _ _ _ => False
  | _, _ => True

/-- (W) kinds agree, but the element claims a child weight that is not the real one.
    For a leaf `Faithful` does not constrain the claimed weight by the trie's (the hash binds it), only asks it to be a
    uint64 — which the CBOR layer guarantees for decoded bytes; the clause is kept so that the dichotomy is exact on
    arbitrary `PairD` lists. -/
def WeightMismatch : PT → WN → Prop
  | .value _ _, .value _ _ w' _ => ¬ w' < 2 ^ 64
  | .short _ c, .short _ _ c' _ _ => c'.weight ≠ c.weight
  | .branch ch, .routing _ ch' _ _ _ => ∃ i, (ch' i).weight ≠ (ch i).weight
  | _, _ => False

/-- Walking the trie `t` and the proof together along the path the TRUE weights select (the recursion of `Faithful`):
    the first element decodes, and it shows (K), or (W), or — kinds and weights being right here — the rest of the
    proof exhibits a fingerprint against the child the true weights select. -/
def Exhibits : PT → List PairD → Nat → Prop
  | t, .ok p :: rest, b =>
    ∃ n, deserializeNode p = .ok n ∧
      (KindMismatch t n ∨ WeightMismatch t n ∨
        (¬ KindMismatch t n ∧ ¬ WeightMismatch t n ∧
          match t with
          | .short _ c => Exhibits c rest b
          | .branch ch => ∃ i b', PT.pick ch allNib b = some (i, b') ∧ Exhibits (ch i) rest b'
          | _ => False))
  | _, _, _ => False

/-! ### What an accepted proof looks like at its head -/

theorem verifyProof_inv (H : Bytes → Bytes) (ps : List PairD) (b : Nat) (r : WN × Bytes × List PairD)
    (hv : verifyProof H ps b = .ok r) :
    ∃ q tl nd, ps = .ok q :: tl ∧ deserializeNode q = .ok nd ∧
      ((∃ h v w, nd = .value h v w false ∧ b ≤ w) ∨
       (∃ k h vh w, nd = .short k h (.hashRef vh w) false false ∧ b ≤ w ∧ ∃ r', verifyProof H tl b = .ok r') ∨
       (∃ h ch w, nd = .routing h ch w false false ∧
          ∃ i b', pickChild ch allNib b = some (i, b') ∧ ∃ r', verifyProof H tl b' = .ok r')) := by
  cases ps with
  | nil => simp [verifyProof] at hv
  | cons p tl =>
    cases p with
    | nilPair => simp [verifyProof] at hv
    | bad => simp [verifyProof] at hv
    | ok q =>
      unfold verifyProof at hv
      cases hq : deserializeNode q with
      | err e => simp [hq] at hv
      | ok nd =>
        rw [hq] at hv
        refine ⟨q, tl, nd, rfl, hq, ?_⟩
        rcases deserializeNode_shape q nd hq with ⟨h, ch, w, e⟩ | ⟨h, v, w, e⟩ | ⟨k, h, vh, w, e⟩ | e | ⟨h, w, e⟩ <;> subst e
        · right; right
          refine ⟨h, ch, w, rfl, ?_⟩
          simp only at hv
          cases hp : pickChild ch allNib b with
          | none => simp [hp] at hv
          | some ib =>
            obtain ⟨i, b'⟩ := ib
            simp only [hp] at hv
            cases hr : verifyProof H tl b' with
            | err e => simp [hr] at hv
            | ok r' => exact ⟨i, b', rfl, r', hr⟩
        · left
          refine ⟨h, v, w, rfl, ?_⟩
          simp only at hv
          by_cases hw : b > w
          · simp [hw] at hv
          · omega
        · right; left
          refine ⟨k, h, vh, w, rfl, ?_⟩
          simp only [WN.weight] at hv
          by_cases hw : b > w
          · simp [hw] at hv
          · simp only [hw, if_false] at hv
            cases hr : verifyProof H tl b with
            | err e => simp [hr] at hv
            | ok r' => exact ⟨by omega, r', rfl⟩
        · simp at hv
        · simp at hv

/-! ### The dichotomy -/

/-- An accepted proof is faithful to the trie or exhibits one of the fingerprints. Structural: nothing is assumed about
    the hash function, the rebuilt root, the size of the weights, or `b ≤ t.weight` (`1 ≤ b` makes a child of weight 0
    behave like an absent one, as in `pick_agree`). -/
theorem faithful_or_exhibits (H : Bytes → Bytes) (t : PT) (ps : List PairD) (b : Nat) (r : WN × Bytes × List PairD)
    (hv : verifyProof H ps b = .ok r) (hb : 1 ≤ b) : Faithful t ps b ∨ Exhibits t ps b := by
  induction t generalizing ps b r with
  | none =>
    obtain ⟨q, tl, nd, rfl, hq, _⟩ := verifyProof_inv H ps b r hv
    right
    exact ⟨nd, hq, Or.inl (by simp [KindMismatch])⟩
  | value v0 w0 =>
    obtain ⟨q, tl, nd, rfl, hq, hk⟩ := verifyProof_inv H ps b r hv
    rcases hk with ⟨h, v, w, rfl, _⟩ | ⟨k, h, vh, w, rfl, _⟩ | ⟨h, ch, w, rfl, _⟩
    · by_cases hw : w < 2 ^ 64
      · left; exact ⟨h, v, w, hq, hw⟩
      · right; exact ⟨_, hq, Or.inr (Or.inl hw)⟩
    · right; exact ⟨_, hq, Or.inl trivial⟩
    · right; exact ⟨_, hq, Or.inl trivial⟩
  | short k0 c ih =>
    obtain ⟨q, tl, nd, rfl, hq, hk⟩ := verifyProof_inv H ps b r hv
    rcases hk with ⟨h, v, w, rfl, _⟩ | ⟨k, h, vh, w, rfl, _, r', hr⟩ | ⟨h, ch, w, rfl, _⟩
    · right; exact ⟨_, hq, Or.inl trivial⟩
    · by_cases hw : w = c.weight
      · subst hw
        rcases ih tl b r' hr hb with hf | he
        · left; exact ⟨k, h, vh, hq, hf⟩
        · right
          exact ⟨_, hq, Or.inr (Or.inr ⟨fun x => x, fun x => x rfl, he⟩)⟩
      · right; exact ⟨_, hq, Or.inr (Or.inl hw)⟩
    · right; exact ⟨_, hq, Or.inl trivial⟩
  | branch ch ih =>
    obtain ⟨q, tl, nd, rfl, hq, hk⟩ := verifyProof_inv H ps b r hv
    rcases hk with ⟨h, v, w, rfl, _⟩ | ⟨k, h, vh, w, rfl, _⟩ | ⟨h, ch', w, rfl, i, b', hp, r', hr⟩
    · right; exact ⟨_, hq, Or.inl trivial⟩
    · right; exact ⟨_, hq, Or.inl trivial⟩
    · by_cases hws : ∀ j, (ch' j).weight = (ch j).weight
      · rw [pick_agree ch' ch hws allNib b hb] at hp
        obtain ⟨hb1', _, _, _⟩ := pick_bounds ch allNib b i b' hb hp
        rcases ih i tl b' r' hr hb1' with hf | he
        · left
          refine ⟨h, ch', w, hq, hws, ?_⟩
          intro j c hj
          rw [hp] at hj
          simp only [Option.some.injEq, Prod.mk.injEq] at hj
          obtain ⟨e1, e2⟩ := hj
          subst e1; subst e2
          exact hf
        · right
          exact ⟨_, hq, Or.inr (Or.inr ⟨fun x => x, fun ⟨j, hj⟩ => hj (hws j), i, b', hp, he⟩)⟩
      · right
        refine ⟨_, hq, Or.inr (Or.inl ?_)⟩
        exact Classical.not_forall.mp hws

/-- the two are exclusive: `Exhibits` is exactly the way an accepted proof can fail to be `Faithful` -/
theorem not_faithful_of_exhibits (t : PT) (ps : List PairD) (b : Nat) (he : Exhibits t ps b) : ¬ Faithful t ps b := by
  induction t generalizing ps b with
  | none => intro hf; cases ps <;> simp [Faithful] at hf
  | value v0 w0 =>
    intro hf
    cases ps with
    | nil => simp [Faithful] at hf
    | cons p tl =>
      cases p with
      | nilPair => simp [Faithful] at hf
      | bad => simp [Faithful] at hf
      | ok q =>
        obtain ⟨h, v, w, hq, hw⟩ := hf
        obtain ⟨n, hq', hc⟩ := he
        rw [hq] at hq'
        cases hq'
        rcases hc with hc | hc | ⟨_, _, hc⟩
        · exact hc
        · exact hc hw
        · exact hc
  | short k0 c ih =>
    intro hf
    cases ps with
    | nil => simp [Faithful] at hf
    | cons p tl =>
      cases p with
      | nilPair => simp [Faithful] at hf
      | bad => simp [Faithful] at hf
      | ok q =>
        obtain ⟨k, h, hc', hq, hfc⟩ := hf
        obtain ⟨n, hq', hc⟩ := he
        rw [hq] at hq'
        cases hq'
        rcases hc with hc | hc | ⟨_, _, hc⟩
        · exact hc
        · exact hc rfl
        · exact ih tl b hc hfc
  | branch ch ih =>
    intro hf
    cases ps with
    | nil => simp [Faithful] at hf
    | cons p tl =>
      cases p with
      | nilPair => simp [Faithful] at hf
      | bad => simp [Faithful] at hf
      | ok q =>
        obtain ⟨h, ch', w, hq, hws, hfc⟩ := hf
        obtain ⟨n, hq', hc⟩ := he
        rw [hq] at hq'
        cases hq'
        rcases hc with hc | ⟨j, hj⟩ | ⟨_, _, i, b', hp, hc⟩
        · exact hc
        · exact hj (hws j)
        · exact ih i tl b' hc (hfc i b' hp)

/-- for an accepted proof, `Exhibits` is exactly the complement of `Faithful` -/
theorem accepted_exhibits_iff_not_faithful (H : Bytes → Bytes) (t : PT) (ps : List PairD) (b : Nat)
    (r : WN × Bytes × List PairD) (hv : verifyProof H ps b = .ok r) (hb : 1 ≤ b) :
    Exhibits t ps b ↔ ¬ Faithful t ps b :=
  ⟨not_faithful_of_exhibits t ps b, fun hn => (faithful_or_exhibits H t ps b r hv hb).resolve_left hn⟩

/-! ### Soundness as a trichotomy -/

/-- An accepted proof for the trusted root returns the value of the block's true owner, or two of the explicitly listed
    hash inputs collide, or the proof exhibits one of the two fingerprints (K)/(W) on the owner path.
    `b ≤ t.weight` is not needed: beyond the total weight the first alternative is impossible and the statement still
    holds with one of the other two. -/
theorem sound_trichotomy (H : Bytes → Bytes) (hlen : ∀ x, (H x).length = 32) (t : PT) (ps : List PairD) (b : Nat) (v : Bytes)
    (hb1 : 1 ≤ b) (hw : t.weight < 2 ^ 64) (hv : verifyPairs H ps b = .ok (t.hash H, v)) :
    (∃ k, ownerSpec t.entries b = some (k, v)) ∨ CollisionIn H (t.pathInputs H b ++ verifyInputs H ps b) ∨
      Exhibits t ps b := by
  have hacc : ∃ r, verifyProof H ps b = .ok r := by
    unfold verifyPairs at hv
    by_cases hne : ps = []
    · simp [hne] at hv
    · simp only [hne, if_false] at hv
      cases hr : verifyProof H ps b with
      | err e => simp [hr] at hv
      | ok r => exact ⟨r, rfl⟩
  obtain ⟨r, hr⟩ := hacc
  rcases faithful_or_exhibits H t ps b r hr hb1 with hf | he
  · rcases Verif.Props.C10.C10_sound_partial H hlen t ps b v hb1 hw hf hv with h | h
    · exact Or.inl h
    · exact Or.inr (Or.inl h)
  · exact Or.inr (Or.inr he)

/-! ### Non-vacuity: the two forged proofs of C10 show the two fingerprints -/

/-- (K) at the first element of the proof -/
def HeadKind (t : PT) (ps : List PairD) : Prop :=
  ∃ p rest n, ps = .ok p :: rest ∧ deserializeNode p = .ok n ∧ KindMismatch t n

/-- (W) at the first element of the proof (whose kind is right) -/
def HeadWeight (t : PT) (ps : List PairD) : Prop :=
  ∃ p rest n, ps = .ok p :: rest ∧ deserializeNode p = .ok n ∧ ¬ KindMismatch t n ∧ WeightMismatch t n

theorem exhibits_of_headKind (t : PT) (ps : List PairD) (b : Nat) (h : HeadKind t ps) : Exhibits t ps b := by
  obtain ⟨p, rest, n, rfl, hq, hk⟩ := h
  cases t <;> exact ⟨n, hq, Or.inl hk⟩

theorem exhibits_of_headWeight (t : PT) (ps : List PairD) (b : Nat) (h : HeadWeight t ps) : Exhibits t ps b := by
  obtain ⟨p, rest, n, rfl, hq, _, hw⟩ := h
  cases t <;> exact ⟨n, hq, Or.inr (Or.inl hw)⟩

/-- the weight the first element of a proof claims for child `i`, if that element decodes as a branch -/
def headWeightAt : List PairD → Nib → Option Nat
  | .ok p :: _, i =>
    match deserializeNode p with
    | .ok (.routing _ ch _ _ _) => some (ch i).weight
    | _ => none
  | _, _ => none

theorem headWeightAt_some (ps : List PairD) (i : Nib) (x : Nat) (h : headWeightAt ps i = some x) :
    ∃ p rest hh ch w d tc, ps = .ok p :: rest ∧ deserializeNode p = .ok (.routing hh ch w d tc) ∧ (ch i).weight = x := by
  unfold headWeightAt at h
  split at h
  · split at h
    · rename_i hq
      simp only [Option.some.injEq] at h
      exact ⟨_, _, _, _, _, _, _, rfl, hq, h⟩
    · cases h
  · cases h

/-- is the first element of a proof a value node? -/
def headIsValue : List PairD → Bool
  | .ok p :: _ =>
    match deserializeNode p with
    | .ok (.value _ _ _ _) => true
    | _ => false
  | _ => false

theorem headIsValue_true (ps : List PairD) (h : headIsValue ps = true) :
    ∃ p rest hh v w d, ps = .ok p :: rest ∧ deserializeNode p = .ok (.value hh v w d) := by
  unfold headIsValue at h
  split at h
  · split at h
    · rename_i hq
      exact ⟨_, _, _, _, _, _, rfl, hq⟩
    · cases h
  · cases h

open Verif.Props.C10 in
set_option maxRecDepth 100000 in
/-- the re-weighted proof of `forgedWeights_accepted` shows fingerprint (W) at its root element: child 1 claims weight 1,
    the real child has weight 2 -/
theorem forgedWeights_headWeight : HeadWeight wt forgedWeights := by
  have h1 : headWeightAt forgedWeights 1 = some 1 := by decide
  obtain ⟨p, rest, hh, ch, w, d, tc, hps, hq, hw⟩ := headWeightAt_some _ _ _ h1
  refine ⟨p, rest, _, hps, hq, fun x => x, ⟨1, ?_⟩⟩
  rw [hw]
  decide

open Verif.Props.C10 in
theorem forgedWeights_exhibits : Exhibits wt forgedWeights 2 :=
  exhibits_of_headWeight _ _ _ forgedWeights_headWeight

open Verif.Props.C10 in
set_option maxRecDepth 100000 in
/-- the proof of `forgedKind_accepted` shows fingerprint (K) at its root element: a value node where the trie has a branch -/
theorem forgedKind_headKind : HeadKind wt forgedKind := by
  have h1 : headIsValue forgedKind = true := by decide
  obtain ⟨p, rest, hh, v, w, d, hps, hq⟩ := headIsValue_true _ h1
  exact ⟨p, rest, _, hps, hq, trivial⟩

open Verif.Props.C10 in
theorem forgedKind_exhibits : Exhibits wt forgedKind 1 :=
  exhibits_of_headKind _ _ _ forgedKind_headKind

/-- and neither forged proof is `Faithful` (so `C10_sound_partial` rightly does not apply to them) -/
theorem forged_not_faithful :
    ¬ Faithful Verif.Props.C10.wt Verif.Props.C10.forgedWeights 2 ∧ ¬ Faithful Verif.Props.C10.wt Verif.Props.C10.forgedKind 1 :=
  ⟨not_faithful_of_exhibits _ _ _ forgedWeights_exhibits, not_faithful_of_exhibits _ _ _ forgedKind_exhibits⟩

end Verif.Wmpt
