/-
Canonical form of the spec tree of the weighted trie: the shape of the trie (hence its root hash) is determined
by the map it denotes, whatever the history of inserts and deletes (C09).  Core Lean only.
-/
import Verif.Lemmas.WmptSpecOps
namespace Verif.Wmpt

/-- canonical form: every branch has at least two children that are not `.none` -/
def Canon : PT → Prop
  | .none => True
  | .value _ _ => True
  | .short _ c => Canon c
  | .branch ch => (∃ i j, i ≠ j ∧ ch i ≠ .none ∧ ch j ≠ .none) ∧ ∀ i, Canon (ch i)

theorem canon_none : Canon .none := by simp [Canon]

theorem canon_mkShort {k : Bytes} {c : PT} (h : Canon c) : Canon (PT.mkShort k c) := by
  unfold PT.mkShort
  split
  · exact h
  · simpa [Canon] using h

theorem mkShort_ne_none {k : Bytes} {c : PT} (h : c ≠ .none) : PT.mkShort k c ≠ .none := by
  unfold PT.mkShort
  split
  · exact h
  · simp

theorem isVB_ne_none {c : PT} (h : c.isVB) : c ≠ .none := by
  rintro rfl
  simp [PT.isVB] at h

theorem insert_ne_none {n : Nat} {t : PT} {key : List Nib} (hu : Uniform n t) (hk : key.length = n)
    (v : Bytes) (w : Nat) : t.insert key v w ≠ .none := by
  intro h
  have := lookup_insert_insVal hu hk hk v w
  rw [h] at this
  simp [PT.lookup_none] at this

/-! ### 1. insert keeps the tree canonical -/

theorem canon_insert {n : Nat} {t : PT} {key : List Nib} (hu : Uniform n t) (hc : Canon t)
    (hk : key.length = n) (v : Bytes) (w : Nat) : Canon (t.insert key v w) := by
  induction t generalizing n key with
  | none => cases key <;> simp [PT.insert, Canon]
  | value vv vw =>
    simp only [Uniform] at hu
    subst hu
    have : key = [] := List.eq_nil_of_length_eq_zero hk
    subst this
    simp only [PT.insert]
    split <;> simp [Canon]
  | short sk c ih =>
    obtain ⟨s, rfl⟩ := exists_nibs sk hu.2.1
    obtain ⟨hs, hle, hvb, huc⟩ := uniform_short_iff.mp hu
    simp only [Canon] at hc
    rcases cp_cases s key (by omega) with ⟨K2, rfl⟩ | ⟨a, i1, s', i2, K', rfl, rfl, hne⟩
    · rw [PT.insert_short_prefix _ _ hs]
      have hk2 : K2.length = n - s.length := by simp at hk; omega
      simp only [Canon]
      exact ih huc hc hk2
    · rw [PT.insert_short_split _ _ _ _ _ hne]
      apply canon_mkShort
      refine ⟨⟨i1, i2, hne, ?_, ?_⟩, fun i => ?_⟩
      · have : ¬ i1 = i2 := hne
        simp only [PT.updP, this, if_false, if_true]
        exact mkShort_ne_none (isVB_ne_none hvb)
      · simp only [PT.updP, if_true]
        exact mkShort_ne_none (by simp)
      · unfold PT.updP
        by_cases h2 : i = i2
        · simp only [h2, if_true]
          exact canon_mkShort (by simp [Canon])
        · simp only [h2, if_false]
          by_cases h1 : i = i1
          · simp only [h1, if_true]
            exact canon_mkShort hc
          · simp [h1, PT.noChP, Canon]
  | branch ch ih =>
    simp only [Uniform] at hu
    obtain ⟨⟨i, j, hij, hi, hj⟩, hall⟩ := hc
    cases key with
    | nil => simp at hk; omega
    | cons k ks =>
      have hks : ks.length = n - 1 := by simp at hk; omega
      simp only [PT.insert]
      have hne := insert_ne_none (hu.2 k) hks v w
      refine ⟨⟨i, j, hij, ?_, ?_⟩, fun x => ?_⟩
      · unfold PT.updP; split
        · exact hne
        · exact hi
      · unfold PT.updP; split
        · exact hne
        · exact hj
      · unfold PT.updP
        by_cases h : x = k
        · simp only [h, if_true]
          exact ih k (hu.2 k) (hall k) hks
        · simp only [h, if_false]; exact hall x

/-! ### 2. delete keeps the tree canonical -/

theorem sole_none_two {ch : Nib → PT} {i : Nib} (hs : PT.sole ch = Option.none) (hi : ch i ≠ .none) :
    ∃ j, j ≠ i ∧ ch j ≠ .none := by
  unfold PT.sole at hs
  have hmem : ∀ x, x ∈ allNib.filter (fun i => !(ch i).isNone) ↔ ch x ≠ .none := by
    intro x
    rw [ne_eq, ← PT.isNone_iff]
    simp [List.mem_filter, allNib, List.mem_finRange]
  have hnd : (allNib.filter (fun i => !(ch i).isNone)).Nodup := (List.nodup_finRange 16).filter _
  generalize allNib.filter (fun i => !(ch i).isNone) = l at hs hmem hnd
  match l, hs, hmem, hnd with
  | [], _, hmem, _ => exact absurd ((hmem i).mpr hi) (by simp)
  | [x], hs, _, _ => simp at hs
  | a :: b :: rest, _, hmem, hnd =>
    have hab : a ≠ b := by intro h; simp [h] at hnd
    by_cases ha : a = i
    · exact ⟨b, by rw [← ha]; exact hab.symm, (hmem b).mp (by simp)⟩
    · exact ⟨a, ha, (hmem a).mp (by simp)⟩

theorem canon_delete {n : Nat} {t t' : PT} {key : List Nib} (hu : Uniform n t) (hc : Canon t)
    (hk : key.length = n) (hd : t.delete key = some t') : Canon t' := by
  induction t generalizing n key t' with
  | none => simp [PT.delete] at hd
  | value vv vw =>
    simp only [PT.delete, Option.some.injEq] at hd
    subst hd; exact canon_none
  | short sk c ih =>
    obtain ⟨s, rfl⟩ := exists_nibs sk hu.2.1
    obtain ⟨hs, hle, hvb, huc⟩ := uniform_short_iff.mp hu
    simp only [Canon] at hc
    rcases cp_cases s key (by omega) with ⟨K2, rfl⟩ | ⟨a, i1, s', i2, K', rfl, rfl, hne⟩
    · rw [PT.delete_short_prefix] at hd
      have hk2 : K2.length = n - s.length := by simp at hk; omega
      by_cases hK : K2 = []
      · simp only [hK, if_true, Option.some.injEq] at hd
        subst hd; exact canon_none
      · simp only [hK, if_false] at hd
        cases hd2 : PT.delete c K2 with
        | none => simp [hd2] at hd
        | some r =>
          have hr := ih huc hc hk2 hd2
          rw [hd2] at hd
          cases r with
          | short ck cc =>
            simp only [Option.some.injEq] at hd
            subst hd; simpa [Canon] using hr
          | none =>
            simp only [Option.some.injEq] at hd
            subst hd; simp [Canon]
          | value vv vw =>
            simp only [Option.some.injEq] at hd
            subst hd; simp [Canon]
          | branch ch2 =>
            simp only [Option.some.injEq] at hd
            subst hd; simpa [Canon] using hr
    · rw [PT.delete_short_split _ _ _ _ _ hne] at hd
      simp at hd
  | branch ch ih =>
    simp only [Uniform] at hu
    obtain ⟨⟨i, j, hij, hi, hj⟩, hall⟩ := hc
    cases key with
    | nil => simp at hk; omega
    | cons k ks =>
      have hks : ks.length = n - 1 := by simp at hk; omega
      rw [PT.delete_branch_cons] at hd
      cases hd2 : PT.delete (ch k) ks with
      | none => simp [hd2] at hd
      | some r =>
        have hr := ih k (hu.2 k) (hall k) hks hd2
        rw [hd2] at hd
        simp only [Option.map_some, Option.some.injEq] at hd
        have hall' : ∀ x, Canon (PT.updP ch k r x) := by
          intro x; unfold PT.updP; split
          · exact hr
          · exact hall x
        by_cases hrn : r.isNone = true
        · simp only [hrn, Bool.not_true, Bool.false_eq_true, if_false] at hd
          obtain ⟨x, hxk, hx⟩ : ∃ x, x ≠ k ∧ ch x ≠ .none := by
            by_cases h : i = k
            · exact ⟨j, by rw [← h]; exact hij.symm, hj⟩
            · exact ⟨i, h, hi⟩
          have hx' : PT.updP ch k r x ≠ .none := by
            simp only [PT.updP, hxk, if_false]; exact hx
          cases hs : PT.sole (PT.updP ch k r) with
          | none =>
            rw [hs] at hd
            simp only at hd
            subst hd
            obtain ⟨y, hyx, hy⟩ := sole_none_two hs hx'
            exact ⟨⟨x, y, hyx.symm, hx', hy⟩, hall'⟩
          | some pos =>
            rw [hs] at hd
            simp only at hd
            subst hd
            have hp := hall' pos
            unfold PT.collapse
            split
            · rename_i ck cc heq
              rw [heq] at hp
              simpa [Canon] using hp
            · simpa [Canon] using hp
        · simp only [hrn, Bool.not_false, if_true] at hd
          subst hd
          have hr0 : r ≠ .none := fun h => hrn ((PT.isNone_iff r).mpr h)
          refine ⟨⟨i, j, hij, ?_, ?_⟩, hall'⟩
          · unfold PT.updP; split
            · exact hr0
            · exact hi
          · unfold PT.updP; split
            · exact hr0
            · exact hj

/-! ### 3. the shape is determined by the content -/

/-- a non-empty canonical uniform tree binds at least one key -/
theorem exists_lookup {n : Nat} {t : PT} (hu : Uniform n t) (hc : Canon t) (hne : t ≠ .none) :
    ∃ q : List Nib, q.length = n ∧ (t.lookup q).isSome := by
  induction t generalizing n with
  | none => exact absurd rfl hne
  | value vv vw =>
    simp only [Uniform] at hu
    exact ⟨[], by simp [hu], by simp [PT.lookup]⟩
  | short sk c ih =>
    obtain ⟨s, rfl⟩ := exists_nibs sk hu.2.1
    obtain ⟨hs, hle, hvb, huc⟩ := uniform_short_iff.mp hu
    simp only [Canon] at hc
    obtain ⟨q, hq, hl⟩ := ih huc hc (isVB_ne_none hvb)
    exact ⟨s ++ q, by simp; omega, by rw [PT.lookup_short_append]; exact hl⟩
  | branch ch ih =>
    simp only [Uniform] at hu
    obtain ⟨⟨i, j, hij, hi, hj⟩, hall⟩ := hc
    obtain ⟨q, hq, hl⟩ := ih i (hu.2 i) (hall i) hi
    exact ⟨i :: q, by simp; omega, by rw [PT.lookup_branch_cons]; exact hl⟩

/-- a canonical branch binds two keys that differ in the first nibble -/
theorem exists_lookup_branch {n : Nat} {ch : Nib → PT} (hu : Uniform n (.branch ch)) (hc : Canon (.branch ch)) :
    ∃ (i j : Nib) (q1 q2 : List Nib), i ≠ j ∧ ((PT.branch ch).lookup (i :: q1)).isSome ∧
      ((PT.branch ch).lookup (j :: q2)).isSome := by
  simp only [Uniform] at hu
  obtain ⟨⟨i, j, hij, hi, hj⟩, hall⟩ := hc
  obtain ⟨q1, _, h1⟩ := exists_lookup (hu.2 i) (hall i) hi
  obtain ⟨q2, _, h2⟩ := exists_lookup (hu.2 j) (hall j) hj
  exact ⟨i, j, q1, q2, hij, by rw [PT.lookup_branch_cons]; exact h1, by rw [PT.lookup_branch_cons]; exact h2⟩

/-- all bound keys of a short node start with its key -/
theorem prefix_of_lookup_short {s : List Nib} {c : PT} {q : List Nib}
    (h : ((PT.short (s.map nb) c).lookup q).isSome) : s <+: q := by
  rw [PT.lookup_short] at h
  by_cases hp : s <+: q
  · exact hp
  · simp [hp] at h

/-- the bound keys of a canonical branch have no common non-empty prefix -/
theorem branch_not_prefixed {n : Nat} {ch : Nib → PT} (hu : Uniform n (.branch ch)) (hc : Canon (.branch ch))
    {r : List Nib} (hr : r ≠ []) (h : ∀ q, ((PT.branch ch).lookup q).isSome → r <+: q) : False := by
  obtain ⟨i, j, q1, q2, hij, h1, h2⟩ := exists_lookup_branch hu hc
  have p1 := h _ h1
  have p2 := h _ h2
  cases r with
  | nil => exact hr rfl
  | cons x r' =>
    rw [List.cons_prefix_cons] at p1 p2
    exact hij (p1.1.symm.trans p2.1)

theorem short_key_prefix {n : Nat} {s s₂ : List Nib} {c c₂ : PT}
    (hu₁ : Uniform n (.short (s.map nb) c)) (hc₁ : Canon (.short (s.map nb) c))
    (hu₂ : Uniform n (.short (s₂.map nb) c₂)) (hc₂ : Canon (.short (s₂.map nb) c₂))
    (h : ∀ q, (PT.short (s.map nb) c).lookup q = (PT.short (s₂.map nb) c₂).lookup q) : s <+: s₂ := by
  obtain ⟨hs, hle, hvb, huc⟩ := uniform_short_iff.mp hu₁
  obtain ⟨hs₂, hle₂, hvb₂, huc₂⟩ := uniform_short_iff.mp hu₂
  obtain ⟨q, hq, hl⟩ := exists_lookup hu₁ hc₁ (by simp)
  have p1 := prefix_of_lookup_short hl
  have p2 := prefix_of_lookup_short (h q ▸ hl)
  by_cases hlen : s.length ≤ s₂.length
  · exact List.prefix_of_prefix_length_le p1 p2 hlen
  · exfalso
    obtain ⟨r, rfl⟩ := List.prefix_of_prefix_length_le p2 p1 (by omega)
    have hr : r ≠ [] := by rintro rfl; simp at hlen
    have hrl : r.length ≠ 0 := by simpa using hr
    simp only [Canon] at hc₂
    cases c₂ with
    | none => simp [PT.isVB] at hvb₂
    | short _ _ => simp [PT.isVB] at hvb₂
    | value vv vw =>
      simp only [Uniform] at huc₂
      simp only [List.length_append] at hle
      omega
    | branch ch₂ =>
      refine branch_not_prefixed huc₂ hc₂ hr (fun q2 hq2 => ?_)
      have h3 : ((PT.short (s₂.map nb) (.branch ch₂)).lookup (s₂ ++ q2)).isSome := by
        rw [PT.lookup_short_append]; exact hq2
      rw [← h] at h3
      exact (List.prefix_append_right_inj _).mp (prefix_of_lookup_short h3)

theorem lookup_eq_none_of_length {n : Nat} {t : PT} {q : List Nib} (hu : Uniform n t) (hq : q.length ≠ n) :
    t.lookup q = none := by
  cases h : t.lookup q with
  | none => rfl
  | some r => exact absurd (lookup_length hu h) hq

theorem canon_unique_aux {n : Nat} {t₁ t₂ : PT} (hu₁ : Uniform n t₁) (hc₁ : Canon t₁) (hu₂ : Uniform n t₂)
    (hc₂ : Canon t₂) (h : ∀ q, t₁.lookup q = t₂.lookup q) : t₁ = t₂ := by
  induction t₁ generalizing n t₂ with
  | none =>
    by_cases hne : t₂ = .none
    · exact hne.symm
    · obtain ⟨q, _, hl⟩ := exists_lookup hu₂ hc₂ hne
      rw [← h, PT.lookup_none] at hl
      simp at hl
  | value vv vw =>
    simp only [Uniform] at hu₁
    subst hu₁
    cases t₂ with
    | none => have := h []; simp [PT.lookup] at this
    | value v2 w2 =>
      have := h []
      simp only [PT.lookup, Option.some.injEq, Prod.mk.injEq] at this
      rw [this.1, this.2]
    | short sk c =>
      exfalso
      obtain ⟨h1, _, h3, _⟩ := hu₂
      cases sk with
      | nil => exact h1 rfl
      | cons _ _ => simp at h3
    | branch ch => simp [Uniform] at hu₂
  | short sk c ih =>
    obtain ⟨s, rfl⟩ := exists_nibs sk hu₁.2.1
    obtain ⟨hs, hle, hvb, huc⟩ := uniform_short_iff.mp hu₁
    cases t₂ with
    | none =>
      exfalso
      obtain ⟨q, _, hl⟩ := exists_lookup hu₁ hc₁ (by simp)
      rw [h, PT.lookup_none] at hl
      simp at hl
    | value v2 w2 =>
      simp only [Uniform] at hu₂
      subst hu₂
      simp only [Nat.le_zero, List.length_eq_zero_iff] at hle
      exact absurd hle hs
    | branch ch₂ =>
      exfalso
      exact branch_not_prefixed hu₂ hc₂ hs (fun q hq => prefix_of_lookup_short (by rw [h]; exact hq))
    | short sk₂ c₂ =>
      obtain ⟨s₂, rfl⟩ := exists_nibs sk₂ hu₂.2.1
      have p1 := short_key_prefix hu₁ hc₁ hu₂ hc₂ h
      have p2 := short_key_prefix hu₂ hc₂ hu₁ hc₁ (fun q => (h q).symm)
      have e : s = s₂ := p1.eq_of_length_le p2.length_le
      subst e
      obtain ⟨_, _, _, huc₂⟩ := uniform_short_iff.mp hu₂
      simp only [Canon] at hc₁ hc₂
      have := ih huc hc₁ huc₂ hc₂ (fun q => by
        have := h (s ++ q)
        rwa [PT.lookup_short_append, PT.lookup_short_append] at this)
      rw [this]
  | branch ch ih =>
    cases t₂ with
    | none =>
      exfalso
      obtain ⟨q, _, hl⟩ := exists_lookup hu₁ hc₁ (by simp)
      rw [h, PT.lookup_none] at hl
      simp at hl
    | value v2 w2 =>
      simp only [Uniform] at hu₁ hu₂
      omega
    | short sk₂ c₂ =>
      exfalso
      obtain ⟨s₂, rfl⟩ := exists_nibs sk₂ hu₂.2.1
      obtain ⟨hs₂, _, _, _⟩ := uniform_short_iff.mp hu₂
      exact branch_not_prefixed hu₁ hc₁ hs₂ (fun q hq => prefix_of_lookup_short (by rw [← h]; exact hq))
    | branch ch₂ =>
      simp only [Uniform] at hu₁ hu₂
      have : ch = ch₂ := by
        funext i
        exact ih i (hu₁.2 i) (hc₁.2 i) (hu₂.2 i) (hc₂.2 i) (fun q => by
          have := h (i :: q)
          rwa [PT.lookup_branch_cons, PT.lookup_branch_cons] at this)
      rw [this]

/-- two canonical uniform trees denoting the same map are equal -/
theorem canon_unique {n : Nat} {t₁ t₂ : PT} (hu₁ : Uniform n t₁) (hc₁ : Canon t₁) (hu₂ : Uniform n t₂)
    (hc₂ : Canon t₂) (h : ∀ q : List Nib, q.length = n → t₁.lookup q = t₂.lookup q) : t₁ = t₂ := by
  refine canon_unique_aux hu₁ hc₁ hu₂ hc₂ (fun q => ?_)
  by_cases hq : q.length = n
  · exact h q hq
  · rw [lookup_eq_none_of_length hu₁ hq, lookup_eq_none_of_length hu₂ hq]

/-! ### 4. the root hash does not depend on the history -/

theorem hash_history_independent (H : Bytes → Bytes) {n : Nat} {t₁ t₂ : PT} (hu₁ : Uniform n t₁) (hc₁ : Canon t₁)
    (hu₂ : Uniform n t₂) (hc₂ : Canon t₂) (h : ∀ q : List Nib, q.length = n → t₁.lookup q = t₂.lookup q) :
    t₁.hash H = t₂.hash H := by
  rw [canon_unique hu₁ hc₁ hu₂ hc₂ h]

/-- the trees reachable from the empty trie by inserts and successful deletes of keys of length `n` -/
inductive Reach (n : Nat) : PT → Prop
  | empty : Reach n .none
  | insert {t : PT} (key : List Nib) (v : Bytes) (w : Nat) : Reach n t → key.length = n → Reach n (t.insert key v w)
  | delete {t t' : PT} (key : List Nib) : Reach n t → key.length = n → t.delete key = some t' → Reach n t'

theorem reach_uniform_canon {n : Nat} {t : PT} (h : Reach n t) : Uniform n t ∧ Canon t := by
  induction h with
  | empty => exact ⟨uniform_none n, canon_none⟩
  | insert key v w _ hk ih => exact ⟨uniform_insert ih.1 hk v w, canon_insert ih.1 ih.2 hk v w⟩
  | delete key _ hk hd ih => exact ⟨uniform_delete ih.1 hk hd, canon_delete ih.1 ih.2 hk hd⟩

/-- whatever the history, two reachable tries with the same content are the same tree -/
theorem reach_unique {n : Nat} {t₁ t₂ : PT} (h₁ : Reach n t₁) (h₂ : Reach n t₂)
    (h : ∀ q : List Nib, q.length = n → t₁.lookup q = t₂.lookup q) : t₁ = t₂ :=
  canon_unique (reach_uniform_canon h₁).1 (reach_uniform_canon h₁).2 (reach_uniform_canon h₂).1
    (reach_uniform_canon h₂).2 h

/-- ... and have the same root hash -/
theorem reach_hash_eq (H : Bytes → Bytes) {n : Nat} {t₁ t₂ : PT} (h₁ : Reach n t₁) (h₂ : Reach n t₂)
    (h : ∀ q : List Nib, q.length = n → t₁.lookup q = t₂.lookup q) : t₁.hash H = t₂.hash H := by
  rw [reach_unique h₁ h₂ h]

/-! ### 5. an independent construction of the canonical tree from the content -/

/-- an entry with its key as nibbles -/
abbrev NEntry := List Nib × Bytes × Nat

/-- association-list lookup (first match) -/
def alookup : List NEntry → List Nib → Option (Bytes × Nat)
  | [], _ => none
  | e :: es, q => if e.1 = q then some e.2 else alookup es q

/-- the entries whose key starts with nibble `i`, with that nibble stripped -/
def grp (es : List NEntry) (i : Nib) : List NEntry :=
  es.filterMap (fun e => match e.1 with
    | j :: ks => if j = i then some (ks, e.2) else none
    | [] => none)

/-- the canonical node with children `ch`: nothing, the sole child under a (merged) short node, or a branch -/
def norm (ch : Nib → PT) : PT :=
  if allNib.all (fun i => (ch i).isNone) then .none
  else match PT.sole ch with
    | some pos => PT.collapse ch pos
    | none => .branch ch

/-- the canonical tree of depth `n` for an association list: group on the first nibble, normalise -/
def canonOf : Nat → List NEntry → PT
  | 0, [] => .none
  | 0, e :: _ => .value e.2.1 e.2.2
  | n + 1, es => norm (fun i => canonOf n (grp es i))

theorem alookup_grp (es : List NEntry) (i : Nib) (q : List Nib) : alookup (grp es i) q = alookup es (i :: q) := by
  induction es with
  | nil => simp [grp, alookup]
  | cons e es ih =>
    obtain ⟨k, r⟩ := e
    cases k with
    | nil =>
      have : grp (([], r) :: es) i = grp es i := by simp [grp]
      rw [this, ih]; simp [alookup]
    | cons j ks =>
      by_cases hj : j = i
      · subst hj
        have : grp ((j :: ks, r) :: es) j = (ks, r) :: grp es j := by simp [grp]
        rw [this]
        simp only [alookup, List.cons.injEq, true_and]
        rw [ih]
      · have : grp ((j :: ks, r) :: es) i = grp es i := by simp [grp, hj]
        rw [this, ih]
        simp [alookup, hj]

theorem grp_length {n : Nat} {es : List NEntry} (h : ∀ e ∈ es, e.1.length = n + 1) (i : Nib) :
    ∀ e ∈ grp es i, e.1.length = n := by
  intro e he
  simp only [grp, List.mem_filterMap] at he
  obtain ⟨e0, hm, heq⟩ := he
  have hl := h e0 hm
  obtain ⟨k, r⟩ := e0
  cases k with
  | nil => simp at heq
  | cons j ks =>
    simp only at heq
    split at heq
    · simp only [Option.some.injEq] at heq
      subst heq
      simpa using hl
    · simp at heq

theorem canon_collapse {ch : Nib → PT} {pos : Nib} (h : Canon (ch pos)) : Canon (PT.collapse ch pos) := by
  unfold PT.collapse
  split
  · rename_i ck cc heq
    rw [heq] at h
    simpa [Canon] using h
  · simpa [Canon] using h

theorem norm_spec {n : Nat} {ch : Nib → PT} (hu : ∀ i, Uniform n (ch i)) (hc : ∀ i, Canon (ch i)) :
    Uniform (n + 1) (norm ch) ∧ Canon (norm ch) ∧ ∀ q, (norm ch).lookup q = (PT.branch ch).lookup q := by
  have hub : Uniform (n + 1) (.branch ch) := ⟨by omega, fun i => by simpa using hu i⟩
  unfold norm
  split
  · rename_i hall
    refine ⟨uniform_none _, canon_none, fun q => ?_⟩
    have hn : ∀ i, ch i = .none := by
      intro i
      have := List.all_eq_true.mp hall i (List.mem_finRange i)
      exact (PT.isNone_iff _).mp this
    cases q with
    | nil => simp [PT.lookup]
    | cons j qs => rw [PT.lookup_branch_cons, hn j, PT.lookup_none, PT.lookup_none]
  · rename_i hall
    cases hs : PT.sole ch with
    | some pos =>
      obtain ⟨h1, h2⟩ := PT.collapse_spec hub hs
      exact ⟨h1, canon_collapse (hc pos), h2⟩
    | none =>
      refine ⟨hub, ⟨?_, hc⟩, fun q => rfl⟩
      have : ∃ i, ch i ≠ .none := by
        apply Classical.byContradiction
        intro hne
        apply hall
        refine List.all_eq_true.mpr (fun i _ => ?_)
        apply (PT.isNone_iff _).mpr
        apply Classical.byContradiction
        intro hi
        exact hne ⟨i, hi⟩
      obtain ⟨i, hi⟩ := this
      obtain ⟨j, hji, hj⟩ := sole_none_two hs hi
      exact ⟨i, j, hji.symm, hi, hj⟩

theorem canonOf_spec (n : Nat) (es : List NEntry) (h : ∀ e ∈ es, e.1.length = n) :
    Uniform n (canonOf n es) ∧ Canon (canonOf n es) ∧
      ∀ q : List Nib, q.length = n → (canonOf n es).lookup q = alookup es q := by
  induction n generalizing es with
  | zero =>
    cases es with
    | nil => exact ⟨uniform_none 0, canon_none, fun q _ => by simp [canonOf, PT.lookup, alookup]⟩
    | cons e es =>
      refine ⟨by simp [canonOf, Uniform], by simp [canonOf, Canon], fun q hq => ?_⟩
      have hq0 : q = [] := List.eq_nil_of_length_eq_zero hq
      have he : e.1 = [] := List.eq_nil_of_length_eq_zero (h e List.mem_cons_self)
      subst hq0
      simp [canonOf, PT.lookup, alookup, he]
  | succ n ih =>
    have ihs := fun i => ih (grp es i) (grp_length h i)
    obtain ⟨h1, h2, h3⟩ := norm_spec (ch := fun i => canonOf n (grp es i)) (fun i => (ihs i).1) (fun i => (ihs i).2.1)
    refine ⟨h1, h2, fun q hq => ?_⟩
    show (norm _).lookup q = _
    rw [h3]
    cases q with
    | nil => simp at hq
    | cons j qs =>
      rw [PT.lookup_branch_cons, (ihs j).2.2 qs (by simpa using hq), alookup_grp]

theorem uniform_canonOf {n : Nat} {es : List NEntry} (h : ∀ e ∈ es, e.1.length = n) : Uniform n (canonOf n es) :=
  (canonOf_spec n es h).1

theorem canon_canonOf {n : Nat} {es : List NEntry} (h : ∀ e ∈ es, e.1.length = n) : Canon (canonOf n es) :=
  (canonOf_spec n es h).2.1

theorem lookup_canonOf {n : Nat} {es : List NEntry} (h : ∀ e ∈ es, e.1.length = n) {q : List Nib}
    (hq : q.length = n) : (canonOf n es).lookup q = alookup es q :=
  (canonOf_spec n es h).2.2 q hq

/-- a canonical uniform tree is the canonical tree of any association list denoting the same map -/
theorem eq_canonOf {n : Nat} {t : PT} {es : List NEntry} (hu : Uniform n t) (hc : Canon t)
    (h : ∀ e ∈ es, e.1.length = n) (hl : ∀ q : List Nib, q.length = n → t.lookup q = alookup es q) :
    t = canonOf n es :=
  canon_unique hu hc (uniform_canonOf h) (canon_canonOf h) (fun q hq => by rw [hl q hq, lookup_canonOf h hq])

/-! #### the tree is the canonical tree of its own entry list -/

/-- key bytes back to nibbles -/
def toNibs (k : Bytes) : List Nib := k.filterMap nibOf

theorem toNibs_map_nb (s : List Nib) : toNibs (s.map nb) = s := by
  induction s with
  | nil => rfl
  | cons x xs ih =>
    unfold toNibs at ih ⊢
    rw [List.map_cons, List.filterMap_cons, nibOf_nb]
    simp only
    rw [ih]

/-- the live entries with their keys as nibbles -/
def PT.entriesN (t : PT) : List NEntry := t.entries.map (fun e => (toNibs e.1, e.2))

theorem mem_entriesN_iff {n : Nat} {t : PT} (hu : Uniform n t) (q : List Nib) (r : Bytes × Nat) :
    (q, r) ∈ t.entriesN ↔ q.length = n ∧ t.lookup q = some r := by
  obtain ⟨v, w⟩ := r
  simp only [PT.entriesN, List.mem_map]
  constructor
  · rintro ⟨⟨k, v', w'⟩, hm, heq⟩
    simp only [Prod.mk.injEq] at heq
    obtain ⟨hk, rfl, rfl⟩ := heq
    obtain ⟨key, hlen, rfl, hl⟩ := (mem_entries_iff hu k v' w').mp hm
    rw [toNibs_map_nb] at hk
    subst hk
    exact ⟨hlen, hl⟩
  · rintro ⟨hlen, hl⟩
    exact ⟨(q.map nb, v, w), (mem_entries_iff hu _ v w).mpr ⟨q, hlen, rfl, hl⟩, by simp [toNibs_map_nb]⟩

theorem alookup_some_mem {es : List NEntry} {q : List Nib} {r : Bytes × Nat} (h : alookup es q = some r) :
    (q, r) ∈ es := by
  induction es with
  | nil => simp [alookup] at h
  | cons e es ih =>
    simp only [alookup] at h
    split at h
    · rename_i he
      simp only [Option.some.injEq] at h
      obtain ⟨k, r'⟩ := e
      simp only at he h
      subst he h
      exact List.mem_cons_self
    · exact List.mem_cons_of_mem _ (ih h)

theorem alookup_none_not_mem {es : List NEntry} {q : List Nib} (h : alookup es q = none) (r : Bytes × Nat) :
    (q, r) ∉ es := by
  induction es with
  | nil => simp
  | cons e es ih =>
    simp only [alookup] at h
    split at h
    · simp at h
    · rename_i he
      intro hm
      rcases List.mem_cons.mp hm with rfl | hm
      · exact he rfl
      · exact ih h hm

theorem lookup_eq_alookup_entriesN {n : Nat} {t : PT} (hu : Uniform n t) {q : List Nib} (hq : q.length = n) :
    t.lookup q = alookup t.entriesN q := by
  cases h : alookup t.entriesN q with
  | some r => exact ((mem_entriesN_iff hu q r).mp (alookup_some_mem h)).2
  | none =>
    cases h2 : t.lookup q with
    | none => rfl
    | some r => exact absurd ((mem_entriesN_iff hu q r).mpr ⟨hq, h2⟩) (alookup_none_not_mem h r)

/-- a canonical uniform tree is rebuilt from its entry list alone -/
theorem eq_canonOf_entries {n : Nat} {t : PT} (hu : Uniform n t) (hc : Canon t) : t = canonOf n t.entriesN :=
  eq_canonOf hu hc (fun e he => ((mem_entriesN_iff hu e.1 e.2).mp he).1)
    (fun _ hq => lookup_eq_alookup_entriesN hu hq)

/-- the root hash of a reachable trie is a function of its entry list -/
theorem reach_hash_entries (H : Bytes → Bytes) {n : Nat} {t : PT} (h : Reach n t) :
    t.hash H = (canonOf n t.entriesN).hash H := by
  have := eq_canonOf_entries (reach_uniform_canon h).1 (reach_uniform_canon h).2
  exact congrArg (PT.hash H) this

/-- two canonical uniform trees with the same entry list are equal -/
theorem canon_entries_unique {n : Nat} {t₁ t₂ : PT} (hu₁ : Uniform n t₁) (hc₁ : Canon t₁) (hu₂ : Uniform n t₂)
    (hc₂ : Canon t₂) (h : t₁.entries = t₂.entries) : t₁ = t₂ := by
  rw [eq_canonOf_entries hu₁ hc₁, eq_canonOf_entries hu₂ hc₂, PT.entriesN, PT.entriesN, h]

end Verif.Wmpt
