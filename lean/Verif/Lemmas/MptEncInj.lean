/-
The node-hash format (`Verif.Model.MptEnc`): parsing facts, the type-confusion collisions, and injectivity of the
root key on canonical tries under an explicit type-unambiguity condition.  Core Lean only.

The hash input of a node carries no node-type tag:
  leaf      : LE64(o) ++ hex(prefix) ++ ':' ++ hex(path) ++ ':' ++ value
  full      : LE64(o) ++ (hex(child key)? ++ ':') × 16 ++ value?
  extension : LE64(o) ++ hex(path) ++ ':' ++ raw child key
so that encodings of different node types at the same position can coincide (see `Unamb`).
-/
import Verif.Model.MptEnc
import Verif.Lemmas.MptCanon
namespace Verif.Mpt

/-! ### bytes, nibbles, hex -/

theorem nibChar_ne_sep : ∀ n : Nib, nibChar n ≠ sep := by decide

theorem nibChar_inj : ∀ a b : Nib, nibChar a = nibChar b → a = b := by decide

theorem map_nibChar_sepFree (l : List Nib) : ∀ x ∈ l.map nibChar, x ≠ sep := by
  intro x hx
  obtain ⟨n, _, rfl⟩ := List.mem_map.mp hx
  exact nibChar_ne_sep n

theorem map_nibChar_inj : ∀ l₁ l₂ : List Nib, l₁.map nibChar = l₂.map nibChar → l₁ = l₂ := by
  intro l₁
  induction l₁ with
  | nil => intro l₂ h; cases l₂ <;> simp at h ⊢
  | cons a r ih =>
    intro l₂ h
    cases l₂ with
    | nil => simp at h
    | cons b s =>
      simp only [List.map_cons, List.cons.injEq] at h
      rw [nibChar_inj a b h.1, ih s h.2]

/-- the nibbles of a byte string (high nibble first) -/
def toNibs (b : Bytes) : List Nib :=
  b.flatMap (fun x => [⟨x.toNat / 16, Nat.div_lt_of_lt_mul (UInt8.toNat_lt x)⟩, ⟨x.toNat % 16, Nat.mod_lt _ (by decide)⟩])

/-- `hexBytes` is the nibble string of its argument rendered with `nibChar` -/
theorem hexBytes_eq (b : Bytes) : hexBytes b = (toNibs b).map nibChar := by
  induction b with
  | nil => rfl
  | cons x r ih =>
    simp only [hexBytes, toNibs, List.flatMap_cons, List.map_append] at ih ⊢
    rw [ih]
    rfl

theorem toNibs_length (b : Bytes) : (toNibs b).length = 2 * b.length := by
  induction b with
  | nil => rfl
  | cons y r ih =>
    simp only [toNibs, List.flatMap_cons, List.length_append, List.length_cons, List.length_nil] at ih ⊢
    omega

theorem hexBytes_sepFree (b : Bytes) : ∀ x ∈ hexBytes b, x ≠ sep := by
  rw [hexBytes_eq]; exact map_nibChar_sepFree _

theorem toNibs_inj : ∀ a b : Bytes, toNibs a = toNibs b → a = b := by
  intro a
  induction a with
  | nil => intro b h; cases b <;> simp [toNibs] at h ⊢
  | cons x r ih =>
    intro b h
    cases b with
    | nil => simp [toNibs] at h
    | cons y s =>
      simp only [toNibs, List.flatMap_cons, List.cons_append, List.nil_append, List.cons.injEq, Fin.mk.injEq] at h
      obtain ⟨h1, h2, h3⟩ := h
      have hxy : x = y := by
        apply UInt8.toNat_inj.mp
        have e1 := Nat.div_add_mod x.toNat 16
        have e2 := Nat.div_add_mod y.toNat 16
        omega
      rw [hxy, ih s h3]

theorem hexBytes_inj (a b : Bytes) (h : hexBytes a = hexBytes b) : a = b := by
  rw [hexBytes_eq, hexBytes_eq] at h
  exact toNibs_inj a b (map_nibChar_inj _ _ h)

theorem hexBytes_eq_nil {a : Bytes} (h : hexBytes a = []) : a = [] := hexBytes_inj a [] h

theorem finRange16 : List.finRange 16 = [0, 1, 2, 3, 4, 5, 6, 7, 8, 9, 10, 11, 12, 13, 14, 15] := by decide

/-! ### splitting at the first separator -/

theorem split_sep_unique : ∀ (s₁ s₂ r₁ r₂ : Bytes), (∀ x ∈ s₁, x ≠ sep) → (∀ x ∈ s₂, x ≠ sep) →
    s₁ ++ sep :: r₁ = s₂ ++ sep :: r₂ → s₁ = s₂ ∧ r₁ = r₂ := by
  intro s₁
  induction s₁ with
  | nil =>
    intro s₂ r₁ r₂ _ h₂ h
    cases s₂ with
    | nil => simpa using h
    | cons b s =>
      simp only [List.nil_append, List.cons_append, List.cons.injEq] at h
      exact absurd h.1.symm (h₂ b (by simp))
  | cons a s ih =>
    intro s₂ r₁ r₂ h₁ h₂ h
    cases s₂ with
    | nil =>
      simp only [List.nil_append, List.cons_append, List.cons.injEq] at h
      exact absurd h.1 (h₁ a (by simp))
    | cons b s' =>
      simp only [List.cons_append, List.cons.injEq] at h
      obtain ⟨e1, e2⟩ := ih s' r₁ r₂ (fun x hx => h₁ x (by simp [hx])) (fun x hx => h₂ x (by simp [hx])) h.2
      exact ⟨by rw [h.1, e1], e2⟩

/-! ### the hash input of a node -/

/-- hash input (`GetHashBytes` before hashing) of the node `t` located at position `pre` -/
def enc (H : Bytes → Bytes) : Node → List Nib → Bytes
  | .empty, _ => []
  | .leaf o lp lv, pre => le64 o ++ pre.map nibChar ++ [sep] ++ lp.map nibChar ++ [sep] ++ lv
  | .full o ch val, pre =>
    le64 o
      ++ (List.finRange 16).flatMap (fun i =>
            (if (ch i).isEmpty then [] else hexBytes (key H (ch i) (pre ++ [i]))) ++ [sep])
      ++ (match val with | some b => b | none => [])
  | .ext o ep c, pre => le64 o ++ ep.map nibChar ++ [sep] ++ key H c (pre ++ ep)

theorem key_eq_enc (H : Bytes → Bytes) {t : Node} (pre : List Nib) (h : t.isEmpty = false) :
    key H t pre = H (enc H t pre) := by
  cases t with
  | empty => simp [Node.isEmpty] at h
  | _ => rfl

/-- the `i`-th child slot of a branch encoding (without its separator) -/
def seg (H : Bytes → Bytes) (ch : Nib → Node) (pre : List Nib) (i : Nib) : Bytes :=
  if (ch i).isEmpty then [] else hexBytes (key H (ch i) (pre ++ [i]))

def segs (H : Bytes → Bytes) (ch : Nib → Node) (pre : List Nib) (l : List Nib) : Bytes :=
  l.flatMap (fun i => seg H ch pre i ++ [sep])

def valBytes : Option Bytes → Bytes
  | some b => b
  | none => []

theorem segs_cons (H : Bytes → Bytes) (ch : Nib → Node) (pre : List Nib) (i : Nib) (l : List Nib) :
    segs H ch pre (i :: l) = seg H ch pre i ++ sep :: segs H ch pre l := by
  simp [segs]

theorem seg_sepFree (H : Bytes → Bytes) (ch : Nib → Node) (pre : List Nib) (i : Nib) :
    ∀ x ∈ seg H ch pre i, x ≠ sep := by
  unfold seg
  split
  · intro x hx; cases hx
  · exact hexBytes_sepFree _

theorem enc_leaf (H : Bytes → Bytes) (o : Nat) (lp : List Nib) (lv : Bytes) (pre : List Nib) :
    enc H (.leaf o lp lv) pre = le64 o ++ (pre.map nibChar ++ sep :: (lp.map nibChar ++ sep :: lv)) := by
  simp [enc]

theorem enc_ext (H : Bytes → Bytes) (o : Nat) (ep : List Nib) (c : Node) (pre : List Nib) :
    enc H (.ext o ep c) pre = le64 o ++ (ep.map nibChar ++ sep :: key H c (pre ++ ep)) := by
  simp [enc]

theorem enc_full (H : Bytes → Bytes) (o : Nat) (ch : Nib → Node) (val : Option Bytes) (pre : List Nib) :
    enc H (.full o ch val) pre = le64 o ++ (segs H ch pre (List.finRange 16) ++ valBytes val) := by
  cases val <;> simp [enc, segs, seg, valBytes]

theorem segs_inj (H : Bytes → Bytes) (ch₁ ch₂ : Nib → Node) (pre : List Nib) :
    ∀ (l : List Nib) (v₁ v₂ : Bytes), segs H ch₁ pre l ++ v₁ = segs H ch₂ pre l ++ v₂ →
      (∀ i ∈ l, seg H ch₁ pre i = seg H ch₂ pre i) ∧ v₁ = v₂ := by
  intro l
  induction l with
  | nil => intro v₁ v₂ h; exact ⟨fun i hi => (by cases hi), (by simpa [segs] using h)⟩
  | cons i l ih =>
    intro v₁ v₂ h
    rw [segs_cons, segs_cons, List.append_assoc, List.append_assoc, List.cons_append, List.cons_append] at h
    obtain ⟨e1, e2⟩ := split_sep_unique _ _ _ _ (seg_sepFree H ch₁ pre i) (seg_sepFree H ch₂ pre i) h
    obtain ⟨e3, e4⟩ := ih v₁ v₂ e2
    refine ⟨fun j hj => ?_, e4⟩
    cases hj with
    | head => exact e1
    | tail _ hj => exact e3 j hj

theorem count_sep_segs (H : Bytes → Bytes) (ch : Nib → Node) (pre : List Nib) (l : List Nib) (v : Bytes) :
    l.length ≤ (segs H ch pre l ++ v).count sep := by
  induction l with
  | nil => simp
  | cons i l ih =>
    rw [segs_cons, List.append_assoc, List.cons_append, List.count_append, List.count_cons]
    simp only [List.length_cons, beq_self_eq_true, if_true]
    omega

/-! ### the type-unambiguity condition -/

/-- `k` starts with (zero or more) hex digits followed by the separator `:` -/
def HexSepPrefixed (k : Bytes) : Prop := ∃ (lp : List Nib) (r : Bytes), k = lp.map nibChar ++ sep :: r

/-- the nibble string `l` spells the hex form of some hash value -/
def IsHexKey (H : Bytes → Bytes) (l : List Nib) : Prop := ∃ x, l.map nibChar = hexBytes (H x)

/-- **Type-unambiguity** of the trie `t` located at position `pre`.  It excludes exactly the shapes whose untagged
    hash input can be re-read as a node of another type:
    * a leaf whose position is `[]` or spells a hash (the slot of child 0 of a branch) and whose value contains at least
      14 separator bytes — re-readable as a branch (`leaf ↔ full`);
    * an extension whose path equals its own position (re-readable as a leaf: `ext ↔ leaf`) or spells a hash
      (re-readable as a branch: `ext ↔ full`), and whose child key starts with hex digits followed by `:`. -/
def Unamb (H : Bytes → Bytes) : Node → List Nib → Prop
  | .empty, _ => True
  | .leaf _ _ lv, pre => (pre = [] ∨ IsHexKey H pre) → lv.count sep < 14
  | .full _ ch _, pre => ∀ i, Unamb H (ch i) (pre ++ [i])
  | .ext _ ep c, pre =>
    ((ep = pre ∨ IsHexKey H ep) → ¬ HexSepPrefixed (key H c (pre ++ ep))) ∧ Unamb H c (pre ++ ep)

/-- for a fixed-length hash only nibble strings of twice that length spell a hash -/
theorem isHexKey_length {H : Bytes → Bytes} {n : Nat} (hlen : ∀ x, (H x).length = n) {l : List Nib}
    (h : IsHexKey H l) : l.length = 2 * n := by
  obtain ⟨x, hx⟩ := h
  have := congrArg List.length hx
  rw [hexBytes_eq, List.length_map, List.length_map] at this
  rw [this, toNibs_length, hlen x]

/-! ### hash inputs occurring in a trie, collision freedom -/

/-- `x` is the hash input of some node of the trie `t` located at `pre` -/
def Encs (H : Bytes → Bytes) : Node → List Nib → Bytes → Prop
  | .empty, _, _ => False
  | .leaf o lp lv, pre, x => x = enc H (.leaf o lp lv) pre
  | .full o ch val, pre, x => x = enc H (.full o ch val) pre ∨ ∃ i, Encs H (ch i) (pre ++ [i]) x
  | .ext o ep c, pre, x => x = enc H (.ext o ep c) pre ∨ Encs H c (pre ++ ep) x

theorem encs_self (H : Bytes → Bytes) {t : Node} (pre : List Nib) (h : t.isEmpty = false) :
    Encs H t pre (enc H t pre) := by
  cases t <;> simp [Encs, Node.isEmpty] at *

/-- `H` has no collision between a node hash input of `t₁` and one of `t₂` (both located at `pre`) -/
def CollisionFree (H : Bytes → Bytes) (t₁ t₂ : Node) (pre : List Nib) : Prop :=
  ∀ x y, Encs H t₁ pre x → Encs H t₂ pre y → H x = H y → x = y

theorem collisionFree_of_injective {H : Bytes → Bytes} (h : Function.Injective H) (t₁ t₂ : Node) (pre : List Nib) :
    CollisionFree H t₁ t₂ pre := fun _ _ _ _ e => h e

theorem key_ne_nil {H : Bytes → Bytes} (hne : ∀ x, H x ≠ []) {t : Node} (pre : List Nib) (h : t.isEmpty = false) :
    key H t pre ≠ [] := by
  rw [key_eq_enc H pre h]; exact hne _

theorem eq_empty_of_isEmpty {t : Node} (h : t.isEmpty = true) : t = .empty := by
  cases t <;> simp [Node.isEmpty] at h ⊢

/-! ### encodings of different node types -/

theorem rest14_length : ([2, 3, 4, 5, 6, 7, 8, 9, 10, 11, 12, 13, 14, 15] : List Nib).length = 14 := rfl

theorem seg_nil_or_hexKey (H : Bytes → Bytes) (ch : Nib → Node) (pre : List Nib) (i : Nib) :
    seg H ch pre i = [] ∨ ∃ x, seg H ch pre i = hexBytes (H x) := by
  unfold seg
  cases h : (ch i).isEmpty with
  | true => exact Or.inl (by simp)
  | false => exact Or.inr ⟨enc H (ch i) (pre ++ [i]), by simp [key_eq_enc H _ h]⟩

/-- leaf vs. branch: equal hash inputs force the leaf's position to be `[]` or a hash and its value to contain 14
    separators -/
theorem enc_leaf_ne_full (H : Bytes → Bytes) (v : Nat) (lp : List Nib) (lv : Bytes) (ch : Nib → Node)
    (val : Option Bytes) (pre : List Nib) (hu : (pre = [] ∨ IsHexKey H pre) → lv.count sep < 14) :
    enc H (.leaf v lp lv) pre ≠ enc H (.full v ch val) pre := by
  intro h
  rw [enc_leaf, enc_full, finRange16, segs_cons, segs_cons] at h
  have h := List.append_cancel_left h
  simp only [List.append_assoc, List.cons_append] at h
  obtain ⟨e0, h'⟩ := split_sep_unique _ _ _ _ (map_nibChar_sepFree pre) (seg_sepFree H ch pre 0) h
  obtain ⟨_, e2⟩ := split_sep_unique _ _ _ _ (map_nibChar_sepFree lp) (seg_sepFree H ch pre 1) h'
  have hc := count_sep_segs H ch pre [2, 3, 4, 5, 6, 7, 8, 9, 10, 11, 12, 13, 14, 15] (valBytes val)
  rw [← e2, rest14_length] at hc
  have hpre : pre = [] ∨ IsHexKey H pre := by
    rcases seg_nil_or_hexKey H ch pre 0 with h0 | ⟨x, hx⟩
    · left; rw [h0] at e0; simpa using e0
    · right; exact ⟨x, by rw [e0, hx]⟩
  have := hu hpre
  omega

/-- extension vs. leaf: equal hash inputs force the extension's path to equal its position and its child key to
    start with hex digits and `:` -/
theorem enc_ext_ne_leaf (H : Bytes → Bytes) (v : Nat) (ep : List Nib) (c : Node) (lp : List Nib) (lv : Bytes)
    (pre : List Nib) (hu : (ep = pre ∨ IsHexKey H ep) → ¬ HexSepPrefixed (key H c (pre ++ ep))) :
    enc H (.ext v ep c) pre ≠ enc H (.leaf v lp lv) pre := by
  intro h
  rw [enc_leaf, enc_ext] at h
  have h := List.append_cancel_left h
  obtain ⟨e0, e1⟩ := split_sep_unique _ _ _ _ (map_nibChar_sepFree ep) (map_nibChar_sepFree pre) h
  exact hu (Or.inl (map_nibChar_inj _ _ e0)) ⟨lp, lv, e1⟩

/-- extension vs. branch: equal hash inputs force the extension's path to spell a hash and its child key to start
    with hex digits and `:` -/
theorem enc_ext_ne_full (H : Bytes → Bytes) (v : Nat) (ep : List Nib) (c : Node) (ch : Nib → Node)
    (val : Option Bytes) (pre : List Nib) (hep : ep ≠ [])
    (hu : (ep = pre ∨ IsHexKey H ep) → ¬ HexSepPrefixed (key H c (pre ++ ep))) :
    enc H (.ext v ep c) pre ≠ enc H (.full v ch val) pre := by
  intro h
  rw [enc_ext, enc_full, finRange16, segs_cons, segs_cons] at h
  have h := List.append_cancel_left h
  simp only [List.append_assoc, List.cons_append] at h
  obtain ⟨e0, e1⟩ := split_sep_unique _ _ _ _ (map_nibChar_sepFree ep) (seg_sepFree H ch pre 0) h
  have hk : IsHexKey H ep := by
    rcases seg_nil_or_hexKey H ch pre 0 with h0 | ⟨x, hx⟩
    · rw [h0] at e0; exact absurd (by simpa using e0) hep
    · exact ⟨x, by rw [e0, hx]⟩
  apply hu (Or.inr hk)
  rcases seg_nil_or_hexKey H ch pre 1 with h1 | ⟨x, hx⟩
  · exact ⟨[], _, by rw [e1, h1]; rfl⟩
  · exact ⟨toNibs (H x), _, by rw [e1, hx, hexBytes_eq]⟩

/-! ### injectivity of the node key on canonical, type-unambiguous tries -/

theorem enc_eq_of_key_eq {H : Bytes → Bytes} {t₁ t₂ : Node} {pre : List Nib} (hcf : CollisionFree H t₁ t₂ pre)
    (h1 : t₁.isEmpty = false) (h2 : t₂.isEmpty = false) (h : key H t₁ pre = key H t₂ pre) :
    enc H t₁ pre = enc H t₂ pre := by
  apply hcf _ _ (encs_self H pre h1) (encs_self H pre h2)
  rw [← key_eq_enc H pre h1, ← key_eq_enc H pre h2]; exact h

theorem wfn_of_wf_nonempty {t : Node} (hw : WF t) (h : t.isEmpty = false) : WFn t := by
  cases hw with
  | inl he => rw [h] at he; cases he
  | inr hn => exact hn

theorem valBytes_inj {val₁ val₂ : Option Bytes} (h₁ : ∀ b, val₁ = some b → b ≠ []) (h₂ : ∀ b, val₂ = some b → b ≠ [])
    (h : valBytes val₁ = valBytes val₂) : val₁ = val₂ := by
  cases val₁ with
  | none =>
    cases val₂ with
    | none => rfl
    | some b₂ => exact absurd h.symm (h₂ b₂ rfl)
  | some b₁ =>
    cases val₂ with
    | none => exact absurd h (h₁ b₁ rfl)
    | some b₂ => simp only [valBytes] at h; rw [h]

theorem key_inj (H : Bytes → Bytes) (hne : ∀ x, H x ≠ []) (v : Nat) :
    ∀ (t₁ t₂ : Node) (pre : List Nib), WF t₁ → WF t₂ → AllOrigin v t₁ → AllOrigin v t₂ →
      Unamb H t₁ pre → Unamb H t₂ pre → CollisionFree H t₁ t₂ pre → key H t₁ pre = key H t₂ pre → t₁ = t₂ := by
  intro t₁
  induction t₁ with
  | empty =>
    intro t₂ pre _ _ _ _ _ _ _ h
    cases h2 : t₂.isEmpty with
    | true => exact (eq_empty_of_isEmpty h2).symm
    | false => exact absurd h.symm (by simpa [key] using key_ne_nil hne pre h2)
  | leaf o₁ lp₁ lv₁ =>
    intro t₂ pre hw₁ hw₂ ho₁ ho₂ hu₁ hu₂ hcf h
    cases t₂ with
    | empty => exact absurd h (by simpa [key] using key_ne_nil hne (t := .leaf o₁ lp₁ lv₁) pre rfl)
    | leaf o₂ lp₂ lv₂ =>
      have he := enc_eq_of_key_eq hcf rfl rfl h
      simp only [AllOrigin] at ho₁ ho₂
      subst ho₁; subst ho₂
      rw [enc_leaf, enc_leaf] at he
      have he := List.append_cancel_left he
      obtain ⟨_, he'⟩ := split_sep_unique _ _ _ _ (map_nibChar_sepFree pre) (map_nibChar_sepFree pre) he
      obtain ⟨e1, e2⟩ := split_sep_unique _ _ _ _ (map_nibChar_sepFree lp₁) (map_nibChar_sepFree lp₂) he'
      rw [map_nibChar_inj _ _ e1, e2]
    | full o₂ ch₂ val₂ =>
      have he := enc_eq_of_key_eq hcf rfl rfl h
      simp only [AllOrigin] at ho₁ ho₂
      obtain ⟨ho₂, _⟩ := ho₂
      subst ho₁; subst ho₂
      exact absurd he (enc_leaf_ne_full H _ lp₁ lv₁ ch₂ val₂ pre hu₁)
    | ext o₂ ep₂ c₂ =>
      have he := enc_eq_of_key_eq hcf rfl rfl h
      simp only [AllOrigin] at ho₁ ho₂
      obtain ⟨ho₂, _⟩ := ho₂
      subst ho₁; subst ho₂
      exact absurd he.symm (enc_ext_ne_leaf H _ ep₂ c₂ lp₁ lv₁ pre hu₂.1)
  | full o₁ ch₁ val₁ ih =>
    intro t₂ pre hw₁ hw₂ ho₁ ho₂ hu₁ hu₂ hcf h
    cases t₂ with
    | empty => exact absurd h (by simpa [key] using key_ne_nil hne (t := .full o₁ ch₁ val₁) pre rfl)
    | leaf o₂ lp₂ lv₂ =>
      have he := enc_eq_of_key_eq hcf rfl rfl h
      simp only [AllOrigin] at ho₁ ho₂
      obtain ⟨ho₁, _⟩ := ho₁
      subst ho₁; subst ho₂
      exact absurd he.symm (enc_leaf_ne_full H _ lp₂ lv₂ ch₁ val₁ pre hu₂)
    | ext o₂ ep₂ c₂ =>
      have he := enc_eq_of_key_eq hcf rfl rfl h
      have hn₂ := wfn_of_wf_nonempty hw₂ rfl
      simp only [AllOrigin] at ho₁ ho₂
      obtain ⟨ho₁, _⟩ := ho₁
      obtain ⟨ho₂, _⟩ := ho₂
      subst ho₁; subst ho₂
      exact absurd he.symm (enc_ext_ne_full H _ ep₂ c₂ ch₁ val₁ pre hn₂.1 hu₂.1)
    | full o₂ ch₂ val₂ =>
      have he := enc_eq_of_key_eq hcf rfl rfl h
      have hn₁ := wfn_of_wf_nonempty hw₁ rfl
      have hn₂ := wfn_of_wf_nonempty hw₂ rfl
      simp only [WFn] at hn₁ hn₂
      simp only [AllOrigin] at ho₁ ho₂
      obtain ⟨ho₁, hoc₁⟩ := ho₁
      obtain ⟨ho₂, hoc₂⟩ := ho₂
      subst ho₁; subst ho₂
      rw [enc_full, enc_full] at he
      have he := List.append_cancel_left he
      obtain ⟨hseg, hval⟩ := segs_inj H ch₁ ch₂ pre _ _ _ he
      have hv : val₁ = val₂ := valBytes_inj hn₁.2.1 hn₂.2.1 hval
      have hch : ch₁ = ch₂ := by
        funext i
        have hs := hseg i (List.mem_finRange i)
        unfold seg at hs
        cases h1 : (ch₁ i).isEmpty with
        | true =>
          cases h2 : (ch₂ i).isEmpty with
          | true => rw [eq_empty_of_isEmpty h1, eq_empty_of_isEmpty h2]
          | false =>
            simp only [h1, h2, if_true] at hs
            exact absurd (hexBytes_eq_nil hs.symm) (key_ne_nil hne _ h2)
        | false =>
          cases h2 : (ch₂ i).isEmpty with
          | true =>
            simp only [h1, h2, if_true] at hs
            exact absurd (hexBytes_eq_nil hs) (key_ne_nil hne _ h1)
          | false =>
            simp only [h1, h2] at hs
            have hk := hexBytes_inj _ _ hs
            refine ih i (ch₂ i) (pre ++ [i]) (hn₁.1 i) (hn₂.1 i) (hoc₁ i) (hoc₂ i) (hu₁ i) (hu₂ i) ?_ hk
            intro x y hx hy
            exact hcf x y (Or.inr ⟨i, hx⟩) (Or.inr ⟨i, hy⟩)
      rw [hv, hch]
  | ext o₁ ep₁ c₁ ih =>
    intro t₂ pre hw₁ hw₂ ho₁ ho₂ hu₁ hu₂ hcf h
    have hn₁ := wfn_of_wf_nonempty hw₁ rfl
    cases t₂ with
    | empty => exact absurd h (by simpa [key] using key_ne_nil hne (t := .ext o₁ ep₁ c₁) pre rfl)
    | leaf o₂ lp₂ lv₂ =>
      have he := enc_eq_of_key_eq hcf rfl rfl h
      simp only [AllOrigin] at ho₁ ho₂
      obtain ⟨ho₁, _⟩ := ho₁
      subst ho₁; subst ho₂
      exact absurd he (enc_ext_ne_leaf H _ ep₁ c₁ lp₂ lv₂ pre hu₁.1)
    | full o₂ ch₂ val₂ =>
      have he := enc_eq_of_key_eq hcf rfl rfl h
      simp only [AllOrigin] at ho₁ ho₂
      obtain ⟨ho₁, _⟩ := ho₁
      obtain ⟨ho₂, _⟩ := ho₂
      subst ho₁; subst ho₂
      exact absurd he (enc_ext_ne_full H _ ep₁ c₁ ch₂ val₂ pre hn₁.1 hu₁.1)
    | ext o₂ ep₂ c₂ =>
      have he := enc_eq_of_key_eq hcf rfl rfl h
      have hn₂ := wfn_of_wf_nonempty hw₂ rfl
      simp only [WFn] at hn₁ hn₂
      simp only [AllOrigin] at ho₁ ho₂
      obtain ⟨ho₁, hoc₁⟩ := ho₁
      obtain ⟨ho₂, hoc₂⟩ := ho₂
      subst ho₁; subst ho₂
      rw [enc_ext, enc_ext] at he
      have he := List.append_cancel_left he
      obtain ⟨e1, e2⟩ := split_sep_unique _ _ _ _ (map_nibChar_sepFree ep₁) (map_nibChar_sepFree ep₂) he
      have hep := map_nibChar_inj _ _ e1
      subst hep
      have hc : c₁ = c₂ := by
        refine ih c₂ (pre ++ ep₁) (Or.inr hn₁.2.2) (Or.inr hn₂.2.2) hoc₁ hoc₂ hu₁.2 hu₂.2 ?_ e2
        intro x y hx hy
        exact hcf x y (Or.inr hx) (Or.inr hy)
      rw [hc]

/-! ### checking `Unamb` -/

/-- a key whose first byte is neither a hex digit nor `:` is not `HexSepPrefixed` -/
theorem not_hexSepPrefixed_of_head {b : UInt8} {r : Bytes} (hb : b ≠ sep) (hn : ∀ n : Nib, nibChar n ≠ b) :
    ¬ HexSepPrefixed (b :: r) := by
  rintro ⟨lp, r', h⟩
  cases lp with
  | nil => simp only [List.map_nil, List.nil_append, List.cons.injEq] at h; exact hb h.1
  | cons a l => simp only [List.map_cons, List.cons_append, List.cons.injEq] at h; exact hn a h.1.symm

/-- the length-based form of `Unamb` for a hash with `n`-byte output (`n = 32` for SHA3-256): a leaf at depth `0` or
    `2n` must have fewer than 14 separators in its value; an extension whose path equals its position or has `2n`
    nibbles must not have a child key that starts with hex digits followed by `:` -/
def UnambLen (n : Nat) (H : Bytes → Bytes) : Node → List Nib → Prop
  | .empty, _ => True
  | .leaf _ _ lv, pre => (pre = [] ∨ pre.length = 2 * n) → lv.count sep < 14
  | .full _ ch _, pre => ∀ i, UnambLen n H (ch i) (pre ++ [i])
  | .ext _ ep c, pre =>
    ((ep = pre ∨ ep.length = 2 * n) → ¬ HexSepPrefixed (key H c (pre ++ ep))) ∧ UnambLen n H c (pre ++ ep)

theorem unamb_of_unambLen {n : Nat} {H : Bytes → Bytes} (hlen : ∀ x, (H x).length = n) :
    ∀ (t : Node) (pre : List Nib), UnambLen n H t pre → Unamb H t pre := by
  intro t
  induction t with
  | empty => intro pre _; trivial
  | leaf o lp lv =>
    intro pre h hp
    exact h (hp.imp id (isHexKey_length hlen))
  | full o ch val ih =>
    intro pre h i
    exact ih i _ (h i)
  | ext o ep c ih =>
    intro pre h
    exact ⟨fun hp => h.1 (hp.imp id (isHexKey_length hlen)), ih _ h.2⟩

end Verif.Mpt
