import Verif.Model.StateCacheHeap
import Verif.Lemmas.StateCacheMap
/-! The reference-heap cache refines the value-semantics cache under arbitrary client mutations (C07 separation). -/
set_option linter.unusedSectionVars false
namespace Verif.SC

variable {H K B C : Type} [DecidableEq H] [DecidableEq K] [DecidableEq B]

/-- the value-semantics state a reference state stands for -/
def HSys.abs (hs : HSys H K B C) : Sys H K B C := hs.sys.map hs.heap

/-- identity on the references the cache may hold (allocated, not client-held), 0 elsewhere -/
def norm (n : Nat) (cl : List Nat) (v : Nat) : Nat := if v < n ∧ v ∉ cl then v else 0

structure HWF (hs : HSys H K B C) : Prop where
  pos : 1 ≤ hs.next
  client : ∀ r ∈ hs.client, 1 ≤ r ∧ r < hs.next
  sep : hs.sys.map (norm hs.next hs.client) = hs.sys    -- no reference in the cache is client-held or unallocated

theorem norm_fix {n : Nat} {cl : List Nat} (hn : 1 ≤ n) (h0 : 0 ∉ cl) (v : Nat) :
    norm n cl v < n ∧ norm n cl v ∉ cl := by
  unfold norm
  by_cases h : v < n ∧ v ∉ cl
  · simp [h]
  · simp only [h, if_false]; exact ⟨by omega, h0⟩

theorem norm_of_fix {n : Nat} {cl : List Nat} {x : Nat} (h1 : x < n) (h2 : x ∉ cl) : norm n cl x = x := by
  unfold norm; simp [h1, h2]

theorem HWF.zero_not_client {hs : HSys H K B C} (h : HWF hs) : 0 ∉ hs.client := by
  intro h0; have := (h.client 0 h0).1; omega

/-- two heaps that agree on the references the cache may hold give the same abstraction -/
theorem HWF.abs_congr {hs : HSys H K B C} (h : HWF hs) (heap' : Nat → C)
    (hag : ∀ x, x < hs.next → x ∉ hs.client → heap' x = hs.heap x) (s : Sys H K B Nat)
    (hs' : s.map (norm hs.next hs.client) = s) : s.map heap' = s.map hs.heap := by
  have hc : heap' ∘ norm hs.next hs.client = hs.heap ∘ norm hs.next hs.client := by
    funext v
    obtain ⟨h1, h2⟩ := norm_fix h.pos h.zero_not_client v
    exact hag _ h1 h2
  calc s.map heap' = (s.map (norm hs.next hs.client)).map heap' := by rw [hs']
    _ = s.map (heap' ∘ norm hs.next hs.client) := Sys.map_map _ _ _
    _ = s.map (hs.heap ∘ norm hs.next hs.client) := by rw [hc]
    _ = (s.map (norm hs.next hs.client)).map hs.heap := (Sys.map_map _ _ _).symm
    _ = s.map hs.heap := by rw [hs']

/-- growing the allocated / client sets keeps a separated state separated -/
theorem HWF.sep_mono {hs : HSys H K B C} (h : HWF hs) (n' : Nat) (cl' : List Nat)
    (hfix : ∀ x, x < hs.next → x ∉ hs.client → x < n' ∧ x ∉ cl') (s : Sys H K B Nat)
    (hs' : s.map (norm hs.next hs.client) = s) : s.map (norm n' cl') = s := by
  have hc : norm n' cl' ∘ norm hs.next hs.client = norm hs.next hs.client := by
    funext v
    obtain ⟨h1, h2⟩ := norm_fix h.pos h.zero_not_client v
    have := hfix _ h1 h2
    simp only [Function.comp]
    exact norm_of_fix this.1 this.2
  calc s.map (norm n' cl') = (s.map (norm hs.next hs.client)).map (norm n' cl') := by rw [hs']
    _ = s.map (norm n' cl' ∘ norm hs.next hs.client) := Sys.map_map _ _ _
    _ = s.map (norm hs.next hs.client) := by rw [hc]
    _ = s := hs'

theorem Op.map_noVal {V : Type} (g : V → V) (o : Op H K B V) (h : o.valArg = none) : o.map g = o := by
  cases o <;> simp [Op.valArg] at h <;> rfl

theorem Op.map_withVal {V W : Type} (g g' : V → W) (o : Op H K B V) (r x : V) (h : o.valArg = some r)
    (hx : g' x = g r) : (o.withVal x).map g' = o.map g := by
  cases o <;> simp [Op.valArg] at h <;> subst h <;> simp [Op.withVal, Op.map, hx]

theorem Op.map_noVal' {V W : Type} (g g' : V → W) (o : Op H K B V) (h : o.valArg = none) : o.map g = o.map g' := by
  cases o <;> simp [Op.valArg] at h <;> rfl

/-- dereferenced output of a cache operation -/
def HOut.content (heap : Nat → C) : HOut → Out C
  | .out o => o.map heap
  | _ => .bad

/-- One step: the reference implementation does what the value-semantics cache does on the contents, and client
    allocations / in-place mutations are invisible to the cache. -/
theorem HSys.step_refines (hs : HSys H K B C) (hw : HWF hs) (hop : HOp H K B C) :
    HWF (hs.step hop).1 ∧
    (match hop with
     | .op o => hs.abs.step (o.map hs.heap) = ((hs.step hop).1.abs, (hs.step hop).2.content (hs.step hop).1.heap)
     | _ => (hs.step hop).1.abs = hs.abs) := by
  cases hop with
  | new c =>
    simp only [HSys.step]
    have hfix : ∀ x, x < hs.next → x ∉ hs.client → x < hs.next + 1 ∧ x ∉ hs.next :: hs.client := by
      intro x h1 h2; exact ⟨by omega, by simp; exact ⟨by omega, h2⟩⟩
    refine ⟨⟨by simp, ?_, hw.sep_mono _ _ hfix _ hw.sep⟩, ?_⟩
    · intro r hr
      simp only [List.mem_cons] at hr
      rcases hr with rfl | hr
      · exact ⟨hw.pos, by simp⟩
      · have := hw.client r hr; exact ⟨this.1, by simp; omega⟩
    · unfold HSys.abs; simp only
      apply hw.abs_congr _ _ _ hw.sep
      intro x h1 _; unfold upd; simp [show x ≠ hs.next by omega]
  | mutate r c =>
    simp only [HSys.step]
    by_cases hr : r ∈ hs.client
    · simp only [hr, if_true]
      refine ⟨⟨hw.pos, hw.client, hw.sep⟩, ?_⟩
      unfold HSys.abs; simp only
      apply hw.abs_congr _ _ _ hw.sep
      intro x _ h2; unfold upd
      have : x ≠ r := fun e => h2 (e ▸ hr)
      simp [this]
    · simp only [hr, if_false]; exact ⟨hw, trivial⟩
  | op o =>
    simp only [HSys.step]
    have hncl : hs.next ∉ hs.client := fun h => by have := (hw.client _ h).2; omega
    cases hv : o.valArg with
    | some r =>
      simp only
      -- facts about the new heap / reference sets
      have hfix : ∀ x, x < hs.next → x ∉ hs.client → x < hs.next + 1 ∧ x ∉ hs.client := by
        intro x h1 h2; exact ⟨by omega, h2⟩
      have hsep' : hs.sys.map (norm (hs.next + 1) hs.client) = hs.sys := hw.sep_mono _ _ hfix _ hw.sep
      have hnn : norm (hs.next + 1) hs.client hs.next = hs.next := by unfold norm; simp [hncl]
      have hopn : (o.withVal hs.next).map (norm (hs.next + 1) hs.client) = o.withVal hs.next := by
        cases o <;> simp [Op.valArg] at hv <;> simp [Op.withVal, Op.map, hnn]
      have hstepn := Sys.step_map (norm (hs.next + 1) hs.client) hs.sys (o.withVal hs.next)
      rw [hsep', hopn] at hstepn
      have hsys' : (hs.sys.step (o.withVal hs.next)).1.map (norm (hs.next + 1) hs.client)
          = (hs.sys.step (o.withVal hs.next)).1 := by
        have := congrArg Prod.fst hstepn; simpa using this.symm
      refine ⟨⟨by simp, fun r' hr' => ?_, hsys'⟩, ?_⟩
      · have := hw.client r' hr'; exact ⟨this.1, by simp; omega⟩
      · -- refinement
        have hheap : hs.sys.map (upd hs.heap hs.next (hs.heap r)) = hs.sys.map hs.heap := by
          apply hw.abs_congr _ _ _ hw.sep
          intro x h1 _; unfold upd; simp [show x ≠ hs.next by omega]
        have hop' : (o.withVal hs.next).map (upd hs.heap hs.next (hs.heap r)) = o.map hs.heap :=
          Op.map_withVal hs.heap _ o r hs.next hv (by unfold upd; simp)
        have hnat := Sys.step_map (upd hs.heap hs.next (hs.heap r)) hs.sys (o.withVal hs.next)
        rw [hheap, hop'] at hnat
        unfold HSys.abs HOut.content
        simp only
        exact hnat
    | none =>
      simp only
      have hopn : o.map (norm hs.next hs.client) = o := Op.map_noVal _ o hv
      have hstepn := Sys.step_map (norm hs.next hs.client) hs.sys o
      rw [hw.sep, hopn] at hstepn
      have hsys1 : (hs.sys.step o).1.map (norm hs.next hs.client) = (hs.sys.step o).1 := by
        have := congrArg Prod.fst hstepn; simpa using this.symm
      have hnat := Sys.step_map hs.heap hs.sys o
      cases hout : (hs.sys.step o).2 with
      | hit r0 =>
        simp only
        have hfix : ∀ x, x < hs.next → x ∉ hs.client → x < hs.next + 1 ∧ x ∉ hs.next :: hs.client := by
          intro x h1 h2; exact ⟨by omega, by simp; exact ⟨by omega, h2⟩⟩
        refine ⟨⟨by simp, fun r' hr' => ?_, hw.sep_mono _ _ hfix _ hsys1⟩, ?_⟩
        · simp only [List.mem_cons] at hr'
          rcases hr' with rfl | hr'
          · exact ⟨hw.pos, by simp⟩
          · have := hw.client r' hr'; exact ⟨this.1, by simp; omega⟩
        · have hheap : (hs.sys.step o).1.map (upd hs.heap hs.next (hs.heap r0)) = (hs.sys.step o).1.map hs.heap := by
            apply hw.abs_congr _ _ _ hsys1
            intro x h1 _; unfold upd; simp [show x ≠ hs.next by omega]
          unfold HSys.abs HOut.content
          simp only [hheap]
          rw [hnat, hout]
          simp [Out.map, upd]
      | ok =>
        simp only
        refine ⟨⟨hw.pos, hw.client, hsys1⟩, ?_⟩
        unfold HSys.abs HOut.content; simp only; rw [hnat, hout]
      | miss =>
        simp only
        refine ⟨⟨hw.pos, hw.client, hsys1⟩, ?_⟩
        unfold HSys.abs HOut.content; simp only; rw [hnat, hout]
      | panic =>
        simp only
        refine ⟨⟨hw.pos, hw.client, hsys1⟩, ?_⟩
        unfold HSys.abs HOut.content; simp only; rw [hnat, hout]
      | bad =>
        simp only
        refine ⟨⟨hw.pos, hw.client, hsys1⟩, ?_⟩
        unfold HSys.abs HOut.content; simp only; rw [hnat, hout]

/-- observable traces of the reference implementation (left: dereferenced outputs of the cache operations) and of the
    value-semantics cache fed with the contents the client's references have at call time (right) -/
def HSys.traces : HSys H K B C → Sys H K B C → List (HOp H K B C) → List (Out C) × List (Out C)
  | _, _, [] => ([], [])
  | hs, sp, .op o :: rest =>
    let t := HSys.traces (hs.step (.op o)).1 (sp.step (o.map hs.heap)).1 rest
    ((hs.step (.op o)).2.content (hs.step (.op o)).1.heap :: t.1, (sp.step (o.map hs.heap)).2 :: t.2)
  | hs, sp, .new c :: rest => HSys.traces (hs.step (.new c)).1 sp rest
  | hs, sp, .mutate r c :: rest => HSys.traces (hs.step (.mutate r c)).1 sp rest

theorem HSys.traces_eq (hs : HSys H K B C) (hw : HWF hs) (ops : List (HOp H K B C)) :
    (HSys.traces hs hs.abs ops).1 = (HSys.traces hs hs.abs ops).2 := by
  induction ops generalizing hs with
  | nil => rfl
  | cons hop rest ih =>
    obtain ⟨hw', href⟩ := HSys.step_refines hs hw hop
    cases hop with
    | new c => simp only [HSys.traces]; simp only at href; rw [← href]; exact ih _ hw'
    | mutate r c => simp only [HSys.traces]; simp only at href; rw [← href]; exact ih _ hw'
    | op o =>
      simp only [HSys.traces]
      simp only at href
      rw [href]
      simp only
      rw [ih _ hw']

theorem HWF.init (capK maxDepth : Nat) (dflt : C) : HWF (HSys.new capK maxDepth dflt : HSys H K B C) := by
  refine ⟨Nat.le_refl 1, fun r hr => by simp [HSys.new] at hr, ?_⟩
  simp [HSys.new, Sys.new, Sys.map, SC.new, SC.map]

end Verif.SC
