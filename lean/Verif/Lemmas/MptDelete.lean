/-
`delete` on the state-trie model: on a canonical trie it never panics, reports `notPresent` exactly for absent
paths, removes exactly the given path, and returns a canonical trie.
-/
import Verif.Lemmas.MptInsert
namespace Verif.Mpt
set_option linter.unusedSimpArgs false

theorem lookup_of_isEmpty {n : Node} (h : n.isEmpty = true) (q : List Nib) : lookup n q = none := by
  cases n <;> simp [Node.isEmpty] at h
  simp

/-- lookups in a lifted node: the child `n` is now reached through nibble `i` -/
theorem lift_spec (v : Nat) (i : Nib) {n : Node} (hn : WFn n) :
    ∃ t', lift v i n = .node t' ∧ WFn t' ∧ t'.isFull = false ∧
      ∀ q, lookup t' q = match q with | [] => none | j :: r => if j = i then lookup n r else none := by
  cases n with
  | empty => exact hn.elim
  | leaf o lp lv =>
    refine ⟨_, rfl, hn, rfl, ?_⟩
    intro q
    have hlv : lv ≠ [] := hn
    rcases q with _ | ⟨j, r⟩
    · simp [lookup_leaf]
    · by_cases hj : j = i <;> simp [lookup_leaf_ne hlv, hj]
  | ext o ep c =>
    obtain ⟨hep, hf, hc⟩ := hn
    refine ⟨_, rfl, ⟨by simp, hf, hc⟩, rfl, ?_⟩
    intro q
    rcases q with _ | ⟨j, r⟩
    · exact lookup_ext_of_not_prefix _ (by simp)
    · by_cases hj : j = i
      · subst hj
        have := lookup_ext_split (o := v) o [] j ep c r
        simp only [List.nil_append] at this
        rw [this]
        cases ep with
        | nil => exact (hep rfl).elim
        | cons a ep => simp [wrap]
      · simp only [hj, if_false]
        exact lookup_ext_of_not_prefix _ (by simp [List.cons_prefix_cons, Ne.symm hj])
  | full o ch val =>
    refine ⟨_, rfl, ⟨by simp, rfl, hn⟩, rfl, ?_⟩
    intro q
    rcases q with _ | ⟨j, r⟩
    · exact lookup_ext_of_not_prefix _ (by simp)
    · by_cases hj : j = i
      · subst hj
        simpa using lookup_ext_append (o := v) (ep := [j]) (.full o ch val) (by simp) r
      · simp only [hj, if_false]
        exact lookup_ext_of_not_prefix _ (by simp [List.cons_prefix_cons, Ne.symm hj])

theorem liftFirst_spec (v : Nat) {ch : Nib → Node} (hch : ∀ i, WF (ch i)) (hc : countCh ch = 1) :
    ∃ t', liftFirst v ch = .node t' ∧ WFn t' ∧ t'.isFull = false ∧
      ∀ q, lookup t' q = match q with | [] => none | j :: r => lookup (ch j) r := by
  unfold liftFirst
  cases hf : firstCh ch with
  | none => have := firstCh_none hf; omega
  | some i =>
    dsimp only
    have hne := firstCh_some hf
    have hwf : WFn (ch i) := by
      rcases hch i with h | h
      · simp [hne] at h
      · exact h
    have hoth : ∀ j, j ≠ i → (ch j).isEmpty = true := by
      apply cntOther_eq_zero.mp
      have := countCh_eq ch i
      simp [hne] at this
      omega
    obtain ⟨t', h1, h2, h3, h4⟩ := lift_spec v i hwf
    refine ⟨t', h1, h2, h3, ?_⟩
    intro q
    rw [h4]
    rcases q with _ | ⟨j, r⟩
    · rfl
    · by_cases hj : j = i
      · subst hj; simp
      · simp [hj, lookup_of_isEmpty (hoth j hj)]

/-- the branch case of `delete` after the recursive call returned `d` -/
def fullStep (v : Nat) (ch : Nib → Node) (val : Option Bytes) (x : Nib) : DRes → DRes
  | .notPresent => .notPresent
  | .panic => .panic
  | .node c' => .node (.full v (upd ch x c') val)
  | .removed =>
    if countCh ch = 1 then
      match val with
      | some bv => .node (.leaf v [] bv)
      | none => .removed
    else if countCh ch = 2 ∧ val.isNone then liftFirst v (upd ch x .empty)
    else .node (.full v (upd ch x .empty) val)

theorem delete_full_cons (v o : Nat) (ch : Nib → Node) (val : Option Bytes) (x : Nib) (pr : List Nib) :
    delete v (.full o ch val) (x :: pr) = fullStep v ch val x (delete v (ch x) pr) := by
  cases val <;> simp only [delete] <;> generalize delete v (ch x) pr = d <;> cases d <;> rfl

theorem delete_full_nil_none (v o : Nat) (ch : Nib → Node) :
    delete v (.full o ch none) [] = .notPresent := by simp [delete]

theorem delete_full_nil_some (v o : Nat) (ch : Nib → Node) (bv : Bytes) :
    delete v (.full o ch (some bv)) [] =
      if countCh ch = 1 then liftFirst v ch else .node (.full v ch none) := by simp [delete]

/-- what `delete v t p` has to return on a canonical trie `t` -/
def DeleteSpec (t : Node) (p : List Nib) : DRes → Prop
  | .notPresent => lookup t p = none
  | .panic => False
  | .removed => lookup t p ≠ none ∧ t.isFull = false ∧ ∀ q, q ≠ p → lookup t q = none
  | .node t' => lookup t p ≠ none ∧ WFn t' ∧ (t.isFull = true → t'.isEmpty = false) ∧
      ∀ q, lookup t' q = if q = p then none else lookup t q

/-- a node `t''` that behaves like "path `ep`, then `n`" where `n` is `c` without `p'` -/
theorem lookup_prepend {o : Nat} {ep p' : List Nib} {c n t'' : Node} (hep : ep ≠ [])
    (h1 : ∀ r, lookup t'' (ep ++ r) = lookup n r) (h2 : ∀ q, ¬ ep <+: q → lookup t'' q = none)
    (hn : ∀ q, lookup n q = if q = p' then none else lookup c q) :
    ∀ q, lookup t'' q = if q = ep ++ p' then none else lookup (.ext o ep c) q := by
  intro q
  by_cases h : ep <+: q
  · obtain ⟨r, rfl⟩ := h
    rw [h1, hn, lookup_ext_append _ hep]
    simp
  · rw [h2 q h, lookup_ext_of_not_prefix _ h]
    simp

theorem lookup_ext_append_path {o o' : Nat} (ep : List Nib) {p2 : List Nib} (hp2 : p2 ≠ []) (c2 : Node)
    (r : List Nib) : lookup (.ext o (ep ++ p2) c2) (ep ++ r) = lookup (.ext o' p2 c2) r := by
  by_cases h : p2 <+: r
  · obtain ⟨s, rfl⟩ := h
    rw [← List.append_assoc, lookup_ext_append _ (by simp [hp2]), lookup_ext_append _ hp2]
  · rw [lookup_ext_of_not_prefix _ h, lookup_ext_of_not_prefix]
    simpa [List.prefix_append_right_inj] using h

theorem delete_spec (v : Nat) (t : Node) : ∀ (p : List Nib), WF t → DeleteSpec t p (delete v t p) := by
  induction t with
  | empty => intro p _; simp [delete, DeleteSpec]
  | leaf o lp lv =>
    intro p hwf
    have hlv : lv ≠ [] := WFn_of_WF_leaf hwf
    rw [delete]
    by_cases h : p = lp
    · subst h
      simp only [if_true, DeleteSpec]
      refine ⟨by simp [lookup_leaf_ne hlv], rfl, ?_⟩
      intro q hq
      simp [lookup_leaf_ne hlv, hq]
    · simp [h, DeleteSpec, lookup_leaf_ne hlv]
  | full o ch val ih =>
    intro p hwf
    obtain ⟨hch, hval, hcnt⟩ := WFn_of_WF_full hwf
    rcases p with _ | ⟨x, pr⟩
    · -- the branch's own value
      cases val with
      | none => simp [delete_full_nil_none, DeleteSpec, lookup_full_nil]
      | some bv =>
        have hbv : bv ≠ [] := hval bv rfl
        rw [delete_full_nil_some]
        have hpres : lookup (.full o ch (some bv)) [] ≠ none := by simp [lookup_full_nil, live_some hbv]
        by_cases h1 : countCh ch = 1
        · simp only [h1, if_true]
          obtain ⟨t', e1, e2, e3, e4⟩ := liftFirst_spec v hch h1
          rw [e1]
          refine ⟨hpres, e2, fun _ => WFn_ne_empty e2, ?_⟩
          intro q
          rw [e4]
          rcases q with _ | ⟨j, r⟩ <;> simp
        · simp only [h1, if_false]
          refine ⟨hpres, ⟨hch, by simp, ?_⟩, fun _ => rfl, ?_⟩
          · simp [entryCount] at hcnt ⊢
            omega
          · intro q
            rcases q with _ | ⟨j, r⟩ <;> simp [lookup_full_nil]
    · -- below child `x`
      have hx := ih x pr (hch x)
      rw [delete_full_cons]
      generalize delete v (ch x) pr = d at hx
      cases d with
      | notPresent => simpa [DeleteSpec, fullStep] using hx
      | panic => exact hx
      | node c' =>
        obtain ⟨hx1, hx2, hx3, hx4⟩ := hx
        have hxne : (ch x).isEmpty = false := by
          cases hc : (ch x).isEmpty with
          | false => rfl
          | true => exact (hx1 (lookup_of_isEmpty hc _)).elim
        dsimp only [DeleteSpec, fullStep]
        refine ⟨by simpa using hx1, ⟨?_, hval, ?_⟩, fun _ => rfl, ?_⟩
        · intro i
          by_cases h : i = x
          · subst h; right; simpa using hx2
          · simpa [upd, h] using hch i
        · simp only [entryCount] at hcnt ⊢
          rw [countCh_upd, WFn_ne_empty hx2]
          rw [countCh_eq ch x, hxne] at hcnt
          exact hcnt
        · intro q
          rcases q with _ | ⟨j, r⟩
          · simp [lookup_full_nil]
          · simp only [lookup_full_cons, lookup_upd, List.cons.injEq]
            by_cases hj : j = x
            · subst hj; simp [hx4]
            · simp [hj]
      | removed =>
        obtain ⟨hx1, hx2, hx3⟩ := hx
        have hxne : (ch x).isEmpty = false := by
          cases hc : (ch x).isEmpty with
          | false => rfl
          | true => exact (hx1 (lookup_of_isEmpty hc _)).elim
        have hcx : countCh ch = 1 + cntOther ch x := by
          have := countCh_eq ch x
          simpa [hxne] using this
        have hpres : lookup (.full o ch val) (x :: pr) ≠ none := by simpa using hx1
        have hchE : ∀ i, WF (upd ch x .empty i) := by
          intro i
          by_cases h : i = x
          · subst h; left; simp [Node.isEmpty]
          · simpa [upd, h, WF] using hch i
        -- lookups in any node that behaves like the branch without child `x`
        have hlk : ∀ (val' : Option Bytes) (q : List Nib),
            (match q with | [] => live val' | j :: r => lookup (upd ch x .empty j) r) =
              if q = x :: pr then none else lookup (.full o ch val') q := by
          intro val' q
          rcases q with _ | ⟨j, r⟩
          · simp [lookup_full_nil]
          · simp only [lookup_full_cons, lookup_upd, List.cons.injEq, lookup_empty]
            by_cases hj : j = x
            · subst hj
              by_cases hr : r = pr
              · simp [hr]
              · simp [hr, hx3 r hr]
            · simp [hj]
        dsimp only [fullStep]
        by_cases h1 : countCh ch = 1
        · simp only [h1, if_true]
          have hoth : ∀ j, j ≠ x → (ch j).isEmpty = true := by
            apply cntOther_eq_zero.mp
            omega
          cases val with
          | none => simp [entryCount, h1] at hcnt
          | some bv =>
            have hbv : bv ≠ [] := hval bv rfl
            dsimp only [DeleteSpec]
            refine ⟨hpres, hbv, fun _ => rfl, ?_⟩
            intro q
            rw [← hlk]
            rcases q with _ | ⟨j, r⟩
            · simp [lookup_leaf_ne hbv, live_some hbv]
            · by_cases hj : j = x
              · simp [lookup_leaf, lookup_upd, hj]
              · simp [lookup_leaf, lookup_upd, hj, lookup_of_isEmpty (hoth j hj)]
        · simp only [h1, if_false]
          by_cases h2 : countCh ch = 2 ∧ val.isNone = true
          · simp only [h2, and_self, if_true]
            have hc1 : countCh (upd ch x .empty) = 1 := by
              rw [countCh_upd]
              simp [Node.isEmpty]
              omega
            obtain ⟨t', e1, e2, e3, e4⟩ := liftFirst_spec v hchE hc1
            rw [e1]
            refine ⟨hpres, e2, fun _ => WFn_ne_empty e2, ?_⟩
            intro q
            have hv : val = none := by simpa using h2.2
            rw [e4, ← hlk val q, hv]
            rcases q with _ | ⟨j, r⟩ <;> rfl
          · simp only [h2, if_false]
            dsimp only [DeleteSpec]
            refine ⟨hpres, ⟨hchE, hval, ?_⟩, fun _ => rfl, ?_⟩
            · simp only [entryCount] at hcnt ⊢
              rw [countCh_upd]
              simp only [Node.isEmpty, if_true]
              cases val with
              | none => simp at h2 hcnt ⊢; omega
              | some bv => simp at hcnt ⊢; omega
            · intro q
              rw [← hlk]
              rcases q with _ | ⟨j, r⟩
              · simp [lookup_full_nil]
              · simp
  | ext o ep c ih =>
    intro p hwf
    obtain ⟨hep, hfull, hc⟩ := WFn_of_WF_ext hwf
    have hx := fun p' => ih p' (Or.inr hc)
    rw [delete]
    generalize hs : splitCommon p ep = s
    obtain ⟨cm, p', e'⟩ := s
    obtain ⟨rfl, rfl, hne⟩ := splitCommon_eq hs
    rcases e' with _ | ⟨y, er⟩
    · dsimp only
      simp only [List.append_nil] at hep ⊢
      have hx := hx p'
      generalize delete v c p' = d at hx
      cases d with
      | notPresent => simpa [DeleteSpec, lookup_ext_append _ hep] using hx
      | panic => exact hx
      | removed => simp [DeleteSpec, hfull] at hx
      | node n =>
        obtain ⟨hx1, hx2, hx3, hx4⟩ := hx
        have hpres : lookup (.ext o cm c) (cm ++ p') ≠ none := by rwa [lookup_ext_append _ hep]
        cases n with
        | empty => exact hx2
        | leaf o' lp lv =>
          dsimp only [DeleteSpec]
          refine ⟨hpres, hx2, fun _ => rfl, ?_⟩
          refine lookup_prepend hep ?_ ?_ hx4
          · intro r; simp [lookup_leaf]
          · intro q hq
            have : q ≠ cm ++ lp := fun e => hq (e ▸ List.prefix_append _ _)
            simp [lookup_leaf, this]
        | ext o' p2 c2 =>
          dsimp only [DeleteSpec]
          obtain ⟨hp2, hf2, hc2⟩ := hx2
          refine ⟨hpres, ⟨by simp [hp2], hf2, hc2⟩, fun _ => rfl, ?_⟩
          refine lookup_prepend hep ?_ ?_ hx4
          · intro r; exact lookup_ext_append_path cm hp2 c2 r
          · intro q hq
            exact lookup_ext_of_not_prefix _ (fun e => hq (List.IsPrefix.trans (List.prefix_append _ _) e))
        | full o' ch' val' =>
          dsimp only [DeleteSpec]
          refine ⟨hpres, ⟨hep, rfl, hx2⟩, fun _ => rfl, ?_⟩
          refine lookup_prepend hep ?_ ?_ hx4
          · intro r; exact lookup_ext_append _ hep r
          · intro q hq; exact lookup_ext_of_not_prefix _ hq
    · dsimp only [DeleteSpec]
      apply lookup_ext_of_not_prefix
      rw [List.prefix_append_right_inj]
      intro h
      rcases p' with _ | ⟨x, pr⟩
      · simp at h
      · rw [List.cons_prefix_cons] at h
        exact hne _ _ _ _ rfl rfl h.1.symm

end Verif.Mpt
