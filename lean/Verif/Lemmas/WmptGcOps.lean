/-
GC safety (C11), the operation level: `insert` / `delete` (and `Update` / `Delete` on a trie) over a representation
`Rep H P` for an ARBITRARY predicate `P` on spec subtrees that implies storage and is closed under subtrees, together
with the bookkeeping the GC invariant needs:

  * the clean set `cl` only shrinks: `cl` before is, up to permutation, `cl` after plus a list `lost` of 32-byte hashes;
  * every hash the operation pushes to the pending-deletion queue or leaves as the cached hash of a dirty node is nil,
    or was the cached hash of a dirty node before, or is in `lost`.

Core Lean only.
-/
import Verif.Lemmas.WmptGcDefs
namespace Verif.Wmpt
namespace GcOps
open RepOps RepMore

/-! ### lists -/

theorem flatMap_split {α β} [DecidableEq α] (l : List α) (hnd : l.Nodup) (k : α) (hk : k ∈ l) (g : α → List β) :
    (l.flatMap g).Perm (g k ++ l.flatMap (fun i => if i = k then [] else g i)) := by
  induction l with
  | nil => cases hk
  | cons x xs ih =>
    have hx : x ∉ xs := (List.nodup_cons.mp hnd).1
    simp only [List.flatMap_cons]
    by_cases h : x = k
    · subst h
      simp only [if_true, List.nil_append]
      have e : xs.flatMap (fun i => if i = x then [] else g i) = xs.flatMap g := by
        simp only [List.flatMap_def]
        congr 1
        apply List.map_congr_left
        intro i hi
        have : i ≠ x := fun e => hx (e ▸ hi)
        simp [this]
      rw [e]
    · have hk' : k ∈ xs := by
        rcases List.mem_cons.mp hk with e | e
        · exact absurd e.symm h
        · exact e
      simp only [h, if_false]
      exact ((ih (List.nodup_cons.mp hnd).2 hk').append_left (g x)).trans (List.perm_append_comm_assoc _ _ _)

theorem allNib_split {β} (k : Nib) (g : Nib → List β) :
    (allNib.flatMap g).Perm (g k ++ allNib.flatMap (fun i => if i = k then [] else g i)) :=
  flatMap_split allNib allNib_nodup k (by simp [allNib]) g

theorem flatMap_nil' {α β} (l : List α) (g : α → List β) (h : ∀ i, g i = []) : l.flatMap g = [] := by
  induction l with
  | nil => rfl
  | cons x xs ih => simp [List.flatMap_cons, h x, ih]

theorem allNib_sole {β} (pos : Nib) (g : Nib → List β) (h : ∀ j, j ≠ pos → g j = []) :
    (allNib.flatMap g).Perm (g pos) := by
  have := allNib_split pos g
  rw [flatMap_nil' allNib (fun i => if i = pos then [] else g i)
    (fun i => by by_cases e : i = pos <;> simp [e, h])] at this
  simpa using this

theorem perm_step {A a R b l B : List Bytes} (h1 : A.Perm (a ++ R)) (h2 : a.Perm (b ++ l)) (h3 : B.Perm (b ++ R)) :
    A.Perm (B ++ l) := by
  rw [List.perm_iff_count] at *
  intro x
  have := h1 x; have := h2 x; have := h3 x
  simp only [List.count_append] at *
  omega

theorem perm_snoc {α} (a : α) (l : List α) : (a :: l).Perm (l ++ [a]) := (List.perm_append_singleton a l).symm

/-! ### `NL`, `cl`, `dirtyCached` -/

section Basics
variable {H : Bytes → Bytes} {P : PT → Prop}

theorem hash_len (hlen : ∀ x, (H x).length = 32) (t : PT) : (PT.hash H t).length = 32 := by
  cases t <;> simp [PT.hash, emptyHash, hlen]

theorem NL_len (hlen : ∀ x, (H x).length = 32) : ∀ (t : PT), ∀ h ∈ NL H t, h.length = 32 := by
  intro t
  induction t with
  | none => intro h hh; simp [NL] at hh
  | value v w => intro h hh; simp only [NL, List.mem_singleton] at hh; subst hh; exact hash_len hlen _
  | short k c ih =>
    intro h hh
    simp only [NL, List.mem_cons] at hh
    rcases hh with rfl | hh
    · exact hash_len hlen _
    · exact ih h hh
  | branch f ih =>
    intro h hh
    simp only [NL, List.mem_cons, List.mem_flatMap] at hh
    rcases hh with rfl | ⟨i, _, hh⟩
    · exact hash_len hlen _
    · exact ih i h hh

theorem cl_len (hlen : ∀ x, (H x).length = 32) : ∀ (n : WN) (t : PT), ∀ h ∈ cl H n t, h.length = 32 := by
  intro n
  induction n with
  | nil => intro t h hh; simp [cl] at hh
  | empty => intro t h hh; simp [cl] at hh
  | hashRef a b => intro t h hh; exact NL_len hlen t h (by simpa [cl] using hh)
  | value a b c d =>
    intro t h hh
    cases d
    · exact NL_len hlen t h (by simpa [cl] using hh)
    · simp [cl] at hh
  | short k a c d tc ih =>
    intro t h hh
    cases d
    · exact NL_len hlen t h (by simpa [cl] using hh)
    · exact ih _ h (by simpa [cl] using hh)
  | routing a ch w d tc ih =>
    intro t h hh
    cases d
    · exact NL_len hlen t h (by simpa [cl] using hh)
    · simp only [cl, if_true, List.mem_flatMap] at hh
      obtain ⟨i, _, hh⟩ := hh
      exact ih i _ h hh

theorem hash_mem_NL {t : PT} (hn : t.isNone = false) : PT.hash H t ∈ NL H t := by
  cases t <;> simp [NL, PT.isNone] at hn ⊢

/-- a node that is not dirty holds all occurrences of its spec tree clean -/
theorem cl_of_clean {n : WN} {t : PT} (h : Rep H P n t) (hd : n.dirty = false) : cl H n t = NL H t := by
  cases h <;> simp_all [cl, NL, WN.dirty]

theorem cl_none {n : WN} (h : Rep H P n .none) : cl H n .none = [] := by
  cases h with
  | nil => rfl
  | empty => rfl
  | ref t hn hp => simp [PT.isNone] at hn

theorem cl_mkShort (k : Bytes) (c : WN) (t : PT) : cl H (mkShort k c) (PT.mkShort k t) = cl H c t := by
  unfold mkShort PT.mkShort
  split
  · rfl
  · simp [cl, PT.shortChild]

theorem dirtyCached_mkShort {k : Bytes} {c : WN} {h : Bytes} (hh : h ∈ dirtyCached (mkShort k c)) :
    h ∈ dirtyCached c ∨ h = [] := by
  unfold mkShort at hh
  split at hh
  · exact .inl hh
  · simp only [dirtyCached, if_true, List.singleton_append, List.mem_cons] at hh
    rcases hh with e | e
    · exact .inr e
    · exact .inl e

theorem cl_normRoot (n : WN) (t : PT) : cl H (normRoot n) t = cl H n t := by
  cases n <;> rfl

theorem dirtyCached_normRoot (n : WN) : dirtyCached (normRoot n) = dirtyCached n := by
  cases n <;> rfl

theorem mem_dirtyCached_kid {h : Bytes} {ch : Nib → WN} {w : Nat} {d tc : Bool} {x : Bytes} (i : Nib)
    (hx : x ∈ dirtyCached (ch i)) : x ∈ dirtyCached (.routing h ch w d tc) := by
  simp only [dirtyCached, List.mem_append, List.mem_flatMap]
  exact .inr ⟨i, by simp [allNib], hx⟩

theorem mem_dirtyCached_upd {ch : Nib → WN} {k : Nib} {y : WN} {x : Bytes}
    (hx : x ∈ allNib.flatMap (fun i => dirtyCached (upd ch k y i))) : x ∈ dirtyCached y ∨ ∃ i, x ∈ dirtyCached (ch i) := by
  simp only [List.mem_flatMap] at hx
  obtain ⟨i, _, hx⟩ := hx
  unfold upd at hx
  split at hx
  · exact .inl hx
  · exact .inr ⟨i, hx⟩

theorem dirtyCached_refOf (t : PT) : dirtyCached (PT.refOf H t) = [] := by
  cases t <;> simp [PT.refOf, dirtyCached]

theorem dirtyCached_loaded (t : PT) : dirtyCached (PT.loaded H t) = [] := by
  cases t with
  | none => rfl
  | value v w => simp [PT.loaded, dirtyCached]
  | short k c => simp [PT.loaded, dirtyCached]
  | branch f =>
    simp only [PT.loaded, dirtyCached, Bool.false_eq_true, if_false, List.nil_append]
    exact flatMap_nil' _ _ (fun i => dirtyCached_refOf _)

/-- 1b. loading a reference does not change the clean set -/
theorem cl_loaded (t : PT) : cl H (PT.loaded H t) t = NL H t := by
  cases t <;> simp [PT.loaded, cl, NL]

theorem cl_hashRef (h : Bytes) (w : Nat) (t : PT) : cl H (.hashRef h w) t = NL H t := rfl

theorem cl_loaded_eq_ref (t : PT) : cl H (PT.loaded H t) t = cl H (.hashRef (PT.hash H t) t.weight) t := by
  rw [cl_loaded]; rfl

/-- the cached hash of a node is nil, or counted as the cached hash of a dirty node, or its own entry in `cl` -/
theorem hashField_cases {n : WN} {t : PT} (h : Rep H P n t) (hne : n ≠ .empty) :
    n.hashField H ∈ dirtyCached n ∨ n.hashField H ∈ cl H n t ∨ n.hashField H = [] := by
  cases h with
  | nil => exact .inr (.inr rfl)
  | empty => exact absurd rfl hne
  | ref t hn hp => exact .inr (.inl (hash_mem_NL hn))
  | value a v w d hc =>
    cases d
    · right; left
      rw [(hc rfl).1]
      exact hash_mem_NL rfl
    · left; simp [dirtyCached, WN.hashField]
  | short k a c d tc tc' hcr hc =>
    cases d
    · right; left
      simp only [WN.hashField, cl, Bool.false_eq_true, if_false]
      rw [(hc rfl).1]
      exact hash_mem_NL rfl
    · left; simp [dirtyCached, WN.hashField]
  | routing a ch w d tc f hch hr hw hc =>
    cases d
    · right; left
      simp only [WN.hashField, cl, Bool.false_eq_true, if_false]
      rw [(hc rfl).1]
      exact hash_mem_NL rfl
    · left; simp [dirtyCached, WN.hashField]

end Basics

/-! ### the bookkeeping relation and its composition rules -/

/-- the GC bookkeeping of one step from `(n, t)` to `(n', t')` that pushes `td` to the pending-deletion queue -/
def Gc (H : Bytes → Bytes) (n : WN) (t : PT) (n' : WN) (t' : PT) (td : List Bytes) : Prop :=
  ∃ lost : List Bytes, (cl H n t).Perm (cl H n' t' ++ lost) ∧ (∀ h ∈ lost, h.length = 32) ∧
    ∀ h ∈ td ++ dirtyCached n', h ∈ dirtyCached n ∨ h ∈ lost ∨ h = []

section GcRules
variable {H : Bytes → Bytes} {P : PT → Prop}

theorem Gc.same (n : WN) (t : PT) : Gc H n t n t [] :=
  ⟨[], by simp, by simp, fun h hh => .inl (by simpa using hh)⟩

theorem Gc.trans {n n1 n2 : WN} {t t1 t2 : PT} {td1 td2 : List Bytes} (h1 : Gc H n t n1 t1 td1)
    (h2 : Gc H n1 t1 n2 t2 td2) : Gc H n t n2 t2 (td1 ++ td2) := by
  obtain ⟨l1, p1, q1, r1⟩ := h1
  obtain ⟨l2, p2, q2, r2⟩ := h2
  refine ⟨l2 ++ l1, ?_, ?_, ?_⟩
  · exact p1.trans ((p2.append_right l1).trans (by rw [List.append_assoc]))
  · intro h hh
    rcases List.mem_append.mp hh with e | e
    · exact q2 h e
    · exact q1 h e
  · intro h hh
    have key : ∀ x, x ∈ dirtyCached n1 → x ∈ dirtyCached n ∨ x ∈ l2 ++ l1 ∨ x = [] := by
      intro x hx
      rcases r1 x (List.mem_append.mpr (.inr hx)) with a | a | a
      · exact .inl a
      · exact .inr (.inl (List.mem_append.mpr (.inr a)))
      · exact .inr (.inr a)
    simp only [List.mem_append] at hh
    rcases hh with (e | e) | e
    · rcases r1 h (List.mem_append.mpr (.inl e)) with a | a | a
      · exact .inl a
      · exact .inr (.inl (List.mem_append.mpr (.inr a)))
      · exact .inr (.inr a)
    · rcases r2 h (List.mem_append.mpr (.inl e)) with a | a | a
      · exact key h a
      · exact .inr (.inl (List.mem_append.mpr (.inl a)))
      · exact .inr (.inr a)
    · rcases r2 h (List.mem_append.mpr (.inr e)) with a | a | a
      · exact key h a
      · exact .inr (.inl (List.mem_append.mpr (.inl a)))
      · exact .inr (.inr a)

theorem Gc.td_sub {n n' : WN} {t t' : PT} {td td' : List Bytes} (h : Gc H n t n' t' td) (hs : ∀ x ∈ td', x ∈ td) :
    Gc H n t n' t' td' := by
  obtain ⟨l, p, q, r⟩ := h
  refine ⟨l, p, q, fun x hx => r x ?_⟩
  rcases List.mem_append.mp hx with e | e
  · exact List.mem_append.mpr (.inl (hs x e))
  · exact List.mem_append.mpr (.inr e)

/-- the node is removed: everything it held clean is lost -/
theorem Gc.drop (hlen : ∀ x, (H x).length = 32) {n : WN} {t : PT} {td : List Bytes}
    (htd : ∀ h ∈ td, h ∈ dirtyCached n ∨ h ∈ cl H n t ∨ h = []) : Gc H n t .nil .none td :=
  ⟨cl H n t, by simp [cl], cl_len hlen n t, fun h hh => htd h (by simpa [dirtyCached] using hh)⟩

/-- a reference is replaced by the node it loads -/
theorem Gc.of_ref {t : PT} {n' : WN} {t' : PT} {td : List Bytes} (h : Gc H (PT.loaded H t) t n' t' td) :
    Gc H (.hashRef (PT.hash H t) t.weight) t n' t' td := by
  obtain ⟨l, p, q, r⟩ := h
  refine ⟨l, by rw [← cl_loaded_eq_ref]; exact p, q, fun x hx => ?_⟩
  rcases r x hx with a | a | a
  · rw [dirtyCached_loaded] at a; cases a
  · exact .inr (.inl a)
  · exact .inr (.inr a)

/-- a short node on the path becomes dirty (if it was clean its own hash is lost and stays as its cached hash) -/
theorem Gc.short {k h : Bytes} {c : WN} {d tcf : Bool} {tc : PT} {x : WN} {y : PT} {td : List Bytes} {k2 k3 : Bytes}
    {tcf2 : Bool} (hrep : Rep H P (.short k h c d tcf) (.short k tc)) (hup : UpDirty (.short k h c d tcf))
    (hlen : ∀ x, (H x).length = 32) (hg : Gc H c tc x y td) :
    Gc H (.short k h c d tcf) (.short k tc) (.short k2 h x true tcf2) (.short k3 y) td := by
  obtain ⟨l, p, q, r⟩ := hg
  cases hrep with
  | short _ _ _ _ _ _ hc hcl =>
  cases d with
  | true =>
    refine ⟨l, by simpa [cl, PT.shortChild] using p, q, fun z hz => ?_⟩
    simp only [dirtyCached, if_true, List.singleton_append, List.mem_append, List.mem_cons] at hz ⊢
    rcases hz with e | e | e
    · rcases r z (List.mem_append.mpr (.inl e)) with a | a | a
      · exact .inl (.inr a)
      · exact .inr (.inl a)
      · exact .inr (.inr a)
    · exact .inl (.inl e)
    · rcases r z (List.mem_append.mpr (.inr e)) with a | a | a
      · exact .inl (.inr a)
      · exact .inr (.inl a)
      · exact .inr (.inr a)
  | false =>
    have hcd : c.dirty = false := hup.1 rfl
    have e1 : cl H c tc = NL H tc := cl_of_clean hc hcd
    refine ⟨PT.hash H (.short k tc) :: l, ?_, ?_, fun z hz => ?_⟩
    · simp only [cl, Bool.false_eq_true, if_false, NL, if_true, PT.shortChild]
      rw [← e1]
      exact (p.cons _).trans List.perm_middle.symm
    · intro z hz
      rcases List.mem_cons.mp hz with rfl | hz
      · exact hash_len hlen _
      · exact q z hz
    · simp only [dirtyCached, if_true, List.singleton_append, List.mem_append, List.mem_cons, Bool.false_eq_true,
        if_false, List.nil_append] at hz ⊢
      rcases hz with e | e | e
      · rcases r z (List.mem_append.mpr (.inl e)) with a | a | a
        · exact .inl a
        · exact .inr (.inl (.inr a))
        · exact .inr (.inr a)
      · exact .inr (.inl (.inl (e.trans (hcl rfl).1)))
      · rcases r z (List.mem_append.mpr (.inr e)) with a | a | a
        · exact .inl a
        · exact .inr (.inl (.inr a))
        · exact .inr (.inr a)

/-- a branch on the path becomes dirty and its child `k` is replaced -/
theorem Gc.routing {h : Bytes} {ch : Nib → WN} {w : Nat} {d tcf : Bool} {f : Nib → PT} {k : Nib} {x : WN} {y : PT}
    {td : List Bytes} {w' : Nat} {tcf2 : Bool} (hrep : Rep H P (.routing h ch w d tcf) (.branch f))
    (hup : UpDirty (.routing h ch w d tcf)) (hlen : ∀ x, (H x).length = 32) (hg : Gc H (ch k) (f k) x y td) :
    Gc H (.routing h ch w d tcf) (.branch f) (.routing h (upd ch k x) w' true tcf2) (.branch (PT.updP f k y)) td := by
  obtain ⟨l, p, q, r⟩ := hg
  cases hrep with
  | routing _ _ _ _ _ _ hch hroute hcw hcl =>
  have hA := allNib_split k (fun i => cl H (ch i) (f i))
  have hB : (allNib.flatMap (fun i => cl H (upd ch k x i) (PT.updP f k y i))).Perm
      (cl H x y ++ allNib.flatMap (fun i => if i = k then [] else cl H (ch i) (f i))) := by
    have := allNib_split k (fun i => cl H (upd ch k x i) (PT.updP f k y i))
    have e : (fun i => if i = k then [] else cl H (upd ch k x i) (PT.updP f k y i)) =
        (fun i => if i = k then [] else cl H (ch i) (f i)) := by
      funext i
      by_cases hi : i = k <;> simp [hi, upd, PT.updP]
    rw [e] at this
    simpa [upd, PT.updP] using this
  have hstep := perm_step hA p hB
  have hd' : ∀ z, z ∈ td ++ allNib.flatMap (fun i => dirtyCached (upd ch k x i)) →
      z ∈ allNib.flatMap (fun i => dirtyCached (ch i)) ∨ z ∈ l ∨ z = [] := by
    intro z hz
    have hsub : ∀ i, z ∈ dirtyCached (ch i) → z ∈ allNib.flatMap (fun i => dirtyCached (ch i)) :=
      fun i hi => List.mem_flatMap.mpr ⟨i, by simp [allNib], hi⟩
    rcases List.mem_append.mp hz with e | e
    · rcases r z (List.mem_append.mpr (.inl e)) with a | a | a
      · exact .inl (hsub k a)
      · exact .inr (.inl a)
      · exact .inr (.inr a)
    · rcases mem_dirtyCached_upd e with e | ⟨i, e⟩
      · rcases r z (List.mem_append.mpr (.inr e)) with a | a | a
        · exact .inl (hsub k a)
        · exact .inr (.inl a)
        · exact .inr (.inr a)
      · exact .inl (hsub i e)
  cases d with
  | true =>
    refine ⟨l, by simpa [cl, PT.kid] using hstep, q, fun z hz => ?_⟩
    simp only [dirtyCached, if_true, List.singleton_append, List.mem_append, List.mem_cons] at hz ⊢
    rcases hz with e | e | e
    · rcases hd' z (List.mem_append.mpr (.inl e)) with a | a | a
      · exact .inl (.inr a)
      · exact .inr (.inl a)
      · exact .inr (.inr a)
    · exact .inl (.inl e)
    · rcases hd' z (List.mem_append.mpr (.inr e)) with a | a | a
      · exact .inl (.inr a)
      · exact .inr (.inl a)
      · exact .inr (.inr a)
  | false =>
    have e1 : (fun i => NL H (f i)) = (fun i => cl H (ch i) (f i)) := by
      funext i
      exact (cl_of_clean (hch i) (hup.1 rfl i)).symm
    refine ⟨PT.hash H (.branch f) :: l, ?_, ?_, fun z hz => ?_⟩
    · simp only [cl, Bool.false_eq_true, if_false, NL, if_true, PT.kid]
      rw [e1]
      exact (hstep.cons _).trans List.perm_middle.symm
    · intro z hz
      rcases List.mem_cons.mp hz with rfl | hz
      · exact hash_len hlen _
      · exact q z hz
    · simp only [dirtyCached, if_true, List.singleton_append, List.mem_append, List.mem_cons, Bool.false_eq_true,
        if_false, List.nil_append] at hz ⊢
      rcases hz with e | e | e
      · rcases hd' z (List.mem_append.mpr (.inl e)) with a | a | a
        · exact .inl a
        · exact .inr (.inl (.inr a))
        · exact .inr (.inr a)
      · exact .inr (.inl (.inl (e.trans (hcl rfl).1)))
      · rcases hd' z (List.mem_append.mpr (.inr e)) with a | a | a
        · exact .inl a
        · exact .inr (.inl (.inr a))
        · exact .inr (.inr a)

/-- branch reduction: a dirty branch with a single child `pos` is replaced by a fresh short node over that child; the
    branch's cached hash is pushed -/
theorem Gc.reduce {h : Bytes} {ch : Nib → WN} {w : Nat} {tcf : Bool} {f : Nib → PT} {pos : Nib} {K K' : Bytes}
    (hch : ∀ i, Rep H P (ch i) (f i)) (hz : ∀ j, j ≠ pos → f j = .none) :
    Gc H (.routing h ch w true tcf) (.branch f) (.short K [] (ch pos) true false) (.short K' (f pos)) [h] := by
  have hs : (allNib.flatMap (fun i => cl H (ch i) (f i))).Perm (cl H (ch pos) (f pos)) := by
    apply allNib_sole
    intro j hj
    have := hch j
    rw [hz j hj] at this ⊢
    exact cl_none this
  refine ⟨[], by simpa [cl, PT.kid, PT.shortChild] using hs, by simp, fun z hzz => ?_⟩
  simp only [dirtyCached, if_true, List.singleton_append, List.mem_cons, List.mem_flatMap] at hzz ⊢
  rcases hzz with e | e | e
  · exact .inl (.inl e)
  · exact .inr (.inr e)
  · exact .inl (.inr ⟨pos, by simp [allNib], e⟩)

/-- a dirty short node swallows its short child: the child's cached hash is pushed (if the child was clean, its hash
    is lost) -/
theorem Gc.merge {K hh ck chh : Bytes} {cc : WN} {cd ctc tcf : Bool} {K' : Bytes} {tcc : PT} {K2 K3 : Bytes} {tcf2 : Bool}
    (hrep : Rep H P (.short ck chh cc cd ctc) (.short ck tcc)) (hup : cd = false → cc.dirty = false)
    (hlen : ∀ x, (H x).length = 32) :
    Gc H (.short K hh (.short ck chh cc cd ctc) true tcf) (.short K' (.short ck tcc))
      (.short K2 hh cc true tcf2) (.short K3 tcc) [chh] := by
  cases hrep with
  | short _ _ _ _ _ _ hc hcl =>
  cases cd with
  | true =>
    refine ⟨[], by simp [cl, PT.shortChild], by simp, fun z hz => ?_⟩
    left
    simp only [dirtyCached, if_true, List.singleton_append, List.mem_cons] at hz ⊢
    rcases hz with e | e | e
    · exact .inr (.inl e)
    · exact .inl e
    · exact .inr (.inr e)
  | false =>
    have e1 : cl H cc tcc = NL H tcc := cl_of_clean hc (hup rfl)
    refine ⟨[PT.hash H (.short ck tcc)], ?_, ?_, fun z hz => ?_⟩
    · simp only [cl, Bool.false_eq_true, if_false, NL, if_true, PT.shortChild]
      rw [← e1]
      exact perm_snoc _ _
    · intro z hz
      rw [List.mem_singleton.mp hz]
      exact hash_len hlen _
    · simp only [dirtyCached, if_true, List.singleton_append, List.mem_cons, Bool.false_eq_true, if_false,
        List.nil_append] at hz ⊢
      rcases hz with e | e | e
      · exact .inr (.inl (.inl (e.trans (hcl rfl).1)))
      · exact .inl (.inl e)
      · exact .inl (.inr e)

/-- a short node is split into a fresh branch (under a fresh short node when there is a common prefix): its cached hash
    is pushed; if it was clean that hash is lost -/
theorem Gc.split {k h : Bytes} {c : WN} {d tcf : Bool} {tc : PT} (hrep : Rep H P (.short k h c d tcf) (.short k tc))
    (hup : UpDirty (.short k h c d tcf)) (hlen : ∀ x, (H x).length = 32) (A B C : Bytes) (i1 i2 : Nib) (hne : i1 ≠ i2)
    (v : Bytes) (w W : Nat) :
    Gc H (.short k h c d tcf) (.short k tc)
      (mkShort A (.routing [] (upd (upd noCh i1 (mkShort B c)) i2 (mkShort C (.value [] v w true))) W true false))
      (PT.mkShort A (.branch (PT.updP (PT.updP PT.noChP i1 (PT.mkShort B tc)) i2 (PT.mkShort C (.value v w))))) [h] := by
  cases hrep with
  | short _ _ _ _ _ _ hc hcl =>
  have hs : (cl H (mkShort A (.routing [] (upd (upd noCh i1 (mkShort B c)) i2 (mkShort C (.value [] v w true))) W true false))
      (PT.mkShort A (.branch (PT.updP (PT.updP PT.noChP i1 (PT.mkShort B tc)) i2 (PT.mkShort C (.value v w)))))).Perm
      (cl H c tc) := by
    rw [cl_mkShort]
    simp only [cl, if_true, PT.kid]
    have := allNib_sole i1 (fun i => cl H (upd (upd noCh i1 (mkShort B c)) i2 (mkShort C (.value [] v w true)) i)
      (PT.updP (PT.updP PT.noChP i1 (PT.mkShort B tc)) i2 (PT.mkShort C (.value v w)) i)) (by
        intro j hj
        by_cases hj2 : j = i2
        · simp only [upd, PT.updP, hj2, if_true]
          rw [cl_mkShort]; rfl
        · simp only [upd, PT.updP, hj2, hj, if_false]
          rfl)
    refine this.trans ?_
    simp only [upd, PT.updP, hne, if_false, if_true]
    rw [cl_mkShort]
  have hdc : ∀ z, z ∈ dirtyCached
      (mkShort A (.routing [] (upd (upd noCh i1 (mkShort B c)) i2 (mkShort C (.value [] v w true))) W true false)) →
      z ∈ dirtyCached c ∨ z = [] := by
    intro z hz
    rcases dirtyCached_mkShort hz with hz | hz
    · simp only [dirtyCached, if_true, List.singleton_append, List.mem_cons] at hz
      rcases hz with e | e
      · exact .inr e
      · rcases mem_dirtyCached_upd e with e | ⟨i, e⟩
        · rcases dirtyCached_mkShort e with e | e
          · simp [dirtyCached] at e; exact .inr e
          · exact .inr e
        · rcases mem_dirtyCached_upd (List.mem_flatMap.mpr ⟨i, by simp [allNib], e⟩) with e | ⟨j, e⟩
          · exact dirtyCached_mkShort e
          · simp [noCh, dirtyCached] at e
    · exact .inr hz
  cases d with
  | true =>
    refine ⟨[], by simpa [cl, PT.shortChild] using hs.symm, by simp, fun z hz => ?_⟩
    rcases List.mem_append.mp hz with e | e
    · left; simp only [List.mem_singleton] at e; simp [dirtyCached, e]
    · rcases hdc z e with a | a
      · left; simp [dirtyCached, a]
      · exact .inr (.inr a)
  | false =>
    have e1 : cl H c tc = NL H tc := cl_of_clean hc (hup.1 rfl)
    refine ⟨[PT.hash H (.short k tc)], ?_, ?_, fun z hz => ?_⟩
    · simp only [cl, Bool.false_eq_true, if_false, NL]
      rw [← e1]
      exact ((hs.symm).cons _).trans (perm_snoc _ _)
    · intro z hz
      rw [List.mem_singleton.mp hz]
      exact hash_len hlen _
    · rcases List.mem_append.mp hz with e | e
      · right; left
        simp only [List.mem_singleton] at e ⊢
        exact e.trans (hcl rfl).1
      · rcases hdc z e with a | a
        · left; simp [dirtyCached, a]
        · exact .inr (.inr a)

/-- a value is overwritten in place -/
theorem Gc.value_over {h vv : Bytes} {vw : Nat} {d : Bool} (hrep : Rep H P (.value h vv vw d) (.value vv vw))
    (hlen : ∀ x, (H x).length = 32) (v : Bytes) (w : Nat) :
    Gc H (.value h vv vw d) (.value vv vw) (.value h v w true) (.value v w) [] := by
  cases hrep with
  | value _ _ _ _ hcl =>
  cases d with
  | true => exact ⟨[], by simp [cl], by simp, fun z hz => .inl (by simpa [dirtyCached] using hz)⟩
  | false =>
    refine ⟨[PT.hash H (.value vv vw)], by simp [cl, NL], ?_, fun z hz => ?_⟩
    · intro z hz
      rw [List.mem_singleton.mp hz]
      exact hash_len hlen _
    · right; left
      simp only [dirtyCached, if_true, List.nil_append, List.mem_singleton] at hz ⊢
      exact hz.trans (hcl rfl).1

/-- fresh nodes where there was nothing -/
theorem Gc.fresh {n : WN} (hn : cl H n .none = []) (n' : WN) (t' : PT) (hc : cl H n' t' = [])
    (hd : ∀ z ∈ dirtyCached n', z = []) : Gc H n .none n' t' [] :=
  ⟨[], by simp [hn, hc], by simp, fun z hz => .inr (.inr (hd z (by simpa using hz)))⟩

end GcRules

/-! ### 1. a loaded node represents the tree, for any subtree-closed `P` -/

section Loaded
variable {H : Bytes → Bytes} {P : PT → Prop}

theorem repP_refOf (hPsub : SubClosed P) {m : Nat} {t : PT} (hp : P t) (hu : Uniform m t) :
    Rep H P (PT.refOf H t) t := by
  cases t with
  | none => exact Rep.nil
  | value v w => exact Rep.ref (.value v w) rfl hp
  | branch ch => exact Rep.ref (.branch ch) rfl hp
  | short k c =>
    exact Rep.short k _ _ false false c
      (Rep.ref c (isVB_isNone hu.2.2.2.1) (hPsub _ _ hp (PT.Sub.refl c).short)) (fun _ => ⟨rfl, hp⟩)

/-- 1. the clean node `DeserializeNode` makes of a spec node with `P` represents it (its children are references to
    subtrees, which have `P` because `P` is closed under subtrees) -/
theorem repP_loaded (hPsub : SubClosed P) {m : Nat} {t : PT} (hp : P t) (hn : t.isNone = false) (hu : Uniform m t) :
    Rep H P (PT.loaded H t) t := by
  cases t with
  | none => simp [PT.isNone] at hn
  | value v w => exact Rep.value _ v w false (fun _ => ⟨rfl, hp⟩)
  | short k c =>
    exact Rep.short k _ _ false false c
      (Rep.ref c (isVB_isNone hu.2.2.2.1) (hPsub _ _ hp (PT.Sub.refl c).short)) (fun _ => ⟨rfl, hp⟩)
  | branch ch =>
    exact Rep.routing _ _ _ false false ch
      (fun i => repP_refOf hPsub (hPsub _ _ hp ((PT.Sub.refl (ch i)).branch i)) (hu.2 i))
      (fun i hh ww h => refOf_isRef_not_short h) rfl (fun _ => ⟨rfl, hp⟩)

end Loaded

/-! ### 2. insert -/

section Insert
variable {H : Bytes → Bytes} {s : Store} {P : PT → Prop}

/-- what a successful insert into `n` (representing `t`) yields -/
def InsOKP (H : Bytes → Bytes) (P : PT → Prop) (n : WN) (t t' : PT) (r : IRes) : Prop :=
  r.err = none ∧ Rep H P r.node t' ∧ isRef r.node = false ∧ r.node ≠ .empty ∧ (NoEmp n → NoEmp r.node) ∧
    (r.node.weight : Int) = (n.weight : Int) + r.change ∧ Gc H n t r.node t' r.td

theorem gc_insert_aux (hlen : ∀ x, (H x).length = 32) (hPS : ∀ x, P x → StoredAll H s x) (hPsub : SubClosed P)
    (v : Bytes) (w : Nat) :
    ∀ (fuel : Nat) (n : WN) (t : PT) (m : Nat) (key : List Nib),
    Rep H P n t → UpDirty n → Uniform m t → PTOK t → key.length = m → need n key ≤ fuel →
    InsOKP H P n t (t.insert key v w) (insert true s fuel n key (.value [] v w true)) := by
  intro fuel
  induction fuel with
  | zero =>
    intro n t m key _ _ _ _ _ hf
    unfold need at hf
    split at hf <;> omega
  | succ fuel ih =>
    intro n t m key hrep hup hu hok hk hf
    cases key with
    | nil =>
      simp only [List.length_nil] at hk
      subst hk
      have hfresh : ∀ z ∈ dirtyCached (WN.value [] v w true), z = [] := by
        intro z hz; simpa [dirtyCached] using hz
      rcases uniform_zero hu with rfl | ⟨vv, vw, rfl⟩
      · cases hrep with
        | nil =>
          refine ⟨rfl, Rep.value [] v w true (by simp), rfl, by simp [insert], fun _ => trivial, ?_,
            Gc.fresh rfl _ _ rfl hfresh⟩
          simp [insert, WN.weight]
        | empty =>
          refine ⟨rfl, Rep.value [] v w true (by simp), rfl, by simp [insert], fun _ => trivial, ?_,
            Gc.fresh rfl _ _ rfl hfresh⟩
          simp [insert, WN.weight]
        | ref t hn hst => simp [PT.isNone] at hn
      · cases hrep with
        | ref t hn hst =>
          have hres := resolve_stored H hlen s (.value vv vw) rfl (hPS _ hst) hok.1 hok.2
          have hl : Rep H P (PT.loaded H (.value vv vw)) (.value vv vw) := repP_loaded hPsub hst rfl hu
          simp only [insert, hres, PT.loaded, PT.insert]
          by_cases hv : vv = v
          · simp only [hv, if_true]
            subst hv
            exact ⟨rfl, Rep.value _ vv vw false (fun _ => ⟨rfl, hst⟩), rfl, by simp, fun _ => trivial,
              by simp [WN.weight, PT.weight], Gc.of_ref (Gc.same _ _)⟩
          · simp only [hv, if_false]
            refine ⟨rfl, Rep.value _ v w true (by simp), rfl, by simp, fun _ => trivial, ?_,
              Gc.of_ref (Gc.value_over hl hlen v w)⟩
            simp only [WN.weight, PT.weight]
            omega
        | value h _ _ d hcl =>
          simp only [insert, PT.insert]
          by_cases hv : vv = v
          · simp only [hv, if_true]
            subst hv
            exact ⟨rfl, Rep.value _ vv vw d hcl, rfl, by simp, fun _ => trivial, by simp [WN.weight], Gc.same _ _⟩
          · simp only [hv, if_false]
            refine ⟨rfl, Rep.value _ v w true (by simp), rfl, by simp, fun _ => trivial, ?_,
              Gc.value_over (Rep.value _ _ _ _ hcl) hlen v w⟩
            simp only [WN.weight]
            omega
    | cons k ks =>
      have hfreshS : ∀ z ∈ dirtyCached (WN.short ((k :: ks).map nb) [] (WN.value [] v w true) true false), z = [] := by
        intro z hz
        simp only [dirtyCached, if_true, List.singleton_append, List.mem_cons, List.not_mem_nil, or_false] at hz
        rcases hz with e | e <;> exact e
      cases hrep with
      | nil =>
        refine ⟨rfl, ?_, rfl, by simp [insert], ?_, ?_, Gc.fresh rfl _ _ rfl hfreshS⟩
        · exact Rep.short _ [] _ true false _ (Rep.value [] v w true (by simp)) (by simp)
        · simp [insert, NoEmp]
        · simp [insert, WN.weight]
      | empty =>
        refine ⟨rfl, ?_, rfl, by simp [insert], ?_, ?_, Gc.fresh rfl _ _ rfl hfreshS⟩
        · exact Rep.short _ [] _ true false _ (Rep.value [] v w true (by simp)) (by simp)
        · simp [insert, NoEmp]
        · simp [insert, WN.weight]
      | value h vv vw d hcl =>
        simp only [Uniform] at hu
        subst hu
        simp at hk
      | ref t hn hst =>
        have hres := resolve_stored H hlen s t hn (hPS _ hst) hok.1 hok.2
        have hf' : need (PT.loaded H t) (k :: ks) ≤ fuel := by
          rw [need_of_ref rfl] at hf
          rw [need_of_not_ref (loaded_not_ref hn)]
          omega
        have hl : Rep H P (PT.loaded H t) t := repP_loaded hPsub hst hn hu
        have IH := ih (PT.loaded H t) t m (k :: ks) hl (upDirty_loaded H t) hu hok hk hf'
        obtain ⟨h1, h2, h3, h4, h5, h6, h7⟩ := IH
        have hwl : (PT.loaded H t).weight = t.weight := hl.weight
        simp only [insert, hres, h1]
        exact ⟨h1, h2, h3, h4, fun _ => h5 (noEmp_loaded t), by rw [h6, hwl]; rfl, Gc.of_ref h7⟩
      | short sk h c d tc tc' hc hcl =>
        have hrep0 : Rep H P (.short sk h c d tc) (.short sk tc') := Rep.short sk h c d tc tc' hc hcl
        obtain ⟨sn, rfl⟩ := exists_nibs sk hu.2.1
        obtain ⟨hs, hle, hvb, huc⟩ := uniform_short_iff.mp hu
        rcases cp_cases sn (k :: ks) (by omega) with ⟨K2, hK⟩ | ⟨a, i1, s', i2, K', rfl, hK, hni⟩
        · rw [hK, insert_short_prefix_m _ _ _ hs, PT.insert_short_prefix _ _ hs]
          have hk2 : K2.length = m - sn.length := by rw [hK] at hk; simp at hk; omega
          have hsl : sn.length ≠ 0 := by simpa using hs
          have hf' : need c K2 ≤ fuel := by
            unfold need at hf ⊢
            rw [hK] at hf
            simp only [isRef, Bool.false_eq_true, if_false, List.length_append] at hf
            split <;> omega
          obtain ⟨h1, h2, h3, h4, h5, h6, h7⟩ := ih c tc' _ K2 hc hup.2 huc hok.short hk2 hf'
          exact ⟨h1, Rep.short _ _ _ true tc _ h2 (by simp), rfl, by simp, fun hne => ⟨h4, h5 hne.2⟩, h6,
            Gc.short hrep0 hup hlen h7⟩
        · rw [hK, insert_short_split_m _ _ _ _ _ _ hni, PT.insert_short_split _ _ _ _ _ hni]
          have hcw : c.weight = tc'.weight := hc.weight
          refine ⟨rfl, rep_mkShort ?_, ?_, ?_, ?_, ?_, Gc.split hrep0 hup hlen _ _ _ i1 i2 hni v w _⟩
          · refine Rep.routing _ _ _ true false _
              (rep_upd i2 (rep_upd i1 rep_noCh (rep_mkShort hc)) (rep_mkShort (Rep.value [] v w true (by simp))))
              (route_upd i2 (route_upd i1 (fun i hh ww e => by simp [noCh] at e) ?_) ?_) ?_ (by simp)
            · intro hh ww e
              unfold mkShort at e
              unfold PT.mkShort
              split at e
              · rename_i hnil
                simp only [hnil, if_true]
                exact isVB_isShort hvb
              · cases e
            · intro hh ww e
              unfold mkShort at e
              split at e <;> cases e
            · rw [weight_split _ _ hni, weight_mkShortP, weight_mkShortP, hcw]
              rfl
          · unfold mkShort; split <;> rfl
          · unfold mkShort; split <;> simp
          · intro hne
            have hb : NoEmp (.routing [] (upd (upd noCh i1 (mkShort (s'.map nb) c)) i2
                (mkShort (K'.map nb) (.value [] v w true))) (c.weight + (WN.value [] v w true).weight) true false) :=
              noEmp_upd i2 (noEmp_upd i1 (fun _ => ⟨by simp [noCh], trivial⟩) (noEmp_mkShort hne.1 hne.2))
                (noEmp_mkShort (by simp) trivial)
            exact (noEmp_mkShort (by simp) hb).2
          · simp [weight_mkShort, WN.weight]
      | routing h ch cw d tc f hch hroute hcw hcl =>
        have hrep0 : Rep H P (.routing h ch cw d tc) (.branch f) := Rep.routing h ch cw d tc f hch hroute hcw hcl
        simp only [Uniform] at hu
        simp only [List.length_cons] at hk
        have hf' : need (ch k) ks ≤ fuel := by
          unfold need at hf ⊢
          simp only [isRef, Bool.false_eq_true, if_false, List.length_cons] at hf
          split <;> omega
        obtain ⟨h1, h2, h3, h4, h5, h6, h7⟩ := ih (ch k) (f k) (m - 1) ks (hch k) (hup.2 k) (hu.2 k) (hok.child k)
          (by omega) hf'
        simp only [insert, h1, PT.insert]
        have hwk : (ch k).weight = (f k).weight := (hch k).weight
        have hwr := h2.weight
        have e1 := weight_updP f k ((f k).insert ks v w)
        refine ⟨rfl, ?_, rfl, by simp, fun hne => noEmp_upd k hne ⟨h4, h5 (hne k).2⟩, ?_, Gc.routing hrep0 hup hlen h7⟩
        · refine Rep.routing _ _ _ true tc _ (rep_upd k hch h2)
            (route_upd k hroute (fun hh ww e => absurd e (not_ref_of_isRef h3 hh ww))) ?_ (by simp)
          omega
        · simp only [WN.weight]
          omega

/-- 2. `insert` over `Rep H P`, with the GC bookkeeping -/
theorem gc_insert (hlen : ∀ x, (H x).length = 32) (hPS : ∀ x, P x → StoredAll H s x) (hPsub : SubClosed P)
    {n : WN} {t : PT} {m fuel : Nat} {key : List Nib} (v : Bytes) (w : Nat)
    (hrep : Rep H P n t) (hup : UpDirty n) (hu : Uniform m t) (hok : PTOK t) (hk : key.length = m)
    (hf : 2 * m + 2 ≤ fuel) :
    let r := insert true s fuel n key (.value [] v w true)
    r.err = none ∧ Rep H P r.node (t.insert key v w) ∧ (r.node.weight : Int) = (n.weight : Int) + r.change ∧
      r.node ≠ .empty ∧ isRef r.node = false ∧ (NoEmp n → NoEmp r.node) ∧
      ∃ lost : List Bytes, (cl H n t).Perm (cl H r.node (t.insert key v w) ++ lost) ∧ (∀ h ∈ lost, h.length = 32) ∧
        ∀ h ∈ r.td ++ dirtyCached r.node, h ∈ dirtyCached n ∨ h ∈ lost ∨ h = [] := by
  have hf' : need n key ≤ fuel := Nat.le_trans (need_le n key) (by omega)
  obtain ⟨h1, h2, h3, h4, h5, h6, h7⟩ := gc_insert_aux hlen hPS hPsub v w fuel n t m key hrep hup hu hok hk hf'
  exact ⟨h1, h2, h6, h4, h3, h5, h7⟩

end Insert

/-! ### 3. delete -/

section Delete
variable {H : Bytes → Bytes} {s : Store} {P : PT → Prop}

/-- the outcome of `delete` on `n` (representing `t`): not found (node untouched, nothing pushed), or the node of
    `PT.delete` — which is nil or dirty — with the GC bookkeeping -/
def DelOKP (H : Bytes → Bytes) (P : PT → Prop) (n : WN) (t : PT) (key : List Nib) (r : DRes) : Prop :=
  (r.err = some .notFound ∧ t.delete key = none ∧ r.node = n ∧ r.td = []) ∨
  (r.err = none ∧ isRef r.node = false ∧ r.node ≠ .empty ∧ NoEmp r.node ∧ (r.node.isNil = false → r.node.dirty = true) ∧
    ∃ t', t.delete key = some t' ∧ Rep H P r.node t' ∧ r.node.weight + r.change = n.weight ∧ Gc H n t r.node t' r.td)

theorem upDirty_of_isNil {n : WN} (h : n.isNil = true) : UpDirty n := by
  cases n <;> simp [WN.isNil] at h; trivial

theorem gc_delete_aux (hlen : ∀ x, (H x).length = 32) (hPS : ∀ x, P x → StoredAll H s x) (hPsub : SubClosed P) :
    ∀ (fuel : Nat) (n : WN) (t : PT) (m : Nat) (key : List Nib),
    Rep H P n t → NoEmp n → UpDirty n → Uniform m t → PTOK t → key.length = m → need n key ≤ fuel →
    DelOKP H P n t key (delete H true s fuel n key) := by
  intro fuel
  induction fuel with
  | zero =>
    intro n t m key _ _ _ _ _ _ hf
    unfold need at hf
    split at hf <;> omega
  | succ fuel ih =>
    intro n t m key hrep hne hup hu hok hk hf
    unfold DelOKP at ih ⊢
    cases hrep with
    | nil => left; simp [delete, PT.delete]
    | empty => left; simp [delete, PT.delete]
    | value h vv vw d hcl =>
      have hkn : key = [] := by
        simp only [Uniform] at hu
        exact List.eq_nil_of_length_eq_zero (hk.trans hu)
      subst hkn
      right
      refine ⟨rfl, rfl, by simp [delete], trivial, by simp [delete, WN.isNil], .none, by simp [PT.delete], Rep.nil, ?_, ?_⟩
      · simp [delete, WN.weight]
      · have := hashField_cases (Rep.value h vv vw d hcl) (by simp)
        exact Gc.drop hlen (fun z hz => by
          simp only [delete, ne_eq, not_true_eq_false, if_false, List.mem_singleton] at hz
          subst hz
          exact this)
    | ref t hn hst =>
      have hres := resolve_stored H hlen s t hn (hPS _ hst) hok.1 hok.2
      have hf' : need (PT.loaded H t) key ≤ fuel := by
        rw [need_of_ref rfl] at hf
        rw [need_of_not_ref (loaded_not_ref hn)]
        omega
      have hl : Rep H P (PT.loaded H t) t := repP_loaded hPsub hst hn hu
      have IH := ih (PT.loaded H t) t m key hl (noEmp_loaded t) (upDirty_loaded H t) hu hok hk hf'
      have hwl : (PT.loaded H t).weight = t.weight := hl.weight
      simp only [delete, hres]
      generalize delete H true s fuel (PT.loaded H t) key = r at IH ⊢
      rcases IH with ⟨h1, h2, h3, h4⟩ | ⟨h1, h2, h3, h4, h4d, t', h5, h6, h7, h8⟩
      · left
        simp only [h1]
        exact ⟨trivial, h2, trivial, h4⟩
      · right
        simp only [h1]
        exact ⟨trivial, h2, h3, h4, h4d, t', h5, h6, by rw [h7, hwl]; rfl, Gc.of_ref h8⟩
    | short sk h c d tc tc' hc hcl =>
      have hrep0 : Rep H P (.short sk h c d tc) (.short sk tc') := Rep.short sk h c d tc tc' hc hcl
      obtain ⟨sn, rfl⟩ := exists_nibs sk hu.2.1
      obtain ⟨hs, hle, hvb, huc⟩ := uniform_short_iff.mp hu
      simp only [NoEmp] at hne
      rcases cp_cases sn key (by omega) with ⟨K2, rfl⟩ | ⟨a, i1, s', i2, K', rfl, rfl, hni⟩
      · rw [delete_short_prefix_m, PT.delete_short_prefix]
        by_cases hK : K2 = []
        · subst hK
          right
          simp only [if_true]
          refine ⟨by trivial, by trivial, by simp, trivial, by simp [WN.isNil], .none, rfl, Rep.nil, by simp [WN.weight], ?_⟩
          have e0 := hashField_cases hrep0 (by simp)
          have e1 := hashField_cases hc hne.1
          have hsub : ∀ z, z ∈ cl H c tc' → z ∈ cl H (.short (sn.map nb) h c d tc) (.short (sn.map nb) tc') := by
            intro z hz
            cases d with
            | true => simpa [cl, PT.shortChild] using hz
            | false =>
              rw [cl_of_clean hc (hup.1 rfl)] at hz
              simp only [cl, Bool.false_eq_true, if_false, NL, List.mem_cons]
              exact .inr hz
          apply Gc.drop hlen
          intro z hz
          simp only [List.mem_cons, List.not_mem_nil, or_false] at hz
          rcases hz with rfl | rfl
          · exact e0
          · rcases e1 with a | a | a
            · left
              simp only [dirtyCached, List.mem_append]
              exact .inr a
            · exact .inr (.inl (hsub _ a))
            · exact .inr (.inr a)
        · simp only [hK, if_false]
          have hk2 : K2.length = m - sn.length := by simp at hk; omega
          have hsl : sn.length ≠ 0 := by simpa using hs
          have hf' : need c K2 ≤ fuel := by
            unfold need at hf ⊢
            simp only [isRef, Bool.false_eq_true, if_false, List.length_append] at hf
            split <;> omega
          have IH := ih c tc' _ K2 hc hne.2 hup.2 huc hok.short hk2 hf'
          generalize delete H true s fuel c K2 = r at IH ⊢
          rcases IH with ⟨h1, h2, h3, h4⟩ | ⟨h1, h2, h3, h4, h4d, t'', h5, h6, h7, h8⟩
          · left
            simp only [h1, h2, h3]
            exact ⟨trivial, trivial, trivial, h4⟩
          · right
            obtain ⟨node, change, err, td⟩ := r
            simp only at h1 h2 h3 h4 h4d h6 h7 h8
            subst h1
            simp only [h5]
            have hw : (WN.short (sn.map nb) h c d tc).weight = c.weight := rfl
            rw [hw]
            have hg := fun (k2 k3 : Bytes) (b : Bool) =>
              Gc.short (k2 := k2) (k3 := k3) (tcf2 := b) hrep0 hup hlen h8
            cases h6 with
            | nil =>
              -- the child of a uniform short node is a value (then `K2 = []`) or a branch (never deleted to nothing)
              exfalso
              cases tc' with
              | none => simp [PT.isVB] at hvb
              | short _ _ => simp [PT.isVB] at hvb
              | value vv vw =>
                simp only [Uniform] at huc
                have : K2.length ≠ 0 := by simpa using hK
                omega
              | branch bch => exact PT.delete_branch_ne bch K2 h5
            | empty => exact absurd rfl h3
            | ref t0 hn0 hst0 => simp [isRef] at h2
            | value vh vv vw vd hcl0 =>
              exact ⟨rfl, rfl, by simp, ⟨by simp, trivial⟩, fun _ => rfl, _, rfl,
                Rep.short _ _ _ true tc _ (Rep.value vh vv vw vd hcl0) (by simp), h7, hg _ _ _⟩
            | routing rh rch rw rd rtc g hgg hgr hgw hgcl =>
              exact ⟨rfl, rfl, by simp, ⟨by simp, h4⟩, fun _ => rfl, _, rfl,
                Rep.short _ _ _ true tc _ (Rep.routing rh rch rw rd rtc g hgg hgr hgw hgcl) (by simp), h7, hg _ _ _⟩
            | short ck chh cc cd ctc tcc hcc hccl =>
              simp only [NoEmp] at h4
              have hcd : cd = true := h4d rfl
              subst hcd
              have hm := Gc.merge (K := sn.map nb) (hh := h) (tcf := tc) (K' := sn.map nb) (K2 := sn.map nb ++ ck)
                (K3 := sn.map nb ++ ck) (tcf2 := tc) (Rep.short ck chh cc true ctc tcc hcc hccl) (by simp) hlen
              exact ⟨rfl, rfl, by simp, h4, fun _ => rfl, _, rfl, Rep.short _ _ _ true tc _ hcc (by simp), h7,
                ((hg _ _ _).trans hm).td_sub (fun z hz => List.mem_append.mpr (.inl hz))⟩
      · left
        rw [delete_short_split_m _ _ _ _ _ _ hni, PT.delete_short_split _ _ _ _ _ hni]
        exact ⟨rfl, rfl, rfl, rfl⟩
    | routing h ch cw d tc f hch hroute hcw hcl =>
      have hrep0 : Rep H P (.routing h ch cw d tc) (.branch f) := Rep.routing h ch cw d tc f hch hroute hcw hcl
      simp only [Uniform] at hu
      simp only [NoEmp] at hne
      cases key with
      | nil => simp at hk; omega
      | cons k ks =>
        simp only [List.length_cons] at hk
        have hf' : need (ch k) ks ≤ fuel := by
          unfold need at hf ⊢
          simp only [isRef, Bool.false_eq_true, if_false, List.length_cons] at hf
          split <;> omega
        have IH := ih (ch k) (f k) (m - 1) ks (hch k) (hne k).2 (hup.2 k) (hu.2 k) (hok.child k) (by omega) hf'
        rw [PT.delete_branch_cons]
        simp only [delete]
        generalize delete H true s fuel (ch k) ks = r at IH ⊢
        rcases IH with ⟨h1, h2, h3, h4⟩ | ⟨h1, h2, h3, h4, h4d, t'', h5, h6, h7, h8⟩
        · left
          simp only [h1, h2, h3, upd_self]
          exact ⟨trivial, rfl, trivial, h4⟩
        · right
          simp only [h1, h5, Option.map_some]
          have hch' : ∀ i, Rep H P (upd ch k r.node i) (PT.updP f k t'' i) := rep_upd k hch h6
          have hroute' := route_upd (y := t'') k hroute (fun hh ww e => absurd e (not_ref_of_isRef h2 hh ww))
          have hne' : ∀ i, upd ch k r.node i ≠ .empty ∧ NoEmp (upd ch k r.node i) := noEmp_upd k hne ⟨h3, h4⟩
          have hokp : ∀ i, isRef (upd ch k r.node i) = true → PTOK (PT.updP f k t'' i) := by
            intro i
            unfold upd PT.updP
            split
            · intro e; rw [h2] at e; cases e
            · intro _; exact hok.child i
          have hnil : r.node.isNil = t''.isNone := h6.isNil_iff h3
          have hsole := soleChild_eq_sole hch' (fun i => (hne' i).1)
          have hwk : (ch k).weight = (f k).weight := (hch k).weight
          have hwr : r.node.weight = t''.weight := h6.weight
          have e1 := weight_updP f k t''
          have hw' : cw - r.change = (PT.branch (PT.updP f k t'')).weight := by omega
          have hgr : Gc H (.routing h ch cw d tc) (.branch f) (.routing h (upd ch k r.node) (cw - r.change) true tc)
              (.branch (PT.updP f k t'')) r.td := Gc.routing hrep0 hup hlen h8
          have hrout : isRef (WN.routing h (upd ch k r.node) (cw - r.change) true tc) = false ∧
              WN.routing h (upd ch k r.node) (cw - r.change) true tc ≠ .empty ∧
              NoEmp (WN.routing h (upd ch k r.node) (cw - r.change) true tc) ∧
              ((WN.routing h (upd ch k r.node) (cw - r.change) true tc).isNil = false →
                (WN.routing h (upd ch k r.node) (cw - r.change) true tc).dirty = true) ∧
              ∃ t', some (PT.branch (PT.updP f k t'')) = some t' ∧
                Rep H P (WN.routing h (upd ch k r.node) (cw - r.change) true tc) t' ∧
                (WN.routing h (upd ch k r.node) (cw - r.change) true tc).weight + r.change =
                  (WN.routing h ch cw d tc).weight ∧
                Gc H (.routing h ch cw d tc) (.branch f) (WN.routing h (upd ch k r.node) (cw - r.change) true tc) t' r.td := by
            refine ⟨rfl, by simp, hne', fun _ => rfl, _, rfl, Rep.routing _ _ _ true tc _ hch' hroute' hw' (by simp), ?_, hgr⟩
            simp only [WN.weight]; omega
          rw [hnil, hsole]
          by_cases hn0 : t''.isNone = true
          · simp only [hn0, Bool.not_true, Bool.false_eq_true, if_false]
            cases hs : PT.sole (PT.updP f k t'') with
            | none => exact ⟨rfl, hrout⟩
            | some pos =>
              obtain ⟨hpne, hpz⟩ := PT.sole_spec hs
              have hwp : (upd ch k r.node pos).weight + r.change = (WN.routing h ch cw d tc).weight := by
                have := weight_sole _ pos hpz
                have := (hch' pos).weight
                simp only [WN.weight]; omega
              have hp := hch' pos
              have hnp := hne' pos
              have hrp := hroute' pos
              have hop := hokp pos
              have hupp : UpDirty (upd ch k r.node pos) := by
                unfold upd
                split
                · exact upDirty_of_isNil (by rw [hnil, hn0])
                · exact hup.2 pos
              have hg1 : Gc H (.routing h ch cw d tc) (.branch f) (.short [nb pos] [] (upd ch k r.node pos) true false)
                  (.short [nb pos] (PT.updP f k t'' pos)) (r.td ++ [h]) :=
                hgr.trans (Gc.reduce hch' hpz)
              simp only [PT.collapse]
              generalize upd ch k r.node pos = cp at hp hnp hrp hop hwp hupp hg1 ⊢
              generalize PT.updP f k t'' pos = tp at hp hrp hop hpne hg1 ⊢
              cases hp with
              | nil => exact absurd rfl hpne
              | empty => exact absurd rfl hpne
              | ref _ hn0' hst0 =>
                have hns := hrp _ _ rfl
                have hok0 := hop rfl
                have hres := resolve_stored H hlen s tp hn0' (hPS _ hst0) hok0.1 hok0.2
                simp only [resolveNode, Bool.not_true, Bool.false_eq_true, if_false, hres]
                cases tp with
                | none => simp [PT.isNone] at hn0'
                | short _ _ => simp [PT.isShort] at hns
                | value vv vw =>
                  exact ⟨rfl, rfl, by simp [PT.loaded], ⟨by simp, trivial⟩, fun _ => rfl, _, rfl,
                    Rep.short _ _ _ true false _ (Rep.ref _ rfl hst0) (by simp), hwp, hg1⟩
                | branch g =>
                  exact ⟨rfl, rfl, by simp [PT.loaded], ⟨by simp, trivial⟩, fun _ => rfl, _, rfl,
                    Rep.short _ _ _ true false _ (Rep.ref _ rfl hst0) (by simp), hwp, hg1⟩
              | value vh vv vw vd hcl0 =>
                exact ⟨rfl, rfl, by simp [resolveNode], ⟨by simp, trivial⟩, fun _ => rfl, _, rfl,
                  Rep.short _ _ _ true false _ (Rep.value vh vv vw vd hcl0) (by simp), hwp, hg1⟩
              | routing rh rch rw rd rtc g hgg hgr' hgw hgcl =>
                exact ⟨rfl, rfl, by simp [resolveNode], ⟨by simp, hnp.2⟩, fun _ => rfl, _, rfl,
                  Rep.short _ _ _ true false _ (Rep.routing rh rch rw rd rtc g hgg hgr' hgw hgcl) (by simp), hwp, hg1⟩
              | short ck chh cc cd ctc tcc hcc hccl =>
                have hm := Gc.merge (K := [nb pos]) (hh := []) (tcf := false) (K' := [nb pos]) (K2 := nb pos :: ck)
                  (K3 := nb pos :: ck) (tcf2 := false) (Rep.short ck chh cc cd ctc tcc hcc hccl) hupp.1 hlen
                have hg2 : Gc H (.routing h ch cw d tc) (.branch f) (.short (nb pos :: ck) [] cc true false)
                    (.short (nb pos :: ck) tcc) (r.td ++ [h, chh]) :=
                  (hg1.trans hm).td_sub (fun z hz => by simpa [List.mem_append] using hz)
                exact ⟨rfl, rfl, by simp [resolveNode], hnp.2, fun _ => rfl, _, rfl,
                  Rep.short _ _ _ true false _ hcc (by simp), hwp, hg2⟩
          · simp only [hn0, Bool.not_false, if_true]
            exact ⟨trivial, hrout⟩

/-- 3. `delete` over `Rep H P`, with the GC bookkeeping. In the not-found case nothing is pushed. -/
theorem gc_delete (hlen : ∀ x, (H x).length = 32) (hPS : ∀ x, P x → StoredAll H s x) (hPsub : SubClosed P)
    {n : WN} {t : PT} {m fuel : Nat} {key : List Nib}
    (hrep : Rep H P n t) (hne : NoEmp n) (hup : UpDirty n) (hu : Uniform m t) (hok : PTOK t) (hk : key.length = m)
    (hf : 2 * m + 2 ≤ fuel) :
    let r := delete H true s fuel n key
    (r.err = some .notFound ∧ t.delete key = none ∧ r.node = n ∧ r.td = []) ∨
    (r.err = none ∧ ∃ t', t.delete key = some t' ∧ Rep H P r.node t' ∧ r.node.weight + r.change = n.weight ∧
      (r.node = .nil ↔ t' = .none) ∧ r.node ≠ .empty ∧ isRef r.node = false ∧ NoEmp r.node ∧
      ∃ lost : List Bytes, (cl H n t).Perm (cl H r.node t' ++ lost) ∧ (∀ h ∈ lost, h.length = 32) ∧
        ∀ h ∈ r.td ++ dirtyCached r.node, h ∈ dirtyCached n ∨ h ∈ lost ∨ h = []) := by
  have hf' : need n key ≤ fuel := Nat.le_trans (need_le n key) (by omega)
  rcases gc_delete_aux hlen hPS hPsub fuel n t m key hrep hne hup hu hok hk hf' with
    h | ⟨h1, h2, h3, h4, _, t', h5, h6, h7, h8⟩
  · exact .inl h
  · refine .inr ⟨h1, t', h5, h6, h7, ?_, h3, h2, h4, h8⟩
    have := h6.isNil_iff h3
    constructor
    · intro e; rw [e] at this; exact (PT.isNone_iff t').mp this.symm
    · intro e; rw [e] at this
      cases hd : (delete H true s fuel n key).node <;> simp [hd, WN.isNil, PT.isNone] at this ⊢

/-- the node a successful `delete` returns is nil or dirty -/
theorem gc_delete_dirty (hlen : ∀ x, (H x).length = 32) (hPS : ∀ x, P x → StoredAll H s x) (hPsub : SubClosed P)
    {n : WN} {t : PT} {m fuel : Nat} {key : List Nib}
    (hrep : Rep H P n t) (hne : NoEmp n) (hup : UpDirty n) (hu : Uniform m t) (hok : PTOK t) (hk : key.length = m)
    (hf : 2 * m + 2 ≤ fuel) (he : (delete H true s fuel n key).err = none)
    (hn : (delete H true s fuel n key).node.isNil = false) : (delete H true s fuel n key).node.dirty = true := by
  have hf' : need n key ≤ fuel := Nat.le_trans (need_le n key) (by omega)
  rcases gc_delete_aux hlen hPS hPsub fuel n t m key hrep hne hup hu hok hk hf' with
    h | ⟨h1, h2, h3, h4, h4d, _⟩
  · rw [h.1] at he; cases he
  · exact h4d hn

end Delete

/-! ### 4. whole tries -/

section Trie
variable {H : Bytes → Bytes} {P : PT → Prop}

theorem Gc.pending {n n' : WN} {t t' : PT} {td : List Bytes} (hg : Gc H n t n' t' td) (pend : List Bytes) :
    ∃ lost : List Bytes, (cl H n t).Perm (cl H n' t' ++ lost) ∧ (∀ h ∈ lost, h.length = 32) ∧
      ∀ h ∈ (pend ++ td) ++ dirtyCached n', h ∈ pend ++ dirtyCached n ∨ h ∈ lost ∨ h = [] := by
  obtain ⟨l, p, q, r⟩ := hg
  refine ⟨l, p, q, fun z hz => ?_⟩
  simp only [List.mem_append] at hz
  rcases hz with (e | e) | e
  · exact .inl (List.mem_append.mpr (.inl e))
  · rcases r z (List.mem_append.mpr (.inl e)) with a | a | a
    · exact .inl (List.mem_append.mpr (.inr a))
    · exact .inr (.inl a)
    · exact .inr (.inr a)
  · rcases r z (List.mem_append.mpr (.inr e)) with a | a | a
    · exact .inl (List.mem_append.mpr (.inr a))
    · exact .inr (.inl a)
    · exact .inr (.inr a)

theorem normRoot_of_not_nil {n : WN} (h : n.isNil = false) : normRoot n = n := by
  simp [normRoot, h]

theorem normRoot_isNil (n : WN) : (normRoot n).isNil = false := by
  cases n <;> rfl

/-- 4a. `Update(key, value ≠ "", weight)` -/
theorem gc_update_insert (hlen : ∀ x, (H x).length = 32) (t : WT) (hPS : ∀ x, P x → StoredAll H t.store x)
    (hPsub : SubClosed P) (ts : PT) (key : List Nib) (value : Bytes) (w : Nat)
    (hdb : t.hasDb = true) (hrep : Rep H P t.root ts) (hnn : t.root.isNil = false) (hne : NoEmp t.root)
    (hup : UpDirty t.root) (hu : Uniform 64 ts) (hok : PTOK ts) (hk : key.length = 64) (hv : value ≠ []) :
    let t' := (update H t key value w).1
    (update H t key value w).2 = .ok () ∧
    t'.store = t.store ∧ t'.hasDb = true ∧ t'.tempDeleted = t.tempDeleted ∧ t'.deleted = t.deleted ∧
    t'.oldRoot = t.oldRoot ∧ t'.created = t.created ∧
    t'.root.isNil = false ∧ Rep H P t'.root (ts.insert key value w) ∧ NoEmp t'.root ∧
    ∃ lost : List Bytes, (cl H t.root ts).Perm (cl H t'.root (ts.insert key value w) ++ lost) ∧
      (∀ h ∈ lost, h.length = 32) ∧
      ∀ h ∈ t'.pending ++ dirtyCached t'.root, h ∈ t.pending ++ dirtyCached t.root ∨ h ∈ lost ∨ h = [] := by
  have hf : 2 * 64 + 2 ≤ fuelFor key := by have := fuelFor_ok key; omega
  have hnr := normRoot_of_not_nil hnn
  have hf' : need t.root key ≤ fuelFor key := Nat.le_trans (need_le _ key) (by omega)
  obtain ⟨h1, h2, h3, h4, h5, h6, h7⟩ :=
    gc_insert_aux (s := t.store) hlen hPS hPsub value w (fuelFor key) t.root ts 64 key hrep hup hu hok hk hf'
  have e : update H t key value w =
      ({ t with root := (insert true t.store (fuelFor key) t.root key (.value [] value w true)).node,
                pending := t.pending ++ (insert true t.store (fuelFor key) t.root key (.value [] value w true)).td },
       .ok ()) := by
    simp only [update, hk, ne_eq, not_true_eq_false, if_false, hv, not_false_eq_true, if_true, hdb, hnr, h1]
  rw [e]
  have hnil : (insert true t.store (fuelFor key) t.root key (.value [] value w true)).node.isNil = false := by
    rw [h2.isNil_iff h4]
    cases ts <;> cases key <;> simp only [PT.insert] <;> (repeat' split) <;> simp [PT.isNone]
  exact ⟨rfl, rfl, hdb, rfl, rfl, rfl, rfl, hnil, h2, h5 hne, h7.pending t.pending⟩

/-- 4b. `Update(key, "", _)` = delete.  `ts'` is the spec trie afterwards (`ts` itself when the key is not found; then the
    root and the pending queue are untouched). -/
theorem gc_update_delete (hlen : ∀ x, (H x).length = 32) (t : WT) (hPS : ∀ x, P x → StoredAll H t.store x)
    (hPsub : SubClosed P) (ts : PT) (key : List Nib) (w : Nat)
    (hdb : t.hasDb = true) (hrep : Rep H P t.root ts) (hnn : t.root.isNil = false) (hne : NoEmp t.root)
    (hup : UpDirty t.root) (hu : Uniform 64 ts) (hok : PTOK ts) (hk : key.length = 64) :
    let t' := (update H t key [] w).1
    t'.store = t.store ∧ t'.hasDb = true ∧ t'.tempDeleted = t.tempDeleted ∧ t'.deleted = t.deleted ∧
    t'.oldRoot = t.oldRoot ∧ t'.created = t.created ∧
    t'.root.isNil = false ∧ NoEmp t'.root ∧
    ∃ ts', (((update H t key [] w).2 = .err .notFound ∧ ts.delete key = none ∧ ts' = ts ∧ t'.root = t.root ∧
              t'.pending = t.pending) ∨
            ((update H t key [] w).2 = .ok () ∧ ts.delete key = some ts')) ∧
      Rep H P t'.root ts' ∧
      ∃ lost : List Bytes, (cl H t.root ts).Perm (cl H t'.root ts' ++ lost) ∧ (∀ h ∈ lost, h.length = 32) ∧
        ∀ h ∈ t'.pending ++ dirtyCached t'.root, h ∈ t.pending ++ dirtyCached t.root ∨ h ∈ lost ∨ h = [] := by
  have hf : 2 * 64 + 2 ≤ fuelFor key := by have := fuelFor_ok key; omega
  have hnr := normRoot_of_not_nil hnn
  have hf' : need t.root key ≤ fuelFor key := Nat.le_trans (need_le _ key) (by omega)
  rcases gc_delete_aux (s := t.store) hlen hPS hPsub (fuelFor key) t.root ts 64 key hrep hne hup hu hok hk hf' with
    ⟨h1, h2, h3, h4⟩ | ⟨h1, h2, h3, h4, _, ts', h5, h6, h7, h8⟩
  · have e : update H t key [] w = ({ t with root := t.root, pending := t.pending ++ [] }, .err .notFound) := by
      simp only [update, hk, ne_eq, not_true_eq_false, if_false, hdb, hnr, h1, h3, h4]
    rw [e]
    refine ⟨rfl, hdb, rfl, rfl, rfl, rfl, hnn, hne, ts, .inl ⟨rfl, h2, rfl, rfl, by simp⟩, hrep, ?_⟩
    simpa using (Gc.same (H := H) t.root ts).pending t.pending
  · have e : update H t key [] w =
        ({ t with root := normRoot (delete H true t.store (fuelFor key) t.root key).node,
                  pending := t.pending ++ (delete H true t.store (fuelFor key) t.root key).td },
         .ok ()) := by
      simp only [update, hk, ne_eq, not_true_eq_false, if_false, hdb, hnr, h1]
    rw [e]
    refine ⟨rfl, hdb, rfl, rfl, rfl, rfl, normRoot_isNil _, (noEmp_normRoot _).mpr h4, ts', .inr ⟨rfl, h5⟩,
      rep_normRoot h6, ?_⟩
    have := h8.pending t.pending
    simpa only [cl_normRoot, dirtyCached_normRoot] using this

/-- 4c. `Delete(key)` (keys of the one length `m` of the trie) -/
theorem gc_deleteKey (hlen : ∀ x, (H x).length = 32) (t : WT) (hPS : ∀ x, P x → StoredAll H t.store x)
    (hPsub : SubClosed P) (ts : PT) (m : Nat) (key : List Nib)
    (hdb : t.hasDb = true) (hrep : Rep H P t.root ts) (hnn : t.root.isNil = false) (hne : NoEmp t.root)
    (hup : UpDirty t.root) (hu : Uniform m ts) (hok : PTOK ts) (hk : key.length = m) :
    let t' := (deleteKey H t key).1
    t'.store = t.store ∧ t'.hasDb = true ∧ t'.tempDeleted = t.tempDeleted ∧ t'.deleted = t.deleted ∧
    t'.oldRoot = t.oldRoot ∧ t'.created = t.created ∧
    t'.root.isNil = false ∧ NoEmp t'.root ∧
    ∃ ts', (((deleteKey H t key).2 = .err .notFound ∧ ts.delete key = none ∧ ts' = ts ∧ t'.root = t.root ∧
              t'.pending = t.pending) ∨
            ((deleteKey H t key).2 = .ok (ts.weight - ts'.weight) ∧ ts.delete key = some ts')) ∧
      Rep H P t'.root ts' ∧
      ∃ lost : List Bytes, (cl H t.root ts).Perm (cl H t'.root ts' ++ lost) ∧ (∀ h ∈ lost, h.length = 32) ∧
        ∀ h ∈ t'.pending ++ dirtyCached t'.root, h ∈ t.pending ++ dirtyCached t.root ∨ h ∈ lost ∨ h = [] := by
  have hf : 2 * m + 2 ≤ fuelFor key := by have := fuelFor_ok key; omega
  have hf' : need t.root key ≤ fuelFor key := Nat.le_trans (need_le _ key) (by omega)
  have hwt := hrep.weight
  rcases gc_delete_aux (s := t.store) hlen hPS hPsub (fuelFor key) t.root ts m key hrep hne hup hu hok hk hf' with
    ⟨h1, h2, h3, h4⟩ | ⟨h1, h2, h3, h4, _, ts', h5, h6, h7, h8⟩
  · have e : deleteKey H t key = ({ t with root := t.root, pending := t.pending ++ [] }, .err .notFound) := by
      simp only [deleteKey, hdb, h1, h3, h4]
    rw [e]
    refine ⟨rfl, hdb, rfl, rfl, rfl, rfl, hnn, hne, ts, .inl ⟨rfl, h2, rfl, rfl, by simp⟩, hrep, ?_⟩
    simpa using (Gc.same (H := H) t.root ts).pending t.pending
  · have e : deleteKey H t key =
        ({ t with root := normRoot (delete H true t.store (fuelFor key) t.root key).node,
                  pending := t.pending ++ (delete H true t.store (fuelFor key) t.root key).td },
         .ok (delete H true t.store (fuelFor key) t.root key).change) := by
      simp only [deleteKey, hdb, h1]
    rw [e]
    refine ⟨rfl, hdb, rfl, rfl, rfl, rfl, normRoot_isNil _, (noEmp_normRoot _).mpr h4, ts', .inr ⟨?_, h5⟩,
      rep_normRoot h6, ?_⟩
    · have := h6.weight
      show Res.ok _ = Res.ok _
      congr 1; omega
    · have := h8.pending t.pending
      simpa only [cl_normRoot, dirtyCached_normRoot] using this

end Trie

end GcOps
end Verif.Wmpt
