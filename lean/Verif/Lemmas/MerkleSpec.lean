import Verif.Model.Merkle
/-! Lemmas for C19, specification side: sibling paths over `levels` fold to the root. -/
namespace Verif.Merkle

variable {α : Type}

/-- the sibling of position `i` in a level, or the node itself when it is the last one and has no partner -/
def sibOf (z : α) (L : List α) (i : Nat) : α :=
  if i % 2 = 1 then L.getD (i - 1) z
  else if i + 1 < L.length then L.getD (i + 1) z
  else L.getD i z

/-- the specification of a path: the sibling on every level below the root -/
def specPath (z : α) : List (List α) → Nat → List α
  | [], _ => []
  | [_], _ => []
  | L :: L' :: ls, i => sibOf z L i :: specPath z (L' :: ls) (i / 2)

/-- the root above level `L` -/
def rootOf (H : α → α → α) (z : α) (L : List α) : α :=
  if _h : 1 < L.length then rootOf H z (pairUp H L) else L.getD 0 z
termination_by L.length
decreasing_by rw [length_pairUp]; omega

theorem levelsFrom_cons (H : α → α → α) (L : List α) (h : 1 < L.length) :
    levelsFrom H L = L :: levelsFrom H (pairUp H L) := by
  rw [levelsFrom]; simp [h]

theorem levelsFrom_single (H : α → α → α) (L : List α) (h : ¬ 1 < L.length) : levelsFrom H L = [L] := by
  rw [levelsFrom]; simp [h]

theorem levelsFrom_ne_nil (H : α → α → α) (L : List α) : levelsFrom H L ≠ [] := by
  by_cases h : 1 < L.length
  · rw [levelsFrom_cons H L h]; simp
  · rw [levelsFrom_single H L h]; simp

theorem rootOf_step (H : α → α → α) (z : α) (L : List α) (h : 1 < L.length) :
    rootOf H z L = rootOf H z (pairUp H L) := by
  rw [rootOf]; simp [h]

theorem rootOf_base (H : α → α → α) (z : α) (L : List α) (h : ¬ 1 < L.length) : rootOf H z L = L.getD 0 z := by
  rw [rootOf]; simp [h]

/-- element `i/2` of the next level is the hash of `i` and its sibling, in index order -/
theorem pairUp_getD (H : α → α → α) (z : α) : ∀ (L : List α) (i : Nat), i < L.length →
    (pairUp H L).getD (i / 2) z =
      if i % 2 = 1 then H (L.getD (i - 1) z) (L.getD i z)
      else if i + 1 < L.length then H (L.getD i z) (L.getD (i + 1) z)
      else H (L.getD i z) (L.getD i z)
  | [], i, h => by simp at h
  | [a], i, h => by
    have : i = 0 := by simpa using h
    subst this; simp [pairUp]
  | a :: b :: r, i, h => by
    match i with
    | 0 => simp [pairUp]
    | 1 => simp [pairUp]
    | i + 2 =>
      have h' : i < r.length := by simpa using h
      have ih := pairUp_getD H z r i h'
      have e1 : (i + 2) / 2 = i / 2 + 1 := by omega
      have e2 : (i + 2) % 2 = i % 2 := by omega
      simp only [pairUp, e1, e2, List.getD_cons_succ, List.length_cons]
      rw [ih]
      by_cases hodd : i % 2 = 1
      · have : i + 2 - 1 = (i - 1) + 2 := by omega
        simp [hodd, this]
      · simp only [hodd, if_false]
        have : (i + 1 < r.length) ↔ (i + 2 + 1 < r.length + 1 + 1) := by omega
        by_cases hl : i + 1 < r.length
        · simp [hl, this.mp hl]
        · have hl' : ¬ (i + 2 + 1 < r.length + 1 + 1) := fun x => hl (this.mpr x)
          simp [hl, hl']

theorem verifyFold_step (H : α → α → α) (h s : α) (r : List α) (i : Nat) :
    verifyFold H h (s :: r) (i : Int) = verifyFold H (if i % 2 = 1 then H s h else H h s) r ((i / 2 : Nat) : Int) := by
  have e1 : ((i : Int) % 2 = 1) ↔ (i % 2 = 1) := by omega
  have e2 : ((i : Int) - (i : Int) % 2) / 2 = ((i / 2 : Nat) : Int) := by omega
  simp only [verifyFold, e2]
  by_cases hh : i % 2 = 1
  · simp [hh, e1.mpr hh]
  · have : ¬ ((i : Int) % 2 = 1) := fun x => hh (e1.mp x)
    simp [hh, this]

/-- **Completeness on the specification**: the sibling path of position `i` folds to the root. -/
theorem verifyFold_specPath (H : α → α → α) (z : α) (L : List α) :
    ∀ (i : Nat), i < L.length → verifyFold H (L.getD i z) (specPath z (levelsFrom H L) i) (i : Int) = rootOf H z L := by
  induction L using levelsFrom.induct H with
  | case1 L hL ih =>
    intro i hi
    rw [levelsFrom_cons H L hL, rootOf_step H z L hL]
    obtain ⟨L', ls, hls⟩ : ∃ L' ls, levelsFrom H (pairUp H L) = L' :: ls := by
      cases hx : levelsFrom H (pairUp H L) with
      | nil => exact absurd hx (levelsFrom_ne_nil H _)
      | cons a b => exact ⟨a, b, rfl⟩
    have hi2 : i / 2 < (pairUp H L).length := by rw [length_pairUp]; omega
    have := ih (i / 2) hi2
    rw [hls] at this ⊢
    simp only [specPath]
    rw [verifyFold_step, ← this, pairUp_getD H z L i hi]
    congr 1
    unfold sibOf
    by_cases hodd : i % 2 = 1
    · simp [hodd]
    · by_cases hl : i + 1 < L.length <;> simp [hodd, hl]
  | case2 L hL =>
    intro i hi
    have : i = 0 := by omega
    subst this
    rw [levelsFrom_single H L hL, rootOf_base H z L hL]
    simp [specPath, verifyFold]

/-- **Exclusivity**: a fold step is injective in the running hash when `H` is injective in each argument, so two
hashes that fold to the same value along the same path are equal. -/
theorem verifyFold_injective (H : α → α → α)
    (hl : ∀ s a b, H a s = H b s → a = b) (hr : ∀ s a b, H s a = H s b → a = b) :
    ∀ (p : List α) (idx : Int) (h h' : α), verifyFold H h p idx = verifyFold H h' p idx → h = h' := by
  intro p
  induction p with
  | nil => intro idx h h' e; simpa [verifyFold] using e
  | cons s r ih =>
    intro idx h h' e
    simp only [verifyFold] at e
    have := ih _ _ _ e
    by_cases hodd : idx % 2 = 1
    · simp only [hodd, if_true] at this; exact hr s h h' this
    · simp only [hodd, if_false] at this; exact hl s h h' this

end Verif.Merkle
