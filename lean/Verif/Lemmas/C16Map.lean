/-
Instantiation of the RW-lock discipline model with the C01 trie model: the whole trie (everything reachable from
the root-key field, whose location `L` is resolved from the regenerated table) is ONE location holding the C01 model state; an update
(`ins`/`del`) is a W-mode operation that reads it, applies the C01 model step and writes it back; a lookup or an
iteration is an R-mode operation that reads it. The location also holds the trie's change collector (store agent's
`Verif.MptStore.Collector`, fed with the `insertNode`/`deleteNode` events of `insertE`/`deleteE`); the change-set reads
are R-mode reads of it, `MergeChanges` is a W-mode operation replacing the tree and replaying a change set.
Helper lemmas for `Verif.Props.C16Map`.
-/
import Verif.Props.C01
import Verif.Props.C02
import Verif.Lemmas.RWDiscipline
import Verif.Lemmas.MptStoreTrie
import Verif.Lemmas.MptStoreEvents

set_option linter.unusedSimpArgs false
set_option linter.unusedVariables false
namespace Verif.C16Map
open Verif.RW Verif.Mpt Verif.Props.C01

open Verif.MptStore (Event Ref Change Collector insertE deleteE callsOf)
open Verif.MptStore.Collector (run)

/-- the state the trie's RW lock protects: the C01 model state (tree, version) and the change collector -/
structure XState where
  ms : MState
  cc : Collector Bytes Ref

/-- the collector of a trie opened on the empty root, after the `insertNode`/`deleteNode` events `es`
(`collect (events …)`: the store agent's collector algebra `Verif.Props.C04.collector_algebra` is about exactly this
`run … (callsOf H es)`) -/
def collect (H : Bytes → Bytes) (es : List Event) : Collector Bytes Ref :=
  run (Ref.key H) { startRoot := [] } (callsOf H es)

def xinit (v0 : Nat) : XState := { ms := Verif.Props.C01.init v0, cc := { startRoot := [] } }

/-- the operations of the trie model in the concurrent setting: the C01 operations, `GetRoot`, `SaveChanges`, the
change-set reads, and `MergeChanges(newRoot, changes, deletes, startRoot)` — `child` is the content `newRoot` stands
for, `ces` the replay (`insertNode` per change, `deleteNode` per delete) of the change set, `sr` the start root -/
inductive TOp where
  | base (op : Verif.Props.C01.Op)
  | root
  | save
  | changes
  | deletes
  | count
  | merge (child : Node) (ces : List Event) (sr : Bytes)

/-- what an operation returns -/
inductive TObs where
  | obs (o : Obs)
  | root (r : Bytes)
  | saved
  | changes (cs : List (Change Ref))
  | deletes (ds : List Ref)
  | count (n : Nat)
  | merged (ok : Bool)

def delEvents (s : MState) (p : List Nib) : List Event :=
  match deleteE s.v s.t [] p with
  | (.removed, es) => es
  | (.node _, es) => es
  | _ => []

/-- the `insertNode`/`deleteNode` calls a C01 operation makes on tree `s.t` (Model/MptStore `insertE`/`deleteE`; an
empty value is a delete, an over-size value is rejected before anything is touched) -/
def opEvents (maxSize : Nat) (s : MState) : Verif.Props.C01.Op → List Event
  | .ins p b => if b = [] then delEvents s p else if b.length > maxSize then [] else (insertE s.v b s.t [] p).2
  | .del p => delEvents s p
  | _ => []

/-- `MergeChanges` applies unless the roots already agree (nothing to do) or the trie moved on (stale) -/
def mergeApplies (H : Bytes → Bytes) (t child : Node) (sr : Bytes) : Bool :=
  decide (root H t ≠ root H child) && decide (root H t = sr)

def mergeOk (H : Bytes → Bytes) (t child : Node) (sr : Bytes) : Bool :=
  decide (root H t = root H child) || decide (root H t = sr)

/-- the events an operation feeds to the collector when run on state `s` -/
def tevents (H : Bytes → Bytes) (maxSize : Nat) (s : XState) : TOp → List Event
  | .base op => opEvents maxSize s.ms op
  | .merge child ces sr => if mergeApplies H s.ms.t child sr then ces else []
  | _ => []

/-- sequential semantics: the C01 model step, its events going to the collector; `GetRoot` returns the root key of
the trie (C02's `root`, for the hash function `H`); `SaveChanges` writes a CLONE of the pending change set to ANOTHER
store and leaves the trie and its collector as they are; the change-set reads return the collector's content;
`MergeChanges` replaces the tree by the child's and replays the change set into the collector -/
def tstep (H : Bytes → Bytes) (maxSize : Nat) (s : XState) : TOp → XState × TObs
  | .base op => ({ ms := (mstep maxSize s.ms op).1, cc := run (Ref.key H) s.cc (callsOf H (opEvents maxSize s.ms op)) },
      .obs (mstep maxSize s.ms op).2)
  | .root => (s, .root (root H s.ms.t))
  | .save => (s, .saved)
  | .changes => (s, .changes s.cc.getChanges)
  | .deletes => (s, .deletes s.cc.getDeletes)
  | .count => (s, .count s.cc.getChanges.length)
  | .merge child ces sr =>
    if mergeApplies H s.ms.t child sr then
      ({ ms := { s.ms with t := child }, cc := run (Ref.key H) s.cc (callsOf H ces) }, .merged true)
    else (s, .merged (mergeOk H s.ms.t child sr))

def trun (H : Bytes → Bytes) (maxSize : Nat) (s : XState) : List TOp → XState × List TObs
  | [] => (s, [])
  | op :: ops =>
    let r := tstep H maxSize s op
    let r' := trun H maxSize r.1 ops
    (r'.1, r.2 :: r'.2)

def isUpdate : TOp → Bool
  | .base (.ins _ _) => true
  | .base (.del _) => true
  | .merge _ _ _ => true
  | _ => false

/-- `SetVersion` is outside the claimed scope of C16 -/
def NoVer : TOp → Prop
  | .base (.ver _) => False
  | _ => True

/-- the tree a merge brings is canonical and of the trie's version (a child trie of the same block) -/
def MergeWF (v0 : Nat) : TOp → Prop
  | .merge child _ _ => WF child ∧ AllOrigin v0 child
  | _ => True

/-- critical section of a trie operation over location `L` -/
def body (L : Loc) (H : Bytes → Bytes) (maxSize : Nat) (op : TOp) : Prog XState TObs :=
  if isUpdate op then
    .rd L 0 (fun s => .wr L 0 (tstep H maxSize s op).1 (.rel (.ret (tstep H maxSize s op).2)))
  else
    .rd L 0 (fun s => .rel (.ret (tstep H maxSize s op).2))

def modeOfOp (op : TOp) : Mode := if isUpdate op then .W else .R

/-- the operation as the threads run it: take the trie's lock in the mode the real method takes, run, release -/
def opProg (L : Loc) (H : Bytes → Bytes) (maxSize : Nat) (op : TOp) : Prog XState TObs := .acq (modeOfOp op) (body L H maxSize op)

theorem body_run (L : Loc) (H : Bytes → Bytes) (maxSize : Nat) (op : TOp) (h : NoVer op) (mem : Loc → XState) :
    ((body L H maxSize op).run mem).2 = (tstep H maxSize (mem L) op).2 ∧
    ((body L H maxSize op).run mem).1 L = (tstep H maxSize (mem L) op).1 := by
  rcases op with (_ | _ | _ | _ | _) | _ | _ | _ | _ | _ | _ <;>
    simp [body, isUpdate, Prog.run, tstep, mstep, opEvents, Verif.MptStore.Collector.run, callsOf, NoVer] at h ⊢

theorem bodyOK (L : Loc) (H : Bytes → Bytes) (maxSize : Nat) (op : TOp) : BodyOK (body L H maxSize op) := by
  rcases op with (_ | _ | _ | _ | _) | _ | _ | _ | _ | _ | _ <;> simp [body, isUpdate, BodyOK]

/-- sequential run of logged bodies = the model run of the corresponding operations -/
theorem seqRun_mrun (L : Loc) (H : Bytes → Bytes) (maxSize : Nat) : ∀ (es : List (LinEntry XState TObs)) (ops : List TOp) (mem : Loc → XState),
    es.map (·.prog) = ops.map (body L H maxSize) → (∀ op, op ∈ ops → NoVer op) →
    (seqRun es mem).2 = (trun H maxSize (mem L) ops).2 ∧ (seqRun es mem).1 L = (trun H maxSize (mem L) ops).1 := by
  intro es
  induction es with
  | nil =>
    intro ops mem h _
    cases ops with
    | nil => simp [seqRun, trun]
    | cons o os => simp at h
  | cons e es ih =>
    intro ops mem h hnv
    cases ops with
    | nil => simp at h
    | cons o os =>
      simp only [List.map_cons, List.cons.injEq] at h
      obtain ⟨he, hes⟩ := h
      have hb := body_run L H maxSize o (hnv o (by simp)) mem
      have := ih os (e.prog.run mem).1 hes (fun op hop => hnv op (by simp [hop]))
      simp only [seqRun, trun]
      rw [he, hb.2] at this
      rw [he]
      exact ⟨by rw [hb.1, this.1], this.2⟩

/-! ### the sequential specification of the extended operations -/

/-- the model state is the canonical trie (all nodes of origin `v0`, trie at version `v0`) of the map `m` -/
def TInv (v0 : Nat) (s : MState) (m : Spec) : Prop :=
  WF s.t ∧ AllOrigin v0 s.t ∧ s.v = v0 ∧ ∀ q, lookup s.t q = m q

/-- effect on the specification map: the C01 updates; an applied `MergeChanges` makes it the content of the child's
tree; nothing else changes it -/
def tsstep (H : Bytes → Bytes) (maxSize : Nat) (m : Spec) (s : XState) : TOp → Spec
  | .base op => (sstep maxSize m op).1
  | .merge child _ sr => if mergeApplies H s.ms.t child sr then lookup child else m
  | _ => m

/-- the specification map after a list of operations -/
def tspec (H : Bytes → Bytes) (maxSize : Nat) : Spec → XState → List TOp → Spec
  | m, _, [] => m
  | m, s, op :: ops => tspec H maxSize (tsstep H maxSize m s op) (tstep H maxSize s op).1 ops

/-- the `insertNode`/`deleteNode` events of a list of operations -/
def tevs (H : Bytes → Bytes) (maxSize : Nat) : XState → List TOp → List Event
  | _, [] => []
  | s, op :: ops => tevents H maxSize s op ++ tevs H maxSize (tstep H maxSize s op).1 ops

/-- one result against the specification, `m` the map, `s` the sequential model state and `es` the collector events
of the linearized prefix: a C01 operation returns what the map specification returns (`ObsRel`); `GetRoot` returns
THE root key of the map — the root (C02's `root H`) of every canonical single-origin trie that reads as the map;
`GetChanges`/`GetDeletes`/`GetChangeCount` return the content of `collect es`; `MergeChanges` succeeds unless stale -/
def ObsOk (H : Bytes → Bytes) (v0 maxSize : Nat) (m : Spec) (s : XState) (es : List Event) : TOp → TObs → Prop
  | .base op, .obs o => ObsRel o (sstep maxSize m op).2
  | .root, .root r => ∀ t', WF t' → AllOrigin v0 t' → (∀ q, lookup t' q = m q) → r = root H t'
  | .save, .saved => True
  | .changes, .changes cs => cs = (collect H es).getChanges
  | .deletes, .deletes ds => ds = (collect H es).getDeletes
  | .count, .count n => n = (collect H es).getChanges.length
  | .merge child _ sr, .merged ok => ok = mergeOk H s.ms.t child sr
  | _, _ => False

/-- the observations agree with the specification run -/
def TRel (H : Bytes → Bytes) (v0 maxSize : Nat) : Spec → XState → List Event → List TOp → List TObs → Prop
  | _, _, _, [], [] => True
  | m, s, es, op :: ops, o :: os =>
      ObsOk H v0 maxSize m s es op o ∧
      TRel H v0 maxSize (tsstep H maxSize m s op) (tstep H maxSize s op).1 (es ++ tevents H maxSize s op) ops os
  | _, _, _, _, _ => False

theorem collect_append (H : Bytes → Bytes) (es fs : List Event) :
    run (Ref.key H) (collect H es) (callsOf H fs) = collect H (es ++ fs) := by
  simp [collect, Verif.MptStore.Collector.run, callsOf, List.filterMap_append, List.foldl_append]

theorem tstep_inv (H : Bytes → Bytes) (maxSize v0 : Nat) {s : XState} {m : Spec} (h : TInv v0 s.ms m) (op : TOp)
    (hn : NoVer op) (hmw : MergeWF v0 op) : TInv v0 (tstep H maxSize s op).1.ms (tsstep H maxSize m s op) := by
  obtain ⟨hwf, hao, hv, hm⟩ := h
  rcases op with bop | _ | _ | _ | _ | _ | ⟨child, ces, sr⟩
  · have hr := (step_refines maxSize (s := s.ms) (m := m) ⟨hwf, hm⟩ bop).1
    refine ⟨hr.1, ?_, ?_, hr.2⟩
    · cases bop with
      | ins p b =>
        have := (Verif.Mpt.repr_step Verif.Props.C02.mapLaws maxSize v0 s.ms.t m (.ins p b) ⟨hwf, hao, hm⟩).2.1
        simpa [tstep, mstep, Verif.Mpt.step, hv] using this
      | del p =>
        have := (Verif.Mpt.repr_step Verif.Props.C02.mapLaws maxSize v0 s.ms.t m (.del p) ⟨hwf, hao, hm⟩).2.1
        simpa [tstep, mstep, Verif.Mpt.step, hv] using this
      | get p => simpa [tstep, mstep] using hao
      | iter => simpa [tstep, mstep] using hao
      | ver v => exact absurd hn (by simp [NoVer])
    · cases bop <;> simp_all [tstep, mstep, NoVer]
  · exact ⟨hwf, hao, hv, hm⟩
  · exact ⟨hwf, hao, hv, hm⟩
  · exact ⟨hwf, hao, hv, hm⟩
  · exact ⟨hwf, hao, hv, hm⟩
  · exact ⟨hwf, hao, hv, hm⟩
  · simp only [tstep, tsstep]
    cases hap : mergeApplies H s.ms.t child sr
    · exact ⟨hwf, hao, hv, hm⟩
    · exact ⟨hmw.1, hmw.2, hv, fun _ => rfl⟩

theorem tstep_cc (H : Bytes → Bytes) (maxSize : Nat) (s : XState) (es : List Event) (h : s.cc = collect H es) (op : TOp) :
    (tstep H maxSize s op).1.cc = collect H (es ++ tevents H maxSize s op) := by
  rcases op with bop | _ | _ | _ | _ | _ | ⟨child, ces, sr⟩ <;> simp only [tstep, tevents, List.append_nil, h]
  · exact collect_append H es _
  · cases hap : mergeApplies H s.ms.t child sr <;> simp [h, collect_append]

/-- the sequential run of the extended operations agrees with the specification and keeps the invariant -/
theorem trun_rel (H : Bytes → Bytes) (maxSize v0 : Nat) : ∀ (ops : List TOp) {s : XState} {m : Spec} {es : List Event},
    TInv v0 s.ms m → s.cc = collect H es → (∀ op, op ∈ ops → NoVer op ∧ MergeWF v0 op) →
    TRel H v0 maxSize m s es ops (trun H maxSize s ops).2 ∧
    TInv v0 (trun H maxSize s ops).1.ms (tspec H maxSize m s ops) ∧
    (trun H maxSize s ops).1.cc = collect H (es ++ tevs H maxSize s ops) := by
  intro ops
  induction ops with
  | nil => intro s m es h hc _; exact ⟨trivial, h, by simpa [trun, tevs] using hc⟩
  | cons op ops ih =>
    intro s m es h hc hnv
    have hop := hnv op (by simp)
    have hstep := tstep_inv H maxSize v0 h op hop.1 hop.2
    have hcc := tstep_cc H maxSize s es hc op
    have := ih hstep hcc (fun o ho => hnv o (by simp [ho]))
    simp only [trun, tspec, tevs, TRel]
    refine ⟨⟨?_, this.1⟩, this.2.1, by rw [this.2.2, List.append_assoc]⟩
    rcases op with bop | _ | _ | _ | _ | _ | ⟨child, ces, sr⟩
    · exact (step_refines maxSize (s := s.ms) (m := m) ⟨h.1, h.2.2.2⟩ bop).2.1
    · intro t' hw' ho' hl'
      exact Verif.Props.C02.C02_root_of_content H v0 s.ms.t t' h.1 hw' h.2.1 ho' (fun q => by rw [h.2.2.2 q, hl' q])
    · trivial
    · simp [ObsOk, tstep, hc]
    · simp [ObsOk, tstep, hc]
    · simp [ObsOk, tstep, hc]
    · simp only [ObsOk, tstep]
      cases hap : mergeApplies H s.ms.t child sr
      · simp
      · simp [mergeApplies] at hap
        simp [mergeOk, hap.2]

theorem tinv_init (v0 : Nat) : TInv v0 (xinit v0).ms emptySpec :=
  ⟨Or.inl rfl, by simp [xinit, Verif.Props.C01.init, AllOrigin], rfl, fun q => by simp [xinit, Verif.Props.C01.init, emptySpec]⟩

/-- the events of a C01 update are those of the very `insertE`/`deleteE` call that computes the model's new tree -/
theorem opEvents_tree (maxSize : Nat) (s : MState) (p : List Nib) (b : Bytes) (hb : b ≠ []) (hs : ¬ b.length > maxSize) :
    (mstep maxSize s (.ins p b)).1.t = (insertE s.v b s.t [] p).1 ∧
    opEvents maxSize s (.ins p b) = (insertE s.v b s.t [] p).2 := by
  simp [mstep, Verif.Mpt.Trie.insert, opEvents, hb, hs, Verif.MptStore.insertE_fst]

/-- the programs a thread can be left with while it runs `opProg op` -/
inductive Suffix (L : Loc) (H : Bytes → Bytes) (maxSize : Nat) (op : TOp) : Prog XState TObs → Prop
  | whole : Suffix L H maxSize op (.acq (modeOfOp op) (body L H maxSize op))
  | bodyU : isUpdate op = true →
      Suffix L H maxSize op (.rd L 0 (fun s => .wr L 0 (tstep H maxSize s op).1 (.rel (.ret (tstep H maxSize s op).2))))
  | bodyR : isUpdate op = false → Suffix L H maxSize op (.rd L 0 (fun s => .rel (.ret (tstep H maxSize s op).2)))
  | wr (s : XState) : Suffix L H maxSize op (.wr L 0 (tstep H maxSize s op).1 (.rel (.ret (tstep H maxSize s op).2)))
  | rel (s : XState) : Suffix L H maxSize op (.rel (.ret (tstep H maxSize s op).2))
  | ret (r : TObs) : Suffix L H maxSize op (.ret r)

theorem Suffix.ofBody (L : Loc) (H : Bytes → Bytes) (maxSize : Nat) (op : TOp) : Suffix L H maxSize op (body L H maxSize op) := by
  unfold body
  cases h : isUpdate op
  · simp; exact .bodyR h
  · simp; exact .bodyU h

/-- every program around belongs to an operation satisfying `P` -/
structure OpsInv (L : Loc) (H : Bytes → Bytes) (maxSize : Nat) (P : TOp → Prop) (c : Config XState TObs) : Prop where
  todo : ∀ t p, p ∈ (c.thr t).todo → ∃ op, P op ∧ p = opProg L H maxSize op
  cur : ∀ t p, (c.thr t).cur = some p → ∃ op, P op ∧ Suffix L H maxSize op p
  lin : ∀ e, e ∈ c.lin → ∃ op, P op ∧ e.prog = body L H maxSize op

theorem OpsInv.init {L : Loc} {H : Bytes → Bytes} {maxSize : Nat} {P : TOp → Prop} (ops : Tid → List TOp) (mem0 : Loc → XState)
    (h : ∀ t op, op ∈ ops t → P op) :
    OpsInv L H maxSize P (Verif.RW.init (fun t => (ops t).map (opProg L H maxSize)) mem0) where
  todo := by
    intro t p hp
    simp [Verif.RW.init] at hp
    obtain ⟨op, hop, rfl⟩ := hp
    exact ⟨op, h t op hop, rfl⟩
  cur := by intro t p hp; simp [Verif.RW.init] at hp
  lin := by intro e he; simp [Verif.RW.init] at he

theorem OpsInv.step {L : Loc} {H : Bytes → Bytes} {maxSize : Nat} {P : TOp → Prop} {c c' : Config XState TObs} {t : Tid}
    (h : OpsInv L H maxSize P c) (st : Step c t c') : OpsInv L H maxSize P c' := by
  -- generic part: a step that replaces thread `t` by `x`, keeping its todo list (or a tail of it)
  have frame : ∀ (x : Thread XState TObs) (c'' : Config XState TObs),
      (∀ u, c''.thr u = (c.set t x).thr u) → c''.lin = c.lin →
      (∀ p, p ∈ x.todo → p ∈ (c.thr t).todo) →
      (∀ p, x.cur = some p → ∃ op, P op ∧ Suffix L H maxSize op p) →
      OpsInv L H maxSize P c'' := by
    intro x c'' hthr hlin htodo hcur
    refine ⟨?_, ?_, fun e he => h.lin e (hlin ▸ he)⟩
    · intro u q hq
      rw [hthr] at hq
      by_cases hu : u = t
      · subst hu; simp [thr_set] at hq; exact h.todo u q (htodo q hq)
      · simp [thr_set, hu] at hq; exact h.todo u q hq
    · intro u q hq
      rw [hthr] at hq
      by_cases hu : u = t
      · subst hu; simp [thr_set] at hq; exact hcur q hq
      · simp [thr_set, hu] at hq; exact h.cur u q hq
  cases st with
  | @call p rest hc ht =>
    refine frame { c.thr t with todo := rest, cur := some p } _ (fun _ => rfl) rfl ?_ ?_
    · intro q hq; simp [ht]; exact .inr hq
    · intro q hq
      simp at hq; subst hq
      obtain ⟨op, hP, e⟩ := h.todo t p (by simp [ht])
      exact ⟨op, hP, e ▸ .whole⟩
  | @acq m k hc hmn ha =>
    obtain ⟨op, hP, hs⟩ := h.cur t _ hc
    have hk : k = body L H maxSize op := by
      cases hs; rfl
    have base := frame { c.thr t with cur := some k, main := some m, pred := some (k.run c.mem).2 }
      (c.set t { c.thr t with cur := some k, main := some m, pred := some (k.run c.mem).2 }) (fun _ => rfl) rfl
      (fun q hq => hq) (fun q hq => by simp at hq; subst hq; exact ⟨op, hP, hk ▸ Suffix.ofBody L H maxSize op⟩)
    refine ⟨fun u q hq => base.todo u q hq, fun u q hq => base.cur u q hq, ?_⟩
    intro e he
    simp only [List.mem_append, List.mem_singleton] at he
    rcases he with he | rfl
    · exact h.lin e he
    · exact ⟨op, hP, hk⟩
  | @rel k hc =>
    obtain ⟨op, hP, hs⟩ := h.cur t _ hc
    refine frame { c.thr t with cur := some k, main := none } _ (fun _ => rfl) rfl (fun q hq => hq) ?_
    intro q hq
    simp at hq; subst hq
    cases hs
    exact ⟨op, hP, .ret _⟩
  | @subAcq p s hc _ hs0 hsub hfree =>
    refine frame { c.thr t with sub := s } _ (fun _ => rfl) rfl (fun q hq => hq) ?_
    intro q hq
    simp at hq
    exact h.cur t q hq
  | @rd l s k hc hsub =>
    obtain ⟨op, hP, hs⟩ := h.cur t _ hc
    refine frame { c.thr t with cur := some (k (c.mem l)), sub := 0 } _ (fun _ => rfl) rfl (fun q hq => hq) ?_
    intro q hq
    simp at hq; subst hq
    cases hs with
    | bodyU _ => exact ⟨op, hP, .wr _⟩
    | bodyR _ => exact ⟨op, hP, .rel _⟩
  | @wr l s v k hc hsub =>
    obtain ⟨op, hP, hs⟩ := h.cur t _ hc
    refine frame { c.thr t with cur := some k, sub := 0 } _ (fun _ => rfl) rfl (fun q hq => hq) ?_
    intro q hq
    simp at hq; subst hq
    cases hs
    exact ⟨op, hP, .rel _⟩
  | @ret r hc =>
    refine frame { c.thr t with cur := none, done := (c.thr t).done ++ [r], pred := none } _ (fun _ => rfl) rfl
      (fun q hq => hq) ?_
    intro q hq
    simp at hq

theorem OpsInv.exec {L : Loc} {H : Bytes → Bytes} {maxSize : Nat} {P : TOp → Prop} {c c' : Config XState TObs} {s : List Tid}
    (h : OpsInv L H maxSize P c) (ex : Exec c s c') : OpsInv L H maxSize P c' := by
  induction ex with
  | nil => exact h
  | cons st _ ih => exact ih (h.step st)

/-- the log is the list of bodies of some list of operations, each satisfying `P` -/
theorem OpsInv.log_ops {L : Loc} {H : Bytes → Bytes} {maxSize : Nat} {P : TOp → Prop} : ∀ (es : List (LinEntry XState TObs)),
    (∀ e, e ∈ es → ∃ op, P op ∧ e.prog = body L H maxSize op) →
    ∃ ops : List TOp, (∀ op, op ∈ ops → P op) ∧ es.map (·.prog) = ops.map (body L H maxSize) := by
  intro es
  induction es with
  | nil => intro _; exact ⟨[], by simp, rfl⟩
  | cons e es ih =>
    intro h
    obtain ⟨op, hP, he⟩ := h e (by simp)
    obtain ⟨ops, hops, hes⟩ := ih (fun e' he' => h e' (by simp [he']))
    refine ⟨op :: ops, ?_, by simp [he, hes]⟩
    intro o ho
    simp at ho
    rcases ho with rfl | ho
    · exact hP
    · exact hops o ho

/-- projection of the counts and merge outcomes of a result list (for the example below) -/
def countsOf : List TObs → List Nat
  | [] => []
  | .count n :: os => n :: countsOf os
  | .merged ok :: os => (if ok then 100 else 200) :: countsOf os
  | _ :: os => countsOf os

/-- non-vacuity of the change-set semantics: an insert leaves one pending change, deleting the same key cancels it,
an applied merge (start root = the empty root) replays one change -/
example : countsOf (trun id 100 (xinit 1) [.base (.ins [3, 4] [65]), .count, .base (.del [3, 4]), .count,
    .merge (.leaf 1 [5] [66]) [.put none ⟨[], .leaf 1 [5] [66]⟩] [], .count]).2 = [1, 0, 100, 1] := by decide +kernel

end Verif.C16Map
