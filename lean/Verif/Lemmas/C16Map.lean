/-
Instantiation of the RW-lock discipline model with the C01 trie model: the whole trie (everything reachable from
the root-key field, whose location `L` is resolved from the regenerated table) is ONE location holding the C01 model state; an update
(`ins`/`del`) is a W-mode operation that reads it, applies the C01 model step and writes it back; a lookup or an
iteration is an R-mode operation that reads it. Helper lemmas for `Verif.Props.C16Map`.
-/
import Verif.Props.C01
import Verif.Lemmas.RWDiscipline

set_option linter.unusedSimpArgs false
set_option linter.unusedVariables false
namespace Verif.C16Map
open Verif.RW Verif.Mpt Verif.Props.C01

def isUpdate : Op → Bool
  | .ins _ _ => true
  | .del _ => true
  | _ => false

/-- `SetVersion` is outside the claimed scope of C16 -/
def NoVer : Op → Prop
  | .ver _ => False
  | _ => True

/-- critical section of a trie operation over location `L` -/
def body (L : Loc) (maxSize : Nat) (op : Op) : Prog MState Obs :=
  if isUpdate op then
    .rd L 0 (fun s => .wr L 0 (mstep maxSize s op).1 (.rel (.ret (mstep maxSize s op).2)))
  else
    .rd L 0 (fun s => .rel (.ret (mstep maxSize s op).2))

def modeOfOp (op : Op) : Mode := if isUpdate op then .W else .R

/-- the operation as the threads run it: take the trie's lock in the mode the real method takes, run, release -/
def opProg (L : Loc) (maxSize : Nat) (op : Op) : Prog MState Obs := .acq (modeOfOp op) (body L maxSize op)

theorem body_run (L : Loc) (maxSize : Nat) (op : Op) (h : NoVer op) (mem : Loc → MState) :
    ((body L maxSize op).run mem).2 = (mstep maxSize (mem L) op).2 ∧
    ((body L maxSize op).run mem).1 L = (mstep maxSize (mem L) op).1 := by
  cases op <;> simp [body, isUpdate, Prog.run, mstep, NoVer] at h ⊢

theorem bodyOK (L : Loc) (maxSize : Nat) (op : Op) : BodyOK (body L maxSize op) := by
  cases op <;> simp [body, isUpdate, BodyOK]

/-- sequential run of logged bodies = the C01 model run of the corresponding operations -/
theorem seqRun_mrun (L : Loc) (maxSize : Nat) : ∀ (es : List (LinEntry MState Obs)) (ops : List Op) (mem : Loc → MState),
    es.map (·.prog) = ops.map (body L maxSize) → (∀ op, op ∈ ops → NoVer op) →
    (seqRun es mem).2 = (mrun maxSize (mem L) ops).2 ∧ (seqRun es mem).1 L = (mrun maxSize (mem L) ops).1 := by
  intro es
  induction es with
  | nil =>
    intro ops mem h _
    cases ops with
    | nil => simp [seqRun, mrun]
    | cons o os => simp at h
  | cons e es ih =>
    intro ops mem h hnv
    cases ops with
    | nil => simp at h
    | cons o os =>
      simp only [List.map_cons, List.cons.injEq] at h
      obtain ⟨he, hes⟩ := h
      have hb := body_run L maxSize o (hnv o (by simp)) mem
      have := ih os (e.prog.run mem).1 hes (fun op hop => hnv op (by simp [hop]))
      simp only [seqRun, mrun]
      rw [he, hb.2] at this
      rw [he]
      exact ⟨by rw [hb.1, this.1], this.2⟩

/-- the programs a thread can be left with while it runs `opProg op` -/
inductive Suffix (L : Loc) (maxSize : Nat) (op : Op) : Prog MState Obs → Prop
  | whole : Suffix L maxSize op (.acq (modeOfOp op) (body L maxSize op))
  | bodyU : isUpdate op = true →
      Suffix L maxSize op (.rd L 0 (fun s => .wr L 0 (mstep maxSize s op).1 (.rel (.ret (mstep maxSize s op).2))))
  | bodyR : isUpdate op = false → Suffix L maxSize op (.rd L 0 (fun s => .rel (.ret (mstep maxSize s op).2)))
  | wr (s : MState) : Suffix L maxSize op (.wr L 0 (mstep maxSize s op).1 (.rel (.ret (mstep maxSize s op).2)))
  | rel (s : MState) : Suffix L maxSize op (.rel (.ret (mstep maxSize s op).2))
  | ret (r : Obs) : Suffix L maxSize op (.ret r)

theorem Suffix.ofBody (L : Loc) (maxSize : Nat) (op : Op) : Suffix L maxSize op (body L maxSize op) := by
  unfold body
  cases h : isUpdate op
  · simp; exact .bodyR h
  · simp; exact .bodyU h

/-- every program around belongs to an operation satisfying `P` -/
structure OpsInv (L : Loc) (maxSize : Nat) (P : Op → Prop) (c : Config MState Obs) : Prop where
  todo : ∀ t p, p ∈ (c.thr t).todo → ∃ op, P op ∧ p = opProg L maxSize op
  cur : ∀ t p, (c.thr t).cur = some p → ∃ op, P op ∧ Suffix L maxSize op p
  lin : ∀ e, e ∈ c.lin → ∃ op, P op ∧ e.prog = body L maxSize op

theorem OpsInv.init {L : Loc} {maxSize : Nat} {P : Op → Prop} (ops : Tid → List Op) (mem0 : Loc → MState)
    (h : ∀ t op, op ∈ ops t → P op) :
    OpsInv L maxSize P (Verif.RW.init (fun t => (ops t).map (opProg L maxSize)) mem0) where
  todo := by
    intro t p hp
    simp [Verif.RW.init] at hp
    obtain ⟨op, hop, rfl⟩ := hp
    exact ⟨op, h t op hop, rfl⟩
  cur := by intro t p hp; simp [Verif.RW.init] at hp
  lin := by intro e he; simp [Verif.RW.init] at he

theorem OpsInv.step {L : Loc} {maxSize : Nat} {P : Op → Prop} {c c' : Config MState Obs} {t : Tid}
    (h : OpsInv L maxSize P c) (st : Step c t c') : OpsInv L maxSize P c' := by
  -- generic part: a step that replaces thread `t` by `x`, keeping its todo list (or a tail of it)
  have frame : ∀ (x : Thread MState Obs) (c'' : Config MState Obs),
      (∀ u, c''.thr u = (c.set t x).thr u) → c''.lin = c.lin →
      (∀ p, p ∈ x.todo → p ∈ (c.thr t).todo) →
      (∀ p, x.cur = some p → ∃ op, P op ∧ Suffix L maxSize op p) →
      OpsInv L maxSize P c'' := by
    intro x c'' hthr hlin htodo hcur
    refine ⟨?_, ?_, fun e he => h.lin e (hlin ▸ he)⟩
    · intro u q hq
      rw [hthr] at hq
      by_cases hu : u = t
      · subst hu; simp [thr_set] at hq; exact h.todo u q (htodo q hq)
      · simp [thr_set, hu] at hq; exact h.todo u q hq
    · intro u q hq
      rw [hthr] at hq
      by_cases hu : u = t
      · subst hu; simp [thr_set] at hq; exact hcur q hq
      · simp [thr_set, hu] at hq; exact h.cur u q hq
  cases st with
  | @call p rest hc ht =>
    refine frame { c.thr t with todo := rest, cur := some p } _ (fun _ => rfl) rfl ?_ ?_
    · intro q hq; simp [ht]; exact .inr hq
    · intro q hq
      simp at hq; subst hq
      obtain ⟨op, hP, e⟩ := h.todo t p (by simp [ht])
      exact ⟨op, hP, e ▸ .whole⟩
  | @acq m k hc hmn ha =>
    obtain ⟨op, hP, hs⟩ := h.cur t _ hc
    have hk : k = body L maxSize op := by
      cases hs; rfl
    have base := frame { c.thr t with cur := some k, main := some m, pred := some (k.run c.mem).2 }
      (c.set t { c.thr t with cur := some k, main := some m, pred := some (k.run c.mem).2 }) (fun _ => rfl) rfl
      (fun q hq => hq) (fun q hq => by simp at hq; subst hq; exact ⟨op, hP, hk ▸ Suffix.ofBody L maxSize op⟩)
    refine ⟨fun u q hq => base.todo u q hq, fun u q hq => base.cur u q hq, ?_⟩
    intro e he
    simp only [List.mem_append, List.mem_singleton] at he
    rcases he with he | rfl
    · exact h.lin e he
    · exact ⟨op, hP, hk⟩
  | @rel k hc =>
    obtain ⟨op, hP, hs⟩ := h.cur t _ hc
    refine frame { c.thr t with cur := some k, main := none } _ (fun _ => rfl) rfl (fun q hq => hq) ?_
    intro q hq
    simp at hq; subst hq
    cases hs
    exact ⟨op, hP, .ret _⟩
  | @subAcq p s hc _ hs0 hsub hfree =>
    refine frame { c.thr t with sub := s } _ (fun _ => rfl) rfl (fun q hq => hq) ?_
    intro q hq
    simp at hq
    exact h.cur t q hq
  | @rd l s k hc hsub =>
    obtain ⟨op, hP, hs⟩ := h.cur t _ hc
    refine frame { c.thr t with cur := some (k (c.mem l)), sub := 0 } _ (fun _ => rfl) rfl (fun q hq => hq) ?_
    intro q hq
    simp at hq; subst hq
    cases hs with
    | bodyU _ => exact ⟨op, hP, .wr _⟩
    | bodyR _ => exact ⟨op, hP, .rel _⟩
  | @wr l s v k hc hsub =>
    obtain ⟨op, hP, hs⟩ := h.cur t _ hc
    refine frame { c.thr t with cur := some k, sub := 0 } _ (fun _ => rfl) rfl (fun q hq => hq) ?_
    intro q hq
    simp at hq; subst hq
    cases hs
    exact ⟨op, hP, .rel _⟩
  | @ret r hc =>
    refine frame { c.thr t with cur := none, done := (c.thr t).done ++ [r], pred := none } _ (fun _ => rfl) rfl
      (fun q hq => hq) ?_
    intro q hq
    simp at hq

theorem OpsInv.exec {L : Loc} {maxSize : Nat} {P : Op → Prop} {c c' : Config MState Obs} {s : List Tid}
    (h : OpsInv L maxSize P c) (ex : Exec c s c') : OpsInv L maxSize P c' := by
  induction ex with
  | nil => exact h
  | cons st _ ih => exact ih (h.step st)

/-- the log is the list of bodies of some list of operations, each satisfying `P` -/
theorem OpsInv.log_ops {L : Loc} {maxSize : Nat} {P : Op → Prop} : ∀ (es : List (LinEntry MState Obs)),
    (∀ e, e ∈ es → ∃ op, P op ∧ e.prog = body L maxSize op) →
    ∃ ops : List Op, (∀ op, op ∈ ops → P op) ∧ es.map (·.prog) = ops.map (body L maxSize) := by
  intro es
  induction es with
  | nil => intro _; exact ⟨[], by simp, rfl⟩
  | cons e es ih =>
    intro h
    obtain ⟨op, hP, he⟩ := h e (by simp)
    obtain ⟨ops, hops, hes⟩ := ih (fun e' he' => h e' (by simp [he']))
    refine ⟨op :: ops, ?_, by simp [he, hes]⟩
    intro o ho
    simp at ho
    rcases ho with rfl | ho
    · exact hP
    · exact hops o ho

end Verif.C16Map
