/-
Instantiation of the RW-lock discipline model with the C01 trie model: the whole trie (everything reachable from
the root-key field, whose location `L` is resolved from the regenerated table) is ONE location holding the C01 model state; an update
(`ins`/`del`) is a W-mode operation that reads it, applies the C01 model step and writes it back; a lookup or an
iteration is an R-mode operation that reads it. Helper lemmas for `Verif.Props.C16Map`.
-/
import Verif.Props.C01
import Verif.Props.C02
import Verif.Lemmas.RWDiscipline

set_option linter.unusedSimpArgs false
set_option linter.unusedVariables false
namespace Verif.C16Map
open Verif.RW Verif.Mpt Verif.Props.C01

/-- the operations of the trie model in the concurrent setting: the C01 operations, `GetRoot`, and `SaveChanges` -/
inductive TOp where
  | base (op : Verif.Props.C01.Op)
  | root
  | save

/-- what an operation returns -/
inductive TObs where
  | obs (o : Obs)
  | root (r : Bytes)
  | saved

/-- sequential semantics: the C01 model step; `GetRoot` returns the root key of the trie (C02's `root`, for the hash
function `H`); `SaveChanges` writes the pending change set to ANOTHER store and leaves the trie (the map) as it is -/
def tstep (H : Bytes → Bytes) (maxSize : Nat) (s : MState) : TOp → MState × TObs
  | .base op => ((mstep maxSize s op).1, .obs (mstep maxSize s op).2)
  | .root => (s, .root (root H s.t))
  | .save => (s, .saved)

def trun (H : Bytes → Bytes) (maxSize : Nat) (s : MState) : List TOp → MState × List TObs
  | [] => (s, [])
  | op :: ops =>
    let r := tstep H maxSize s op
    let r' := trun H maxSize r.1 ops
    (r'.1, r.2 :: r'.2)

def isUpdate : TOp → Bool
  | .base (.ins _ _) => true
  | .base (.del _) => true
  | _ => false

/-- `SetVersion` is outside the claimed scope of C16 -/
def NoVer : TOp → Prop
  | .base (.ver _) => False
  | _ => True

/-- critical section of a trie operation over location `L` -/
def body (L : Loc) (H : Bytes → Bytes) (maxSize : Nat) (op : TOp) : Prog MState TObs :=
  if isUpdate op then
    .rd L 0 (fun s => .wr L 0 (tstep H maxSize s op).1 (.rel (.ret (tstep H maxSize s op).2)))
  else
    .rd L 0 (fun s => .rel (.ret (tstep H maxSize s op).2))

def modeOfOp (op : TOp) : Mode := if isUpdate op then .W else .R

/-- the operation as the threads run it: take the trie's lock in the mode the real method takes, run, release -/
def opProg (L : Loc) (H : Bytes → Bytes) (maxSize : Nat) (op : TOp) : Prog MState TObs := .acq (modeOfOp op) (body L H maxSize op)

theorem body_run (L : Loc) (H : Bytes → Bytes) (maxSize : Nat) (op : TOp) (h : NoVer op) (mem : Loc → MState) :
    ((body L H maxSize op).run mem).2 = (tstep H maxSize (mem L) op).2 ∧
    ((body L H maxSize op).run mem).1 L = (tstep H maxSize (mem L) op).1 := by
  rcases op with (_ | _ | _ | _ | _) | _ | _ <;> simp [body, isUpdate, Prog.run, tstep, mstep, NoVer] at h ⊢

theorem bodyOK (L : Loc) (H : Bytes → Bytes) (maxSize : Nat) (op : TOp) : BodyOK (body L H maxSize op) := by
  rcases op with (_ | _ | _ | _ | _) | _ | _ <;> simp [body, isUpdate, BodyOK]

/-- sequential run of logged bodies = the C01 model run of the corresponding operations -/
theorem seqRun_mrun (L : Loc) (H : Bytes → Bytes) (maxSize : Nat) : ∀ (es : List (LinEntry MState TObs)) (ops : List TOp) (mem : Loc → MState),
    es.map (·.prog) = ops.map (body L H maxSize) → (∀ op, op ∈ ops → NoVer op) →
    (seqRun es mem).2 = (trun H maxSize (mem L) ops).2 ∧ (seqRun es mem).1 L = (trun H maxSize (mem L) ops).1 := by
  intro es
  induction es with
  | nil =>
    intro ops mem h _
    cases ops with
    | nil => simp [seqRun, trun]
    | cons o os => simp at h
  | cons e es ih =>
    intro ops mem h hnv
    cases ops with
    | nil => simp at h
    | cons o os =>
      simp only [List.map_cons, List.cons.injEq] at h
      obtain ⟨he, hes⟩ := h
      have hb := body_run L H maxSize o (hnv o (by simp)) mem
      have := ih os (e.prog.run mem).1 hes (fun op hop => hnv op (by simp [hop]))
      simp only [seqRun, trun]
      rw [he, hb.2] at this
      rw [he]
      exact ⟨by rw [hb.1, this.1], this.2⟩

/-! ### the sequential specification of the extended operations -/

/-- the model state is the canonical trie (all nodes of origin `v0`, trie at version `v0`) of the map `m` -/
def TInv (v0 : Nat) (s : MState) (m : Spec) : Prop :=
  WF s.t ∧ AllOrigin v0 s.t ∧ s.v = v0 ∧ ∀ q, lookup s.t q = m q

/-- effect on the specification map: only the C01 updates change it; `GetRoot` and `SaveChanges` do not -/
def tsstep (maxSize : Nat) (m : Spec) : TOp → Spec
  | .base op => (sstep maxSize m op).1
  | _ => m

def tsfinal (maxSize : Nat) (m : Spec) (ops : List TOp) : Spec := ops.foldl (tsstep maxSize) m

/-- the observations agree with the specification run from map `m`: a C01 operation returns what the map
specification returns (`ObsRel`); `GetRoot` returns THE root key of the map at that point — the root (C02's `root H`) of
every canonical single-origin trie that reads as the map; `SaveChanges` returns and leaves the map unchanged -/
def TRel (H : Bytes → Bytes) (v0 maxSize : Nat) : Spec → List TOp → List TObs → Prop
  | _, [], [] => True
  | m, .base op :: ops, .obs o :: os =>
      ObsRel o (sstep maxSize m op).2 ∧ TRel H v0 maxSize (sstep maxSize m op).1 ops os
  | m, .root :: ops, .root r :: os =>
      (∀ t', WF t' → AllOrigin v0 t' → (∀ q, lookup t' q = m q) → r = root H t') ∧ TRel H v0 maxSize m ops os
  | m, .save :: ops, .saved :: os => TRel H v0 maxSize m ops os
  | _, _, _ => False

theorem tstep_inv (H : Bytes → Bytes) (maxSize v0 : Nat) {s : MState} {m : Spec} (h : TInv v0 s m) (op : TOp)
    (hn : NoVer op) : TInv v0 (tstep H maxSize s op).1 (tsstep maxSize m op) := by
  obtain ⟨hwf, hao, hv, hm⟩ := h
  rcases op with bop | _ | _
  · have hr := (step_refines maxSize (s := s) (m := m) ⟨hwf, hm⟩ bop).1
    refine ⟨hr.1, ?_, ?_, hr.2⟩
    · cases bop with
      | ins p b =>
        have := (Verif.Mpt.repr_step Verif.Props.C02.mapLaws maxSize v0 s.t m (.ins p b) ⟨hwf, hao, hm⟩).2.1
        simpa [tstep, mstep, Verif.Mpt.step, hv] using this
      | del p =>
        have := (Verif.Mpt.repr_step Verif.Props.C02.mapLaws maxSize v0 s.t m (.del p) ⟨hwf, hao, hm⟩).2.1
        simpa [tstep, mstep, Verif.Mpt.step, hv] using this
      | get p => simpa [tstep, mstep] using hao
      | iter => simpa [tstep, mstep] using hao
      | ver v => exact absurd hn (by simp [NoVer])
    · cases bop <;> simp_all [tstep, mstep, NoVer]
  · exact ⟨hwf, hao, hv, hm⟩
  · exact ⟨hwf, hao, hv, hm⟩

/-- the sequential run of the extended operations agrees with the specification and keeps the invariant -/
theorem trun_rel (H : Bytes → Bytes) (maxSize v0 : Nat) : ∀ (ops : List TOp) {s : MState} {m : Spec}, TInv v0 s m →
    (∀ op, op ∈ ops → NoVer op) →
    TRel H v0 maxSize m ops (trun H maxSize s ops).2 ∧ TInv v0 (trun H maxSize s ops).1 (tsfinal maxSize m ops) := by
  intro ops
  induction ops with
  | nil => intro s m h _; exact ⟨trivial, h⟩
  | cons op ops ih =>
    intro s m h hnv
    have hstep := tstep_inv H maxSize v0 h op (hnv op (by simp))
    have := ih hstep (fun o ho => hnv o (by simp [ho]))
    simp only [trun, tsfinal, List.foldl_cons]
    refine ⟨?_, this.2⟩
    rcases op with bop | _ | _
    · exact ⟨(step_refines maxSize (s := s) (m := m) ⟨h.1, h.2.2.2⟩ bop).2.1, this.1⟩
    · refine ⟨?_, this.1⟩
      intro t' hw' ho' hl'
      exact Verif.Props.C02.C02_root_of_content H v0 s.t t' h.1 hw' h.2.1 ho' (fun q => by rw [h.2.2.2 q, hl' q])
    · exact this.1

theorem tinv_init (v0 : Nat) : TInv v0 (Verif.Props.C01.init v0) emptySpec :=
  ⟨Or.inl rfl, by simp [Verif.Props.C01.init, AllOrigin], rfl, fun q => by simp [Verif.Props.C01.init, emptySpec]⟩

/-- the programs a thread can be left with while it runs `opProg op` -/
inductive Suffix (L : Loc) (H : Bytes → Bytes) (maxSize : Nat) (op : TOp) : Prog MState TObs → Prop
  | whole : Suffix L H maxSize op (.acq (modeOfOp op) (body L H maxSize op))
  | bodyU : isUpdate op = true →
      Suffix L H maxSize op (.rd L 0 (fun s => .wr L 0 (tstep H maxSize s op).1 (.rel (.ret (tstep H maxSize s op).2))))
  | bodyR : isUpdate op = false → Suffix L H maxSize op (.rd L 0 (fun s => .rel (.ret (tstep H maxSize s op).2)))
  | wr (s : MState) : Suffix L H maxSize op (.wr L 0 (tstep H maxSize s op).1 (.rel (.ret (tstep H maxSize s op).2)))
  | rel (s : MState) : Suffix L H maxSize op (.rel (.ret (tstep H maxSize s op).2))
  | ret (r : TObs) : Suffix L H maxSize op (.ret r)

theorem Suffix.ofBody (L : Loc) (H : Bytes → Bytes) (maxSize : Nat) (op : TOp) : Suffix L H maxSize op (body L H maxSize op) := by
  unfold body
  cases h : isUpdate op
  · simp; exact .bodyR h
  · simp; exact .bodyU h

/-- every program around belongs to an operation satisfying `P` -/
structure OpsInv (L : Loc) (H : Bytes → Bytes) (maxSize : Nat) (P : TOp → Prop) (c : Config MState TObs) : Prop where
  todo : ∀ t p, p ∈ (c.thr t).todo → ∃ op, P op ∧ p = opProg L H maxSize op
  cur : ∀ t p, (c.thr t).cur = some p → ∃ op, P op ∧ Suffix L H maxSize op p
  lin : ∀ e, e ∈ c.lin → ∃ op, P op ∧ e.prog = body L H maxSize op

theorem OpsInv.init {L : Loc} {H : Bytes → Bytes} {maxSize : Nat} {P : TOp → Prop} (ops : Tid → List TOp) (mem0 : Loc → MState)
    (h : ∀ t op, op ∈ ops t → P op) :
    OpsInv L H maxSize P (Verif.RW.init (fun t => (ops t).map (opProg L H maxSize)) mem0) where
  todo := by
    intro t p hp
    simp [Verif.RW.init] at hp
    obtain ⟨op, hop, rfl⟩ := hp
    exact ⟨op, h t op hop, rfl⟩
  cur := by intro t p hp; simp [Verif.RW.init] at hp
  lin := by intro e he; simp [Verif.RW.init] at he

theorem OpsInv.step {L : Loc} {H : Bytes → Bytes} {maxSize : Nat} {P : TOp → Prop} {c c' : Config MState TObs} {t : Tid}
    (h : OpsInv L H maxSize P c) (st : Step c t c') : OpsInv L H maxSize P c' := by
  -- generic part: a step that replaces thread `t` by `x`, keeping its todo list (or a tail of it)
  have frame : ∀ (x : Thread MState TObs) (c'' : Config MState TObs),
      (∀ u, c''.thr u = (c.set t x).thr u) → c''.lin = c.lin →
      (∀ p, p ∈ x.todo → p ∈ (c.thr t).todo) →
      (∀ p, x.cur = some p → ∃ op, P op ∧ Suffix L H maxSize op p) →
      OpsInv L H maxSize P c'' := by
    intro x c'' hthr hlin htodo hcur
    refine ⟨?_, ?_, fun e he => h.lin e (hlin ▸ he)⟩
    · intro u q hq
      rw [hthr] at hq
      by_cases hu : u = t
      · subst hu; simp [thr_set] at hq; exact h.todo u q (htodo q hq)
      · simp [thr_set, hu] at hq; exact h.todo u q hq
    · intro u q hq
      rw [hthr] at hq
      by_cases hu : u = t
      · subst hu; simp [thr_set] at hq; exact hcur q hq
      · simp [thr_set, hu] at hq; exact h.cur u q hq
  cases st with
  | @call p rest hc ht =>
    refine frame { c.thr t with todo := rest, cur := some p } _ (fun _ => rfl) rfl ?_ ?_
    · intro q hq; simp [ht]; exact .inr hq
    · intro q hq
      simp at hq; subst hq
      obtain ⟨op, hP, e⟩ := h.todo t p (by simp [ht])
      exact ⟨op, hP, e ▸ .whole⟩
  | @acq m k hc hmn ha =>
    obtain ⟨op, hP, hs⟩ := h.cur t _ hc
    have hk : k = body L H maxSize op := by
      cases hs; rfl
    have base := frame { c.thr t with cur := some k, main := some m, pred := some (k.run c.mem).2 }
      (c.set t { c.thr t with cur := some k, main := some m, pred := some (k.run c.mem).2 }) (fun _ => rfl) rfl
      (fun q hq => hq) (fun q hq => by simp at hq; subst hq; exact ⟨op, hP, hk ▸ Suffix.ofBody L H maxSize op⟩)
    refine ⟨fun u q hq => base.todo u q hq, fun u q hq => base.cur u q hq, ?_⟩
    intro e he
    simp only [List.mem_append, List.mem_singleton] at he
    rcases he with he | rfl
    · exact h.lin e he
    · exact ⟨op, hP, hk⟩
  | @rel k hc =>
    obtain ⟨op, hP, hs⟩ := h.cur t _ hc
    refine frame { c.thr t with cur := some k, main := none } _ (fun _ => rfl) rfl (fun q hq => hq) ?_
    intro q hq
    simp at hq; subst hq
    cases hs
    exact ⟨op, hP, .ret _⟩
  | @subAcq p s hc _ hs0 hsub hfree =>
    refine frame { c.thr t with sub := s } _ (fun _ => rfl) rfl (fun q hq => hq) ?_
    intro q hq
    simp at hq
    exact h.cur t q hq
  | @rd l s k hc hsub =>
    obtain ⟨op, hP, hs⟩ := h.cur t _ hc
    refine frame { c.thr t with cur := some (k (c.mem l)), sub := 0 } _ (fun _ => rfl) rfl (fun q hq => hq) ?_
    intro q hq
    simp at hq; subst hq
    cases hs with
    | bodyU _ => exact ⟨op, hP, .wr _⟩
    | bodyR _ => exact ⟨op, hP, .rel _⟩
  | @wr l s v k hc hsub =>
    obtain ⟨op, hP, hs⟩ := h.cur t _ hc
    refine frame { c.thr t with cur := some k, sub := 0 } _ (fun _ => rfl) rfl (fun q hq => hq) ?_
    intro q hq
    simp at hq; subst hq
    cases hs
    exact ⟨op, hP, .rel _⟩
  | @ret r hc =>
    refine frame { c.thr t with cur := none, done := (c.thr t).done ++ [r], pred := none } _ (fun _ => rfl) rfl
      (fun q hq => hq) ?_
    intro q hq
    simp at hq

theorem OpsInv.exec {L : Loc} {H : Bytes → Bytes} {maxSize : Nat} {P : TOp → Prop} {c c' : Config MState TObs} {s : List Tid}
    (h : OpsInv L H maxSize P c) (ex : Exec c s c') : OpsInv L H maxSize P c' := by
  induction ex with
  | nil => exact h
  | cons st _ ih => exact ih (h.step st)

/-- the log is the list of bodies of some list of operations, each satisfying `P` -/
theorem OpsInv.log_ops {L : Loc} {H : Bytes → Bytes} {maxSize : Nat} {P : TOp → Prop} : ∀ (es : List (LinEntry MState TObs)),
    (∀ e, e ∈ es → ∃ op, P op ∧ e.prog = body L H maxSize op) →
    ∃ ops : List TOp, (∀ op, op ∈ ops → P op) ∧ es.map (·.prog) = ops.map (body L H maxSize) := by
  intro es
  induction es with
  | nil => intro _; exact ⟨[], by simp, rfl⟩
  | cons e es ih =>
    intro h
    obtain ⟨op, hP, he⟩ := h e (by simp)
    obtain ⟨ops, hops, hes⟩ := ih (fun e' he' => h e' (by simp [he']))
    refine ⟨op :: ops, ?_, by simp [he, hes]⟩
    intro o ho
    simp at ho
    rcases ho with rfl | ho
    · exact hP
    · exact hops o ho

end Verif.C16Map
