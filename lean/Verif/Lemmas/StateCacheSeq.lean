import Verif.Lemmas.StateCacheCommit
/-! Sequential runs: `SC.get`, `SC.commit`, the block/transaction layers and whole histories. -/
set_option linter.unusedSectionVars false
namespace Verif.SC

variable {H K B V : Type} [DecidableEq H] [DecidableEq K] [DecidableEq B]

/-! ### evictions only grow -/
theorem Reader.stepSC_ev_le (sc : SC K B V) (r : Reader K B V) : sc.evictions ≤ (r.stepSC sc).evictions := by
  unfold Reader.stepSC
  split
  · exact Nat.le_refl _
  · exact Nat.le_refl _
  · split <;> exact Nat.le_refl _
  · split
    · exact Nat.le_refl _
    · exact Nat.le_add_right _ _
  · exact Nat.le_refl _

theorem Reader.run_ev_le (n : Nat) (sc : SC K B V) (r : Reader K B V) : sc.evictions ≤ (Reader.run n sc r).1.evictions := by
  induction n generalizing sc r with
  | zero => exact Nat.le_refl _
  | succ n ih =>
    unfold Reader.run
    split
    · exact Nat.le_refl _
    · exact Nat.le_trans (Reader.stepSC_ev_le sc r) (ih _ _)

theorem Committer.stepSC_ev_le (sc : SC K B V) (c : Committer K B V) : sc.evictions ≤ (c.stepSC sc).evictions := by
  unfold Committer.stepSC
  split
  · exact Nat.le_refl _
  · exact Nat.le_add_right _ _
  · split
    · exact Nat.le_add_right _ _
    · exact Nat.le_refl _
  · exact Nat.le_refl _
  · exact Nat.le_add_right _ _
  · exact Nat.le_refl _

theorem Committer.run_ev_le (n : Nat) (sc : SC K B V) (c : Committer K B V) :
    sc.evictions ≤ (Committer.run n sc c).1.evictions := by
  induction n generalizing sc c with
  | zero => exact Nat.le_refl _
  | succ n ih =>
    unfold Committer.run
    split
    · exact Nat.le_refl _
    · exact Nat.le_trans (Committer.stepSC_ev_le sc c) (ih _ _)

/-! ### a lookup run to completion -/
theorem Reader.run_inv {T : Tree K B V} {hole : Option B} (n : Nat) (sc : SC K B V) (r : Reader K B V)
    (hI : Inv sc T hole) (hR : RInv sc T r) (hev : (Reader.run n sc r).1.evictions = sc.evictions) :
    Inv (Reader.run n sc r).1 T hole ∧ RInv (Reader.run n sc r).1 T (Reader.run n sc r).2 ∧
      (Reader.run n sc r).2.key = r.key ∧ (Reader.run n sc r).2.blk = r.blk := by
  induction n generalizing sc r with
  | zero => exact ⟨hI, hR, rfl, rfl⟩
  | succ n ih =>
    unfold Reader.run at hev ⊢
    split
    · exact ⟨hI, hR, rfl, rfl⟩
    · rename_i hnd
      simp only [Reader.step] at hev ⊢
      have h1 : (r.stepSC sc).evictions = sc.evictions :=
        Nat.le_antisymm (by rw [← hev]; exact Reader.run_ev_le _ _ _) (Reader.stepSC_ev_le sc r)
      obtain ⟨hI', hR'⟩ := Reader.step_inv hI hR h1
      have := ih (r.stepSC sc) { r with pc := r.stepPc sc } hI' hR' (by rw [hev, h1])
      exact this

theorem SC.get_correct {T : Tree K B V} {hole : Option B} (sc : SC K B V) (k : K) (b : B)
    (hI : Inv sc T hole) (hev : (sc.get k b).1.evictions = sc.evictions) :
    Inv (sc.get k b).1 T hole ∧ ∀ v, (sc.get k b).2 = some v → Chain T k b (.val v) := by
  unfold SC.get at hev ⊢
  simp only at hev ⊢
  obtain ⟨hI', hR', hk, hb⟩ := Reader.run_inv (2 * sc.maxDepth + 4) sc (Reader.init k b) hI
    (by unfold RInv Reader.init; trivial) hev
  refine ⟨hI', fun v hv => ?_⟩
  unfold Reader.result at hv
  unfold RInv at hR'
  cases hpc : (Reader.run (2 * sc.maxDepth + 4) sc (Reader.init k b)).2.pc with
  | done res =>
    rw [hpc] at hv hR'
    simp only at hv hR'
    have := hR' v hv
    rw [hk, hb] at this
    exact this
  | cache => rw [hpc] at hv; cases hv
  | link _ _ => rw [hpc] at hv; cases hv
  | entry _ _ _ => rw [hpc] at hv; cases hv
  | memo _ => rw [hpc] at hv; cases hv

/-! ### a commit run to completion -/
def CPc.measure (nw : Nat) : CPc K B V → Nat
  | .start => 3 * nw + 6
  | .linkcheck => 3 * nw + 5
  | .keyGet t => 3 * t.length + 4
  | .keyAdd _ t => 3 * t.length + 3
  | .keyPut _ t => 3 * t.length + 2
  | .publish => 1
  | .done _ => 0

theorem CPc.next_measure (nw : Nat) (t : List (K × Entry V)) : (CPc.next t : CPc K B V).measure nw ≤ 3 * t.length + 4 := by
  unfold CPc.next
  cases t <;> simp [CPc.measure]

theorem Committer.stepPc_measure (sc : SC K B V) (c : Committer K B V) (hnd : ∀ b, c.pc ≠ .done b) :
    (c.stepPc sc).measure c.writes.length < c.pc.measure c.writes.length := by
  cases hpc : c.pc with
  | start => unfold Committer.stepPc; rw [hpc]; simp [CPc.measure]
  | linkcheck =>
    unfold Committer.stepPc; rw [hpc]; simp only
    cases (sc.links.get c.hash).2 with
    | some _ => simp [CPc.measure]
    | none =>
      exact Nat.lt_of_le_of_lt (CPc.next_measure (B := B) c.writes.length c.writes) (by simp [CPc.measure])
  | keyGet t =>
    unfold Committer.stepPc; rw [hpc]
    cases t with
    | nil => simp [CPc.measure]
    | cons a t => obtain ⟨k, e⟩ := a; simp [CPc.measure]
  | keyAdd fresh t =>
    unfold Committer.stepPc; rw [hpc]
    cases t with
    | nil => simp [CPc.measure]
    | cons a t => obtain ⟨k, e⟩ := a; cases fresh <;> simp [CPc.measure]
  | keyPut fr t =>
    unfold Committer.stepPc; rw [hpc]
    cases t with
    | nil => simp [CPc.measure]
    | cons a t =>
      exact Nat.lt_of_le_of_lt (CPc.next_measure (B := B) c.writes.length t) (by simp [CPc.measure]; omega)
  | publish => unfold Committer.stepPc; rw [hpc]; simp [CPc.measure]
  | done b => exact absurd hpc (hnd b)

theorem Committer.run_of_done (n : Nat) (sc : SC K B V) (c : Committer K B V) {b : Bool} (h : c.pc = .done b) :
    Committer.run n sc c = (sc, c) := by
  cases n with
  | zero => rfl
  | succ n => unfold Committer.run; rw [h]

theorem Committer.run_succ (n : Nat) (sc : SC K B V) (c : Committer K B V) (h : ∀ b, c.pc ≠ .done b) :
    Committer.run (n + 1) sc c = Committer.run n (c.stepSC sc) { c with pc := c.stepPc sc } := by
  conv => lhs; unfold Committer.run
  split
  · rename_i b hb; exact absurd hb (h b)
  · rfl

theorem Committer.run_done (n : Nat) (sc : SC K B V) (c : Committer K B V)
    (h : c.pc.measure c.writes.length ≤ n) : ∃ b, (Committer.run n sc c).2.pc = .done b := by
  induction n generalizing sc c with
  | zero =>
    cases hpc : c.pc <;> rw [hpc] at h <;> simp [CPc.measure] at h
    exact ⟨_, by unfold Committer.run; exact hpc⟩
  | succ n ih =>
    by_cases hd : ∃ b, c.pc = .done b
    · obtain ⟨b, hb⟩ := hd
      rw [Committer.run_of_done _ _ _ hb]; exact ⟨b, hb⟩
    · have hnd : ∀ b, c.pc ≠ .done b := fun b hb => hd ⟨b, hb⟩
      rw [Committer.run_succ _ _ _ hnd]
      apply ih
      have := Committer.stepPc_measure sc c hnd
      simp only at this ⊢
      omega

/-- the specification tree after `n` committer steps -/
def Committer.runTree : Nat → Tree K B V → SC K B V → Committer K B V → Tree K B V
  | 0, T, _, _ => T
  | n + 1, T, sc, c =>
    match c.pc with
    | .done _ => T
    | _ => Committer.runTree n (c.treeAfter T sc) (c.stepSC sc) { c with pc := c.stepPc sc }

theorem Committer.runTree_of_done (n : Nat) (T : Tree K B V) (sc : SC K B V) (c : Committer K B V) {b : Bool}
    (h : c.pc = .done b) : Committer.runTree n T sc c = T := by
  cases n with
  | zero => rfl
  | succ n => unfold Committer.runTree; rw [h]

theorem Committer.runTree_succ (n : Nat) (T : Tree K B V) (sc : SC K B V) (c : Committer K B V)
    (h : ∀ b, c.pc ≠ .done b) :
    Committer.runTree (n + 1) T sc c
      = Committer.runTree n (c.treeAfter T sc) (c.stepSC sc) { c with pc := c.stepPc sc } := by
  conv => lhs; unfold Committer.runTree
  split
  · rename_i b hb; exact absurd hb (h b)
  · rfl

theorem Committer.run_inv (n : Nat) (T : Tree K B V) (sc : SC K B V) (c : Committer K B V)
    (hI : Inv sc T (CPc.hole c.hash c.pc)) (hM : MInv sc T c)
    (hev : (Committer.run n sc c).1.evictions = sc.evictions) :
    Inv (Committer.run n sc c).1 (Committer.runTree n T sc c) (CPc.hole c.hash (Committer.run n sc c).2.pc) ∧
      T.le (Committer.runTree n T sc c) ∧ (Committer.run n sc c).2.hash = c.hash := by
  induction n generalizing T sc c with
  | zero => exact ⟨hI, Tree.le_refl T, rfl⟩
  | succ n ih =>
    by_cases hd : ∃ b, c.pc = .done b
    · obtain ⟨b, hb⟩ := hd
      rw [Committer.run_of_done _ _ _ hb, Committer.runTree_of_done _ _ _ _ hb]
      exact ⟨hI, Tree.le_refl T, rfl⟩
    · have hnd : ∀ b, c.pc ≠ .done b := fun b hb => hd ⟨b, hb⟩
      rw [Committer.run_succ _ _ _ hnd] at hev ⊢
      rw [Committer.runTree_succ _ _ _ _ hnd]
      have h1 : (c.stepSC sc).evictions = sc.evictions :=
        Nat.le_antisymm (by rw [← hev]; exact Committer.run_ev_le _ _ _) (Committer.stepSC_ev_le sc c)
      obtain ⟨hI', hM', hle, _⟩ := Committer.step_inv hI hM h1
      have := ih (c.treeAfter T sc) (c.stepSC sc) { c with pc := c.stepPc sc } hI' hM' (by rw [hev, h1])
      exact ⟨this.1, Tree.le_trans hle this.2.1, this.2.2⟩

/-- program points after the link check -/
def CPc.past : CPc K B V → Bool
  | .start => false
  | .linkcheck => false
  | _ => true

theorem Committer.stepPc_past (sc : SC K B V) (c : Committer K B V) (h : c.pc.past = true) :
    (c.stepPc sc).past = true := by
  cases hpc : c.pc with
  | start => rw [hpc] at h; cases h
  | linkcheck => rw [hpc] at h; cases h
  | keyGet t =>
    unfold Committer.stepPc; rw [hpc]
    cases t with
    | nil => rfl
    | cons a t => rfl
  | keyAdd fresh t =>
    unfold Committer.stepPc; rw [hpc]
    cases t with
    | nil => rfl
    | cons a t => cases fresh <;> rfl
  | keyPut fr t =>
    unfold Committer.stepPc; rw [hpc]
    cases t with
    | nil => rfl
    | cons a t => simp only; unfold CPc.next; cases t <;> rfl
  | publish => unfold Committer.stepPc; rw [hpc]; rfl
  | done b => unfold Committer.stepPc; rw [hpc]; rfl

theorem Committer.runTree_past (n : Nat) (T : Tree K B V) (sc : SC K B V) (c : Committer K B V)
    (h : c.pc.past = true) : Committer.runTree n T sc c = T := by
  induction n generalizing sc c with
  | zero => rfl
  | succ n ih =>
    by_cases hd : ∃ b, c.pc = .done b
    · obtain ⟨b, hb⟩ := hd; exact Committer.runTree_of_done _ _ _ _ hb
    · have hnd : ∀ b, c.pc ≠ .done b := fun b hb => hd ⟨b, hb⟩
      rw [Committer.runTree_succ _ _ _ _ hnd]
      have ht : c.treeAfter T sc = T := by
        unfold Committer.treeAfter
        cases hpc : c.pc <;> simp only
        rw [hpc] at h; cases h
      rw [ht]
      exact ih _ _ (Committer.stepPc_past sc c h)

theorem Inv.link_iff_find {sc : SC K B V} {T : Tree K B V} (hI : Inv sc T none) (b : B) :
    linkAt sc b = none ↔ T.find b = none := by
  constructor
  · intro h
    cases hf : T.find b with
    | none => rfl
    | some x =>
      rcases hI.committed b x hf with h' | h'
      · exact absurd h h'
      · cases h'
  · intro h
    cases hl : linkAt sc b with
    | none => rfl
    | some p =>
      obtain ⟨x, hx, _⟩ := hI.linked b p hl
      rw [h] at hx; cases hx

theorem SC.commit_correct {T : Tree K B V} (sc : SC K B V) (hash prev : B) (writes : List (K × Entry V))
    (hI : Inv sc T none) (hnd : (writes.map Prod.fst).Nodup)
    (hev : (sc.commit hash prev writes).1.evictions = sc.evictions) :
    Inv (sc.commit hash prev writes).1 (T.commit ⟨hash, prev, writes⟩) none := by
  unfold SC.commit at hev ⊢
  simp only at hev ⊢
  let c0 : Committer K B V := ⟨hash, prev, writes, .linkcheck⟩
  have hrun := Committer.run_inv (3 * writes.length + 5) T sc c0 (by exact hI) (by unfold MInv; exact hnd) hev
  obtain ⟨b, hb⟩ := Committer.run_done (3 * writes.length + 5) sc c0 (by simp [c0, CPc.measure])
  have hhole : CPc.hole c0.hash (Committer.run (3 * writes.length + 5) sc c0).2.pc = none := by rw [hb]; rfl
  rw [hhole] at hrun
  have htree : Committer.runTree (3 * writes.length + 5) T sc c0 = T.commit ⟨hash, prev, writes⟩ := by
    rw [Committer.runTree_succ _ _ _ _ (by intro b h; cases h)]
    rw [Committer.runTree_past]
    · unfold Committer.treeAfter Tree.commit
      simp only [c0]
      cases hl : linkAt sc hash with
      | none => rw [(hI.link_iff_find hash).mp hl]; rfl
      | some p =>
        simp only
        cases hf : T.find hash with
        | some x => rfl
        | none => rw [(hI.link_iff_find hash).mpr hf] at hl; cases hl
    · simp only [c0]
      unfold Committer.stepPc; simp only
      cases (sc.links.get hash).2 with
      | some _ => rfl
      | none => unfold CPc.next; cases writes <;> rfl
  rw [htree] at hrun
  exact hrun.1

theorem SC.commit_ev_le (sc : SC K B V) (hash prev : B) (writes : List (K × Entry V)) :
    sc.evictions ≤ (sc.commit hash prev writes).1.evictions := by
  unfold SC.commit; exact Committer.run_ev_le _ _ _

theorem SC.get_ev_le (sc : SC K B V) (k : K) (b : B) : sc.evictions ≤ (sc.get k b).1.evictions := by
  unfold SC.get; exact Reader.run_ev_le _ _ _

end Verif.SC
