/-
C11: a trie reopened from just the root hash and weight on the same storage answers like the live one.

`StoredAll H s t`: every node of the spec tree `t` is in the store `s` under its hash, with its honest serialization.
Then
  * `resolve_stored`   : resolving the hash of a stored node yields the clean loaded node (`PT.loaded`);
  * `serialize_loaded` : `Serialize` of a loaded node leaves it unchanged and yields the stored structure again;
  * `reopen_proof`     : `getBlockProof` on the reference `PT.refOf H t` (a `(hash, weight)` reference, or the embedded
                         short node a branch entry decodes to) returns the key of the owner of the block and exactly
                         the honest proof `t.proofPairs H b`; `reopen_proof_root` is the same for the root reference
                         `.hashRef (hash t) (weight t)`;
  * `reopen_verifies`  : that proof verifies against the root hash and yields the owner's value.
-/
import Verif.Lemmas.WmptProof
import Verif.Lemmas.WmptCbor
namespace Verif.Wmpt

/-- every node of `t` is in the store under its hash, with its honest serialization -/
def StoredAll (H : Bytes → Bytes) (s : Store) : PT → Prop
  | .none => True
  | .value v w => s.get (PT.hash H (.value v w)) = some (Cbor.encBase (PT.persist H (.value v w)))
  | .short k c => s.get (PT.hash H (.short k c)) = some (Cbor.encBase (PT.persist H (.short k c))) ∧ StoredAll H s c
  | .branch ch => s.get (PT.hash H (.branch ch)) = some (Cbor.encBase (PT.persist H (.branch ch))) ∧ ∀ i, StoredAll H s (ch i)

/-- every byte string the CBOR layer has to write for a node of `t` fits a 64-bit length: values, short keys, and the
    branch entry of a short child (`32 + 8 + 32` bytes plus the key); and the short keys are nibble lists (what
    `DeserializeNode` accepts since fix f270208) -/
def PTSize : PT → Prop
  | .none => True
  | .value v _ => v.length < 2 ^ 64
  | .short k c => k.length + 72 < 2 ^ 64 ∧ isNibbles k = true ∧ PTSize c
  | .branch ch => ∀ i, PTSize (ch i)

theorem PTSize.keysNib : ∀ {t : PT}, PTSize t → KeysNib t
  | .none, _ => trivial
  | .value _ _, _ => trivial
  | .short _ _, h => ⟨h.2.1, PTSize.keysNib h.2.2⟩
  | .branch _, h => fun i => PTSize.keysNib (h i)

def maxL : List Nat → Nat
  | [] => 0
  | a :: l => max a (maxL l)

theorem le_maxL (l : List Nat) (a : Nat) (h : a ∈ l) : a ≤ maxL l := by
  induction l with
  | nil => cases h
  | cons x tl ih =>
    simp only [maxL]
    cases h with
    | head => omega
    | tail _ h' => have := ih h'; omega

/-- number of nodes on the longest root-to-leaf path -/
def PT.depth : PT → Nat
  | .none => 0
  | .value _ _ => 1
  | .short _ c => PT.depth c + 1
  | .branch ch => maxL (allNib.map (fun i => PT.depth (ch i))) + 1

theorem PT.depth_child_lt (ch : Nib → PT) (i : Nib) : (ch i).depth + 1 ≤ (PT.branch ch).depth := by
  simp only [PT.depth]
  have : (ch i).depth ∈ allNib.map (fun i => (ch i).depth) := List.mem_map.mpr ⟨i, by simp [allNib], rfl⟩
  have := le_maxL _ _ this
  omega

/-- the clean in-memory node `DeserializeNode` makes of the honest serialization of a spec node -/
def PT.loaded (H : Bytes → Bytes) : PT → WN
  | .none => .empty
  | .value v w => .value (PT.hash H (.value v w)) v w false
  | .short k c => .short k (PT.hash H (.short k c)) (.hashRef (PT.hash H c) c.weight) false false
  | .branch ch => .routing (PT.hash H (.branch ch)) (fun i => PT.refOf H (ch i)) (PT.branch ch).weight false false

section
variable (H : Bytes → Bytes)

theorem PT.childEntry_length_lt (hlen : ∀ x, (H x).length = 32) (c : PT) (hs : PTSize c) :
    (PT.childEntry H c).length < 2 ^ 64 := by
  cases c with
  | none => simp [PT.childEntry]
  | value v w => simp [PT.childEntry, PT.hash, hlen, be64_length]
  | branch ch => simp [PT.childEntry, PT.hash, hlen, be64_length]
  | short k c' =>
    have h1 := PT.hash_length H hlen c'
    have h2 := hs.1
    simp only [PT.childEntry, PT.hash, List.length_append, hlen, be64_length, h1]
    omega

/-- the honest serialization of a node fits the CBOR layer -/
theorem persist_wf (hlen : ∀ x, (H x).length = 32) (t : PT) (hw : t.weight < 2 ^ 64) (hs : PTSize t) :
    Cbor.PBaseWF (PT.persist H t) := by
  cases t with
  | none =>
    refine ⟨?_, ?_, ?_, ?_⟩ <;> intro _ e <;> simp [PT.persist] at e
  | value v w =>
    refine ⟨?_, ?_, ?_, ?_⟩ <;> intro _ e <;> simp only [PT.persist] at e <;> cases e
    exact ⟨hs, by simp [PT.hash, hlen], hw⟩
  | short k c =>
    refine ⟨?_, ?_, ?_, ?_⟩ <;> intro _ e <;> simp only [PT.persist] at e <;> cases e
    have h1 := PT.hash_length H hlen c
    have h2 := hs.1
    refine ⟨by show k.length < 2 ^ 64; omega, by simp [PT.hash, hlen], ?_⟩
    simp [pad32_of_length _ h1, h1, be64_length]
  | branch ch =>
    refine ⟨?_, ?_, ?_, ?_⟩ <;> intro _ e <;> simp only [PT.persist] at e <;> cases e
    refine ⟨by simp [PT.hash, hlen], by simp [allNib], ?_⟩
    intro c hc
    obtain ⟨i, _, rfl⟩ := List.mem_map.mp hc
    exact PT.childEntry_length_lt H hlen (ch i) (hs i)

theorem StoredAll.get {s : Store} {t : PT} (h : StoredAll H s t) (hn : t.isNone = false) :
    s.get (PT.hash H t) = some (Cbor.encBase (PT.persist H t)) := by
  cases t with
  | none => simp [PT.isNone] at hn
  | value v w => exact h
  | short k c => exact h.1
  | branch ch => exact h.1

theorem deserializeNode_persist (hlen : ∀ x, (H x).length = 32) (t : PT) (hn : t.isNone = false)
    (hw : t.weight < 2 ^ 64) (hk : KeysNib t) : deserializeNode (PT.persist H t) = .ok (PT.loaded H t) := by
  cases t with
  | none => simp [PT.isNone] at hn
  | value v w => simp [PT.persist, deserializeNode, PT.loaded]
  | short k c => exact deserializeNode_short H hlen k c hw hk.1
  | branch ch => exact deserializeNode_branch H hlen ch hw hk

/-- 1. resolving the hash of a stored node loads the clean node -/
theorem resolve_stored (hlen : ∀ x, (H x).length = 32) (s : Store) (t : PT) (hn : t.isNone = false)
    (hst : StoredAll H s t) (hw : t.weight < 2 ^ 64) (hs : PTSize t) :
    resolveHash true s (PT.hash H t) = .ok (PT.loaded H t) := by
  simp only [resolveHash, Bool.not_true, Bool.false_eq_true, if_false, hst.get H hn,
    Cbor.decBase_encBase _ (persist_wf H hlen t hw hs), deserializeNode_persist H hlen t hn hw hs.keysNib]

theorem resolve_stored_value (hlen : ∀ x, (H x).length = 32) (s : Store) (v : Bytes) (w : Nat)
    (hst : StoredAll H s (.value v w)) (hw : w < 2 ^ 64) (hs : v.length < 2 ^ 64) :
    resolveHash true s (PT.hash H (.value v w)) = .ok (.value (PT.hash H (.value v w)) v w false) :=
  resolve_stored H hlen s (.value v w) rfl hst hw hs

theorem resolve_stored_short (hlen : ∀ x, (H x).length = 32) (s : Store) (k : Bytes) (c : PT)
    (hst : StoredAll H s (.short k c)) (hw : c.weight < 2 ^ 64) (hs : PTSize (.short k c)) :
    resolveHash true s (PT.hash H (.short k c)) =
      .ok (.short k (PT.hash H (.short k c)) (.hashRef (PT.hash H c) c.weight) false false) :=
  resolve_stored H hlen s (.short k c) rfl hst hw hs

theorem resolve_stored_branch (hlen : ∀ x, (H x).length = 32) (s : Store) (ch : Nib → PT)
    (hst : StoredAll H s (.branch ch)) (hw : (PT.branch ch).weight < 2 ^ 64) (hs : PTSize (.branch ch)) :
    resolveHash true s (PT.hash H (.branch ch)) =
      .ok (.routing (PT.hash H (.branch ch)) (fun i => PT.refOf H (ch i)) (PT.branch ch).weight false false) :=
  resolve_stored H hlen s (.branch ch) rfl hst hw hs

/-! ### 2. `Serialize` of a loaded node -/

theorem childEntry_refOf (c : PT) : childEntry H (PT.refOf H c) = PT.childEntry H c := by
  cases c <;> simp [PT.refOf, childEntry, PT.childEntry, WN.hashField, WN.weight, PT.weight]

theorem serialize_loaded (t : PT) (hn : t.isNone = false) :
    serializeP H (PT.loaded H t) = (PT.loaded H t, PT.persist H t) := by
  cases t with
  | none => simp [PT.isNone] at hn
  | value v w => simp [PT.loaded, serializeP, calcHash, WN.hashField, PT.persist]
  | short k c =>
    simp [PT.loaded, serializeP, calcHash, WN.hashField, PT.persist, WN.weight]
  | branch ch =>
    simp [PT.loaded, serializeP, calcHash, PT.persist, childEntry_refOf]

/-! ### 3. the block proof of a reopened trie -/

theorem gbp_hashRef (s : Store) (f : Nat) (h : Bytes) (w b : Nat) (pre : Bytes) (rn : WN)
    (hr : resolveHash true s h = .ok rn) :
    (getBlockProof H true s (f + 1) (.hashRef h w) b pre).res = (getBlockProof H true s f rn b pre).res := by
  rw [getBlockProof]
  simp only [hr]

theorem gbp_loaded_value (s : Store) (f : Nat) (v : Bytes) (w b : Nat) (pre : Bytes) :
    (getBlockProof H true s (f + 1) (PT.loaded H (.value v w)) b pre).res =
      .ok (pre, [Cbor.encBase (PT.persist H (.value v w))]) := by
  have hs := serialize_loaded H (.value v w) rfl
  simp only [PT.loaded] at hs
  simp only [PT.loaded]
  rw [getBlockProof]
  simp only [hs]

theorem gbp_loaded_short (s : Store) (f : Nat) (k : Bytes) (c : PT) (b : Nat) (pre : Bytes) (hb : b ≤ c.weight) :
    (getBlockProof H true s (f + 1) (PT.loaded H (.short k c)) b pre).res =
      match (getBlockProof H true s f (.hashRef (PT.hash H c) c.weight) b (pre ++ k)).res with
      | .ok (key, ps) => .ok (key, Cbor.encBase (PT.persist H (.short k c)) :: ps)
      | .err e => .err e := by
  have hs := serialize_loaded H (.short k c) rfl
  simp only [PT.loaded] at hs
  simp only [PT.loaded]
  rw [getBlockProof]
  simp only [hs, WN.weight, gt_iff_lt, Nat.not_lt.mpr hb, if_false]
  generalize (getBlockProof H true s f _ _ _).res = r
  cases r with
  | ok a => obtain ⟨key, ps⟩ := a; rfl
  | err e => rfl

theorem gbp_loaded_branch (s : Store) (f : Nat) (ch : Nib → PT) (b : Nat) (pre : Bytes) (i : Nib) (b' : Nat)
    (hp : PT.pick ch allNib b = some (i, b')) :
    (getBlockProof H true s (f + 1) (PT.loaded H (.branch ch)) b pre).res =
      match (getBlockProof H true s f (PT.refOf H (ch i)) b' (pre ++ [nb i])).res with
      | .ok (key, ps) => .ok (key, Cbor.encBase (PT.persist H (.branch ch)) :: ps)
      | .err e => .err e := by
  have hs := serialize_loaded H (.branch ch) rfl
  have hpc : pickChild (fun i => PT.refOf H (ch i)) allNib b = some (i, b') := by rw [pickChild_refOf]; exact hp
  simp only [PT.loaded] at hs
  simp only [PT.loaded]
  rw [getBlockProof]
  simp only [hs, hpc]
  generalize (getBlockProof H true s f _ _ _).res = r
  cases r with
  | ok a => obtain ⟨key, ps⟩ := a; rfl
  | err e => rfl

theorem reopen_core (hlen : ∀ x, (H x).length = 32) (s : Store) (t : PT) :
    ∀ b, StoredAll H s t → t.weight < 2 ^ 64 → PTSize t → 1 ≤ b → b ≤ t.weight →
      ∃ k v, t.owner b = some (k, v) ∧ ∀ fuel pre, 2 * t.depth ≤ fuel →
        (getBlockProof H true s fuel (.hashRef (PT.hash H t) t.weight) b pre).res =
            .ok (pre ++ k, (t.proofPairs H b).map Cbor.encBase) ∧
        (getBlockProof H true s fuel (PT.refOf H t) b pre).res =
            .ok (pre ++ k, (t.proofPairs H b).map Cbor.encBase) := by
  induction t with
  | none =>
    intro b _ _ _ h1 h2
    simp only [PT.weight] at h2
    omega
  | value v w =>
    intro b hst hw hsz _ _
    refine ⟨[], v, rfl, fun fuel pre hf => ?_⟩
    obtain ⟨f, rfl⟩ : ∃ f, fuel = f + 2 := ⟨fuel - 2, by simp only [PT.depth] at hf; omega⟩
    have hr := resolve_stored H hlen s (.value v w) rfl hst hw hsz
    have main : (getBlockProof H true s (f + 2) (.hashRef (PT.hash H (.value v w)) (PT.value v w).weight) b pre).res =
        .ok (pre ++ [], ((PT.value v w).proofPairs H b).map Cbor.encBase) := by
      rw [gbp_hashRef H s (f + 1) _ _ b pre _ hr, gbp_loaded_value]
      simp [PT.proofPairs]
    exact ⟨main, main⟩
  | short k c ih =>
    intro b hst hw hsz h1 h2
    have hw' : c.weight < 2 ^ 64 := hw
    have h2' : b ≤ c.weight := h2
    obtain ⟨k', v, ho, hrec⟩ := ih b hst.2 hw' hsz.2.2 h1 h2'
    refine ⟨k ++ k', v, by simp [PT.owner, ho, Nat.not_lt.mpr h2'], fun fuel pre hf => ?_⟩
    have R : ∀ f, 2 * c.depth ≤ f →
        (getBlockProof H true s (f + 1) (PT.loaded H (.short k c)) b pre).res =
          .ok (pre ++ (k ++ k'), ((PT.short k c).proofPairs H b).map Cbor.encBase) := by
      intro f hf'
      rw [gbp_loaded_short H s f k c b pre h2', (hrec f (pre ++ k) hf').1]
      simp [PT.proofPairs]
    obtain ⟨f, rfl⟩ : ∃ f, fuel = f + 2 := ⟨fuel - 2, by simp only [PT.depth] at hf; omega⟩
    have hr := resolve_stored H hlen s (.short k c) rfl hst hw hsz
    simp only [PT.depth] at hf
    refine ⟨?_, R (f + 1) (by omega)⟩
    rw [gbp_hashRef H s (f + 1) _ _ b pre _ hr]
    exact R f (by omega)
  | branch ch ih =>
    intro b hst hw hsz h1 h2
    obtain ⟨i, b', hp, hb1', hb'⟩ := PT.pick_some_of_le ch allNib b h1 h2
    have hwi : (ch i).weight < 2 ^ 64 := Nat.lt_of_le_of_lt (PT.weight_child_le ch i) hw
    obtain ⟨k', v, ho, hrec⟩ := ih i b' (hst.2 i) hwi (hsz i) hb1' hb'
    refine ⟨nb i :: k', v, by simp [PT.owner, hp, ho], fun fuel pre hf => ?_⟩
    have hd := PT.depth_child_lt ch i
    obtain ⟨f, rfl⟩ : ∃ f, fuel = f + 2 := ⟨fuel - 2, by omega⟩
    have hr := resolve_stored H hlen s (.branch ch) rfl hst hw hsz
    have main : (getBlockProof H true s (f + 2) (.hashRef (PT.hash H (.branch ch)) (PT.branch ch).weight) b pre).res =
        .ok (pre ++ nb i :: k', ((PT.branch ch).proofPairs H b).map Cbor.encBase) := by
      rw [gbp_hashRef H s (f + 1) _ _ b pre _ hr, gbp_loaded_branch H s f ch b pre i b' hp,
        (hrec f (pre ++ [nb i]) (by omega)).2]
      simp [PT.proofPairs, hp]
    exact ⟨main, main⟩

/-- 3. MAIN: the block proof produced from the reference to a stored tree (the `(hash, weight)` reference of a value or
    branch node, the embedded short node of a branch entry) is the honest proof, with the key of the owner of `b` -/
theorem reopen_proof (hlen : ∀ x, (H x).length = 32) (s : Store) (t : PT) (b fuel : Nat) (pre : Bytes)
    (hst : StoredAll H s t) (hw : t.weight < 2 ^ 64) (hsz : PTSize t) (hb1 : 1 ≤ b) (hb : b ≤ t.weight)
    (hf : 2 * t.depth ≤ fuel) :
    ∃ k v, t.owner b = some (k, v) ∧
      (getBlockProof H true s fuel (PT.refOf H t) b pre).res = .ok (pre ++ k, (t.proofPairs H b).map Cbor.encBase) := by
  obtain ⟨k, v, ho, h⟩ := reopen_core H hlen s t b hst hw hsz hb1 hb
  exact ⟨k, v, ho, (h fuel pre hf).2⟩

/-- the same for a trie reopened from just the root hash and weight (any non-empty root, also a short node) -/
theorem reopen_proof_root (hlen : ∀ x, (H x).length = 32) (s : Store) (t : PT) (b fuel : Nat)
    (hst : StoredAll H s t) (hw : t.weight < 2 ^ 64) (hsz : PTSize t) (hb1 : 1 ≤ b) (hb : b ≤ t.weight)
    (hf : 2 * t.depth ≤ fuel) :
    ∃ k v, t.owner b = some (k, v) ∧
      (getBlockProof H true s fuel (.hashRef (PT.hash H t) t.weight) b []).res =
        .ok (k, (t.proofPairs H b).map Cbor.encBase) := by
  obtain ⟨k, v, ho, h⟩ := reopen_core H hlen s t b hst hw hsz hb1 hb
  exact ⟨k, v, ho, by simpa using (h fuel [] hf).1⟩

/-- 4. the proof a reopened trie produces verifies against the root hash and yields the value of the owner -/
theorem reopen_verifies (hlen : ∀ x, (H x).length = 32) (s : Store) (t : PT) (b fuel : Nat)
    (hst : StoredAll H s t) (hw : t.weight < 2 ^ 64) (hsz : PTSize t) (hb1 : 1 ≤ b) (hb : b ≤ t.weight)
    (hf : 2 * t.depth ≤ fuel) :
    ∃ k v, t.owner b = some (k, v) ∧
      (getBlockProof H true s fuel (.hashRef (PT.hash H t) t.weight) b []).res =
        .ok (k, (t.proofPairs H b).map Cbor.encBase) ∧
      verifyPairs H ((t.proofPairs H b).map PairD.ok) b = .ok (t.hash H, v) := by
  obtain ⟨k, v, ho, h⟩ := reopen_proof_root H hlen s t b fuel hst hw hsz hb1 hb hf
  obtain ⟨n, k2, v2, ho2, hv, _, hh, _⟩ := verify_honest H hlen t b [] hb1 hb hw hsz.keysNib
  rw [ho] at ho2
  cases ho2
  refine ⟨k, v, ho, h, ?_⟩
  have hne : (t.proofPairs H b).map PairD.ok ≠ [] := by
    cases t <;> simp [PT.proofPairs, PT.weight] at hb ⊢
    omega
  simp only [List.append_nil] at hv
  simp [verifyPairs, hne, hv, hh]

end
end Verif.Wmpt
