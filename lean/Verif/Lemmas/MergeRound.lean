/-
A parent trie that executes own operations and then merges ONE child (which executed its own operations on the
parent's tree): the parent's whole event list obeys the event discipline and covers the child's final tree.
-/
import Verif.Lemmas.MergeCalls
import Verif.Lemmas.MptRound
namespace Verif.MptStore
open Verif.Mpt Collector

/-- the events a merge replays on the parent -/
def mergeEvents (changes : List (Change Ref)) (deletes : List Ref) : List Event :=
  changes.map (fun c => Event.put c.old c.new) ++ deletes.map Event.del

theorem callsOf_append (H : Bytes → Bytes) (a b : List Event) : callsOf H (a ++ b) = callsOf H a ++ callsOf H b := by
  simp [callsOf, List.filterMap_append]

theorem callsOf_mergeEvents (H : Bytes → Bytes) (cs : List (Change Ref)) (ds : List Ref)
    (hne : ∀ c ∈ cs, ∀ o, c.old = some o → o.key H ≠ c.new.key H) :
    callsOf H (mergeEvents cs ds) = mergeCalls cs ds := by
  simp only [mergeEvents, mergeCalls, callsOf_append]
  congr 1
  · induction cs with
    | nil => rfl
    | cons c cs ih =>
      have ih' := ih (fun c' hc' => hne c' (List.mem_cons_of_mem _ hc'))
      simp only [callsOf, List.map_cons, List.filterMap_cons] at ih' ⊢
      rcases c with ⟨_ | o, n⟩
      · simp [callOf, ih']
      · have := hne ⟨some o, n⟩ (List.mem_cons_self ..) o rfl
        simp [callOf, this, ih']
  · induction ds with
    | nil => rfl
    | cons d ds ih =>
      simp only [callsOf, List.map_cons, List.filterMap_cons] at ih ⊢
      simp [callOf, ih]

theorem eventRefs_append (a b : List Event) : ∀ r, r ∈ eventRefs (a ++ b) ↔ r ∈ eventRefs a ∨ r ∈ eventRefs b := by
  induction a with
  | nil => intro r; simp [eventRefs]
  | cons e a ih =>
    intro r
    cases e with
    | del o => simp only [List.cons_append, eventRefs, List.mem_cons, ih r, or_assoc]
    | put o n => cases o <;> simp only [List.cons_append, eventRefs, List.mem_cons, ih r, or_assoc]

/-- the collector of a freshly opened trie after a disciplined event list satisfies all collector invariants -/
theorem collector_invs (H : Bytes → Bytes) (L0 : Bytes → Prop) (b0 : Trie) (es : List Event)
    (hfresh : b0.cc.changes = [] ∧ b0.cc.deletes = []) (hd : Disc (Ref.key H) L0 (callsOf H es)) :
    Inv (Ref.key H) L0 (liveRun (Ref.key H) L0 (callsOf H es)) (b0.applyEvents H es).cc ∧
    Inv2 (Ref.key H) (liveRun (Ref.key H) L0 (callsOf H es)) (b0.applyEvents H es).cc ∧
    Prov (Ref.key H) (fun r => r ∈ eventRefs es) (b0.applyEvents H es).cc := by
  have hcc0 : b0.cc = { startRoot := b0.cc.startRoot } := by
    cases hb : b0.cc with
    | mk s c d => rw [hb] at hfresh; simp at hfresh; simp [hfresh.1, hfresh.2]
  rw [applyEvents_cc, hcc0]
  exact ⟨inv_run _ (inv_init _ _ _) hd, inv2_run _ (inv_init _ _ _) (inv2_init _ _ _) hd,
    prov_run _ (prov_init _ _ _) (callNodes_callsOf H es)⟩

/-- **One merged child.**  The parent executes the round `esP` (from `t0` to `t1`), a child opened on `t1` executes
    the round `esC` (to `t2`) with a fresh collector, and the parent replays the child's pending changes in an order
    `cs` (a permutation of them that is a `GoodOrder`) followed by its deletes.  Then the parent's whole event list
    obeys the discipline w.r.t. `t0` and covers `t2`. -/
theorem one_merge_discipline (H : Bytes → Bytes) {v : Nat} {t0 t1 t2 : Node} {esP esC : List Event}
    (hP : RoundEvents v t0 esP t1) (hC : RoundEvents v t1 esC t2) (hw : WF t0)
    (c0 : Trie) (hfreshC : c0.cc.changes = [] ∧ c0.cc.deletes = [])
    (cs : List (Change Ref)) (hperm : cs.Perm (c0.applyEvents H esC).cc.getChanges)
    (hgood : GoodOrder (Ref.key H) cs)
    (hU : KeyInjOn H (fun r => r ∈ refs t0 [] ∨ r ∈ eventRefs esP ∨ r ∈ eventRefs esC)) :
    let es := esP ++ mergeEvents cs (c0.applyEvents H esC).cc.getDeletes
    Disc (Ref.key H) (fun x => x ∈ (refs t0 []).map (Ref.key H)) (callsOf H es) ∧
    (∀ r ∈ refs t2 [], liveRun (Ref.key H) (fun x => x ∈ (refs t0 []).map (Ref.key H)) (callsOf H es) (r.key H)) ∧
    (∀ r ∈ eventRefs es, r ∈ eventRefs esP ∨ r ∈ eventRefs esC) := by
  intro es
  -- the parent's own round
  have hUP : KeyInjOn H (fun r => r ∈ refs t0 [] ∨ r ∈ eventRefs esP) :=
    fun a b ha hb => hU a b (ha.elim Or.inl (fun h => Or.inr (Or.inl h))) (hb.elim Or.inl (fun h => Or.inr (Or.inl h)))
  obtain ⟨hdP, hcP, hw1⟩ := round_discipline H hP hw hUP
  -- the child's round
  obtain ⟨_, hcrP, _⟩ := round_ok hP hw (fun r => r ∈ refs t0 []) (fun _ h => h)
  have ht1sub : ∀ r ∈ refs t1 [], r ∈ refs t0 [] ∨ r ∈ eventRefs esP := fun r h => liveRunR_sub esP _ r (hcrP r h)
  have hUC : KeyInjOn H (fun r => r ∈ refs t1 [] ∨ r ∈ eventRefs esC) := by
    intro a b ha hb
    apply hU a b
    · rcases ha with ha | ha
      · exact (ht1sub a ha).elim Or.inl (fun h => Or.inr (Or.inl h))
      · exact Or.inr (Or.inr ha)
    · rcases hb with hb | hb
      · exact (ht1sub b hb).elim Or.inl (fun h => Or.inr (Or.inl h))
      · exact Or.inr (Or.inr hb)
  obtain ⟨hdC, hcC, _⟩ := round_discipline H hC hw1 hUC
  obtain ⟨inv, inv2, prov⟩ := collector_invs H _ c0 esC hfreshC hdC
  have provT : Prov (Ref.key H) (fun _ => True) (c0.applyEvents H esC).cc :=
    ⟨fun e he => ⟨(prov.changes e he).1, trivial, fun _ _ => trivial⟩, fun e he => ⟨(prov.deletes e he).1, trivial⟩⟩
  -- the replay on the parent
  have hmerge := merge_calls_ok (Ref.key H) _ _ _ inv inv2 provT cs hperm hgood
    (liveRun (Ref.key H) (fun x => x ∈ (refs t0 []).map (Ref.key H)) (callsOf H esP))
    (by
      intro x hx
      obtain ⟨r, hr, rfl⟩ := List.mem_map.mp hx
      exact hcP r hr)
  have hne : ∀ c ∈ cs, ∀ o, c.old = some o → o.key H ≠ c.new.key H := by
    intro c hc o ho
    have hc' : c ∈ (c0.applyEvents H esC).cc.getChanges := hperm.mem_iff.mp hc
    obtain ⟨e, he, rfl⟩ := List.mem_map.mp hc'
    have hk := (prov.changes e he).1
    have hg := Map.get_of_mem_nodup inv2.nodup he
    rw [hk]
    exact inv2.old_ne _ _ o hg ho
  have hcalls : callsOf H es = callsOf H esP ++ mergeCalls cs (c0.applyEvents H esC).cc.getDeletes := by
    simp only [es, callsOf_append, callsOf_mergeEvents H cs _ hne]
  refine ⟨?_, ?_, ?_⟩
  · rw [hcalls]; exact (disc_append _ _ _ _).mpr ⟨hdP, hmerge.1⟩
  · intro r hr
    rw [hcalls, liveRun_append]
    exact hmerge.2 _ (hcC r hr)
  · intro r hr
    rcases (eventRefs_append _ _ r).mp hr with h | h
    · exact Or.inl h
    · right
      -- every node the merge replays sits in the child's collector, whose nodes come from the child's events
      simp only [mergeEvents] at h
      rcases (eventRefs_append _ _ r).mp h with h | h
      · have : ∀ (l : List (Change Ref)), (∀ c ∈ l, c.new ∈ eventRefs esC ∧ ∀ o, c.old = some o → o ∈ eventRefs esC) →
            r ∈ eventRefs (l.map (fun c => Event.put c.old c.new)) → r ∈ eventRefs esC := by
          intro l
          induction l with
          | nil => intro _ h; cases h
          | cons c l ih =>
            intro hl h
            rcases c with ⟨_ | o, n⟩
            · simp only [List.map_cons, eventRefs, List.mem_cons] at h
              rcases h with rfl | h
              · exact (hl _ (List.mem_cons_self ..)).1
              · exact ih (fun c' hc' => hl c' (List.mem_cons_of_mem _ hc')) h
            · simp only [List.map_cons, eventRefs, List.mem_cons] at h
              rcases h with rfl | rfl | h
              · exact (hl _ (List.mem_cons_self ..)).2 _ rfl
              · exact (hl _ (List.mem_cons_self ..)).1
              · exact ih (fun c' hc' => hl c' (List.mem_cons_of_mem _ hc')) h
        apply this cs _ h
        intro c hc
        have hc' : c ∈ (c0.applyEvents H esC).cc.getChanges := hperm.mem_iff.mp hc
        obtain ⟨e, he, rfl⟩ := List.mem_map.mp hc'
        exact (prov.changes e he).2
      · have : ∀ (l : List Ref), (∀ d ∈ l, d ∈ eventRefs esC) → r ∈ eventRefs (l.map Event.del) → r ∈ eventRefs esC := by
          intro l
          induction l with
          | nil => intro _ h; cases h
          | cons d l ih =>
            intro hl h
            simp only [List.map_cons, eventRefs, List.mem_cons] at h
            rcases h with rfl | h
            · exact hl _ (List.mem_cons_self ..)
            · exact ih (fun d' hd' => hl d' (List.mem_cons_of_mem _ hd')) h
        apply this _ _ h
        intro d hd
        simp only [getDeletes] at hd
        obtain ⟨e, he, rfl⟩ := List.mem_map.mp hd
        exact (prov.deletes e he).2

end Verif.MptStore

namespace Verif.MptStore
open Verif.Mpt Collector

theorem orderPass_perm (H : Bytes → Bytes) : ∀ (cs : List (Change Ref)) (m : Map Bytes Nat),
    ((orderPass H cs m).1 ++ (orderPass H cs m).2.1).Perm cs := by
  intro cs
  induction cs with
  | nil => intro m; simp [orderPass]
  | cons c cs ih =>
    intro m
    simp only [orderPass]
    split
    · exact (List.perm_middle).trans ((ih m).cons c)
    · exact (ih _).cons c

theorem orderLoop_perm (H : Bytes → Bytes) : ∀ (fuel : Nat) (pending : List (Change Ref)) (m : Map Bytes Nat),
    (orderLoop H fuel pending m).Perm pending := by
  intro fuel
  induction fuel with
  | zero => intro pending m; exact List.Perm.refl _
  | succ fuel ih =>
    intro pending m
    simp only [orderLoop]
    split
    · rename_i he
      have : pending = [] := by cases pending <;> simp_all
      rw [this]
    · split
      · exact orderPass_perm H pending m
      · exact ((ih _ _).append_left _).trans (orderPass_perm H pending m)

/-- `orderChanges` only reorders -/
theorem orderChanges_perm (H : Bytes → Bytes) (changes : List (Change Ref)) : (orderChanges H changes).Perm changes := by
  simp only [orderChanges]
  exact orderLoop_perm H _ _ _

end Verif.MptStore
