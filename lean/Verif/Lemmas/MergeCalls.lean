/-
Replaying one collector's pending changes and deletes on another live set (what `mergeChanges` does on the parent):
if the replay order never replaces a key after (re)creating it (`GoodOrder`), the replay obeys the event discipline
in the parent and every key live in the child is live in the parent afterwards.
-/
import Verif.Lemmas.Collector2
namespace Verif.MptStore
namespace Collector
variable {κ N : Type} [DecidableEq κ]

theorem liveRun_append (k : N → κ) (a b : List (Call N)) : ∀ L, liveRun k L (a ++ b) = liveRun k (liveRun k L a) b := by
  induction a with
  | nil => intro L; rfl
  | cons c a ih => intro L; simp only [List.cons_append, liveRun, ih]

theorem disc_append (k : N → κ) (a b : List (Call N)) : ∀ L, Disc k L (a ++ b) ↔ Disc k L a ∧ Disc k (liveRun k L a) b := by
  induction a with
  | nil => intro L; simp [Disc, liveRun]
  | cons c a ih => intro L; simp only [List.cons_append, Disc, liveRun, ih, and_assoc]

/-- the calls of a merge: every change, then every delete -/
def mergeCalls (cs : List (Change N)) (ds : List N) : List (Call N) :=
  cs.map (fun c => Call.add c.old c.new) ++ ds.map Call.del

/-- a later change never replaces the key an earlier change (re)created -/
def GoodOrder (k : N → κ) (cs : List (Change N)) : Prop :=
  cs.Pairwise (fun a b => ∀ o, b.old = some o → k o ≠ k a.new)

/-- two changes never record predecessors of one key -/
def OldsDistinct (k : N → κ) (a b : Change N) : Prop := ∀ o o', a.old = some o → b.old = some o' → k o ≠ k o'

theorem puts_disc (k : N → κ) : ∀ (cs : List (Change N)) (Lp : κ → Prop),
    (∀ c ∈ cs, ∀ o, c.old = some o → Lp (k o) ∧ k o ≠ k c.new) → cs.Pairwise (OldsDistinct k) →
    Disc k Lp (cs.map (fun c => Call.add c.old c.new)) := by
  intro cs
  induction cs with
  | nil => intro _ _ _; trivial
  | cons c cs ih =>
    intro Lp h hp
    obtain ⟨hp1, hp2⟩ := List.pairwise_cons.mp hp
    rcases c with ⟨_ | o, n⟩
    · refine ⟨trivial, ih _ ?_ hp2⟩
      intro c' hc' o' ho'
      obtain ⟨hl, hne⟩ := h c' (List.mem_cons_of_mem _ hc') o' ho'
      exact ⟨Or.inr hl, hne⟩
    · refine ⟨h _ (List.mem_cons_self ..) o rfl, ih _ ?_ hp2⟩
      intro c' hc' o' ho'
      obtain ⟨hl, hne⟩ := h c' (List.mem_cons_of_mem _ hc') o' ho'
      exact ⟨Or.inr ⟨hl, fun e => hp1 c' hc' o o' rfl ho' e.symm⟩, hne⟩

theorem puts_live_old (k : N → κ) : ∀ (cs : List (Change N)) (Lp : κ → Prop) (x : κ),
    Lp x → (∀ c ∈ cs, ∀ o, c.old = some o → k o ≠ x) → liveRun k Lp (cs.map (fun c => Call.add c.old c.new)) x := by
  intro cs
  induction cs with
  | nil => intro Lp x h _; exact h
  | cons c cs ih =>
    intro Lp x h hno
    apply ih _ x _ (fun c' hc' => hno c' (List.mem_cons_of_mem _ hc'))
    rcases c with ⟨_ | o, n⟩
    · exact Or.inr h
    · exact Or.inr ⟨h, fun e => hno _ (List.mem_cons_self ..) o rfl e.symm⟩

theorem puts_live_new (k : N → κ) : ∀ (a : List (Change N)) (c : Change N) (b : List (Change N)) (Lp : κ → Prop),
    (∀ c' ∈ b, ∀ o, c'.old = some o → k o ≠ k c.new) →
    liveRun k Lp ((a ++ c :: b).map (fun c => Call.add c.old c.new)) (k c.new) := by
  intro a
  induction a with
  | nil =>
    intro c b Lp hno
    simp only [List.nil_append, List.map_cons, liveRun]
    apply puts_live_old k b _ _ _ hno
    rcases c with ⟨_ | o, n⟩ <;> simp [liveStep]
  | cons a0 a ih =>
    intro c b Lp hno
    simp only [List.cons_append, List.map_cons, liveRun]
    exact ih c b _ hno

theorem dels_live (k : N → κ) : ∀ (ds : List N) (L : κ → Prop) (x : κ),
    L x → (∀ d ∈ ds, k d ≠ x) → liveRun k L (ds.map Call.del) x := by
  intro ds
  induction ds with
  | nil => intro L x h _; exact h
  | cons d ds ih =>
    intro L x h hno
    apply ih _ x _ (fun d' hd' => hno d' (List.mem_cons_of_mem _ hd'))
    exact ⟨h, fun e => hno d (List.mem_cons_self ..) e.symm⟩

theorem dels_disc (k : N → κ) : ∀ (ds : List N) (L : κ → Prop), Disc k L (ds.map Call.del) := by
  intro ds
  induction ds with
  | nil => intro _; trivial
  | cons d ds ih => intro L; exact ⟨trivial, ih _⟩

/-- **Replaying a collector.**  `cc` is a collector with live set `Lc` over the original set `L0` (its invariants
    hold); `cs` is any ordering of its pending changes that is a `GoodOrder`; `Lp` is a live set containing `L0`.
    Then the calls `cs` followed by the deletes obey the discipline started from `Lp`, and everything live in `Lc` is
    live afterwards. -/
theorem merge_calls_ok (k : N → κ) (L0 Lc : κ → Prop) (cc : Collector κ N)
    (inv : Inv k L0 Lc cc) (inv2 : Inv2 k Lc cc) (prov : Prov k (fun _ => True) cc)
    (cs : List (Change N)) (hperm : cs.Perm cc.getChanges) (hgood : GoodOrder k cs)
    (Lp : κ → Prop) (hsub : ∀ x, L0 x → Lp x) :
    Disc k Lp (mergeCalls cs cc.getDeletes) ∧ ∀ x, Lc x → liveRun k Lp (mergeCalls cs cc.getDeletes) x := by
  -- every pending change is an entry found by `get` under the key of its new node
  have hentry : ∀ c ∈ cs, Map.get cc.changes (k c.new) = some c := by
    intro c hc
    have hc' : c ∈ cc.getChanges := hperm.mem_iff.mp hc
    obtain ⟨e, he, rfl⟩ := List.mem_map.mp hc'
    have hk := (prov.changes e he).1
    have := Map.get_of_mem_nodup inv2.nodup he
    rw [hk]; exact this
  have hF1 : ∀ c ∈ cs, ∀ o, c.old = some o → Lp (k o) ∧ k o ≠ k c.new := by
    intro c hc o ho
    have hg := hentry c hc
    exact ⟨hsub _ (inv.old_original _ c o hg ho), inv2.old_ne _ c o hg ho⟩
  have hF2 : cs.Pairwise (OldsDistinct k) := by
    have hsym : ∀ a b : Change N, OldsDistinct k a b → OldsDistinct k b a := fun a b h o o' ho ho' e => h o' o ho' ho e.symm
    rw [hperm.pairwise_iff (fun {a b} h => hsym a b h)]
    simp only [getChanges]
    rw [List.pairwise_map]
    have hnd : cc.changes.Pairwise (fun a b => a.1 ≠ b.1) := by
      have := inv2.nodup
      simp only [Map.keys, List.Nodup, List.pairwise_map] at this
      exact this
    refine hnd.imp_of_mem ?_
    intro a b ha hb hab o o' ho ho' e
    exact hab (inv2.old_unique a.1 b.1 a.2 b.2 o o' (Map.get_of_mem_nodup inv2.nodup ha)
      (Map.get_of_mem_nodup inv2.nodup hb) ho ho' e)
  refine ⟨(disc_append k _ _ _).mpr ⟨puts_disc k cs Lp hF1 hF2, dels_disc k _ _⟩, ?_⟩
  intro x hx
  simp only [mergeCalls]
  rw [liveRun_append]
  apply dels_live
  · rcases inv.live_cover x hx with h0 | hp
    · by_cases hC : (Map.get cc.changes x).isSome = true
      · -- pending (re-created original): handled like a pending node
        cases hg : Map.get cc.changes x with
        | none => rw [hg] at hC; simp at hC
        | some c =>
          have hkc := inv.changes_keyed x c hg
          have hc : c ∈ cs := hperm.mem_iff.mpr (List.mem_map.mpr ⟨(x, c), Map.mem_of_get hg, rfl⟩)
          obtain ⟨a, b, rfl⟩ := List.append_of_mem hc
          have hb : ∀ c' ∈ b, ∀ o, c'.old = some o → k o ≠ k c.new := by
            have := List.pairwise_append.mp hgood
            have h2 := List.pairwise_cons.mp this.2.1
            exact fun c' hc' o ho => h2.1 c' hc' o ho
          rw [← hkc]
          exact puts_live_new k a c b Lp hb
      · apply puts_live_old k cs Lp x (hsub x h0)
        intro c hc o ho e
        have hg := hentry c hc
        rcases inv2.old_dead _ c o hg ho with hd | hp
        · exact hd (e ▸ hx)
        · rw [e] at hp; exact hC hp
    · cases hg : Map.get cc.changes x with
      | none => rw [hg] at hp; simp at hp
      | some c =>
        have hkc := inv.changes_keyed x c hg
        have hc : c ∈ cs := hperm.mem_iff.mpr (List.mem_map.mpr ⟨(x, c), Map.mem_of_get hg, rfl⟩)
        obtain ⟨a, b, rfl⟩ := List.append_of_mem hc
        have hb : ∀ c' ∈ b, ∀ o, c'.old = some o → k o ≠ k c.new := by
          have := List.pairwise_append.mp hgood
          have h2 := List.pairwise_cons.mp this.2.1
          exact fun c' hc' o ho => h2.1 c' hc' o ho
        rw [← hkc]
        exact puts_live_new k a c b Lp hb
  · intro d hd e
    simp only [getDeletes] at hd
    obtain ⟨en, hen, rfl⟩ := List.mem_map.mp hd
    have hk := (prov.deletes en hen).1
    have hsome := Map.get_isSome_of_mem hen
    cases hg : Map.get cc.deletes en.1 with
    | none => rw [hg] at hsome; simp at hsome
    | some d' => exact inv.deletes_dead en.1 d' hg (by rw [← hk, e]; exact hx)

end Collector
end Verif.MptStore
