/-!
# Operations whose whole body runs under one shared mutex are atomic

A small-step model of threads executing operations on a shared state `σ`.  An operation is a list of
micro-steps `σ → σ` (its body) and a flag `locked`: whether the body runs between `mu.Lock()` and the deferred
`mu.Unlock()` of the one shared mutex.  A schedule is any list of thread numbers; a scheduled thread that is
blocked on the mutex, or has nothing left to do, stutters.

`exec_linearizable`: if every operation of every thread is `locked`, then whatever the schedule, the operations
started so far can be arranged in one sequence `lin` (the order in which they acquired the mutex) which contains
each thread's operations in program order, and once every thread has finished the shared state is exactly the
result of running the operations of `lin` one after the other, each to completion.
-/
namespace Verif.RingMutex

variable {σ ω : Type}

/-- how operations of type `ω` act: `body o` are the micro-steps of `o`, `locked o` says whether they run with the
shared mutex held -/
structure Sem (σ ω : Type) where
  body : ω → List (σ → σ)
  locked : ω → Bool

def applyAll (fs : List (σ → σ)) (s : σ) : σ := fs.foldl (fun s f => f s) s

/-- the operation run to completion without interruption -/
def Sem.run (m : Sem σ ω) (o : ω) (s : σ) : σ := applyAll (m.body o) s

/-- sequential execution of a list of (thread, operation) pairs -/
def seqRun (m : Sem σ ω) (s : σ) (lin : List (Nat × ω)) : σ := lin.foldl (fun s p => m.run p.2 s) s

structure Config (σ ω : Type) where
  shared : σ
  /-- the thread holding the mutex -/
  holder : Option Nat
  /-- per thread: the remaining micro-steps of the operation in progress (`some []`: about to unlock and return) -/
  cur : Nat → Option (List (σ → σ))
  /-- per thread: the operations not yet started -/
  todo : Nat → List ω

def upd {β : Type} (f : Nat → β) (t : Nat) (v : β) : Nat → β := fun t' => if t' = t then v else f t'

@[simp] theorem upd_same {β : Type} (f : Nat → β) (t : Nat) (v : β) : upd f t v t = v := by simp [upd]
theorem upd_other {β : Type} (f : Nat → β) (t t' : Nat) (v : β) (h : t' ≠ t) : upd f t v t' = f t' := by simp [upd, h]

/-- one scheduling decision: thread `t` takes its next micro-step if it can -/
def stepThread (m : Sem σ ω) (c : Config σ ω) (t : Nat) : Config σ ω :=
  match c.cur t with
  | none =>
    match c.todo t with
    | [] => c
    | o :: rest =>
      if m.locked o then
        match c.holder with
        | none => { c with holder := some t, cur := upd c.cur t (some (m.body o)), todo := upd c.todo t rest }
        | some _ => c
      else { c with cur := upd c.cur t (some (m.body o)), todo := upd c.todo t rest }
  | some [] =>
    { c with holder := if c.holder = some t then none else c.holder, cur := upd c.cur t none }
  | some (f :: fs) => { c with shared := f c.shared, cur := upd c.cur t (some fs) }

def start (s0 : σ) (progs : Nat → List ω) : Config σ ω :=
  { shared := s0, holder := none, cur := fun _ => none, todo := progs }

def exec (m : Sem σ ω) (c : Config σ ω) (sched : List Nat) : Config σ ω := sched.foldl (stepThread m) c

def Config.finished (c : Config σ ω) : Prop := ∀ t, c.cur t = none ∧ c.todo t = []

/-- operations of thread `t` in `lin`, in order -/
def proj (lin : List (Nat × ω)) (t : Nat) : List ω := (lin.filter (fun p => p.1 == t)).map (·.2)

theorem proj_append_same (lin : List (Nat × ω)) (t : Nat) (o : ω) :
    proj (lin ++ [(t, o)]) t = proj lin t ++ [o] := by simp [proj]

theorem proj_append_other (lin : List (Nat × ω)) (t t' : Nat) (o : ω) (h : t' ≠ t) :
    proj (lin ++ [(t, o)]) t' = proj lin t' := by
  have : (t == t') = false := by simp; omega
  simp [proj, List.filter_append, this]

theorem seqRun_append (m : Sem σ ω) (s : σ) (lin : List (Nat × ω)) (p : Nat × ω) :
    seqRun m s (lin ++ [p]) = m.run p.2 (seqRun m s lin) := by simp [seqRun]

/-- the invariant: at most the mutex holder is inside an operation, and finishing that operation brings the shared
state to the sequential result of `lin` -/
structure Good (m : Sem σ ω) (s0 : σ) (progs : Nat → List ω) (c : Config σ ω) (lin : List (Nat × ω)) : Prop where
  proj : ∀ t, proj lin t ++ c.todo t = progs t
  idle : c.holder = none → (∀ t, c.cur t = none) ∧ c.shared = seqRun m s0 lin
  busy : ∀ t, c.holder = some t →
    (∀ t', t' ≠ t → c.cur t' = none) ∧ ∃ rest, c.cur t = some rest ∧ applyAll rest c.shared = seqRun m s0 lin

theorem good_start (m : Sem σ ω) (s0 : σ) (progs : Nat → List ω) : Good m s0 progs (start s0 progs) [] :=
  ⟨by intro t; simp [proj, start], by intro _; exact ⟨fun _ => rfl, rfl⟩, by intro t h; simp [start] at h⟩

theorem good_step (m : Sem σ ω) (s0 : σ) (progs : Nat → List ω) (hl : ∀ t, ∀ o ∈ progs t, m.locked o = true)
    (c : Config σ ω) (lin : List (Nat × ω)) (g : Good m s0 progs c lin) (t : Nat) :
    ∃ lin', Good m s0 progs (stepThread m c t) lin' := by
  obtain ⟨gp, gi, gb⟩ := g
  unfold stepThread
  cases hc : c.cur t with
  | none =>
    cases ht : c.todo t with
    | nil => exact ⟨lin, gp, gi, gb⟩
    | cons o rest =>
      have hol : m.locked o = true := hl t o (by rw [← gp t, ht]; simp)
      simp only [hol, if_true]
      cases hh : c.holder with
      | some t' => exact ⟨lin, gp, gi, gb⟩
      | none =>
        obtain ⟨hidle, hs⟩ := gi hh
        refine ⟨lin ++ [(t, o)], ?_, ?_, ?_⟩
        · intro t'
          by_cases e : t' = t
          · subst e; simp only [upd_same, proj_append_same]; rw [← gp t', ht]; simp
          · simp only [upd_other _ _ _ _ e, proj_append_other _ _ _ _ e]; exact gp t'
        · intro h; simp at h
        · intro t' h
          simp only [Option.some.injEq] at h
          subst h
          refine ⟨fun t'' e => by simp only [upd_other _ _ _ _ e]; exact hidle t'', m.body o, by simp, ?_⟩
          simp only [seqRun_append, Sem.run, hs]
  | some steps =>
    -- a thread inside an operation is the holder
    have hholder : c.holder = some t := by
      cases hh : c.holder with
      | none => have := (gi hh).1 t; rw [hc] at this; cases this
      | some t' =>
        by_cases e : t = t'
        · rw [e]
        · have := (gb t' hh).1 t e; rw [hc] at this; cases this
    obtain ⟨hothers, rest, hrest, hs⟩ := gb t hholder
    rw [hc] at hrest
    cases hrest
    cases steps with
    | nil =>
      refine ⟨lin, gp, ?_, ?_⟩
      · intro _
        refine ⟨fun t' => ?_, by simpa [applyAll] using hs⟩
        by_cases e : t' = t
        · subst e; simp
        · simp only [upd_other _ _ _ _ e]; exact hothers t' e
      · intro t' h; simp [hholder] at h
    | cons f fs =>
      refine ⟨lin, gp, ?_, ?_⟩
      · intro h; simp [hholder] at h
      · intro t' h
        simp only [hholder, Option.some.injEq] at h
        subst h
        refine ⟨fun t'' e => by simp only [upd_other _ _ _ _ e]; exact hothers t'' e, fs, by simp, ?_⟩
        simpa [applyAll] using hs

theorem good_exec (m : Sem σ ω) (s0 : σ) (progs : Nat → List ω) (hl : ∀ t, ∀ o ∈ progs t, m.locked o = true)
    (sched : List Nat) : ∀ (c : Config σ ω) (lin : List (Nat × ω)), Good m s0 progs c lin →
    ∃ lin', Good m s0 progs (exec m c sched) lin' := by
  induction sched with
  | nil => intro c lin g; exact ⟨lin, g⟩
  | cons t sched ih =>
    intro c lin g
    obtain ⟨lin', g'⟩ := good_step m s0 progs hl c lin g t
    exact ih _ _ g'

/-- **Atomicity from the lock discipline.** -/
theorem exec_linearizable (m : Sem σ ω) (s0 : σ) (progs : Nat → List ω) (hl : ∀ t, ∀ o ∈ progs t, m.locked o = true)
    (sched : List Nat) (hfin : (exec m (start s0 progs) sched).finished) :
    ∃ lin : List (Nat × ω), (∀ t, proj lin t = progs t) ∧
      (exec m (start s0 progs) sched).shared = seqRun m s0 lin := by
  obtain ⟨lin, gp, gi, gb⟩ := good_exec m s0 progs hl sched _ _ (good_start m s0 progs)
  refine ⟨lin, fun t => by have := gp t; rw [(hfin t).2] at this; simpa using this, ?_⟩
  cases hh : (exec m (start s0 progs) sched).holder with
  | none => exact (gi hh).2
  | some t =>
    obtain ⟨_, rest, hrest, _⟩ := gb t hh
    rw [(hfin t).1] at hrest; cases hrest

end Verif.RingMutex
